(* C11 — lemmas. *)
From Coq Require Import ZArith List Bool Arith Lia.
From Verif Require Import C11.Model C11.Spec.
Import ListNotations.

(* ------------------------------------------------------------------ *)
(* Lists. *)

Lemma skipn_snoc (em : list Z) (e : Z) n :
  n <= length em -> skipn n (em ++ [e]) = skipn n em ++ [e].
Proof.
  intros H. rewrite skipn_app. replace (n - length em) with 0 by lia. reflexivity.
Qed.

Lemma window_snoc (em : list Z) (e : Z) a b :
  b <= length em -> window (em ++ [e]) a b = window em a b.
Proof.
  intros H. unfold window.
  destruct (le_lt_dec a (length em)) as [Ha|Ha].
  - rewrite skipn_snoc by exact Ha. rewrite firstn_app.
    rewrite skipn_length. replace (b - a - (length em - a)) with 0 by lia.
    cbn [firstn]. apply app_nil_r.
  - replace (b - a) with 0 by lia. reflexivity.
Qed.

Lemma window_all (em : list Z) a : window em a (length em) = skipn a em.
Proof.
  unfold window. apply firstn_all2. rewrite skipn_length. lia.
Qed.

Lemma window_prefix (em : list Z) a b : is_prefix (window em a b) (skipn a em).
Proof.
  unfold window, is_prefix. exists (skipn (b - a) (skipn a em)). apply firstn_skipn.
Qed.

Lemma window_length (em : list Z) a b : length (window em a b) <= b - a.
Proof. unfold window. rewrite firstn_length. lia. Qed.

Lemma is_prefix_refl (a : list Z) : is_prefix a a.
Proof. exists []. apply app_nil_r. Qed.

Lemma is_prefix_trans (a b c : list Z) : is_prefix a b -> is_prefix b c -> is_prefix a c.
Proof.
  intros [r1 H1] [r2 H2]. exists (r1 ++ r2). rewrite app_assoc, H1. exact H2.
Qed.

Lemma is_prefix_app (a b c : list Z) : is_prefix b c -> is_prefix (a ++ b) (a ++ c).
Proof. intros [r H]. exists r. rewrite <- app_assoc, H. reflexivity. Qed.

Lemma is_prefix_length (a b : list Z) : is_prefix a b -> length a <= length b.
Proof. intros [r H]. rewrite <- H, app_length. lia. Qed.

Lemma prefixb_spec (a b : list Z) : prefixb a b = true <-> is_prefix a b.
Proof.
  revert b. induction a as [|x a IH]; intros b; cbn.
  - split; [intros _; exists b; reflexivity | reflexivity].
  - destruct b as [|y b].
    + split; [discriminate | intros [r H]; discriminate].
    + rewrite andb_true_iff, Z.eqb_eq, IH. split.
      * intros [-> [r H]]. exists r. cbn. now rewrite H.
      * intros [r H]. cbn in H. inversion H. split; [reflexivity | now exists r].
Qed.

Lemma in_firstn {A} (l : list A) n x : In x (firstn n l) -> In x l.
Proof. intros H. rewrite <- (firstn_skipn n l). apply in_or_app. now left. Qed.
Lemma in_skipn {A} (l : list A) n x : In x (skipn n l) -> In x l.
Proof. intros H. rewrite <- (firstn_skipn n l). apply in_or_app. now right. Qed.

(* ------------------------------------------------------------------ *)
(* upd_nth and the pointwise structure of step. *)

Lemma upd_nth_Forall (P : sub -> Prop) l i f :
  Forall P l -> (forall u, P u -> P (f u)) -> Forall P (upd_nth l i f).
Proof.
  intros Hl Hf. rewrite Forall_forall in Hl. unfold upd_nth.
  apply Forall_app; split; [|apply Forall_app; split].
  - apply Forall_forall. intros x Hx. apply Hl. eapply in_firstn; eauto.
  - destruct (nth_error l i) eqn:E; [|constructor]. constructor; [|constructor].
    apply Hf, Hl. eapply nth_error_In; eauto.
  - apply Forall_forall. intros x Hx. apply Hl. eapply in_skipn; eauto.
Qed.

Lemma upd_nth_length l i f : length (upd_nth l i f) = length l.
Proof.
  unfold upd_nth. rewrite !app_length, firstn_length, skipn_length.
  destruct (nth_error l i) eqn:E; cbn.
  - assert (i < length l) by (apply nth_error_Some; congruence). lia.
  - apply nth_error_None in E. lia.
Qed.

Lemma upd_nth_nil i f : upd_nth [] i f = [].
Proof. unfold upd_nth. destruct i; reflexivity. Qed.
Lemma upd_nth_0 u l f : upd_nth (u :: l) 0 f = f u :: l.
Proof. reflexivity. Qed.
Lemma upd_nth_S u l i f : upd_nth (u :: l) (S i) f = u :: upd_nth l i f.
Proof. reflexivity. Qed.

Lemma upd_nth_same l i f u :
  nth_error l i = Some u -> nth_error (upd_nth l i f) i = Some (f u).
Proof.
  revert i. induction l as [|x l IH]; intros i H.
  - destruct i; discriminate.
  - destruct i as [|i].
    + cbn in H. inversion H. reflexivity.
    + rewrite upd_nth_S. cbn [nth_error] in *. apply IH, H.
Qed.

Lemma upd_nth_other l i j f :
  i <> j -> nth_error (upd_nth l i f) j = nth_error l j.
Proof.
  revert i j. induction l as [|x l IH]; intros i j Hij.
  - rewrite upd_nth_nil. reflexivity.
  - destruct i as [|i].
    + rewrite upd_nth_0. destruct j as [|j]; [lia | reflexivity].
    + rewrite upd_nth_S. destruct j as [|j]; [reflexivity|].
      cbn [nth_error]. apply IH. lia.
Qed.

(* ------------------------------------------------------------------ *)
(* The invariant, per subscriber. *)

(* conservation: nothing accepted for a subscriber is lost, duplicated or
   reordered on its way to the consumer; after cancel what was received plus
   what is still buffered in the channel is a prefix *)
Definition conserv (u : sub) : Prop :=
  if closed u then q u = [] /\ hold u = None /\ is_prefix (got u ++ ch u) (pushed u)
  else got u ++ in_flight u = pushed u.

(* what the handler pushed is exactly what is owed *)
Definition ghost_ok (em : list Z) (u : sub) : Prop :=
  reg_at u <= length em /\
  (if closed u then
     reg_at u <= end_at u /\ end_at u <= length em /\
     (if missed u then exists e, pushed u ++ [e] = owed_until_end em u
      else pushed u = owed_until_end em u)
   else
     if missed u then exists e, pushed u ++ [e] = owed em u
     else pushed u = owed em u).

Definition sub_inv (em : list Z) (p : phase) (u : sub) : Prop :=
  conserv u /\ ghost_ok em u /\
  (alive p = true -> missed u = false) /\
  (seen_closed u = true -> closed u = true) /\
  length (ch u) <= cap.

Definition inv (s : sys) : Prop := Forall (sub_inv (emitted s) (ph s)) (subs s).

Ltac destr_sub u :=
  destruct u as [ub ur uen up um uq uh uc ug ucl usc]; cbn in *.

Lemma new_sub_inv em p b : alive p = true -> sub_inv em p (new_sub b (length em)).
Proof.
  intros _. unfold sub_inv, conserv, ghost_ok, in_flight, owed. cbn.
  rewrite skipn_all, app_nil_r. unfold cap. repeat split; try reflexivity; try lia; try discriminate.
Qed.

Lemma emit_one_inv em p p' e bt u :
  sub_inv em p u -> alive p = true ->
  (closed u = false -> bt = false -> p' = HandlerDead) ->
  sub_inv (em ++ [e]) p' (emit_one e bt u).
Proof.
  intros (Hc & (Hr & Hg) & Hm & Hs & Hcap) Hp Hd.
  specialize (Hm Hp).
  unfold emit_one. destruct (closed u) eqn:Hcl.
  - (* closed: untouched, the window does not move *)
    unfold sub_inv, conserv, ghost_ok in *. rewrite Hcl, Hm in *.
    destruct Hg as (H1 & H2 & H3).
    repeat split; try assumption; try (rewrite app_length; cbn; lia); try tauto.
    unfold owed_until_end. rewrite window_snoc by exact H2. exact H3.
  - destruct bt.
    + (* enqueue *)
      unfold sub_inv, conserv, ghost_ok, in_flight, owed in *.
      destr_sub u. subst ucl um.
      repeat split; try assumption; try (rewrite app_length; cbn; lia); try tauto.
      * rewrite <- Hc. rewrite <- !app_assoc. reflexivity.
      * rewrite Hg. rewrite skipn_snoc by exact Hr. rewrite <- app_assoc. reflexivity.
    + (* skipped during shutdown *)
      specialize (Hd eq_refl eq_refl). subst p'.
      unfold sub_inv, conserv, ghost_ok, in_flight, owed in *.
      destr_sub u. subst ucl um.
      repeat split; try assumption; try (rewrite app_length; cbn; lia); try discriminate.
      exists e. rewrite Hg. rewrite skipn_snoc by exact Hr. rewrite <- app_assoc. reflexivity.
Qed.

Lemma close_sub_inv em p p' u :
  sub_inv em p u -> (alive p' = true -> alive p = true) ->
  sub_inv em p' (close_sub (length em) u).
Proof.
  intros (Hc & (Hr & Hg) & Hm & Hs & Hcap) Hp.
  unfold close_sub. destruct (closed u) eqn:Hcl.
  - unfold sub_inv, conserv, ghost_ok in *. rewrite Hcl in *. repeat split; try tauto.
  - unfold sub_inv, conserv, ghost_ok, in_flight, owed_until_end, owed in *.
    destr_sub u. subst ucl.
    repeat split; try assumption; try lia; try tauto.
    + exists (opt_list uh ++ uq). rewrite <- Hc, <- !app_assoc. reflexivity.
    + fold (window em ur (length em)). rewrite window_all. exact Hg.
Qed.

Lemma phase_inv em p p' u :
  sub_inv em p u -> (alive p' = true -> alive p = true) -> sub_inv em p' u.
Proof.
  intros (Hc & Hg & Hm & Hs & Hcap) Hp. unfold sub_inv.
  split; [exact Hc|]. split; [exact Hg|]. split; [tauto|]. split; assumption.
Qed.

Lemma forward_inv em p u : sub_inv em p u -> sub_inv em p (forward u).
Proof.
  intros H. unfold forward.
  destruct (closed u) eqn:Hcl; [exact H|].
  destruct (hold u) eqn:Hh; [exact H|].
  destruct (q u) as [|e r] eqn:Hq; [exact H|].
  destruct H as (Hc & Hg & Hm & Hs & Hcap).
  unfold sub_inv, conserv, ghost_ok, in_flight in *.
  destr_sub u. subst ucl uh uq. cbn in *.
  repeat split; try tauto.
Qed.

Lemma push_inv em p u : sub_inv em p u -> sub_inv em p (push u).
Proof.
  intros H. unfold push.
  destruct (closed u) eqn:Hcl; [exact H|].
  destruct (hold u) as [e|] eqn:Hh; [|exact H].
  destruct (length (ch u) <? cap) eqn:Hlt; [|exact H].
  apply Nat.ltb_lt in Hlt.
  destruct H as (Hc & Hg & Hm & Hs & Hcap).
  unfold sub_inv, conserv, ghost_ok, in_flight in *.
  destr_sub u. subst ucl uh. cbn in *.
  repeat split; try tauto.
  - rewrite <- Hc, <- !app_assoc. reflexivity.
  - rewrite app_length. cbn. lia.
Qed.

Lemma read_inv em p u : sub_inv em p u -> sub_inv em p (read u).
Proof.
  intros H. unfold read.
  destruct (ch u) as [|e r] eqn:Hch.
  - destruct (closed u) eqn:Hcl; [|exact H].
    destruct H as (Hc & Hg & Hm & Hs & Hcap).
    unfold sub_inv, conserv, ghost_ok, in_flight in *.
    destr_sub u. subst ucl uc. cbn in *.
    repeat split; try tauto; try lia.
  - destruct H as (Hc & Hg & Hm & Hs & Hcap).
    unfold sub_inv, conserv, ghost_ok, in_flight in *.
    destr_sub u. subst uc. cbn in *.
    repeat split; try tauto; try lia.
    destruct ucl.
    + destruct Hc as (H1 & H2 & H3). repeat split; try assumption.
      rewrite <- app_assoc. exact H3.
    + rewrite <- Hc, <- !app_assoc. reflexivity.
Qed.

(* ------------------------------------------------------------------ *)
(* The invariant holds along every action list. *)

Lemma emit_mask_inv em p p' e : alive p = true -> forall l m,
  (dropped m l = true -> p' = HandlerDead) ->
  Forall (sub_inv em p) l -> Forall (sub_inv (em ++ [e]) p') (emit_mask e m l).
Proof.
  intros Hp. induction l as [|u l IH]; intros m Hd Hl; cbn [emit_mask]; [constructor|].
  inversion Hl as [|? ? Hu Hl']; subst. cbn [dropped] in Hd. constructor.
  - apply emit_one_inv with (p := p); [exact Hu | exact Hp |].
    intros Hcl Hb. apply Hd. rewrite Hcl, Hb. reflexivity.
  - apply IH; [|exact Hl']. intros H. apply Hd. rewrite H. apply orb_true_r.
Qed.

Lemma Forall_map_sub (P Q : sub -> Prop) f l :
  (forall u, P u -> Q (f u)) -> Forall P l -> Forall Q (map f l).
Proof. intros Hf Hl. induction Hl; cbn; constructor; auto. Qed.

Theorem step_inv s a : inv s -> inv (step s a).
Proof.
  unfold inv. intros Hs. destruct a; cbn [step].
  - (* Emit *) destruct (ph s) eqn:Hp; try (rewrite Hp; exact Hs); cbn [subs emitted ph].
    + eapply Forall_map_sub; [|exact Hs]. intros u Hu.
      apply emit_one_inv with (p := Running); [exact Hu | reflexivity | discriminate].
    + apply emit_mask_inv with (p := Stopping); [reflexivity | | exact Hs].
      intros ->. reflexivity.
  - (* Register *) destruct (ph s) eqn:Hp; try (rewrite Hp; exact Hs); cbn [subs emitted ph];
    (apply Forall_app; split;
      [exact Hs | apply Forall_cons; [apply new_sub_inv; reflexivity | apply Forall_nil]]).
  - (* Cancel *) destruct (ph s) eqn:Hp; try (rewrite Hp; exact Hs); cbn [subs emitted ph];
    (apply upd_nth_Forall; [exact Hs|]); intros u Hu; eapply close_sub_inv; eauto.
  - (* Forward *) cbn [subs emitted ph]. apply upd_nth_Forall; [exact Hs|]. intros u. apply forward_inv.
  - (* Push *) cbn [subs emitted ph]. apply upd_nth_Forall; [exact Hs|]. intros u. apply push_inv.
  - (* Read *) cbn [subs emitted ph]. apply upd_nth_Forall; [exact Hs|]. intros u. apply read_inv.
  - (* StopBegin *) destruct (ph s) eqn:Hp; try (rewrite Hp; exact Hs); cbn [subs emitted ph].
    eapply Forall_impl; [|exact Hs]. intros u Hu. eapply phase_inv; eauto.
  - (* StopEnd *) destruct (ph s) eqn:Hp; try (rewrite Hp; exact Hs); cbn [subs emitted ph];
    (eapply Forall_map_sub; [|exact Hs]); intros u Hu; eapply close_sub_inv; eauto; discriminate.
Qed.

Lemma run_inv acts : forall s, inv s -> inv (run acts s).
Proof.
  induction acts as [|a t IH]; intros s Hs; [exact Hs|]. cbn. apply IH, step_inv, Hs.
Qed.

Theorem reachable_inv s : reachable s -> inv s.
Proof. intros [acts ->]. apply run_inv. constructor. Qed.

Lemma inv_nth s i u : inv s -> nth_error (subs s) i = Some u -> sub_inv (emitted s) (ph s) u.
Proof.
  intros Hs Hn. unfold inv in Hs. rewrite Forall_forall in Hs. apply Hs. eapply nth_error_In; eauto.
Qed.

(* ------------------------------------------------------------------ *)
(* Consequences in the vocabulary of the property. *)

(* conservation, live subscriber, manager running: delivered ++ in_flight is
   exactly backlog ++ events after registration *)
Lemma conservation_live s i u :
  reachable s -> nth_error (subs s) i = Some u -> closed u = false -> alive (ph s) = true ->
  delivered u ++ in_flight u = owed (emitted s) u.
Proof.
  intros Hr Hn Hcl Hal. destruct (inv_nth s i u (reachable_inv s Hr) Hn) as (Hc & (_ & Hg) & Hm & _).
  unfold conserv, ghost_ok in *. rewrite Hcl in *. rewrite (Hm Hal) in Hg.
  unfold delivered. rewrite Hc. exact Hg.
Qed.

(* every state: what was delivered plus what the channel still holds is a
   prefix of what is owed (order, no duplicate, no foreign event, no gap),
   and of what is owed up to the cancellation when cancelled *)
Lemma pushed_prefix em u : ghost_ok em u -> is_prefix (pushed u) (owed em u).
Proof.
  intros (Hr & Hg). unfold owed, owed_until_end in *.
  destruct (closed u).
  - destruct Hg as (H1 & H2 & Hg).
    assert (Hw : is_prefix (backlog u ++ window em (reg_at u) (end_at u)) (backlog u ++ skipn (reg_at u) em))
      by apply is_prefix_app, window_prefix.
    destruct (missed u).
    + destruct Hg as [e He]. eapply is_prefix_trans; [|exact Hw]. exists [e]. exact He.
    + rewrite Hg. exact Hw.
  - destruct (missed u).
    + destruct Hg as [e He]. exists [e]. exact He.
    + rewrite Hg. apply is_prefix_refl.
Qed.

Lemma got_prefix_pushed u : conserv u -> is_prefix (got u ++ ch u) (pushed u).
Proof.
  unfold conserv, in_flight. destruct (closed u).
  - intros (_ & _ & H). exact H.
  - intros H. exists (opt_list (hold u) ++ q u). rewrite <- H, <- !app_assoc. reflexivity.
Qed.

Lemma prefix_always s i u :
  reachable s -> nth_error (subs s) i = Some u ->
  is_prefix (delivered u ++ ch u) (owed (emitted s) u).
Proof.
  intros Hr Hn. destruct (inv_nth s i u (reachable_inv s Hr) Hn) as (Hc & Hg & _).
  eapply is_prefix_trans; [apply got_prefix_pushed, Hc | apply pushed_prefix, Hg].
Qed.

(* cancelled (or stopped) subscriber: prefix of what was owed up to that
   point: nothing emitted after the cancel is ever delivered *)
Lemma prefix_until_end s i u :
  reachable s -> nth_error (subs s) i = Some u -> closed u = true ->
  is_prefix (delivered u ++ ch u) (owed_until_end (emitted s) u) /\
  in_flight u = ch u /\
  reg_at u <= end_at u <= length (emitted s).
Proof.
  intros Hr Hn Hcl. destruct (inv_nth s i u (reachable_inv s Hr) Hn) as (Hc & (_ & Hg) & _).
  unfold conserv, ghost_ok, in_flight in *. rewrite Hcl in *.
  destruct Hc as (Hq & Hh & Hc). destruct Hg as (H1 & H2 & Hg).
  split; [|split; [rewrite Hq, Hh; cbn; apply app_nil_r | lia]].
  eapply is_prefix_trans; [exact Hc|].
  destruct (missed u).
  - destruct Hg as [e He]. exists [e]. exact He.
  - rewrite Hg. apply is_prefix_refl.
Qed.

(* a subscriber cancelled while no shutdown interfered was pushed exactly
   the events up to its cancellation *)
Lemma pushed_exact_until_end s i u :
  reachable s -> nth_error (subs s) i = Some u -> closed u = true -> missed u = false ->
  pushed u = owed_until_end (emitted s) u.
Proof.
  intros Hr Hn Hcl Hm. destruct (inv_nth s i u (reachable_inv s Hr) Hn) as (_ & (_ & Hg) & _).
  unfold ghost_ok in Hg. rewrite Hcl, Hm in Hg. tauto.
Qed.

(* during shutdown a live subscriber misses at most the one notification on
   which the handler left its loop *)
Lemma shutdown_misses_at_most_one s i u :
  reachable s -> nth_error (subs s) i = Some u -> closed u = false ->
  delivered u ++ in_flight u = owed (emitted s) u \/
  exists e, (delivered u ++ in_flight u) ++ [e] = owed (emitted s) u.
Proof.
  intros Hr Hn Hcl. destruct (inv_nth s i u (reachable_inv s Hr) Hn) as (Hc & (_ & Hg) & _).
  unfold conserv, ghost_ok, delivered in *. rewrite Hcl in *. rewrite Hc.
  destruct (missed u); [right | left]; exact Hg.
Qed.

Lemma channel_capacity s i u :
  reachable s -> nth_error (subs s) i = Some u -> length (ch u) <= cap.
Proof.
  intros Hr Hn. destruct (inv_nth s i u (reachable_inv s Hr) Hn) as (_ & _ & _ & _ & H). exact H.
Qed.

(* ------------------------------------------------------------------ *)
(* Enabledness: no head-of-line blocking. *)

Lemma upd_nth_id l i f :
  (forall u, nth_error l i = Some u -> f u = u) -> upd_nth l i f = l.
Proof.
  revert i. induction l as [|x l IH]; intros i H.
  - apply upd_nth_nil.
  - destruct i as [|i].
    + rewrite upd_nth_0. f_equal. apply H. reflexivity.
    + rewrite upd_nth_S. f_equal. apply IH. intros u Hu. apply H. exact Hu.
Qed.

Lemma sys_eta s : mkSys (subs s) (emitted s) (ph s) = s.
Proof. destruct s; reflexivity. Qed.

Lemma sub_guard_false f s i u :
  sub_guard f s i = false -> nth_error (subs s) i = Some u -> f u = false.
Proof. unfold sub_guard. intros H Hn. rewrite Hn in H. exact H. Qed.

(* the guard is exact: a disabled action is a stutter *)
Lemma disabled_stutters s a : enabledb s a = false -> step s a = s.
Proof.
  destruct a; cbn [enabledb step]; intros H.
  - destruct (ph s); try reflexivity; discriminate.
  - destruct (ph s); try reflexivity; discriminate.
  - destruct (ph s) eqn:Hp; try reflexivity; cbn in H;
    (rewrite upd_nth_id; [rewrite <- Hp; apply sys_eta|]);
    intros u Hu; apply (sub_guard_false _ _ _ _ H) in Hu;
    unfold close_sub; destruct (closed u); [reflexivity | discriminate | reflexivity | discriminate].
  - rewrite upd_nth_id; [apply sys_eta|]. intros u Hu. apply (sub_guard_false _ _ _ _ H) in Hu.
    unfold forward. destruct (closed u); [reflexivity|]. cbn in Hu.
    destruct (hold u); [reflexivity|]. destruct (q u); [reflexivity | discriminate].
  - rewrite upd_nth_id; [apply sys_eta|]. intros u Hu. apply (sub_guard_false _ _ _ _ H) in Hu.
    unfold push. destruct (closed u); [reflexivity|]. cbn [negb andb] in Hu.
    destruct (hold u); [|reflexivity]. rewrite Hu. reflexivity.
  - rewrite upd_nth_id; [apply sys_eta|]. intros u Hu. apply (sub_guard_false _ _ _ _ H) in Hu.
    unfold read. destr_sub u. destruct uc; [|discriminate].
    destruct ucl; [|reflexivity]. destruct usc; [reflexivity | discriminate].
  - destruct (ph s); try reflexivity; discriminate.
  - destruct (ph s); try reflexivity; discriminate.
Qed.

(* While the manager runs, the handler's transitions are enabled in EVERY
   state (reachable or not): whatever the queues, forwarders, channels and
   consumers of any subscriber look like — full channel, consumer that never
   reads — and they have their full effect. *)
Lemma handler_enabled s :
  alive (ph s) = true ->
  (forall e m, enabledb s (Emit e m) = true) /\
  (forall b, enabledb s (Register b) = true) /\
  (forall i u, nth_error (subs s) i = Some u -> closed u = false -> enabledb s (Cancel i) = true).
Proof.
  intros H. cbn [enabledb]. rewrite H. repeat split; try reflexivity.
  intros i u Hn Hcl. unfold sub_guard. rewrite Hn, Hcl. reflexivity.
Qed.

Lemma emit_effect s e m :
  ph s = Running ->
  emitted (step s (Emit e m)) = emitted s ++ [e] /\
  ph (step s (Emit e m)) = Running /\
  forall j u, nth_error (subs s) j = Some u ->
    nth_error (subs (step s (Emit e m))) j = Some (if closed u then u else enqueue e u).
Proof.
  intros H. cbn [step]. rewrite H. cbn [subs emitted ph]. repeat split.
  intros j u Hn. erewrite map_nth_error by exact Hn. reflexivity.
Qed.

Lemma register_effect s b :
  alive (ph s) = true ->
  subs (step s (Register b)) = subs s ++ [new_sub b (length (emitted s))] /\
  emitted (step s (Register b)) = emitted s.
Proof. intros H. cbn [step]. destruct (ph s); try discriminate; split; reflexivity. Qed.

Lemma cancel_effect s i u :
  alive (ph s) = true -> nth_error (subs s) i = Some u ->
  nth_error (subs (step s (Cancel i))) i = Some (close_sub (length (emitted s)) u) /\
  (forall j, j <> i -> nth_error (subs (step s (Cancel i))) j = nth_error (subs s) j) /\
  emitted (step s (Cancel i)) = emitted s.
Proof.
  intros H Hn. cbn [step]. destruct (ph s); try discriminate; cbn [subs emitted];
  (split; [apply upd_nth_same; exact Hn | split; [|reflexivity]]);
  intros j Hj; apply upd_nth_other; congruence.
Qed.

(* contrast: the forwarder of a subscriber whose channel is full IS blocked *)
Lemma push_blocked_when_full s i u :
  nth_error (subs s) i = Some u -> length (ch u) = cap -> enabledb s (Push i) = false.
Proof.
  intros Hn Hl. cbn [enabledb]. unfold sub_guard. rewrite Hn.
  destruct (closed u); [reflexivity|]. destruct (hold u); [|reflexivity].
  rewrite Hl. cbn. reflexivity.
Qed.

(* ------------------------------------------------------------------ *)
(* Every transition acts on each subscriber separately. *)

Definition sub_step (u u' : sub) : Prop :=
  u' = u \/ (exists e b, u' = emit_one e b u) \/ (exists n, u' = close_sub n u) \/
  u' = forward u \/ u' = push u \/ u' = read u.

Lemma emit_mask_nth e l : forall m i u,
  nth_error l i = Some u -> exists b, nth_error (emit_mask e m l) i = Some (emit_one e b u).
Proof.
  induction l as [|x l IH]; intros m i u H.
  - destruct i; discriminate.
  - destruct i as [|i]; cbn [emit_mask nth_error] in *.
    + inversion H. eexists. reflexivity.
    + apply IH. exact H.
Qed.

Lemma upd_nth_nth l i j f u :
  nth_error l j = Some u ->
  nth_error (upd_nth l i f) j = Some (if Nat.eqb i j then f u else u).
Proof.
  intros H. destruct (Nat.eqb i j) eqn:E.
  - apply Nat.eqb_eq in E. subst. apply upd_nth_same. exact H.
  - apply Nat.eqb_neq in E. rewrite upd_nth_other by exact E. exact H.
Qed.

Lemma step_nth s a i u :
  nth_error (subs s) i = Some u ->
  exists u', nth_error (subs (step s a)) i = Some u' /\ sub_step u u'.
Proof.
  intros Hn. unfold sub_step.
  assert (Hsame : exists u', nth_error (subs s) i = Some u' /\ sub_step u u')
    by (exists u; split; [exact Hn | left; reflexivity]).
  assert (Hupd : forall k f, (f u = forward u \/ f u = push u \/ f u = read u \/ exists n, f u = close_sub n u) ->
            exists u', nth_error (upd_nth (subs s) k f) i = Some u' /\ sub_step u u').
  { intros k f Hf. eexists. split; [apply upd_nth_nth; exact Hn|].
    unfold sub_step. destruct (Nat.eqb k i); [|left; reflexivity].
    destruct Hf as [->|[->|[->|[n ->]]]]; eauto 8. }
  destruct a; cbn [step].
  - destruct (ph s); try exact Hsame; cbn [subs].
    + eexists. split; [apply map_nth_error; exact Hn|]. right. left. eauto.
    + destruct (emit_mask_nth e (subs s) mask i u Hn) as [b Hb].
      eexists. split; [exact Hb|]. right. left. eauto.
  - destruct (ph s); try exact Hsame; cbn [subs];
    (exists u; split; [|left; reflexivity]);
    (rewrite nth_error_app1; [exact Hn | apply nth_error_Some; congruence]).
  - destruct (ph s); try exact Hsame; cbn [subs]; apply Hupd; eauto.
  - cbn [subs]. apply Hupd; eauto.
  - cbn [subs]. apply Hupd; eauto.
  - cbn [subs]. apply Hupd; eauto.
  - destruct (ph s); exact Hsame.
  - destruct (ph s); try exact Hsame; cbn [subs];
    (eexists; split; [apply map_nth_error; exact Hn|]); right; right; left; eauto.
Qed.

(* ------------------------------------------------------------------ *)
(* After cancel / stop: closed for good, nothing new is ever delivered. *)

Definition frozen (u u' : sub) : Prop :=
  closed u' = true /\ pushed u' = pushed u /\ got u' ++ ch u' = got u ++ ch u /\
  q u' = q u /\ hold u' = hold u /\
  backlog u' = backlog u /\ reg_at u' = reg_at u /\ end_at u' = end_at u.

Lemma sub_step_frozen u u' : closed u = true -> sub_step u u' -> frozen u u'.
Proof.
  intros Hcl [->|[(e & b & ->)|[(n & ->)|[->|[->| ->]]]]]; unfold frozen.
  - repeat split; assumption || reflexivity.
  - unfold emit_one. rewrite Hcl. repeat split; assumption || reflexivity.
  - unfold close_sub. rewrite Hcl. repeat split; assumption || reflexivity.
  - unfold forward. rewrite Hcl. repeat split; assumption || reflexivity.
  - unfold push. rewrite Hcl. repeat split; assumption || reflexivity.
  - unfold read. destruct (ch u) as [|x r] eqn:Hch.
    + rewrite Hcl. cbn. repeat split; reflexivity.
    + cbn. repeat split; try assumption; try reflexivity.
      rewrite <- app_assoc. reflexivity.
Qed.

Lemma frozen_trans u u' u'' : frozen u u' -> frozen u' u'' -> frozen u u''.
Proof.
  unfold frozen. intros (A1 & A2 & A3 & A4 & A5 & A6 & A7 & A8) (B1 & B2 & B3 & B4 & B5 & B6 & B7 & B8).
  repeat split; congruence.
Qed.

Theorem closed_forever acts : forall s i u,
  nth_error (subs s) i = Some u -> closed u = true ->
  exists u', nth_error (subs (run acts s)) i = Some u' /\ frozen u u'.
Proof.
  induction acts as [|a t IH]; intros s i u Hn Hcl.
  - exists u. split; [exact Hn|]. unfold frozen. repeat split; assumption || reflexivity.
  - cbn. destruct (step_nth s a i u Hn) as (u1 & Hn1 & Hst).
    pose proof (sub_step_frozen u u1 Hcl Hst) as Hf1.
    destruct (IH (step s a) i u1 Hn1 (proj1 Hf1)) as (u2 & Hn2 & Hf2).
    exists u2. split; [exact Hn2 | eapply frozen_trans; eauto].
Qed.

Lemma cancel_closes s i u :
  alive (ph s) = true -> nth_error (subs s) i = Some u ->
  exists u', nth_error (subs (step s (Cancel i))) i = Some u' /\ closed u' = true.
Proof.
  intros Ha Hn. destruct (cancel_effect s i u Ha Hn) as (H & _).
  eexists. split; [exact H|]. unfold close_sub. destruct (closed u) eqn:E; [exact E | reflexivity].
Qed.

Lemma stop_closes_all s :
  ph s <> Stopped ->
  ph (run [StopBegin; StopEnd] s) = Stopped /\
  Forall (fun u => closed u = true) (subs (run [StopBegin; StopEnd] s)).
Proof.
  intros Hp. cbn [run fold_left].
  assert (Hc : forall n l, Forall (fun u => closed u = true) (map (close_sub n) l)).
  { intros n l. induction l as [|x l IH]; cbn; constructor; [|exact IH].
    unfold close_sub. destruct (closed x) eqn:E; [exact E | reflexivity]. }
  destruct (ph s) eqn:E; cbn [step]; rewrite ?E; cbn [step ph subs emitted]; rewrite ?E;
    cbn [ph subs]; try (split; [reflexivity | apply Hc]).
  congruence.
Qed.

Fixpoint iter_read (n : nat) (u : sub) : sub :=
  match n with O => u | S n' => iter_read n' (read u) end.

(* a consumer that keeps reading sees what the channel still holds, then the close *)
Lemma reads_sub u : forall n, closed u = true -> length (ch u) <= n ->
  seen_closed (iter_read (S n) u) = true /\
  got (iter_read (S n) u) = got u ++ ch u /\ ch (iter_read (S n) u) = [].
Proof.
  intros n. revert u. induction n as [|n IH]; intros u Hcl Hl.
  - destruct (ch u) as [|x r] eqn:Hch; [|cbn in Hl; lia].
    cbn. unfold read. rewrite Hch, Hcl. cbn. rewrite app_nil_r. repeat split; reflexivity.
  - change (iter_read (S (S n)) u) with (iter_read (S n) (read u)).
    destruct (ch u) as [|x r] eqn:Hch.
    + assert (Hr : read u = mkSub (backlog u) (reg_at u) (end_at u) (pushed u) (missed u)
                                  (q u) (hold u) [] (got u) true true)
        by (unfold read; rewrite Hch, Hcl; reflexivity).
      destruct (IH (read u)) as (H1 & H2 & H3); [rewrite Hr; reflexivity | rewrite Hr; cbn; lia|].
      rewrite H1, H2, H3. rewrite Hr. cbn. repeat split; reflexivity.
    + assert (Hr : read u = mkSub (backlog u) (reg_at u) (end_at u) (pushed u) (missed u)
                                  (q u) (hold u) r (got u ++ [x]) (closed u) (seen_closed u))
        by (unfold read; rewrite Hch; reflexivity).
      destruct (IH (read u)) as (H1 & H2 & H3); [rewrite Hr; exact Hcl | rewrite Hr; cbn in *; lia|].
      rewrite H1, H2, H3. rewrite Hr. cbn. rewrite <- app_assoc. repeat split; reflexivity.
Qed.

Lemma run_reads i : forall n s u,
  nth_error (subs s) i = Some u ->
  nth_error (subs (run (repeat (Read i) n) s)) i = Some (iter_read n u).
Proof.
  induction n as [|n IH]; intros s u Hn; [exact Hn|].
  cbn [iter_read repeat run fold_left]. apply IH.
  cbn [step subs]. apply upd_nth_same. exact Hn.
Qed.

Theorem close_is_observed s i u :
  nth_error (subs s) i = Some u -> closed u = true ->
  exists u', nth_error (subs (run (repeat (Read i) (S (length (ch u)))) s)) i = Some u' /\
             seen_closed u' = true /\ got u' = got u ++ ch u.
Proof.
  intros Hn Hcl. eexists. split; [apply run_reads; exact Hn|].
  destruct (reads_sub u (length (ch u)) Hcl (le_n _)) as (H1 & H2 & _). split; assumption.
Qed.

(* ------------------------------------------------------------------ *)
(* Soundness of the acceptor: every observation of every run is admissible. *)

Theorem admissible_sound s i u o :
  reachable s -> nth_error (subs s) i = Some u -> obs_of u o ->
  admissible (emitted s) o = true.
Proof.
  intros Hr Hn (Hb & Hg & Hc & He & Hreg & Hend & Hmust).
  pose proof (inv_nth s i u (reachable_inv s Hr) Hn) as (Hcons & Hgh & _ & Hseen & _).
  pose proof (prefix_always s i u Hr Hn) as Hpre.
  unfold admissible. apply existsb_exists. exists (reg_at u). split.
  - apply in_seq. destruct Hgh as (Hle & _). lia.
  - apply andb_true_iff. split.
    + apply andb_true_iff. split; apply Z.leb_le; lia.
    + unfold check_at. rewrite Hb, Hg, Hc, He.
      repeat (apply andb_true_iff; split).
      * apply prefixb_spec. eapply is_prefix_trans; [|exact Hpre].
        exists (ch u). reflexivity.
      * destruct (closed u) eqn:Hcl; [|reflexivity].
        destruct (prefix_until_end s i u Hr Hn Hcl) as (Hp & _ & Hbounds).
        apply is_prefix_length in Hp. unfold delivered, owed_until_end in Hp.
        rewrite !app_length in Hp.
        pose proof (window_length (emitted s) (reg_at u) (end_at u)) as Hw.
        specialize (Hend eq_refl). apply Z.leb_le. unfold len. lia.
      * apply orb_true_iff. destruct Hmust as [H0|Hm].
        -- left. apply Z.eqb_eq. exact H0.
        -- right. apply Z.leb_le. exact Hm.
      * destruct (seen_closed u) eqn:Hsc; [|reflexivity].
        rewrite (Hseen eq_refl). reflexivity.
Qed.

(* the exact observation of the model (no slack in the bounds) *)
Definition exact_obs (u : sub) : sobs :=
  mkObs (backlog u) (Z.of_nat (reg_at u)) (Z.of_nat (reg_at u)) (got u)
        (seen_closed u) (closed u) 0 (Z.of_nat (end_at u)).

Lemma exact_obs_of u : obs_of u (exact_obs u).
Proof. unfold obs_of, exact_obs. cbn. repeat split; try lia; auto. Qed.

(* ------------------------------------------------------------------ *)
(* Progress under a fair scheduler. *)

Definition mu (u : sub) : nat :=
  3 * length (q u) + (match hold u with Some _ => 2 | None => 0 end) + length (ch u).

Lemma run_sched_S sched t s :
  run_sched sched (S t) s = step (run_sched sched t s) (sched t).
Proof.
  unfold run_sched, run. rewrite seq_S, map_app, fold_left_app. reflexivity.
Qed.

Definition quiet_act (a : act) : Prop :=
  match a with Emit _ _ | Cancel _ | StopBegin | StopEnd => False | _ => True end.

Definition keeps (u u' : sub) : Prop :=
  closed u' = false /\ pushed u' = pushed u /\ backlog u' = backlog u /\ reg_at u' = reg_at u /\
  missed u' = missed u.

Lemma forward_mu u : closed u = false ->
  keeps u (forward u) /\ (forward u = u \/ mu (forward u) < mu u).
Proof.
  intros Hcl. unfold forward, keeps. rewrite Hcl.
  destruct (hold u) eqn:Hh; [repeat split; auto|].
  destruct (q u) as [|e r] eqn:Hq; [repeat split; auto|].
  repeat split; try reflexivity. right. unfold mu. cbn. rewrite Hh, Hq. cbn. lia.
Qed.

Lemma push_mu u : closed u = false ->
  keeps u (push u) /\ (push u = u \/ mu (push u) < mu u).
Proof.
  intros Hcl. unfold push, keeps. rewrite Hcl.
  destruct (hold u) eqn:Hh; [|repeat split; auto].
  destruct (length (ch u) <? cap); [|repeat split; auto].
  repeat split; try reflexivity. right. unfold mu. cbn. rewrite Hh, app_length. cbn. lia.
Qed.

Lemma read_mu u : closed u = false ->
  keeps u (read u) /\ (read u = u \/ mu (read u) < mu u).
Proof.
  intros Hcl. unfold read, keeps.
  destruct (ch u) as [|e r] eqn:Hc.
  - rewrite Hcl. repeat split; auto.
  - cbn. repeat split; try assumption; try reflexivity. right. unfold mu. cbn. rewrite Hc. cbn. lia.
Qed.

Lemma quiet_step s a i u :
  quiet_act a -> nth_error (subs s) i = Some u -> closed u = false ->
  exists u', nth_error (subs (step s a)) i = Some u' /\ keeps u u' /\ (u' = u \/ mu u' < mu u).
Proof.
  intros Hq Hn Hcl.
  assert (Hsame : keeps u u /\ (u = u \/ mu u < mu u)) by (unfold keeps; repeat split; auto).
  assert (Hupd : forall k f, (keeps u (f u) /\ (f u = u \/ mu (f u) < mu u)) ->
     exists u', nth_error (upd_nth (subs s) k f) i = Some u' /\ keeps u u' /\ (u' = u \/ mu u' < mu u)).
  { intros k f Hf. eexists. split; [apply upd_nth_nth; exact Hn|].
    destruct (Nat.eqb k i); [exact Hf | exact Hsame]. }
  destruct a; cbn [quiet_act] in Hq; try contradiction; cbn [step].
  - exists u. split; [|exact Hsame].
    destruct (ph s); cbn [subs]; try exact Hn;
    (rewrite nth_error_app1; [exact Hn | apply nth_error_Some; congruence]).
  - cbn [subs]. apply Hupd, forward_mu, Hcl.
  - cbn [subs]. apply Hupd, push_mu, Hcl.
  - cbn [subs]. apply Hupd, read_mu, Hcl.
Qed.

(* the pipeline action of subscriber i that is enabled in state u *)
Definition next_act (i : nat) (u : sub) : act :=
  match ch u with
  | _ :: _ => Read i
  | [] => match hold u with Some _ => Push i | None => Forward i end
  end.

Lemma next_act_progress s i u :
  nth_error (subs s) i = Some u -> closed u = false -> 0 < mu u ->
  exists u', nth_error (subs (step s (next_act i u))) i = Some u' /\ keeps u u' /\ mu u' < mu u.
Proof.
  intros Hn Hcl Hmu. unfold next_act.
  destruct (ch u) as [|x r] eqn:Hc.
  - destruct (hold u) as [e|] eqn:Hh.
    + cbn [step subs]. eexists. split; [apply upd_nth_same; exact Hn|].
      destruct (push_mu u Hcl) as (Hk & Hd). split; [exact Hk|].
      destruct Hd as [He|Hlt]; [|exact Hlt]. exfalso.
      unfold push in He. rewrite Hcl, Hh, Hc in He. cbn in He.
      apply (f_equal hold) in He. cbn in He. congruence.
    + cbn [step subs]. eexists. split; [apply upd_nth_same; exact Hn|].
      destruct (forward_mu u Hcl) as (Hk & Hd). split; [exact Hk|].
      destruct Hd as [He|Hlt]; [|exact Hlt]. exfalso.
      destruct (q u) as [|y l] eqn:Hq.
      * unfold mu in Hmu. rewrite Hq, Hh, Hc in Hmu. cbn in Hmu. lia.
      * unfold forward in He. rewrite Hcl, Hh, Hq in He.
        apply (f_equal hold) in He. cbn in He. congruence.
  - cbn [step subs]. eexists. split; [apply upd_nth_same; exact Hn|].
    destruct (read_mu u Hcl) as (Hk & Hd). split; [exact Hk|].
    destruct Hd as [He|Hlt]; [|exact Hlt]. exfalso.
    unfold read in He. rewrite Hc in He. apply (f_equal ch) in He. cbn in He.
    rewrite Hc in He. apply (f_equal (@length Z)) in He. cbn in He. lia.
Qed.

Lemma keeps_trans u u' u'' : keeps u u' -> keeps u' u'' -> keeps u u''.
Proof. unfold keeps. intros (A1 & A2 & A3 & A4 & A5) (B1 & B2 & B3 & B4 & B5). repeat split; congruence. Qed.

Section Fair.
Variable sched : nat -> act.
Variable i : nat.
Variable s0 : sys.
Variable t0 : nat.
Hypothesis Hfair : fair_for sched i.
Hypothesis Hquiet : quiet_from sched t0.

Let st (t : nat) : sys := run_sched sched t s0.

Lemma quiet_at t : t0 <= t -> quiet_act (sched t).
Proof. intros H. specialize (Hquiet t H). unfold quiet_act. destruct (sched t); auto. Qed.

(* until subscriber i changes, it is unchanged; once it changed, its measure is smaller *)
Lemma wait_or_progress t u : t0 <= t ->
  nth_error (subs (st t)) i = Some u -> closed u = false ->
  forall k, exists u', nth_error (subs (st (t + k))) i = Some u' /\ keeps u u' /\ (u' = u \/ mu u' < mu u).
Proof.
  intros Ht Hn Hcl. induction k as [|k IH].
  - rewrite Nat.add_0_r. exists u. split; [exact Hn|]. unfold keeps. repeat split; auto.
  - destruct IH as (u1 & Hn1 & Hk1 & Hd1).
    replace (t + S k) with (S (t + k)) by lia. unfold st. rewrite run_sched_S. fold (st (t + k)).
    destruct (quiet_step (st (t + k)) (sched (t + k)) i u1) as (u2 & Hn2 & Hk2 & Hd2);
      [apply quiet_at; lia | exact Hn1 | apply Hk1 |].
    exists u2. split; [exact Hn2|]. split; [eapply keeps_trans; eauto|].
    destruct Hd1 as [->|Hlt1]; destruct Hd2 as [->|Hlt2]; auto; right; lia.
Qed.

Lemma drains n : forall t u, t0 <= t ->
  nth_error (subs (st t)) i = Some u -> closed u = false -> mu u <= n ->
  exists T u', t <= T /\ nth_error (subs (st T)) i = Some u' /\ keeps u u' /\ mu u' = 0.
Proof.
  induction n as [|n IH]; intros t u Ht Hn Hcl Hmu.
  - exists t, u. repeat split; auto. lia.
  - destruct (Nat.eq_dec (mu u) 0) as [Hz|Hnz].
    { exists t, u. repeat split; auto. }
    (* the enabled pipeline action is scheduled at some t' >= t *)
    assert (Hex : exists t', t <= t' /\ sched t' = next_act i u).
    { destruct (Hfair t) as (HF & HP & HR). unfold next_act.
      destruct (ch u); [destruct (hold u)|]; assumption. }
    destruct Hex as (t' & Hle & Hs).
    destruct (wait_or_progress t u Ht Hn Hcl (t' - t)) as (u1 & Hn1 & Hk1 & Hd1).
    replace (t + (t' - t)) with t' in Hn1 by lia.
    destruct Hd1 as [->|Hlt].
    + (* still unchanged at t': the action fires now *)
      destruct (next_act_progress (st t') i u Hn1 Hcl) as (u2 & Hn2 & Hk2 & Hlt2); [lia|].
      rewrite <- Hs in Hn2. unfold st in Hn2. rewrite <- run_sched_S in Hn2. fold (st (S t')) in Hn2.
      destruct (IH (S t') u2) as (T & u3 & HT & Hn3 & Hk3 & Hz3); [lia | exact Hn2 | apply Hk2 | lia|].
      exists T, u3. repeat split; try apply (keeps_trans _ _ _ Hk2 Hk3); auto. lia.
    + destruct (IH t' u1) as (T & u3 & HT & Hn3 & Hk3 & Hz3); [lia | exact Hn1 | apply Hk1 | lia|].
      exists T, u3. repeat split; try apply (keeps_trans _ _ _ Hk1 Hk3); auto. lia.
Qed.

End Fair.

Lemma mu_zero u : mu u = 0 -> in_flight u = [].
Proof.
  unfold mu, in_flight. intros H.
  destruct (q u); [|cbn in H; lia]. destruct (hold u); [lia|]. destruct (ch u); [reflexivity | cbn in H; lia].
Qed.

Lemma run_sched_reachable sched t s : reachable s -> reachable (run_sched sched t s).
Proof.
  intros [acts ->]. exists (acts ++ map sched (seq 0 t)). unfold run_sched, run.
  rewrite fold_left_app. reflexivity.
Qed.

(* Under a scheduler that is fair to subscriber i's forwarder and consumer,
   once the handler is quiet a subscriber that is not cancelled eventually
   has received everything that was ever accepted for it; if the manager is
   still running that is its backlog and every event since registration. *)
Theorem fair_reader_receives_everything sched i s0 t0 u :
  reachable s0 -> fair_for sched i -> quiet_from sched t0 ->
  nth_error (subs (run_sched sched t0 s0)) i = Some u -> closed u = false ->
  exists T u', t0 <= T /\ nth_error (subs (run_sched sched T s0)) i = Some u' /\
    closed u' = false /\ in_flight u' = [] /\ got u' = pushed u /\
    (alive (ph (run_sched sched T s0)) = true ->
       got u' = backlog u ++ skipn (reg_at u) (emitted (run_sched sched T s0))).
Proof.
  intros Hr Hf Hq Hn Hcl.
  destruct (drains sched i s0 t0 Hf Hq (mu u) t0 u (le_n _) Hn Hcl (le_n _))
    as (T & u' & HT & Hn' & (Hc' & Hp' & Hb' & Hr' & Hm') & Hz).
  exists T, u'. split; [exact HT|]. split; [exact Hn'|]. split; [exact Hc'|].
  pose proof (mu_zero u' Hz) as Hfl. split; [exact Hfl|].
  pose proof (run_sched_reachable sched T s0 Hr) as HrT.
  destruct (inv_nth _ i u' (reachable_inv _ HrT) Hn') as (Hcons & _).
  unfold conserv in Hcons. rewrite Hc', Hfl, app_nil_r in Hcons.
  split; [congruence|].
  intros Hal. pose proof (conservation_live _ i u' HrT Hn' Hc' Hal) as Hcv.
  unfold delivered, owed in Hcv. rewrite Hfl, app_nil_r, Hb', Hr' in Hcv. exact Hcv.
Qed.
