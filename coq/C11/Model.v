(* C11 — executable model of blockntfns.SubscriptionManager (manager.go) as a
   labelled transition system.  No proofs here.

   Pipeline of one subscriber (NewSubscription):

     source --rendezvous--> handler --ChanIn--> ConcurrentQueue (unbounded FIFO)
        --ChanOut--> forwarder goroutine (holds one item) --> ntfnChan (20 slots)
        --> consumer

   The handler goroutine (subscriptionHandler) serialises Emit (a block
   notification from the source, fanned out by notifySubscribers), Register
   (handleNewSubscription: the backlog returned by
   NotificationsSinceHeight is pushed into the new subscriber's queue, then
   the subscriber joins the map) and Cancel i (handleCancelSubscription:
   remove from the map, newSubscription.cancel: stop the queue, close quit,
   wait for the forwarder, close ntfnChan).  Forward i / Push i are the two
   halves of the forwarder loop, Read i is the consumer.  Stop is split in
   StopBegin (close(m.quit)) and StopEnd (handler has exited, every remaining
   subscriber is cancelled).  Between the two the handler may still pick a
   ready source/registration/cancel case of its select; a notifySubscriber
   that picks <-m.quit makes the handler exit at once (manager.go after the
   shutdown-window repair, see known_findings/C11.json): the notification is
   then delivered to an arbitrary subset of the subscribers — the mask of
   Emit — and to nobody afterwards.  Go's map iteration order is covered by
   the arbitrary mask.

   Assumed FIFO components (not modelled further): Go channels / select, and
   lnd's queue.ConcurrentQueue (its 20-slot ChanOut plus overflow list is the
   single list q here).

   Subscriber identity: here a subscriber is its position in `subs`
   (registration order).  The uint64 id that NewSubscription takes in the
   caller's goroutine, the map keyed by it and overlapping NewSubscription
   calls are modelled in ModelK.v; ProofsK.v proves that every run of that
   keyed system is a run of this one (Register = the handler's step of a
   call whose id was taken earlier, Cancel i = the lookup of i's id).

   Ghost fields (never read by the transitions that compute non-ghost
   fields): backlog, reg_at, end_at, pushed, missed; emitted in sys. *)
From Coq Require Import ZArith List Bool Arith.
Import ListNotations.

Definition cap : nat := 20.   (* make(chan BlockNtfn, 20) *)

Record sub := mkSub {
  backlog : list Z;      (* ghost: what NotificationsSinceHeight returned *)
  reg_at : nat;          (* ghost: number of events emitted before registration *)
  end_at : nat;          (* ghost: number of events emitted before cancel / stop *)
  pushed : list Z;       (* ghost: everything the handler put into the queue *)
  missed : bool;         (* ghost: the handler skipped this subscriber while shutting down *)
  q : list Z;            (* queue.ConcurrentQueue *)
  hold : option Z;       (* forwarder goroutine between <-ChanOut and ntfnChan<- *)
  ch : list Z;           (* ntfnChan *)
  got : list Z;          (* what the consumer has received, in order *)
  closed : bool;         (* ntfnChan closed (cancel() ran) *)
  seen_closed : bool     (* the consumer has observed the close *)
}.

Inductive phase := Running | Stopping | HandlerDead | Stopped.

Record sys := mkSys { subs : list sub; emitted : list Z; ph : phase }.

Definition init : sys := mkSys [] [] Running.

Inductive act :=
| Emit (e : Z) (mask : list bool)   (* mask only matters while Stopping *)
| Register (b : list Z)             (* successful NewSubscription, backlog b *)
| Cancel (i : nat)
| Forward (i : nat)
| Push (i : nat)
| Read (i : nat)
| StopBegin
| StopEnd.

Definition new_sub (b : list Z) (n : nat) : sub :=
  mkSub b n 0 b false b None [] [] false false.

Definition enqueue (e : Z) (u : sub) : sub :=
  mkSub (backlog u) (reg_at u) (end_at u) (pushed u ++ [e]) (missed u)
        (q u ++ [e]) (hold u) (ch u) (got u) (closed u) (seen_closed u).

Definition miss (u : sub) : sub :=
  mkSub (backlog u) (reg_at u) (end_at u) (pushed u) true
        (q u) (hold u) (ch u) (got u) (closed u) (seen_closed u).

(* notifySubscriber for one subscriber; b = the select took ChanIn *)
Definition emit_one (e : Z) (b : bool) (u : sub) : sub :=
  if closed u then u else if b then enqueue e u else miss u.

(* newSubscription.cancel *)
Definition close_sub (n : nat) (u : sub) : sub :=
  if closed u then u else
  mkSub (backlog u) (reg_at u) n (pushed u) (missed u)
        [] None (ch u) (got u) true (seen_closed u).

Definition forward (u : sub) : sub :=
  match closed u, hold u, q u with
  | false, None, e :: r =>
    mkSub (backlog u) (reg_at u) (end_at u) (pushed u) (missed u)
          r (Some e) (ch u) (got u) false (seen_closed u)
  | _, _, _ => u
  end.

Definition push (u : sub) : sub :=
  match closed u, hold u with
  | false, Some e =>
    if length (ch u) <? cap then
      mkSub (backlog u) (reg_at u) (end_at u) (pushed u) (missed u)
            (q u) None (ch u ++ [e]) (got u) false (seen_closed u)
    else u
  | _, _ => u
  end.

Definition read (u : sub) : sub :=
  match ch u with
  | e :: r =>
    mkSub (backlog u) (reg_at u) (end_at u) (pushed u) (missed u)
          (q u) (hold u) r (got u ++ [e]) (closed u) (seen_closed u)
  | [] =>
    if closed u then
      mkSub (backlog u) (reg_at u) (end_at u) (pushed u) (missed u)
            (q u) (hold u) [] (got u) true true
    else u
  end.

Definition upd_nth (l : list sub) (i : nat) (f : sub -> sub) : list sub :=
  firstn i l ++ match nth_error l i with Some s => [f s] | None => [] end ++ skipn (S i) l.

Fixpoint emit_mask (e : Z) (m : list bool) (l : list sub) : list sub :=
  match l with
  | [] => []
  | u :: r => emit_one e (hd true m) u :: emit_mask e (tl m) r
  end.

(* some open subscriber was skipped: the handler has left its loop *)
Fixpoint dropped (m : list bool) (l : list sub) : bool :=
  match l with
  | [] => false
  | u :: r => (negb (closed u) && negb (hd true m)) || dropped (tl m) r
  end.

Definition step (s : sys) (a : act) : sys :=
  match a with
  | Emit e m =>
    match ph s with
    | Running => mkSys (map (emit_one e true) (subs s)) (emitted s ++ [e]) Running
    | Stopping => mkSys (emit_mask e m (subs s)) (emitted s ++ [e])
                        (if dropped m (subs s) then HandlerDead else Stopping)
    | _ => s
    end
  | Register b =>
    match ph s with
    | Running | Stopping =>
      mkSys (subs s ++ [new_sub b (length (emitted s))]) (emitted s) (ph s)
    | _ => s
    end
  | Cancel i =>
    match ph s with
    | Running | Stopping =>
      mkSys (upd_nth (subs s) i (close_sub (length (emitted s)))) (emitted s) (ph s)
    | _ => s
    end
  | Forward i => mkSys (upd_nth (subs s) i forward) (emitted s) (ph s)
  | Push i => mkSys (upd_nth (subs s) i push) (emitted s) (ph s)
  | Read i => mkSys (upd_nth (subs s) i read) (emitted s) (ph s)
  | StopBegin =>
    match ph s with
    | Running => mkSys (subs s) (emitted s) Stopping
    | _ => s
    end
  | StopEnd =>
    match ph s with
    | Stopping | HandlerDead =>
      mkSys (map (close_sub (length (emitted s))) (subs s)) (emitted s) Stopped
    | _ => s
    end
  end.

Definition run (acts : list act) (s : sys) : sys := fold_left step acts s.
