(* C11 — the property theorems, and nothing else.
   `reachable s` = s is the state after SOME list of actions (any
   interleaving of Emit, Register, Cancel i, Forward i, Push i, Read i,
   StopBegin, StopEnd) from the initial state. *)
From Coq Require Import ZArith List Bool Arith Lia.
From Verif Require Import C11.Model C11.Spec C11.Proofs C11.ModelK C11.ProofsK.
Import ListNotations.

(* Conservation, for every interleaving: for a subscriber that has not been
   cancelled, while the handler runs, what it has received followed by what
   is in flight to it (channel, forwarder, queue) is exactly its backlog
   followed by every event emitted since its registration: order, no loss, no
   duplicate, however slowly (or never) it or anyone else reads. *)
Theorem C11_conservation : forall s i u,
  reachable s -> nth_error (subs s) i = Some u -> closed u = false -> alive (ph s) = true ->
  delivered u ++ in_flight u = backlog u ++ skipn (reg_at u) (emitted s).
Proof. exact conservation_live. Qed.
Print Assumptions C11_conservation.

(* In EVERY reachable state (cancelled, shutting down, stopped included) what
   a subscriber has received, plus what its channel still holds, is a prefix
   of backlog ++ events after registration: nothing out of order, twice,
   foreign, and no gap. *)
Theorem C11_prefix_in_every_state : forall s i u,
  reachable s -> nth_error (subs s) i = Some u ->
  is_prefix (delivered u ++ ch u) (backlog u ++ skipn (reg_at u) (emitted s)).
Proof. exact prefix_always. Qed.
Print Assumptions C11_prefix_in_every_state.

(* After Cancel i / Stop: only the channel buffer is left in flight, and
   everything the subscriber can still receive was emitted before the cancel
   (positions reg_at .. end_at of the emission order). *)
Theorem C11_nothing_after_cancel : forall s i u,
  reachable s -> nth_error (subs s) i = Some u -> closed u = true ->
  is_prefix (delivered u ++ ch u) (backlog u ++ window (emitted s) (reg_at u) (end_at u)) /\
  in_flight u = ch u /\
  reg_at u <= end_at u <= length (emitted s).
Proof. exact prefix_until_end. Qed.
Print Assumptions C11_nothing_after_cancel.

(* ... and it stays so: once the channel is closed, no action of anybody
   re-opens it, pushes anything new to it, or changes what was or will be
   received (received ++ channel buffer is constant). *)
Theorem C11_closed_forever : forall acts s i u,
  nth_error (subs s) i = Some u -> closed u = true ->
  exists u', nth_error (subs (run acts s)) i = Some u' /\
    closed u' = true /\ pushed u' = pushed u /\ got u' ++ ch u' = got u ++ ch u /\
    q u' = q u /\ hold u' = hold u /\
    backlog u' = backlog u /\ reg_at u' = reg_at u /\ end_at u' = end_at u.
Proof. exact closed_forever. Qed.
Print Assumptions C11_closed_forever.

Theorem C11_cancel_closes : forall s i u,
  alive (ph s) = true -> nth_error (subs s) i = Some u ->
  exists u', nth_error (subs (step s (Cancel i))) i = Some u' /\ closed u' = true.
Proof. exact cancel_closes. Qed.
Print Assumptions C11_cancel_closes.

Theorem C11_stop_closes_all : forall s,
  ph s <> Stopped ->
  ph (run [StopBegin; StopEnd] s) = Stopped /\
  Forall (fun u => closed u = true) (subs (run [StopBegin; StopEnd] s)).
Proof. exact stop_closes_all. Qed.
Print Assumptions C11_stop_closes_all.

(* A consumer that keeps reading a closed channel receives exactly what the
   channel still held and then observes the close. *)
Theorem C11_close_is_observed : forall s i u,
  nth_error (subs s) i = Some u -> closed u = true ->
  exists u', nth_error (subs (run (repeat (Read i) (S (length (ch u)))) s)) i = Some u' /\
             seen_closed u' = true /\ got u' = got u ++ ch u.
Proof. exact close_is_observed. Qed.
Print Assumptions C11_close_is_observed.

(* A subscriber cancelled without a shutdown interfering was handed (into its
   queue) exactly backlog ++ the events between registration and cancel. *)
Theorem C11_exact_until_cancel : forall s i u,
  reachable s -> nth_error (subs s) i = Some u -> closed u = true -> missed u = false ->
  pushed u = backlog u ++ window (emitted s) (reg_at u) (end_at u).
Proof. exact pushed_exact_until_end. Qed.
Print Assumptions C11_exact_until_cancel.

(* Shutdown window (between close(quit) and the handler's exit): a live
   subscriber misses at most the single last notification, never one in the
   middle. *)
Theorem C11_shutdown_misses_at_most_last : forall s i u,
  reachable s -> nth_error (subs s) i = Some u -> closed u = false ->
  delivered u ++ in_flight u = backlog u ++ skipn (reg_at u) (emitted s) \/
  exists e, (delivered u ++ in_flight u) ++ [e] = backlog u ++ skipn (reg_at u) (emitted s).
Proof. exact shutdown_misses_at_most_one. Qed.
Print Assumptions C11_shutdown_misses_at_most_last.

(* No head-of-line blocking.  In EVERY state s whose handler is alive —
   reachable or not, so whatever the queue, forwarder, channel and consumer
   of every subscriber look like — emission, registration and cancellation
   of any registered subscriber are enabled ... *)
Theorem C11_handler_never_blocked : forall s,
  alive (ph s) = true ->
  (forall e m, enabledb s (Emit e m) = true) /\
  (forall b, enabledb s (Register b) = true) /\
  (forall i u, nth_error (subs s) i = Some u -> closed u = false -> enabledb s (Cancel i) = true).
Proof. exact handler_enabled. Qed.
Print Assumptions C11_handler_never_blocked.

(* ... where `enabledb` is the exact guard of the transition system ... *)
Theorem C11_guard_exact : forall s a, enabledb s a = false -> step s a = s.
Proof. exact disabled_stutters. Qed.
Print Assumptions C11_guard_exact.

(* ... and the emission reaches every subscriber that is not cancelled, each
   one's new state depending on its own old state only. *)
Theorem C11_emit_reaches_everyone : forall s e m,
  ph s = Running ->
  emitted (step s (Emit e m)) = emitted s ++ [e] /\
  ph (step s (Emit e m)) = Running /\
  forall j u, nth_error (subs s) j = Some u ->
    nth_error (subs (step s (Emit e m))) j = Some (if closed u then u else enqueue e u).
Proof. exact emit_effect. Qed.
Print Assumptions C11_emit_reaches_everyone.

Theorem C11_cancel_touches_only_its_subscriber : forall s i u,
  alive (ph s) = true -> nth_error (subs s) i = Some u ->
  nth_error (subs (step s (Cancel i))) i = Some (close_sub (length (emitted s)) u) /\
  (forall j, j <> i -> nth_error (subs (step s (Cancel i))) j = nth_error (subs s) j) /\
  emitted (step s (Cancel i)) = emitted s.
Proof. exact cancel_effect. Qed.
Print Assumptions C11_cancel_touches_only_its_subscriber.

(* Contrast (the model does block where the code blocks): a forwarder whose
   20-slot channel is full cannot push. *)
Theorem C11_forwarder_blocks_on_full_channel : forall s i u,
  nth_error (subs s) i = Some u -> length (ch u) = cap -> enabledb s (Push i) = false.
Proof. exact push_blocked_when_full. Qed.
Print Assumptions C11_forwarder_blocks_on_full_channel.

Theorem C11_channel_capacity : forall s i u,
  reachable s -> nth_error (subs s) i = Some u -> length (ch u) <= cap.
Proof. exact channel_capacity. Qed.
Print Assumptions C11_channel_capacity.

(* Soundness of the acceptor that the correspondence run evaluates on
   observations of the real code: every observation (with any slack in the
   registration / cancellation bounds) of every subscriber in every
   reachable state is admissible. *)
Theorem C11_admissible_sound : forall s i u o,
  reachable s -> nth_error (subs s) i = Some u -> obs_of u o ->
  admissible (emitted s) o = true.
Proof. exact admissible_sound. Qed.
Print Assumptions C11_admissible_sound.

(* Progress (stretch): under a scheduler that takes Forward i, Push i and
   Read i again and again, once the handler is quiet (no emission, cancel or
   stop after t0) a subscriber that is not cancelled eventually holds
   everything accepted for it, i.e. while the manager runs its backlog
   followed by every event emitted since its registration. *)
Theorem C11_fair_reader_receives_everything : forall sched i s0 t0 u,
  reachable s0 -> fair_for sched i -> quiet_from sched t0 ->
  nth_error (subs (run_sched sched t0 s0)) i = Some u -> closed u = false ->
  exists T u', t0 <= T /\ nth_error (subs (run_sched sched T s0)) i = Some u' /\
    closed u' = false /\ in_flight u' = [] /\ got u' = pushed u /\
    (alive (ph (run_sched sched T s0)) = true ->
       got u' = backlog u ++ skipn (reg_at u) (emitted (run_sched sched T s0))).
Proof. exact fair_reader_receives_everything. Qed.
Print Assumptions C11_fair_reader_receives_everything.

(* ------------------------------------------------------------------ *)
(* Subscriber identity (ModelK.v).  The theorems above identify a subscriber
   by its position in the registration order.  manager.go identifies it by
   the uint64 id that NewSubscription takes in the CALLER's goroutine
   (atomic.AddUint64) before the handler sees the request; the handler stores
   it in a map, Cancel looks it up, fan-out and Stop range over the map.  A
   keyed run `krun kacts kinit` is any interleaving of KSubCall (id taken),
   KSubHandled k b (the handler reads backlog b and registers the k-th call
   in progress, one handler step), KSubFailed k, KCancel i (by id), KEmit,
   pipeline steps and Stop: any number of NewSubscription calls overlap.
   `calls kacts < two64`: fewer than 2^64 NewSubscription calls (the counter
   is a uint64 and wraps). *)

(* No two subscriptions, pending (id taken, request queued or being handled)
   or registered (open or cancelled), share an id. *)
Theorem C11_ids_unique : forall kacts,
  (calls kacts < two64)%Z ->
  NoDup (sids (krun kacts kinit) ++ pend (krun kacts kinit)).
Proof. exact ids_unique. Qed.
Print Assumptions C11_ids_unique.

(* The map store of handleNewSubscription never replaces an entry: whichever
   pending call the handler takes next, its id is not a key of the map. *)
Theorem C11_insert_never_overwrites : forall kacts k id,
  (calls kacts < two64)%Z -> ph (base (krun kacts kinit)) <> Stopped ->
  nth_error (pend (krun kacts kinit)) k = Some id ->
  klookup id (kmap (krun kacts kinit)) = None /\
  kinsert id (length (subs (base (krun kacts kinit)))) (kmap (krun kacts kinit)) =
    (id, length (subs (base (krun kacts kinit)))) :: kmap (krun kacts kinit).
Proof. exact insert_never_overwrites. Qed.
Print Assumptions C11_insert_never_overwrites.

(* The map is exactly the set of open subscribers, each under its own id. *)
Theorem C11_map_is_open_set : forall kacts id j,
  (calls kacts < two64)%Z -> ph (base (krun kacts kinit)) <> Stopped ->
  (klookup id (kmap (krun kacts kinit)) = Some j <->
   nth_error (sids (krun kacts kinit)) j = Some id /\ open_at (krun kacts kinit) j).
Proof. exact map_is_open_set. Qed.
Print Assumptions C11_map_is_open_set.

(* Refinement: every keyed step is the index-based step of Model.v (abs_act:
   KSubHandled = Register, KCancel i = Cancel i, KSubCall / KSubFailed = no
   step, the others by name): the lookup by id finds subscriber i itself,
   ranging over the map reaches exactly the open subscribers ... *)
Theorem C11_keyed_step_refines : forall kacts a,
  (calls kacts < two64)%Z ->
  base (kstep (krun kacts kinit) a) = run (abs_act (krun kacts kinit) a) (base (krun kacts kinit)).
Proof. exact keyed_step_refines. Qed.
Print Assumptions C11_keyed_step_refines.

(* ... so every keyed run, with any overlap of NewSubscription calls, is a run
   of Model.v, and every theorem above about `reachable s` holds for it. *)
Theorem C11_keyed_refines_indexed : forall kacts,
  (calls kacts < two64)%Z ->
  base (krun kacts kinit) = run (abs_acts kacts kinit) init /\
  reachable (base (krun kacts kinit)).
Proof. intros kacts H. split; [apply keyed_refines, H | apply keyed_reachable, H]. Qed.
Print Assumptions C11_keyed_refines_indexed.

Theorem C11_conservation_overlapping : forall kacts i u,
  (calls kacts < two64)%Z ->
  nth_error (subs (base (krun kacts kinit))) i = Some u -> closed u = false ->
  alive (ph (base (krun kacts kinit))) = true ->
  delivered u ++ in_flight u = backlog u ++ skipn (reg_at u) (emitted (base (krun kacts kinit))).
Proof. intros kacts i u H. apply conservation_live, keyed_reachable, H. Qed.
Print Assumptions C11_conservation_overlapping.

Theorem C11_prefix_overlapping : forall kacts i u,
  (calls kacts < two64)%Z ->
  nth_error (subs (base (krun kacts kinit))) i = Some u ->
  is_prefix (delivered u ++ ch u) (backlog u ++ skipn (reg_at u) (emitted (base (krun kacts kinit)))).
Proof. intros kacts i u H. apply prefix_always, keyed_reachable, H. Qed.
Print Assumptions C11_prefix_overlapping.

(* Cancel() of client i closes subscriber i and touches nobody else (with
   C11_cancel_touches_only_its_subscriber), Stop closes everybody. *)
Theorem C11_cancel_by_id_hits_own : forall kacts i,
  (calls kacts < two64)%Z ->
  base (kstep (krun kacts kinit) (KCancel i)) = step (base (krun kacts kinit)) (Cancel i).
Proof. exact keyed_cancel_own. Qed.
Print Assumptions C11_cancel_by_id_hits_own.

Theorem C11_stop_closes_all_overlapping : forall kacts,
  (calls kacts < two64)%Z -> ph (base (krun kacts kinit)) <> Stopped ->
  ph (base (krun (kacts ++ [KStopBegin; KStopEnd]) kinit)) = Stopped /\
  Forall (fun u => closed u = true) (subs (base (krun (kacts ++ [KStopBegin; KStopEnd]) kinit))).
Proof. exact keyed_stop_closes_all. Qed.
Print Assumptions C11_stop_closes_all_overlapping.

Theorem C11_admissible_sound_overlapping : forall kacts i u o,
  (calls kacts < two64)%Z ->
  nth_error (subs (base (krun kacts kinit))) i = Some u -> obs_of u o ->
  admissible (emitted (base (krun kacts kinit))) o = true.
Proof. intros kacts i u o H. apply admissible_sound, keyed_reachable, H. Qed.
Print Assumptions C11_admissible_sound_overlapping.

(* Non-vacuity of the keyed layer.  Three calls overlap (ids 1 2 3), the
   handler takes the second first; a fourth call starts while two are in
   progress; one call fails; Cancel of client 1 (id 3) closes subscriber 1
   only.  Contrast: from a state in which two calls in progress carry the
   SAME id (what `Load(&counter)+1` instead of the fetch-and-add hands out to
   overlapping calls; not reachable here) the second registration replaces
   the first: subscriber 0 never receives event 5, its Cancel closes
   subscriber 1, and Stop leaves subscriber 0 open. *)
Definition exk_acts : list kact :=
  [KSubCall; KSubCall; KSubCall; KSubHandled 1 [100; 101]%Z; KEmit 1%Z []; KSubHandled 1 [];
   KSubCall; KEmit 2%Z []; KSubFailed 0; KSubHandled 0 [7%Z]; KCancel 1; KEmit 3%Z []].
Definition exk_collide : list kact :=
  [KSubHandled 0 []; KSubHandled 0 []; KEmit 5%Z []; KCancel 0; KEmit 6%Z []; KStopBegin; KStopEnd].
Example C11_keyed_nonvacuous :
  (let s := krun exk_acts kinit in
   sids s = [2; 3; 4]%Z /\ kmap s = [(4%Z, 2); (2%Z, 0)] /\ pend s = [] /\ counter s = 4%Z /\
   map (fun u => (pushed u, closed u)) (subs (base s))
     = [([100; 101; 1; 2; 3]%Z, false); ([2%Z], true); ([7; 3]%Z, false)]) /\
  (let s := krun exk_collide (mkK init [] [] 0%Z [1; 1]%Z 2%Z) in
   sids s = [1; 1]%Z /\ ph (base s) = Stopped /\
   map (fun u => (pushed u, closed u)) (subs (base s)) = [([], false); ([5%Z], true)]).
Proof. vm_compute. repeat split; reflexivity. Qed.

(* Non-vacuity: a subscriber that never reads accumulates 27 notifications
   (more than channel + queue buffer) while a prompt one has received all 25
   events; then cancel, one more event, and a shutdown in whose window the
   handler serves subscriber 0's slot but not subscriber 1 (mask) and exits:
   event 27 is accepted but not delivered, 28 is not accepted; both channels
   end closed and observed closed; the acceptor accepts the model's own
   observations and rejects a log with a gap. *)
Definition ex_emit (e : Z) : list act := [Emit e []; Forward 1; Push 1; Read 1].
Definition ex_acts : list act :=
  [Register [100%Z; 101%Z]; Register []] ++ flat_map ex_emit (map Z.of_nat (seq 1 25)).
Definition ex_tail : list act :=
  [Cancel 0; Emit 26%Z []; Forward 0; Read 0; Read 0; StopBegin;
   Emit 27%Z [true; false]; Emit 28%Z []; StopEnd; Read 1; Read 1].
Example C11_nonvacuous :
  (let s := run ex_acts init in
   ph s = Running /\
   map (fun u => (closed u, length (got u), length (in_flight u))) (subs s)
     = [(false, 0, 27); (false, 25, 0)]) /\
  (let s := run (ex_acts ++ ex_tail) init in
   ph s = Stopped /\ length (emitted s) = 27 /\
   map (fun u => (closed u, seen_closed u, length (got u), length (pushed u), end_at u)) (subs s)
     = [(true, true, 0, 27, 25); (true, true, 25, 26, 27)] /\
   map (fun u => admissible (emitted s) (exact_obs u)) (subs s) = [true; true]) /\
  admissible [1;2;3;4]%Z (mkObs [] 0 0 [1;2;4]%Z true true 0 4) = false.
Proof. vm_compute. repeat split; reflexivity. Qed.
