(* C11 — the property in its own vocabulary, and the decidable acceptor
   `admissible` for per-subscriber observation logs that the correspondence
   run evaluates on observations of the real SubscriptionManager. *)
From Coq Require Import ZArith List Bool Arith.
From Verif Require Import C11.Model.
Import ListNotations.

(* ------------------------------------------------------------------ *)
(* Vocabulary on model states. *)

Definition opt_list (o : option Z) : list Z :=
  match o with Some e => [e] | None => [] end.

(* what the consumer of u has been handed *)
Definition delivered (u : sub) : list Z := got u.
(* accepted for u but not yet read: channel, forwarder, queue *)
Definition in_flight (u : sub) : list Z := ch u ++ opt_list (hold u) ++ q u.
(* events emitted from position a (inclusive) up to position b (exclusive) *)
Definition window (em : list Z) (a b : nat) : list Z := firstn (b - a) (skipn a em).
(* everything owed to u in a system that has emitted em *)
Definition owed (em : list Z) (u : sub) : list Z := backlog u ++ skipn (reg_at u) em.
(* everything owed to u up to its cancellation *)
Definition owed_until_end (em : list Z) (u : sub) : list Z :=
  backlog u ++ window em (reg_at u) (end_at u).

Definition is_prefix (a b : list Z) : Prop := exists r, a ++ r = b.

Definition alive (p : phase) : bool :=
  match p with Running | Stopping => true | _ => false end.

Definition reachable (s : sys) : Prop := exists acts, s = run acts init.

(* ------------------------------------------------------------------ *)
(* Enabledness: the guard of every transition (a disabled action leaves the
   state unchanged, see Proofs.disabled_stutters).  The guards of the
   handler's transitions Emit / Register / Cancel look at the phase (and, for
   Cancel, at whether that subscriber is still registered) and at nothing
   else: not at any queue, forwarder, channel or consumer. *)
Definition sub_guard (f : sub -> bool) (s : sys) (i : nat) : bool :=
  match nth_error (subs s) i with Some u => f u | None => false end.

Definition enabledb (s : sys) (a : act) : bool :=
  match a with
  | Emit _ _ | Register _ => alive (ph s)
  | Cancel i => alive (ph s) && sub_guard (fun u => negb (closed u)) s i
  | Forward i =>
    sub_guard (fun u => negb (closed u) &&
                 match hold u, q u with None, _ :: _ => true | _, _ => false end) s i
  | Push i =>
    sub_guard (fun u => negb (closed u) &&
                 match hold u with Some _ => length (ch u) <? cap | None => false end) s i
  | Read i =>
    sub_guard (fun u => match ch u with
                        | _ :: _ => true
                        | [] => closed u && negb (seen_closed u)
                        end) s i
  | StopBegin => match ph s with Running => true | _ => false end
  | StopEnd => match ph s with Stopping | HandlerDead => true | _ => false end
  end.

(* ------------------------------------------------------------------ *)
(* Observations of one subscriber, as the harness can make them:
   the backlog the source returned, bounds [rlo, rhi] on the number of events
   the handler had accepted before it handled the registration, everything
   received in order, whether the consumer saw the channel closed, whether
   Cancel/Stop has been requested (ended) and an upper bound ehi on the number
   of events accepted before that, and must: the consumer was live and
   reading and was waited for until it held the event at position must
   (0 = no such wait). *)
Record sobs := mkObs {
  o_backlog : list Z;
  o_rlo : Z;
  o_rhi : Z;
  o_got : list Z;
  o_closed : bool;
  o_ended : bool;
  o_must : Z;
  o_ehi : Z
}.

Fixpoint prefixb (a b : list Z) : bool :=
  match a, b with
  | [], _ => true
  | x :: a', y :: b' => Z.eqb x y && prefixb a' b'
  | _ :: _, [] => false
  end.

Definition len (l : list Z) : Z := Z.of_nat (length l).

(* the observation is explained by registration point r *)
Definition check_at (E : list Z) (o : sobs) (r : nat) : bool :=
  (* order, no duplicate, nothing foreign: a prefix of backlog ++ later events *)
  prefixb (o_got o) (o_backlog o ++ skipn r E)
  (* nothing emitted after the cancel / stop *)
  && (if o_ended o then Z.leb (len (o_got o)) (len (o_backlog o) + (o_ehi o - Z.of_nat r)) else true)
  (* no loss: everything up to the awaited event is there *)
  && (Z.eqb (o_must o) 0 || Z.leb (o_must o) (Z.of_nat r + len (o_got o) - len (o_backlog o)))
  (* a channel is only ever closed by cancel / stop *)
  && implb (o_closed o) (o_ended o).

Definition admissible (E : list Z) (o : sobs) : bool :=
  existsb (fun r => Z.leb (o_rlo o) (Z.of_nat r) && Z.leb (Z.of_nat r) (o_rhi o) && check_at E o r)
          (seq 0 (S (length E))).

(* at the end of a run (every consumer has read until nothing more can come)
   a cancelled / stopped subscriber has seen its channel closed *)
Definition final_ok (o : sobs) : bool := implb (o_ended o) (o_closed o).

(* the monitor evaluated on a whole case *)
Definition holds (E : list Z) (os : list sobs) : bool :=
  forallb (fun o => admissible E o && final_ok o) os.

(* the observations of subscriber u that a harness may report in a system
   that has emitted em: bounds are weakenings of the exact ghost values *)
Definition obs_of (u : sub) (o : sobs) : Prop :=
  o_backlog o = backlog u /\ o_got o = got u /\
  o_closed o = seen_closed u /\ o_ended o = closed u /\
  (o_rlo o <= Z.of_nat (reg_at u) <= o_rhi o)%Z /\
  (closed u = true -> (Z.of_nat (end_at u) <= o_ehi o)%Z) /\
  (o_must o = 0 \/ o_must o <= Z.of_nat (reg_at u) + len (got u) - len (backlog u))%Z.

(* ------------------------------------------------------------------ *)
(* Fair schedulers (for the progress theorem). *)

(* sched t = the action taken at time t *)
Definition run_sched (sched : nat -> act) (n : nat) (s : sys) : sys :=
  run (map sched (seq 0 n)) s.

(* each of the three pipeline actions of subscriber i is scheduled again and
   again (weak fairness: they stay enabled until taken) *)
Definition fair_for (sched : nat -> act) (i : nat) : Prop :=
  forall t, (exists t', t <= t' /\ sched t' = Forward i) /\
            (exists t', t <= t' /\ sched t' = Push i) /\
            (exists t', t <= t' /\ sched t' = Read i).

(* from time t0 on the handler does nothing that concerns the pipeline
   contents: no emission, no cancel, no stop *)
Definition quiet_from (sched : nat -> act) (t0 : nat) : Prop :=
  forall t, t0 <= t ->
    match sched t with
    | Emit _ _ | Cancel _ | StopBegin | StopEnd => False
    | _ => True
    end.
