(* C11 — the keyed layer of the SubscriptionManager model: subscriber
   identity as the Go code has it.  No proofs here.

   Model.v identifies a subscriber by its position in the registration order
   (`Cancel i`, `nth_error (subs s) i`): identity is unique by construction
   there.  manager.go identifies a subscriber by a uint64 id:

     NewSubscription (CALLER's goroutine, first statement):
         id = atomic.AddUint64(&m.subscriberCounter, 1)       -- KSubCall
       ... the message is offered to the handler on an unbuffered channel;
       any number of calls can be in this state at the same time (`pend`):
       id taken, message queued or being handled, nothing registered yet.
     handleNewSubscription (HANDLER goroutine, one step of its loop):
         backlog := NotificationsSinceHeight(bestHeight); push it;
         m.subscribers[sub.id] = sub                          -- KSubHandled
       a plain map store: an existing entry with that key would be REPLACED
       (kinsert), the replaced subscriber would stay open but unreachable:
       no later event, not cancellable, not closed at Stop.
     a call that ends without registration (backlog error, manager stopped)
                                                              -- KSubFailed
     Subscription.Cancel (client i): the message carries sub.id; the handler
       looks the id up in the map, deletes the entry and cancels whatever
       subscriber the entry pointed to                        -- KCancel
     notifySubscribers / Stop range over the map's entries    -- KEmit / KStopEnd

   A keyed state is the index-based state `base` (pipelines of all
   subscribers ever registered, in registration order) plus the id each of
   them carries, the map id -> subscriber, the counter and the calls in
   progress.  Which pending call the handler receives next is arbitrary (the
   argument k of KSubHandled: Go does not order blocked senders).

   ProofsK.v proves that with the fetch-and-add allocation no two pending or
   registered subscriptions share an id, the map store never replaces an
   entry, the map is exactly the set of open subscribers, and therefore every
   keyed run is an index-based run of Model.v (refinement), for every
   interleaving of overlapping NewSubscription calls.

   uint64 wrap of the counter is explicit (wrap64); the theorems assume fewer
   than 2^64 NewSubscription calls (ghost ncalls = unwrapped number of calls). *)
From Coq Require Import ZArith List Bool Arith.
From Verif Require Import C11.Model.
Import ListNotations.

Definition two64 : Z := 18446744073709551616%Z.
Definition wrap64 (x : Z) : Z := (x mod two64)%Z.

Record ksys := mkK {
  base : sys;               (* Model.v state: subs in registration order *)
  sids : list Z;            (* sids[i] = newSubscription.id of the i-th registered subscription *)
  kmap : list (Z * nat);    (* m.subscribers: id -> registered subscription (its index) *)
  counter : Z;              (* m.subscriberCounter *)
  pend : list Z;            (* NewSubscription calls in progress: ids taken, not handled yet *)
  ncalls : Z                (* ghost: number of NewSubscription calls so far, unwrapped *)
}.

Definition kinit : ksys := mkK init [] [] 0%Z [] 0%Z.

Inductive kact :=
| KEmit (e : Z) (mask : list bool)
| KSubCall                            (* a caller takes its id *)
| KSubHandled (k : nat) (b : list Z)  (* the handler registers the k-th pending call, backlog b *)
| KSubFailed (k : nat)                (* the k-th pending call ends unregistered *)
| KCancel (i : nat)                   (* Cancel() of the client that holds registered subscription i *)
| KForward (i : nat)
| KPush (i : nat)
| KRead (i : nat)
| KStopBegin
| KStopEnd.

(* Go map operations on an association list *)
Fixpoint klookup (id : Z) (m : list (Z * nat)) : option nat :=
  match m with
  | [] => None
  | (k, j) :: r => if Z.eqb k id then Some j else klookup id r
  end.
Definition kdelete (id : Z) (m : list (Z * nat)) : list (Z * nat) :=
  filter (fun p => negb (Z.eqb (fst p) id)) m.
(* m.subscribers[id] = sub: replaces an existing entry *)
Definition kinsert (id : Z) (j : nat) (m : list (Z * nat)) : list (Z * nat) :=
  (id, j) :: kdelete id m.
(* subscriber i is the value of some entry *)
Definition in_map (m : list (Z * nat)) (i : nat) : bool :=
  existsb (fun p => Nat.eqb (snd p) i) m.

Definition remove_nth {A} (k : nat) (l : list A) : list A := firstn k l ++ skipn (S k) l.

(* notifySubscribers: `for _, subscriber := range m.subscribers` *)
Fixpoint emit_keyed (e : Z) (m : list bool) (km : list (Z * nat)) (i : nat) (l : list sub) : list sub :=
  match l with
  | [] => []
  | u :: r => (if in_map km i then emit_one e (hd true m) u else u) :: emit_keyed e (tl m) km (S i) r
  end.

Fixpoint dropped_keyed (m : list bool) (km : list (Z * nat)) (i : nat) (l : list sub) : bool :=
  match l with
  | [] => false
  | u :: r => (in_map km i && negb (closed u) && negb (hd true m)) || dropped_keyed (tl m) km (S i) r
  end.

(* Stop: `for _, subscriber := range m.subscribers { subscriber.cancel() }` *)
Fixpoint close_keyed (n : nat) (km : list (Z * nat)) (i : nat) (l : list sub) : list sub :=
  match l with
  | [] => []
  | u :: r => (if in_map km i then close_sub n u else u) :: close_keyed n km (S i) r
  end.

Definition with_base (s : ksys) (b : sys) : ksys :=
  mkK b (sids s) (kmap s) (counter s) (pend s) (ncalls s).

Definition kstep (s : ksys) (a : kact) : ksys :=
  let b := base s in
  match a with
  | KEmit e m =>
    match ph b with
    | Running =>
      with_base s (mkSys (emit_keyed e [] (kmap s) 0 (subs b)) (emitted b ++ [e]) Running)
    | Stopping =>
      with_base s (mkSys (emit_keyed e m (kmap s) 0 (subs b)) (emitted b ++ [e])
                         (if dropped_keyed m (kmap s) 0 (subs b) then HandlerDead else Stopping))
    | _ => s
    end
  | KSubCall =>
    let id := wrap64 (counter s + 1) in
    mkK b (sids s) (kmap s) id (pend s ++ [id]) (ncalls s + 1)%Z
  | KSubHandled k bl =>
    match nth_error (pend s) k with
    | Some id =>
      match ph b with
      | Running | Stopping =>
        mkK (step b (Register bl)) (sids s ++ [id])
            (kinsert id (length (subs b)) (kmap s))
            (counter s) (remove_nth k (pend s)) (ncalls s)
      | _ => s
      end
    | None => s
    end
  | KSubFailed k =>
    mkK b (sids s) (kmap s) (counter s) (remove_nth k (pend s)) (ncalls s)
  | KCancel i =>
    match ph b with
    | Running | Stopping =>
      match nth_error (sids s) i with
      | Some id =>
        match klookup id (kmap s) with
        | Some j =>
          mkK (step b (Cancel j)) (sids s) (kdelete id (kmap s))
              (counter s) (pend s) (ncalls s)
        | None => s
        end
      | None => s
      end
    | _ => s
    end
  | KForward i => with_base s (step b (Forward i))
  | KPush i => with_base s (step b (Push i))
  | KRead i => with_base s (step b (Read i))
  | KStopBegin => with_base s (step b StopBegin)
  | KStopEnd =>
    match ph b with
    | Stopping | HandlerDead =>
      with_base s (mkSys (close_keyed (length (emitted b)) (kmap s) 0 (subs b)) (emitted b) Stopped)
    | _ => s
    end
  end.

Definition krun (acts : list kact) (s : ksys) : ksys := fold_left kstep acts s.

(* the index-based action(s) of Model.v that a keyed action amounts to *)
Definition abs_act (s : ksys) (a : kact) : list act :=
  match a with
  | KEmit e m => [Emit e m]
  | KSubCall => []
  | KSubHandled k b => match nth_error (pend s) k with Some _ => [Register b] | None => [] end
  | KSubFailed _ => []
  | KCancel i => [Cancel i]
  | KForward i => [Forward i]
  | KPush i => [Push i]
  | KRead i => [Read i]
  | KStopBegin => [StopBegin]
  | KStopEnd => [StopEnd]
  end.

(* number of NewSubscription calls in an action list *)
Fixpoint calls (acts : list kact) : Z :=
  match acts with
  | [] => 0%Z
  | KSubCall :: r => (1 + calls r)%Z
  | _ :: r => calls r
  end.
