(* C11 — replay of implementation observations: the acceptor of Spec.v is
   evaluated on what every subscriber of the real SubscriptionManager saw,
   at the end of the run and in snapshots taken during it (kind 2), and for
   cases without racing operations the handler-level action list of the
   harness — NewSubscription calls (id taken) and their handling
   (registration or failure) as separate actions, so that calls overlap — is
   run through the keyed model (ModelK.v) and compared (kind 1). *)
From Coq Require Import ZArith List Bool Arith.
From Verif Require Import C11.Model C11.Spec C11.ModelK.
Import ListNotations.
Open Scope Z_scope.

(* handler-level actions in compact form: AEmits a n = n emissions a, a+1, .. *)
Inductive cact :=
| AEmits (a n : Z)
| ACall                      (* a NewSubscription call starts: id taken *)
| AReg (k : nat) (b : list Z)  (* the handler registers the k-th call in progress, backlog b *)
| AFail (k : nat)            (* the k-th call in progress ends without registration *)
| ACancel (i : nat)          (* Cancel() of the i-th registered subscription *)
| AStop.

Record case := mkCase {
  c_emitted : list Z;     (* global emission order (events the handler accepted) *)
  c_det : bool;           (* no asynchronous operation: c_acts is the handler's order *)
  c_acts : list cact;
  c_subs : list sobs;     (* successful subscriptions in registration order, at the end *)
  c_snaps : list sobs     (* observations of a subscriber during the run (at the moment
                             its consumer saw the channel closed) *)
}.

(* compact literals: a list is written as runs (first, length) of consecutive
   integers; the length is bounds-checked before Z.to_nat *)
Fixpoint zseq (a : Z) (n : nat) : list Z :=
  match n with O => [] | S n' => a :: zseq (a + 1) n' end.
Definition unruns (rs : list (Z * Z)) : list Z :=
  flat_map (fun r => let '(a, n) := r in
     if (0 <=? n) && (n <=? 1000000) then zseq a (Z.to_nat n) else []) rs.

Definition expand (cs : list cact) : list kact :=
  flat_map (fun c => match c with
    | AEmits a n => map (fun e => KEmit e []) (unruns [(a, n)])
    | ACall => [KSubCall]
    | AReg k b => [KSubHandled k b]
    | AFail k => [KSubFailed k]
    | ACancel i => [KCancel i]
    | AStop => [KStopBegin; KStopEnd]
    end) cs.

Fixpoint list_eqb (a b : list Z) : bool :=
  match a, b with
  | [], [] => true
  | x :: a', y :: b' => (x =? y) && list_eqb a' b'
  | _, _ => false
  end.

(* kind 2: index of every subscriber whose observation the acceptor rejects *)
Fixpoint rejected (E : list Z) (i : Z) (os : list sobs) : list Z :=
  match os with
  | [] => []
  | o :: r => (if admissible E o && final_ok o then [] else [i]) ++ rejected E (i + 1) r
  end.

(* kind 1: the model, run on the handler-level actions, against subscriber o *)
Definition agrees (u : sub) (o : sobs) : bool :=
  list_eqb (backlog u) (o_backlog o)
  && (o_rlo o <=? Z.of_nat (reg_at u)) && (Z.of_nat (reg_at u) <=? o_rhi o)
  (* everything received was pushed by the model's handler, in that order *)
  && prefixb (o_got o) (pushed u)
  && Bool.eqb (closed u) (o_ended o)
  (* awaited position reached *)
  && ((o_must o =? 0) || (o_must o <=? Z.of_nat (reg_at u) + len (o_got o) - len (o_backlog o)))
  (* awaited right before the end: received exactly what the model pushed *)
  && (if closed u && negb (o_must o =? 0) && (o_must o =? Z.of_nat (end_at u))
      then list_eqb (o_got o) (pushed u) else true).

Fixpoint disagree (i : Z) (us : list sub) (os : list sobs) : list Z :=
  match us, os with
  | [], [] => []
  | u :: us', o :: os' => (if agrees u o then [] else [i]) ++ disagree (i + 1) us' os'
  | _, _ => [i]
  end.

(* snapshots: only the acceptor `admissible` (sound in every reachable state) *)
Fixpoint rejected_snap (E : list Z) (i : Z) (os : list sobs) : list Z :=
  match os with
  | [] => []
  | o :: r => (if admissible E o then [] else [i]) ++ rejected_snap E (i + 1) r
  end.

Definition model_mismatch (c : case) : list Z :=
  if c_det c then
    let ks := krun (expand (c_acts c)) kinit in
    let s := base ks in
    (if list_eqb (emitted s) (c_emitted c) then [] else [-1]) ++
    (* every call of the history has ended *)
    (match pend ks with [] => [] | _ => [-2] end) ++
    disagree 0 (subs s) (c_subs c)
  else [].

(* rows (case id, kind, step, tag): step = subscriber index (1000 + index of
   the snapshot for snapshots); there is no ghost root-cause flag in this
   model, tag is always 0 *)
Definition verdict (c : Z * case) : list (Z * Z * Z * Z) :=
  let '(id, cs) := c in
  map (fun i => (id, 1, i, 0)) (model_mismatch cs) ++
  map (fun i => (id, 2, i, 0)) (rejected (c_emitted cs) 0 (c_subs cs)) ++
  map (fun i => (id, 2, i, 0)) (rejected_snap (c_emitted cs) 1000 (c_snaps cs)).

Definition run_cases (cs : list (Z * case)) : list (Z * Z * Z * Z) := flat_map verdict cs.
