(* C10 — the property theorems, and nothing else.
   Model = utxoscanner.go + batch_spend_reporter.go as repaired for F06/F07
   (known_findings/C10.json); every theorem quantifies over every chain,
   every list of operations (Enqueue / Start / scanner step with or without
   a failing callback and with any filter answer / new block / Stop), i.e.
   every arrival time of requests and blocks relative to the scan. *)
From Coq Require Import ZArith List Bool Lia Permutation.
From Verif Require Import C10.Model C10.Spec C10.Proofs C10.ProofsL C10.Adapter.
Import ListNotations.
Open Scope Z_scope.

(* Exactly once, nobody lost: at every moment of every history the accepted
   requests are, as a multiset, exactly the requests still held by the
   scanner (queue, next batch, reporter, in flight) plus the delivered ones;
   request ids are pairwise distinct, so no request is answered twice or is
   both answered and still waiting. *)
Theorem C10_exactly_once : forall ch tip0 ops,
  let s := run ch (init tip0) ops in
  Permutation (waiting s ++ delivered s) (accepted ops) /\
  NoDup (map rid (waiting s ++ delivered s)).
Proof. intros ch tip0 ops. split; [exact (conservation ch tip0 ops)|exact (exactly_once ch tip0 ops)]. Qed.
Print Assumptions C10_exactly_once.

(* No caller is left waiting by a shutdown: once the batch manager has
   exited, every accepted request has been delivered a result. *)
Theorem C10_all_answered_after_shutdown : forall ch tip0 ops,
  let s := run ch (init tip0) ops in
  pc s = Exited -> waiting s = [] /\ Permutation (delivered s) (accepted ops).
Proof. exact all_answered_after_shutdown. Qed.
Print Assumptions C10_all_answered_after_shutdown.

(* Every delivered result is the true fate of the outpoint on the chain the
   scan saw (tip t at delivery), or the callback error and a callback did
   fail, or ErrShuttingDown and Stop was called.  Hypotheses: the initial
   tip is a block of the chain; negative filter answers in the history are
   truthful (no false negatives; false positives are allowed). *)
Theorem C10_result_is_fate : forall ch tip0 ops q r t,
  0 <= tip0 < Z.of_nat (length ch) -> fsound ch (init tip0) ops = true ->
  In (q, r, t) (log (run ch (init tip0) ops)) ->
  t <= tip (run ch (init tip0) ops) /\
  ((r = RErrFetch /\ existsb is_fail ops = true) \/
   (r = RErrShut /\ existsb is_stop ops = true) \/
   (0 <= birth q <= t /\ r = fate ch t (rop q) (birth q))).
Proof. exact result_is_fate. Qed.
Print Assumptions C10_result_is_fate.

(* [fate] is the statement's reading: earliest spend at a height in
   [start, t]; else the output if block start creates it, else empty. *)
Theorem C10_fate_meaning : forall ch t o start, start <= t < Z.of_nat (length ch) ->
  Fate ch t o start (fate ch t o start).
Proof. exact fate_correct. Qed.
Print Assumptions C10_fate_meaning.

(* ------------------------------------------------------------------ *)
(* Progress.  A "scanner step" is an operation [Step fail fm]: the chain
   callback the batch goroutine is blocked in returns (with an error or not).
   [steps ops] / [fails ops] count the scanner steps / the failing ones of a
   continuation.  The only fairness hypothesis is that the continuation
   contains enough scanner steps (no callback blocks for ever); nothing is
   assumed about the arrival of other requests, blocks or Stop.

   Measure.  [batch_left ch pc] bounds the scanner steps until the running
   batch ends (4 per remaining height of the chain, [batch_bound ch] =
   4 * length ch + 2 for a batch that is starting).  [covered s r]: the
   running batch takes care of r (r is in the reporter, in flight, or queued
   at a height the scan has not dequeued yet).  work_left ch s r =
   batch_left + (batch_bound if r is not covered: queued below the scan
   position or deferred into nextBatch, it needs the next batch as well). *)

(* Every accepted request that is not yet answered (fresh in the queue,
   deferred into nextBatch, requeued after a failed batch, in the reporter or
   in flight) and whose start height is at or below the tip is answered -
   exactly once - along EVERY continuation that contains at least
   work_left + fails * batch_bound scanner steps.  Under the filter hypothesis
   of C10_result_is_fate the answer is the outpoint's true fate on the chain
   seen at delivery, or the fetch error and a callback failed IN the
   continuation, or ErrShuttingDown and Stop was called. *)
Theorem C10_deferred_request_answered : forall ch tip0 pre ops r,
  0 <= tip0 < Z.of_nat (length ch) ->
  let s := run ch (init tip0) pre in
  pc s <> NotStarted -> In r (waiting s) -> birth r <= tip s ->
  (work_left ch s r + fails ops * batch_bound ch <= steps ops)%nat ->
  let s' := run ch s ops in
  ~ In r (waiting s') /\ count_occ req_dec (delivered s') r = 1%nat /\
  exists res t, In (r, res, t) (log s') /\ ~ In (r, res, t) (log s) /\
    (fsound ch (init tip0) (pre ++ ops) = true ->
     t <= tip s' /\
     ((res = RErrFetch /\ (0 < fails ops)%nat) \/
      (res = RErrShut /\ quit s' = true) \/
      (0 <= birth r <= t /\ res = fate ch t (rop r) (birth r)))).
Proof. exact deferred_request_answered. Qed.
Print Assumptions C10_deferred_request_answered.

(* The same with the explicit bound: two batches plus one per failing
   callback, each of at most 4 * length ch + 2 scanner steps. *)
Theorem C10_answered_within_two_batches_of_steps : forall ch tip0 pre ops r,
  0 <= tip0 < Z.of_nat (length ch) ->
  let s := run ch (init tip0) pre in
  pc s <> NotStarted -> In r (waiting s) -> birth r <= tip s ->
  ((fails ops + 2) * (4 * length ch + 2) <= steps ops)%nat ->
  In r (delivered (run ch s ops)) /\ ~ In r (waiting (run ch s ops)).
Proof.
  intros ch tip0 pre ops r H0 s NS Hw Hb Hm.
  assert (I : linv ch s) by (apply linv_run; apply linv_init; exact H0).
  pose proof (work_left_max ch s r I) as M. unfold batch_bound in M.
  assert (Hm' : (work_left ch s r + fails ops * batch_bound ch <= steps ops)%nat) by (unfold batch_bound; nia).
  destruct (deferred_request_answered ch tip0 pre ops r H0 NS Hw Hb Hm') as (NW & C & _).
  split; [|exact NW]. apply (count_occ_In req_dec). subst s. lia.
Qed.
Print Assumptions C10_answered_within_two_batches_of_steps.

(* The measure, operation by operation, in every reachable state, for a
   request that is waiting and not answered: a scanner step whose callback
   succeeds strictly decreases work_left (or answers r), a failing one leaves
   at most one batch of work (or answers r with the error), and every other
   operation - Enqueue of other requests with any start height, new block,
   Stop - does not increase it.  Arrivals therefore cannot starve r: a
   request below the scan position is deferred, it never extends the running
   batch. *)
Theorem C10_work_left_measure : forall ch tip0 pre o r,
  0 <= tip0 < Z.of_nat (length ch) ->
  let s := run ch (init tip0) pre in
  pc s <> NotStarted -> In r (waiting s) -> birth r <= tip s ->
  let s' := step ch s o in
  In r (delivered s') \/
  (In r (waiting s') /\
   match o with
   | Step false _ => (work_left ch s' r < work_left ch s r)%nat
   | Step true _ => (work_left ch s' r <= batch_bound ch)%nat
   | _ => (work_left ch s' r <= work_left ch s r)%nat
   end).
Proof.
  intros ch tip0 pre o r H0 s NS Hw Hb.
  assert (I : linv ch s) by (apply linv_run; apply linv_init; exact H0).
  pose proof (exactly_once ch tip0 pre) as N. cbv zeta in N. fold s in N.
  assert (ND : ~ In r (delivered s)).
  { intros Hd. destruct (nodup_split _ _ r N Hd) as [X _]. contradiction. }
  exact (work_left_step ch s o r I NS Hw ND Hb).
Qed.
Print Assumptions C10_work_left_measure.

(* Deferral (replaces the former structural C10_next_batch_partial).  When a
   batch starts - after a batch that completed, after a batch that failed,
   after Start, or when a request wakes the waiting batch manager - EVERY
   waiting request is covered by it: nextBatch is empty again, all of them are
   in the queue and the scan starts at or below each start height. *)
Theorem C10_next_batch_covers : forall ch tip0 pre o r h,
  0 <= tip0 < Z.of_nat (length ch) ->
  let s := run ch (init tip0) pre in
  (is_step o = true \/ pc s = Idle \/ pc s = NotStarted) ->
  pc (step ch s o) = Best0 h -> In r (waiting (step ch s o)) ->
  In r (pq (step ch s o)) /\ h <= birth r /\ covered (step ch s o) r = true.
Proof.
  intros ch tip0 pre o r h H0 s En Hp Hw.
  assert (I : linv ch s) by (apply linv_run; apply linv_init; exact H0).
  pose proof (batch_start_covers ch s o r h I En Hp Hw) as C.
  split; [|split; [|apply covered_cov; exact C]]; unfold cov in C; rewrite Hp in C; tauto.
Qed.
Print Assumptions C10_next_batch_covers.

(* ... a covered request stays covered while its batch runs (work_left
   measure), and it is answered at the latest by the step that completes the
   batch without a failure.  Together: a request waits for at most the rest
   of the running batch and one more batch, plus one batch per failure. *)
Theorem C10_covered_answered_when_batch_completes : forall ch tip0 pre m r h,
  0 <= tip0 < Z.of_nat (length ch) ->
  let s := run ch (init tip0) pre in
  In r (waiting s) -> birth r <= tip s -> covered s r = true ->
  pc (step ch s (Step false m)) = Best0 h \/ pc (step ch s (Step false m)) = Idle ->
  In r (delivered (step ch s (Step false m))).
Proof.
  intros ch tip0 pre m r h H0 s Hw Hb C Hp.
  assert (I : linv ch s) by (apply linv_run; apply linv_init; exact H0).
  apply covered_cov in C.
  assert (NS : pc s <> NotStarted) by (intros E; unfold cov in C; rewrite E in C; exact C).
  cbn [step] in *. destruct Hp as [Hp|Hp].
  - eapply covered_answered_at_batch_end; eauto.
  - destruct (step_ok_prog ch s r m I NS Hw Hb) as [D|(W & _)]; [exact D|].
    pose proof (linv_scan_step ch s false m I) as (_ & Lb & _ & A & P). rewrite Hp in P, A.
    destruct P as (_ & P1 & P2). unfold waiting in W. rewrite P1, P2, (A eq_refl), Lb, Hp in W. destruct W.
Qed.
Print Assumptions C10_covered_answered_when_batch_completes.

(* The two hypotheses of the progress theorem are needed (behaviour of the
   code, not counted as violations of the statement).  (1) A bound in scanner
   steps alone does not exist when callbacks keep failing: with the first
   BestSnapshot failing every time the batch manager restarts the scan for
   ever; the queued request gets neither a result nor the error. *)
Theorem C10_progress_needs_finite_failures : forall ch tip0 o b n, 0 <= b ->
  let r := {| rid := 0; rop := o; birth := b |} in
  let s := run ch (init tip0) [Enq o b; Start] in
  pc s <> NotStarted /\ In r (waiting s) /\
  In r (waiting (run ch s (repeat (Step true true) n))) /\
  delivered (run ch s (repeat (Step true true) n)) = [].
Proof. exact failures_starve. Qed.
Print Assumptions C10_progress_needs_finite_failures.

(* (2) A request whose start height is above the tip is not answered while
   no block arrives: the batch manager polls BestSnapshot for ever (it is
   answered once the chain reaches the height, or at shutdown). *)
Theorem C10_progress_needs_start_at_or_below_tip : forall ch tip0 o b n, 0 <= b -> tip0 < b ->
  let r := {| rid := 0; rop := o; birth := b |} in
  let s := run ch (init tip0) [Enq o b; Start] in
  pc s <> NotStarted /\ In r (waiting s) /\
  In r (waiting (run ch s (repeat (Step false true) n))) /\
  delivered (run ch s (repeat (Step false true) n)) = [].
Proof. exact above_tip_waits. Qed.
Print Assumptions C10_progress_needs_start_at_or_below_tip.

(* The monitor tells the two BestSnapshot calls (start of a batch / end of the
   scanned range, one observation code) apart by tracking a phase; on the
   model the tracked phase is the true one after every operation. *)
Theorem C10_phase_correct : forall ch s o,
  next_phase (phase_of (pc s)) o (code_of (pc (step ch s o))) = phase_of (pc (step ch s o)).
Proof. exact phase_correct. Qed.
Print Assumptions C10_phase_correct.

(* Non-vacuity: a history with a request served at its creation height, a
   duplicate request for the same outpoint with a later start height arriving
   while the scan runs (the F07 shape), a late arrival deferred to the next
   batch, a block arriving during the scan, a failing GetBlock at a start
   height (the F06 shape), a false-positive filter answer and a Stop meets the
   hypotheses; the results are the expected ones and everybody is answered. *)
Definition ex_chain : list block :=
  [ [ {| txid := 0; ins := []; nouts := 1 |} ];
    [ {| txid := 1; ins := []; nouts := 1 |}; {| txid := 2; ins := [(0, 0)]; nouts := 2 |} ];
    [ {| txid := 3; ins := []; nouts := 1 |} ];
    [ {| txid := 4; ins := []; nouts := 1 |}; {| txid := 5; ins := [(9, 9); (2, 1)]; nouts := 1 |} ];
    [ {| txid := 6; ins := []; nouts := 1 |} ] ].
Definition ex_ops : list op :=
  [ Enq (2, 0) 1; Start; Step false true; Step false true; Step false true;   (* block 1 processed *)
    Enq (2, 0) 2; Enq (2, 1) 1; Enq (0, 0) 0;                                  (* dup later start; two late arrivals *)
    Step false true; Step false true; NewBlock;                                (* block 2 *)
    Step false true; Step false true;                                          (* block 3: (2,1) spent; wait: in next batch *)
    Step false true; Step false true; Step false false; Step false true;       (* tip grew: block 4, filter says no *)
    Step false true; Step false true; Step false true;                         (* next batch from height 0 *)
    Step false true; Step false true; Step false true; Step false true; Step false true;
    Step false true; Step false true; Step false true; Step false true;
    Enq (6, 0) 4; Step false true; Step false true; Step true true;            (* GetBlock fails at its start height *)
    Enq (6, 0) 4; Stop; Step false true; Finish ].
(* The adapter between GetCFilter and the scanner's filter oracle
   (blockFilterMatches; C10/Adapter.v, compared with the real function on
   every run): "no match" — the answer that makes the scanner skip a block for
   good — is only given for a fetched filter that is empty or does not match,
   or when the block's hash is unknown (reorganised out); a filter that could
   not be fetched is an error, never a silent miss.  This is the adapter's
   share of the hypothesis "the filter oracle has no false negatives". *)
Theorem C10_filter_adapter_no_silent_miss : forall f,
  adapter f = ANoMatch ->
  (exists n m, f = FOk n m /\ (n = 0 \/ m = false)) \/ f = FHashNotFound.
Proof. exact adapter_no_silent_miss. Qed.
Print Assumptions C10_filter_adapter_no_silent_miss.

Example C10_nonvacuous :
  fsound ex_chain (init 3) ex_ops = true /\
  (let s := run ex_chain (init 3) ex_ops in
   pc s = Exited /\
   map (fun d : dl => (rid (fst (fst d)), snd (fst d))) (log s) =
   [ (0, RUnspent 1 1 2 0); (1, REmpty); (3, RSpent 2 0 1); (2, RSpent 5 1 3);
     (4, RErrFetch); (5, RErrShut) ]).
Proof. vm_compute. repeat split. Qed.

(* Non-vacuity of the progress theorem: in the history above, after the first
   eight operations the request 2 for (2,1) with start height 1 has arrived
   while the scan was at height 2: it is not covered, work_left = 12 + 22.
   34 scanner steps (the first batch to its end, the next batch from height
   0) answer it with the spend in block 3. *)
Example C10_progress_nonvacuous :
  let pre := firstn 8 ex_ops in
  let s := run ex_chain (init 3) pre in
  let r := {| rid := 2; rop := (2, 1); birth := 1 |} in
  let ops := repeat (Step false true) 34 in
  pc s = Hash 2 3 /\ In r (waiting s) /\ birth r <= tip s /\ covered s r = false /\
  work_left ex_chain s r = 34%nat /\
  (work_left ex_chain s r + fails ops * batch_bound ex_chain <= steps ops)%nat /\
  fsound ex_chain (init 3) (pre ++ ops) = true /\
  In (r, RSpent 5 1 3, 3) (log (run ex_chain s ops)).
Proof. vm_compute. repeat split; auto 10; try (intros H; discriminate H). Qed.
