(* C10 — the property theorems, and nothing else.
   Model = utxoscanner.go + batch_spend_reporter.go as repaired for F06/F07
   (known_findings/C10.json); every theorem quantifies over every chain,
   every list of operations (Enqueue / Start / scanner step with or without
   a failing callback and with any filter answer / new block / Stop), i.e.
   every arrival time of requests and blocks relative to the scan. *)
From Coq Require Import ZArith List Bool Lia Permutation.
From Verif Require Import C10.Model C10.Spec C10.Proofs.
Import ListNotations.
Open Scope Z_scope.

(* Exactly once, nobody lost: at every moment of every history the accepted
   requests are, as a multiset, exactly the requests still held by the
   scanner (queue, next batch, reporter, in flight) plus the delivered ones;
   request ids are pairwise distinct, so no request is answered twice or is
   both answered and still waiting. *)
Theorem C10_exactly_once : forall ch tip0 ops,
  let s := run ch (init tip0) ops in
  Permutation (waiting s ++ delivered s) (accepted ops) /\
  NoDup (map rid (waiting s ++ delivered s)).
Proof. intros ch tip0 ops. split; [exact (conservation ch tip0 ops)|exact (exactly_once ch tip0 ops)]. Qed.
Print Assumptions C10_exactly_once.

(* No caller is left waiting by a shutdown: once the batch manager has
   exited, every accepted request has been delivered a result. *)
Theorem C10_all_answered_after_shutdown : forall ch tip0 ops,
  let s := run ch (init tip0) ops in
  pc s = Exited -> waiting s = [] /\ Permutation (delivered s) (accepted ops).
Proof. exact all_answered_after_shutdown. Qed.
Print Assumptions C10_all_answered_after_shutdown.

(* Every delivered result is the true fate of the outpoint on the chain the
   scan saw (tip t at delivery), or the callback error and a callback did
   fail, or ErrShuttingDown and Stop was called.  Hypotheses: the initial
   tip is a block of the chain; negative filter answers in the history are
   truthful (no false negatives; false positives are allowed). *)
Theorem C10_result_is_fate : forall ch tip0 ops q r t,
  0 <= tip0 < Z.of_nat (length ch) -> fsound ch (init tip0) ops = true ->
  In (q, r, t) (log (run ch (init tip0) ops)) ->
  t <= tip (run ch (init tip0) ops) /\
  ((r = RErrFetch /\ existsb is_fail ops = true) \/
   (r = RErrShut /\ existsb is_stop ops = true) \/
   (0 <= birth q <= t /\ r = fate ch t (rop q) (birth q))).
Proof. exact result_is_fate. Qed.
Print Assumptions C10_result_is_fate.

(* [fate] is the statement's reading: earliest spend at a height in
   [start, t]; else the output if block start creates it, else empty. *)
Theorem C10_fate_meaning : forall ch t o start, start <= t < Z.of_nat (length ch) ->
  Fate ch t o start (fate ch t o start).
Proof. exact fate_correct. Qed.
Print Assumptions C10_fate_meaning.

(* Requests the running scan has passed are served by the next batch
   (PARTIAL: structural half only).  A request whose start height is below
   the height being dequeued goes to nextBatch; one at the height is taken
   into the running batch; when the batch manager takes over again (no
   shutdown) every request of queue and nextBatch is back in the queue,
   nextBatch is empty and the next scan starts at or below its start height.
   Not proved: termination of the scan loop, i.e. that the next batch
   eventually completes when callbacks stop failing (the correspondence run
   checks the delivery step of every request against the model instead). *)
Theorem C10_next_batch_partial : forall s h q,
  (In q (pq s) -> birth q < h -> In q (nextb (fst (dequeue s h)))) /\
  (In q (pq s) -> birth q = h -> In q (snd (dequeue s h))) /\
  (quit s = false -> In q (pq s ++ nextb s) ->
   nextb (to_manager s) = [] /\ In q (pq (to_manager s)) /\
   exists h0, pc (to_manager s) = Best0 h0 /\ h0 <= birth q).
Proof.
  intros s h q. split; [apply dequeue_defers|]. split; [apply dequeue_takes|apply next_batch].
Qed.
Print Assumptions C10_next_batch_partial.

(* Non-vacuity: a history with a request served at its creation height, a
   duplicate request for the same outpoint with a later start height arriving
   while the scan runs (the F07 shape), a late arrival deferred to the next
   batch, a block arriving during the scan, a failing GetBlock at a start
   height (the F06 shape), a false-positive filter answer and a Stop meets the
   hypotheses; the results are the expected ones and everybody is answered. *)
Definition ex_chain : list block :=
  [ [ {| txid := 0; ins := []; nouts := 1 |} ];
    [ {| txid := 1; ins := []; nouts := 1 |}; {| txid := 2; ins := [(0, 0)]; nouts := 2 |} ];
    [ {| txid := 3; ins := []; nouts := 1 |} ];
    [ {| txid := 4; ins := []; nouts := 1 |}; {| txid := 5; ins := [(9, 9); (2, 1)]; nouts := 1 |} ];
    [ {| txid := 6; ins := []; nouts := 1 |} ] ].
Definition ex_ops : list op :=
  [ Enq (2, 0) 1; Start; Step false true; Step false true; Step false true;   (* block 1 processed *)
    Enq (2, 0) 2; Enq (2, 1) 1; Enq (0, 0) 0;                                  (* dup later start; two late arrivals *)
    Step false true; Step false true; NewBlock;                                (* block 2 *)
    Step false true; Step false true;                                          (* block 3: (2,1) spent; wait: in next batch *)
    Step false true; Step false true; Step false false; Step false true;       (* tip grew: block 4, filter says no *)
    Step false true; Step false true; Step false true;                         (* next batch from height 0 *)
    Step false true; Step false true; Step false true; Step false true; Step false true;
    Step false true; Step false true; Step false true; Step false true;
    Enq (6, 0) 4; Step false true; Step false true; Step true true;            (* GetBlock fails at its start height *)
    Enq (6, 0) 4; Stop; Step false true; Finish ].
Example C10_nonvacuous :
  fsound ex_chain (init 3) ex_ops = true /\
  (let s := run ex_chain (init 3) ex_ops in
   pc s = Exited /\
   map (fun d : dl => (rid (fst (fst d)), snd (fst d))) (log s) =
   [ (0, RUnspent 1 1 2 0); (1, REmpty); (3, RSpent 2 0 1); (2, RSpent 5 1 3);
     (4, RErrFetch); (5, RErrShut) ]).
Proof. vm_compute. repeat split. Qed.
