(* C10 — progress: every waiting request is answered after a bounded number of
   steps of the batch goroutine.  Lemmas only; statements in Properties.v.

   Vocabulary.
   * A "scanner step" is an operation [Step fail fm]: the pending chain
     callback of the batch goroutine returns (with or without an error).
   * [batch_left ch pc]: upper bound on the number of scanner steps after
     which the running batch has ended, counted in heights of the chain
     ([length ch] bounds the tip during the whole history).
   * [covered s r]: the RUNNING batch will take care of r (r is in the
     reporter, in flight, or queued at a height the scan has not dequeued
     yet).  A request that is not covered (deferred into nextBatch, or queued
     below the scan position) is covered by the next batch.
   * [work_left ch s r] = batch_left + (one whole batch if r is not covered). *)
From Coq Require Import ZArith List Bool Lia ZifyBool Permutation Arith.
From Verif Require Import C10.Model C10.Spec C10.Proofs.
Import ListNotations.
Open Scope Z_scope.

(* ------------------------------------------------------------------ *)
(* the measure *)

Definition inb (r : req) (l : list req) : bool := if in_dec req_dec r l then true else false.

Lemma inb_true : forall r l, inb r l = true <-> In r l.
Proof. intros r l. unfold inb. destruct (in_dec req_dec r l); split; auto; discriminate. Qed.

Lemma inb_false : forall r l, inb r l = false <-> ~ In r l.
Proof. intros r l. unfold inb. destruct (in_dec req_dec r l); split; auto; try discriminate. intros H. contradiction. Qed.

(* heights h, h+1, ..., length ch - 1 *)
Definition hts (ch : list block) (h : Z) : nat := Z.to_nat (Z.of_nat (length ch) - Z.max 0 h).

(* scanner steps one whole batch can take: at most 4 per height + 2 *)
Definition batch_bound (ch : list block) : nat := 4 * length ch + 2.

Definition batch_left (ch : list block) (p : pcT) : nat :=
  match p with
  | Best0 _ => batch_bound ch
  | Hash h _ => 4 * hts ch h
  | Filt h _ => 4 * hts ch h - 1
  | Blk h _ _ => 4 * hts ch h - 2
  | Best1 e => 4 * hts ch (e + 1) + 1
  | NotStarted | Idle | Exited => 0
  end%nat.

Definition covered (s : state) (r : req) : bool :=
  match pc s with
  | Best0 h => inb r (pq s) && (h <=? birth r)
  | Hash h _ => inb r (map fst (act s)) || (inb r (pq s) && (h <=? birth r))
  | Filt h _ => inb r (map fst (act s)) || (inb r (pq s) && (h + 1 <=? birth r))
  | Blk h _ nr => inb r (map fst (act s)) || inb r nr || (inb r (pq s) && (h + 1 <=? birth r))
  | Best1 e => inb r (map fst (act s)) || (inb r (pq s) && (e + 1 <=? birth r))
  | NotStarted | Idle | Exited => false
  end.

Definition work_left (ch : list block) (s : state) (r : req) : nat :=
  if inb r (delivered s) then O
  else (batch_left ch (pc s) + (if covered s r then 0 else batch_bound ch))%nat.

Definition is_step (o : op) : bool := match o with Step _ _ => true | _ => false end.
Definition steps (ops : list op) : nat := length (filter is_step ops).
Definition fails (ops : list op) : nat := length (filter is_fail ops).

(* Prop reading of [covered] *)
Definition cov (s : state) (r : req) : Prop :=
  match pc s with
  | Best0 h => In r (pq s) /\ h <= birth r
  | Hash h _ => In r (map fst (act s)) \/ (In r (pq s) /\ h <= birth r)
  | Filt h _ => In r (map fst (act s)) \/ (In r (pq s) /\ h + 1 <= birth r)
  | Blk h _ nr => In r (map fst (act s)) \/ In r nr \/ (In r (pq s) /\ h + 1 <= birth r)
  | Best1 e => In r (map fst (act s)) \/ (In r (pq s) /\ e + 1 <= birth r)
  | NotStarted | Idle | Exited => False
  end.

Lemma covered_cov : forall s r, covered s r = true <-> cov s r.
Proof.
  intros s r. unfold covered, cov. destruct (pc s);
    rewrite ?orb_true_iff, ?andb_true_iff, ?inb_true, ?Z.leb_le; try tauto.
  split; [discriminate|tauto]. split; [discriminate|tauto]. split; [discriminate|tauto].
Qed.

(* ------------------------------------------------------------------ *)
(* the light invariant (no hypothesis on filter answers) *)

Definition births_ok (l : list req) : Prop := Forall (fun q => 0 <= birth q) l.

Definition linv (ch : list block) (s : state) : Prop :=
  0 <= tip s < Z.of_nat (length ch) /\
  limbo s = [] /\
  births_ok (pq s ++ nextb s) /\
  (quiet_pc (pc s) = true -> act s = []) /\
  match pc s with
  | Hash h e | Filt h e | Blk h e _ => 0 <= h <= e /\ e <= tip s
  | Best1 e => 0 <= e <= tip s
  | Best0 h => 0 <= h
  | Idle => quit s = false /\ pq s = [] /\ nextb s = []
  | Exited => quit s = true /\ pq s = [] /\ nextb s = []
  | NotStarted => True
  end.

(* what to_manager needs *)
Definition pre_tm (ch : list block) (s : state) : Prop :=
  0 <= tip s < Z.of_nat (length ch) /\ births_ok (pq s ++ nextb s) /\ act s = [] /\
  (quit s = true \/ limbo s = []).

Lemma min_birth_none : forall l, min_birth l = None -> l = [].
Proof. intros [|x l] H; [reflexivity|discriminate]. Qed.

Lemma linv_to_manager : forall ch s, pre_tm ch s -> linv ch (to_manager s).
Proof.
  intros ch s (T & B & A & Q). unfold to_manager. destruct (quit s) eqn:Qt.
  - unfold linv. cbn. repeat split; try lia; try constructor. intros _. exact A.
  - destruct Q as [Q|Q]; [discriminate|].
    destruct (min_birth (pq s ++ nextb s)) as [h|] eqn:M.
    + unfold linv. cbn. rewrite app_nil_r. repeat split; try lia; try assumption.
      * intros _. exact A.
      * eapply min_birth_ge; eauto.
    + apply min_birth_none in M. unfold linv. cbn. rewrite app_nil_r, M.
      repeat split; try lia; try assumption; try constructor. intros _. exact A.
Qed.

Lemma pre_tm_fail_remaining : forall ch s e,
  0 <= tip s < Z.of_nat (length ch) -> births_ok (pq s ++ nextb s) -> (quit s = true \/ limbo s = []) ->
  pre_tm ch (fail_remaining s e).
Proof. intros ch s e T B Q. unfold pre_tm. cbn. auto. Qed.

Lemma linv_loop_head : forall ch s h e,
  0 <= tip s < Z.of_nat (length ch) -> limbo s = [] -> births_ok (pq s ++ nextb s) ->
  0 <= h -> 0 <= e <= tip s ->
  linv ch (loop_head s h e).
Proof.
  intros ch s h e T Lb B Hh He. unfold loop_head. destruct (e <? h) eqn:E.
  - unfold linv. cbn. repeat split; try lia; try assumption; try discriminate.
  - destruct (quit s) eqn:Qt.
    + apply linv_to_manager. apply pre_tm_fail_remaining; auto.
    + unfold linv. cbn. repeat split; try lia; try assumption; try discriminate.
Qed.

Lemma births_filter3 : forall l nb h, births_ok (l ++ nb) ->
  births_ok (filter (fun r => h <? birth r) l ++ nb ++ filter (fun r => birth r <? h) l).
Proof.
  intros l nb h B. unfold births_ok in *. apply Forall_app in B. destruct B as [B1 B2].
  apply Forall_app. split; [apply Forall_filter; exact B1|].
  apply Forall_app. split; [exact B2|apply Forall_filter; exact B1].
Qed.

Lemma linv_scan_step : forall ch s f m, linv ch s -> linv ch (scan_step ch s f m).
Proof.
  intros ch s f m I. pose proof I as (T & Lb & B & A & P). unfold scan_step.
  destruct (pc s) as [| |h|h e|h e|h e nr|e|] eqn:Epc; try exact I.
  - (* Best0 *)
    destruct f.
    + apply linv_to_manager. unfold pre_tm. repeat split; try lia; auto; try (apply A; reflexivity).
    + apply linv_loop_head; cbn; auto; lia.
  - (* Hash *)
    destruct f.
    + apply linv_to_manager. apply pre_tm_fail_remaining; auto.
    + unfold dequeue. cbn [fst snd].
      destruct (filter (fun r => birth r =? h) (pq s)) as [|n0 now'] eqn:F.
      * unfold linv. cbn. repeat split; try lia; auto; try discriminate. apply births_filter3. exact B.
      * cbn [quit]. destruct (quit s) eqn:Qt.
        -- apply linv_to_manager. apply pre_tm_fail_remaining; cbn; auto. apply births_filter3. exact B.
        -- unfold linv. cbn. repeat split; try lia; auto; try discriminate. apply births_filter3. exact B.
  - (* Filt *)
    destruct f.
    + apply linv_to_manager. apply pre_tm_fail_remaining; auto.
    + destruct m; cbn [negb].
      * destruct (quit s) eqn:Qt.
        -- apply linv_to_manager. apply pre_tm_fail_remaining; auto.
        -- unfold linv. cbn. repeat split; try lia; auto; try discriminate.
      * apply linv_loop_head; auto; lia.
  - (* Blk *)
    destruct f.
    + apply linv_to_manager. apply pre_tm_fail_remaining; cbn; auto.
    + destruct (quit s) eqn:Qt.
      * apply linv_to_manager. apply pre_tm_fail_remaining; cbn; auto.
      * destruct (nth_block ch h) as [blk|]; [|exact I].
        destruct (process_block_frame s blk nr h) as (_ & _ & Tp & _ & Pq & Nb & Lm).
        apply linv_loop_head; rewrite ?Tp, ?Pq, ?Nb, ?Lm; auto; lia.
  - (* Best1 *)
    destruct f.
    + apply linv_to_manager. apply pre_tm_fail_remaining; auto.
    + destruct (e <? tip s) eqn:E.
      * apply linv_loop_head; auto; lia.
      * apply linv_to_manager. unfold pre_tm. cbn. auto.
Qed.

Lemma linv_step : forall ch s o, linv ch s -> linv ch (step ch s o).
Proof.
  intros ch s o I. pose proof I as (T & Lb & B & A & P).
  destruct o as [p b| |f m| | |]; cbn [step].
  - destruct (quit s || (b <? 0)) eqn:G; [exact I|].
    apply orb_false_iff in G. destruct G as [Qt Gb].
    set (q0 := {| rid := nxt s; rop := p; birth := b |}).
    assert (B1 : births_ok ((pq s ++ [q0]) ++ nextb s)).
    { unfold births_ok in *. apply Forall_app in B. destruct B as [B1 B2].
      apply Forall_app. split; [|exact B2]. apply Forall_app. split; [exact B1|].
      constructor; [cbn; lia|constructor]. }
    destruct (pc s) eqn:Epc.
    + unfold linv; cbn; repeat split; try lia; auto; try tauto.
    + apply linv_to_manager. unfold pre_tm. cbn. repeat split; try lia; auto.
    + unfold linv; cbn; repeat split; try lia; auto; try tauto.
    + unfold linv; cbn; repeat split; try lia; auto; try tauto.
    + unfold linv; cbn; repeat split; try lia; auto; try tauto.
    + unfold linv; cbn; repeat split; try lia; auto; try tauto.
    + unfold linv; cbn; repeat split; try lia; auto; try tauto.
    + destruct P as (Q & _). congruence.
  - destruct (pc s) eqn:Epc; try exact I.
    apply linv_to_manager. unfold pre_tm. repeat split; try lia; auto.
  - apply linv_scan_step. exact I.
  - destruct (tip s + 1 <? Z.of_nat (length ch)) eqn:E; [|exact I].
    unfold linv. cbn. destruct (pc s); repeat split; try lia; try tauto.
  - destruct (pc s) eqn:Epc.
    + unfold linv; cbn; repeat split; try lia; auto; try tauto.
    + apply linv_to_manager. unfold pre_tm. cbn. repeat split; try lia; auto.
    + unfold linv; cbn; repeat split; try lia; auto; try tauto.
    + unfold linv; cbn; repeat split; try lia; auto; try tauto.
    + unfold linv; cbn; repeat split; try lia; auto; try tauto.
    + unfold linv; cbn; repeat split; try lia; auto; try tauto.
    + unfold linv; cbn; repeat split; try lia; auto; try tauto.
    + unfold linv; cbn; repeat split; try lia; auto; try tauto.
  - exact I.
Qed.

Lemma linv_run : forall ch ops s, linv ch s -> linv ch (run ch s ops).
Proof.
  intros ch ops. induction ops as [|o r IH]; intros s I; [exact I|].
  cbn [run fold_left]. apply IH. apply linv_step. exact I.
Qed.

Lemma linv_init : forall ch tip0, 0 <= tip0 < Z.of_nat (length ch) -> linv ch (init tip0).
Proof. intros ch tip0 H. unfold linv. cbn. repeat split; try lia; constructor. Qed.

(* ------------------------------------------------------------------ *)
(* the log only grows *)

Definition lext (s s' : state) : Prop := exists l, log s' = log s ++ l.

Lemma lext_refl : forall s, lext s s.
Proof. intros s. exists []. rewrite app_nil_r. reflexivity. Qed.

Lemma lext_trans : forall a b c, lext a b -> lext b c -> lext a c.
Proof. intros a b c [l1 H1] [l2 H2]. exists (l1 ++ l2). rewrite H2, H1, app_assoc. reflexivity. Qed.

Lemma lext_same : forall s s', log s' = log s -> lext s s'.
Proof. intros s s' H. exists []. rewrite app_nil_r. exact H. Qed.

Lemma lext_delivered : forall s s' r, lext s s' -> In r (delivered s) -> In r (delivered s').
Proof.
  intros s s' r [l H] Hr. unfold delivered in *. rewrite H, map_app. apply in_or_app. left. exact Hr.
Qed.

Lemma lext_deliver : forall s rs e, lext s (deliver s rs e).
Proof. intros. eexists. reflexivity. Qed.

Lemma lext_fail_remaining : forall s e, lext s (fail_remaining s e).
Proof. intros. eexists. reflexivity. Qed.

Lemma lext_notify_unspent : forall s, lext s (notify_unspent s).
Proof. intros. eexists. reflexivity. Qed.

Lemma lext_process_block : forall s blk nr h, lext s (process_block s blk nr h).
Proof. intros. unfold process_block. destruct (notify_spends _ _ _ _). eexists. reflexivity. Qed.

Lemma lext_to_manager : forall s, lext s (to_manager s).
Proof.
  intros s. unfold to_manager. destruct (quit s).
  - eexists. reflexivity.
  - destruct (min_birth (pq s ++ nextb s)); apply lext_same; reflexivity.
Qed.

Lemma lext_loop_head : forall s h e, lext s (loop_head s h e).
Proof.
  intros s h e. unfold loop_head. destruct (e <? h); [apply lext_same; reflexivity|].
  destruct (quit s); [|apply lext_same; reflexivity].
  eapply lext_trans; [apply lext_fail_remaining|apply lext_to_manager].
Qed.

Lemma lext_scan_step : forall ch s f m, lext s (scan_step ch s f m).
Proof.
  intros ch s f m. unfold scan_step.
  destruct (pc s) as [| |h|h e|h e|h e nr|e|]; try apply lext_refl.
  - destruct f; [apply lext_to_manager|].
    eapply lext_trans; [|apply lext_loop_head]. apply lext_same. reflexivity.
  - destruct f; [eapply lext_trans; [apply lext_fail_remaining|apply lext_to_manager]|].
    unfold dequeue. cbn [fst snd]. destruct (filter (fun r => birth r =? h) (pq s)); [apply lext_same; reflexivity|].
    cbn [quit]. destruct (quit s); [|apply lext_same; reflexivity].
    eapply lext_trans; [|apply lext_to_manager]. eapply lext_trans; [|apply lext_fail_remaining].
    apply lext_same. reflexivity.
  - destruct f; [eapply lext_trans; [apply lext_fail_remaining|apply lext_to_manager]|].
    destruct m; cbn [negb]; [|apply lext_loop_head].
    destruct (quit s); [|apply lext_same; reflexivity].
    eapply lext_trans; [apply lext_fail_remaining|apply lext_to_manager].
  - destruct f.
    + eapply lext_trans; [|apply lext_to_manager]. eapply lext_trans; [|apply lext_fail_remaining].
      apply lext_deliver.
    + destruct (quit s).
      * eapply lext_trans; [|apply lext_to_manager]. eapply lext_trans; [|apply lext_fail_remaining].
        apply lext_same. reflexivity.
      * destruct (nth_block ch h); [|apply lext_refl].
        eapply lext_trans; [apply lext_process_block|apply lext_loop_head].
  - destruct f; [eapply lext_trans; [apply lext_fail_remaining|apply lext_to_manager]|].
    destruct (e <? tip s); [apply lext_loop_head|].
    eapply lext_trans; [apply lext_notify_unspent|apply lext_to_manager].
Qed.

Lemma lext_step : forall ch s o, lext s (step ch s o).
Proof.
  intros ch s o. destruct o as [p b| |f m| | |]; cbn [step]; try apply lext_refl.
  - destruct (quit s || (b <? 0)); [apply lext_refl|].
    destruct (pc s); try (apply lext_same; reflexivity).
    eapply lext_trans; [|apply lext_to_manager]. apply lext_same. reflexivity.
  - destruct (pc s); try apply lext_refl. apply lext_to_manager.
  - apply lext_scan_step.
  - destruct (tip s + 1 <? Z.of_nat (length ch)); [apply lext_same; reflexivity|apply lext_refl].
  - destruct (pc s); try (apply lext_same; reflexivity).
    eapply lext_trans; [|apply lext_to_manager]. apply lext_same. reflexivity.
Qed.

Lemma lext_run : forall ch ops s, lext s (run ch s ops).
Proof.
  intros ch ops. induction ops as [|o r IH]; intros s; [apply lext_refl|].
  cbn [run fold_left]. eapply lext_trans; [apply lext_step|apply IH].
Qed.

(* ------------------------------------------------------------------ *)
(* where the deliveries of the primitives go *)

Lemma delivered_deliver : forall s rs e, delivered (deliver s rs e) = delivered s ++ rs.
Proof. intros. unfold delivered. cbn. rewrite map_app, dreq_map. reflexivity. Qed.

Lemma delivered_fail_remaining : forall s e, delivered (fail_remaining s e) = delivered s ++ map fst (act s).
Proof. intros. unfold delivered. cbn. rewrite map_app, dreq_map. reflexivity. Qed.

Lemma delivered_notify_unspent : forall s, delivered (notify_unspent s) = delivered s ++ map fst (act s).
Proof.
  intros. unfold delivered. cbn. rewrite map_app, map_map. f_equal.
Qed.

Lemma to_manager_quit : forall s, quit s = true ->
  delivered (to_manager s) = delivered s ++ (pq s ++ nextb s) ++ limbo s.
Proof. intros s Q. unfold to_manager. rewrite Q. unfold delivered. cbn. rewrite map_app, dreq_map. reflexivity. Qed.

Lemma to_manager_noquit : forall s, quit s = false ->
  pq (to_manager s) = pq s ++ nextb s /\ nextb (to_manager s) = [] /\ limbo (to_manager s) = limbo s /\
  act (to_manager s) = act s /\
  (pq s ++ nextb s = [] \/
   exists h, pc (to_manager s) = Best0 h /\ forall q, In q (pq s ++ nextb s) -> h <= birth q).
Proof.
  intros s Q. unfold to_manager. rewrite Q.
  destruct (min_birth (pq s ++ nextb s)) as [h|] eqn:M; cbn; repeat split.
  - right. exists h. split; [reflexivity|]. intros q Hq. eapply min_birth_le; eauto.
  - left. apply min_birth_none. exact M.
Qed.

(* a batch has ended and the batch manager takes over with the state X *)
Lemma batch_end : forall X r,
  act X = [] -> (limbo X = [] \/ quit X = true) ->
  In r (pq X ++ nextb X ++ limbo X ++ delivered X) ->
  In r (delivered (to_manager X)) \/
  (In r (waiting (to_manager X)) /\ cov (to_manager X) r /\ exists h, pc (to_manager X) = Best0 h).
Proof.
  intros X r A Q H. destruct (quit X) eqn:Qt.
  - left. rewrite (to_manager_quit X Qt). rewrite !in_app_iff in *. tauto.
  - destruct Q as [Lb|Q]; [|discriminate]. rewrite Lb in H. cbn [app] in H.
    destruct (to_manager_noquit X Qt) as (Pq & Nb & Lm & Ac & M).
    rewrite !in_app_iff in H. destruct H as [H|[H|H]].
    + right. destruct M as [M|(h & Hp & Hm)].
      { exfalso. assert (Hi : In r (pq X ++ nextb X)) by (apply in_or_app; tauto). rewrite M in Hi. destruct Hi. }
      assert (Hi : In r (pq (to_manager X))) by (rewrite Pq; apply in_or_app; tauto).
      split; [unfold waiting; apply in_or_app; tauto|].
      split; [|exists h; exact Hp]. unfold cov. rewrite Hp. split; [exact Hi|].
      apply Hm. apply in_or_app. tauto.
    + right. destruct M as [M|(h & Hp & Hm)].
      { exfalso. assert (Hi : In r (pq X ++ nextb X)) by (apply in_or_app; tauto). rewrite M in Hi. destruct Hi. }
      assert (Hi : In r (pq (to_manager X))) by (rewrite Pq; apply in_or_app; tauto).
      split; [unfold waiting; apply in_or_app; tauto|].
      split; [|exists h; exact Hp]. unfold cov. rewrite Hp. split; [exact Hi|].
      apply Hm. apply in_or_app. tauto.
    + left. eapply lext_delivered; [apply lext_to_manager|exact H].
Qed.

Lemma batch_end_quit : forall X r, quit X = true ->
  In r (pq X ++ nextb X ++ limbo X ++ delivered X) -> In r (delivered (to_manager X)).
Proof.
  intros X r Qt H. rewrite (to_manager_quit X Qt). rewrite !in_app_iff in *. tauto.
Qed.

Lemma nth_block_some : forall ch h, 0 <= h < Z.of_nat (length ch) -> exists blk, nth_block ch h = Some blk.
Proof.
  intros ch h H. unfold nth_block.
  replace ((0 <=? h) && (h <? Z.of_nat (length ch))) with true by lia.
  destruct (nth_error ch (Z.to_nat h)) as [b|] eqn:E; [exists b; reflexivity|].
  apply nth_error_None in E. lia.
Qed.

Lemma process_block_keeps : forall s blk nr h r,
  In r (map fst (act s)) \/ In r nr ->
  In r (map fst (act (process_block s blk nr h))) \/ In r (delivered (process_block s blk nr h)).
Proof.
  intros s blk nr h r H. unfold process_block.
  pose proof (cnt_notify_spends h (tip s) (spends_in blk)
                (act s ++ map (fun q0 => (q0, created_in blk h (rop q0))) nr) r) as C.
  destruct (notify_spends h (tip s) (spends_in blk) _) as [a2 d]. cbn [fst snd] in C.
  unfold delivered. cbn [act log]. rewrite map_app, in_app_iff.
  rewrite map_app, map_map in C. cbn [fst] in C. rewrite map_id, count_occ_app in C.
  assert (P : (cnt (map fst (act s)) r + cnt nr r > 0)%nat).
  { destruct H as [H|H]; apply (count_occ_In req_dec) in H; lia. }
  destruct (Nat.eq_dec (cnt (map fst a2) r) 0) as [Z0|NZ].
  - right. right. apply (count_occ_In req_dec). lia.
  - left. apply (count_occ_In req_dec). lia.
Qed.

(* ------------------------------------------------------------------ *)
(* one scanner step *)

Lemma loop_head_prog : forall X h e r,
  limbo X = [] ->
  In r (pq X ++ nextb X ++ map fst (act X) ++ delivered X) ->
  In r (delivered (loop_head X h e)) \/
  (In r (waiting (loop_head X h e)) /\ pq (loop_head X h e) = pq X /\ act (loop_head X h e) = act X /\
   ((e < h /\ pc (loop_head X h e) = Best1 e) \/ (h <= e /\ pc (loop_head X h e) = Hash h e))).
Proof.
  intros X h e r Lb H. rewrite !in_app_iff in H.
  destruct H as [H|[H|[H|H]]];
    try (left; eapply lext_delivered; [apply lext_loop_head|exact H]);
    unfold loop_head; (destruct (e <? h) eqn:E; [|destruct (quit X) eqn:Qt]);
    try (left; apply batch_end_quit; [exact Qt|]; rewrite delivered_fail_remaining; cbn [fail_remaining deliver pq nextb limbo];
         rewrite !in_app_iff; tauto);
    right; (split; [unfold waiting; cbn [set_pc pq nextb act pc inflight limbo]; rewrite !in_app_iff; tauto|]);
    cbn [set_pc pq act pc]; (split; [reflexivity|]); (split; [reflexivity|]); [left|right|left|right|left|right]; split; try reflexivity; lia.
Qed.

Definition prog (ch : list block) (s s' : state) (r : req) : Prop :=
  In r (delivered s') \/
  (In r (waiting s') /\
   (cov s r -> cov s' r /\ (batch_left ch (pc s') < batch_left ch (pc s))%nat) /\
   (~ cov s r -> (cov s' r /\ exists h, pc s' = Best0 h) \/
                 (batch_left ch (pc s') < batch_left ch (pc s))%nat)).

Lemma prog_within : forall ch s s' r,
  In r (waiting s') -> (cov s r -> cov s' r) -> (batch_left ch (pc s') < batch_left ch (pc s))%nat ->
  prog ch s s' r.
Proof. intros ch s s' r W C B. right. split; [exact W|]. split; [intros Hc; split; auto|intros _; right; exact B]. Qed.

Ltac bl_solve := cbn [batch_left]; unfold hts, batch_bound; lia.

Lemma pq_three : forall (l : list req) h r, In r l ->
  In r (filter (fun r => h <? birth r) l) \/ In r (filter (fun r => birth r <? h) l) \/
  In r (filter (fun r => birth r =? h) l).
Proof.
  intros l h r H. rewrite !filter_In.
  destruct (Z.lt_trichotomy (birth r) h) as [L|[E|G]]; [right; left|right; right|left]; split; auto; lia.
Qed.

Lemma step_ok_prog : forall ch s r fm,
  linv ch s -> pc s <> NotStarted -> In r (waiting s) -> birth r <= tip s ->
  prog ch s (scan_step ch s false fm) r.
Proof.
  intros ch s r fm I NS Hw Hb. pose proof I as (T & Lb & B & A & P).
  unfold waiting in Hw. rewrite Lb, app_nil_r in Hw. unfold scan_step.
  destruct (pc s) as [| |h|h e|h e|h e nr|e|] eqn:Epc.
  - congruence.
  - destruct P as (_ & P1 & P2). rewrite P1, P2, (A eq_refl) in Hw. destruct Hw.
  - (* Best0 *)
    rewrite (A eq_refl) in Hw. cbn [map inflight app] in Hw. rewrite app_nil_r in Hw.
    destruct (loop_head_prog (clear_act s) h (tip s) r Lb) as [D|(W & Pq & Ac & K)].
    { cbn [clear_act pq nextb act map app]. rewrite !in_app_iff in *. tauto. }
    + left. exact D.
    + destruct K as [[K1 K2]|[K1 K2]].
      * right. split; [exact W|]. split.
        -- intros Hc. unfold cov in Hc. rewrite Epc in Hc. lia.
        -- intros _. right. rewrite K2, Epc. bl_solve.
      * apply prog_within; [exact W| |rewrite K2, Epc; bl_solve].
        unfold cov. rewrite K2, Epc, Pq. cbn [clear_act pq]. tauto.
  - (* Hash *)
    destruct P as (Hh & He). cbn [inflight] in Hw. rewrite app_nil_r in Hw.
    unfold dequeue. cbn [fst snd].
    assert (Three : In r (pq s) ->
      In r (filter (fun r => h <? birth r) (pq s)) \/ In r (filter (fun r => birth r <? h) (pq s)) \/
      In r (filter (fun r => birth r =? h) (pq s))) by apply pq_three.
    destruct (filter (fun r => birth r =? h) (pq s)) as [|n0 now'] eqn:F.
    + apply prog_within.
      * unfold waiting. cbn [set_pc pq nextb act pc inflight limbo]. rewrite Lb.
        rewrite !in_app_iff in *. cbn [In] in Three. tauto.
      * unfold cov. rewrite Epc. cbn [set_pc pc act pq]. intros [Hc|[Hc1 Hc2]]; [left; exact Hc|right].
        destruct (Three Hc1) as [G|[G|G]]; [|apply filter_In in G; lia|destruct G].
        split; [exact G|]. apply filter_In in G. lia.
      * cbn [set_pc pc]. rewrite Epc. bl_solve.
    + cbn [quit]. destruct (quit s) eqn:Qt.
      * left. apply batch_end_quit; [reflexivity|]. rewrite delivered_fail_remaining.
        cbn [fail_remaining deliver add_limbo pq nextb limbo act]. rewrite !in_app_iff in *. tauto.
      * apply prog_within.
        -- unfold waiting. cbn [set_pc pq nextb act pc inflight limbo]. rewrite !in_app_iff in *. tauto.
        -- unfold cov. rewrite Epc. cbn [set_pc pc act pq]. intros [Hc|[Hc1 Hc2]]; [left; exact Hc|right].
           destruct (Three Hc1) as [G|[G|G]]; [|apply filter_In in G; lia|left; exact G].
           right. split; [exact G|]. apply filter_In in G. lia.
        -- cbn [set_pc pc]. rewrite Epc. bl_solve.
  - (* Filt *)
    destruct P as (Hh & He). cbn [inflight] in Hw. rewrite app_nil_r in Hw.
    destruct fm; cbn [negb].
    + destruct (quit s) eqn:Qt.
      * left. apply batch_end_quit; [exact Qt|]. rewrite delivered_fail_remaining.
        cbn [fail_remaining deliver pq nextb limbo act]. rewrite !in_app_iff in *. tauto.
      * apply prog_within.
        -- unfold waiting. cbn [set_pc pq nextb act pc inflight limbo]. rewrite !in_app_iff in *. tauto.
        -- unfold cov. rewrite Epc. cbn [set_pc pc act pq In]. tauto.
        -- cbn [set_pc pc]. rewrite Epc. bl_solve.
    + destruct (loop_head_prog s (h + 1) e r Lb) as [D|(W & Pq & Ac & K)].
      { rewrite !in_app_iff in *. tauto. }
      * left. exact D.
      * apply prog_within; [exact W| |].
        -- unfold cov. rewrite Epc.
           destruct K as [[K1 K2]|[K1 K2]]; rewrite K2, Pq, Ac; intros [Hc|[Hc1 Hc2]];
             try (left; exact Hc); right; (split; [exact Hc1|lia]).
        -- rewrite Epc. destruct K as [[K1 K2]|[K1 K2]]; rewrite K2; bl_solve.
  - (* Blk *)
    destruct P as (Hh & He). cbn [inflight] in Hw.
    destruct (quit s) eqn:Qt.
    + left. apply batch_end_quit; [exact Qt|]. rewrite delivered_fail_remaining.
      cbn [fail_remaining deliver add_limbo pq nextb limbo act]. rewrite !in_app_iff in *. tauto.
    + destruct (nth_block_some ch h) as [blk Hblk]; [lia|]. rewrite Hblk.
      destruct (process_block_frame s blk nr h) as (_ & _ & Tp & Ppc & Pq0 & Nb & Lm).
      set (s2 := process_block s blk nr h) in *.
      destruct (in_dec req_dec r (delivered s2)) as [Dl|NDl].
      { left. eapply lext_delivered; [apply lext_loop_head|exact Dl]. }
      assert (Keep : In r (map fst (act s)) \/ In r nr -> In r (map fst (act s2))).
      { intros H. destruct (process_block_keeps s blk nr h r H) as [K|K]; [exact K|contradiction]. }
      destruct (loop_head_prog s2 (h + 1) e r) as [D|(W & Pq & Ac & K)].
      { rewrite Lm. exact Lb. }
      { rewrite Pq0, Nb. rewrite !in_app_iff in *. tauto. }
      * left. exact D.
      * apply prog_within; [exact W| |].
        -- unfold cov. rewrite Epc.
           destruct K as [[K1 K2]|[K1 K2]]; rewrite K2, Pq, Ac, Pq0; intros [Hc|[Hc|[Hc1 Hc2]]];
             try (left; apply Keep; tauto); right; (split; [exact Hc1|lia]).
        -- rewrite Epc. destruct K as [[K1 K2]|[K1 K2]]; rewrite K2; bl_solve.
  - (* Best1 *)
    cbn [inflight] in Hw. rewrite app_nil_r in Hw.
    destruct (e <? tip s) eqn:E.
    + destruct (loop_head_prog s (e + 1) (tip s) r Lb) as [D|(W & Pq & Ac & K)].
      { rewrite !in_app_iff in *. tauto. }
      * left. exact D.
      * destruct K as [[K1 K2]|[K1 K2]]; [lia|].
        apply prog_within; [exact W| |rewrite Epc, K2; bl_solve].
        unfold cov. rewrite Epc, K2, Pq, Ac. tauto.
    + destruct (in_dec req_dec r (map fst (act s))) as [Ia|NIa].
      { left. eapply lext_delivered; [apply lext_to_manager|]. rewrite delivered_notify_unspent.
        apply in_or_app. right. exact Ia. }
      destruct (batch_end (notify_unspent s) r) as [D|(W & C & Hp)].
      { reflexivity. }
      { left. exact Lb. }
      { cbn [notify_unspent pq nextb limbo]. rewrite !in_app_iff in *. tauto. }
      * left. exact D.
      * right. split; [exact W|]. split.
        -- intros Hc. unfold cov in Hc. rewrite Epc in Hc. destruct Hc as [Hc|[Hc1 Hc2]]; [contradiction|lia].
        -- intros _. left. split; [exact C|exact Hp].
  - destruct P as (_ & P1 & P2). rewrite P1, P2, (A eq_refl) in Hw. destruct Hw.
Qed.

(* a failing callback ends the batch: r gets the error, or is queued for
   the batch that starts now *)
Lemma step_fail_prog : forall ch s r fm,
  linv ch s -> pc s <> NotStarted -> In r (waiting s) ->
  In r (delivered (scan_step ch s true fm)) \/
  (In r (waiting (scan_step ch s true fm)) /\ cov (scan_step ch s true fm) r /\
   exists h, pc (scan_step ch s true fm) = Best0 h).
Proof.
  intros ch s r fm I NS Hw. pose proof I as (T & Lb & B & A & P).
  unfold waiting in Hw. rewrite Lb, app_nil_r in Hw. unfold scan_step.
  destruct (pc s) as [| |h|h e|h e|h e nr|e|] eqn:Epc.
  - congruence.
  - destruct P as (_ & P1 & P2). rewrite P1, P2, (A eq_refl) in Hw. destruct Hw.
  - apply batch_end; [apply A; reflexivity|left; exact Lb|].
    rewrite (A eq_refl) in Hw. cbn [map inflight app] in Hw. rewrite !in_app_iff in *. cbn [In] in Hw. tauto.
  - apply batch_end; [reflexivity|left; exact Lb|]. rewrite delivered_fail_remaining.
    cbn [fail_remaining deliver pq nextb limbo inflight] in *. rewrite !in_app_iff in *. cbn [In] in Hw. tauto.
  - apply batch_end; [reflexivity|left; exact Lb|]. rewrite delivered_fail_remaining.
    cbn [fail_remaining deliver pq nextb limbo inflight] in *. rewrite !in_app_iff in *. cbn [In] in Hw. tauto.
  - apply batch_end; [reflexivity|left; exact Lb|]. rewrite delivered_fail_remaining, delivered_deliver.
    cbn [fail_remaining deliver pq nextb limbo inflight act] in *. rewrite !in_app_iff in *. tauto.
  - apply batch_end; [reflexivity|left; exact Lb|]. rewrite delivered_fail_remaining.
    cbn [fail_remaining deliver pq nextb limbo inflight] in *. rewrite !in_app_iff in *. cbn [In] in Hw. tauto.
  - destruct P as (_ & P1 & P2). rewrite P1, P2, (A eq_refl) in Hw. destruct Hw.
Qed.

(* operations of the environment: r stays where it is, the measure does not grow *)
Lemma env_step : forall ch s o r,
  linv ch s -> pc s <> NotStarted -> In r (waiting s) -> is_step o = false ->
  In r (waiting (step ch s o)) /\ pc (step ch s o) = pc s /\ delivered (step ch s o) = delivered s /\
  (cov s r -> cov (step ch s o) r) /\ tip s <= tip (step ch s o).
Proof.
  intros ch s o r I NS Hw Ho. pose proof I as (T & Lb & B & A & P).
  assert (NI : pc s <> Idle).
  { intros E. rewrite E in *. destruct P as (_ & P1 & P2). unfold waiting in Hw.
    rewrite P1, P2, (A eq_refl), Lb, E in Hw. destruct Hw. }
  destruct o as [p b| |f m| | |]; cbn [step]; try discriminate.
  - destruct (quit s || (b <? 0)); [repeat split; auto; lia|].
    destruct (pc s) eqn:Epc; try congruence;
      (split; [unfold waiting in *; cbn [pq nextb act pc inflight limbo]; rewrite ?Epc in *; rewrite !in_app_iff in *; tauto|]);
      (split; [cbn; congruence|]); (split; [reflexivity|]); (split; [|cbn; lia]);
      unfold cov; cbn [pc pq act]; rewrite Epc; rewrite ?in_app_iff; tauto.
  - destruct (pc s) eqn:Epc; try congruence; repeat split; auto; lia.
  - destruct (tip s + 1 <? Z.of_nat (length ch)); [|repeat split; auto; lia].
    repeat split; auto; cbn; lia.
  - destruct (pc s) eqn:Epc; try congruence;
      (split; [unfold waiting in *; cbn [pq nextb act pc inflight limbo]; rewrite ?Epc in *; exact Hw|]);
      (split; [cbn; congruence|]); (split; [reflexivity|]); (split; [|cbn; lia]);
      unfold cov; cbn [pc pq act]; rewrite Epc; tauto.
  - repeat split; auto; lia.
Qed.

Lemma to_manager_started : forall s, pc (to_manager s) <> NotStarted.
Proof.
  intros s. unfold to_manager. destruct (quit s); [cbn; discriminate|].
  destruct (min_birth (pq s ++ nextb s)); cbn; discriminate.
Qed.

Lemma loop_head_started : forall s h e, pc (loop_head s h e) <> NotStarted.
Proof.
  intros s h e. unfold loop_head. destruct (e <? h); [cbn; discriminate|].
  destruct (quit s); [apply to_manager_started|cbn; discriminate].
Qed.

Lemma scan_step_started : forall ch s f m, pc s <> NotStarted -> pc (scan_step ch s f m) <> NotStarted.
Proof.
  intros ch s f m NS. unfold scan_step.
  destruct (pc s) as [| |h|h e|h e|h e nr|e|] eqn:Epc; try congruence.
  - destruct f; [apply to_manager_started|apply loop_head_started].
  - destruct f; [apply to_manager_started|]. unfold dequeue. cbn [fst snd].
    destruct (filter (fun r => birth r =? h) (pq s)); [cbn; discriminate|].
    cbn [quit]. destruct (quit s); [apply to_manager_started|cbn; discriminate].
  - destruct f; [apply to_manager_started|]. destruct m; cbn [negb]; [|apply loop_head_started].
    destruct (quit s); [apply to_manager_started|cbn; discriminate].
  - destruct f; [apply to_manager_started|]. destruct (quit s); [apply to_manager_started|].
    destruct (nth_block ch h); [apply loop_head_started|congruence].
  - destruct f; [apply to_manager_started|].
    destruct (e <? tip s); [apply loop_head_started|apply to_manager_started].
Qed.

(* ------------------------------------------------------------------ *)
(* the measure *)

Lemma work_pos : forall ch s r,
  linv ch s -> pc s <> NotStarted -> In r (waiting s) -> inb r (delivered s) = false ->
  (1 <= batch_left ch (pc s))%nat.
Proof.
  intros ch s r I NS Hw D. pose proof I as (T & Lb & B & A & P).
  destruct (pc s) as [| |h|h e|h e|h e nr|e|] eqn:Epc; try congruence; try bl_solve.
  - destruct P as (_ & P1 & P2). unfold waiting in Hw. rewrite P1, P2, (A eq_refl), Lb, Epc in Hw. destruct Hw.
  - destruct P as (_ & P1 & P2). unfold waiting in Hw. rewrite P1, P2, (A eq_refl), Lb, Epc in Hw. destruct Hw.
Qed.

Lemma work_left_delivered : forall ch s r, In r (delivered s) -> work_left ch s r = O.
Proof. intros ch s r H. unfold work_left. apply inb_true in H. rewrite H. reflexivity. Qed.

Lemma work_left_max : forall ch s r, linv ch s -> (work_left ch s r <= 2 * batch_bound ch)%nat.
Proof.
  intros ch s r (T & Lb & B & A & P). unfold work_left.
  destruct (inb r (delivered s)); [lia|].
  assert (batch_left ch (pc s) <= batch_bound ch)%nat by (destruct (pc s); bl_solve).
  destruct (covered s r); lia.
Qed.

(* The measure along one operation, for a request r that is waiting and not
   answered: a scanner step whose callback succeeds strictly decreases it, a
   failing one resets it to at most one batch, every other operation (Enqueue
   of other requests, new block, Stop, ...) does not increase it. *)
Definition measure_step (ch : list block) (s : state) (o : op) (r : req) : Prop :=
  let s' := step ch s o in
  In r (delivered s') \/
  (In r (waiting s') /\
   match o with
   | Step false _ => (work_left ch s' r < work_left ch s r)%nat
   | Step true _ => (work_left ch s' r <= batch_bound ch)%nat
   | _ => (work_left ch s' r <= work_left ch s r)%nat
   end).

Lemma work_left_step : forall ch s o r,
  linv ch s -> pc s <> NotStarted -> In r (waiting s) -> ~ In r (delivered s) -> birth r <= tip s ->
  measure_step ch s o r.
Proof.
  intros ch s o r I NS Hw ND Hb. unfold measure_step.
  assert (D : inb r (delivered s) = false) by (apply inb_false; exact ND).
  assert (Ws : work_left ch s r = (batch_left ch (pc s) + (if covered s r then 0 else batch_bound ch))%nat).
  { unfold work_left. rewrite D. reflexivity. }
  destruct (is_step o) eqn:Eo.
  - destruct o as [p b| |f m| | |]; try discriminate. cbn [step]. destruct f.
    + destruct (step_fail_prog ch s r m I NS Hw) as [Dl|(W & C & h & Hp)]; [left; exact Dl|].
      right. split; [exact W|].
      unfold work_left. destruct (inb r (delivered (scan_step ch s true m))); [lia|].
      apply covered_cov in C. rewrite C, Hp. cbn [batch_left]. lia.
    + destruct (step_ok_prog ch s r m I NS Hw Hb) as [Dl|(W & P1 & P2)]; [left; exact Dl|].
      right. split; [exact W|].
      rewrite Ws. unfold work_left. destruct (inb r (delivered (scan_step ch s false m))).
      { pose proof (work_pos ch s r I NS Hw D). lia. }
      destruct (covered s r) eqn:C1.
      * apply covered_cov in C1. destruct (P1 C1) as [C2 Bl]. apply covered_cov in C2. rewrite C2. lia.
      * assert (NC : ~ cov s r) by (intros Hc; apply covered_cov in Hc; congruence).
        destruct (P2 NC) as [[C2 [h Hp]]|Bl].
        -- apply covered_cov in C2. rewrite C2, Hp. cbn [batch_left].
           pose proof (work_pos ch s r I NS Hw D). lia.
        -- destruct (covered (scan_step ch s false m) r); lia.
  - destruct (env_step ch s o r I NS Hw Eo) as (W & Ep & Ed & Ec & Et).
    right. split; [exact W|].
    assert (Wl : (work_left ch (step ch s o) r <= work_left ch s r)%nat).
    { rewrite Ws. unfold work_left. rewrite Ed, D, Ep.
      destruct (covered s r) eqn:C1; [|destruct (covered (step ch s o) r); lia].
      apply covered_cov in C1. apply Ec in C1. apply covered_cov in C1. rewrite C1. lia. }
    destruct o as [p b| |f m| | |]; try exact Wl. discriminate.
Qed.

Lemma step_started : forall ch s o, pc s <> NotStarted -> pc (step ch s o) <> NotStarted.
Proof.
  intros ch s o NS. destruct o as [p b| |f m| | |]; cbn [step]; try exact NS.
  - destruct (quit s || (b <? 0)); [exact NS|].
    destruct (pc s) eqn:E; try congruence; try (cbn; discriminate); try apply to_manager_started.
  - destruct (pc s) eqn:E; try congruence.
  - apply scan_step_started. exact NS.
  - destruct (tip s + 1 <? Z.of_nat (length ch)); exact NS.
  - destruct (pc s) eqn:E; try congruence; try (cbn; discriminate); try apply to_manager_started.
Qed.

Lemma tip_step : forall ch s o, tip s <= tip (step ch s o).
Proof.
  intros ch s o. destruct o as [p b| |f m| | |]; cbn [step]; try lia.
  - destruct (quit s || (b <? 0)); [lia|].
    destruct (pc s); cbn [tip]; try lia;
      match goal with |- context [to_manager ?x] => destruct (to_manager_frame x) as (_ & _ & C & _) end;
      rewrite C; cbn; lia.
  - destruct (pc s); try lia. destruct (to_manager_frame s) as (_ & _ & C & _). lia.
  - destruct (scan_step_frame ch s f m) as (_ & _ & C). lia.
  - destruct (tip s + 1 <? Z.of_nat (length ch)); cbn; lia.
  - destruct (pc s); cbn [tip]; try lia;
      match goal with |- context [to_manager ?x] => destruct (to_manager_frame x) as (_ & _ & C & _) end;
      rewrite C; cbn; lia.
Qed.

Lemma steps_cons : forall o ops, steps (o :: ops) = ((if is_step o then 1 else 0) + steps ops)%nat.
Proof. intros o ops. unfold steps. cbn [filter]. destruct (is_step o); reflexivity. Qed.

Lemma fails_cons : forall o ops, fails (o :: ops) = ((if is_fail o then 1 else 0) + fails ops)%nat.
Proof. intros o ops. unfold fails. cbn [filter]. destruct (is_fail o); reflexivity. Qed.

Lemma progress_main : forall ch r ops s,
  linv ch s -> pc s <> NotStarted -> In r (waiting s) -> birth r <= tip s ->
  (work_left ch s r + fails ops * batch_bound ch <= steps ops)%nat ->
  In r (delivered (run ch s ops)).
Proof.
  intros ch r ops. induction ops as [|o ops IH]; intros s I NS Hw Hb Hm.
  - cbn in *. destruct (inb r (delivered s)) eqn:D; [apply inb_true; exact D|].
    pose proof (work_pos ch s r I NS Hw D) as P. unfold work_left in Hm. rewrite D in Hm. lia.
  - cbn [run fold_left]. change (fold_left (step ch) ops (step ch s o)) with (run ch (step ch s o) ops).
    destruct (in_dec req_dec r (delivered s)) as [D|ND].
    { eapply lext_delivered; [|exact D]. eapply lext_trans; [apply lext_step|apply lext_run]. }
    assert (D : inb r (delivered s) = false) by (apply inb_false; exact ND).
    pose proof (work_pos ch s r I NS Hw D) as Pos.
    assert (Ws : (1 <= work_left ch s r)%nat) by (unfold work_left; rewrite D; lia).
    destruct (work_left_step ch s o r I NS Hw ND Hb) as [Dl|(W & M)].
    { eapply lext_delivered; [apply lext_run|exact Dl]. }
    rewrite steps_cons, fails_cons in Hm.
    apply IH; auto.
    + apply linv_step. exact I.
    + apply step_started. exact NS.
    + pose proof (tip_step ch s o). lia.
    + destruct o as [p b| |f m| | |]; cbn [is_step is_fail] in Hm; try lia. destruct f; lia.
Qed.

(* ------------------------------------------------------------------ *)
(* a batch that starts covers every waiting request *)

Definition fresh (s : state) : Prop :=
  match pc s with
  | Best0 h => nextb s = [] /\ act s = [] /\ limbo s = [] /\ forall q, In q (pq s) -> h <= birth q
  | _ => True
  end.

Lemma fresh_to_manager : forall X, act X = [] -> (limbo X = [] \/ quit X = true) -> fresh (to_manager X).
Proof.
  intros X A Q. destruct (quit X) eqn:Qt.
  - unfold to_manager, fresh. rewrite Qt. cbn. exact I.
  - destruct Q as [Lb|Q]; [|discriminate].
    destruct (to_manager_noquit X Qt) as (Pq & Nb & Lm & Ac & M). unfold fresh.
    destruct (pc (to_manager X)) eqn:E; try exact I.
    repeat split; try congruence.
    intros q Hq. rewrite Pq in Hq. destruct M as [M|(h' & Hp & Hm)].
    + rewrite M in Hq. destruct Hq.
    + inversion Hp. subst h'. apply Hm. exact Hq.
Qed.

Lemma fresh_loop_head : forall X h e, limbo X = [] -> fresh (loop_head X h e).
Proof.
  intros X h e Lb. unfold loop_head. destruct (e <? h); [exact I|].
  destruct (quit X); [|exact I]. apply fresh_to_manager; [reflexivity|left; exact Lb].
Qed.

Lemma fresh_scan_step : forall ch s f m, linv ch s -> fresh (scan_step ch s f m).
Proof.
  intros ch s f m I. pose proof I as (T & Lb & B & A & P). unfold scan_step.
  destruct (pc s) as [| |h|h e|h e|h e nr|e|] eqn:Epc; try (unfold fresh; rewrite Epc; exact Logic.I).
  - destruct f; [apply fresh_to_manager; [apply A; reflexivity|left; exact Lb]|apply fresh_loop_head; exact Lb].
  - destruct f; [apply fresh_to_manager; [reflexivity|left; exact Lb]|].
    unfold dequeue. cbn [fst snd]. destruct (filter (fun r => birth r =? h) (pq s)); [exact Logic.I|].
    cbn [quit]. destruct (quit s) eqn:Qt; [|exact Logic.I]. apply fresh_to_manager; [reflexivity|right; reflexivity].
  - destruct f; [apply fresh_to_manager; [reflexivity|left; exact Lb]|].
    destruct m; cbn [negb]; [|apply fresh_loop_head; exact Lb].
    destruct (quit s) eqn:Qt; [|exact Logic.I]. apply fresh_to_manager; [reflexivity|left; exact Lb].
  - destruct f; [apply fresh_to_manager; [reflexivity|left; exact Lb]|].
    destruct (quit s) eqn:Qt; [apply fresh_to_manager; [reflexivity|right; exact Qt]|].
    destruct (nth_block_some ch h) as [blk Hblk]; [lia|]. rewrite Hblk.
    apply fresh_loop_head. destruct (process_block_frame s blk nr h) as (_ & _ & _ & _ & _ & _ & Lm).
    rewrite Lm. exact Lb.
  - destruct f; [apply fresh_to_manager; [reflexivity|left; exact Lb]|].
    destruct (e <? tip s); [apply fresh_loop_head; exact Lb|].
    apply fresh_to_manager; [reflexivity|left; exact Lb].
Qed.

Definition enters_batch (s : state) (o : op) : Prop :=
  is_step o = true \/ pc s = Idle \/ pc s = NotStarted.

Lemma batch_start_covers : forall ch s o r h,
  linv ch s -> enters_batch s o -> pc (step ch s o) = Best0 h ->
  In r (waiting (step ch s o)) -> cov (step ch s o) r.
Proof.
  intros ch s o r h I En Hp Hw. pose proof I as (T & Lb & B & A & P).
  assert (F : fresh (step ch s o)).
  { destruct o as [p b| |f m| | |]; cbn [step] in *.
    - destruct En as [En|En]; [discriminate|].
      destruct (quit s || (b <? 0)); [destruct En as [En|En]; rewrite En in Hp; discriminate|].
      destruct En as [En|En]; rewrite En in *.
      + apply fresh_to_manager; [cbn; apply A; reflexivity|left; exact Lb].
      + cbn in Hp. discriminate.
    - destruct En as [En|[En|En]]; [discriminate| |]; rewrite En in *; [rewrite En in Hp; discriminate|].
      apply fresh_to_manager; [apply A; reflexivity|left; exact Lb].
    - apply fresh_scan_step. exact I.
    - destruct En as [En|En]; [discriminate|].
      destruct (tip s + 1 <? Z.of_nat (length ch)); cbn [pc] in Hp; destruct En as [En|En]; rewrite En in Hp; discriminate.
    - destruct En as [En|[En|En]]; [discriminate| |]; rewrite En in *.
      + apply fresh_to_manager; [cbn; apply A; reflexivity|right; reflexivity].
      + cbn in Hp. discriminate.
    - destruct En as [En|[En|En]]; [discriminate| |]; rewrite En in Hp; discriminate. }
  unfold fresh in F. rewrite Hp in F. destruct F as (Nb & Ac & Lm & Mn).
  unfold waiting in Hw. rewrite Nb, Ac, Lm, Hp in Hw. cbn [map inflight app] in Hw. rewrite app_nil_r in Hw.
  unfold cov. rewrite Hp. split; [exact Hw|apply Mn; exact Hw].
Qed.

(* a covered request is answered when its batch ends without a failure *)
Lemma covered_answered_at_batch_end : forall ch s m r h,
  linv ch s -> pc s <> NotStarted -> In r (waiting s) -> birth r <= tip s -> cov s r ->
  pc (scan_step ch s false m) = Best0 h ->
  In r (delivered (scan_step ch s false m)).
Proof.
  intros ch s m r h I NS Hw Hb C Hp.
  destruct (step_ok_prog ch s r m I NS Hw Hb) as [D|(W & P1 & _)]; [exact D|].
  destruct (P1 C) as [_ Bl]. rewrite Hp in Bl. exfalso.
  assert (batch_left ch (pc s) <= batch_bound ch)%nat by (destruct (pc s); bl_solve).
  cbn [batch_left] in Bl. lia.
Qed.

(* ------------------------------------------------------------------ *)
(* the scanner never reads its delivery log: a continuation can be replayed
   with the earlier deliveries cut off *)

Definition relog (l : list dl) (s : state) : state :=
  {| tip := tip s; quit := quit s; pc := pc s; pq := pq s; nextb := nextb s; act := act s;
     limbo := limbo s; nxt := nxt s; log := l ++ log s |}.

Lemma relog_deliver : forall l s rs e, deliver (relog l s) rs e = relog l (deliver s rs e).
Proof. intros. unfold deliver, relog. cbn. rewrite app_assoc. reflexivity. Qed.

Lemma relog_fail_remaining : forall l s e, fail_remaining (relog l s) e = relog l (fail_remaining s e).
Proof. intros. unfold fail_remaining, deliver, relog. cbn. rewrite app_assoc. reflexivity. Qed.

Lemma relog_notify_unspent : forall l s, notify_unspent (relog l s) = relog l (notify_unspent s).
Proof. intros. unfold notify_unspent, relog. cbn. rewrite app_assoc. reflexivity. Qed.

Lemma relog_process_block : forall l s blk nr h,
  process_block (relog l s) blk nr h = relog l (process_block s blk nr h).
Proof.
  intros. unfold process_block. cbn [relog tip act].
  destruct (notify_spends h (tip s) (spends_in blk) _) as [a2 d].
  unfold relog. cbn. rewrite app_assoc. reflexivity.
Qed.

Lemma relog_set_pc : forall l s p, set_pc (relog l s) p = relog l (set_pc s p).
Proof. reflexivity. Qed.

Lemma relog_clear_act : forall l s, clear_act (relog l s) = relog l (clear_act s).
Proof. reflexivity. Qed.

Lemma relog_add_limbo : forall l s x, add_limbo (relog l s) x = relog l (add_limbo s x).
Proof. reflexivity. Qed.

Lemma relog_to_manager : forall l s, to_manager (relog l s) = relog l (to_manager s).
Proof.
  intros. unfold to_manager. cbn [relog quit pq nextb]. destruct (quit s).
  - unfold relog, deliver. cbn. rewrite app_assoc. reflexivity.
  - destruct (min_birth (pq s ++ nextb s)); reflexivity.
Qed.

Lemma relog_loop_head : forall l s h e, loop_head (relog l s) h e = relog l (loop_head s h e).
Proof.
  intros. unfold loop_head. cbn [relog quit]. destruct (e <? h); [reflexivity|].
  destruct (quit s); [|reflexivity]. rewrite relog_fail_remaining, relog_to_manager. reflexivity.
Qed.

Lemma relog_scan_step : forall ch l s f m, scan_step ch (relog l s) f m = relog l (scan_step ch s f m).
Proof.
  intros ch l s f m. unfold scan_step. cbn [relog pc].
  destruct (pc s) as [| |h|h e|h e|h e nr|e|]; try reflexivity.
  - destruct f; [apply relog_to_manager|]. rewrite relog_clear_act. cbn [relog tip]. apply relog_loop_head.
  - destruct f; [rewrite relog_fail_remaining; apply relog_to_manager|].
    unfold dequeue. cbn [relog pq tip quit pc nextb act limbo nxt log].
    destruct (filter (fun r => birth r =? h) (pq s)) as [|n0 nw]; [reflexivity|].
    cbn [quit]. destruct (quit s); [|reflexivity].
    match goal with |- to_manager (fail_remaining (add_limbo ?x ?y) ?e) = relog l (to_manager (fail_remaining (add_limbo ?x' ?y) ?e)) =>
      change x with (relog l x') end.
    rewrite relog_add_limbo, relog_fail_remaining, relog_to_manager. reflexivity.
  - destruct f; [rewrite relog_fail_remaining; apply relog_to_manager|].
    destruct m; cbn [negb]; [|apply relog_loop_head].
    cbn [relog quit]. destruct (quit s); [|reflexivity].
    rewrite relog_fail_remaining. apply relog_to_manager.
  - destruct f; [rewrite relog_deliver, relog_fail_remaining; apply relog_to_manager|].
    cbn [relog quit]. destruct (quit s); [rewrite relog_add_limbo, relog_fail_remaining; apply relog_to_manager|].
    destruct (nth_block ch h); [|reflexivity]. rewrite relog_process_block. apply relog_loop_head.
  - destruct f; [rewrite relog_fail_remaining; apply relog_to_manager|].
    cbn [relog tip]. destruct (e <? tip s); [apply relog_loop_head|].
    rewrite relog_notify_unspent. apply relog_to_manager.
Qed.

Lemma relog_step : forall ch l s o, step ch (relog l s) o = relog l (step ch s o).
Proof.
  intros ch l s o. destruct o as [p b| |f m| | |]; cbn [step]; try reflexivity.
  - cbn [relog quit pc]. destruct (quit s || (b <? 0)); [reflexivity|].
    destruct (pc s); try reflexivity.
    match goal with |- to_manager ?x = relog l (to_manager ?x') => change x with (relog l x') end.
    apply relog_to_manager.
  - cbn [relog pc]. destruct (pc s); try reflexivity. apply relog_to_manager.
  - apply relog_scan_step.
  - cbn [relog tip]. destruct (tip s + 1 <? Z.of_nat (length ch)); reflexivity.
  - cbn [relog pc]. destruct (pc s); try reflexivity.
    match goal with |- to_manager ?x = relog l (to_manager ?x') => change x with (relog l x') end.
    apply relog_to_manager.
Qed.

Lemma relog_run : forall ch l ops s, run ch (relog l s) ops = relog l (run ch s ops).
Proof.
  intros ch l ops. induction ops as [|o r IH]; intros s; [reflexivity|].
  cbn [run fold_left]. rewrite relog_step. apply IH.
Qed.

Lemma fsound_relog : forall ch l ops s, fsound ch (relog l s) ops = fsound ch s ops.
Proof.
  intros ch l ops. induction ops as [|o r IH]; intros s; [reflexivity|].
  cbn [fsound]. rewrite relog_step, IH. reflexivity.
Qed.

Definition unlog (s : state) : state :=
  {| tip := tip s; quit := quit s; pc := pc s; pq := pq s; nextb := nextb s; act := act s;
     limbo := limbo s; nxt := nxt s; log := [] |}.

Lemma relog_unlog : forall s, relog (log s) (unlog s) = s.
Proof. intros [t q p a b c d n l]. unfold relog, unlog. cbn. rewrite app_nil_r. reflexivity. Qed.

Lemma run_app : forall ch s a b, run ch s (a ++ b) = run ch (run ch s a) b.
Proof. intros. unfold run. apply fold_left_app. Qed.

Lemma fsound_app : forall ch a b s, fsound ch s (a ++ b) = fsound ch s a && fsound ch (run ch s a) b.
Proof.
  intros ch a b. induction a as [|o a IH]; intros s; [reflexivity|].
  cbn [app fsound run fold_left]. rewrite IH, andb_assoc. reflexivity.
Qed.

Lemma existsb_filter_length : forall (f : op -> bool) l, existsb f l = true <-> (0 < length (filter f l))%nat.
Proof.
  intros f l. induction l as [|x l IH]; cbn; [split; [discriminate|lia]|].
  destruct (f x); cbn; [split; [lia|reflexivity]|exact IH].
Qed.

(* the deliveries made during a continuation are justified by what happens in
   the continuation: a fetch error only if a callback fails IN it *)
Lemma new_deliveries_just : forall ch ff s ops d,
  finv ch ff s -> fsound ch s ops = true ->
  In d (log (run ch s ops)) -> In d (log s) \/
  just ch (existsb is_fail ops) (quit (run ch s ops)) (tip (run ch s ops)) d.
Proof.
  intros ch ff s ops d [(T & Q & L) S] Snd Hin.
  assert (F0 : finv ch false (unlog s)).
  { split; [|exact S]. split; [exact T|]. split; [exact Q|constructor]. }
  assert (Snd0 : fsound ch (unlog s) ops = true).
  { rewrite <- (relog_unlog s) in Snd. rewrite fsound_relog in Snd. exact Snd. }
  pose proof (finv_run ch ops false (unlog s) F0 Snd0) as [(_ & _ & L') _]. cbn [orb] in L'.
  rewrite <- (relog_unlog s) in Hin. rewrite relog_run in Hin. cbn [relog log] in Hin.
  apply in_app_or in Hin. destruct Hin as [Hin|Hin]; [left; exact Hin|right].
  rewrite Forall_forall in L'. specialize (L' d Hin).
  assert (E : run ch s ops = relog (log s) (run ch (unlog s) ops)).
  { rewrite <- relog_run, relog_unlog. reflexivity. }
  rewrite E. cbn [relog quit tip]. exact L'.
Qed.

(* ------------------------------------------------------------------ *)
(* the progress theorem from the initial state *)

Lemma nodup_split : forall (a b : list req) r, NoDup (map rid (a ++ b)) -> In r b ->
  ~ In r a /\ cnt b r = 1%nat.
Proof.
  intros a b r N Hb. apply NoDup_map_inv in N.
  pose proof (proj1 (NoDup_count_occ req_dec (a ++ b)) N r) as C. rewrite count_occ_app in C.
  apply (count_occ_In req_dec) in Hb. split; [|lia].
  intros Ha. apply (count_occ_In req_dec) in Ha. lia.
Qed.

Lemma deferred_request_answered : forall ch tip0 pre ops r,
  0 <= tip0 < Z.of_nat (length ch) ->
  let s := run ch (init tip0) pre in
  pc s <> NotStarted -> In r (waiting s) -> birth r <= tip s ->
  (work_left ch s r + fails ops * batch_bound ch <= steps ops)%nat ->
  let s' := run ch s ops in
  ~ In r (waiting s') /\ cnt (delivered s') r = 1%nat /\
  exists res t, In (r, res, t) (log s') /\ ~ In (r, res, t) (log s) /\
    (fsound ch (init tip0) (pre ++ ops) = true ->
     t <= tip s' /\
     ((res = RErrFetch /\ (0 < fails ops)%nat) \/
      (res = RErrShut /\ quit s' = true) \/
      (0 <= birth r <= t /\ res = fate ch t (rop r) (birth r)))).
Proof.
  intros ch tip0 pre ops r H0 s NS Hw Hb Hm s'.
  assert (I : linv ch s) by (apply linv_run; apply linv_init; exact H0).
  assert (D : In r (delivered s')) by (apply progress_main; assumption).
  pose proof (exactly_once ch tip0 (pre ++ ops)) as N'. cbv zeta in N'. rewrite run_app in N'. fold s s' in N'.
  destruct (nodup_split _ _ r N' D) as [NW C1].
  split; [exact NW|]. split; [exact C1|].
  pose proof (exactly_once ch tip0 pre) as N. cbv zeta in N. fold s in N.
  assert (ND : ~ In r (delivered s)).
  { intros Hd. destruct (nodup_split _ _ r N Hd) as [X _]. contradiction. }
  unfold delivered in D. apply in_map_iff in D. destruct D as [[[q res] t] [Eq Hin]].
  unfold dreq in Eq. cbn [fst] in Eq. subst q. exists res, t.
  split; [exact Hin|]. split.
  { intros Hs. apply ND. unfold delivered. apply in_map_iff. exists (r, res, t). split; [reflexivity|exact Hs]. }
  intros Snd. rewrite fsound_app in Snd. apply andb_true_iff in Snd. destruct Snd as [S1 S2]. fold s in S2.
  pose proof (finv_run ch pre false (init tip0) (finv_init ch tip0 H0) S1) as F. fold s in F.
  destruct (new_deliveries_just ch _ s ops (r, res, t) F S2 Hin) as [Old|[Jt J]].
  { exfalso. apply ND. unfold delivered. apply in_map_iff. exists (r, res, t). split; [reflexivity|exact Old]. }
  fold s' in Jt, J. cbn [fst snd dreq] in *. split; [exact Jt|].
  destruct J as [[J1 J2]|[J|J]]; [left|right; left; exact J|right; right; exact J].
  split; [exact J1|]. apply existsb_filter_length in J2. exact J2.
Qed.

(* ------------------------------------------------------------------ *)
(* the two hypotheses cannot be dropped *)

(* a first BestSnapshot that fails every time: the scan restarts for ever,
   the queued request gets neither a result nor the error *)
Definition spin_fail (r : req) (s : state) : Prop :=
  pc s = Best0 (birth r) /\ pq s = [r] /\ nextb s = [] /\ quit s = false /\ log s = [].

Lemma spin_fail_step : forall ch r s fm, spin_fail r s -> spin_fail r (step ch s (Step true fm)).
Proof.
  intros ch r s fm (P & Q & N & Qt & L). cbn [step]. unfold scan_step. rewrite P.
  unfold to_manager. rewrite Qt, Q, N. cbn. repeat split; assumption.
Qed.

Lemma spin_fail_run : forall ch r n s, spin_fail r s -> spin_fail r (run ch s (repeat (Step true true) n)).
Proof.
  intros ch r n. induction n as [|n IH]; intros s H; [exact H|].
  cbn [repeat run fold_left]. apply IH. apply spin_fail_step. exact H.
Qed.

Lemma failures_starve : forall ch tip0 o b n, 0 <= b ->
  let r := {| rid := 0; rop := o; birth := b |} in
  let s := run ch (init tip0) [Enq o b; Start] in
  pc s <> NotStarted /\ In r (waiting s) /\
  In r (waiting (run ch s (repeat (Step true true) n))) /\
  delivered (run ch s (repeat (Step true true) n)) = [].
Proof.
  intros ch tip0 o b n Hb r s.
  assert (S0 : spin_fail r s).
  { subst s. cbn [run fold_left step init quit pc]. replace (b <? 0) with false by lia. cbn [orb pc].
    unfold to_manager. cbn. repeat split. }
  pose proof (spin_fail_run ch r n s S0) as (P & Q & N & Qt & L).
  destruct S0 as (P0 & Q0 & _).
  split; [congruence|]. split; [unfold waiting; rewrite Q0; left; reflexivity|].
  split; [unfold waiting; rewrite Q; left; reflexivity|].
  unfold delivered. rewrite L. reflexivity.
Qed.

(* a start height above the tip: the scanner polls the tip for ever (until a
   block arrives), nothing is delivered *)
Definition spin_tip (r : req) (s : state) : Prop :=
  (pc s = Best0 (birth r) \/ pc s = Best1 (tip s)) /\ pq s = [r] /\ nextb s = [] /\ act s = [] /\
  quit s = false /\ log s = [] /\ tip s < birth r.

Lemma spin_tip_step : forall ch r s fm, spin_tip r s -> spin_tip r (step ch s (Step false fm)).
Proof.
  intros ch r s fm (P & Q & N & A & Qt & L & T). cbn [step]. unfold scan_step.
  destruct P as [P|P]; rewrite P.
  - unfold loop_head. cbn [clear_act tip]. replace (tip s <? birth r) with true by lia.
    unfold spin_tip. cbn. repeat split; auto.
  - rewrite Z.ltb_irrefl. unfold to_manager, notify_unspent. cbn [quit pq nextb]. rewrite Qt, Q, N, A, L.
    unfold spin_tip. cbn. repeat split; auto.
Qed.

Lemma spin_tip_run : forall ch r n s, spin_tip r s -> spin_tip r (run ch s (repeat (Step false true) n)).
Proof.
  intros ch r n. induction n as [|n IH]; intros s H; [exact H|].
  cbn [repeat run fold_left]. apply IH. apply spin_tip_step. exact H.
Qed.

Lemma above_tip_waits : forall ch tip0 o b n, 0 <= b -> tip0 < b ->
  let r := {| rid := 0; rop := o; birth := b |} in
  let s := run ch (init tip0) [Enq o b; Start] in
  pc s <> NotStarted /\ In r (waiting s) /\
  In r (waiting (run ch s (repeat (Step false true) n))) /\
  delivered (run ch s (repeat (Step false true) n)) = [].
Proof.
  intros ch tip0 o b n Hb Ht r s.
  assert (S0 : spin_tip r s).
  { subst s. cbn [run fold_left step init quit pc]. replace (b <? 0) with false by lia. cbn [orb pc].
    unfold to_manager. unfold spin_tip. cbn. repeat split; auto. }
  pose proof (spin_tip_run ch r n s S0) as (P & Q & N & A & Qt & L & T).
  destruct S0 as (P0 & Q0 & _).
  split; [destruct P0 as [P0|P0]; congruence|]. split; [unfold waiting; rewrite Q0; left; reflexivity|].
  split; [unfold waiting; rewrite Q; left; reflexivity|].
  unfold delivered. rewrite L. reflexivity.
Qed.

(* ------------------------------------------------------------------ *)
(* the monitor's phase tracking is exact on the model *)

Lemma tm_cases : forall X, pc (to_manager X) = Exited \/ pc (to_manager X) = Idle \/ exists h, pc (to_manager X) = Best0 h.
Proof.
  intros X. unfold to_manager. destruct (quit X); [left; reflexivity|].
  destruct (min_birth (pq X ++ nextb X)) as [h|]; [right; right; exists h; reflexivity|right; left; reflexivity].
Qed.

Lemma tm_quit : forall X, quit X = true -> pc (to_manager X) = Exited.
Proof. intros X Q. unfold to_manager. rewrite Q. reflexivity. Qed.

Lemma lh_cases : forall X h e,
  (e <? h = true /\ pc (loop_head X h e) = Best1 e) \/
  (e <? h = false /\ (pc (loop_head X h e) = Exited \/ pc (loop_head X h e) = Hash h e)).
Proof.
  intros X h e. unfold loop_head. destruct (e <? h); [left; split; reflexivity|right; split; [reflexivity|]].
  destruct (quit X) eqn:Q; [left; apply tm_quit; exact Q|right; reflexivity].
Qed.

Ltac tm_solve :=
  match goal with |- context [to_manager ?x] =>
    destruct (tm_cases x) as [TE|[TE|[? TE]]]; rewrite TE; reflexivity end.

Lemma phase_correct : forall ch s o,
  next_phase (phase_of (pc s)) o (code_of (pc (step ch s o))) = phase_of (pc (step ch s o)).
Proof.
  intros ch s o. destruct o as [p b| |f m| | |]; cbn [step].
  - destruct (quit s || (b <? 0)); [destruct (pc s); reflexivity|].
    destruct (pc s); try reflexivity. tm_solve.
  - destruct (pc s) eqn:E; try (rewrite ?E; reflexivity). tm_solve.
  - unfold scan_step. destruct (pc s) as [| |h|h e|h e|h e nr|e|] eqn:Epc; try (rewrite Epc; reflexivity).
    + destruct f; [tm_solve|].
      destruct (lh_cases (clear_act s) h (tip s)) as [[_ E]|[_ [E|E]]]; rewrite E; reflexivity.
    + destruct f; [tm_solve|]. unfold dequeue. cbn [fst snd].
      destruct (filter (fun r => birth r =? h) (pq s)); [reflexivity|].
      cbn [quit]. destruct (quit s); [|reflexivity]. rewrite tm_quit; reflexivity.
    + destruct f; [tm_solve|]. destruct m; cbn [negb].
      * destruct (quit s) eqn:Q; [rewrite tm_quit; [reflexivity|exact Q]|reflexivity].
      * destruct (lh_cases s (h + 1) e) as [[_ E]|[_ [E|E]]]; rewrite E; reflexivity.
    + destruct f; [tm_solve|]. destruct (quit s) eqn:Q; [rewrite tm_quit; [reflexivity|exact Q]|].
      destruct (nth_block ch h) as [blk|]; [|rewrite Epc; reflexivity].
      destruct (lh_cases (process_block s blk nr h) (h + 1) e) as [[_ E]|[_ [E|E]]]; rewrite E; reflexivity.
    + destruct f; [tm_solve|]. destruct (e <? tip s) eqn:Lt; [|tm_solve].
      destruct (lh_cases s (e + 1) (tip s)) as [[C _]|[_ [E|E]]]; [lia|rewrite E; reflexivity|rewrite E; reflexivity].
  - destruct (tip s + 1 <? Z.of_nat (length ch)); cbn [pc]; destruct (pc s); reflexivity.
  - destruct (pc s); reflexivity.
  - destruct (pc s); reflexivity.
Qed.
