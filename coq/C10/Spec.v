(* C10 — the property in its own vocabulary.

   [fate ch t o start]: what a GetUtxo request for outpoint [o] with start
   height [start] must be told when the scanned chain is blocks 0..t of [ch]:
   the earliest input (block order, then transaction order, then input
   order) at a height in [start, t] that spends [o]; else the output itself
   if block [start] creates it; else the empty report.

   [holds]: decidable monitor over a trace of operations and observed
   results (used on IMPLEMENTATION traces by the correspondence run). *)
From Coq Require Import ZArith List Bool.
From Verif Require Import C10.Model.
Import ListNotations.
Open Scope Z_scope.

(* first input of block h spending o: (spending tx, input index) *)
Definition spend_at (ch : list block) (o : outpoint) (h : Z) : option (Z * Z) :=
  match nth_block ch h with
  | Some blk => match find (fun sp => op_eqb (fst sp) o) (spends_in blk) with
                | Some sp => Some (snd sp)
                | None => None
                end
  | None => None
  end.

Fixpoint first_spend (ch : list block) (o : outpoint) (h : Z) (fuel : nat) : option result :=
  match fuel with
  | O => None
  | S f => match spend_at ch o h with
           | Some (x, i) => Some (RSpent x i h)
           | None => first_spend ch o (h + 1) f
           end
  end.

Definition created_at (ch : list block) (h : Z) (o : outpoint) : result :=
  match nth_block ch h with
  | Some blk => match created_in blk h o with Some r => r | None => REmpty end
  | None => REmpty
  end.

(* number of heights in [start, t], 0 when empty; t is a height of the chain *)
Definition span (ch : list block) (t start : Z) : nat :=
  if (start <=? t) && (t <? Z.of_nat (length ch)) then Z.to_nat (t - start + 1) else O.

Definition fate (ch : list block) (t : Z) (o : outpoint) (start : Z) : result :=
  match first_spend ch o start (span ch t start) with
  | Some r => r
  | None => created_at ch start o
  end.

(* Declarative reading of [fate] (proved equivalent in Proofs.v). *)
Definition Fate (ch : list block) (t : Z) (o : outpoint) (start : Z) (r : result) : Prop :=
  (exists h x i, start <= h <= t /\ spend_at ch o h = Some (x, i) /\
                 (forall h', start <= h' < h -> spend_at ch o h' = None) /\ r = RSpent x i h)
  \/ ((forall h', start <= h' <= t -> spend_at ch o h' = None) /\ r = created_at ch start o).

(* ------------------------------------------------------------------ *)
(* Observations and monitor *)

Record obs := MkObs {
  opc : Z;                      (* pending callback after the op: 7 not started, 0 idle, 1 BestSnapshot,
                                   2 GetBlockHash, 3 BlockFilterMatches, 4 GetBlock, 6 exited *)
  oh : Z;                       (* its height (2,3,4), else 0 *)
  owl : list outpoint;          (* watch list handed to the filter callback (pc 3): its scripts, each named by the
                                   outpoint that represents the script class (Replay.repr) *)
  oacc : bool;                  (* Enqueue accepted (true for other ops) *)
  odel : list (Z * result)      (* results observed through GetUtxoRequest.Result: (request id, value) *)
}.

Definition result_eqb (a b : result) : bool :=
  match a, b with
  | RSpent x i h, RSpent x' i' h' => (x =? x') && (i =? i') && (h =? h')
  | RUnspent h i x j, RUnspent h' i' x' j' => (h =? h') && (i =? i') && (x =? x') && (j =? j')
  | REmpty, REmpty => true
  | RErrFetch, RErrFetch => true
  | RErrShut, RErrShut => true
  | RHang, RHang => true
  | _, _ => false
  end.

Record mon := {
  mtip : Z; mstopped : bool; mtipstop : Z;
  mfs : bool;                   (* a callback failed after Stop (its error is only seen at Finish) *)
  mpk : Z; mph : Z;             (* callback pending before this operation (kind, height) *)
  mseen : list Z;               (* unanswered requests whose own start height was already dequeued once *)
  mreqs : list req;             (* accepted requests, newest first *)
  mans : list Z;                (* ids answered so far *)
  mphs : Z;                     (* phase of the batch goroutine before this operation (phase_of) *)
  marm : list (Z * nat)         (* requests the running batch must answer (start height at or below the tip when
                                   the batch started), each with the scanner steps it may still take *)
}.

Definition mem_z (x : Z) (l : list Z) : bool := existsb (Z.eqb x) l.

(* pending-callback code of a program counter, as the harness observes it *)
Definition code_of (p : pcT) : Z :=
  match p with
  | NotStarted => 7 | Idle => 0 | Best0 _ | Best1 _ => 1 | Hash _ _ => 2 | Filt _ _ => 3 | Blk _ _ _ => 4
  | Exited => 6
  end.

(* phase of the batch goroutine: 1 = the first BestSnapshot of a scan is pending (the batch manager has just
   (re)started a batch), 2 = the BestSnapshot after the scanned range is pending, 3 = inside the height loop,
   0 = no batch (not started, waiting for requests, exited).  Both BestSnapshot calls are observed with code 1;
   [next_phase] tells them apart from the phase before the operation (correct on the model: C10_phase_correct). *)
Definition phase_of (p : pcT) : Z :=
  match p with Best0 _ => 1 | Best1 _ => 2 | Hash _ _ | Filt _ _ | Blk _ _ _ => 3 | _ => 0 end.

Definition next_phase (ph : Z) (o : op) (k : Z) : Z :=
  if (k =? 2) || (k =? 3) || (k =? 4) then 3
  else if k =? 1 then
    match o with
    | Step true _ => 1
    | Step false _ => if ph =? 2 then 1 else 2
    | _ => if (ph =? 1) || (ph =? 2) then ph else 1
    end
  else 0.

(* scanner steps one batch can take on a chain of n blocks (ProofsL.batch_bound) *)
Definition batch_steps (n : nat) : nat := (4 * n + 2)%nat.

(* some tip between lo and hi (inclusive, at most n+1 candidates) justifies r *)
Fixpoint fate_between (ch : list block) (q : req) (r : result) (lo : Z) (n : nat) : bool :=
  ((birth q <=? lo) && result_eqb r (fate ch lo (rop q) (birth q))) ||
  match n with O => false | S n' => fate_between ch q r (lo + 1) n' end.

Definition is_fail (o : op) : bool := match o with Step true _ => true | _ => false end.
Definition is_finish (o : op) : bool := match o with Finish => true | _ => false end.
Definition is_stop (o : op) : bool := match o with Stop => true | _ => false end.

(* one observed result is acceptable *)
Definition result_ok (ch : list block) (m : mon) (o : op) (d : Z * result) : bool :=
  match find (fun q => rid q =? fst d) (mreqs m) with
  | None => false
  | Some q =>
    negb (mem_z (fst d) (mans m)) &&
    match snd d with
    | RErrFetch => is_fail o || (is_finish o && mstopped m && mfs m)
    | RErrShut => is_finish o && mstopped m
    | RHang => false
    | r =>
      (0 <=? birth q) &&
      if is_finish o && mstopped m
      then fate_between ch q r (mtipstop m) (Z.to_nat (Z.min (mtip m - mtipstop m) (Z.of_nat (length ch))))
      else (birth q <=? mtip m) && result_eqb r (fate ch (mtip m) (rop q) (birth q))
    end
  end.

Fixpoint results_ok (ch : list block) (m : mon) (o : op) (ds : list (Z * result)) : option mon :=
  match ds with
  | [] => Some m
  | d :: rest =>
    if result_ok ch m o d
    then results_ok ch {| mtip := mtip m; mstopped := mstopped m; mtipstop := mtipstop m; mfs := mfs m; mpk := mpk m; mph := mph m; mseen := mseen m;
                          mreqs := mreqs m; mans := fst d :: mans m; mphs := mphs m; marm := marm m |} o rest
    else None
  end.

Definition mon_op (ch : list block) (m : mon) (o : op) (ob : obs) : option mon :=
  match o with
  | Enq p b =>
    let acc := negb (mstopped m) && (0 <=? b) in
    if Bool.eqb acc (oacc ob) then
      Some (if acc then {| mtip := mtip m; mstopped := mstopped m; mtipstop := mtipstop m; mfs := mfs m; mpk := mpk m; mph := mph m; mseen := mseen m;
                           mreqs := {| rid := Z.of_nat (length (mreqs m)); rop := p; birth := b |} :: mreqs m;
                           mans := mans m; mphs := mphs m; marm := marm m |} else m)
    else None
  | NewBlock =>
    Some (if mtip m + 1 <? Z.of_nat (length ch)
          then {| mtip := mtip m + 1; mstopped := mstopped m; mtipstop := mtipstop m; mfs := mfs m; mpk := mpk m; mph := mph m; mseen := mseen m; mreqs := mreqs m; mans := mans m; mphs := mphs m; marm := marm m |}
          else m)
  | Stop =>
    Some (if mstopped m then m
          else {| mtip := mtip m; mstopped := true; mtipstop := mtip m; mfs := false; mpk := mpk m; mph := mph m; mseen := mseen m; mreqs := mreqs m; mans := mans m; mphs := mphs m; marm := marm m |})
  | Step true _ =>
    Some (if mstopped m
          then {| mtip := mtip m; mstopped := true; mtipstop := mtipstop m; mfs := true; mpk := mpk m; mph := mph m; mseen := mseen m; mreqs := mreqs m; mans := mans m; mphs := mphs m; marm := marm m |}
          else m)
  | _ => Some m
  end.

(* first step the monitor rejects *)
Fixpoint first_bad (ch : list block) (m : mon) (i : Z) (tr : list (op * obs)) : option Z :=
  match tr with
  | [] => None
  | (o, ob) :: rest =>
    match mon_op ch m o ob with
    | None => Some i
    | Some m1 =>
      match results_ok ch m1 o (odel ob) with
      | None => Some i
      | Some m2 =>
        if is_finish o && negb (forallb (fun q => mem_z (rid q) (mans m2)) (mreqs m2))
        then Some i                      (* a caller was left without any result *)
        else if negb (mstopped m2) && (opc ob =? 0) && negb (forallb (fun q => mem_z (rid q) (mans m2)) (mreqs m2))
        then Some i                      (* scanner idle while a caller waits *)
        else
          (* GetBlockHash(h) returned: requests with start height h still unanswered join the batch;
             a request must not see this twice *)
          let joining := match o with
                         | Step false _ =>
                           if negb (mstopped m2) && (mpk m =? 2)
                           then map rid (filter (fun q => (birth q =? mph m) && negb (mem_z (rid q) (mans m))) (mreqs m))
                           else []
                         | _ => [] end in
          if existsb (fun x => mem_z x (mseen m2) && negb (mem_z x (mans m2))) joining
          then Some i                    (* passed over by the batch that dequeued its height *)
          else
            (* progress (C10_next_batch_covers, C10_covered_answered_when_batch_completes, C10_work_left_measure):
               a batch that starts covers every waiting request whose start height is at or below the tip; a
               covered request is answered when that batch completes without a failing callback, and after at
               most batch_steps successful scanner steps *)
            let ph' := next_phase (mphs m) o (opc ob) in
            let stepping := (match o with Step _ _ => true | _ => false end) && negb (mphs m =? 0) in
            let ended := stepping && ((ph' =? 1) || (opc ob =? 0)) in
            let entered := (ph' =? 1) && (ended || (mphs m =? 0)) in
            let open := filter (fun a => negb (mem_z (fst a) (mans m2))) (marm m) in
            if negb (mstopped m2) && ended && negb (is_fail o) && negb (match open with [] => true | _ => false end)
            then Some i                  (* a request covered by the batch survived its completion *)
            else
              let ticked := if stepping && negb (is_fail o) then map (fun a => (fst a, pred (snd a))) open else open in
              if negb (mstopped m2) && existsb (fun a => Nat.eqb (snd a) 0) ticked
              then Some i                (* covered request not answered within the step bound of one batch *)
              else
                let arm := if entered
                           then map (fun q => (rid q, batch_steps (length ch)))
                                    (filter (fun q => (birth q <=? mtip m2) && negb (mem_z (rid q) (mans m2))) (mreqs m2))
                           else if ended then [] else ticked in
                first_bad ch {| mtip := mtip m2; mstopped := mstopped m2; mtipstop := mtipstop m2; mfs := mfs m2;
                                mpk := opc ob; mph := oh ob; mseen := joining ++ mseen m2;
                                mreqs := mreqs m2; mans := mans m2; mphs := ph'; marm := arm |} (i + 1) rest
      end
    end
  end.

Definition mon0 (tip0 : Z) : mon := {| mtip := tip0; mstopped := false; mtipstop := tip0; mfs := false; mpk := 7; mph := 0; mseen := []; mreqs := []; mans := []; mphs := 0; marm := [] |}.

Definition holds (ch : list block) (tip0 : Z) (tr : list (op * obs)) : bool :=
  match first_bad ch (mon0 tip0) 0 tr with None => true | Some _ => false end.
