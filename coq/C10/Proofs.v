(* C10 — lemmas. *)
From Coq Require Import ZArith List Bool Lia ZifyBool Permutation.
From Verif Require Import C10.Model C10.Spec.
Import ListNotations.
Open Scope Z_scope.

(* ------------------------------------------------------------------ *)
(* basics *)

Lemma op_eqb_eq : forall a b : outpoint, op_eqb a b = true <-> a = b.
Proof.
  intros [a1 a2] [b1 b2]. unfold op_eqb. cbn [fst snd]. split.
  - intros H. apply andb_true_iff in H. destruct H as [H1 H2].
    apply Z.eqb_eq in H1. apply Z.eqb_eq in H2. subst. reflexivity.
  - intros H. inversion H. subst. rewrite !Z.eqb_refl. reflexivity.
Qed.

Lemma op_eqb_refl : forall a, op_eqb a a = true.
Proof. intros a. apply op_eqb_eq. reflexivity. Qed.

Definition req_dec : forall a b : req, {a = b} + {a <> b}.
Proof.
  decide equality; try apply Z.eq_dec.
  decide equality; apply Z.eq_dec.
Defined.

Definition inflight (p : pcT) : list req := match p with Blk _ _ nr => nr | _ => [] end.
Definition dreq (d : dl) : req := fst (fst d).
Definition delivered (s : state) : list req := map dreq (log s).
Definition waiting (s : state) : list req :=
  pq s ++ nextb s ++ map fst (act s) ++ inflight (pc s) ++ limbo s.
Definition everything (s : state) : list req := waiting s ++ delivered s.

Notation cnt := (count_occ req_dec).

Lemma dreq_map : forall (rs : list req) (r : result) (t : Z),
  map dreq (map (fun q => (q, r, t)) rs) = rs.
Proof. intros rs r t. rewrite map_map. cbn. apply map_id. Qed.

Lemma cnt_filter_split : forall {A} (f : A -> req) (p : A -> bool) (l : list A) q,
  cnt (map f l) q = (cnt (map f (filter p l)) q + cnt (map f (filter (fun x => negb (p x)) l)) q)%nat.
Proof.
  intros A f p l q. induction l as [|x l IH]; [reflexivity|].
  cbn [filter map]. destruct (p x); cbn [negb map count_occ]; destruct (req_dec (f x) q); lia.
Qed.

Lemma cnt_three : forall (l : list req) (h : Z) q,
  cnt l q = (cnt (filter (fun r => Z.ltb h (birth r)) l) q + cnt (filter (fun r => Z.ltb (birth r) h) l) q
             + cnt (filter (fun r => Z.eqb (birth r) h) l) q)%nat.
Proof.
  intros l h q. induction l as [|x l IH]; [reflexivity|].
  cbn [filter].
  destruct (h <? birth x) eqn:E1; destruct (birth x <? h) eqn:E2; destruct (birth x =? h) eqn:E3;
    try lia; cbn [count_occ]; destruct (req_dec x q); lia.
Qed.

Ltac ev_unfold := unfold everything, waiting, delivered.
Ltac ev_simpl :=
  ev_unfold; cbn [deliver fail_remaining notify_unspent add_limbo set_pc clear_act tip quit pc pq nextb act limbo nxt log inflight];
  rewrite ?map_app, ?count_occ_app, ?dreq_map.

(* ------------------------------------------------------------------ *)
(* frame facts: quit / nxt / tip of every helper *)

Lemma deliver_frame : forall s rs r,
  quit (deliver s rs r) = quit s /\ nxt (deliver s rs r) = nxt s /\ tip (deliver s rs r) = tip s /\
  pc (deliver s rs r) = pc s /\ act (deliver s rs r) = act s /\ pq (deliver s rs r) = pq s /\
  nextb (deliver s rs r) = nextb s /\ limbo (deliver s rs r) = limbo s.
Proof. intros. cbn. repeat split. Qed.

Lemma to_manager_frame : forall s,
  quit (to_manager s) = quit s /\ nxt (to_manager s) = nxt s /\ tip (to_manager s) = tip s /\
  act (to_manager s) = act s.
Proof.
  intros s. unfold to_manager. destruct (quit s) eqn:Q.
  - cbn. auto.
  - destruct (min_birth (pq s ++ nextb s)); cbn; auto.
Qed.

Lemma fail_remaining_frame : forall s e,
  quit (fail_remaining s e) = quit s /\ nxt (fail_remaining s e) = nxt s /\ tip (fail_remaining s e) = tip s /\
  act (fail_remaining s e) = [] /\ pc (fail_remaining s e) = pc s.
Proof. intros. cbn. repeat split. Qed.

Lemma loop_head_frame : forall s h e,
  quit (loop_head s h e) = quit s /\ nxt (loop_head s h e) = nxt s /\ tip (loop_head s h e) = tip s.
Proof.
  intros s h e. unfold loop_head. destruct (e <? h); [cbn; auto|].
  destruct (quit s) eqn:Q; [|cbn; auto].
  destruct (to_manager_frame (fail_remaining s RErrShut)) as (A & B & C & _).
  rewrite A, B, C. cbn. auto.
Qed.

Lemma process_block_frame : forall s blk nr h,
  quit (process_block s blk nr h) = quit s /\ nxt (process_block s blk nr h) = nxt s /\
  tip (process_block s blk nr h) = tip s /\ pc (process_block s blk nr h) = pc s /\
  pq (process_block s blk nr h) = pq s /\ nextb (process_block s blk nr h) = nextb s /\
  limbo (process_block s blk nr h) = limbo s.
Proof.
  intros. unfold process_block. destruct (notify_spends _ _ _ _). cbn. repeat split.
Qed.

Definition newreq (s : state) (o : op) : list req :=
  match o with
  | Enq p b => if quit s || (b <? 0) then [] else [{| rid := nxt s; rop := p; birth := b |}]
  | _ => []
  end.

Lemma scan_step_frame : forall ch s f m,
  quit (scan_step ch s f m) = quit s /\ nxt (scan_step ch s f m) = nxt s /\ tip (scan_step ch s f m) = tip s.
Proof.
  intros ch s f m. unfold scan_step.
  destruct (pc s) as [| |h|h e|h e|h e nr|e|]; auto.
  - destruct f.
    + destruct (to_manager_frame s) as (A & B & C & _). auto.
    + destruct (loop_head_frame (clear_act s) h (tip s)) as (A & B & C). rewrite A, B, C. cbn. auto.
  - destruct f.
    + destruct (to_manager_frame (fail_remaining s RErrFetch)) as (A & B & C & _). rewrite A, B, C. cbn. auto.
    + unfold dequeue. cbn [fst snd].
      destruct (filter (fun r => birth r =? h) (pq s)) eqn:F; [cbn; auto|].
      cbn [quit]. destruct (quit s) eqn:Q; [|cbn; auto].
      match goal with |- context [to_manager ?x] => destruct (to_manager_frame x) as (A & B & C & _) end.
      rewrite A, B, C. cbn. auto.
  - destruct f.
    + destruct (to_manager_frame (fail_remaining s RErrFetch)) as (A & B & C & _). rewrite A, B, C. cbn. auto.
    + destruct m; cbn [negb].
      * destruct (quit s) eqn:Q; [|cbn; auto].
        destruct (to_manager_frame (fail_remaining s RErrShut)) as (A & B & C & _). rewrite A, B, C. cbn. auto.
      * apply loop_head_frame.
  - destruct f.
    + match goal with |- context [to_manager ?x] => destruct (to_manager_frame x) as (A & B & C & _) end.
      rewrite A, B, C. cbn. auto.
    + destruct (quit s) eqn:Q.
      * match goal with |- context [to_manager ?x] => destruct (to_manager_frame x) as (A & B & C & _) end.
        rewrite A, B, C. cbn. auto.
      * destruct (nth_block ch h); [|auto].
        destruct (loop_head_frame (process_block s b nr h) (h + 1) e) as (A & B & C).
        destruct (process_block_frame s b nr h) as (A' & B' & C' & _).
        rewrite A, B, C, A', B', C'. auto.
  - destruct f.
    + destruct (to_manager_frame (fail_remaining s RErrFetch)) as (A & B & C & _). rewrite A, B, C. cbn. auto.
    + destruct (e <? tip s).
      * apply loop_head_frame.
      * destruct (to_manager_frame (notify_unspent s)) as (A & B & C & _). rewrite A, B, C. cbn. auto.
Qed.

Lemma step_quit_nxt : forall ch s o,
  quit (step ch s o) = (quit s || is_stop o) /\
  nxt (step ch s o) = nxt s + Z.of_nat (length (newreq s o)).
Proof.
  intros ch s o. destruct o as [p b| |f m| | |]; cbn [step newreq is_stop].
  - destruct (quit s || (b <? 0)) eqn:G; cbn [length]; [rewrite orb_false_r; split; lia|].
    rewrite orb_false_r.
    destruct (pc s); cbn [quit nxt]; try (split; [reflexivity|lia]).
    match goal with |- context [to_manager ?x] => destruct (to_manager_frame x) as (A & B & _) end.
    rewrite A, B. cbn. split; [reflexivity|lia].
  - rewrite orb_false_r. cbn [length]. destruct (pc s); try (split; [reflexivity|lia]).
    destruct (to_manager_frame s) as (A & B & _). rewrite A, B. split; [reflexivity|lia].
  - rewrite orb_false_r. cbn [length]. destruct (scan_step_frame ch s f m) as (A & B & _). rewrite A, B. split; [reflexivity|lia].
  - rewrite orb_false_r. cbn [length]. destruct (tip s + 1 <? Z.of_nat (length ch)); cbn; split; try reflexivity; lia.
  - rewrite orb_true_r. cbn [length].
    destruct (pc s); cbn [quit nxt]; try (split; [reflexivity|lia]).
    match goal with |- context [to_manager ?x] => destruct (to_manager_frame x) as (A & B & _) end.
    rewrite A, B. cbn. split; [reflexivity|lia].
  - rewrite orb_false_r. cbn [length]. split; [reflexivity|lia].
Qed.

(* ------------------------------------------------------------------ *)
(* conservation: every accepted request is in exactly one place *)

Lemma cnt_deliver : forall s rs r q,
  cnt (everything (deliver s rs r)) q = (cnt (everything s) q + cnt rs q)%nat.
Proof. intros. ev_simpl. lia. Qed.

Lemma cnt_fail_remaining : forall s e q,
  cnt (everything (fail_remaining s e)) q = cnt (everything s) q.
Proof.
  intros. ev_simpl. cbn [map count_occ]. lia.
Qed.

Lemma cnt_notify_unspent : forall s q,
  cnt (everything (notify_unspent s)) q = cnt (everything s) q.
Proof.
  intros. ev_simpl. cbn [map count_occ].
  assert (E : map dreq (map (fun p : req * option result =>
              (fst p, match snd p with Some r => r | None => REmpty end, tip s)) (act s)) = map fst (act s)).
  { rewrite map_map. apply map_ext. intros a. reflexivity. }
  rewrite E. lia.
Qed.

Lemma cnt_add_limbo : forall s l q,
  cnt (everything (add_limbo s l)) q = (cnt (everything s) q + cnt l q)%nat.
Proof. intros. ev_simpl. lia. Qed.

Lemma add_limbo_pc : forall s l, pc (add_limbo s l) = pc s.
Proof. reflexivity. Qed.

Lemma cnt_set_pc : forall s p q,
  (cnt (everything (set_pc s p)) q + cnt (inflight (pc s)) q
   = cnt (everything s) q + cnt (inflight p) q)%nat.
Proof. intros. ev_simpl. lia. Qed.

Lemma cnt_to_manager : forall s q,
  (cnt (everything (to_manager s)) q + cnt (inflight (pc s)) q = cnt (everything s) q)%nat.
Proof.
  intros s q. unfold to_manager. destruct (quit s).
  - ev_simpl. cbn [map count_occ]. lia.
  - destruct (min_birth (pq s ++ nextb s)); ev_simpl; cbn [count_occ]; lia.
Qed.

Lemma to_manager_inflight : forall s, inflight (pc (to_manager s)) = [].
Proof.
  intros s. unfold to_manager. destruct (quit s); [reflexivity|].
  destruct (min_birth (pq s ++ nextb s)); reflexivity.
Qed.

Lemma cnt_loop_head : forall s h e q,
  (cnt (everything (loop_head s h e)) q + cnt (inflight (pc s)) q = cnt (everything s) q)%nat.
Proof.
  intros s h e q. unfold loop_head. destruct (e <? h).
  - pose proof (cnt_set_pc s (Best1 e) q) as H. cbn [inflight count_occ] in H. lia.
  - destruct (quit s).
    + pose proof (cnt_to_manager (fail_remaining s RErrShut) q) as H.
      rewrite cnt_fail_remaining in H. exact H.
    + pose proof (cnt_set_pc s (Hash h e) q) as H. cbn [inflight count_occ] in H. lia.
Qed.

Lemma loop_head_inflight : forall s h e, inflight (pc (loop_head s h e)) = [].
Proof.
  intros s h e. unfold loop_head. destruct (e <? h); [reflexivity|].
  destruct (quit s); [apply to_manager_inflight|reflexivity].
Qed.

Lemma cnt_dequeue : forall s h q,
  (cnt (everything (fst (dequeue s h))) q + cnt (snd (dequeue s h)) q = cnt (everything s) q)%nat /\
  pc (fst (dequeue s h)) = pc s.
Proof.
  intros s h q. unfold dequeue. cbn [fst snd]. split; [|reflexivity].
  ev_simpl. pose proof (cnt_three (pq s) h q). lia.
Qed.

Lemma cnt_notify_spends : forall h t sps a q,
  cnt (map fst a) q =
  (cnt (map fst (fst (notify_spends h t sps a))) q + cnt (map dreq (snd (notify_spends h t sps a))) q)%nat.
Proof.
  intros h t sps. induction sps as [|[o [x i]] rest IH]; intros a q.
  - cbn. lia.
  - cbn [notify_spends]. destruct (watching a o) as [|w0 w] eqn:W.
    + apply IH.
    + specialize (IH (unwatch a o) q).
      destruct (notify_spends h t rest (unwatch a o)) as [a' d]. cbn [fst snd] in *.
      rewrite map_app, count_occ_app.
      assert (E : map dreq (@map (req * option result) dl (fun p => (fst p, RSpent x i h, t)) (w0 :: w))
                  = map fst (w0 :: w)).
      { rewrite map_map. apply map_ext. reflexivity. }
      unfold dl in *. rewrite E, <- W.
      pose proof (cnt_filter_split fst (fun p : req * option result => op_eqb (rop (fst p)) o) a q) as S.
      unfold watching, unwatch in *. lia.
Qed.

Lemma cnt_process_block : forall s blk nr h q,
  cnt (everything (process_block s blk nr h)) q = (cnt (everything s) q + cnt nr q)%nat.
Proof.
  intros s blk nr h q. unfold process_block.
  pose proof (cnt_notify_spends h (tip s) (spends_in blk)
                (act s ++ map (fun q0 => (q0, created_in blk h (rop q0))) nr) q) as H.
  destruct (notify_spends h (tip s) (spends_in blk) _) as [a2 d]. cbn [fst snd] in H.
  ev_simpl. rewrite map_app, count_occ_app in H.
  rewrite map_map in H. cbn [fst] in H. rewrite map_id in H. lia.
Qed.

Definition quiet_pc (p : pcT) : bool :=
  match p with NotStarted | Idle | Best0 _ | Exited => true | _ => false end.

Definition consv (acc : list req) (s : state) : Prop :=
  (forall q, cnt (everything s) q = cnt acc q) /\ (quiet_pc (pc s) = true -> act s = []).

Lemma to_manager_quiet : forall s, quiet_pc (pc (to_manager s)) = true.
Proof.
  intros s. unfold to_manager. destruct (quit s); [reflexivity|].
  destruct (min_birth (pq s ++ nextb s)); reflexivity.
Qed.

(* to_manager applied to a state with empty reporter keeps the invariant *)
Lemma consv_to_manager : forall acc s,
  (forall q, (cnt (everything s) q = cnt acc q + cnt (inflight (pc s)) q)%nat) -> act s = [] ->
  consv acc (to_manager s).
Proof.
  intros acc s H A. split.
  - intros q. pose proof (cnt_to_manager s q). specialize (H q). lia.
  - intros _. destruct (to_manager_frame s) as (_ & _ & _ & E). rewrite E. exact A.
Qed.

Lemma consv_loop_head : forall acc s h e,
  (forall q, (cnt (everything s) q = cnt acc q + cnt (inflight (pc s)) q)%nat) ->
  consv acc (loop_head s h e).
Proof.
  intros acc s h e H. unfold loop_head. destruct (e <? h).
  - split; [|discriminate]. intros q. pose proof (cnt_set_pc s (Best1 e) q) as P.
    cbn [inflight count_occ] in P. specialize (H q). lia.
  - destruct (quit s).
    + apply consv_to_manager; [|reflexivity].
      intros q. rewrite cnt_fail_remaining. apply H.
    + split; [|discriminate]. intros q. pose proof (cnt_set_pc s (Hash h e) q) as P.
      cbn [inflight count_occ] in P. specialize (H q). lia.
Qed.

Lemma consv_scan_step : forall ch acc s f m, consv acc s -> consv acc (scan_step ch s f m).
Proof.
  intros ch acc s f m [C A]. unfold scan_step.
  destruct (pc s) as [| |h|h e|h e|h e nr|e|] eqn:P; try (split; [exact C|rewrite P; exact A]).
  - (* Best0 *)
    destruct f.
    + apply consv_to_manager; [|apply A; reflexivity].
      intros q. rewrite P. cbn [inflight count_occ]. rewrite C. lia.
    + apply consv_loop_head. intros q. cbn [clear_act pc]. rewrite P. cbn [inflight count_occ].
      rewrite <- C. ev_simpl. rewrite P, (A eq_refl). cbn. lia.
  - (* Hash *)
    destruct f.
    + apply consv_to_manager; [|reflexivity]. intros q. rewrite cnt_fail_remaining. cbn [fail_remaining pc deliver].
      rewrite P. cbn [inflight count_occ]. rewrite C. lia.
    + assert (Epc : pc (fst (dequeue s h)) = pc s) by reflexivity.
      assert (D : forall q, (cnt (everything (fst (dequeue s h))) q + cnt (snd (dequeue s h)) q = cnt (everything s) q)%nat)
        by (intros q; apply (cnt_dequeue s h q)).
      destruct (dequeue s h) as [s1 now] eqn:DQ. cbn [fst snd] in *.
      destruct now as [|n0 now'].
      * split; [|discriminate]. intros q. pose proof (cnt_set_pc s1 (Filt h e) q) as S.
        rewrite Epc, P in S. cbn [inflight count_occ] in S. specialize (D q). cbn [count_occ] in D.
        rewrite <- C. lia.
      * destruct (quit s1).
        -- apply consv_to_manager; [|reflexivity]. intros q. rewrite cnt_fail_remaining.
           cbn [fail_remaining pc deliver]. rewrite add_limbo_pc, Epc, P. cbn [inflight].
           rewrite cnt_add_limbo. specialize (D q). rewrite <- C. cbn [count_occ] in *. lia.
        -- split; [|discriminate]. intros q. pose proof (cnt_set_pc s1 (Blk h e (n0 :: now')) q) as S.
           rewrite Epc, P in S. cbn [inflight] in S. specialize (D q). rewrite <- C. cbn [count_occ] in *. lia.
  - (* Filt *)
    destruct f.
    + apply consv_to_manager; [|reflexivity]. intros q. rewrite cnt_fail_remaining. cbn [fail_remaining pc deliver].
      rewrite P. cbn [inflight count_occ]. rewrite C. lia.
    + destruct m; cbn [negb].
      * destruct (quit s).
        -- apply consv_to_manager; [|reflexivity]. intros q. rewrite cnt_fail_remaining. cbn [fail_remaining pc deliver].
           rewrite P. cbn [inflight count_occ]. rewrite C. lia.
        -- split; [|discriminate]. intros q. pose proof (cnt_set_pc s (Blk h e []) q) as S.
           rewrite P in S. cbn [inflight count_occ] in S. rewrite <- C. lia.
      * apply consv_loop_head. intros q. rewrite P. cbn [inflight count_occ]. rewrite C. lia.
  - (* Blk *)
    destruct f.
    + apply consv_to_manager; [|reflexivity]. intros q. rewrite cnt_fail_remaining, cnt_deliver.
      cbn [fail_remaining pc deliver]. rewrite P. cbn [inflight]. rewrite C. lia.
    + destruct (quit s).
      * apply consv_to_manager; [|reflexivity]. intros q. rewrite cnt_fail_remaining, cnt_add_limbo.
        cbn [fail_remaining pc deliver]. rewrite add_limbo_pc, P. cbn [inflight]. rewrite C. lia.
      * destruct (nth_block ch h) as [blk|]; [|split; [exact C|rewrite P; exact A]].
        apply consv_loop_head. intros q. rewrite cnt_process_block.
        destruct (process_block_frame s blk nr h) as (_ & _ & _ & E & _). rewrite E, P. cbn [inflight].
        rewrite C. lia.
  - (* Best1 *)
    destruct f.
    + apply consv_to_manager; [|reflexivity]. intros q. rewrite cnt_fail_remaining. cbn [fail_remaining pc deliver].
      rewrite P. cbn [inflight count_occ]. rewrite C. lia.
    + destruct (e <? tip s).
      * apply consv_loop_head. intros q. rewrite P. cbn [inflight count_occ]. rewrite C. lia.
      * apply consv_to_manager; [|reflexivity]. intros q. rewrite cnt_notify_unspent.
        cbn [notify_unspent pc]. rewrite P. cbn [inflight count_occ]. rewrite C. lia.
Qed.

Lemma consv_step : forall ch acc s o, consv acc s -> consv (acc ++ newreq s o) (step ch s o).
Proof.
  intros ch acc s o [C A]. destruct o as [p b| |f m| | |]; cbn [step newreq].
  - destruct (quit s || (b <? 0)); [rewrite app_nil_r; split; assumption|].
    set (q0 := {| rid := nxt s; rop := p; birth := b |}).
    set (s1 := {| tip := tip s; quit := quit s; pc := pc s; pq := pq s ++ [q0]; nextb := nextb s;
                  act := act s; limbo := limbo s; nxt := nxt s + 1; log := log s |}).
    assert (C1 : forall q, cnt (everything s1) q = cnt (acc ++ [q0]) q).
    { intros q. subst s1. ev_simpl. rewrite <- C. ev_simpl. lia. }
    destruct (pc s) eqn:P; try (split; [exact C1|subst s1; cbn [act pc]; exact A]).
    apply consv_to_manager; [|subst s1; cbn [act]; apply A; reflexivity].
    intros q. rewrite C1. subst s1. cbn [pc inflight count_occ]. lia.
  - rewrite app_nil_r. destruct (pc s) eqn:P; try (split; [exact C|rewrite P; exact A]).
    apply consv_to_manager; [|apply A; reflexivity].
    intros q. rewrite P. cbn [inflight count_occ]. rewrite C. lia.
  - rewrite app_nil_r. apply consv_scan_step. split; assumption.
  - rewrite app_nil_r. destruct (tip s + 1 <? Z.of_nat (length ch)); split; assumption.
  - rewrite app_nil_r.
    set (s1 := {| tip := tip s; quit := true; pc := pc s; pq := pq s; nextb := nextb s; act := act s;
                  limbo := limbo s; nxt := nxt s; log := log s |}).
    assert (C1 : forall q, cnt (everything s1) q = cnt acc q) by (intros q; rewrite <- C; reflexivity).
    destruct (pc s) eqn:P; try (split; [exact C1|subst s1; cbn [act pc]; exact A]).
    apply consv_to_manager; [|subst s1; cbn [act]; apply A; reflexivity].
    intros q. rewrite C1. subst s1. cbn [pc inflight count_occ]. lia.
  - rewrite app_nil_r. split; assumption.
Qed.

(* the requests a history gets accepted, from the operations alone *)
Fixpoint accepted_from (stopped : bool) (n : Z) (ops : list op) : list req :=
  match ops with
  | [] => []
  | Enq p b :: r =>
    if stopped || (b <? 0) then accepted_from stopped n r
    else {| rid := n; rop := p; birth := b |} :: accepted_from stopped (n + 1) r
  | Stop :: r => accepted_from true n r
  | _ :: r => accepted_from stopped n r
  end.
Definition accepted (ops : list op) : list req := accepted_from false 0 ops.

Lemma accepted_cons : forall ch s o r,
  accepted_from (quit s) (nxt s) (o :: r) =
  newreq s o ++ accepted_from (quit (step ch s o)) (nxt (step ch s o)) r.
Proof.
  intros ch s o r. destruct (step_quit_nxt ch s o) as [Q N]. rewrite Q, N.
  destruct o as [p b| |f m| | |]; cbn [accepted_from newreq is_stop length app];
    rewrite ?orb_false_r, ?orb_true_r, ?Z.add_0_r; try reflexivity.
  destruct (quit s || (b <? 0)); cbn [length app]; rewrite ?Z.add_0_r; reflexivity.
Qed.

Lemma consv_run : forall ch ops acc s,
  consv acc s -> consv (acc ++ accepted_from (quit s) (nxt s) ops) (run ch s ops).
Proof.
  intros ch ops. induction ops as [|o r IH]; intros acc s H.
  - cbn. rewrite app_nil_r. exact H.
  - cbn [run fold_left]. rewrite (accepted_cons ch), app_assoc.
    apply IH. apply consv_step. exact H.
Qed.

Lemma consv_init : forall tip0, consv [] (init tip0).
Proof. intros. split; [intros q; reflexivity|reflexivity]. Qed.

Lemma conservation : forall ch tip0 ops,
  let s := run ch (init tip0) ops in
  Permutation (waiting s ++ delivered s) (accepted ops).
Proof.
  intros ch tip0 ops s.
  pose proof (consv_run ch ops [] (init tip0) (consv_init tip0)) as [C _].
  apply (Permutation_count_occ req_dec). intros q. apply C.
Qed.

(* request ids of the accepted requests are 0,1,2,... : no two share an id *)
Lemma accepted_from_ids : forall ops b n q, In q (accepted_from b n ops) -> n <= rid q.
Proof.
  induction ops as [|o r IH]; intros b n q H; [contradiction|].
  destruct o as [p bb| |f m| | |]; cbn [accepted_from] in H; try (apply IH in H; exact H).
  destruct (b || (bb <? 0)); [apply IH in H; exact H|].
  destruct H as [H|H]; [subst q; cbn; lia|apply IH in H; lia].
Qed.

Lemma accepted_from_nodup : forall ops b n, NoDup (map rid (accepted_from b n ops)).
Proof.
  induction ops as [|o r IH]; intros b n; [constructor|].
  destruct o as [p bb| |f m| | |]; cbn [accepted_from]; try apply IH.
  destruct (b || (bb <? 0)); [apply IH|].
  cbn [map rid]. constructor; [|apply IH].
  intros H. apply in_map_iff in H. destruct H as [q [E H]].
  apply accepted_from_ids in H. lia.
Qed.

Lemma exactly_once : forall ch tip0 ops,
  let s := run ch (init tip0) ops in
  NoDup (map rid (waiting s ++ delivered s)).
Proof.
  intros ch tip0 ops s.
  apply (Permutation_NoDup (l := map rid (accepted ops))).
  - apply Permutation_map. apply Permutation_sym. apply conservation.
  - apply accepted_from_nodup.
Qed.

(* ------------------------------------------------------------------ *)
(* fate *)

Definition nospend (ch : list block) (o : outpoint) (a b : Z) : Prop :=
  forall h', a <= h' < b -> spend_at ch o h' = None.

Lemma first_spend_spec : forall ch o fuel start,
  match first_spend ch o start fuel with
  | Some r => exists h x i, start <= h < start + Z.of_nat fuel /\ spend_at ch o h = Some (x, i) /\
                            nospend ch o start h /\ r = RSpent x i h
  | None => nospend ch o start (start + Z.of_nat fuel)
  end.
Proof.
  intros ch o fuel. induction fuel as [|f IH]; intros start.
  - cbn. intros h' Hh. lia.
  - cbn [first_spend]. destruct (spend_at ch o start) as [[x i]|] eqn:E.
    + exists start, x, i. repeat split; try lia; [exact E|]. intros h' Hh. lia.
    + specialize (IH (start + 1)). destruct (first_spend ch o (start + 1) f) as [r|].
      * destruct IH as (h & x & i & Hr & Hs & Hn & Er). exists h, x, i.
        repeat split; try lia; [exact Hs| |exact Er].
        intros h' Hh. destruct (Z.eq_dec h' start) as [->|Ne]; [exact E|apply Hn; lia].
      * intros h' Hh. destruct (Z.eq_dec h' start) as [->|Ne]; [exact E|apply IH; lia].
Qed.

Lemma span_eq : forall ch t start, start <= t < Z.of_nat (length ch) ->
  Z.of_nat (span ch t start) = t - start + 1.
Proof. intros ch t start H. unfold span. destruct ((start <=? t) && (t <? Z.of_nat (length ch))) eqn:E; lia. Qed.

Lemma fate_spent : forall ch t o start h x i,
  start <= h <= t -> t < Z.of_nat (length ch) -> nospend ch o start h -> spend_at ch o h = Some (x, i) ->
  fate ch t o start = RSpent x i h.
Proof.
  intros ch t o start h x i Hr Ht Hn Hs. unfold fate.
  pose proof (first_spend_spec ch o (span ch t start) start) as S.
  rewrite span_eq in S by lia.
  destruct (first_spend ch o start (span ch t start)) as [r|].
  - destruct S as (h1 & x1 & i1 & Hr1 & Hs1 & Hn1 & ->).
    destruct (Z.lt_trichotomy h1 h) as [L|[E|G]].
    + rewrite Hn in Hs1 by lia. discriminate.
    + subst h1. rewrite Hs in Hs1. inversion Hs1. reflexivity.
    + rewrite Hn1 in Hs by lia. discriminate.
  - rewrite S in Hs by lia. discriminate.
Qed.

Lemma fate_unspent : forall ch t o start,
  start <= t < Z.of_nat (length ch) -> nospend ch o start (t + 1) ->
  fate ch t o start = created_at ch start o.
Proof.
  intros ch t o start Ht Hn. unfold fate.
  pose proof (first_spend_spec ch o (span ch t start) start) as S.
  rewrite span_eq in S by lia.
  destruct (first_spend ch o start (span ch t start)) as [r|]; [|reflexivity].
  destruct S as (h1 & x1 & i1 & Hr1 & Hs1 & _). rewrite Hn in Hs1 by lia. discriminate.
Qed.

Lemma fate_correct : forall ch t o start, start <= t < Z.of_nat (length ch) ->
  Fate ch t o start (fate ch t o start).
Proof.
  intros ch t o start Ht. unfold Fate, fate.
  pose proof (first_spend_spec ch o (span ch t start) start) as S.
  rewrite span_eq in S by lia.
  destruct (first_spend ch o start (span ch t start)) as [r|].
  - left. destruct S as (h & x & i & Hr & Hs & Hn & ->). exists h, x, i.
    repeat split; try lia; [exact Hs|]. intros h' Hh. apply Hn. lia.
  - right. split; [|reflexivity]. intros h' Hh. apply S. lia.
Qed.

(* ------------------------------------------------------------------ *)
(* the scan invariant *)

Definition res_of (i : option result) : result := match i with Some r => r | None => REmpty end.

Definition entry_ok (ch : list block) (h : Z) (p : req * option result) : Prop :=
  0 <= birth (fst p) < h /\ nospend ch (rop (fst p)) (birth (fst p)) h /\
  res_of (snd p) = created_at ch (birth (fst p)) (rop (fst p)).

Definition scan_ok (ch : list block) (s : state) : Prop :=
  match pc s with
  | Hash h e | Filt h e => 0 <= h <= e /\ e <= tip s /\ Forall (entry_ok ch h) (act s)
  | Blk h e nr => 0 <= h <= e /\ e <= tip s /\ Forall (entry_ok ch h) (act s) /\
                  Forall (fun q => birth q = h) nr
  | Best1 e => 0 <= e <= tip s /\ Forall (entry_ok ch (e + 1)) (act s)
  | Best0 h => 0 <= h
  | _ => True
  end.

(* a delivery is justified: ff = a callback failed so far, qt = quit closed *)
Definition just (ch : list block) (ff qt : bool) (tp : Z) (d : dl) : Prop :=
  snd d <= tp /\
  ((snd (fst d) = RErrFetch /\ ff = true) \/ (snd (fst d) = RErrShut /\ qt = true) \/
   (0 <= birth (dreq d) <= snd d /\ snd (fst d) = fate ch (snd d) (rop (dreq d)) (birth (dreq d)))).

Definition base (ch : list block) (ff : bool) (s : state) : Prop :=
  0 <= tip s < Z.of_nat (length ch) /\
  Forall (fun q => 0 <= birth q) (pq s ++ nextb s) /\
  Forall (just ch ff (quit s) (tip s)) (log s).

Definition finv (ch : list block) (ff : bool) (s : state) : Prop := base ch ff s /\ scan_ok ch s.

Lemma just_mono : forall ch ff qt tp ff' qt' tp' d,
  just ch ff qt tp d -> (ff = true -> ff' = true) -> (qt = true -> qt' = true) -> tp <= tp' ->
  just ch ff' qt' tp' d.
Proof.
  intros ch ff qt tp ff' qt' tp' d [T J] Hf Hq Ht. split; [lia|].
  destruct J as [[A B]|[[A B]|C]]; auto.
Qed.

Lemma min_birth_ge : forall l h, Forall (fun q => 0 <= birth q) l -> min_birth l = Some h -> 0 <= h.
Proof.
  intros [|r l] h F E; [discriminate|]. cbn in E. inversion E as [E']. clear E E'.
  inversion F as [|? ? Hr Fl]. subst.
  assert (G : forall l m, 0 <= m -> Forall (fun q => 0 <= birth q) l ->
                          0 <= fold_left (fun m x => Z.min m (birth x)) l m).
  { clear. induction l as [|x l IH]; intros m Hm F; [exact Hm|].
    inversion F; subst. cbn. apply IH; [lia|assumption]. }
  apply G; assumption.
Qed.

Lemma base_to_manager : forall ch ff s, base ch ff s -> finv ch ff (to_manager s).
Proof.
  intros ch ff s (T & Q & L). unfold to_manager. destruct (quit s) eqn:Qt.
  - split; [|exact I]. split; [exact T|]. split; [constructor|].
    cbn [log deliver tip quit]. apply Forall_app. split.
    + eapply Forall_impl; [|exact L]. intros d J. eapply just_mono; eauto; lia.
    + apply Forall_forall. intros d Hd. apply in_map_iff in Hd. destruct Hd as [q [<- _]].
      split; [cbn; lia|]. right. left. split; reflexivity.
  - destruct (min_birth (pq s ++ nextb s)) as [h|] eqn:M.
    + split.
      * split; [exact T|]. cbn [set_pc pq nextb log tip quit]. rewrite app_nil_r. split; [exact Q|].
        rewrite ?Qt. exact L.
      * cbn. eapply min_birth_ge; eauto.
    + split; [|exact I]. split; [exact T|]. cbn [set_pc pq nextb log tip quit]. rewrite app_nil_r.
      split; [exact Q|]. rewrite ?Qt. exact L.
Qed.

Lemma base_fail_remaining : forall ch ff s e, base ch ff s ->
  (e = RErrFetch /\ ff = true) \/ (e = RErrShut /\ quit s = true) ->
  base ch ff (fail_remaining s e).
Proof.
  intros ch ff s e (T & Q & L) He. split; [exact T|]. split; [exact Q|].
  cbn [fail_remaining deliver log tip quit]. apply Forall_app. split; [exact L|].
  apply Forall_forall. intros d Hd. apply in_map_iff in Hd. destruct Hd as [q [<- _]].
  split; [cbn; lia|]. cbn [fst snd]. destruct He as [He|He]; [left|right; left]; exact He.
Qed.

Lemma base_deliver : forall ch ff s rs e, base ch ff s ->
  (e = RErrFetch /\ ff = true) \/ (e = RErrShut /\ quit s = true) ->
  base ch ff (deliver s rs e).
Proof.
  intros ch ff s rs e (T & Q & L) He. split; [exact T|]. split; [exact Q|].
  cbn [deliver log tip quit]. apply Forall_app. split; [exact L|].
  apply Forall_forall. intros d Hd. apply in_map_iff in Hd. destruct Hd as [q [<- _]].
  split; [cbn; lia|]. cbn [fst snd]. destruct He as [He|He]; [left|right; left]; exact He.
Qed.

Lemma base_add_limbo : forall ch ff s l, base ch ff s -> base ch ff (add_limbo s l).
Proof. intros ch ff s l B. exact B. Qed.

Lemma base_ff : forall ch ff s, base ch ff s -> base ch true s.
Proof.
  intros ch ff s (T & Q & L). split; [exact T|]. split; [exact Q|].
  eapply Forall_impl; [|exact L]. intros d J. eapply just_mono; eauto; lia.
Qed.

Lemma finv_loop_head : forall ch ff s h e,
  base ch ff s -> 0 <= h -> 0 <= e <= tip s -> (h <= e + 1 \/ act s = []) ->
  Forall (entry_ok ch h) (act s) ->
  finv ch ff (loop_head s h e).
Proof.
  intros ch ff s h e B Hh He Hd F. unfold loop_head. destruct (e <? h) eqn:E.
  - split; [exact B|]. cbn. split; [lia|].
    destruct Hd as [Hd|Hd]; [|rewrite Hd; constructor].
    replace (e + 1) with h by lia. exact F.
  - destruct (quit s) eqn:Qt.
    + apply base_to_manager. apply base_fail_remaining; [exact B|]. right. split; [reflexivity|exact Qt].
    + split; [exact B|]. cbn. repeat split; try lia. exact F.
Qed.

Lemma find_app : forall {A} (f : A -> bool) l1 l2,
  find f (l1 ++ l2) = match find f l1 with Some x => Some x | None => find f l2 end.
Proof.
  intros A f l1 l2. induction l1 as [|x l1 IH]; [reflexivity|].
  cbn. destruct (f x); [reflexivity|exact IH].
Qed.

Definition fsp (sps : list (outpoint * (Z * Z))) (o : outpoint) := find (fun sp => op_eqb (fst sp) o) sps.

Lemma watching_in : forall a o p, In p (watching a o) <-> In p a /\ rop (fst p) = o.
Proof.
  intros a o p. unfold watching. rewrite filter_In. rewrite op_eqb_eq. reflexivity.
Qed.

Lemma unwatch_in : forall a o p, In p (unwatch a o) <-> In p a /\ rop (fst p) <> o.
Proof.
  intros a o p. unfold unwatch. rewrite filter_In. rewrite negb_true_iff.
  split; intros [H1 H2]; split; auto.
  - intros E. apply op_eqb_eq in E. congruence.
  - destruct (op_eqb (rop (fst p)) o) eqn:E; [|reflexivity]. apply op_eqb_eq in E. contradiction.
Qed.

Lemma notify_spends_spec : forall h t sps pre a,
  (forall p, In p a -> fsp pre (rop (fst p)) = None) ->
  (forall p, In p (fst (notify_spends h t sps a)) ->
             In p a /\ fsp (pre ++ sps) (rop (fst p)) = None) /\
  (forall d, In d (snd (notify_spends h t sps a)) ->
             exists p x i, In p a /\ d = (fst p, RSpent x i h, t) /\
                           fsp (pre ++ sps) (rop (fst p)) = Some (rop (fst p), (x, i))).
Proof.
  intros h t sps. induction sps as [|[o [x i]] rest IH]; intros pre a Hpre.
  - cbn [notify_spends fst snd]. rewrite app_nil_r. split.
    + intros p Hp. split; [exact Hp|apply Hpre; exact Hp].
    + intros d [].
  - cbn [notify_spends].
    replace (pre ++ (o, (x, i)) :: rest) with ((pre ++ [(o, (x, i))]) ++ rest)
      by (rewrite <- app_assoc; reflexivity).
    destruct (watching a o) as [|w0 w] eqn:W.
    + apply IH. intros p Hp. unfold fsp. rewrite find_app. fold (fsp pre (rop (fst p))).
      rewrite (Hpre p Hp). cbn [find fst].
      destruct (op_eqb o (rop (fst p))) eqn:E; [|reflexivity].
      apply op_eqb_eq in E.
      assert (Hw : In p (watching a o)) by (apply watching_in; split; [exact Hp|congruence]).
      rewrite W in Hw. destruct Hw.
    + specialize (IH (pre ++ [(o, (x, i))]) (unwatch a o)).
      destruct (notify_spends h t rest (unwatch a o)) as [a' d'] eqn:N. cbn [fst snd] in *.
      assert (Hpre' : forall p, In p (unwatch a o) -> fsp (pre ++ [(o, (x, i))]) (rop (fst p)) = None).
      { intros p Hp. apply unwatch_in in Hp. destruct Hp as [Hp Ne].
        unfold fsp. rewrite find_app. fold (fsp pre (rop (fst p))). rewrite (Hpre p Hp). cbn [find fst].
        destruct (op_eqb o (rop (fst p))) eqn:E; [|reflexivity].
        apply op_eqb_eq in E. congruence. }
      destruct (IH Hpre') as [IH1 IH2]. split.
      * intros p Hp. destruct (IH1 p Hp) as [Hu Hf]. split; [|exact Hf].
        apply unwatch_in in Hu. tauto.
      * intros d Hd. apply in_app_or in Hd. destruct Hd as [Hd|Hd].
        -- apply in_map_iff in Hd. destruct Hd as [p [<- Hp]]. rewrite <- W in Hp.
           apply watching_in in Hp. destruct Hp as [Hp Eo]. exists p, x, i.
           split; [exact Hp|]. split; [reflexivity|].
           unfold fsp. rewrite <- app_assoc. rewrite find_app. fold (fsp pre (rop (fst p))).
           rewrite (Hpre p Hp). cbn [app find fst]. rewrite Eo, op_eqb_refl. reflexivity.
        -- destruct (IH2 d Hd) as (p & x' & i' & Hp & Ed & Hf). exists p, x', i'.
           split; [|split; assumption]. apply unwatch_in in Hp. tauto.
Qed.

Lemma spend_at_block : forall ch h blk o, nth_block ch h = Some blk ->
  spend_at ch o h = match fsp (spends_in blk) o with Some sp => Some (snd sp) | None => None end.
Proof. intros ch h blk o E. unfold spend_at, fsp. rewrite E. reflexivity. Qed.

Lemma nospend_ext : forall ch o a h, nospend ch o a h -> spend_at ch o h = None -> nospend ch o a (h + 1).
Proof.
  intros ch o a h N S h' Hh. destruct (Z.eq_dec h' h) as [->|Ne]; [exact S|apply N; lia].
Qed.

Lemma entry_ok_next : forall ch h p, entry_ok ch h p -> spend_at ch (rop (fst p)) h = None ->
  entry_ok ch (h + 1) p.
Proof.
  intros ch h p (B & N & R) S. split; [lia|]. split; [|exact R]. apply nospend_ext; assumption.
Qed.

(* ProcessBlock *)
Lemma finv_process_block : forall ch ff s blk nr h e,
  base ch ff s -> 0 <= h <= e -> e <= tip s -> nth_block ch h = Some blk ->
  Forall (entry_ok ch h) (act s) -> Forall (fun q => birth q = h) nr ->
  base ch ff (process_block s blk nr h) /\ Forall (entry_ok ch (h + 1)) (act (process_block s blk nr h)).
Proof.
  intros ch ff s blk nr h e (T & Q & L) Hh He Hb Fa Fn. unfold process_block.
  set (a1 := act s ++ map (fun q => (q, created_in blk h (rop q))) nr).
  assert (A1 : forall p, In p a1 ->
             0 <= birth (fst p) <= h /\ nospend ch (rop (fst p)) (birth (fst p)) h /\
             res_of (snd p) = created_at ch (birth (fst p)) (rop (fst p))).
  { intros p Hp. subst a1. apply in_app_or in Hp. destruct Hp as [Hp|Hp].
    - rewrite Forall_forall in Fa. destruct (Fa p Hp) as (B & N & R). repeat split; try lia; assumption.
    - apply in_map_iff in Hp. destruct Hp as [q [<- Hq]]. rewrite Forall_forall in Fn.
      specialize (Fn q Hq). cbn [fst snd]. rewrite Fn. repeat split; try lia.
      + intros h' Hh'. lia.
      + unfold created_at. rewrite Hb. reflexivity. }
  pose proof (notify_spends_spec h (tip s) (spends_in blk) [] a1 (fun p _ => eq_refl)) as [S1 S2].
  destruct (notify_spends h (tip s) (spends_in blk) a1) as [a2 d]. cbn [fst snd app] in *.
  split.
  - split; [exact T|]. split; [exact Q|]. cbn [log tip quit]. apply Forall_app. split; [exact L|].
    apply Forall_forall. intros dd Hd. destruct (S2 dd Hd) as (p & x & i & Hp & -> & Hf).
    destruct (A1 p Hp) as (B & N & R). split; [cbn; lia|]. right. right. cbn [fst snd dreq].
    split; [lia|]. symmetry. apply fate_spent with (h := h); try lia; [exact N|].
    rewrite (spend_at_block ch h blk _ Hb), Hf. reflexivity.
  - cbn [act]. apply Forall_forall. intros p Hp. destruct (S1 p Hp) as [Hp1 Hf].
    destruct (A1 p Hp1) as (B & N & R). split; [lia|]. split; [|exact R].
    apply nospend_ext; [exact N|]. rewrite (spend_at_block ch h blk _ Hb), Hf. reflexivity.
Qed.

(* NotifyUnspentAndUnfound at the true end of the scan *)
Lemma base_notify_unspent : forall ch ff s,
  base ch ff s -> Forall (entry_ok ch (tip s + 1)) (act s) -> base ch ff (notify_unspent s).
Proof.
  intros ch ff s (T & Q & L) F. split; [exact T|]. split; [exact Q|].
  cbn [notify_unspent log tip quit]. apply Forall_app. split; [exact L|].
  apply Forall_forall. intros d Hd. apply in_map_iff in Hd. destruct Hd as [p [<- Hp]].
  rewrite Forall_forall in F. destruct (F p Hp) as (B & N & R).
  split; [cbn; lia|]. right. right. cbn [fst snd dreq]. split; [lia|].
  fold (res_of (snd p)). rewrite R. symmetry. apply fate_unspent; [lia|exact N].
Qed.

(* truthfulness of negative filter answers along a history *)
Definition step_sound (ch : list block) (s : state) (o : op) : bool :=
  match o, pc s with
  | Step false false, Filt h e =>
    forallb (fun p => match spend_at ch (rop (fst p)) h with None => true | Some _ => false end) (act s)
  | _, _ => true
  end.
Fixpoint fsound (ch : list block) (s : state) (ops : list op) : bool :=
  match ops with
  | [] => true
  | o :: r => step_sound ch s o && fsound ch (step ch s o) r
  end.

Lemma Forall_filter : forall {A} (P : A -> Prop) f l, Forall P l -> Forall P (filter f l).
Proof.
  intros A P f l F. apply Forall_forall. intros x Hx. apply filter_In in Hx.
  rewrite Forall_forall in F. apply F. tauto.
Qed.

Lemma finv_scan_step : forall ch ff s f m,
  finv ch ff s -> step_sound ch s (Step f m) = true -> finv ch (ff || f) (scan_step ch s f m).
Proof.
  intros ch ff s f m [B S] Snd.
  assert (Bf : base ch (ff || f) s).
  { destruct B as (T & Q & L). split; [exact T|]. split; [exact Q|].
    eapply Forall_impl; [|exact L]. intros d J. eapply just_mono; eauto; [|lia].
    intros ->. reflexivity. }
  unfold scan_step. unfold scan_ok in S.
  destruct (pc s) as [| |h|h e|h e|h e nr|e|] eqn:P; try (split; [exact Bf|unfold scan_ok; rewrite P; exact S]).
  - (* Best0 *)
    destruct f.
    + apply base_to_manager. exact Bf.
    + destruct Bf as (T & Q & L). apply finv_loop_head; try (cbn; lia).
      * split; [exact T|]. split; [exact Q|exact L].
      * right. reflexivity.
      * constructor.
  - (* Hash *)
    destruct S as (Hh & He & Fa). destruct f.
    + apply base_to_manager. apply base_fail_remaining; [exact Bf|]. left. rewrite orb_true_r. auto.
    + unfold dequeue. cbn [fst snd].
      assert (B1 : base ch (ff || false)
        {| tip := tip s; quit := quit s; pc := pc s; pq := filter (fun r => h <? birth r) (pq s);
           nextb := nextb s ++ filter (fun r => birth r <? h) (pq s); act := act s; limbo := limbo s;
           nxt := nxt s; log := log s |}).
      { destruct Bf as (T & Q & L). split; [exact T|]. split; [|exact L]. cbn [pq nextb].
        apply Forall_app in Q. destruct Q as [Q1 Q2].
        apply Forall_app. split; [apply Forall_filter; exact Q1|].
        apply Forall_app. split; [exact Q2|apply Forall_filter; exact Q1]. }
      destruct (filter (fun r => birth r =? h) (pq s)) as [|n0 now'] eqn:F.
      * split; [exact B1|]. unfold scan_ok. cbn. repeat split; try lia. exact Fa.
      * cbn [quit]. destruct (quit s) eqn:Qt.
        -- apply base_to_manager. apply base_fail_remaining; [apply base_add_limbo; exact B1|].
           right. split; reflexivity.
        -- split; [exact B1|]. unfold scan_ok. cbn. repeat split; try lia; [exact Fa|].
           rewrite <- F. apply Forall_forall. intros q Hq. apply filter_In in Hq. lia.
  - (* Filt *)
    destruct S as (Hh & He & Fa). destruct f.
    + apply base_to_manager. apply base_fail_remaining; [exact Bf|]. left. rewrite orb_true_r. auto.
    + destruct m; cbn [negb].
      * destruct (quit s) eqn:Qt.
        -- apply base_to_manager. apply base_fail_remaining; [exact Bf|]. right. auto.
        -- split; [exact Bf|]. unfold scan_ok. cbn. repeat split; try lia; [exact Fa|constructor].
      * apply finv_loop_head; try lia; [exact Bf|].
        unfold step_sound in Snd. rewrite P in Snd. rewrite forallb_forall in Snd.
        apply Forall_forall. intros p Hp. rewrite Forall_forall in Fa.
        apply entry_ok_next; [apply Fa; exact Hp|].
        specialize (Snd p Hp). destruct (spend_at ch (rop (fst p)) h); [discriminate|reflexivity].
  - (* Blk *)
    destruct S as (Hh & He & Fa & Fn). destruct f.
    + apply base_to_manager. apply base_fail_remaining.
      * apply base_deliver; [exact Bf|]. left. rewrite orb_true_r. auto.
      * left. rewrite orb_true_r. auto.
    + destruct (quit s) eqn:Qt.
      * apply base_to_manager. apply base_fail_remaining; [apply base_add_limbo; exact Bf|]. right. auto.
      * destruct (nth_block ch h) as [blk|] eqn:Hb; [|split; [exact Bf|unfold scan_ok; rewrite P; auto]].
        destruct (finv_process_block ch (ff || false) s blk nr h e Bf Hh He Hb Fa Fn) as [B2 F2].
        destruct (process_block_frame s blk nr h) as (_ & _ & Tp & _).
        apply finv_loop_head; try lia; [exact B2|exact F2].
  - (* Best1 *)
    destruct S as (He & Fa). destruct f.
    + apply base_to_manager. apply base_fail_remaining; [exact Bf|]. left. rewrite orb_true_r. auto.
    + destruct (e <? tip s) eqn:E.
      * apply finv_loop_head; try lia; [exact Bf|exact Fa].
      * apply base_to_manager. apply base_notify_unspent; [exact Bf|].
        replace (tip s) with e by lia. exact Fa.
Qed.

Lemma finv_step : forall ch ff s o,
  finv ch ff s -> step_sound ch s o = true -> finv ch (ff || is_fail o) (step ch s o).
Proof.
  intros ch ff s o [B S] Snd.
  destruct o as [p b| |f m| | |]; cbn [step is_fail]; rewrite ?orb_false_r.
  - destruct (quit s || (b <? 0)) eqn:G; [split; assumption|].
    set (q0 := {| rid := nxt s; rop := p; birth := b |}).
    assert (B1 : base ch ff {| tip := tip s; quit := quit s; pc := pc s; pq := pq s ++ [q0]; nextb := nextb s;
                               act := act s; limbo := limbo s; nxt := nxt s + 1; log := log s |}).
    { destruct B as (T & Q & L). split; [exact T|]. split; [|exact L]. cbn [pq nextb].
      apply Forall_app in Q. destruct Q as [Q1 Q2]. apply Forall_app. split; [|exact Q2].
      apply Forall_app. split; [exact Q1|]. constructor; [cbn; lia|constructor]. }
    unfold scan_ok in S.
    destruct (pc s) eqn:P; try (split; [exact B1|unfold scan_ok; cbn [pc act tip]; exact S]).
    apply base_to_manager. exact B1.
  - destruct (pc s) eqn:P; try (split; [exact B|unfold scan_ok; rewrite P; unfold scan_ok in S; rewrite P in S; exact S]).
    apply base_to_manager. exact B.
  - replace (ff || (if f then true else false)) with (ff || f) by (destruct f; reflexivity).
    destruct f; apply finv_scan_step; try (split; assumption); exact Snd.
  - destruct (tip s + 1 <? Z.of_nat (length ch)) eqn:E; [|split; assumption].
    split.
    + destruct B as (T & Q & L). split; [cbn; lia|]. split; [exact Q|]. cbn [log tip quit].
      eapply Forall_impl; [|exact L]. intros d J. eapply just_mono; eauto; lia.
    + unfold scan_ok in *. cbn [pc act tip].
      destruct (pc s); try exact S; repeat split; try tauto; lia.
  - assert (B1 : base ch ff {| tip := tip s; quit := true; pc := pc s; pq := pq s; nextb := nextb s;
                               act := act s; limbo := limbo s; nxt := nxt s; log := log s |}).
    { destruct B as (T & Q & L). split; [exact T|]. split; [exact Q|]. cbn [log tip quit].
      eapply Forall_impl; [|exact L]. intros d J. eapply just_mono; eauto; lia. }
    unfold scan_ok in S.
    destruct (pc s) eqn:P; try (split; [exact B1|unfold scan_ok; cbn [pc act tip]; exact S]).
    apply base_to_manager. exact B1.
  - split; assumption.
Qed.

Lemma finv_run : forall ch ops ff s,
  finv ch ff s -> fsound ch s ops = true -> finv ch (ff || existsb is_fail ops) (run ch s ops).
Proof.
  intros ch ops. induction ops as [|o r IH]; intros ff s F Snd.
  - cbn. rewrite orb_false_r. exact F.
  - cbn [fsound] in Snd. apply andb_true_iff in Snd. destruct Snd as [S1 S2].
    cbn [run fold_left existsb]. rewrite orb_assoc. apply IH; [|exact S2].
    apply finv_step; assumption.
Qed.

Lemma finv_init : forall ch tip0, 0 <= tip0 < Z.of_nat (length ch) -> finv ch false (init tip0).
Proof.
  intros ch tip0 H. split; [|exact I]. split; [exact H|]. split; constructor.
Qed.

Lemma quit_run : forall ch ops s, quit (run ch s ops) = quit s || existsb is_stop ops.
Proof.
  intros ch ops. induction ops as [|o r IH]; intros s.
  - cbn. rewrite orb_false_r. reflexivity.
  - cbn [existsb]. change (run ch s (o :: r)) with (run ch (step ch s o) r).
    rewrite IH. destruct (step_quit_nxt ch s o) as [Q _]. rewrite Q.
    rewrite orb_assoc. reflexivity.
Qed.

Lemma result_is_fate : forall ch tip0 ops q r t,
  0 <= tip0 < Z.of_nat (length ch) -> fsound ch (init tip0) ops = true ->
  In (q, r, t) (log (run ch (init tip0) ops)) ->
  t <= tip (run ch (init tip0) ops) /\
  ((r = RErrFetch /\ existsb is_fail ops = true) \/
   (r = RErrShut /\ existsb is_stop ops = true) \/
   (0 <= birth q <= t /\ r = fate ch t (rop q) (birth q))).
Proof.
  intros ch tip0 ops q r t H0 Snd Hin.
  pose proof (finv_run ch ops false (init tip0) (finv_init ch tip0 H0) Snd) as [(T & Q & L) _].
  rewrite Forall_forall in L. specialize (L _ Hin). destruct L as [Lt J]. cbn [fst snd dreq] in *.
  split; [exact Lt|]. rewrite quit_run in J. cbn [init quit orb] in J. exact J.
Qed.

(* ------------------------------------------------------------------ *)
(* after shutdown nobody is waiting *)

Definition exited_ok (s : state) : Prop :=
  pc s = Exited -> quit s = true /\ pq s = [] /\ nextb s = [] /\ limbo s = [].

Lemma exited_to_manager : forall s, exited_ok (to_manager s).
Proof.
  intros s. unfold to_manager, exited_ok. destruct (quit s) eqn:Q.
  - cbn. auto.
  - destruct (min_birth (pq s ++ nextb s)); cbn; discriminate.
Qed.

Lemma exited_loop_head : forall s h e, exited_ok (loop_head s h e).
Proof.
  intros s h e. unfold loop_head. destruct (e <? h); [unfold exited_ok; cbn; discriminate|].
  destruct (quit s); [apply exited_to_manager|unfold exited_ok; cbn; discriminate].
Qed.

Lemma exited_scan_step : forall ch s f m, exited_ok s -> exited_ok (scan_step ch s f m).
Proof.
  intros ch s f m H. unfold scan_step.
  destruct (pc s) as [| |h|h e|h e|h e nr|e|] eqn:P; try exact H.
  - destruct f; [apply exited_to_manager|apply exited_loop_head].
  - destruct f; [apply exited_to_manager|].
    destruct (dequeue s h) as [s1 now]. destruct now; [unfold exited_ok; cbn; discriminate|].
    destruct (quit s1); [apply exited_to_manager|unfold exited_ok; cbn; discriminate].
  - destruct f; [apply exited_to_manager|]. destruct m; cbn [negb]; [|apply exited_loop_head].
    destruct (quit s); [apply exited_to_manager|unfold exited_ok; cbn; discriminate].
  - destruct f; [apply exited_to_manager|]. destruct (quit s); [apply exited_to_manager|].
    destruct (nth_block ch h); [apply exited_loop_head|unfold exited_ok; rewrite P; discriminate].
  - destruct f; [apply exited_to_manager|]. destruct (e <? tip s); [apply exited_loop_head|apply exited_to_manager].
Qed.

Lemma exited_step : forall ch s o, exited_ok s -> exited_ok (step ch s o).
Proof.
  intros ch s o H. destruct o as [p b| |f m| | |]; cbn [step].
  - destruct (quit s || (b <? 0)) eqn:G; [exact H|].
    destruct (pc s) eqn:P; try (unfold exited_ok; cbn [pc]; discriminate).
    + apply exited_to_manager.
    + destruct (H P) as [Q _]. rewrite Q in G. discriminate.
  - destruct (pc s) eqn:P; try exact H. apply exited_to_manager.
  - apply exited_scan_step. exact H.
  - destruct (tip s + 1 <? Z.of_nat (length ch)); exact H.
  - destruct (pc s) eqn:P; try (unfold exited_ok; cbn [pc]; discriminate).
    + apply exited_to_manager.
    + unfold exited_ok. cbn. intros _. destruct (H P) as (_ & A & B & C). auto.
  - exact H.
Qed.

Lemma exited_run : forall ch ops s, exited_ok s -> exited_ok (run ch s ops).
Proof.
  intros ch ops. induction ops as [|o r IH]; intros s H; [exact H|].
  cbn [run fold_left]. apply IH. apply exited_step. exact H.
Qed.

Lemma all_answered_after_shutdown : forall ch tip0 ops,
  let s := run ch (init tip0) ops in
  pc s = Exited -> waiting s = [] /\ Permutation (delivered s) (accepted ops).
Proof.
  intros ch tip0 ops s E.
  assert (X : exited_ok s) by (apply exited_run; unfold exited_ok; cbn; discriminate).
  destruct (X E) as (_ & A & B & C).
  pose proof (consv_run ch ops [] (init tip0) (consv_init tip0)) as [_ Q].
  fold s in Q. rewrite E in Q. specialize (Q eq_refl).
  assert (W : waiting s = []). { unfold waiting. rewrite A, B, C, Q, E. reflexivity. }
  split; [exact W|]. pose proof (conservation ch tip0 ops) as P. cbv zeta in P. fold s in P. rewrite W in P. exact P.
Qed.

(* ------------------------------------------------------------------ *)
(* requests the running scan has passed are taken up by the next batch *)

Lemma fold_min_le : forall l m, fold_left (fun m x => Z.min m (birth x)) l m <= m /\
  forall q, In q l -> fold_left (fun m x => Z.min m (birth x)) l m <= birth q.
Proof.
  induction l as [|x l IH]; intros m; cbn [fold_left]; [split; [lia|intros q []]|].
  destruct (IH (Z.min m (birth x))) as [A B]. split; [lia|].
  intros q [->|Hq]; [lia|apply B; exact Hq].
Qed.

Lemma min_birth_le : forall l h q, min_birth l = Some h -> In q l -> h <= birth q.
Proof.
  intros [|r l] h q E Hq; [discriminate|]. cbn in E. inversion E. subst h. clear E.
  destruct (fold_min_le l (birth r)) as [A B]. destruct Hq as [->|Hq]; [exact A|apply B; exact Hq].
Qed.

Lemma dequeue_defers : forall s h q, In q (pq s) -> birth q < h -> In q (nextb (fst (dequeue s h))).
Proof.
  intros s h q Hq Hb. unfold dequeue. cbn [fst nextb]. apply in_or_app. right.
  apply filter_In. split; [exact Hq|lia].
Qed.

Lemma dequeue_takes : forall s h q, In q (pq s) -> birth q = h -> In q (snd (dequeue s h)).
Proof.
  intros s h q Hq Hb. unfold dequeue. cbn [snd]. apply filter_In. split; [exact Hq|lia].
Qed.

Lemma next_batch : forall s q, quit s = false -> In q (pq s ++ nextb s) ->
  nextb (to_manager s) = [] /\ In q (pq (to_manager s)) /\
  exists h, pc (to_manager s) = Best0 h /\ h <= birth q.
Proof.
  intros s q Qt Hq. unfold to_manager. rewrite Qt.
  destruct (min_birth (pq s ++ nextb s)) as [h|] eqn:M.
  - cbn. split; [reflexivity|]. split; [exact Hq|]. exists h. split; [reflexivity|].
    eapply min_birth_le; eauto.
  - destruct (pq s ++ nextb s); [destruct Hq|discriminate].
Qed.
