(* C10 — replay of implementation traces against the model and the monitor.
   A case = (chain, script table, initial tip, list of (operation, observation
   on the real code)).  The script table names, for every output that pays the
   script of another outpoint, that outpoint (its script class); the watch list
   the scanner hands to the filter is a set of SCRIPTS, observed as classes. *)
From Coq Require Import ZArith List Bool.
From Verif Require Import C10.Model C10.Spec.
Import ListNotations.
Open Scope Z_scope.

Definition T (i : Z) (l : list outpoint) (n : Z) : tx := {| txid := i; ins := l; nouts := n |}.
Definition scripts := list (outpoint * outpoint).
Definition case := (list block * scripts * Z * list (op * obs))%type.

Definition repr (sc : scripts) (o : outpoint) : outpoint :=
  match find (fun p => op_eqb (fst p) o) sc with Some p => snd p | None => o end.

(* a negative filter answer is truthful for the requests the MODEL is watching *)
Definition neg_truthful (ch : list block) (s : state) (o : op) : bool :=
  match o, pc s with
  | Step false false, Filt h _ =>
    forallb (fun p => match spend_at ch (rop (fst p)) h with None => true | Some _ => false end) (act s)
  | _, _ => true
  end.

Definition pc_code (s : state) : Z * Z :=
  match pc s with
  | NotStarted => (7, 0) | Idle => (0, 0) | Best0 _ => (1, 0) | Hash h _ => (2, h)
  | Filt h _ => (3, h) | Blk h _ _ => (4, h) | Best1 _ => (1, 0) | Exited => (6, 0)
  end.

Definition sub_ops (a b : list outpoint) : bool := forallb (fun x => existsb (op_eqb x) b) a.
Definition d_eqb (a b : Z * result) : bool := (fst a =? fst b) && result_eqb (snd a) (snd b).
Definition sub_d (a b : list (Z * result)) : bool := forallb (fun x => existsb (d_eqb x) b) a.
Definition set_eq_d (a b : list (Z * result)) : bool :=
  (Nat.eqb (length a) (length b)) && sub_d a b && sub_d b a.

(* after Stop the real Result() picks at random between a delivered value and
   the closed quit channel: either the model's value or ErrShuttingDown *)
Definition fin_one (macc : list (Z * result)) (d : Z * result) : bool :=
  existsb (fun m => (fst m =? fst d) && (result_eqb (snd m) (snd d) || result_eqb (snd d) RErrShut)) macc.
Definition finish_ok (macc impl : list (Z * result)) : bool :=
  (Nat.eqb (length macc) (length impl)) && forallb (fin_one macc) impl &&
  forallb (fun m => existsb (fun d => fst m =? fst d) impl) macc.

Fixpoint replay (ch : list block) (sc : scripts) (s : state) (stopped : bool) (macc : list (Z * result)) (i : Z)
         (tr : list (op * obs)) : option Z :=
  match tr with
  | [] => None
  | (o, ob) :: rest =>
    let s' := step ch s o in
    let md := map (fun d => (rid (fst (fst d)), snd (fst d))) (skipn (length (log s)) (log s')) in
    let stopped' := stopped || is_stop o in
    let '(k, h) := pc_code s' in
    let pc_ok := (k =? opc ob) && (h =? oh ob) &&
                 (if k =? 3 then sub_ops (map (repr sc) (watchlist s')) (owl ob) &&
                                 sub_ops (owl ob) (map (repr sc) (watchlist s')) else true) &&
                 neg_truthful ch s o &&
                 Bool.eqb (oacc ob) (match o with Enq _ _ => nxt s' =? nxt s + 1 | _ => true end) in
    let del_ok := if is_finish o then finish_ok (macc ++ md) (odel ob)
                  else if stopped' then match odel ob with [] => true | _ => false end
                  else set_eq_d md (odel ob) in
    if pc_ok && del_ok
    then replay ch sc s' stopped' (if stopped' then macc ++ md else []) (i + 1) rest
    else Some i
  end.

(* rows (case id, kind, step, tag): kind 1 = model and implementation differ,
   kind 2 = the monitor rejects the implementation trace.  No open root
   cause is modelled (F06, F07 are repaired), so the tag is always 0. *)
Definition verdict (c : Z * case) : list (Z * Z * Z * Z) :=
  let '(id, (ch, sc, tip0, tr)) := c in
  (match replay ch sc (init tip0) false [] 0 tr with Some i => [(id, 1, i, 0)] | None => [] end) ++
  (match first_bad ch (mon0 tip0) 0 tr with Some i => [(id, 2, i, 0)] | None => [] end).

Definition run_cases (cs : list (Z * case)) : list (Z * Z * Z * Z) := flat_map verdict cs.

(* short constructor name used by the generated cases files (shadows nat's O there only) *)
Definition O := MkObs.
