(* C10 — executable model of neutrino's UtxoScanner (utxoscanner.go) and
   batchSpendReporter (batch_spend_reporter.go), as repaired for F06/F07
   (see known_findings/C10.json).  No proofs in this file.

   Granularity: the scanner goroutine is a program-counter machine whose
   states are the points where it calls out to the chain (BestSnapshot,
   GetBlockHash, BlockFilterMatches, GetBlock).  One [Step] runs it from the
   return of the pending call to the next call.  Enqueue / new block / Stop
   happen between steps, i.e. at any of these points; this covers every
   interleaving that matters because the scanner thread touches the shared
   queue only in batchManager's locked section and in dequeueAtHeight, and
   reads the tip / the quit channel only at the modelled points.

   Representation: b.requests (map outpoint -> []*request), b.initialTxns
   (map request -> report, after the F07 repair) and b.outpoints (map
   outpoint -> script) are kept as ONE list of (request, initial report);
   requests[o] is the sub-list with outpoint o, the watch list is the set of
   outpoints occurring in it.  Deliveries inside one call are compared as
   sets, so Go's map iteration order does not enter. *)
From Coq Require Import ZArith List Bool.
Import ListNotations.
Open Scope Z_scope.

Definition outpoint := (Z * Z)%type.                 (* txid token, output index *)
Definition op_eqb (a b : outpoint) : bool := (fst a =? fst b) && (snd a =? snd b).

Record tx := { txid : Z; ins : list outpoint; nouts : Z }.
Definition block := list tx.

Record req := { rid : Z; rop : outpoint; birth : Z }.

Inductive result :=
  | RSpent (by_tx : Z) (input_index : Z) (height : Z)
  | RUnspent (height : Z) (tx_index : Z) (of_tx : Z) (out_index : Z)
  | REmpty                       (* nil report, nil error *)
  | RErrFetch                    (* the error returned by a chain callback *)
  | RErrShut                     (* ErrShuttingDown *)
  | RHang.                       (* implementation only: Result did not return *)

Inductive pcT :=
  | NotStarted
  | Idle                                   (* batchManager waits on the condition variable *)
  | Best0 (h : Z)                          (* scanFromHeight(h): first BestSnapshot pending *)
  | Hash (h e : Z)                         (* GetBlockHash(h) pending, e = endHeight *)
  | Filt (h e : Z)                         (* BlockFilterMatches pending *)
  | Blk (h e : Z) (newReqs : list req)     (* GetBlock pending *)
  | Best1 (e : Z)                          (* BestSnapshot after the range pending *)
  | Exited.

(* one delivered result: request, value, chain tip when it was delivered *)
Definition dl := (req * result * Z)%type.

Record state := {
  tip : Z;                         (* height of the best block the callbacks report *)
  quit : bool;                     (* s.quit closed *)
  pc : pcT;
  pq : list req;                   (* s.pq *)
  nextb : list req;                (* s.nextBatch *)
  act : list (req * option result);(* reporter: requests with their initial report *)
  limbo : list req;                (* dequeued, then dropped on a shutdown path: Result returns via quit *)
  nxt : Z;                         (* number of accepted requests = next request id *)
  log : list dl                    (* every delivery, oldest first *)
}.

Definition init (tip0 : Z) : state :=
  {| tip := tip0; quit := false; pc := NotStarted; pq := []; nextb := []; act := [];
     limbo := []; nxt := 0; log := [] |}.

Inductive op :=
  | Enq (o : outpoint) (b : Z)      (* Enqueue(outpoint, BirthHeight) *)
  | Start
  | Step (fail : bool) (fm : bool)  (* pending callback returns; fail: with an error; fm: filter answer *)
  | NewBlock
  | Stop
  | Finish.                         (* harness only: collect what is left; no effect *)

Definition set_pc (s : state) (p : pcT) : state :=
  {| tip := tip s; quit := quit s; pc := p; pq := pq s; nextb := nextb s; act := act s;
     limbo := limbo s; nxt := nxt s; log := log s |}.

(* request.deliver for a group of requests *)
Definition deliver (s : state) (rs : list req) (r : result) : state :=
  {| tip := tip s; quit := quit s; pc := pc s; pq := pq s; nextb := nextb s; act := act s;
     limbo := limbo s; nxt := nxt s; log := log s ++ map (fun q => (q, r, tip s)) rs |}.

(* ---------------- batchSpendReporter ---------------- *)

(* reporter.FailRemaining(err) *)
Definition fail_remaining (s : state) (e : result) : state :=
  let s1 := deliver s (map fst (act s)) e in
  {| tip := tip s1; quit := quit s1; pc := pc s1; pq := pq s1; nextb := nextb s1; act := [];
     limbo := limbo s1; nxt := nxt s1; log := log s1 |}.

(* reporter.NotifyUnspentAndUnfound *)
Definition notify_unspent (s : state) : state :=
  {| tip := tip s; quit := quit s; pc := pc s; pq := pq s; nextb := nextb s; act := [];
     limbo := limbo s; nxt := nxt s;
     log := log s ++ map (fun p => (fst p, match snd p with Some r => r | None => REmpty end, tip s)) (act s) |}.

(* position and body of the first transaction of the block with this id *)
Fixpoint tx_index_of (blk : block) (t : Z) (i : Z) : option (Z * tx) :=
  match blk with
  | [] => None
  | x :: r => if txid x =? t then Some (i, x) else tx_index_of r t (i + 1)
  end.

(* findInitialTransactions, per request: the output if this block creates it *)
Definition created_in (blk : block) (h : Z) (o : outpoint) : option result :=
  match tx_index_of blk (fst o) 0 with
  | Some (i, x) => if (snd o <? 0) || (snd o >=? nouts x) then None
                   else Some (RUnspent h i (fst o) (snd o))
  | None => None
  end.

(* the inputs of a block in scan order: (spent outpoint, (spending tx, input index)) *)
Fixpoint tx_spends (t : Z) (i : Z) (l : list outpoint) : list (outpoint * (Z * Z)) :=
  match l with
  | [] => []
  | o :: r => (o, (t, i)) :: tx_spends t (i + 1) r
  end.
Definition spends_in (blk : block) : list (outpoint * (Z * Z)) :=
  flat_map (fun x => tx_spends (txid x) 0 (ins x)) blk.

Definition watching (a : list (req * option result)) (o : outpoint) : list (req * option result) :=
  filter (fun p => op_eqb (rop (fst p)) o) a.
Definition unwatch (a : list (req * option result)) (o : outpoint) : list (req * option result) :=
  filter (fun p => negb (op_eqb (rop (fst p)) o)) a.

(* notifySpends: every input whose outpoint still has requests is reported to
   all of them, and the outpoint is dropped *)
Fixpoint notify_spends (h t : Z) (sps : list (outpoint * (Z * Z)))
         (a : list (req * option result)) : list (req * option result) * list dl :=
  match sps with
  | [] => (a, [])
  | (o, (x, i)) :: rest =>
    match watching a o with
    | [] => notify_spends h t rest a
    | w => let '(a', d) := notify_spends h t rest (unwatch a o) in
           (a', map (fun p => (fst p, RSpent x i h, t)) w ++ d)
    end
  end.

(* reporter.ProcessBlock(block, newReqs, height) *)
Definition process_block (s : state) (blk : block) (newReqs : list req) (h : Z) : state :=
  let a1 := act s ++ map (fun q => (q, created_in blk h (rop q))) newReqs in
  let '(a2, d) := notify_spends h (tip s) (spends_in blk) a1 in
  {| tip := tip s; quit := quit s; pc := pc s; pq := pq s; nextb := nextb s; act := a2;
     limbo := limbo s; nxt := nxt s; log := log s ++ d |}.

(* the current watch list (b.filterEntries), as outpoints *)
Definition watchlist (s : state) : list outpoint := map (fun p => rop (fst p)) (act s).

(* ---------------- UtxoScanner ---------------- *)

Definition min_birth (l : list req) : option Z :=
  match l with
  | [] => None
  | r :: t => Some (fold_left (fun m x => Z.min m (birth x)) t (birth r))
  end.

(* batchManager, from the top of its loop to the next callback / wait / exit.
   On exit Stop() drains the queue with ErrShuttingDown; requests in limbo
   get the same error from Result's quit case. *)
Definition to_manager (s : state) : state :=
  let p := pq s ++ nextb s in
  let s1 := {| tip := tip s; quit := quit s; pc := pc s; pq := p; nextb := []; act := act s;
               limbo := limbo s; nxt := nxt s; log := log s |} in
  if quit s then
    let s2 := deliver s1 (p ++ limbo s1) RErrShut in
    {| tip := tip s2; quit := true; pc := Exited; pq := []; nextb := []; act := act s2;
       limbo := []; nxt := nxt s2; log := log s2 |}
  else
    match min_birth p with
    | None => set_pc s1 Idle
    | Some h => set_pc s1 (Best0 h)
    end.

(* dequeueAtHeight *)
Definition dequeue (s : state) (h : Z) : state * list req :=
  let old := filter (fun r => birth r <? h) (pq s) in
  let now := filter (fun r => birth r =? h) (pq s) in
  let rest := filter (fun r => h <? birth r) (pq s) in
  ({| tip := tip s; quit := quit s; pc := pc s; pq := rest; nextb := nextb s ++ old; act := act s;
      limbo := limbo s; nxt := nxt s; log := log s |}, now).

Definition add_limbo (s : state) (l : list req) : state :=
  {| tip := tip s; quit := quit s; pc := pc s; pq := pq s; nextb := nextb s; act := act s;
     limbo := limbo s ++ l; nxt := nxt s; log := log s |}.

(* head of the per-height loop of scanFromHeight *)
Definition loop_head (s : state) (h e : Z) : state :=
  if e <? h then set_pc s (Best1 e)
  else if quit s then to_manager (fail_remaining s RErrShut)
  else set_pc s (Hash h e).

Definition clear_act (s : state) : state :=
  {| tip := tip s; quit := quit s; pc := pc s; pq := pq s; nextb := nextb s; act := [];
     limbo := limbo s; nxt := nxt s; log := log s |}.

Definition nth_block (ch : list block) (h : Z) : option block :=
  if (0 <=? h) && (h <? Z.of_nat (length ch)) then nth_error ch (Z.to_nat h) else None.

Definition scan_step (ch : list block) (s : state) (fail fm : bool) : state :=
  match pc s with
  | NotStarted | Idle | Exited => s
  | Best0 h =>
    if fail then to_manager s                       (* return err: nobody is in the reporter yet *)
    else loop_head (clear_act s) h (tip s)
  | Hash h e =>
    if fail then to_manager (fail_remaining s RErrFetch)
    else
      let '(s1, newReqs) := dequeue s h in
      match newReqs with
      | [] => set_pc s1 (Filt h e)
      | _ => if quit s1 then to_manager (fail_remaining (add_limbo s1 newReqs) RErrShut)
             else set_pc s1 (Blk h e newReqs)
      end
  | Filt h e =>
    if fail then to_manager (fail_remaining s RErrFetch)
    else if negb fm then loop_head s (h + 1) e
    else if quit s then to_manager (fail_remaining s RErrShut)
    else set_pc s (Blk h e [])
  | Blk h e newReqs =>
    if fail then to_manager (fail_remaining (deliver s newReqs RErrFetch) RErrFetch)   (* F06 repair *)
    else if quit s then to_manager (fail_remaining (add_limbo s newReqs) RErrShut)
    else
      match nth_block ch h with
      | None => s                                   (* unreachable: h <= e <= tip < length ch (Proofs.v) *)
      | Some blk => loop_head (process_block s blk newReqs h) (h + 1) e
      end
  | Best1 e =>
    if fail then to_manager (fail_remaining s RErrFetch)
    else if e <? tip s then loop_head s (e + 1) (tip s)
    else to_manager (notify_unspent s)
  end.

Definition step (ch : list block) (s : state) (o : op) : state :=
  match o with
  | Enq o b =>
    if quit s || (b <? 0) then s                     (* ErrShuttingDown / not a uint32 *)
    else
      let q := {| rid := nxt s; rop := o; birth := b |} in
      let s1 := {| tip := tip s; quit := quit s; pc := pc s; pq := pq s ++ [q]; nextb := nextb s;
                   act := act s; limbo := limbo s; nxt := nxt s + 1; log := log s |} in
      match pc s with
      | Idle => to_manager s1                        (* the waiting batchManager wakes up *)
      | _ => s1
      end
  | Start => match pc s with NotStarted => to_manager s | _ => s end
  | Step fail fm => scan_step ch s fail fm
  | NewBlock =>
    if tip s + 1 <? Z.of_nat (length ch) then
      {| tip := tip s + 1; quit := quit s; pc := pc s; pq := pq s; nextb := nextb s; act := act s;
         limbo := limbo s; nxt := nxt s; log := log s |}
    else s
  | Stop =>
    let s1 := {| tip := tip s; quit := true; pc := pc s; pq := pq s; nextb := nextb s; act := act s;
                 limbo := limbo s; nxt := nxt s; log := log s |} in
    match pc s with
    | Idle => to_manager s1
    | _ => s1
    end
  | Finish => s
  end.

Definition run (ch : list block) (s : state) (ops : list op) : state := fold_left (step ch) ops s.
