(* C10 — the filter adapter.  The scanner (and the rescan) learn whether a
   block can be skipped from blockFilterMatches (rescan.go), which turns the
   outcome of GetCFilter into match / no match / error.  "No match" makes the
   scanner skip the block for good, so it is the dangerous answer: the model
   of the scanner assumes the filter oracle has no false negatives
   (C10_result_is_fate), and this file states what the adapter contributes to
   that assumption: a filter that could not be fetched is never reported as
   "no match" — except for the hash-not-found error, which means the block
   was reorganised out. *)
From Coq Require Import ZArith List Bool.
Import ListNotations.
Open Scope Z_scope.

(* outcome of chain.GetCFilter *)
Inductive fetch :=
| FOk (n : Z) (matches : bool)   (* filter with n elements; does the watch list match it *)
| FHashNotFound                  (* headerfs.ErrHashNotFound *)
| FFetchFailed                   (* ErrFilterFetchFailed: no peer delivered the filter *)
| FOther.                        (* any other error *)

Inductive ares := AMatch | ANoMatch | AErr.

Definition adapter (f : fetch) : ares :=
  match f with
  | FOk n m => if n =? 0 then ANoMatch else if m then AMatch else ANoMatch
  | FHashNotFound => ANoMatch
  | FFetchFailed => AErr
  | FOther => AErr
  end.

Lemma adapter_no_silent_miss f :
  adapter f = ANoMatch ->
  (exists n m, f = FOk n m /\ (n = 0 \/ m = false)) \/ f = FHashNotFound.
Proof.
  destruct f as [n m| | |]; cbn; intros H; try discriminate.
  - left. exists n, m. split; [reflexivity|].
    destruct (n =? 0) eqn:E; [left; apply Z.eqb_eq; exact E|].
    destruct m; [discriminate|right; reflexivity].
  - right. reflexivity.
Qed.

Lemma adapter_fetched_filter_decides n m :
  n <> 0 -> adapter (FOk n m) = if m then AMatch else ANoMatch.
Proof. intros Hn. cbn. destruct (n =? 0) eqn:E; [apply Z.eqb_eq in E; contradiction|reflexivity]. Qed.

(* replay of the table the harness records on the real function:
   rows (row number, kind 3, 0, 0) for every disagreement *)
Definition ares_eqb (a b : ares) : bool :=
  match a, b with AMatch, AMatch | ANoMatch, ANoMatch | AErr, AErr => true | _, _ => false end.

Fixpoint adapter_rows (i : Z) (t : list (fetch * ares)) : list (Z * Z * Z * Z) :=
  match t with
  | [] => []
  | (f, r) :: rest =>
    (if ares_eqb (adapter f) r then [] else [(i, 3, 0, 0)]) ++ adapter_rows (i + 1) rest
  end.
