(* C04 — with one honest peer the client converges on the true best chain.
   Statements only; proofs are in C04/Proofs.v over the shared invariant
   S2/Invariant.v and the handler lemmas of C02/Proofs.v.

   PARTIAL (see C04/Spec.v): the theorems are about the block-manager model
   S2 (handler level, tree with the fixes for F01, F02, F14, F17, F26).  They
   say what happens whenever a message is PROCESSED.  When and whether the
   real client asks the honest peer (sync-peer selection, inv-triggered
   getheaders, stall detection, query timeouts), and the whole filter-header
   side, are not modelled; they are exercised end to end by the netsim
   scenarios of harness/cmd/c04net and judged by the monitor C04net/Replay.v.

   Hypotheses shared with C01/C02 (see C01/Properties.v): wf_params,
   no_collision (hash tokens identify headers — here taken over the history
   TOGETHER with the honest peer's chain H, written as a pseudo message
   [OHeaders p _ H] appended to the history), wf_hist (messages shorter than
   the in-memory window, no externally invoked rollback, fewer than 1000000
   headers).  The honest peer: [honest_at P H now] — H is a valid chain from
   the genesis block for a client checking at clock reading [now], matching
   every checkpoint it reaches; it answers with [honest_reply H k n], the at
   most n headers of H after height k. *)
From stdpp Require Import list.
From Coq Require Import ZArith Lia.
From Verif Require Import S2.Model C01.Spec C02.Spec S2.Basics S2.Invariant C01.Proofs C02.Proofs C04.Spec C04.Proofs.
Open Scope Z_scope.

(* (a) SAFETY.  At every instant (after every prefix [pre] of every history)
   BestBlock succeeds and reports the header x at height
   h = min(filter-header tip, block-header tip); a filter header is committed
   at that height; the client's whole chain, with the clock readings at
   which its headers were accepted, is a valid chain from the genesis block,
   and so is its part up to and including the reported block. *)
Theorem C04_best_block_always_valid : forall P gfh pre post,
  wf_params P -> no_collision P (pre ++ post) -> wf_hist P (pre ++ post) ->
  let s := run P (init_state P gfh) pre in
  exists h x f times,
    best_block s = Some (h, x) /\
    h = Z.min (zlen (fchain s) - 1) (tip_height s) /\ 0 <= h /\
    at_h (chain s) h = Some x /\ at_h (fchain s) h = Some f /\
    length times = length (chain s) /\ Forall (fun t => t ∈ hist_nows pre) (tail times) /\
    valid_chain P (zip (chain s) times) = true /\
    valid_chain P (take (Z.to_nat (h + 1)) (zip (chain s) times)) = true.
Proof. exact best_block_always_valid. Qed.
Print Assumptions C04_best_block_always_valid.

(* (b1) One processed honest answer, the client's chain being a prefix of H
   (the getheaders then carries the client's tip, which the honest peer
   has): the chain becomes the longer prefix of H — extended by the answer up
   to and including the first header on a checkpoint height — from ANY peer
   (no condition on sync peer / synced).  Strictly longer unless already H. *)
Theorem C04_honest_round_extends : forall P gfh ops H p now n,
  let s := run P (init_state P gfh) ops in
  wf_params P -> no_collision P (ops ++ [OHeaders p now H]) -> wf_hist P ops ->
  zlen H <= 1000000 -> honest_at P H now = true -> (1 <= n)%nat -> Z.of_nat n < memCap P ->
  chain s `prefix_of` H ->
  let msg := honest_reply H (tip_height s) n in
  let s' := step P s (honest_round H p now n s) in
  chain s' = chain s ++ upto_checkpoint P (tip_height s) msg /\
  chain s' `prefix_of` H /\
  (chain s = H \/ zlen (chain s) < zlen (chain s')).
Proof. exact honest_round_extends. Qed.
Print Assumptions C04_honest_round_extends.

(* (b2) Convergence, uninterleaved.  The measure is the number of headers of
   H the client lacks: it decreases by at least one with every processed
   honest answer, so from any prefix of H at most |H| - |chain| answers reach
   H, whatever the batch limits n >= 1 and the checkpoint cuts. *)
Theorem C04_converges_from_prefix : forall P gfh ops H p rounds,
  wf_params P -> no_collision P (ops ++ [OHeaders p 0 H]) -> wf_hist P ops ->
  zlen H <= 1000000 -> Forall (round_ok P H) rounds ->
  let s0 := run P (init_state P gfh) ops in
  chain s0 `prefix_of` H ->
  let s := honest_run P H p rounds s0 in
  chain s `prefix_of` H /\
  Z.min (zlen H) (zlen (chain s0) + zlen rounds) <= zlen (chain s) /\
  (zlen H - zlen (chain s0) <= zlen rounds -> chain s = H).
Proof. exact converges_from_prefix. Qed.
Print Assumptions C04_converges_from_prefix.

(* (b3) Convergence with arbitrary operations of OTHER peers interleaved in
   any order — PARTIAL: for other peers that offer no header which is a valid
   successor of a prefix of H without being a header of H (invalid or
   unconnected headers, garbage, duplicates of honest data, inv, connects,
   disconnects: [other_ok]).  Such operations never take the client off H and
   never shorten its chain, so the same measure works.  MISSING: other peers
   serving VALID lighter branches in between; then the client can be moved
   off H (legally: C02) and the next honest answer is a reorganisation —
   C04_reorg_to_heavier_honest_chain covers that step from every reachable
   state, but a bound on the number of such steps is not proved (it would
   need the sync-peer/synced gate and, because of F27, more than total work
   as the measure). *)
Theorem C04_converges_interleaved_partial : forall P gfh ops H p now0 sch,
  wf_params P -> no_collision P (ops ++ sched_ops sch ++ [OHeaders p 0 H]) -> wf_hist P ops ->
  zlen H + ops_size (sched_ops sch) <= 1000000 -> honest_at P H now0 = true ->
  Forall (round_ok P H) (sched_rounds sch) -> Forall (other_ok P H) (sched_ops sch) ->
  let s0 := run P (init_state P gfh) ops in
  chain s0 `prefix_of` H ->
  let s := sched_run P H p sch s0 in
  chain s `prefix_of` H /\
  Z.min (zlen H) (zlen (chain s0) + honest_count sch) <= zlen (chain s) /\
  (zlen H - zlen (chain s0) <= honest_count sch -> chain s = H).
Proof. exact converges_interleaved. Qed.
Print Assumptions C04_converges_interleaved_partial.

(* ... in particular a client that reports H keeps reporting it *)
Theorem C04_stays_on_best_chain : forall P gfh ops H p now0 sch,
  wf_params P -> no_collision P (ops ++ sched_ops sch ++ [OHeaders p 0 H]) -> wf_hist P ops ->
  zlen H + ops_size (sched_ops sch) <= 1000000 -> honest_at P H now0 = true ->
  Forall (round_ok P H) (sched_rounds sch) -> Forall (other_ok P H) (sched_ops sch) ->
  chain (run P (init_state P gfh) ops) = H ->
  chain (sched_run P H p sch (run P (init_state P gfh) ops)) = H.
Proof. exact stays_on_best_chain. Qed.
Print Assumptions C04_stays_on_best_chain.

(* (b4) Growth of the honest chain: from H the same argument reaches
   H ++ ext in at most |ext| processed answers, never leaving H on the way. *)
Theorem C04_keeps_following_growth : forall P gfh ops H ext p rounds,
  wf_params P -> no_collision P (ops ++ [OHeaders p 0 (H ++ ext)]) -> wf_hist P ops ->
  zlen (H ++ ext) <= 1000000 -> Forall (round_ok P (H ++ ext)) rounds ->
  let s0 := run P (init_state P gfh) ops in
  chain s0 = H ->
  let s := honest_run P (H ++ ext) p rounds s0 in
  H `prefix_of` chain s /\ chain s `prefix_of` (H ++ ext) /\
  (zlen ext <= zlen rounds -> chain s = H ++ ext).
Proof. exact keeps_following_growth. Qed.
Print Assumptions C04_keeps_following_growth.

(* (b5) The client on another valid chain (a lighter fork, or the old honest
   chain after a reorganisation on the honest side): its chain and H agree
   below height m and differ at m.  The honest answer starts at a height
   k < m the two have in common (locator) and reaches beyond the fork point.
   If the message is looked at (sync peer or synced: [gate_open]), H reaches
   the newest checkpoint the client has reached (then the fork point is not
   below it, because both chains match the checkpoints:
   fork_above_checkpoint), and the new part of the answer has more work than
   the headers it displaces, the client's chain becomes a prefix of H longer
   than the common part: the common part followed by the new headers up to
   and including the first one on a checkpoint height (the truncation of
   F27; the next answer continues by C04_honest_round_extends). *)
Theorem C04_reorg_to_heavier_honest_chain : forall P gfh ops H p now n k m,
  let s := run P (init_state P gfh) ops in
  let o := OHeaders p now (honest_reply H k n) in
  wf_params P -> no_collision P (ops ++ [OHeaders p now H]) -> wf_hist P (ops ++ [o]) ->
  zlen H <= 1000000 -> honest_at P H now = true -> Z.of_nat n < memCap P ->
  let c := chain s in
  1 <= m < zlen c -> m < zlen H -> take (Z.to_nat m) c = take (Z.to_nat m) H ->
  (forall x y, at_h c m = Some x -> at_h H m = Some y -> hid x <> hid y) ->
  0 <= k < m -> m - k - 1 < Z.of_nat n ->
  gate_open P now p s ->
  reached_cp P c < zlen H ->
  let new := take (n - Z.to_nat (m - k - 1)) (drop (Z.to_nat m) H) in
  work_of (drop (Z.to_nat m) c) < work_of new ->
  let s' := step P s o in
  chain s' = take (Z.to_nat m) H ++ upto_checkpoint P (m - 1) new /\
  chain s' `prefix_of` H /\ m < zlen (chain s').
Proof. exact reorg_to_heavier_honest_chain. Qed.
Print Assumptions C04_reorg_to_heavier_honest_chain.

(* Non-vacuity: the hypotheses hold for a concrete parameter set, honest chain
   100,101,102,103 and histories; two honest answers of one header each bring
   the client from 100,101 to H, also with garbage of other peers in between
   (which satisfies [other_ok]); a client on the lighter valid fork
   100,101,202 (served by a peer that has gone away) is reorganised to H by
   one honest answer starting at the genesis block; the best block is the
   genesis block while no filter header is committed. *)
Example C04_nonvacuous :
  let P := ex_P [] in
  let s0 := run P (init_state P 7) nv_ops in
  let sf := run P (init_state P 7) nv_fork_ops in
  let o := OHeaders 1 ex_now (honest_reply nv_H 0 3) in
  wf_params P /\ no_collision P (nv_ops ++ sched_ops nv_sched ++ [OHeaders 1 0 nv_H]) /\ wf_hist P nv_ops /\
  honest_at P nv_H ex_now = true /\ Forall (round_ok P nv_H) (sched_rounds nv_sched) /\
  Forall (other_ok P nv_H) (sched_ops nv_sched) /\
  chain s0 `prefix_of` nv_H /\ map hid (chain s0) = [100; 101] /\
  map hid (chain (honest_run P nv_H 1 [(ex_now, 1%nat); (ex_now, 1%nat)] s0)) = [100; 101; 102; 103] /\
  map hid (chain (sched_run P nv_H 1 nv_sched s0)) = [100; 101; 102; 103] /\
  no_collision P (nv_fork_ops ++ [OHeaders 1 ex_now nv_H]) /\ wf_hist P (nv_fork_ops ++ [o]) /\
  map hid (chain sf) = [100; 101; 202] /\ ~ chain sf `prefix_of` nv_H /\
  take 2 (chain sf) = take 2 nv_H /\ gate_open P ex_now 1 sf /\
  work_of (drop 2 (chain sf)) < work_of (take 2 (drop 2 nv_H)) /\
  map hid (chain (step P sf o)) = [100; 101; 102; 103] /\
  option_map (fun b => (b.1, hid b.2)) (best_block (step P sf o)) = Some (0, 100) /\
  (* the gate matters: with the fork's peer still the sync peer and the tip
     older than a day, the same answer of peer 1 is ignored *)
  let sg := run P (init_state P 7) nv_fork_ops0 in
  ~ gate_open P ex_now 1 sg /\ map hid (chain (step P sg o)) = [100; 101; 202].
Proof.
  cbv zeta.
  split; [split; cbn; lia|].
  split; [apply no_collision_b_sound; vm_compute; reflexivity|].
  split; [apply wf_hist_intro; vm_compute; [reflexivity|discriminate]|].
  split; [vm_compute; reflexivity|].
  split; [repeat constructor; vm_compute; try reflexivity; lia|].
  split.
  { assert (Hoff : forall x, (forall j, (1 <= j <= 4)%nat -> valid_next (ex_P []) (take j nv_H) ex_now x = false) ->
                      forall y j, y ∈ [x] -> (1 <= j <= length nv_H)%nat ->
                      valid_next (ex_P []) (take j nv_H) ex_now y = true -> y ∈ nv_H).
    { intros x Hx y j Hy%elem_of_list_singleton Hj Hv. subst y. rewrite Hx in Hv; [done|exact Hj]. }
    assert (Hfour : forall (Q : nat -> Prop), Q 1%nat -> Q 2%nat -> Q 3%nat -> Q 4%nat -> forall j, (1 <= j <= 4)%nat -> Q j).
    { intros Q ? ? ? ? j Hj. destruct j as [|[|[|[|[|j]]]]]; try done; lia. }
    change (sched_ops nv_sched) with [OHeaders 3 ex_now [ex_bad4]; ONewPeer 4 0 99 true; OHeaders 3 ex_now [ex_mk 999 555 3000]].
    apply Forall_cons. split; [split; [vm_compute; reflexivity|]|].
    { cbn [no_valid_offchain]. apply Hoff. apply Hfour; vm_compute; reflexivity. }
    apply Forall_cons. split; [split; exact I|].
    apply Forall_cons. split; [split; [vm_compute; reflexivity|]|apply Forall_nil; exact I].
    cbn [no_valid_offchain]. apply Hoff. apply Hfour; vm_compute; reflexivity. }
  split; [exists [ex_h2; ex_h3]; vm_compute; reflexivity|].
  split; [vm_compute; reflexivity|].
  split; [vm_compute; reflexivity|].
  split; [vm_compute; reflexivity|].
  split; [apply no_collision_b_sound; vm_compute; reflexivity|].
  split; [apply wf_hist_intro; vm_compute; [reflexivity|discriminate]|].
  split; [vm_compute; reflexivity|].
  split; [intros [k Hk]; vm_compute in Hk; discriminate|].
  split; [vm_compute; reflexivity|].
  split; [vm_compute; reflexivity|].
  split; [vm_compute; reflexivity|].
  split; [vm_compute; reflexivity|].
  split; [vm_compute; reflexivity|].
  split; [vm_compute; discriminate|vm_compute; reflexivity].
Qed.
