(* C04 — with one honest peer the client converges on the true best chain.
   The property in its own vocabulary, on plain lists and on the
   block-manager model S2 (no proofs here).

   PARTIAL for this technique.  What is stated and proved here is the LOGIC
   of header sync at the level of the message handlers (S2.Model):
     (a) the block the client reports as best is always on a valid chain;
     (b) whenever the answer of a peer that holds the most-work valid chain H
         is PROCESSED, the client's chain becomes a longer prefix of H, also
         from a lighter valid fork, so that |H| processed answers suffice.
   What is NOT modelled, and therefore not proved: when and whether the real
   client ASKS the honest peer at all — sync-peer selection and replacement
   (startSync, handleNewPeerMsg, handleDonePeerMsg), getheaders triggered by
   an inv (handleInvMsg), btcd's stall detection, the query timeouts and
   retries of the work manager, connection management — and the whole filter
   header side (cfHandler, getCheckpointedCFHeaders, resolveConflict: C03).
   That end-to-end behaviour is exercised by netsim scenarios
   (harness/cmd/c04net: a full ChainService against one honest and 0-3
   misbehaving scripted nodes) and judged by the monitor C04net/Replay.v;
   the findings of the scenarios live exactly in the part that is not
   modelled: F22 (tag 22: a client that finished syncing from a peer on a
   lighter valid fork asks an already connected honest peer only after it
   announces a block), F-C04-2 (tag 24: a peer silent on getheaders that keeps
   announcing blocks is never dropped), F-C04-3 (tag 25: a cfheaders round
   answered by liars only commits their value, the honest peer is then
   banned), and the repaired root cause F30 of C03 (tag 23: a filter lie
   about a coinbase-only block could not be refuted).
   [best_block] is tied to ChainService.BestBlock by a table replayed on
   every run (C04/Replay.v). *)
From stdpp Require Import list.
From Coq Require Import ZArith Lia.
From Verif Require Import S2.Model C01.Spec C02.Spec.
Open Scope Z_scope.

(* ---------- (a) what the client reports ---------- *)
(* ChainService.BestBlock (neutrino.go): the block-header tip, or, when the
   filter-header tip is lower, the block header at the height of the
   filter-header tip.  None = the Go function returns an error. *)
Definition best_block (s : state) : option (Z * header) :=
  match chain_tip s, last (fchain s) with
  | Some t, Some _ =>
    let bh := tip_height s in
    let fh := zlen (fchain s) - 1 in
    if fh <? bh then option_map (pair fh) (at_h (chain s) fh) else Some (bh, t)
  | _, _ => None
  end.

(* ---------- (b) an honest peer, abstractly ---------- *)
(* It holds a chain [H] which is a valid chain for a client that checks every
   header at clock reading [now] (in particular no header is more than two
   hours ahead of [now]), from the genesis block, matching every hard-coded
   checkpoint it reaches. *)
Definition honest_at (P : params) (H : list header) (now : Z) : bool :=
  valid_chain P (zip H (replicate (length H) now)).

(* Its answer to a getheaders whose locator's best known hash sits at height
   [k] of [H]: the next at most [n] headers of [H] (n = 2000 in reality). *)
Definition honest_reply (H : list header) (k : Z) (n : nat) : list header :=
  take n (drop (Z.to_nat (k + 1)) H).

(* A locator is made of hashes of the client's own chain [c]; the honest peer
   starts after the newest one it has.  All we use: the client's chain and
   [H] coincide up to and including height [k]. *)
Definition agree_upto (c H : list header) (k : Z) : Prop :=
  0 <= k < zlen c /\ take (Z.to_nat (k + 1)) c = take (Z.to_nat (k + 1)) H.

(* handleHeadersMsg looks at a message that does not connect to the tip (a
   reorganisation branch, or headers the client already has) only if it comes
   from the sync peer or the client considers its headers synced. *)
Definition gate_open (P : params) (now : Z) (p : Z) (s : state) : Prop :=
  negb (is_sync s p) && negb (headers_synced P now s) = false.

(* one processed answer of the honest peer [p]: the getheaders carried the
   client's tip as the first locator hash (the client's chain is a prefix of
   [H] in the theorems that use this) *)
Definition honest_round (H : list header) (p now : Z) (n : nat) (s : state) : op :=
  OHeaders p now (honest_reply H (tip_height s) n).

(* a run of processed honest answers, one per (clock reading, batch limit) *)
Fixpoint honest_run (P : params) (H : list header) (p : Z) (rounds : list (Z * nat)) (s : state) : state :=
  match rounds with
  | [] => s
  | (now, n) :: r => honest_run P H p r (step P s (honest_round H p now n s))
  end.

(* the same with operations caused by OTHER peers in between *)
Inductive item :=
| Honest (now : Z) (n : nat)      (* an answer of the honest peer is processed *)
| Other (o : op).                 (* anything else the block manager handles *)

Fixpoint sched_run (P : params) (H : list header) (p : Z) (sch : list item) (s : state) : state :=
  match sch with
  | [] => s
  | Honest now n :: r => sched_run P H p r (step P s (honest_round H p now n s))
  | Other o :: r => sched_run P H p r (step P s o)
  end.

Definition sched_ops (sch : list item) : list op :=
  flat_map (fun i => match i with Other o => [o] | Honest _ _ => [] end) sch.
Definition sched_rounds (sch : list item) : list (Z * nat) :=
  flat_map (fun i => match i with Honest now n => [(now, n)] | Other _ => [] end) sch.

Definition honest_count (sch : list item) : Z := zlen (sched_rounds sch).

(* What the other peers may NOT do in the interleaved theorem: offer a header
   that is a valid successor of a prefix of [H] without being a header of [H]
   (no valid block off the honest chain; a peer that serves a valid lighter
   fork is the subject of C04_reorg_to_heavier_honest_chain instead). *)
Definition no_valid_offchain (P : params) (H : list header) (o : op) : Prop :=
  match o with
  | OHeaders _ now hs =>
      forall x j, x ∈ hs -> (1 <= j <= length H)%nat ->
        valid_next P (take j H) now x = true -> x ∈ H
  | _ => True
  end.

Definition round_ok (P : params) (H : list header) (r : Z * nat) : Prop :=
  honest_at P H r.1 = true /\ (1 <= r.2)%nat /\ Z.of_nat r.2 < memCap P.
