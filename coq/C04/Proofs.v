(* C04 — proofs.  Safety of the reported best block (corollary of the S2
   invariant), and progress of header sync whenever an answer of an honest
   peer is processed (from the handler lemmas of S2/Invariant.v and
   C02/Proofs.v). *)
From stdpp Require Import list.
From Coq Require Import ZArith Lia ZifyBool.
From Verif Require Import S2.Model C01.Spec C02.Spec S2.Basics S2.Invariant C01.Proofs C02.Proofs C04.Spec.
Open Scope Z_scope.

(* ==================== (a) safety ==================== *)
Lemma valid_chain_take P l k : valid_chain P l = true -> (1 <= k)%nat -> zlen l <= LIMIT ->
  valid_chain P (take k l) = true.
Proof.
  intros Hv Hk HL. destruct l as [|[g t] rest]; [done|]. destruct k as [|k]; [lia|]. cbn [take].
  unfold valid_chain in *. apply andb_true_iff in Hv as [Hv Hc]. apply andb_true_iff in Hv as [Hg Hv].
  rewrite Hg. cbn [andb]. apply andb_true_iff. split.
  - rewrite <- (take_drop k rest), valid_from_app in Hv. by apply andb_true_iff in Hv as [? _].
  - apply checkpoints_ok_iff. apply checkpoints_ok_iff in Hc.
    change ((g, t) :: take k rest) with (take (S k) ((g, t) :: rest)). rewrite fmap_take.
    eapply (cps_ok_prefix P _ (drop (S k) ((g, t) :: rest).*1)); rewrite take_drop; [done|by rewrite zlen_fmap].
Qed.

Lemma ChainOK_valid_chain P U T full tl : ChainOK P U T full tl ->
  valid_chain P (zip full (0 :: tl.*2)) = true.
Proof.
  intros Htl. rewrite (co_eq _ _ _ _ _ Htl). cbn [zip zip_with].
  fold (zip tl.*1 tl.*2). rewrite zip_fst_snd. unfold valid_chain.
  rewrite (co_valid _ _ _ _ _ Htl). cbn [fmap list_fmap fst].
  rewrite <- (co_eq _ _ _ _ _ Htl).
  replace (checkpoints_ok P full) with true by (symmetry; apply checkpoints_ok_iff, (co_cps _ _ _ _ _ Htl)).
  lia.
Qed.

Lemma Inv_best_block P U T s : Inv P U T s ->
  exists h x f times,
    best_block s = Some (h, x) /\
    h = Z.min (zlen (fchain s) - 1) (tip_height s) /\ 0 <= h /\
    at_h (chain s) h = Some x /\ at_h (fchain s) h = Some f /\
    length times = length (chain s) /\ Forall T (tail times) /\
    valid_chain P (zip (chain s) times) = true /\
    valid_chain P (take (Z.to_nat (h + 1)) (zip (chain s) times)) = true.
Proof.
  intros HI. destruct (i_chain _ _ _ _ HI) as [tl Htl].
  pose proof (i_fne _ _ _ _ HI) as Hfne. pose proof (i_fle _ _ _ _ HI) as Hfle.
  pose proof (co_lim _ _ _ _ _ Htl) as HL. pose proof (ChainOK_ne _ _ _ _ _ Htl) as Hne.
  set (h := Z.min (zlen (fchain s) - 1) (tip_height s)).
  assert (Hh : 0 <= h < zlen (chain s) /\ h < zlen (fchain s)) by (unfold h, tip_height; lia).
  destruct (at_h (chain s) h) as [x|] eqn:Ex.
  2:{ rewrite at_h_lookup in Ex by lia. apply lookup_ge_None in Ex. unfold zlen in *. lia. }
  destruct (at_h (fchain s) h) as [f|] eqn:Ef.
  2:{ rewrite at_h_lookup in Ef by lia. apply lookup_ge_None in Ef. unfold zlen in *. lia. }
  exists h, x, f, (0 :: tl.*2).
  assert (Hlen : length (0 :: tl.*2) = length (chain s)).
  { rewrite (co_eq _ _ _ _ _ Htl). cbn. by rewrite !fmap_length. }
  assert (Hvc : valid_chain P (zip (chain s) (0 :: tl.*2)) = true) by (by eapply ChainOK_valid_chain).
  split; [|split; [done|split; [lia|split; [done|split; [done|split; [done|split; [|split; [done|]]]]]]]].
  - unfold best_block, chain_tip. destruct (last (chain s)) as [t|] eqn:Et; [|by apply last_None in Et].
    destruct (last (fchain s)) as [ft|] eqn:Eft.
    2:{ apply last_None in Eft. rewrite Eft, zlen_nil in Hfne. lia. }
    cbn zeta. destruct (zlen (fchain s) - 1 <? tip_height s) eqn:E.
    + replace (zlen (fchain s) - 1) with h by (unfold h; lia). by rewrite Ex.
    + assert (h = tip_height s) as Heq by (unfold h; lia). rewrite Heq in Ex.
      unfold tip_height in Ex. rewrite <- (last_at_h _ Hne HL), Et in Ex. injection Ex as ->. by rewrite Heq.
  - cbn [tail]. apply Forall_fmap. apply (co_T _ _ _ _ _ Htl).
  - apply valid_chain_take; [done|lia|]. unfold zlen. rewrite zip_with_length, Hlen. unfold zlen in HL. lia.
Qed.

Lemma best_block_always_valid P gfh pre post :
  wf_params P -> no_collision P (pre ++ post) -> wf_hist P (pre ++ post) ->
  let s := run P (init_state P gfh) pre in
  exists h x f times,
    best_block s = Some (h, x) /\
    h = Z.min (zlen (fchain s) - 1) (tip_height s) /\ 0 <= h /\
    at_h (chain s) h = Some x /\ at_h (fchain s) h = Some f /\
    length times = length (chain s) /\ Forall (fun t => t ∈ hist_nows pre) (tail times) /\
    valid_chain P (zip (chain s) times) = true /\
    valid_chain P (take (Z.to_nat (h + 1)) (zip (chain s) times)) = true.
Proof.
  intros HP HU HW s.
  pose proof (reach_Inv P gfh pre HP (no_collision_prefix _ _ _ HU) (wf_hist_prefix _ _ _ HW)) as HI.
  by apply (Inv_best_block P (U_of P pre) (T_of pre)).
Qed.

(* ==================== (b) an honest peer's chain ==================== *)
Lemma valid_from_all_valid P now hs : forall pre,
  valid_from P pre (zip hs (replicate (length hs) now)) = true ->
  cps_ok P (pre ++ hs) -> zlen (pre ++ hs) <= LIMIT -> all_valid P now pre hs.
Proof.
  induction hs as [|x hs IH]; intros pre Hv Hc HL; [done|].
  cbn [length replicate zip zip_with valid_from] in Hv. apply andb_true_iff in Hv as [Hv1 Hv2].
  cbn [all_valid]. split; [done|]. split.
  - intros cp Hin Heq. symmetry. apply (Hc cp x Hin). rewrite Heq. rewrite at_h_app_r; [|done|lia].
    by rewrite Z.sub_diag.
  - apply IH; [done|by rewrite <- app_assoc|by rewrite <- app_assoc].
Qed.

Lemma all_valid_prefix P now pre a b : all_valid P now pre (a ++ b) -> all_valid P now pre a.
Proof. intros H. by apply all_valid_app in H as [? _]. Qed.

Section Honest.
Context (P : params) (U : header -> Prop) (T : Z -> Prop).
Hypothesis HU : universe P U.
Hypothesis HP : wf_params P.

Lemma honest_ChainOK H now : honest_at P H now = true -> Forall U H -> T now -> zlen H <= LIMIT ->
  (exists tl, ChainOK P U T H tl) /\ all_valid P now [genesis P] (tail H) /\ head H = Some (genesis P).
Proof.
  unfold honest_at, valid_chain. intros Hv HUH HT HL. destruct H as [|g rest]; [done|].
  cbn [length replicate zip zip_with] in Hv. fold (zip rest (replicate (length rest) now)) in Hv.
  apply andb_true_iff in Hv as [Hv Hc]. apply andb_true_iff in Hv as [Hg Hv].
  apply Forall_cons in HUH as [HUg HUr].
  assert (g = genesis P) as -> by (apply (U_inj _ _ HU); [done|apply (U_gen _ _ HU)|lia]).
  cbn [fmap list_fmap fst] in Hc. rewrite fst_zip in Hc by (rewrite replicate_length; lia).
  apply checkpoints_ok_iff in Hc.
  assert (Hav : all_valid P now [genesis P] rest) by (by apply valid_from_all_valid).
  split; [|done]. rewrite zlen_cons in HL.
  destruct (ChainOK_all_valid P U T HU now rest [genesis P] [] (ChainOK_init P U T HU HP) Hav HT HUr) as [tl Htl].
  { rewrite zlen_cons, zlen_nil. lia. }
  by exists tl.
Qed.

Lemma honest_seg_valid H now m : all_valid P now [genesis P] (tail H) -> head H = Some (genesis P) ->
  (1 <= m <= length H)%nat -> all_valid P now (take m H) (drop m H).
Proof.
  intros Hav Hh Hm. destruct H as [|g rest]; [done|]. cbn in Hh. injection Hh as ->. cbn [tail] in Hav.
  destruct m as [|m]; [lia|]. cbn [take drop].
  rewrite <- (take_drop m rest) in Hav. apply all_valid_app in Hav as [_ Hav]. exact Hav.
Qed.

(* ==================== the handler on an honest answer ==================== *)
(* a header of the chain never names the tip as its predecessor *)
Lemma in_chain_nonconn full tl x tp : ChainOK P U T full tl -> x ∈ full -> last full = Some tp ->
  hprev x <> hid tp.
Proof.
  intros Hok Hx Hl Heq. pose proof (ChainOK_linked _ _ _ _ _ Hok) as Hlk. pose proof (co_nodup _ _ _ _ _ Hok) as Hnd.
  pose proof (co_U _ _ _ _ _ Hok) as HUf. rewrite Forall_forall in HUf.
  assert (Htin : tp ∈ full) by (rewrite last_lookup in Hl; eapply elem_of_list_lookup_2; eauto).
  apply elem_of_list_lookup in Hx as [i Hi]. destruct i as [|j].
  - rewrite (co_eq _ _ _ _ _ Hok) in Hi. cbn in Hi. injection Hi as <-.
    apply (U_root _ _ HU tp); [by apply HUf|congruence].
  - pose proof (lookup_lt_Some _ _ _ Hi) as Hlt.
    destruct (lookup_lt_is_Some_2 full j ltac:(lia)) as [a Ha].
    pose proof (Hlk _ _ _ Ha Hi) as Hpa. rewrite last_lookup in Hl.
    assert (H1 : map hid full !! j = Some (hid tp)) by (rewrite list_lookup_fmap, Ha; cbn; congruence).
    assert (H2 : map hid full !! pred (length full) = Some (hid tp)) by (rewrite list_lookup_fmap, Hl; done).
    pose proof (NoDup_lookup _ _ _ _ Hnd H1 H2). lia.
Qed.

(* headers the client already has are skipped (when the gate is open) *)
Lemma loop_skip now p a : a_batch a = [] -> gate_open P now p (a_s a) ->
  forall skip rest, Live P U T a (skip ++ rest) -> Forall (fun x => x ∈ chain (a_s a)) skip ->
  loop P now p a (skip ++ rest) = loop P now p a rest /\ Live P U T a rest.
Proof.
  intros Hb Hg. induction skip as [|x skip IH]; intros rest HL Hin; [done|].
  apply Forall_cons in Hin as [Hx Hin]. cbn [app loop].
  pose proof HL as (HA & Hr & Hcp & Hroom & Hconn & Hlink).
  assert (Hfull : afull a = chain (a_s a)) by (unfold afull; rewrite Hb; apply app_nil_r).
  destruct (AInv_tip _ _ _ _ HA) as (tp & Hl1 & Hl2). rewrite Hfull in Hl1, Hl2.
  destruct (AInv_chain P U T a HA) as [tl Htl].
  assert (Hnc : hprev x <> hid tp) by (eapply in_chain_nonconn; eauto).
  assert (HL' : Live P U T a (skip ++ rest)) by (by eapply Live_tail).
  rewrite (step_nonconn_eq P now p a x (skip ++ rest) _ Hl2); cbn [nhdr nheight].
  - cbn zeta. unfold gate_open in Hg. rewrite Hg.
    destruct (hid x =? hid tp); [by apply IH|].
    destruct (fetch_header (chain (a_s a)) (hid x)) as [?|] eqn:Ef; [by apply IH|].
    apply fetch_header_None in Ef. destruct Ef. by apply elem_of_list_fmap_1.
  - congruence.
  - intros ch chash E. rewrite Hcp, Hfull in E. pose proof (zlen_pos _ (ChainOK_ne _ _ _ _ _ Htl)).
    apply (next_cp_pos P HP) in E; lia.
Qed.

(* reorg_check accepts a branch that is valid header by header (converse of
   reorg_check_spec) *)
Lemma reorg_check_complete now c : forall hs rl pre prevhdr work,
  WM rl pre -> last pre = Some prevhdr ->
  (forall k, k < zlen pre - zlen rl -> at_h c k = at_h pre k) ->
  zlen rl + zlen hs <= memCap P -> zlen pre + zlen hs <= LIMIT ->
  all_valid P now pre hs ->
  reorg_check P now c rl (zlen pre - 1) prevhdr hs work = Some (work + wsum hs).
Proof.
  induction hs as [|x hs IH]; intros rl pre prevhdr work HW Hl Hc Hroom HL Hav;
    cbn [reorg_check all_valid wsum foldr] in *.
  - f_equal. lia.
  - rewrite zlen_cons in Hroom, HL. pose proof (zlen_nonneg hs) as Hnn.
    destruct Hav as (Hv & Hcp & Hav).
    rewrite (valid_next_unfold P _ _ _ _ Hl) in Hv. apply andb_true_iff in Hv as [Hp Hs].
    assert (Hs' : is_ok (check_sanity P (view rl c) now x (zlen pre - 1) prevhdr) = true).
    { rewrite <- Hs. f_equal. apply check_sanity_ext; [apply (wf_bpr P HP)|]. intros k Hk.
      apply view_agree_lt; [done|done|lia|lia]. }
    rewrite Hs'. replace (zlen pre - 1 + 1) with (zlen pre) by lia.
    replace (cp_matches P (zlen pre) x) with true by (symmetry; by apply cp_matches_iff).
    cbn [andb]. fold (wsum hs).
    specialize (IH (win_push (memCap P) rl {| nheight := zlen pre; nhdr := x |}) (pre ++ [x]) x (work + calcWork (hbits x))).
    rewrite zlen_snoc in IH. replace (zlen pre + 1 - 1) with (zlen pre) in IH by lia.
    rewrite IH; [f_equal; lia| | | | | |].
    + apply WM_push; [done|]. pose proof (WM_len _ _ HW). lia.
    + by rewrite last_snoc.
    + intros k Hk. rewrite win_push_len in Hk.
      destruct (zlen rl >=? memCap P) eqn:E; [lia|].
      rewrite at_h_app_l; [apply Hc; lia|rewrite zlen_snoc; lia|]. pose proof (WM_len _ _ HW). lia.
    + rewrite win_push_len. destruct (zlen rl >=? memCap P) eqn:E; lia.
    + lia.
    + done.
Qed.

(* the first header of a heavier valid branch forking at height m-1, not below
   the newest reached checkpoint, switches the client to the branch *)
Lemma step_reorg_taken now p a bh rest m :
  a_batch a = [] -> gate_open P now p (a_s a) -> Live P U T a (bh :: rest) -> U bh -> T now ->
  let c := chain (a_s a) in
  zlen c + zlen (bh :: rest) <= LIMIT ->
  1 <= m < zlen c ->
  all_valid P now (take (Z.to_nat m) c) (bh :: rest) ->
  hid bh ∉ map hid c ->
  (find_prev_cp P (zlen c)).1 <= m - 1 ->
  wsum (drop (Z.to_nat m) c) < wsum (bh :: rest) ->
  exists a', step_header P now p a bh rest = Continue a' /\ Live P U T a' rest /\ a_batch a' = [] /\
    chain (a_s a') = take (Z.to_nat m) c ++ [bh].
Proof.
  intros Hb Hg HL HUb HT c Hlim Hm Hav Hfresh Hfloor Hwork.
  pose proof HL as (HA & Hr & Hcp & Hroom & Hconn & Hlink).
  assert (Hfull : afull a = c) by (unfold afull; rewrite Hb; apply app_nil_r).
  destruct (AInv_tip _ _ _ _ HA) as (tp & Hl1 & Hl2). rewrite Hfull in Hl1, Hl2.
  destruct (AInv_chain P U T a HA) as [tl Htl]. fold c in Htl.
  pose proof (co_nodup _ _ _ _ _ Htl) as Hnd. pose proof (ChainOK_linked _ _ _ _ _ Htl) as Hlk.
  pose proof (co_lim _ _ _ _ _ Htl) as HLc.
  set (n := Z.to_nat (m - 1)).
  destruct (lookup_lt_is_Some_2 c n ltac:(unfold zlen in *; lia)) as [backHead Hn].
  assert (Hpre : take (Z.to_nat m) c = take n c ++ [backHead]).
  { replace (Z.to_nat m) with (S n) by lia. by apply take_S_r. }
  assert (Hzpre : zlen (take (Z.to_nat m) c) = m) by (apply zlen_take; lia).
  assert (Hpb : hprev bh = hid backHead).
  { eapply all_valid_first; [exact Hav|]. rewrite Hpre. by rewrite last_snoc. }
  assert (Hnc : hprev bh <> hid tp).
  { rewrite Hpb. intros Heq. rewrite last_lookup in Hl1.
    assert (H1 : map hid c !! n = Some (hid tp)) by (rewrite list_lookup_fmap, Hn; cbn; congruence).
    assert (H2 : map hid c !! pred (length c) = Some (hid tp)) by (rewrite list_lookup_fmap, Hl1; done).
    pose proof (NoDup_lookup _ _ _ _ Hnd H1 H2). unfold zlen in *. lia. }
  destruct (step_nonconn_spec P U T HU HP now p a bh rest tp HL ltac:(by rewrite Hfull) Hnc HUb HT ltac:(by rewrite Hfull)) as [_ Hspec].
  assert (Hrc : reorg_check P now c [{| nheight := m - 1; nhdr := backHead |}] (m - 1) backHead (bh :: rest) 0
                = Some (0 + wsum (bh :: rest))).
  { pose proof (reorg_check_complete now c (bh :: rest) [{| nheight := m - 1; nhdr := backHead |}]
                  (take (Z.to_nat m) c) backHead 0) as Hc.
    rewrite Hzpre in Hc. apply Hc.
    - exists (take n c), [backHead]. split; [done|]. split; [done|]. cbn. do 2 f_equal.
      unfold zlen. rewrite take_length. unfold zlen in *. lia.
    - rewrite Hpre. by rewrite last_snoc.
    - intros k Hk. rewrite zlen_cons, zlen_nil in Hk. symmetry. apply at_h_take; [done|lia|lia].
    - rewrite zlen_cons, zlen_nil. rewrite Hb, zlen_nil in Hroom. lia.
    - lia.
    - done. }
  assert (Hstep : step_header P now p a bh rest = Continue (reorg_acc p a bh backHead (m - 1))).
  { rewrite (step_nonconn_eq P now p a bh rest _ Hl2); cbn [nhdr nheight].
    - cbn zeta. fold c. unfold gate_open in Hg. rewrite Hg.
      replace (hid bh =? hid tp) with false.
      2:{ symmetry. apply Z.eqb_neq. intros Heq. apply Hfresh. rewrite Heq. apply elem_of_list_fmap_1.
          rewrite last_lookup in Hl1. eapply elem_of_list_lookup_2; eauto. }
      replace (fetch_header c (hid bh)) with (@None (header * Z)) by (symmetry; by apply fetch_header_None).
      rewrite Hpb, (fetch_header_nodup c n backHead Hnd Hn).
      replace (Z.of_nat n) with (m - 1) by lia.
      replace (zlen c - 1 + 1) with (zlen c) by lia.
      replace (m - 1 <? (find_prev_cp P (zlen c)).1) with false by lia.
      rewrite Hrc.
      rewrite (known_work_spec c Hnd Hlk HLc).
      + replace (zlen c - 1 + 1) with (zlen c) by lia. rewrite (take_ge c) by (unfold zlen; lia).
        replace (m - 1 + 1) with m by lia.
        replace (0 + wsum (drop (Z.to_nat m) c) >? 0 + wsum (bh :: rest)) with false by lia.
        replace (0 + wsum (drop (Z.to_nat m) c) =? 0 + wsum (bh :: rest)) with false by lia.
        reflexivity.
      + lia.
      + lia.
      + rewrite zn_eq by (unfold LIMIT in *; lia). lia.
      + left. pose proof (a_wm _ _ _ _ HA) as HW. rewrite Hfull in HW.
        split; [intros E; rewrite E in HW; by destruct (WM_len _ _ HW)|].
        replace (zlen c - 1 + 1) with (zlen c) by lia. rewrite take_ge; [done|unfold zlen; lia].
    - congruence.
    - intros ch chash E. rewrite Hcp, Hfull in E. pose proof (zlen_pos _ (ChainOK_ne _ _ _ _ _ Htl)).
      apply (next_cp_pos P HP) in E; lia. }
  rewrite Hstep in Hspec. exists (reorg_acc p a bh backHead (m - 1)). split; [done|].
  destruct Hspec as [(_ & _ & Hin)|(bH & bk & Heq & HL' & Hb' & HRF)]; [done|].
  split; [done|]. split; [done|].
  destruct HRF as (R1 & R2 & R3 & _ & _ & _ & _ & R8). fold c in R1, R8. rewrite R8. do 2 f_equal.
  assert (H1 : map hid c !! n = Some (hid backHead)) by (rewrite list_lookup_fmap, Hn; done).
  assert (H2 : map hid c !! Z.to_nat bk = Some (hid backHead)) by (rewrite list_lookup_fmap, R1; cbn; congruence).
  pose proof (NoDup_lookup _ _ _ _ Hnd H1 H2). lia.
Qed.

(* ---------- handleHeadersMsg on: known headers, then a valid extension ---------- *)
Lemma handle_skip_ext now p s skip run :
  Inv P U T s -> T now -> Forall U (skip ++ run) -> zlen (skip ++ run) < memCap P ->
  zlen (chain s) + zlen (skip ++ run) <= LIMIT ->
  headers_connected (skip ++ run) = true ->
  Forall (fun x => x ∈ chain s) skip ->
  (skip <> [] -> gate_open P now p s) ->
  run <> [] -> all_valid P now (chain s) run ->
  chain (handle_headers P now p (skip ++ run) s) = chain s ++ upto_cp P (zlen (chain s) - 1) run.
Proof.
  intros HI HT HUs Hlen Hlim Hconn Hin Hg Hne Hav.
  destruct (decide (skip = [])) as [->|Hsk].
  { cbn [app] in *. by apply (handle_headers_adopt P U T HU HP). }
  unfold handle_headers. destruct (skip ++ run) as [|h0 hs0] eqn:Ehs; [by destruct skip|]. rewrite <- Ehs in *.
  rewrite Hconn. cbn [negb].
  pose proof (Inv_Live P U T s _ HI Hlen Hconn) as HL.
  destruct (loop_skip now p (acc0 s) eq_refl (Hg Hsk) skip run HL Hin) as [Heq HL2].
  fold (acc0 s). rewrite Heq.
  apply Forall_app in HUs as [_ HUr]. rewrite zlen_app in Hlim. pose proof (zlen_nonneg skip).
  destruct (i_chain _ _ _ _ HI) as [tl Htl]. pose proof (ChainOK_ne _ _ _ _ _ Htl) as Hcne.
  pose proof (loop_connect P U T HU HP now p HT run (acc0 s) HL2) as Hl.
  unfold afull in Hl. cbn [acc0 a_s a_batch fmap list_fmap] in Hl. rewrite app_nil_r in Hl.
  assert (Hfirst : forall (x : header) (t : list header) (tp : header),
            run = x :: t -> last (chain s) = Some tp -> hprev x = hid tp).
  { intros x t tp -> Hl'. by eapply all_valid_first. }
  destruct (loop P now p (acc0 s) run) as [s'|a'|a'].
  - destruct Hl as (_ & Hn & _); [done|done|lia|by destruct (Hn Hav)].
  - destruct Hl; [done|done|lia].
  - destruct Hl as (HF & Hc & Hfa & _); [done|done|lia|].
    destruct (finalize_spec P U T a' HF) as [HI' Hc']. fold (finalize P a').
    destruct (resync_spec P U T _ (Inv_RInv _ _ _ _ HI')) as [_ Hc'']. rewrite Hc'', Hc'. exact Hfa.
Qed.

(* ---------- ... on: known headers, then a heavier valid branch ---------- *)
Lemma handle_skip_reorg now p s skip bh rest m :
  Inv P U T s -> T now -> Forall U (skip ++ bh :: rest) -> zlen (skip ++ bh :: rest) < memCap P ->
  zlen (chain s) + zlen (skip ++ bh :: rest) <= LIMIT ->
  headers_connected (skip ++ bh :: rest) = true ->
  Forall (fun x => x ∈ chain s) skip ->
  gate_open P now p s ->
  1 <= m < zlen (chain s) ->
  all_valid P now (take (Z.to_nat m) (chain s)) (bh :: rest) ->
  hid bh ∉ map hid (chain s) ->
  (find_prev_cp P (zlen (chain s))).1 <= m - 1 ->
  wsum (drop (Z.to_nat m) (chain s)) < wsum (bh :: rest) ->
  chain (handle_headers P now p (skip ++ bh :: rest) s)
  = take (Z.to_nat m) (chain s) ++ upto_cp P (m - 1) (bh :: rest).
Proof.
  intros HI HT HUs Hlen Hlim Hconn Hin Hg Hm Hav Hfresh Hfloor Hwork.
  unfold handle_headers. destruct (skip ++ bh :: rest) as [|h0 hs0] eqn:Ehs; [by destruct skip|]. rewrite <- Ehs in *.
  rewrite Hconn. cbn [negb].
  pose proof (Inv_Live P U T s _ HI Hlen Hconn) as HL.
  destruct (loop_skip now p (acc0 s) eq_refl Hg skip (bh :: rest) HL Hin) as [Heq HL2].
  fold (acc0 s). rewrite Heq. cbn [loop].
  apply Forall_app in HUs as [_ HUr]. apply Forall_cons in HUr as [HUb HUr].
  rewrite zlen_app in Hlim. pose proof (zlen_nonneg skip) as Hsk.
  destruct (step_reorg_taken now p (acc0 s) bh rest m eq_refl Hg HL2 HUb HT ltac:(cbn [acc0 a_s]; lia) Hm Hav Hfresh Hfloor Hwork)
    as (a' & Hstep & HL' & Hb' & Hc').
  cbn [acc0 a_s] in Hc'. rewrite Hstep.
  assert (Hfull' : afull a' = take (Z.to_nat m) (chain s) ++ [bh]) by (unfold afull; rewrite Hb', Hc'; apply app_nil_r).
  assert (Hz' : zlen (afull a') = m + 1) by (rewrite Hfull', zlen_snoc, zlen_take; lia).
  cbn [all_valid] in Hav. destruct Hav as (_ & _ & Hav).
  rewrite zlen_cons in Hlim. pose proof (zlen_nonneg rest).
  pose proof (loop_connect P U T HU HP now p HT rest a' HL') as Hl.
  assert (Hfirst : forall (x : header) (t : list header) (tp : header),
            rest = x :: t -> last (afull a') = Some tp -> hprev x = hid tp).
  { intros x t tp -> Hl'. rewrite Hfull' in Hl'. by eapply all_valid_first. }
  assert (Hncp : cp_height_b P (m - 1 + 1) = false).
  { destruct (cp_height_b P (m - 1 + 1)) eqn:E; [|done]. apply cp_height_b_iff in E as [chash Hcin].
    pose proof (no_cp_between P HP (chain s) (m - 1) _ Hfloor Hcin). cbn in *. lia. }
  destruct (loop P now p a' rest) as [s'|a''|a''].
  - destruct Hl as (_ & Hn & _); [done|done|lia|]. rewrite Hfull' in Hn. by destruct (Hn Hav).
  - destruct Hl; [done|done|lia].
  - destruct Hl as (HF & _ & Hfa & _); [done|done|lia|].
    destruct (finalize_spec P U T a'' HF) as [HI' Hc'']. fold (finalize P a'').
    destruct (resync_spec P U T _ (Inv_RInv _ _ _ _ HI')) as [_ Hc3]. rewrite Hc3, Hc'', Hfa, Hz', Hfull'.
    cbn [upto_cp]. rewrite Hncp. rewrite <- app_assoc. cbn [app]. do 3 f_equal. lia.
Qed.

(* ==================== rounds with a peer that holds H ==================== *)
Lemma prefix_take_eq {A} (c H : list A) : c `prefix_of` H -> c = take (length c) H.
Proof. intros [k ->]. by rewrite take_app. Qed.
Lemma take_is_prefix {A} (H : list A) j : take j H `prefix_of` H.
Proof. exists (drop j H). by rewrite take_drop. Qed.

Lemma ChainOK_mono (U' : header -> Prop) (T' : Z -> Prop) full tl : (forall h, U h -> U' h) -> (forall t, T t -> T' t) ->
  ChainOK P U T full tl -> ChainOK P U' T' full tl.
Proof.
  intros HUU HTT []. split; try done.
  - eapply Forall_impl; [exact co_T|]. intros e. apply HTT.
  - eapply Forall_impl; [exact co_U|]. exact HUU.
Qed.
Lemma Inv_mono (U' : header -> Prop) (T' : Z -> Prop) s : (forall h, U h -> U' h) -> (forall t, T t -> T' t) ->
  Inv P U T s -> Inv P U' T' s.
Proof.
  intros HUU HTT []. split; try done. destruct i_chain as [tl Htl]. exists tl. by eapply ChainOK_mono.
Qed.

(* what we use of the honest peer's chain *)
Record HonestChain (H : list header) : Prop := {
  hc_ok : exists tl, ChainOK P U T H tl;
  hc_U : Forall U H
}.

(* one processed answer, the client's chain being a prefix of H *)
Lemma honest_round_prefix H p now n s :
  HonestChain H -> honest_at P H now = true -> T now -> (1 <= n)%nat -> Z.of_nat n < memCap P ->
  Inv P U T s -> chain s `prefix_of` H ->
  let msg := honest_reply H (tip_height s) n in
  let s' := step P s (honest_round H p now n s) in
  Inv P U T s' /\
  chain s' = chain s ++ upto_cp P (zlen (chain s) - 1) msg /\
  chain s' `prefix_of` H /\
  (chain s = H \/ zlen (chain s) < zlen (chain s')).
Proof.
  intros [[tlH HokH] HUH] Hhon HT Hn1 Hncap HI Hpre msg s'.
  pose proof (co_lim _ _ _ _ _ HokH) as HLH.
  destruct (honest_ChainOK H now Hhon HUH HT HLH) as (_ & HavH & HhH).
  destruct (i_chain _ _ _ _ HI) as [tl Htl]. pose proof (ChainOK_ne _ _ _ _ _ Htl) as Hcne.
  pose proof (zlen_pos _ Hcne) as Hcpos.
  set (c := chain s) in *. pose proof (prefix_take_eq c H Hpre) as Hc.
  pose proof (prefix_length _ _ Hpre) as Hlen.
  assert (Hmsg : msg = take n (drop (length c) H)).
  { unfold msg, honest_reply, tip_height. fold c. do 2 f_equal. unfold zlen. lia. }
  assert (HUm : Forall U msg).
  { rewrite Hmsg. apply Forall_take, Forall_drop. exact HUH. }
  assert (Hzm : zlen msg <= Z.of_nat n /\ zlen c + zlen msg <= zlen H).
  { rewrite Hmsg. unfold zlen. rewrite take_length, drop_length. lia. }
  assert (Hav : all_valid P now c msg).
  { rewrite Hc at 1. rewrite Hmsg. eapply all_valid_prefix. rewrite take_drop.
    apply honest_seg_valid; [done|done|]. unfold zlen in *. lia. }
  assert (Hstep : Inv P U T s' /\ Trans P now c msg (chain s')).
  { apply (handle_headers_spec P U T HU HP); [done|done|done|lia|fold c; lia]. }
  destruct Hstep as [HI' _]. split; [done|].
  destruct (decide (msg = [])) as [Hm0|Hmne].
  - assert (c = H) as HcH.
    { rewrite Hmsg in Hm0. apply (f_equal length) in Hm0. rewrite take_length, drop_length in Hm0. cbn in Hm0.
      rewrite Hc. rewrite take_ge; [done|lia]. }
    assert (chain s' = c) as ->.
    { unfold s', honest_round. fold msg. rewrite Hm0. reflexivity. }
    rewrite Hm0. cbn [upto_cp]. rewrite app_nil_r. split; [done|]. split; [done|by left].
  - assert (Hch : chain s' = c ++ upto_cp P (zlen c - 1) msg).
    { apply (handle_headers_adopt P U T HU HP); [done|done|done|lia|fold c; lia|done|done]. }
    split; [done|]. rewrite Hch. split.
    + destruct (upto_cp_prefix P msg (zlen c - 1)) as [r Hr].
      rewrite <- (take_drop (length c) H), <- Hc. apply prefix_app.
      exists (r ++ drop n (drop (length c) H)). rewrite app_assoc, <- Hr, Hmsg. by rewrite take_drop.
    + right. rewrite zlen_app. pose proof (zlen_pos _ (upto_cp_ne P (zlen c - 1) msg Hmne)). lia.
Qed.

Definition round_okT (H : list header) (r : Z * nat) : Prop := round_ok P H r /\ T r.1.

(* the measure: each processed answer adds at least one header of H *)
Lemma honest_run_spec H p : HonestChain H -> forall rounds s,
  Forall (round_okT H) rounds -> Inv P U T s -> chain s `prefix_of` H ->
  let s' := honest_run P H p rounds s in
  Inv P U T s' /\ chain s' `prefix_of` H /\
  Z.min (zlen H) (zlen (chain s) + zlen rounds) <= zlen (chain s').
Proof.
  intros HH. induction rounds as [|[now n] rounds IH]; intros s Hr HI Hpre; cbn [honest_run].
  - split; [done|]. split; [done|]. rewrite zlen_nil. lia.
  - apply Forall_cons in Hr as [[(Hhon & Hn1 & Hncap) HT] Hr]. cbn [fst snd] in *.
    destruct (honest_round_prefix H p now n s HH Hhon HT Hn1 Hncap HI Hpre) as (HI' & Hch & Hpre' & Hgrow).
    destruct (IH _ Hr HI' Hpre') as (HI2 & Hpre2 & Hlen2).
    split; [done|]. split; [done|]. rewrite zlen_cons.
    apply (f_equal zlen) in Hch. rewrite zlen_app in Hch.
    match type of Hch with _ = _ + zlen ?u => pose proof (zlen_nonneg u) end.
    pose proof (prefix_length _ _ Hpre'). pose proof (prefix_length _ _ Hpre2).
    destruct Hgrow as [Heq|Hlt]; [rewrite Heq in *|]; unfold zlen in *; lia.
Qed.

(* ---------- operations caused by other peers that offer no valid
   header off H keep the client on H and never shorten its chain ---------- *)
Lemma onchain_next H tlH j x tp : ChainOK P U T H tlH -> (1 <= j <= length H)%nat -> x ∈ H ->
  last (take j H) = Some tp -> hprev x = hid tp -> H !! j = Some x.
Proof.
  intros Hok Hj Hx Hl Hp. pose proof (ChainOK_linked _ _ _ _ _ Hok) as Hlk. pose proof (co_nodup _ _ _ _ _ Hok) as Hnd.
  pose proof (co_U _ _ _ _ _ Hok) as HUf. rewrite Forall_forall in HUf.
  assert (Htp : H !! pred j = Some tp).
  { rewrite last_lookup, take_length in Hl. replace (j `min` length H)%nat with j in Hl by lia.
    rewrite lookup_take in Hl by lia. exact Hl. }
  apply elem_of_list_lookup in Hx as [i Hi]. destruct i as [|i'].
  - rewrite (co_eq _ _ _ _ _ Hok) in Hi. cbn in Hi. injection Hi as <-.
    destruct (U_root _ _ HU tp); [apply HUf; eapply elem_of_list_lookup_2; eauto|congruence].
  - pose proof (lookup_lt_Some _ _ _ Hi) as Hlt.
    destruct (lookup_lt_is_Some_2 H i' ltac:(lia)) as [a Ha].
    pose proof (Hlk _ _ _ Ha Hi) as Hpa.
    assert (H1 : map hid H !! i' = Some (hid tp)) by (rewrite list_lookup_fmap, Ha; cbn; congruence).
    assert (H2 : map hid H !! pred j = Some (hid tp)) by (rewrite list_lookup_fmap, Htp; done).
    pose proof (NoDup_lookup _ _ _ _ Hnd H1 H2). by replace j with (S i') by lia.
Qed.

Definition onchain_only (H : list header) (now : Z) (hs : list header) : Prop :=
  forall x j, x ∈ hs -> (1 <= j <= length H)%nat -> valid_next P (take j H) now x = true -> x ∈ H.

Lemma all_valid_onchain H tlH now hs : ChainOK P U T H tlH -> onchain_only H now hs ->
  forall ext c, (forall x, x ∈ ext -> x ∈ hs) -> c <> [] -> c `prefix_of` H -> all_valid P now c ext ->
  (c ++ ext) `prefix_of` H.
Proof.
  intros Hok Hon. induction ext as [|x ext IH]; intros c Hsub Hne Hpre Hav; [by rewrite app_nil_r|].
  cbn [all_valid] in Hav. destruct Hav as (Hv & _ & Hav).
  pose proof (prefix_take_eq c H Hpre) as Hc. pose proof (prefix_length _ _ Hpre) as Hlen.
  assert (Hj : (1 <= length c <= length H)%nat) by (destruct c; cbn in *; [done|lia]).
  destruct (last c) as [tp|] eqn:Hl; [|by apply last_None in Hl].
  pose proof Hv as Hv'. rewrite (valid_next_unfold P _ _ _ _ Hl) in Hv'. apply andb_true_iff in Hv' as [Hp _].
  assert (HxH : x ∈ H).
  { apply (Hon x (length c)); [apply Hsub; left|done|by rewrite <- Hc]. }
  assert (Hx : H !! length c = Some x).
  { eapply onchain_next; eauto; [by rewrite <- Hc|lia]. }
  replace (c ++ x :: ext) with ((c ++ [x]) ++ ext) by (by rewrite <- app_assoc).
  apply IH; [intros y Hy; apply Hsub; by right|by destruct c| |done].
  rewrite Hc at 1. rewrite <- (take_S_r _ _ _ Hx). apply take_is_prefix.
Qed.

Lemma other_preserves H o s : HonestChain H -> Inv P U T s -> chain s `prefix_of` H ->
  wf_op P U T o -> zlen (chain s) + op_size o <= LIMIT -> no_valid_offchain P H o ->
  Inv P U T (step P s o) /\ chain (step P s o) `prefix_of` H /\
  zlen (chain s) <= zlen (chain (step P s o)).
Proof.
  intros [[tlH HokH] HUH] HI Hpre Hwf Hlim Hno.
  destruct (step_spec P U T HU HP s o HI Hwf Hlim) as [HI' Hrel]. split; [done|].
  destruct o as [p now hs| | | | | | | |]; cbn [StepRel] in Hrel; try (rewrite Hrel; split; [done|lia]).
  cbn [no_valid_offchain] in Hno. fold (onchain_only H now hs) in Hno.
  destruct (i_chain _ _ _ _ HI) as [tl Htl]. pose proof (ChainOK_ne _ _ _ _ _ Htl) as Hcne.
  pose proof (co_lim _ _ _ _ _ HokH) as HLH.
  set (c := chain s) in *. set (c' := chain (step P s (OHeaders p now hs))) in *.
  pose proof (prefix_take_eq c H Hpre) as Hc. pose proof (prefix_length _ _ Hpre) as Hlen.
  destruct Hrel as [->|skip run -> Hk Hrne Hav ->|skip run -> Hk Hcut|skip bh rest backHead backH mid -> Hk Hr ->].
  - split; [done|lia].
  - split; [|rewrite zlen_app; pose proof (zlen_nonneg (upto_cp P (zlen c - 1) run)); lia].
    eapply (all_valid_onchain H tlH now _ HokH Hno); [|done|done|done].
    intros x Hx. apply elem_of_app. right. destruct (upto_cp_prefix P run (zlen c - 1)) as [r Hr].
    rewrite Hr. apply elem_of_app. by left.
  - exfalso. destruct Hcut as (ext & x & rest & -> & Hav & Hvx & (chash & Hcp & Hneq) & _).
    assert (Hpe : (c ++ ext) `prefix_of` H).
    { eapply (all_valid_onchain H tlH now _ HokH Hno); [|done|done|done].
      intros y Hy. apply elem_of_app. right. apply elem_of_app. by left. }
    pose proof (prefix_take_eq _ H Hpe) as Hce. pose proof (prefix_length _ _ Hpe) as Hlene.
    assert (Hj : (1 <= length (c ++ ext) <= length H)%nat).
    { rewrite app_length in *. pose proof (zlen_pos _ Hcne). unfold zlen in *. lia. }
    set (j := length (c ++ ext)) in *.
    destruct (last (c ++ ext)) as [tp|] eqn:Hl.
    2:{ apply last_None in Hl. apply app_eq_nil in Hl as [? _]. done. }
    pose proof Hvx as Hv'. rewrite (valid_next_unfold P _ _ _ _ Hl) in Hv'. apply andb_true_iff in Hv' as [Hp _].
    assert (HxH : x ∈ H).
    { apply (Hno x j); [apply elem_of_app; right; apply elem_of_app; right; left|done|by rewrite <- Hce]. }
    assert (Hx : H !! j = Some x) by (eapply onchain_next; eauto; [by rewrite <- Hce|lia]).
    apply Hneq. pose proof (lookup_lt_Some _ _ _ Hx) as Hjlt.
    apply (co_cps _ _ _ _ _ HokH (zlen (c ++ ext), chash) x Hcp). cbn [fst].
    rewrite at_h_lookup by (unfold zlen in *; lia). by replace (Z.to_nat (zlen (c ++ ext))) with j by (unfold zlen; lia).
  - exfalso. destruct Hr as (R1 & R2 & R3 & R4 & _ & R6 & _).
    cbn [all_valid] in R6. destruct R6 as (Hv & _).
    set (j := Z.to_nat (backH + 1)) in *.
    assert (Hj : (1 <= j <= length H)%nat) by (unfold zlen in *; lia).
    assert (Htk : take j c = take j H).
    { rewrite Hc. rewrite take_take. f_equal. unfold zlen in *. lia. }
    assert (Hl : last (take j H) = Some backHead).
    { rewrite <- Htk. subst j. replace (Z.to_nat (backH + 1)) with (S (Z.to_nat backH)) by lia.
      rewrite (take_S_r _ _ _ R1). by rewrite last_snoc. }
    rewrite Htk in Hv.
    assert (HxH : bh ∈ H).
    { apply (Hno bh j); [apply elem_of_app; right; left|done|done]. }
    assert (Hx : H !! j = Some bh) by (eapply onchain_next; eauto).
    apply R4. apply elem_of_list_fmap_1. apply (elem_of_list_lookup_2 _ j).
    rewrite Hc. rewrite lookup_take; [done|]. unfold zlen in *. lia.
Qed.

Definition item_ok (H : list header) (i : item) : Prop :=
  match i with
  | Honest now n => round_okT H (now, n)
  | Other o => wf_op P U T o /\ zlen H + op_size o <= LIMIT /\ no_valid_offchain P H o
  end.

Lemma sched_run_spec H p : HonestChain H -> forall sch s,
  Forall (item_ok H) sch -> Inv P U T s -> chain s `prefix_of` H ->
  let s' := sched_run P H p sch s in
  Inv P U T s' /\ chain s' `prefix_of` H /\
  Z.min (zlen H) (zlen (chain s) + honest_count sch) <= zlen (chain s').
Proof.
  intros HH. induction sch as [|[now n|o] sch IH]; intros s Hr HI Hpre; cbn [sched_run].
  - split; [done|]. split; [done|]. unfold honest_count. cbn. rewrite zlen_nil. lia.
  - apply Forall_cons in Hr as [[(Hhon & Hn1 & Hncap) HT] Hr]. cbn [fst snd] in *.
    destruct (honest_round_prefix H p now n s HH Hhon HT Hn1 Hncap HI Hpre) as (HI' & Hch & Hpre' & Hgrow).
    destruct (IH _ Hr HI' Hpre') as (HI2 & Hpre2 & Hlen2).
    split; [done|]. split; [done|]. unfold honest_count in *. cbn [sched_rounds flat_map app]. rewrite zlen_cons.
    fold (sched_rounds sch).
    apply (f_equal zlen) in Hch. rewrite zlen_app in Hch.
    match type of Hch with _ = _ + zlen ?u => pose proof (zlen_nonneg u) end.
    pose proof (prefix_length _ _ Hpre'). pose proof (prefix_length _ _ Hpre2).
    destruct Hgrow as [Heq|Hlt]; [rewrite Heq in *|]; unfold zlen in *; lia.
  - apply Forall_cons in Hr as [(Hwf & Hsz & Hno) Hr].
    pose proof (prefix_length _ _ Hpre) as Hlen.
    destruct (other_preserves H o s HH HI Hpre Hwf ltac:(unfold zlen in *; lia) Hno) as (HI' & Hpre' & Hle).
    destruct (IH _ Hr HI' Hpre') as (HI2 & Hpre2 & Hlen2).
    split; [done|]. split; [done|]. unfold honest_count in *. cbn [sched_rounds flat_map app].
    fold (sched_rounds sch). lia.
Qed.

(* ---------- the client on a lighter valid fork: the honest answer is a
   reorganisation branch ---------- *)
Lemma linked_drop l i : linked l -> linked (drop i l).
Proof. intros Hl j a b Ha Hb. rewrite lookup_drop in Ha, Hb. apply (Hl (i + j)%nat); [done|]. by rewrite <- Nat.add_succ_r. Qed.
Lemma linked_take l n : linked l -> linked (take n l).
Proof. intros Hl. rewrite <- (take_drop n l) in Hl. by eapply linked_prefix. Qed.
Lemma linked_connected seg : linked seg -> headers_connected seg = true.
Proof.
  destruct seg as [|x t]; [done|]. cbn [headers_connected]. revert x.
  induction t as [|y t IH]; intros x Hl; [done|]. cbn [connected]. apply andb_true_iff. split.
  - pose proof (Hl 0%nat x y eq_refl eq_refl). lia.
  - apply IH. intros j a b Ha Hb. apply (Hl (S j) a b); done.
Qed.

Lemma fork_header_fresh c tl m backHead x bh : ChainOK P U T c tl -> U bh ->
  c !! m = Some backHead -> hprev bh = hid backHead -> c !! S m = Some x -> hid x <> hid bh ->
  hid bh ∉ map hid c.
Proof.
  intros Hok HUb Hm Hp Hx Hne Hin. pose proof (ChainOK_linked _ _ _ _ _ Hok) as Hlk.
  pose proof (co_nodup _ _ _ _ _ Hok) as Hnd. pose proof (co_U _ _ _ _ _ Hok) as HUf. rewrite Forall_forall in HUf.
  apply elem_of_list_fmap in Hin as (y & Heq & Hy).
  assert (y = bh) by (apply (U_inj _ _ HU); [by apply HUf|done|done]). subst y.
  apply elem_of_list_lookup in Hy as [i Hi]. destruct i as [|i'].
  - rewrite (co_eq _ _ _ _ _ Hok) in Hi. cbn in Hi. injection Hi as <-.
    apply (U_root _ _ HU backHead); [apply HUf; eapply elem_of_list_lookup_2; eauto|congruence].
  - pose proof (lookup_lt_Some _ _ _ Hi) as Hlt.
    destruct (lookup_lt_is_Some_2 c i' ltac:(lia)) as [a Ha].
    pose proof (Hlk _ _ _ Ha Hi) as Hpa.
    assert (H1 : map hid c !! i' = Some (hid backHead)) by (rewrite list_lookup_fmap, Ha; cbn; congruence).
    assert (H2 : map hid c !! m = Some (hid backHead)) by (rewrite list_lookup_fmap, Hm; done).
    pose proof (NoDup_lookup _ _ _ _ Hnd H1 H2). subst i'. congruence.
Qed.

Lemma honest_round_reorg H p now n k m s :
  HonestChain H -> honest_at P H now = true -> T now -> Z.of_nat n < memCap P ->
  Inv P U T s ->
  let c := chain s in
  zlen c + zlen (honest_reply H k n) <= LIMIT ->
  1 <= m < zlen c -> m < zlen H -> take (Z.to_nat m) c = take (Z.to_nat m) H ->
  (forall x y, c !! Z.to_nat m = Some x -> H !! Z.to_nat m = Some y -> hid x <> hid y) ->
  0 <= k < m -> m - k - 1 < Z.of_nat n ->
  gate_open P now p s ->
  (find_prev_cp P (zlen c)).1 <= m - 1 ->
  let new := take (n - Z.to_nat (m - k - 1)) (drop (Z.to_nat m) H) in
  wsum (drop (Z.to_nat m) c) < wsum new ->
  let s' := step P s (OHeaders p now (honest_reply H k n)) in
  Inv P U T s' /\ chain s' = take (Z.to_nat m) H ++ upto_cp P (m - 1) new /\
  chain s' `prefix_of` H /\ m < zlen (chain s').
Proof.
  intros [[tlH HokH] HUH] Hhon HT Hncap HI c Hlim Hm HmH Hagree Hdiff Hk Hreach Hg Hfloor new Hwork s'.
  pose proof (co_lim _ _ _ _ _ HokH) as HLH. pose proof (ChainOK_linked _ _ _ _ _ HokH) as HlkH.
  destruct (honest_ChainOK H now Hhon HUH HT HLH) as (_ & HavH & HhH).
  destruct (i_chain _ _ _ _ HI) as [tl Htl]. fold c in Htl.
  set (mm := Z.to_nat m) in *. set (d := Z.to_nat (m - k - 1)) in *.
  set (skip := take d (drop (Z.to_nat (k + 1)) H)).
  assert (Hmsg : honest_reply H k n = skip ++ new).
  { unfold honest_reply, skip, new.
    rewrite <- (take_drop d (drop (Z.to_nat (k + 1)) H)) at 1.
    rewrite take_app_ge by (rewrite take_length; lia).
    rewrite take_length, drop_length, drop_drop.
    replace (d `min` (length H - Z.to_nat (k + 1)))%nat with d by (unfold zlen in *; lia).
    by replace (Z.to_nat (k + 1) + d)%nat with mm by lia. }
  assert (Hskip : Forall (fun x => x ∈ c) skip).
  { unfold skip. rewrite take_drop_commute. replace (Z.to_nat (k + 1) + d)%nat with mm by lia.
    rewrite <- Hagree. apply Forall_forall. intros x Hx.
    eapply elem_of_submseteq; [|apply submseteq_take]. eapply elem_of_submseteq; [exact Hx|apply submseteq_drop]. }
  destruct (lookup_lt_is_Some_2 H mm ltac:(unfold zlen in *; lia)) as [bh Hbh].
  destruct (lookup_lt_is_Some_2 c mm ltac:(unfold zlen in *; lia)) as [x Hx].
  assert (Hnew : exists rest, new = bh :: rest).
  { unfold new. rewrite (drop_S _ _ _ Hbh). destruct (n - d)%nat eqn:E; [lia|]. cbn [take]. by eexists. }
  destruct Hnew as [rest Hnew].
  assert (Hav : all_valid P now (take mm c) new).
  { rewrite Hagree. unfold new. eapply all_valid_prefix. rewrite take_drop.
    apply honest_seg_valid; [done|done|]. unfold zlen in *. lia. }
  destruct (lookup_lt_is_Some_2 c (pred mm) ltac:(unfold zlen in *; lia)) as [backHead HbH].
  assert (HbH' : H !! pred mm = Some backHead).
  { rewrite <- (lookup_take H mm) by lia. rewrite <- Hagree. rewrite lookup_take by lia. done. }
  assert (Hpb : hprev bh = hid backHead).
  { apply (HlkH (pred mm)); [done|]. by replace (S (pred mm)) with mm by lia. }
  assert (HUm : Forall U (skip ++ new)).
  { rewrite <- Hmsg. unfold honest_reply. apply Forall_take, Forall_drop. exact HUH. }
  assert (HUb : U bh) by (rewrite Forall_forall in HUH; apply HUH; eapply elem_of_list_lookup_2; eauto).
  assert (Hfresh : hid bh ∉ map hid c).
  { eapply (fork_header_fresh c tl (pred mm) backHead x bh); eauto.
    by replace (S (pred mm)) with mm by lia. }
  assert (Hzm : zlen (skip ++ new) <= Z.of_nat n /\ k + 1 + zlen (skip ++ new) <= zlen H).
  { rewrite <- Hmsg. unfold honest_reply, zlen. rewrite take_length, drop_length. unfold zlen in *. lia. }
  assert (Hconn : headers_connected (skip ++ new) = true).
  { rewrite <- Hmsg. unfold honest_reply. by apply linked_connected, linked_take, linked_drop. }
  rewrite Hmsg in Hlim.
  unfold s'. cbn [step]. rewrite Hmsg.
  destruct (handle_headers_spec P U T HU HP now p (skip ++ new) s HI HT HUm ltac:(lia) Hlim) as [HI' _].
  split; [done|].
  rewrite Hnew in *.
  rewrite (handle_skip_reorg now p s skip bh rest m HI HT HUm ltac:(lia) Hlim Hconn Hskip Hg Hm Hav Hfresh Hfloor Hwork).
  fold c mm. rewrite Hagree. split; [done|].
  destruct (upto_cp_prefix P (bh :: rest) (m - 1)) as [r Hr].
  split.
  - rewrite <- (take_drop mm H) at 2. apply prefix_app.
    exists (r ++ drop (n - d) (drop mm H)). rewrite app_assoc, <- Hr, <- Hnew. unfold new. by rewrite take_drop.
  - rewrite zlen_app. pose proof (zlen_pos _ (upto_cp_ne P (m - 1) (bh :: rest) ltac:(done))).
    unfold mm. rewrite zlen_take; [lia|unfold zlen in *; lia].
Qed.

(* ---------- the fork point is never below a checkpoint both chains reach ---------- *)
Lemma same_header_same_prefix c tl H tlH : ChainOK P U T c tl -> ChainOK P U T H tlH ->
  forall h x, c !! h = Some x -> H !! h = Some x -> take (S h) c = take (S h) H.
Proof.
  intros Hc HH. pose proof (ChainOK_linked _ _ _ _ _ Hc) as Hlc. pose proof (ChainOK_linked _ _ _ _ _ HH) as HlH.
  pose proof (co_U _ _ _ _ _ Hc) as HUc. pose proof (co_U _ _ _ _ _ HH) as HUH. rewrite Forall_forall in HUc, HUH.
  induction h as [|h IH]; intros x Hx Hy.
  - rewrite (co_eq _ _ _ _ _ Hc), (co_eq _ _ _ _ _ HH). done.
  - destruct (lookup_lt_is_Some_2 c h ltac:(apply lookup_lt_Some in Hx; lia)) as [a Ha].
    destruct (lookup_lt_is_Some_2 H h ltac:(apply lookup_lt_Some in Hy; lia)) as [b Hb].
    assert (a = b).
    { apply (U_inj _ _ HU); [apply HUc; eapply elem_of_list_lookup_2; eauto|apply HUH; eapply elem_of_list_lookup_2; eauto|].
      rewrite <- (Hlc _ _ _ Ha Hx), <- (HlH _ _ _ Hb Hy). done. }
    subst b. rewrite (take_S_r _ _ _ Hx), (take_S_r _ _ _ Hy). f_equal. by apply (IH a).
Qed.

Lemma fork_above_checkpoint c tl H tlH m :
  ChainOK P U T c tl -> ChainOK P U T H tlH ->
  1 <= m < zlen c -> m < zlen H ->
  (forall x y, c !! Z.to_nat m = Some x -> H !! Z.to_nat m = Some y -> hid x <> hid y) ->
  (find_prev_cp P (zlen c)).1 < zlen H ->
  (find_prev_cp P (zlen c)).1 <= m - 1.
Proof.
  intros Hc HH Hm HmH Hdiff Hreach.
  pose proof (find_prev_cp_spec P (zlen c) (wf_cps P HP)) as (Hp1 & Hp2 & Hp3 & _).
  set (pc := find_prev_cp P (zlen c)) in *.
  destruct (decide (pc.1 <= m - 1)) as [|Hgt]; [done|exfalso].
  destruct Hp1 as [Hp1|Hin]; [rewrite Hp1 in Hgt; cbn in Hgt; lia|].
  pose proof (co_lim _ _ _ _ _ Hc) as HLc. pose proof (co_lim _ _ _ _ _ HH) as HLH.
  specialize (Hp3 ltac:(lia)).
  destruct (lookup_lt_is_Some_2 c (Z.to_nat pc.1) ltac:(unfold zlen in *; lia)) as [x Hx].
  destruct (lookup_lt_is_Some_2 H (Z.to_nat pc.1) ltac:(unfold zlen in *; lia)) as [y Hy].
  assert (Hxh : hid x = pc.2).
  { apply (co_cps _ _ _ _ _ Hc pc x Hin). rewrite at_h_lookup by lia. done. }
  assert (Hyh : hid y = pc.2).
  { apply (co_cps _ _ _ _ _ HH pc y Hin). rewrite at_h_lookup by lia. done. }
  pose proof (co_U _ _ _ _ _ Hc) as HUc. pose proof (co_U _ _ _ _ _ HH) as HUH. rewrite Forall_forall in HUc, HUH.
  assert (x = y).
  { apply (U_inj _ _ HU); [apply HUc; eapply elem_of_list_lookup_2; eauto|apply HUH; eapply elem_of_list_lookup_2; eauto|congruence]. }
  subst y. pose proof (same_header_same_prefix c tl H tlH Hc HH _ x Hx Hy) as Heq.
  destruct (lookup_lt_is_Some_2 c (Z.to_nat m) ltac:(unfold zlen in *; lia)) as [a Ha].
  destruct (lookup_lt_is_Some_2 H (Z.to_nat m) ltac:(unfold zlen in *; lia)) as [b Hb].
  apply (Hdiff a b Ha Hb). f_equal.
  rewrite <- (lookup_take c (S (Z.to_nat pc.1))) in Ha by lia.
  rewrite <- (lookup_take H (S (Z.to_nat pc.1))) in Hb by lia. congruence.
Qed.
End Honest.

(* ==================== reachable states ==================== *)
Lemma U_of_mono P a b h : U_of P a h -> U_of P (a ++ b) h.
Proof. intros [->|Hh]; [by left|right]. rewrite hist_headers_app. apply elem_of_app. by left. Qed.

Lemma reach_Inv_big P gfh ops more : wf_params P -> no_collision P (ops ++ more) -> wf_hist P ops ->
  let s := run P (init_state P gfh) ops in
  universe P (U_of P (ops ++ more)) /\ Inv P (U_of P (ops ++ more)) (fun _ => True) s /\
  zlen (chain s) <= 1 + ops_size ops.
Proof.
  intros HP HU HW s. split; [by apply no_collision_universe|].
  pose proof (reach_Inv_pre P gfh ops [] HP) as Hr. rewrite app_nil_r in Hr.
  destruct (Hr (no_collision_prefix _ _ _ HU) HW) as [HI Hz]. split; [|done].
  eapply Inv_mono; [|done|exact HI]. intros h. apply U_of_mono.
Qed.

Lemma U_of_honest P ops p now H : Forall (U_of P (ops ++ [OHeaders p now H])) H.
Proof.
  apply Forall_forall. intros h Hh. right. rewrite hist_headers_app. apply elem_of_app. right.
  cbn. by rewrite app_nil_r.
Qed.

Lemma HonestChain_intro P U H now : universe P U -> wf_params P -> honest_at P H now = true ->
  Forall U H -> zlen H <= LIMIT -> HonestChain P U (fun _ => True) H.
Proof.
  intros HU HP Hhon HUH HL. split; [|done].
  by destruct (honest_ChainOK P U (fun _ => True) HU HP H now Hhon HUH I HL) as (? & _).
Qed.

Lemma prefix_full {A} (c H : list A) : c `prefix_of` H -> zlen H <= zlen c -> c = H.
Proof.
  intros [k ->] Hl. rewrite zlen_app in Hl. destruct k; [by rewrite app_nil_r|].
  rewrite zlen_cons in Hl. pose proof (zlen_nonneg k). lia.
Qed.

Lemma honest_round_extends P gfh ops H p now n :
  let s := run P (init_state P gfh) ops in
  wf_params P -> no_collision P (ops ++ [OHeaders p now H]) -> wf_hist P ops ->
  zlen H <= 1000000 -> honest_at P H now = true -> (1 <= n)%nat -> Z.of_nat n < memCap P ->
  chain s `prefix_of` H ->
  let msg := honest_reply H (tip_height s) n in
  let s' := step P s (honest_round H p now n s) in
  chain s' = chain s ++ upto_checkpoint P (tip_height s) msg /\
  chain s' `prefix_of` H /\
  (chain s = H \/ zlen (chain s) < zlen (chain s')).
Proof.
  intros s HP HU HW HL Hhon Hn1 Hncap Hpre msg s'.
  destruct (reach_Inv_big P gfh ops _ HP HU HW) as (HUu & HI & _). fold s in HI.
  pose proof (HonestChain_intro P _ H now HUu HP Hhon (U_of_honest P ops p now H) HL) as HH.
  destruct (honest_round_prefix P _ _ HUu HP H p now n s HH Hhon I Hn1 Hncap HI Hpre) as (_ & Hch & Hp' & Hg).
  rewrite upto_checkpoint_eq. done.
Qed.

Lemma converges_from_prefix P gfh ops H p rounds :
  wf_params P -> no_collision P (ops ++ [OHeaders p 0 H]) -> wf_hist P ops ->
  zlen H <= 1000000 -> Forall (round_ok P H) rounds ->
  let s0 := run P (init_state P gfh) ops in
  chain s0 `prefix_of` H ->
  let s := honest_run P H p rounds s0 in
  chain s `prefix_of` H /\
  Z.min (zlen H) (zlen (chain s0) + zlen rounds) <= zlen (chain s) /\
  (zlen H - zlen (chain s0) <= zlen rounds -> chain s = H).
Proof.
  intros HP HU HW HL Hr s0 Hpre.
  destruct rounds as [|[now0 n0] rounds'] eqn:Er.
  { cbn. rewrite zlen_nil. split; [done|]. split; [lia|]. intros Hz. apply prefix_full; [done|lia]. }
  assert (Hhon0 : honest_at P H now0 = true).
  { apply Forall_cons in Hr as [(? & _) _]. done. }
  rewrite <- Er in *. clear Er. intros s.
  destruct (reach_Inv_big P gfh ops _ HP HU HW) as (HUu & HI & _). fold s0 in HI.
  pose proof (HonestChain_intro P _ H now0 HUu HP Hhon0 (U_of_honest P ops p 0 H) HL) as HH.
  destruct (honest_run_spec P _ _ HUu HP H p HH rounds s0) as (_ & Hp' & Hlen); [|done|done|].
  { eapply Forall_impl; [exact Hr|]. intros r Hrr. by split. }
  fold s in Hp', Hlen. split; [done|]. split; [done|]. intros Hz. apply prefix_full; [done|lia].
Qed.

Definition other_ok (P : params) (H : list header) (o : op) : Prop :=
  op_ok P o /\ no_valid_offchain P H o.

Lemma converges_interleaved P gfh ops H p now0 sch :
  wf_params P -> no_collision P (ops ++ sched_ops sch ++ [OHeaders p 0 H]) -> wf_hist P ops ->
  zlen H + ops_size (sched_ops sch) <= 1000000 -> honest_at P H now0 = true ->
  Forall (round_ok P H) (sched_rounds sch) -> Forall (other_ok P H) (sched_ops sch) ->
  let s0 := run P (init_state P gfh) ops in
  chain s0 `prefix_of` H ->
  let s := sched_run P H p sch s0 in
  chain s `prefix_of` H /\
  Z.min (zlen H) (zlen (chain s0) + honest_count sch) <= zlen (chain s) /\
  (zlen H - zlen (chain s0) <= honest_count sch -> chain s = H).
Proof.
  intros HP HU HW HL Hhon0 Hr Ho s0 Hpre s.
  pose proof (ops_size_nonneg (sched_ops sch)) as Hnn.
  destruct (reach_Inv_big P gfh ops _ HP HU HW) as (HUu & HI & _). fold s0 in HI.
  set (U := U_of P (ops ++ sched_ops sch ++ [OHeaders p 0 H])) in *.
  assert (HUH : Forall U H).
  { apply Forall_forall. intros h Hh. right. rewrite !hist_headers_app. apply elem_of_app. right.
    apply elem_of_app. right. cbn. by rewrite app_nil_r. }
  pose proof (HonestChain_intro P _ H now0 HUu HP Hhon0 HUH ltac:(unfold LIMIT; lia)) as HH.
  destruct (sched_run_spec P U _ HUu HP H p HH sch s0) as (_ & Hp' & Hlen); [|done|done|].
  { clear s. apply Forall_forall. intros i Hi. destruct i as [now n|o]; cbn [item_ok].
    - split; [|done]. rewrite Forall_forall in Hr. apply Hr. unfold sched_rounds.
      apply elem_of_list_In, in_flat_map. exists (Honest now n). split; [by apply elem_of_list_In|by left].
    - assert (Hin : o ∈ sched_ops sch).
      { unfold sched_ops. apply elem_of_list_In, in_flat_map. exists (Other o). split; [by apply elem_of_list_In|by left]. }
      rewrite Forall_forall in Ho. destruct (Ho o Hin) as [Hok Hno]. split; [|split; [|done]].
      + assert (Hin2 : o ∈ ops ++ sched_ops sch ++ [OHeaders p 0 H]) by (apply elem_of_app; right; apply elem_of_app; by left).
        pose proof (op_ok_wf P _ o Hin2 Hok) as Hwf.
        destruct o as [q now hs| | | | | | | |]; cbn [wf_op] in *; try done. destruct Hwf as (_ & ? & ?). done.
      + assert (op_size o <= ops_size (sched_ops sch)); [|unfold LIMIT; lia].
        clear -Hin. induction (sched_ops sch) as [|o' l IH]; [by apply elem_of_nil in Hin|].
        cbn [ops_size foldr]. fold (ops_size l). pose proof (ops_size_nonneg l).
        apply elem_of_cons in Hin as [->|Hin]; [lia|]. specialize (IH Hin).
        assert (0 <= op_size o') by (destruct o'; cbn; try lia; apply zlen_nonneg). lia. }
  fold s in Hp', Hlen. split; [done|]. split; [done|]. intros Hz. apply prefix_full; [done|lia].
Qed.

Lemma stays_on_best_chain P gfh ops H p now0 sch :
  wf_params P -> no_collision P (ops ++ sched_ops sch ++ [OHeaders p 0 H]) -> wf_hist P ops ->
  zlen H + ops_size (sched_ops sch) <= 1000000 -> honest_at P H now0 = true ->
  Forall (round_ok P H) (sched_rounds sch) -> Forall (other_ok P H) (sched_ops sch) ->
  chain (run P (init_state P gfh) ops) = H ->
  chain (sched_run P H p sch (run P (init_state P gfh) ops)) = H.
Proof.
  intros HP HU HW HL Hhon0 Hr Ho Heq.
  destruct (converges_interleaved P gfh ops H p now0 sch HP HU HW HL Hhon0 Hr Ho) as (_ & _ & Hfin).
  { by rewrite Heq. }
  apply Hfin. rewrite Heq. unfold honest_count. pose proof (zlen_nonneg (sched_rounds sch)). lia.
Qed.

Lemma keeps_following_growth P gfh ops H ext p rounds :
  wf_params P -> no_collision P (ops ++ [OHeaders p 0 (H ++ ext)]) -> wf_hist P ops ->
  zlen (H ++ ext) <= 1000000 -> Forall (round_ok P (H ++ ext)) rounds ->
  let s0 := run P (init_state P gfh) ops in
  chain s0 = H ->
  let s := honest_run P (H ++ ext) p rounds s0 in
  H `prefix_of` chain s /\ chain s `prefix_of` (H ++ ext) /\
  (zlen ext <= zlen rounds -> chain s = H ++ ext).
Proof.
  intros HP HU HW HL Hr s0 Heq s.
  destruct (converges_from_prefix P gfh ops (H ++ ext) p rounds HP HU HW HL Hr) as (Hp & Hlen & Hfin).
  { fold s0. rewrite Heq. by apply prefix_app_r. }
  fold s0 s in Hp, Hlen, Hfin. rewrite Heq in Hlen, Hfin. rewrite zlen_app in Hlen, Hfin.
  pose proof (zlen_nonneg ext). pose proof (zlen_nonneg rounds).
  split; [|split; [done|intros; apply Hfin; lia]].
  destruct (prefix_weak_total H (chain s) (H ++ ext)) as [?|Hq]; [by apply prefix_app_r|done|done|].
  pose proof (prefix_length _ _ Hq). assert (chain s = H) as ->; [|done].
  apply prefix_full; [done|lia].
Qed.

Lemma reorg_to_heavier_honest_chain P gfh ops H p now n k m :
  let s := run P (init_state P gfh) ops in
  let o := OHeaders p now (honest_reply H k n) in
  wf_params P -> no_collision P (ops ++ [OHeaders p now H]) -> wf_hist P (ops ++ [o]) ->
  zlen H <= 1000000 -> honest_at P H now = true -> Z.of_nat n < memCap P ->
  let c := chain s in
  1 <= m < zlen c -> m < zlen H -> take (Z.to_nat m) c = take (Z.to_nat m) H ->
  (forall x y, at_h c m = Some x -> at_h H m = Some y -> hid x <> hid y) ->
  0 <= k < m -> m - k - 1 < Z.of_nat n ->
  gate_open P now p s ->
  reached_cp P c < zlen H ->
  let new := take (n - Z.to_nat (m - k - 1)) (drop (Z.to_nat m) H) in
  work_of (drop (Z.to_nat m) c) < work_of new ->
  let s' := step P s o in
  chain s' = take (Z.to_nat m) H ++ upto_checkpoint P (m - 1) new /\
  chain s' `prefix_of` H /\ m < zlen (chain s').
Proof.
  intros s o HP HU HW HL Hhon Hncap c Hm HmH Hagree Hdiff Hk Hreach Hg Hcp new Hwork s'.
  assert (HW0 : wf_hist P ops) by (by eapply wf_hist_prefix).
  destruct (reach_Inv_big P gfh ops _ HP HU HW0) as (HUu & HI & Hz). fold s in HI, Hz. fold c in Hz.
  set (U := U_of P (ops ++ [OHeaders p now H])) in *.
  pose proof (HonestChain_intro P _ H now HUu HP Hhon (U_of_honest P ops p now H) HL) as HH.
  destruct (i_chain _ _ _ _ HI) as [tl Htl]. fold c in Htl. pose proof (co_lim _ _ _ _ _ Htl) as HLc.
  assert (Hdiff' : forall x y, c !! Z.to_nat m = Some x -> H !! Z.to_nat m = Some y -> hid x <> hid y).
  { intros x y Hx Hy. apply Hdiff; rewrite at_h_lookup by (unfold LIMIT in *; lia); done. }
  assert (Hlim : zlen c + zlen (honest_reply H k n) <= LIMIT).
  { destruct HW as [_ Hsz]. rewrite ops_size_app in Hsz.
    change (ops_size [o]) with (zlen (honest_reply H k n) + 0) in Hsz. unfold LIMIT. lia. }
  assert (Hfloor : (find_prev_cp P (zlen c)).1 <= m - 1).
  { destruct HH as [[tlH HokH] _].
    eapply (fork_above_checkpoint P U _ HUu HP c tl H tlH); eauto. by rewrite <- reached_cp_eq. }
  rewrite !work_of_wsum in Hwork.
  destruct (honest_round_reorg P U _ HUu HP H p now n k m s HH Hhon I Hncap HI Hlim Hm HmH Hagree Hdiff' Hk Hreach Hg Hfloor Hwork)
    as (_ & Hch & Hp' & Hlt).
  rewrite upto_checkpoint_eq. done.
Qed.

(* ==================== a concrete history ==================== *)
Definition nv_H : list header := [ex_mk 100 0 1000; ex_h1; ex_h2; ex_h3].
Definition nv_ops : list op := [ONewPeer 1 0 10 true; OHeaders 1 ex_now [ex_h1]].
(* a second peer served the lighter valid fork 100,101,202 first *)
Definition nv_fork_ops0 : list op :=
  [ONewPeer 2 0 10 true; OHeaders 2 ex_now [ex_h1; ex_f2]; ONewPeer 1 0 10 true].
(* ... and went away, so that the honest peer 1 became the sync peer *)
Definition nv_fork_ops : list op :=
  [ONewPeer 2 0 10 true; OHeaders 2 ex_now [ex_h1; ex_f2]; ODonePeer 2; ONewPeer 1 0 10 true].
(* garbage from another peer between the honest answers *)
Definition nv_sched : list item :=
  [Honest ex_now 1; Other (OHeaders 3 ex_now [ex_bad4]); Other (ONewPeer 4 0 99 true);
   Other (OHeaders 3 ex_now [ex_mk 999 555 3000]); Honest ex_now 1].
