(* C04 — tie between [best_block] (C04/Spec.v) and ChainService.BestBlock:
   the harness opens a real ChainService skeleton on real header stores with
   a block-header tip n and a filter-header tip f <= n, calls BestBlock and
   records the reported height and which header of the chain the reported
   hash belongs to; here the same is computed by the model.  A failing row is
   reported as (row index, kind 3, 0, 0). *)
From stdpp Require Import list.
From Coq Require Import ZArith Lia.
From Verif Require Import S2.Model C04.Spec.
Open Scope Z_scope.

(* header tokens: the hash of the header at height i is i *)
Definition bb_hdr (i : Z) : header :=
  {| hid := i; hprev := i - 1; hnum := 0; hbits := 0; htime := 0; hver := 0 |}.
Definition bb_state (n f : Z) : state :=
  {| chain := map (fun i => bb_hdr (Z.of_nat i)) (seq 0 (zn (n + 1)));
     fchain := map Z.of_nat (seq 0 (zn (f + 1)));
     hl := []; syncPeer := None; cands := []; nextCp := None; peers := [];
     ftipVar := f; events := []; trap := false |}.

(* row: block-header tip, filter-header tip, reported height (-1 = BestBlock
   failed), height of the chain header whose hash was reported (-1 = none) *)
Definition bb_ok (row : Z * Z * Z * Z) : bool :=
  let '(n, f, h, idx) := row in
  match best_block (bb_state n f) with
  | Some (h', x) => (h' =? h) && (hid x =? idx)
  | None => h =? -1
  end.

Fixpoint run_bb_from (i : Z) (rows : list (Z * Z * Z * Z)) : list (Z * Z * Z * Z) :=
  match rows with
  | [] => []
  | r :: t => (if bb_ok r then [] else [(i, 3, 0, 0)]) ++ run_bb_from (i + 1) t
  end.
Definition run_bb (rows : list (Z * Z * Z * Z)) : list (Z * Z * Z * Z) := run_bb_from 0 rows.
