(* C07 — proofs: the store model refines the plain log. *)
From stdpp Require Import gmap list.
From Coq Require Import ZArith Lia ZifyBool.
From Verif Require Import S1.Model C07.Spec.
Open Scope Z_scope.

Local Ltac zn_simpl := unfold zn; repeat (case_bool_decide || idtac).

Lemma zn_eq z : 0 <= z < LIMIT -> zn z = Z.to_nat z.
Proof.
  intros H. unfold zn, LIMIT in *.
  destruct (0 <=? z) eqn:E1; destruct (z <? 1000000) eqn:E2; cbn; try reflexivity; lia.
Qed.

Lemma alen_nonneg l : 0 <= alen l.
Proof. unfold alen. lia. Qed.

Lemma at_h_Some l h x : at_h l h = Some x -> 0 <= h < alen l.
Proof.
  unfold at_h. destruct (0 <=? h) eqn:E1; destruct (h <? alen l) eqn:E2; cbn; try discriminate. lia.
Qed.

Lemma at_h_lookup l h : 0 <= h < alen l -> alen l <= LIMIT -> at_h l h = l !! Z.to_nat h.
Proof.
  intros H HL. unfold at_h.
  destruct (0 <=? h) eqn:E1; destruct (h <? alen l) eqn:E2; cbn; try lia.
  rewrite zn_eq by lia. reflexivity.
Qed.

Lemma at_h_None l h : ~ (0 <= h < alen l) -> at_h l h = None.
Proof.
  intros H. unfold at_h.
  destruct (0 <=? h) eqn:E1; destruct (h <? alen l) eqn:E2; cbn; try reflexivity. lia.
Qed.

Lemma at_h_is_Some l h : 0 <= h < alen l -> alen l <= LIMIT -> exists x, at_h l h = Some x.
Proof.
  intros H HL. rewrite at_h_lookup by assumption.
  apply lookup_lt_is_Some. unfold alen in H. lia.
Qed.

Lemma at_h_app_l l1 l2 h : alen (l1 ++ l2) <= LIMIT -> 0 <= h < alen l1 -> at_h (l1 ++ l2) h = at_h l1 h.
Proof.
  intros HL H. assert (alen (l1 ++ l2) = alen l1 + alen l2) by (unfold alen; rewrite app_length; lia).
  pose proof (alen_nonneg l2).
  rewrite !at_h_lookup by lia. apply lookup_app_l. unfold alen in H. lia.
Qed.

Lemma at_h_app_r l1 l2 i : alen (l1 ++ l2) <= LIMIT ->
  at_h (l1 ++ l2) (alen l1 + Z.of_nat i) = l2 !! i.
Proof.
  intros HL. assert (alen (l1 ++ l2) = alen l1 + alen l2) by (unfold alen; rewrite app_length; lia).
  destruct (decide (Z.of_nat i < alen l2)) as [Hi|Hi].
  - pose proof (alen_nonneg l1). rewrite at_h_lookup by lia.
    rewrite lookup_app_r by (unfold alen; lia). f_equal. unfold alen. lia.
  - rewrite at_h_None by lia. symmetry. apply lookup_ge_None. unfold alen in Hi. lia.
Qed.

Lemma at_h_take l k h : alen l <= LIMIT -> 0 <= k <= alen l ->
  at_h (take (Z.to_nat k) l) h = if h <? k then at_h l h else None.
Proof.
  intros HL Hk.
  assert (Hlen : alen (take (Z.to_nat k) l) = k).
  { unfold alen in *. rewrite take_length. lia. }
  destruct (h <? k) eqn:E.
  - destruct (decide (0 <= h)) as [H0|H0].
    + rewrite !at_h_lookup by lia. apply lookup_take. lia.
    + rewrite !at_h_None by lia. reflexivity.
  - apply at_h_None. lia.
Qed.

(* ---------- flat file reads under junk = 0 ---------- *)
Lemma fread_aligned esz f h : 0 < esz -> junk f = 0 -> flen f <= LIMIT ->
  fread esz f h = match at_h (ents f) h with Some a => RdOk a | None => RdEOF end.
Proof.
  intros He Hj HL. unfold fread, fsize, flen in *. rewrite Hj.
  destruct (h <? 0) eqn:E0.
  - rewrite at_h_None by lia. reflexivity.
  - destruct (h <? Z.of_nat (length (ents f))) eqn:E1.
    + rewrite at_h_lookup by (unfold alen; lia). rewrite zn_eq by lia. reflexivity.
    + rewrite at_h_None by (unfold alen; lia).
      destruct ((h + 1) * esz <=? Z.of_nat (length (ents f)) * esz + 0) eqn:E2; [|reflexivity].
      exfalso. nia.
Qed.

(* ---------- index ---------- *)
Lemma index_of_spec x l : forall i,
  match index_of x l i with
  | Some h => i <= h /\ l !! Z.to_nat (h - i) = Some x /\
              (forall j, (j < Z.to_nat (h - i))%nat -> l !! j <> Some x)
  | None => x ∉ l
  end.
Proof.
  induction l as [|y l IH]; intros i; cbn.
  - apply not_elem_of_nil.
  - destruct (y =? x) eqn:E.
    + apply Z.eqb_eq in E; subst. split; [lia|]. rewrite Z.sub_diag. cbn. split; [reflexivity|]. intros j Hj. lia.
    + apply Z.eqb_neq in E. specialize (IH (i + 1)). destruct (index_of x l (i + 1)) as [h|].
      * destruct IH as (H1 & H2 & H3). split; [lia|].
        replace (Z.to_nat (h - i)) with (S (Z.to_nat (h - (i + 1)))) by lia. cbn. split; [exact H2|].
        intros [|j] Hj; cbn; [congruence|]. apply H3. lia.
      * intros [->|H]%elem_of_cons; [congruence|contradiction].
Qed.

Lemma height_of_at_h a x h : NoDup (bl a) -> alen (bl a) <= LIMIT ->
  height_of a x = Some h <-> at_h (bl a) h = Some x.
Proof.
  intros Hnd HL. unfold height_of. pose proof (index_of_spec x (bl a) 0) as Hs.
  destruct (index_of x (bl a) 0) as [h'|] eqn:E.
  - destruct Hs as (H1 & H2 & _). rewrite Z.sub_0_r in H2.
    assert (Hlt : (Z.to_nat h' < length (bl a))%nat) by (eapply lookup_lt_Some; eauto).
    split.
    + intros [= <-]. rewrite at_h_lookup by (unfold alen in *; lia). exact H2.
    + intros Hh. pose proof (at_h_Some _ _ _ Hh). rewrite at_h_lookup in Hh by lia.
      f_equal. pose proof (NoDup_lookup _ _ _ _ Hnd H2 Hh). lia.
  - split; [discriminate|]. intros Hh. pose proof (at_h_Some _ _ _ Hh).
    rewrite at_h_lookup in Hh by lia. exfalso. apply Hs. eapply elem_of_list_lookup_2; eauto.
Qed.

Lemma add_entries_lookup l : forall m x h, NoDup l.*1 ->
  add_entries m l !! x = Some h <-> ((x, h) ∈ l \/ (x ∉ l.*1 /\ m !! x = Some h)).
Proof.
  induction l as [|[k v] l IH]; intros m x h Hnd; unfold add_entries in *; cbn [fold_left].
  - split; [intros H; right; split; [apply not_elem_of_nil|exact H]|].
    intros [H|[_ H]]; [by apply elem_of_nil in H|exact H].
  - cbn in Hnd. apply NoDup_cons in Hnd as [Hk Hnd]. rewrite IH by exact Hnd. cbn.
    split.
    + intros [H|[H1 H2]]; [left; by right|].
      destruct (decide (k = x)) as [->|Hne].
      * rewrite lookup_insert in H2. injection H2 as <-. left. by left.
      * rewrite lookup_insert_ne in H2 by exact Hne. right. split; [|exact H2].
        intros [->|?]%elem_of_cons; [congruence|contradiction].
    + intros [H|[H1 H2]].
      * apply elem_of_cons in H as [[= -> ->]|H]; [|by left].
        right. split; [exact Hk|apply lookup_insert].
      * right. apply not_elem_of_cons in H1 as [H1 H1']. split; [exact H1'|].
        rewrite lookup_insert_ne by congruence. exact H2.
Qed.

Lemma del_entries_lookup xs : forall (m : gmap Z Z) x,
  fold_left (fun m x => delete x m) xs m !! x = if decide (x ∈ xs) then None else m !! x.
Proof.
  induction xs as [|a xs IH]; intros m x; cbn [fold_left].
  - rewrite decide_False by apply not_elem_of_nil. reflexivity.
  - rewrite IH. destruct (decide (x ∈ xs)) as [Hin|Hnin].
    + rewrite decide_True by (by right). reflexivity.
    + destruct (decide (x = a)) as [->|Hne].
      * rewrite decide_True by left. apply lookup_delete.
      * rewrite decide_False by (intros [->|?]%elem_of_cons; done).
        by rewrite lookup_delete_ne.
Qed.

Lemma insert_sorted_perm e l : insert_sorted e l ≡ₚ e :: l.
Proof.
  induction l as [|x l IH]; cbn; [reflexivity|].
  destruct (e.1 <=? x.1); [reflexivity|]. rewrite IH. apply Permutation_swap.
Qed.
Lemma sort_batch_perm es : sort_batch es ≡ₚ es.
Proof.
  induction es as [|e es IH]; cbn; [reflexivity|].
  rewrite insert_sorted_perm. by f_equiv.
Qed.

Lemma batch_tip_max l : forall acc,
  let r := fold_left (fun (acc : Z * Z) e => if e.2 >=? acc.2 then e else acc) l acc in
  (r = acc \/ r ∈ l) /\ acc.2 <= r.2 /\ forall e, e ∈ l -> e.2 <= r.2.
Proof.
  induction l as [|e l IH]; intros acc; cbn.
  - split; [by left|]. split; [lia|]. intros e H. by apply elem_of_nil in H.
  - destruct (e.2 >=? acc.2) eqn:E.
    + destruct (IH e) as (H1 & H2 & H3). split; [|split].
      * destruct H1 as [->|H1]; right; [by left|by right].
      * lia.
      * intros e' [->|H]%elem_of_cons; [exact H2|by apply H3].
    + destruct (IH acc) as (H1 & H2 & H3). split; [|split].
      * destruct H1 as [H1|H1]; [by left|right; by right].
      * exact H2.
      * intros e' [->|H]%elem_of_cons; [lia|by apply H3].
Qed.

(* ---------- the refinement relation ---------- *)
Record Inv (s : store) (a : alog) : Prop := {
  i_bj : junk (bf s) = 0;
  i_fj : junk (ff s) = 0;
  i_be : ents (bf s) = bl a;
  i_fe : ents (ff s) = fl a;
  i_nd : NoDup (bl a);
  i_idx : forall x h, idx s !! x = Some h <-> at_h (bl a) h = Some x;
  i_bt : btip s = last (bl a);
  i_bne : bl a <> [];
  i_fne : fl a <> [];
  i_le : alen (fl a) <= alen (bl a);
  i_ft : ftip s = at_h (bl a) (alen (fl a) - 1);
  i_lim : alen (bl a) < LIMIT
}.

Lemma alen_pos l : l <> [] -> 0 < alen l.
Proof. destruct l; [congruence|]. unfold alen. cbn. lia. Qed.

Lemma last_at_h l : l <> [] -> alen l <= LIMIT -> last l = at_h l (alen l - 1).
Proof.
  intros Hne HL. pose proof (alen_pos l Hne). rewrite at_h_lookup by lia.
  rewrite last_lookup. f_equal. unfold alen. lia.
Qed.

Section Reads.
Context (s : store) (a : alog) (HI : Inv s a).

Lemma idx_height_of x : idx s !! x = height_of a x.
Proof.
  destruct HI. destruct (height_of a x) as [h|] eqn:E.
  - apply i_idx0. apply height_of_at_h; [assumption|lia|exact E].
  - destruct (idx s !! x) as [h|] eqn:E2; [|reflexivity].
    apply i_idx0 in E2. apply height_of_at_h in E2; [congruence|assumption|lia].
Qed.

Lemma bread h : fread BSZ (bf s) h = match at_h (bl a) h with Some x => RdOk x | None => RdEOF end.
Proof.
  destruct HI. rewrite fread_aligned; [by rewrite i_be0|unfold BSZ; lia|assumption|].
  unfold flen. rewrite i_be0. unfold alen in *. lia.
Qed.
Lemma fread_f h : fread FSZ (ff s) h = match at_h (fl a) h with Some x => RdOk x | None => RdEOF end.
Proof.
  destruct HI. rewrite fread_aligned; [by rewrite i_fe0|unfold FSZ; lia|assumption|].
  unfold flen. rewrite i_fe0. unfold alen in *. lia.
Qed.

Lemma b_by_height_ok h : b_by_height s h = at_h (bl a) h.
Proof. unfold b_by_height. rewrite bread. by destruct (at_h (bl a) h). Qed.
Lemma f_by_height_ok h : f_by_height s h = at_h (fl a) h.
Proof. unfold f_by_height. rewrite fread_f. by destruct (at_h (fl a) h). Qed.

Lemma btip_height_ok : tip_height s (btip s) = a_tip (bl a).
Proof.
  destruct HI. unfold tip_height, a_tip. rewrite i_bt0.
  destruct (last (bl a)) as [t|] eqn:E; [|reflexivity].
  rewrite last_at_h in E by (assumption || lia).
  apply i_idx0 in E. by rewrite E.
Qed.

Lemma ftip_height_ok : tip_height s (ftip s) =
  match at_h (bl a) (alen (fl a) - 1) with Some t => Some (t, alen (fl a) - 1) | None => None end.
Proof.
  destruct HI. unfold tip_height. rewrite i_ft0.
  destruct (at_h (bl a) (alen (fl a) - 1)) as [t|] eqn:E; [|reflexivity].
  apply i_idx0 in E. by rewrite E.
Qed.

Lemma ftip_is_Some : exists t, at_h (bl a) (alen (fl a) - 1) = Some t.
Proof.
  destruct HI. pose proof (alen_pos _ i_fne0). apply at_h_is_Some; lia.
Qed.

Lemma b_chain_tip_ok : b_chain_tip s = a_tip (bl a).
Proof.
  unfold b_chain_tip. rewrite btip_height_ok. unfold a_tip.
  destruct (last (bl a)) as [t|] eqn:E; [|reflexivity].
  destruct HI. rewrite bread. rewrite <- last_at_h by (assumption || lia). by rewrite E.
Qed.

Lemma f_chain_tip_ok : f_chain_tip s = a_tip (fl a).
Proof.
  unfold f_chain_tip. rewrite ftip_height_ok. destruct ftip_is_Some as [t Ht]. rewrite Ht.
  destruct HI. rewrite fread_f. unfold a_tip.
  rewrite <- last_at_h by (assumption || lia).
  destruct (last (fl a)) eqn:E; [reflexivity|]. apply last_None in E. contradiction.
Qed.

Lemma b_by_hash_ok x :
  b_by_hash s x = match height_of a x with Some h => Some (x, h) | None => None end.
Proof.
  unfold b_by_hash. rewrite idx_height_of. destruct (height_of a x) as [h|] eqn:E; [|reflexivity].
  destruct HI. apply height_of_at_h in E; [|assumption|lia]. rewrite bread, E. reflexivity.
Qed.

Lemma f_by_hash_ok x :
  f_by_hash s x = match height_of a x with Some h => at_h (fl a) h | None => None end.
Proof.
  unfold f_by_hash. rewrite idx_height_of. destruct (height_of a x); [apply f_by_height_ok|reflexivity].
Qed.

Lemma read_range_ok esz f l start stop :
  0 < esz -> junk f = 0 -> ents f = l -> alen l < LIMIT -> 0 <= start ->
  (map rd_tok <$> read_range esz f start stop) = a_range l start stop.
Proof.
  intros He Hj Hl HL Hs. unfold read_range, a_range, fsize, flen. rewrite Hj, Hl.
  fold (alen l). set (n := u32 (stop - start + 1)).
  assert (0 <= n < U32) by (unfold n, u32, U32; apply Z.mod_pos_bound; lia).
  destruct (start + n <=? alen l) eqn:E.
  - replace ((start + n) * esz <=? alen l * esz + 0) with true by (symmetry; apply Z.leb_le; nia).
    cbn. f_equal. rewrite map_map. apply map_ext_in. intros i Hi.
    apply in_seq in Hi.
    assert (Hn : zn n = Z.to_nat n) by (apply zn_eq; lia).
    rewrite Hn in Hi.
    rewrite fread_aligned; [|assumption|assumption|unfold flen; rewrite Hl; unfold alen in *; lia].
    rewrite Hl. destruct (at_h_is_Some l (start + Z.of_nat i)) as [x Hx]; [lia|lia|].
    by rewrite Hx.
  - replace ((start + n) * esz <=? alen l * esz + 0) with false by (symmetry; apply Z.leb_gt; nia).
    reflexivity.
Qed.

Lemma u32_nonneg z : 0 <= u32 z.
Proof. unfold u32, U32. apply Z.mod_pos_bound. lia. Qed.

Lemma b_ancestors_ok n x : b_ancestors s n x = a_ancestors a (bl a) n x.
Proof.
  unfold b_ancestors, ancestors, a_ancestors. rewrite idx_height_of.
  destruct (height_of a x) as [e|]; [|reflexivity].
  destruct HI. rewrite <- (read_range_ok BSZ (bf s) (bl a)); try assumption; try (unfold BSZ; lia); try lia; [|apply u32_nonneg].
  by destruct (read_range BSZ (bf s) (u32 (e - n)) e).
Qed.
Lemma f_ancestors_ok n x : f_ancestors s n x = a_ancestors a (fl a) n x.
Proof.
  unfold f_ancestors, ancestors, a_ancestors. rewrite idx_height_of.
  destruct (height_of a x) as [e|]; [|reflexivity].
  destruct HI. rewrite <- (read_range_ok FSZ (ff s) (fl a)); try assumption; try (unfold FSZ; lia); try lia; [|apply u32_nonneg].
  by destruct (read_range FSZ (ff s) (u32 (e - n)) e).
Qed.

Lemma locator_loop_ok fuel : forall h dec acc,
  locator_loop fuel s h dec acc = a_locator_loop fuel (bl a) h dec acc.
Proof.
  induction fuel as [|fuel IH]; intros h dec acc; cbn [locator_loop a_locator_loop]; [reflexivity|].
  destruct ((h >? 0) && (Z.of_nat (length acc) <? 500)); [|reflexivity].
  rewrite b_by_height_ok.
  match goal with |- context [at_h (bl a) ?hh] => destruct (at_h (bl a) hh) end; [apply IH|reflexivity].
Qed.
Lemma locator_ok x : locator_from_hash s x = a_locator a x.
Proof.
  unfold locator_from_hash, a_locator. rewrite idx_height_of.
  destruct (height_of a x) as [h|]; [|reflexivity].
  destruct (h =? 0); [reflexivity|apply locator_loop_ok].
Qed.
Lemma latest_locator_ok :
  latest_locator s = match last (bl a) with Some t => Some (a_locator a t) | None => None end.
Proof.
  unfold latest_locator. rewrite btip_height_ok. unfold a_tip.
  destruct (last (bl a)); [by rewrite locator_ok|reflexivity].
Qed.
End Reads.

(* ---------- reopen is the identity ---------- *)
Lemma set_bf_id s : set_bf s (bf s) = s. Proof. by destruct s. Qed.
Lemma set_ff_id s : set_ff s (ff s) = s. Proof. by destruct s. Qed.

Lemma fsize_pos esz f l : 0 < esz -> ents f = l -> junk f = 0 -> l <> [] -> 0 < fsize esz f.
Proof. intros He Hl Hj Hne. unfold fsize, flen. rewrite Hl, Hj. pose proof (alen_pos l Hne). unfold alen in *. nia. Qed.

Lemma trim_id esz f : 0 < esz -> junk f = 0 -> trim esz f = f.
Proof.
  intros He Hj. unfold trim, fsize. rewrite Hj, Z.add_0_r, Z.mod_mul by lia. reflexivity.
Qed.

(* after initialisation both tip keys exist: resetIfNoTip never fires *)
Lemma btip_Some s a : Inv s a -> btip s = Some (default 0 (last (bl a))).
Proof.
  intros []. rewrite i_bt0. destruct (last (bl a)) eqn:E; [reflexivity|apply last_None in E; contradiction].
Qed.
Lemma ftip_Some s a : Inv s a -> ftip s = Some (default 0 (at_h (bl a) (alen (fl a) - 1))).
Proof.
  intros HI. destruct (ftip_is_Some s a HI) as [t Ht]. destruct HI. by rewrite i_ft0, Ht.
Qed.

Lemma recover_id g gfh s a : Inv s a -> recover g gfh s = Some s.
Proof.
  intros HI. unfold recover.
  assert (Hb : recover_block g s = Some s).
  { unfold recover_block. rewrite trim_id by (unfold BSZ; lia || by destruct HI).
    rewrite (btip_Some s a HI). cbn [reset_if_no_tip]. rewrite set_bf_id.
    cbv zeta. destruct HI.
    pose proof (fsize_pos BSZ (bf s) (bl a) ltac:(unfold BSZ; lia) i_be0 i_bj0 i_bne0) as Hp.
    replace (fsize BSZ (bf s) =? 0) with false by (symmetry; apply Z.eqb_neq; lia).
    assert (HI : Inv s a) by (constructor; assumption).
    rewrite (btip_height_ok s a HI). unfold a_tip.
    destruct (last (bl a)) as [t|] eqn:E; [|apply last_None in E; contradiction].
    unfold fsize, flen. rewrite i_bj0, i_be0. fold (alen (bl a)).
    pose proof (alen_pos _ i_bne0).
    replace ((alen (bl a) * BSZ + 0) / BSZ) with (alen (bl a)) by (unfold BSZ; rewrite Z.add_0_r, Z.div_mul; lia).
    unfold u32. rewrite Z.mod_small by (unfold U32, LIMIT in *; lia).
    rewrite (bread s a HI). rewrite <- last_at_h by (assumption || lia). rewrite E. cbn [rd_tok].
    by rewrite Z.eqb_refl. }
  rewrite Hb. unfold recover_filter. rewrite trim_id by (unfold FSZ; lia || by destruct HI).
  rewrite (ftip_Some s a HI). cbn [reset_if_no_tip]. rewrite set_ff_id.
  cbv zeta. unfold reconcile_filter. destruct HI.
  pose proof (fsize_pos FSZ (ff s) (fl a) ltac:(unfold FSZ; lia) i_fe0 i_fj0 i_fne0) as Hp.
  replace (fsize FSZ (ff s) =? 0) with false by (symmetry; apply Z.eqb_neq; lia).
  assert (HI : Inv s a) by (constructor; assumption).
  rewrite (ftip_height_ok s a HI). destruct (ftip_is_Some s a HI) as [t Ht]. rewrite Ht.
  unfold fsize, flen. rewrite i_fj0, i_fe0. fold (alen (fl a)).
  pose proof (alen_pos _ i_fne0).
  replace ((alen (fl a) * FSZ + 0) / FSZ) with (alen (fl a)) by (unfold FSZ; rewrite Z.add_0_r, Z.div_mul; lia).
  assert (Hfh : u32 (alen (fl a) - 1) = alen (fl a) - 1)
    by (unfold u32; apply Z.mod_small; unfold U32, LIMIT in *; lia).
  cbv zeta. rewrite !Hfh.
  rewrite (fread_f s a HI). destruct (at_h_is_Some (fl a) (alen (fl a) - 1)) as [x Hx]; [lia|lia|].
  rewrite Hx. cbn [rd_tok]. destruct (x =? t); [reflexivity|].
  rewrite Z.sub_diag. unfold u32. rewrite Z.mod_0_l by (unfold U32; lia).
  unfold truncate_headers. cbn. by rewrite set_ff_id.
Qed.

(* ---------- appends ---------- *)
Lemma alen_app (l1 l2 : list Z) : alen (l1 ++ l2) = alen l1 + alen l2.
Proof. unfold alen. rewrite app_length. lia. Qed.

(* a partial write followed by the compensating truncate restores the file *)
Lemma ftruncate_back esz f es k : 0 < esz -> junk f = 0 -> 0 <= k < alen es * esz ->
  flen f + alen es < LIMIT ->
  ftruncate esz (fappend_partial esz f es k) (fsize esz f) = Some f.
Proof.
  intros He Hj Hk HL. unfold fappend_partial, fsize. rewrite Hj. cbn [Z.eqb]. rewrite Z.add_0_r.
  unfold ftruncate, flen in *. cbn [ents junk].
  pose proof (alen_nonneg es).
  assert (Hq : 0 <= k / esz < alen es).
  { split; [apply Z.div_pos; lia|apply Z.div_lt_upper_bound; lia]. }
  rewrite (zn_eq (k / esz)) by (unfold LIMIT in *; lia).
  set (q := Z.to_nat (k / esz)).
  assert (Hlen : length (take q es) = q) by (apply take_length_le; unfold alen, q in *; lia).
  rewrite app_length, Hlen.
  replace (Z.of_nat (length (ents f)) * esz <? 0) with false by (symmetry; apply Z.ltb_ge; nia).
  destruct (Z.of_nat (length (ents f)) * esz >=? Z.of_nat (length (ents f) + q) * esz) eqn:E.
  - assert (q = 0%nat) by nia. subst q. rewrite H0. cbn [take]. rewrite app_nil_r.
    destruct f as [e j]; cbn in *. subst j. f_equal. f_equal. nia.
  - rewrite Z.div_mul by lia. rewrite Z.mod_mul by lia.
    rewrite zn_eq by (unfold LIMIT in *; lia). rewrite Nat2Z.id, take_app.
    destruct f as [e j]; cbn in *. by subst j.
Qed.

(* a whole append followed by truncateHeaders(len) restores the file *)
Lemma ftruncate_append_back esz f es : 0 < esz -> junk f = 0 ->
  flen f + alen es < LIMIT ->
  ftruncate esz (fappend esz f es) (fsize esz (fappend esz f es) - alen es * esz) = Some f.
Proof.
  intros He Hj HL. unfold fappend, fsize. rewrite Hj. cbn [Z.eqb].
  unfold ftruncate, flen in *. cbn [ents junk]. rewrite app_length, Z.add_0_r.
  fold (alen es).
  replace (Z.of_nat (length (ents f) + length es) * esz - alen es * esz)
    with (Z.of_nat (length (ents f)) * esz) by (unfold alen; nia).
  pose proof (alen_nonneg es).
  replace (Z.of_nat (length (ents f)) * esz <? 0) with false by (symmetry; apply Z.ltb_ge; nia).
  destruct (Z.of_nat (length (ents f)) * esz >=? Z.of_nat (length (ents f) + length es) * esz) eqn:E.
  - assert (length es = 0%nat) by nia. destruct es; [|discriminate]. rewrite app_nil_r.
    destruct f as [e j]; cbn in *. subst j. f_equal. f_equal. nia.
  - rewrite Z.div_mul by lia. rewrite Z.mod_mul by lia.
    rewrite zn_eq by (unfold LIMIT in *; lia). rewrite Nat2Z.id, take_app.
    destruct f as [e j]; cbn in *. by subst j.
Qed.

Lemma fappend_nil esz f : junk f = 0 -> fappend esz f [] = f.
Proof. intros Hj. unfold fappend. rewrite Hj. cbn. rewrite app_nil_r. destruct f; cbn in *. by subst. Qed.

Lemma append_raw_fault esz f es flt :
  0 < esz -> junk f = 0 -> flen f + alen es < LIMIT ->
  single_append_fault flt (alen es * esz) ->
  append_raw esz f es flt =
    match flt with WriteFail _ => (f, RErr) | _ => (fappend esz f es, ROk) end.
Proof.
  intros He Hj HL Hf. unfold append_raw. destruct flt; try reflexivity; try contradiction.
  cbn in Hf. destruct (k >? 0) eqn:E; [|reflexivity].
  by rewrite ftruncate_back.
Qed.

Lemma heights_lookup (a : alog) (es : list (Z * Z)) i e :
  es.*2 = map (fun i => alen (bl a) + Z.of_nat i) (seq 0 (length es)) ->
  es !! i = Some e -> e.2 = alen (bl a) + Z.of_nat i.
Proof.
  intros Hh He. assert (H2 : es.*2 !! i = Some e.2) by (by rewrite list_lookup_fmap, He).
  rewrite Hh in H2. rewrite list_lookup_fmap in H2.
  destruct (seq 0 (length es) !! i) as [j|] eqn:Ej; [|discriminate].
  apply lookup_seq in Ej as [-> _]. cbn in H2. congruence.
Qed.

Lemma bwrite_ok s a es :
  Inv s a -> wf_op a (BWrite es NoFault) ->
  Inv (fst (bwrite s es NoFault)) {| bl := bl a ++ es.*1; fl := fl a |} /\
  snd (bwrite s es NoFault) = ROk.
Proof.
  intros HI (Hh & Hnd & Hlim & _ & _).
  destruct es as [|e0 es0] eqn:Ees; unfold bwrite, append_raw.
  { cbn [fmap list_fmap]. rewrite fappend_nil by (by destruct HI). rewrite set_bf_id. cbn.
    split; [|reflexivity]. destruct HI. constructor; cbn; rewrite ?app_nil_r; assumption. }
  cbv iota beta zeta. rewrite <- Ees in *. assert (Hne : es <> []) by (subst; discriminate).
  cbn [fst snd]. split; [|reflexivity]. clear Ees e0 es0.
  pose proof HI as HI0. destruct HI.
  assert (HL : alen (bl a ++ es.*1) <= LIMIT) by (rewrite alen_app; lia).
  assert (Hperm : sort_batch es ≡ₚ es) by apply sort_batch_perm.
  assert (Hnd2 : NoDup (sort_batch es).*1).
  { rewrite Hperm. by apply NoDup_app in Hnd as (_ & _ & ?). }
  (* index characterisation *)
  assert (Hidx : forall x h, add_entries (idx s) (sort_batch es) !! x = Some h <->
                             at_h (bl a ++ es.*1) h = Some x).
  { intros x h. rewrite add_entries_lookup by exact Hnd2. rewrite Hperm. split.
    - intros [Hin|[Hnin Hold]].
      + apply elem_of_list_lookup in Hin as [i Hi].
        pose proof (heights_lookup a es i _ Hh Hi) as Hhi. cbn in Hhi. subst h.
        rewrite at_h_app_r by exact HL. by rewrite list_lookup_fmap, Hi.
      + apply i_idx0 in Hold. pose proof (at_h_Some _ _ _ Hold).
        rewrite at_h_app_l by (assumption || lia). exact Hold.
    - intros Hat. pose proof (at_h_Some _ _ _ Hat) as Hr. rewrite alen_app in Hr.
      destruct (decide (h < alen (bl a))) as [Hlt|Hge].
      + rewrite at_h_app_l in Hat by (assumption || lia). right. split; [|by apply i_idx0].
        apply NoDup_app in Hnd as (_ & Hdisj & _). apply Hdisj.
        pose proof (at_h_Some _ _ _ Hat). rewrite at_h_lookup in Hat by lia.
        eapply elem_of_list_lookup_2; eauto.
      + replace h with (alen (bl a) + Z.of_nat (Z.to_nat (h - alen (bl a)))) in Hat |- * by lia.
        rewrite at_h_app_r in Hat by exact HL. rewrite list_lookup_fmap in Hat.
        destruct (es !! Z.to_nat (h - alen (bl a))) as [e|] eqn:Ee; [|discriminate].
        cbn in Hat. injection Hat as <-. left.
        pose proof (heights_lookup a es _ _ Hh Ee) as Hhi.
        rewrite <- Hhi. destruct e. eapply elem_of_list_lookup_2; eauto. }
  (* tip *)
  assert (Htip : Some (batch_tip (sort_batch es)).1 = last (bl a ++ es.*1)).
  { destruct (batch_tip_max (sort_batch es) (0, 0)) as (Hin & Hge0 & Hmax). fold (batch_tip (sort_batch es)) in *.
    set (r := batch_tip (sort_batch es)) in *.
    destruct (last es) as [el|] eqn:El; [|apply last_None in El; contradiction].
    assert (Hel : es !! pred (length es) = Some el) by (by rewrite <- last_lookup).
    pose proof (heights_lookup a es _ _ Hh Hel) as Hhl.
    assert (Hlen : (0 < length es)%nat) by (destruct es; [contradiction|cbn; lia]).
    assert (Hrel : el.2 <= r.2).
    { apply Hmax. rewrite Hperm. eapply elem_of_list_lookup_2; eauto. }
    assert (Hr : r ∈ es).
    { destruct Hin as [Hr0|Hr]; [|by rewrite <- Hperm].
      exfalso. rewrite Hr0 in Hrel. cbn in Hrel. pose proof (alen_pos _ i_bne0). lia. }
    apply elem_of_list_lookup in Hr as [i Hi].
    pose proof (heights_lookup a es _ _ Hh Hi) as Hhi.
    assert (i < length es)%nat by (eapply lookup_lt_Some; eauto).
    assert (i = pred (length es)) by lia. subst i.
    rewrite last_app. rewrite (fmap_last fst es), El. cbn. congruence. }
  constructor; cbn [bf ff idx btip ftip bl fl]; try assumption.
  - unfold fappend. by rewrite i_bj0.
  - unfold fappend. rewrite i_bj0. cbn. by rewrite i_be0.
  - destruct (bl a); [contradiction|discriminate].
  - rewrite alen_app. pose proof (alen_nonneg es.*1). lia.
  - rewrite i_ft0. pose proof (alen_pos _ i_fne0). symmetry. apply at_h_app_l; [exact HL|lia].
  - rewrite alen_app. lia.
Qed.

Lemma bwrite_fault s a es flt :
  Inv s a -> wf_op a (BWrite es flt) -> flt <> NoFault ->
  bwrite s es flt = (s, RErr).
Proof.
  intros HI (Hh & Hnd & Hlim & Hf & Hne) Hflt. specialize (Hne Hflt).
  destruct HI. unfold bwrite.
  assert (HL : flen (bf s) + alen es.*1 < LIMIT) by (unfold flen; rewrite i_be0; exact Hlim).
  rewrite (append_raw_fault BSZ (bf s) es.*1 flt) by (try exact Hf; try assumption; unfold BSZ; lia).
  destruct flt; try contradiction; cbn in Hf.
  - by rewrite set_bf_id.
  - destruct es as [|e0 es0]; [contradiction|].
    unfold truncate_headers.
    replace (Z.of_nat (length (e0 :: es0)) =? 0) with false by (symmetry; apply Z.eqb_neq; cbn; lia).
    replace (Z.of_nat (length (e0 :: es0))) with (alen (e0 :: es0).*1) by (unfold alen; by rewrite fmap_length).
    rewrite ftruncate_append_back by (try assumption; unfold BSZ; lia).
    by rewrite set_bf_id.
Qed.

Lemma fwrite_ok s a es :
  Inv s a -> wf_op a (FWrite es NoFault) ->
  Inv (fst (fwrite s es NoFault)) {| bl := bl a; fl := fl a ++ es.*1 |} /\
  snd (fwrite s es NoFault) = ROk.
Proof.
  intros HI (Hb & Hle & _ & _). unfold fwrite, append_raw.
  destruct es as [|e0 es0] eqn:Ees.
  { cbn. split; [|reflexivity]. destruct HI. constructor; cbn; rewrite ?app_nil_r; assumption. }
  rewrite <- Ees in *. assert (Hne : es <> []) by (subst; discriminate).
  cbn [fst snd]. split; [|reflexivity]. clear Ees e0 es0.
  destruct HI.
  assert (HL : alen (fl a ++ es.*1) <= LIMIT) by (rewrite alen_app; lia).
  constructor; cbn [bf ff idx btip ftip bl fl]; try assumption.
  - unfold fappend. by rewrite i_fj0.
  - unfold fappend. rewrite i_fj0. cbn. by rewrite i_fe0.
  - destruct (fl a); [contradiction|discriminate].
  - rewrite alen_app. lia.
  - destruct (last es) as [el|] eqn:El; [|apply last_None in El; contradiction].
    assert (Hel : es !! pred (length es) = Some el) by (by rewrite <- last_lookup).
    rewrite <- (Hb _ _ Hel). f_equal. rewrite alen_app.
    assert (alen es.*1 = Z.of_nat (length es)) as -> by (unfold alen; by rewrite fmap_length).
    assert (0 < length es)%nat by (destruct es; [contradiction|cbn; lia]). lia.
Qed.

Lemma fwrite_fault s a es flt :
  Inv s a -> wf_op a (FWrite es flt) -> flt <> NoFault ->
  fwrite s es flt = (s, RErr).
Proof.
  intros HI (Hb & Hle & Hf & Hne) Hflt. specialize (Hne Hflt).
  destruct HI. unfold fwrite. destruct es as [|e0 es0] eqn:Ees; [contradiction|]. rewrite <- Ees in *.
  assert (HL : flen (ff s) + alen es.*1 < LIMIT) by (unfold flen; rewrite i_fe0; fold (alen (fl a)); lia).
  rewrite (append_raw_fault FSZ (ff s) es.*1 flt) by (try exact Hf; try assumption; unfold FSZ; lia).
  destruct flt; try contradiction; cbn in Hf.
  - by rewrite set_ff_id.
  - unfold truncate_headers.
    replace (Z.of_nat (length es) =? 0) with false by (symmetry; apply Z.eqb_neq; subst; cbn; lia).
    replace (Z.of_nat (length es)) with (alen es.*1) by (unfold alen; by rewrite fmap_length).
    rewrite ftruncate_append_back by (try assumption; unfold FSZ; lia).
    by rewrite set_ff_id.
Qed.

(* ---------- rollbacks ---------- *)
Lemma ftruncate_entries esz f n : 0 < esz -> junk f = 0 -> 0 < n <= flen f -> flen f < LIMIT ->
  ftruncate esz f (fsize esz f - n * esz) = Some {| ents := take (Z.to_nat (flen f - n)) (ents f); junk := 0 |}.
Proof.
  intros He Hj Hn HL. unfold ftruncate, fsize. rewrite Hj, Z.add_0_r.
  replace (flen f * esz - n * esz) with ((flen f - n) * esz) by lia.
  replace ((flen f - n) * esz <? 0) with false by (symmetry; apply Z.ltb_ge; nia).
  replace ((flen f - n) * esz >=? flen f * esz) with false by (symmetry; rewrite Z.geb_leb; apply Z.leb_gt; nia).
  rewrite Z.div_mul by lia. rewrite Z.mod_mul by lia. rewrite zn_eq by (unfold LIMIT in *; lia). reflexivity.
Qed.

Lemma NoDup_take_Z (l : list Z) k : NoDup l -> NoDup (take k l).
Proof. intros H. rewrite <- (take_drop k l) in H. by apply NoDup_app in H as (? & _ & _). Qed.

Lemma alen_take (l : list Z) k : 0 <= k <= alen l -> alen (take (Z.to_nat k) l) = k.
Proof. intros H. unfold alen in *. rewrite take_length. lia. Qed.

Lemma brollback_ok s a n :
  Inv s a -> wf_op a (BRollback n NoFault) -> n <> 0 ->
  let keep := take (zn (alen (bl a) - n)) (bl a) in
  snd (brollback s n NoFault) = Some (alen (bl a) - 1 - n, default 0 (last keep)) /\
  Inv (fst (brollback s n NoFault)) {| bl := keep; fl := fl a |}.
Proof.
  intros HI (_ & Hn & Hfl) Hn0 keep. pose proof HI as HI0. destruct HI.
  set (L := alen (bl a)) in *.
  assert (Hk : 0 < L - n < LIMIT) by lia.
  unfold keep. rewrite zn_eq by lia. clear keep. set (keep := take (Z.to_nat (L - n)) (bl a)).
  unfold brollback. replace (n =? 0) with false by (symmetry; by apply Z.eqb_neq).
  unfold brollback_plan. rewrite (btip_height_ok s a HI0). unfold a_tip.
  destruct (last (bl a)) as [t|] eqn:Et; [|apply last_None in Et; contradiction].
  fold L. replace (n >? L - 1) with false by (symmetry; rewrite Z.gtb_ltb; apply Z.ltb_ge; lia).
  (* the range read *)
  unfold read_range. replace (u32 (L - 1 - (L - 1 - n) + 1)) with (n + 1)
    by (unfold u32; rewrite Z.mod_small; unfold U32, LIMIT in *; lia).
  assert (Hfs : fsize BSZ (bf s) = L * BSZ) by (unfold fsize, flen; rewrite i_bj0, i_be0; unfold L, alen; lia).
  rewrite Hfs. replace ((L - 1 - n + (n + 1)) * BSZ <=? L * BSZ) with true by (symmetry; apply Z.leb_le; lia).
  rewrite zn_eq by (unfold LIMIT in *; lia).
  replace (Z.to_nat (n + 1)) with (S (Z.to_nat n)) by lia. cbn [seq map].
  rewrite Z.add_0_r. rewrite (bread s a HI0).
  destruct (at_h_is_Some (bl a) (L - 1 - n)) as [xp Hxp]; [fold L; lia|fold L; lia|].
  rewrite Hxp. cbn [rd_tok].
  set (gone := map rd_tok (map (λ i : nat, fread BSZ (bf s) (L - 1 - n + Z.of_nat i)) (seq 1 (Z.to_nat n)))).
  cbn [run_steps step_fails apply_step bf ff idx btip ftip].
  assert (Hflen : flen (bf s) = L) by (unfold flen; by rewrite i_be0).
  rewrite ftruncate_entries by (try assumption; unfold BSZ; lia).
  cbn [fmap option_fmap option_map set_bf bf ff idx btip ftip fst snd run_steps]. rewrite Hflen, i_be0. fold keep.
  assert (Hlast : last keep = Some xp).
  { assert (Hkl : alen keep = L - n) by (unfold keep; apply alen_take; fold L; lia).
    rewrite last_at_h; [|intros E; rewrite E in Hkl; unfold alen in Hkl; cbn in Hkl; lia|lia].
    rewrite Hkl. unfold keep. rewrite at_h_take by (fold L; lia).
    replace (L - n - 1 <? L - n) with true by (symmetry; apply Z.ltb_lt; lia).
    rewrite <- Hxp. f_equal. lia. }
  split; [by rewrite Hlast|].
  assert (Hgone : forall x, x ∈ gone <-> exists h, L - n <= h < L /\ at_h (bl a) h = Some x).
  { intros x. unfold gone. rewrite map_map. rewrite elem_of_list_fmap. split.
    - intros (i & -> & Hi). apply elem_of_seq in Hi.
      exists (L - 1 - n + Z.of_nat i). split; [lia|].
      rewrite (bread s a HI0). destruct (at_h_is_Some (bl a) (L - 1 - n + Z.of_nat i)) as [y Hy]; [fold L; lia|fold L; lia|].
      by rewrite Hy.
    - intros (h & Hh & Hat). exists (Z.to_nat (h - (L - 1 - n))). split.
      + rewrite (bread s a HI0). replace (L - 1 - n + Z.of_nat (Z.to_nat (h - (L - 1 - n)))) with h by lia.
        by rewrite Hat.
      + apply elem_of_seq. lia. }
  constructor; cbn [set_bf set_ff bf ff idx btip ftip bl fl ents junk]; try assumption; try reflexivity.
  - by apply NoDup_take_Z.
  - intros x h. rewrite del_entries_lookup. unfold keep. rewrite at_h_take by (fold L; lia).
    destruct (decide (x ∈ gone)) as [Hin|Hnin].
    + split; [discriminate|]. apply Hgone in Hin as (h' & Hh' & Hat').
      destruct (h <? L - n) eqn:E; [|discriminate]. intros Hat.
      pose proof (at_h_Some _ _ _ Hat). rewrite at_h_lookup in Hat, Hat' by (fold L; lia).
      pose proof (NoDup_lookup _ _ _ _ i_nd0 Hat Hat'). lia.
    + rewrite i_idx0. destruct (h <? L - n) eqn:E; [reflexivity|].
      split; [|discriminate]. intros Hat. exfalso. apply Hnin, Hgone.
      pose proof (at_h_Some _ _ _ Hat). exists h. fold L in H. split; [lia|exact Hat].
  - by rewrite Hlast.
  - intros E. by rewrite E in Hlast.
  - unfold keep. rewrite alen_take by (fold L; lia). lia.
  - rewrite i_ft0. unfold keep. rewrite at_h_take by (fold L; lia).
    pose proof (alen_pos _ i_fne0).
    replace (alen (fl a) - 1 <? L - n) with true by (symmetry; apply Z.ltb_lt; lia). reflexivity.
  - unfold keep. rewrite alen_take by (fold L; lia). lia.
Qed.

Lemma frollback_ok s a nt :
  Inv s a -> wf_op a (FRollback nt NoFault) ->
  let keep := take (zn (alen (fl a) - 1)) (fl a) in
  snd (frollback s nt NoFault) = Some (alen (fl a) - 2, default 0 (last keep)) /\
  Inv (fst (frollback s nt NoFault)) {| bl := bl a; fl := keep |}.
Proof.
  intros HI (_ & H2 & Hnt) keep. pose proof HI as HI0. destruct HI.
  set (L := alen (fl a)) in *.
  unfold keep. rewrite zn_eq by lia. clear keep. set (keep := take (Z.to_nat (L - 1)) (fl a)).
  unfold frollback, frollback_plan. rewrite (ftip_height_ok s a HI0).
  destruct (ftip_is_Some s a HI0) as [t Ht]. fold L in Ht |- *. rewrite Ht.
  replace (u32 (L - 1 - 1)) with (L - 2) by (unfold u32; rewrite Z.mod_small; unfold U32, LIMIT in *; lia).
  rewrite (fread_f s a HI0).
  destruct (at_h_is_Some (fl a) (L - 2)) as [xp Hxp]; [fold L; lia|fold L; lia|].
  rewrite Hxp. cbn [rd_tok run_steps step_fails apply_step bf ff idx btip ftip].
  assert (Hflen : flen (ff s) = L) by (unfold flen; by rewrite i_fe0).
  rewrite ftruncate_entries by (try assumption; try (unfold FSZ; lia); rewrite Hflen; lia).
  cbn [fmap option_fmap option_map set_ff bf ff idx btip ftip fst snd run_steps]. rewrite Hflen, i_fe0. fold keep.
  assert (Hkl : alen keep = L - 1) by (unfold keep; apply alen_take; fold L; lia).
  assert (Hlast : last keep = Some xp).
  { rewrite last_at_h; [|intros E; rewrite E in Hkl; unfold alen in Hkl; cbn in Hkl; lia|lia].
    rewrite Hkl. unfold keep. rewrite at_h_take by (fold L; lia).
    replace (L - 1 - 1 <? L - 1) with true by (symmetry; apply Z.ltb_lt; lia).
    rewrite <- Hxp. f_equal. lia. }
  split; [by rewrite Hlast|].
  constructor; cbn [set_bf set_ff bf ff idx btip ftip bl fl ents junk]; try assumption; try reflexivity.
  - intros E. by rewrite E in Hlast.
  - rewrite Hkl. lia.
  - rewrite Hkl. rewrite <- Hnt. f_equal. lia.
Qed.

(* ---------- one step ---------- *)
Lemma step_refines g gfh s a o :
  Inv s a -> wf_op a o ->
  Inv (fst (step g gfh s o)) (fst (astep a o)) /\ snd (step g gfh s o) = snd (astep a o).
Proof.
  intros HI Hwf. destruct o; cbn [step astep].
  - (* BWrite *)
    assert (flt = NoFault \/ flt <> NoFault) as [->|Hne] by (destruct flt; (by left) || (right; discriminate)).
    + destruct (bwrite_ok s a es HI Hwf) as [H1 H2].
      destruct (bwrite s es NoFault) as [s' r]. cbn in *. subst r. by split.
    + rewrite (bwrite_fault s a es flt HI Hwf Hne). cbn. by destruct flt.
  - assert (flt = NoFault \/ flt <> NoFault) as [->|Hne] by (destruct flt; (by left) || (right; discriminate)).
    + destruct (fwrite_ok s a es HI Hwf) as [H1 H2].
      destruct (fwrite s es NoFault) as [s' r]. cbn in *. subst r. by split.
    + rewrite (fwrite_fault s a es flt HI Hwf Hne). cbn. by destruct flt.
  - (* BRollback *)
    destruct Hwf as (-> & Hn & Hfl).
    destruct (decide (n = 0)) as [->|Hn0].
    + cbn. by split.
    + destruct (brollback_ok s a n HI ltac:(by split) Hn0) as [H1 H2].
      replace (n =? 0) with false by (symmetry; by apply Z.eqb_neq).
      destruct (brollback s n NoFault) as [s' r]. cbn [fst snd] in *. subst r. by split.
  - destruct Hwf as (-> & H2 & Hnt).
    destruct (frollback_ok s a newtip HI ltac:(by split)) as [H1 H3].
    destruct (frollback s newtip NoFault) as [s' r]. cbn [fst snd] in *. subst r. by split.
  - rewrite (recover_id g gfh s a HI). by split.
  - cbn. split; [exact HI|]. by rewrite (b_chain_tip_ok s a HI).
  - cbn. split; [exact HI|]. by rewrite (b_by_height_ok s a HI).
  - cbn. split; [exact HI|]. by rewrite (b_by_hash_ok s a HI).
  - cbn. split; [exact HI|]. unfold height_from_hash. by rewrite (idx_height_of s a HI).
  - cbn. split; [exact HI|]. by rewrite (b_ancestors_ok s a HI).
  - cbn. split; [exact HI|]. by rewrite (locator_ok s a HI).
  - cbn. split; [exact HI|]. by rewrite (latest_locator_ok s a HI).
  - cbn. split; [exact HI|]. by rewrite (f_chain_tip_ok s a HI).
  - cbn. split; [exact HI|]. by rewrite (f_by_height_ok s a HI).
  - cbn. split; [exact HI|]. by rewrite (f_by_hash_ok s a HI).
  - cbn. split; [exact HI|]. by rewrite (f_ancestors_ok s a HI).
Qed.

Lemma run_refines g gfh ops : forall s a,
  Inv s a -> wf_ops a ops ->
  snd (run g gfh s ops) = snd (arun a ops) /\
  Inv (fst (run g gfh s ops)) (fst (arun a ops)).
Proof.
  induction ops as [|o ops IH]; intros s a HI Hwf; cbn [run arun].
  - by split.
  - destruct Hwf as [Hw Hrest].
    destruct (step_refines g gfh s a o HI Hw) as [HI' Hob].
    destruct (step g gfh s o) as [s1 ob]. destruct (astep a o) as [a1 ob']. cbn [fst snd] in *. subst ob'.
    destruct (IH s1 a1 HI' Hrest) as [Hobs HI''].
    destruct (run g gfh s1 ops) as [s2 obs]. destruct (arun a1 ops) as [a2 obs']. cbn [fst snd] in *.
    split; [by f_equal|exact HI''].
Qed.

(* ---------- the freshly created stores ---------- *)
Lemma init_inv g gfh : exists s0, init g gfh = Some s0 /\ Inv s0 {| bl := [g]; fl := [gfh] |}.
Proof.
  eexists. split; [reflexivity|].
  constructor; cbn; try reflexivity; try discriminate; try (unfold LIMIT, alen; cbn; lia).
  - apply NoDup_singleton.
  - intros x h. unfold add_entries. cbn. split.
    + intros H. apply lookup_insert_Some in H as [[<- <-]|[_ H]]; [reflexivity|by rewrite lookup_empty in H].
    + intros H. pose proof (at_h_Some _ _ _ H) as Hr. unfold alen in Hr. cbn in Hr.
      assert (h = 0) by lia. subst h. cbn in H. injection H as <-. apply lookup_insert.
Qed.

(* ---------- rolled-back entries are no longer found ---------- *)
Lemma rolled_back_not_found (l : list Z) k x :
  NoDup l -> x ∈ drop k l -> index_of x (take k l) 0 = None.
Proof.
  intros Hnd Hin. pose proof (index_of_spec x (take k l) 0) as Hs.
  destruct (index_of x (take k l) 0) as [h|]; [|reflexivity].
  destruct Hs as (_ & Hl & _). exfalso.
  rewrite <- (take_drop k l) in Hnd. apply NoDup_app in Hnd as (_ & Hdisj & _).
  eapply Hdisj; [|exact Hin]. eapply elem_of_list_lookup_2; eauto.
Qed.

(* ---------- the boolean well-formedness check is sound ---------- *)
Lemma nodupb_sound l : nodupb l = true -> NoDup l.
Proof.
  induction l as [|x l IH]; cbn; [intros _; constructor|].
  intros H. apply andb_true_iff in H as [H1 H2]. constructor; [|by apply IH].
  intros Hin. apply negb_true_iff in H1. apply not_true_iff_false in H1. apply H1.
  apply existsb_exists. exists x. split; [by apply elem_of_list_In|apply Z.eqb_refl].
Qed.

Lemma heights_from_sound l : forall h,
  heights_from h l = true -> l = map (fun i => h + Z.of_nat i) (seq 0 (length l)).
Proof.
  induction l as [|x l IH]; intros h; cbn [heights_from length seq map]; [reflexivity|].
  intros H. apply andb_true_iff in H as [H1 H2]. apply Z.eqb_eq in H1. subst x.
  rewrite Z.add_0_r. f_equal. rewrite (IH _ H2) at 1. rewrite <- seq_shift, map_map.
  apply map_ext. intros i. lia.
Qed.

Lemma fblocks_ok_sound a (es : list (Z * Z)) : forall h,
  fblocks_ok a h es.*2 = true ->
  forall i e, es !! i = Some e -> at_h (bl a) (h + Z.of_nat i) = Some e.2.
Proof.
  induction es as [|e0 es IH]; intros h H i e Hi; [discriminate|].
  cbn in H. apply andb_true_iff in H as [H1 H2].
  destruct i as [|i]; cbn in Hi.
  - injection Hi as <-. rewrite Z.add_0_r. destruct (at_h (bl a) h) as [y|]; [|discriminate].
    apply Z.eqb_eq in H1. by subst.
  - replace (h + Z.of_nat (S i)) with (h + 1 + Z.of_nat i) by lia. by apply IH.
Qed.

Lemma single_append_faultb_sound flt n : single_append_faultb flt n = true -> single_append_fault flt n.
Proof. destruct flt; cbn; try done. intros H. apply andb_true_iff in H as [H1 H2]. lia. Qed.

Lemma nofault_or_nonempty {A} flt (es : list A) :
  is_nofault flt || negb (length es =? 0)%nat = true -> flt <> NoFault -> es <> [].
Proof.
  intros H Hf. apply orb_true_iff in H as [H|H]; [destruct flt; try discriminate; congruence|].
  destruct es; [discriminate|discriminate].
Qed.

Lemma wf_opb_sound a o : wf_opb a o = true -> wf_op a o.
Proof.
  destruct o; cbn [wf_opb wf_op]; try done.
  - intros H. repeat (apply andb_true_iff in H as [H ?]).
    repeat split.
    + rewrite <- (fmap_length snd es). by apply heights_from_sound.
    + by apply nodupb_sound.
    + lia.
    + by apply single_append_faultb_sound.
    + by apply nofault_or_nonempty.
  - intros H. repeat (apply andb_true_iff in H as [H ?]).
    repeat split.
    + by apply fblocks_ok_sound.
    + lia.
    + by apply single_append_faultb_sound.
    + by apply nofault_or_nonempty.
  - intros H. repeat (apply andb_true_iff in H as [H ?]).
    destruct flt; try discriminate. repeat split; lia.
  - intros H. repeat (apply andb_true_iff in H as [H ?]).
    destruct flt; try discriminate. repeat split; [lia|].
    destruct (at_h (bl a) (alen (fl a) - 2)) as [y|]; [|discriminate]. f_equal. symmetry. by apply Z.eqb_eq.
  - intros H. apply andb_true_iff in H as [? ?]. lia.
  - intros H. apply andb_true_iff in H as [? ?]. lia.
  - intros H. apply andb_true_iff in H as [? ?]. lia.
  - intros H. apply andb_true_iff in H as [? ?]. lia.
Qed.
