(* C07 — the header stores as a plain append/rollback log.
   The abstract state is two lists; every operation and every read is
   defined on the lists alone. *)
From stdpp Require Import gmap list.
From Coq Require Import ZArith Lia.
From Verif Require Import S1.Model.
Open Scope Z_scope.

Record alog := { bl : list Z;    (* block hashes, position = height *)
                 fl : list Z }.  (* filter headers, position = height *)

Definition alen (l : list Z) : Z := Z.of_nat (length l).

(* lookups on a list, by Z height *)
Definition at_h (l : list Z) (h : Z) : option Z :=
  if (0 <=? h) && (h <? alen l) then l !! zn h else None.

(* position of a hash in the block list *)
Fixpoint index_of (x : Z) (l : list Z) (i : Z) : option Z :=
  match l with
  | [] => None
  | y :: r => if y =? x then Some i else index_of x r (i + 1)
  end.
Definition height_of (a : alog) (x : Z) : option Z := index_of x (bl a) 0.

Definition a_range (l : list Z) (start stop : Z) : option (list Z) :=
  let n := u32 (stop - start + 1) in
  if start + n <=? alen l then
    Some (map (fun i => default 0 (at_h l (start + Z.of_nat i))) (seq 0 (zn n)))
  else None.

Definition a_ancestors (a : alog) (l : list Z) (n x : Z) : option (list Z * Z) :=
  match height_of a x with
  | Some e =>
    let start := u32 (e - n) in
    match a_range l start e with
    | Some r => Some (r, start)
    | None => None
    end
  | None => None
  end.

Fixpoint a_locator_loop (fuel : nat) (l : list Z) (height dec : Z) (acc : list Z) : list Z * bool :=
  match fuel with
  | O => (acc, true)
  | S fuel' =>
    if (height >? 0) && (Z.of_nat (length acc) <? 500) then
      let dec := if Z.of_nat (length acc) >? 10 then dec * 2 else dec in
      let height := if dec >? height then 0 else height - dec in
      match at_h l height with
      | Some x => a_locator_loop fuel' l height dec (acc ++ [x])
      | None => (acc, false)
      end
    else (acc, true)
  end.
Definition a_locator (a : alog) (x : Z) : list Z * bool :=
  match height_of a x with
  | Some h => if h =? 0 then ([x], true) else a_locator_loop 500 (bl a) h 1 [x]
  | None => ([x], true)
  end.

Definition a_tip (l : list Z) : option (Z * Z) :=
  match last l with Some x => Some (x, alen l - 1) | None => None end.

(* an append is an append; a failed append changes nothing; rollbacks pop *)
Definition astep (a : alog) (o : op) : alog * obs :=
  match o with
  | BWrite es NoFault => ({| bl := bl a ++ es.*1; fl := fl a |}, ORes true)
  | BWrite _ _ => (a, ORes false)
  | FWrite es NoFault => ({| bl := bl a; fl := fl a ++ es.*1 |}, ORes true)
  | FWrite _ _ => (a, ORes false)
  | BRollback n _ =>
      if n =? 0 then (a, OStamp (Some (0, 0))) else
      let keep := take (zn (alen (bl a) - n)) (bl a) in
      ({| bl := keep; fl := fl a |}, OStamp (Some (alen (bl a) - 1 - n, default 0 (last keep))))
  | FRollback _ _ =>
      let keep := take (zn (alen (fl a) - 1)) (fl a) in
      ({| bl := bl a; fl := keep |}, OStamp (Some (alen (fl a) - 2, default 0 (last keep))))
  | Reopen => (a, OReopen true)
  | QBTip => (a, OPair (a_tip (bl a)))
  | QBHeight h => (a, OTok (at_h (bl a) h))
  | QBHash x => (a, OPair (match height_of a x with Some h => Some (x, h) | None => None end))
  | QHeightOf x => (a, OTok (height_of a x))
  | QBAnc n x => (a, OList (a_ancestors a (bl a) n x))
  | QLocator x => (a, OLoc (Some (a_locator a x)))
  | QLatestLocator => (a, OLoc (match last (bl a) with Some t => Some (a_locator a t) | None => None end))
  | QFTip => (a, OPair (a_tip (fl a)))
  | QFHeight h => (a, OTok (at_h (fl a) h))
  | QFHash x => (a, OTok (match height_of a x with Some h => at_h (fl a) h | None => None end))
  | QFAnc n x => (a, OList (a_ancestors a (fl a) n x))
  end.

Fixpoint arun (a : alog) (ops : list op) : alog * list obs :=
  match ops with
  | [] => (a, [])
  | o :: rest =>
    let '(a1, ob) := astep a o in
    let '(a2, obs) := arun a1 rest in (a2, ob :: obs)
  end.

(* What callers do (well-formed use), and the faults considered: at most one
   injected failure per append (the write itself, or the index transaction). *)
Definition single_append_fault (flt : fault) (nbytes : Z) : Prop :=
  match flt with
  | NoFault | DbFail => True
  | WriteFail k => 0 <= k < nbytes
  | _ => False
  end.

Definition LIMIT : Z := 1000000.   (* model bound on the number of entries *)

Definition wf_op (a : alog) (o : op) : Prop :=
  match o with
  | BWrite es flt =>
      es.*2 = map (fun i => alen (bl a) + Z.of_nat i) (seq 0 (length es)) /\
      NoDup (bl a ++ es.*1) /\
      alen (bl a) + alen (es.*1) < LIMIT /\
      single_append_fault flt (alen (es.*1) * BSZ) /\
      (flt <> NoFault -> es <> [])
  | FWrite es flt =>
      (forall i e, es !! i = Some e -> at_h (bl a) (alen (fl a) + Z.of_nat i) = Some e.2) /\
      alen (fl a) + alen (es.*1) <= alen (bl a) /\
      single_append_fault flt (alen (es.*1) * FSZ) /\
      (flt <> NoFault -> es <> [])
  | BRollback n flt =>
      flt = NoFault /\ 0 <= n < alen (bl a) /\ alen (fl a) <= alen (bl a) - n
  | FRollback nt flt =>
      flt = NoFault /\ 2 <= alen (fl a) /\ at_h (bl a) (alen (fl a) - 2) = Some nt
  | QBHeight h | QFHeight h => 0 <= h < U32
  | QBAnc n _ | QFAnc n _ => 0 <= n < U32
  | _ => True
  end.

Fixpoint wf_ops (a : alog) (ops : list op) : Prop :=
  match ops with
  | [] => True
  | o :: rest => wf_op a o /\ wf_ops (fst (astep a o)) rest
  end.

(* ---------- decidable well-formedness, used by the monitor ---------- *)
Fixpoint nodupb (l : list Z) : bool :=
  match l with
  | [] => true
  | x :: r => negb (existsb (Z.eqb x) r) && nodupb r
  end.

Definition single_append_faultb (flt : fault) (nbytes : Z) : bool :=
  match flt with
  | NoFault | DbFail => true
  | WriteFail k => (0 <=? k) && (k <? nbytes)
  | _ => false
  end.

Definition is_nofault (flt : fault) : bool := match flt with NoFault => true | _ => false end.

Fixpoint heights_from (h : Z) (l : list Z) : bool :=
  match l with
  | [] => true
  | x :: r => (x =? h) && heights_from (h + 1) r
  end.

Fixpoint fblocks_ok (a : alog) (h : Z) (l : list Z) : bool :=
  match l with
  | [] => true
  | x :: r => match at_h (bl a) h with Some y => (x =? y) | None => false end && fblocks_ok a (h + 1) r
  end.

Definition wf_opb (a : alog) (o : op) : bool :=
  match o with
  | BWrite es flt =>
      heights_from (alen (bl a)) es.*2 && nodupb (bl a ++ es.*1) &&
      (alen (bl a) + alen (es.*1) <? LIMIT) &&
      single_append_faultb flt (alen (es.*1) * BSZ) &&
      (is_nofault flt || negb (length es =? 0)%nat)
  | FWrite es flt =>
      fblocks_ok a (alen (fl a)) es.*2 &&
      (alen (fl a) + alen (es.*1) <=? alen (bl a)) &&
      single_append_faultb flt (alen (es.*1) * FSZ) &&
      (is_nofault flt || negb (length es =? 0)%nat)
  | BRollback n flt =>
      is_nofault flt && (0 <=? n) && (n <? alen (bl a)) && (alen (fl a) <=? alen (bl a) - n)
  | FRollback nt flt =>
      is_nofault flt && (2 <=? alen (fl a)) &&
      match at_h (bl a) (alen (fl a) - 2) with Some y => nt =? y | None => false end
  | QBHeight h | QFHeight h => (0 <=? h) && (h <? U32)
  | QBAnc n _ | QFAnc n _ => (0 <=? n) && (n <? U32)
  | _ => true
  end.
