(* C07 — replay of implementation traces: against the store model (kind 1)
   and against the plain-log specification while the history is well-formed
   (kind 2). *)
From stdpp Require Import gmap list.
From Coq Require Import ZArith.
From Verif Require Import S1.Model C07.Spec.
Open Scope Z_scope.

Definition opt_eqb {A} (f : A -> A -> bool) (a b : option A) : bool :=
  match a, b with
  | Some x, Some y => f x y
  | None, None => true
  | _, _ => false
  end.
Definition pair_eqb (a b : Z * Z) : bool := (a.1 =? b.1) && (a.2 =? b.2).
Fixpoint list_eqb (a b : list Z) : bool :=
  match a, b with
  | [], [] => true
  | x :: a', y :: b' => (x =? y) && list_eqb a' b'
  | _, _ => false
  end.

Definition obs_eqb (a b : obs) : bool :=
  match a, b with
  | ORes x, ORes y => Bool.eqb x y
  | OStamp x, OStamp y => opt_eqb pair_eqb x y
  | OReopen x, OReopen y => Bool.eqb x y
  | OPair x, OPair y => opt_eqb pair_eqb x y
  | OTok x, OTok y => opt_eqb Z.eqb x y
  | OList x, OList y => opt_eqb (fun p q => list_eqb p.1 q.1 && (p.2 =? q.2)) x y
  | OLoc x, OLoc y => opt_eqb (fun p q => list_eqb p.1 q.1 && Bool.eqb p.2 q.2) x y
  | _, _ => false
  end.

(* An uncompensated partial write (the write fails after k bytes AND the
   compensating truncate fails too) leaves misaligned bytes in the file.  The
   file model keeps only their number ("junk"), which is exact until a later
   truncation happens to re-align the end of the file inside that region;
   the comparison therefore stops at such a double fault (the properties say
   nothing about states after it). *)
Definition leaves_junk (o : op) : bool :=
  match o with
  | BWrite _ (WriteTruncFail _) | FWrite _ (WriteTruncFail _) => true
  | _ => false
  end.

Fixpoint first_mismatch (g gfh : Z) (s : store) (i : Z) (tr : list (op * obs)) : option Z :=
  match tr with
  | [] => None
  | (o, ob) :: rest =>
    let '(s', mob) := step g gfh s o in
    if obs_eqb mob ob then (if leaves_junk o then None else first_mismatch g gfh s' (i + 1) rest) else Some i
  end.

(* monitor: while every call so far was well-formed, the implementation's
   observation must be the plain log's.  Stops judging at the first
   ill-formed call (the property says nothing beyond it). *)
Fixpoint first_bad (a : alog) (i : Z) (tr : list (op * obs)) : option Z :=
  match tr with
  | [] => None
  | (o, ob) :: rest =>
    if wf_opb a o then
      let '(a', sob) := astep a o in
      if obs_eqb sob ob then first_bad a' (i + 1) rest else Some i
    else None
  end.

Definition verdict (g gfh : Z) (c : Z * list (op * obs)) : list (Z * Z * Z * Z) :=
  let '(id, tr) := c in
  match init g gfh with
  | None => [(id, 1, -1, 0)]
  | Some s0 =>
    (match first_mismatch g gfh s0 0 tr with Some i => [(id, 1, i, 0)] | None => [] end) ++
    (match first_bad {| bl := [g]; fl := [gfh] |} 0 tr with Some i => [(id, 2, i, 0)] | None => [] end)
  end.

Definition run_cases (g gfh : Z) (cs : list (Z * list (op * obs))) : list (Z * Z * Z * Z) :=
  flat_map (verdict g gfh) cs.
