(* C07 — the property theorems, and nothing else. *)
From stdpp Require Import gmap list.
From Coq Require Import ZArith Lia.
From Verif Require Import S1.Model S1.Index2 C07.Spec C07.Proofs.
Open Scope Z_scope.

(* The header stores behave as a plain append/rollback log: for EVERY
   sequence of well-formed operations (batch appends of any size incl. empty,
   each possibly hit by one injected failure; single and multi-header
   rollbacks; filter appends/rollbacks; reopen points; every read method with
   any argument) starting from freshly created stores, every observation of
   the store model equals the observation of two plain lists subjected to the
   same operations - where a failed append is a no-op on the lists and reopen
   is the identity.  Reads covered: tips, by height, by hash, height of hash,
   ancestor ranges, block locators (both stores). *)
Theorem C07_refines_log : forall g gfh ops,
  wf_ops {| bl := [g]; fl := [gfh] |} ops ->
  exists s0, init g gfh = Some s0 /\
    snd (run g gfh s0 ops) = snd (arun {| bl := [g]; fl := [gfh] |} ops).
Proof.
  intros g gfh ops Hwf. destruct (init_inv g gfh) as (s0 & Hi & HI).
  exists s0. split; [exact Hi|]. exact (proj1 (run_refines g gfh ops s0 _ HI Hwf)).
Qed.
Print Assumptions C07_refines_log.

(* Closing and reopening changes nothing: recovery is the identity on every
   state reachable by well-formed use. *)
Theorem C07_reopen_identity : forall g gfh s a, Inv s a -> recover g gfh s = Some s.
Proof. exact recover_id. Qed.
Print Assumptions C07_reopen_identity.

Theorem C07_reachable_inv : forall g gfh ops s0,
  init g gfh = Some s0 -> wf_ops {| bl := [g]; fl := [gfh] |} ops ->
  Inv (fst (run g gfh s0 ops)) (fst (arun {| bl := [g]; fl := [gfh] |} ops)).
Proof.
  intros g gfh ops s0 Hi Hwf. destruct (init_inv g gfh) as (s0' & Hi' & HI).
  rewrite Hi in Hi'. injection Hi' as <-. exact (proj2 (run_refines g gfh ops s0 _ HI Hwf)).
Qed.
Print Assumptions C07_reachable_inv.

(* An append that reports failure (partial write of any length, or failed
   index transaction) leaves the store exactly as it was before the call. *)
Theorem C07_failed_append_unchanged : forall s a es flt,
  Inv s a -> flt <> NoFault ->
  (wf_op a (BWrite es flt) -> bwrite s es flt = (s, RErr)) /\
  (wf_op a (FWrite es flt) -> fwrite s es flt = (s, RErr)).
Proof.
  intros s a es flt HI Hf. split; intros Hwf.
  - exact (bwrite_fault s a es flt HI Hwf Hf).
  - exact (fwrite_fault s a es flt HI Hwf Hf).
Qed.
Print Assumptions C07_failed_append_unchanged.

(* Rolled-back entries are no longer found by hash. *)
Theorem C07_rolled_back_not_found : forall (l : list Z) k x,
  NoDup l -> x ∈ drop k l -> index_of x (take k l) 0 = None.
Proof. exact rolled_back_not_found. Qed.
Print Assumptions C07_rolled_back_not_found.

(* The decidable well-formedness test used by the trace monitor implies the
   hypothesis of the theorems above. *)
Theorem C07_monitor_wf_sound : forall a o, wf_opb a o = true -> wf_op a o.
Proof. exact wf_opb_sound. Qed.
Print Assumptions C07_monitor_wf_sound.

(* The index as laid out in bbolt (S1/Index2.v): entries in hash-prefix
   sub-buckets plus entries of old databases in the root bucket, read through
   the fallback and deleted where they are found.  For every sequence of
   index transactions (batch adds of hashes not stored yet, multi-entry
   deletes, entries turned into legacy entries at any point), from any split
   of the entries between the two levels, every lookup answers as the single
   map [idx] of S1.Model does — so the theorems above hold of old databases
   too. *)
Theorem C07_legacy_index_refines : forall ops i,
  Inv2 i -> wf_iops (abs i) ops ->
  Inv2 (fold_left step2 ops i) /\
  abs (fold_left step2 ops i) = fold_left step1 ops (abs i) /\
  forall k, get2 (fold_left step2 ops i) k = fold_left step1 ops (abs i) !! k.
Proof. exact index2_refines_lemma. Qed.
Print Assumptions C07_legacy_index_refines.

(* The hypothesis is needed: a legacy hash that is added a second time lives
   at both levels, and its deletion leaves the sub-bucket copy behind. *)
Theorem C07_legacy_index_needs_fresh_hashes : get2 dup_witness 5 = Some 1.
Proof. exact index2_duplicate_add_survives_delete. Qed.
Print Assumptions C07_legacy_index_needs_fresh_hashes.

(* Non-vacuity: a history with appends (one hit by a partial write, one by a
   failed index transaction), filter appends, a multi-header rollback, a
   filter rollback, a re-append after rollback, reopen and reads is
   well-formed, and evaluates as a log would. *)
Definition ex_ops : list op :=
  [ BWrite [(11, 1); (12, 2); (13, 3)] NoFault;
    BWrite [(14, 4)] (WriteFail 37);
    BWrite [(14, 4); (15, 5)] DbFail;
    FWrite [(1000001, 11); (1000002, 12)] NoFault;
    Reopen; QBTip; QFTip;
    BRollback 1 NoFault; QHeightOf 13;
    FRollback 11 NoFault;
    BWrite [(13, 3); (16, 4)] NoFault; Reopen; QBTip; QBAnc 2 16; QLatestLocator; QFHash 11 ].
Example C07_nonvacuous :
  forallb id (snd (fold_left (fun '(a, acc) o => (fst (astep a o), acc ++ [wf_opb a o])) ex_ops
                             ({| bl := [7]; fl := [1000000] |}, []))) = true /\
  (exists s0, init 7 1000000 = Some s0 /\
   snd (run 7 1000000 s0 ex_ops) =
   [ORes true; ORes false; ORes false; ORes true; OReopen true;
    OPair (Some (13, 3)); OPair (Some (1000002, 2));
    OStamp (Some (2, 12)); OTok None; OStamp (Some (1, 1000001));
    ORes true; OReopen true; OPair (Some (16, 4));
    OList (Some ([12; 13; 16], 2)); OLoc (Some ([16; 13; 12; 11; 7], true)); OTok (Some 1000001)]).
Proof. split; [vm_compute; reflexivity|]. eexists. split; [reflexivity|]. vm_compute. reflexivity. Qed.
