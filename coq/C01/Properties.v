(* C01 — property theorems (in progress). *)
From stdpp Require Import list.
From Coq Require Import ZArith.
From Verif Require Import S2.Model C01.Spec.
Open Scope Z_scope.
Example C01_placeholder : True. Proof. exact I. Qed.
