(* C01 — the stored block-header chain is always fully valid, whatever peers
   send.  Statements only; proofs are in C01/Proofs.v over the shared
   invariant S2/Invariant.v.

   Hypotheses (all explicit, on the chain-parameter set and on the history):
   - wf_params: checkpoint heights strictly ascending and above the genesis
     block, retarget interval > 0, in-memory window capacity >= 1;
   - no_collision: hash tokens identify headers (two headers of the history or
     the genesis block with the same hash are the same header) and no header
     hashes to the genesis block's previous-block field;
   - wf_hist: every headers message is shorter than the in-memory window
     (2000 < 10000 in the code), rollBackToHeight is not something peers can
     invoke, and fewer than 1000000 headers in total (the model's height
     arithmetic is exact below that bound).
   Histories may contain restarts (ORestart: a new block manager built by
   newBlockManager over the same stores) anywhere. *)
From stdpp Require Import list.
From Coq Require Import ZArith.
From Verif Require Import S2.Model C01.Spec S2.Basics S2.Invariant C01.Proofs.
Open Scope Z_scope.

(* after any history the reported chain is a valid chain: there are acceptance
   times, each the clock reading of some headers message of the history, at
   which every header was a valid successor of its prefix; checkpoints hold *)
Theorem C01_chain_always_valid : forall P gfh ops,
  wf_params P -> no_collision P ops -> wf_hist P ops ->
  let s := run P (init_state P gfh) ops in
  trap s = false /\
  exists times, length times = length (chain s) /\
    Forall (fun t => t ∈ hist_nows ops) (tail times) /\
    valid_chain P (zip (chain s) times) = true.
Proof. exact chain_always_valid. Qed.
Print Assumptions C01_chain_always_valid.

(* ... and so after every prefix of it (at every instant) *)
Theorem C01_chain_valid_every_instant : forall P gfh pre post,
  wf_params P -> no_collision P (pre ++ post) -> wf_hist P (pre ++ post) ->
  let s := run P (init_state P gfh) pre in
  trap s = false /\
  exists times, length times = length (chain s) /\
    Forall (fun t => t ∈ hist_nows pre) (tail times) /\
    valid_chain P (zip (chain s) times) = true.
Proof. exact chain_valid_every_instant. Qed.
Print Assumptions C01_chain_valid_every_instant.

(* by-hash, by-height and tip answers describe one chain *)
Theorem C01_lookups_agree : forall P gfh ops,
  wf_params P -> no_collision P ops -> wf_hist P ops ->
  let s := run P (init_state P gfh) ops in
  (forall x h i, fetch_header (chain s) x = Some (h, i) <-> at_h (chain s) i = Some h /\ hid h = x) /\
  (exists t, chain_tip s = Some t /\ at_h (chain s) (tip_height s) = Some t /\
             fetch_header (chain s) (hid t) = Some (t, tip_height s)) /\
  NoDup (map hid (chain s)).
Proof. exact lookups_agree_thm. Qed.
Print Assumptions C01_lookups_agree.

(* every store write the model issues is well-formed (contiguous heights, new
   hashes), at every point of every history: this is what lets C07's
   refinement theorem lift the list stores to the real stores *)
Theorem C01_never_traps : forall P gfh pre post,
  wf_params P -> no_collision P (pre ++ post) -> wf_hist P (pre ++ post) ->
  trap (run P (init_state P gfh) pre) = false.
Proof. exact never_traps. Qed.
Print Assumptions C01_never_traps.

(* the hypotheses are satisfiable by a history with a valid batch, a batch
   valid only up to some index, a duplicate, a restart, a heavier fork and a
   checkpoint *)
Example C01_nonvacuous :
  let P := ex_P [(4, 204)] in
  wf_params P /\ no_collision P ex_ops /\ wf_hist P ex_ops /\
  map (fun k => map hid (chain (run P (init_state P 7) (take k ex_ops)))) [2; 3; 4; 5; 7; 9]%nat =
    [[100; 101; 102]; [100; 101; 102]; [100; 101; 102]; [100; 101; 102]; [100; 101; 202; 203];
     [100; 101; 202; 203; 204]] /\
  (let s := run P (init_state P 7) (take 5 ex_ops) in
   (map nheight (hl s), syncPeer s, peers s, nextCp s) = ([2], None, [], Some (4, 204))).
Proof.
  split; [|split; [|split]].
  - split; cbn; lia.
  - apply no_collision_b_sound. vm_compute. reflexivity.
  - split; [repeat constructor; vm_compute; reflexivity|vm_compute; discriminate].
  - split; vm_compute; reflexivity.
Qed.
