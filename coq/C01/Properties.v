(* C01 — the stored block-header chain is always fully valid, whatever peers
   send.  Statements only; proofs are in C01/Proofs.v over the shared
   invariant S2/Invariant.v.

   Hypotheses (all explicit, on the chain-parameter set and on the history):
   - wf_params: checkpoint heights strictly ascending and above the genesis
     block, retarget interval > 0, in-memory window capacity >= 1;
   - no_collision: hash tokens identify headers (two headers of the history or
     the genesis block with the same hash are the same header) and no header
     hashes to the genesis block's previous-block field;
   - wf_hist: every headers message is shorter than the in-memory window
     (2000 < 10000 in the code), rollBackToHeight is not something peers can
     invoke, and fewer than 1000000 headers in total (the model's height
     arithmetic is exact below that bound).
   Histories may contain restarts (ORestart: a new block manager built by
   newBlockManager over the same stores) anywhere. *)
From stdpp Require Import list.
From Coq Require Import ZArith.
From Verif Require Import S2.Model C01.Spec S2.Basics S2.Invariant S2.Faults C01.Proofs.
Open Scope Z_scope.

(* after any history the reported chain is a valid chain: there are acceptance
   times, each the clock reading of some headers message of the history, at
   which every header was a valid successor of its prefix; checkpoints hold *)
Theorem C01_chain_always_valid : forall P gfh ops,
  wf_params P -> no_collision P ops -> wf_hist P ops ->
  let s := run P (init_state P gfh) ops in
  trap s = false /\
  exists times, length times = length (chain s) /\
    Forall (fun t => t ∈ hist_nows ops) (tail times) /\
    valid_chain P (zip (chain s) times) = true.
Proof. exact chain_always_valid. Qed.
Print Assumptions C01_chain_always_valid.

(* ... and so after every prefix of it (at every instant) *)
Theorem C01_chain_valid_every_instant : forall P gfh pre post,
  wf_params P -> no_collision P (pre ++ post) -> wf_hist P (pre ++ post) ->
  let s := run P (init_state P gfh) pre in
  trap s = false /\
  exists times, length times = length (chain s) /\
    Forall (fun t => t ∈ hist_nows pre) (tail times) /\
    valid_chain P (zip (chain s) times) = true.
Proof. exact chain_valid_every_instant. Qed.
Print Assumptions C01_chain_valid_every_instant.

(* by-hash, by-height and tip answers describe one chain *)
Theorem C01_lookups_agree : forall P gfh ops,
  wf_params P -> no_collision P ops -> wf_hist P ops ->
  let s := run P (init_state P gfh) ops in
  (forall x h i, fetch_header (chain s) x = Some (h, i) <-> at_h (chain s) i = Some h /\ hid h = x) /\
  (exists t, chain_tip s = Some t /\ at_h (chain s) (tip_height s) = Some t /\
             fetch_header (chain s) (hid t) = Some (t, tip_height s)) /\
  NoDup (map hid (chain s)).
Proof. exact lookups_agree_thm. Qed.
Print Assumptions C01_lookups_agree.

(* every store write the model issues is well-formed (contiguous heights, new
   hashes), at every point of every history: this is what lets C07's
   refinement theorem lift the list stores to the real stores *)
Theorem C01_never_traps : forall P gfh pre post,
  wf_params P -> no_collision P (pre ++ post) -> wf_hist P (pre ++ post) ->
  trap (run P (init_state P gfh) pre) = false.
Proof. exact never_traps. Qed.
Print Assumptions C01_never_traps.

(* ---------- with failing writes to the block header store ----------
   [wf_hist_f] is [wf_hist] with the operation OHeadersF p now hs k allowed as
   well: a headers message during whose handling the k-th call of
   BlockHeaders.WriteHeaders fails and writes nothing (any k; the handler
   makes at most two calls: the first header of a branch it switches to, and
   the validated batch).  Every state reached by such a history still has a
   fully valid stored chain that matches the checkpoints, consistent lookups,
   no ill-formed store operation — and the in-memory state the handler relies
   on between messages agrees with the stores: the header window is the tail
   of the stored chain, the next checkpoint is the first one above the stored
   tip (in particular it is NOT advanced when the write of the batch that
   reached it failed), the in-memory filter tip is the filter store's.
   (F70, fixed: a failed write of a branch's first header used to be ignored;
   the rest of the branch was then written one height too high.) *)
Theorem C01_chain_valid_under_write_faults : forall P gfh pre post,
  wf_params P -> no_collision P (pre ++ post) -> wf_hist_f P (pre ++ post) ->
  let s := run P (init_state P gfh) pre in
  trap s = false /\
  exists times, length times = length (chain s) /\
    Forall (fun t => t ∈ hist_nows pre) (tail times) /\
    valid_chain P (zip (chain s) times) = true.
Proof. exact chain_valid_every_instant_f. Qed.
Print Assumptions C01_chain_valid_under_write_faults.

Theorem C01_lookups_agree_under_write_faults : forall P gfh ops,
  wf_params P -> no_collision P ops -> wf_hist_f P ops ->
  let s := run P (init_state P gfh) ops in
  (forall x h i, fetch_header (chain s) x = Some (h, i) <-> at_h (chain s) i = Some h /\ hid h = x) /\
  (exists t, chain_tip s = Some t /\ at_h (chain s) (tip_height s) = Some t /\
             fetch_header (chain s) (hid t) = Some (t, tip_height s)) /\
  NoDup (map hid (chain s)).
Proof. exact lookups_agree_f. Qed.
Print Assumptions C01_lookups_agree_under_write_faults.

Theorem C01_mirror_under_write_faults : forall P gfh ops,
  wf_params P -> no_collision P ops -> wf_hist_f P ops ->
  let s := run P (init_state P gfh) ops in
  WM (hl s) (chain s) /\ nextCp s = find_next_cp P (tip_height s) /\
  0 < zlen (fchain s) <= zlen (chain s) /\ ftipVar s = zlen (fchain s) - 1.
Proof. exact mirror_f. Qed.
Print Assumptions C01_mirror_under_write_faults.

(* ... and with failing rollbacks.  [wf_hist_f] also allows OHeadersR p now hs k:
   while the handler switches to a heavier branch, the k-th
   BlockHeaders.RollbackLastBlock fails the way the store fails when the
   header file cannot be truncated (index rolled back, bytes still in the
   file); handleHeadersMsg panics, the process is started again, the stores'
   start-up recovery repairs the file and a new block manager is built.  The
   three theorems above therefore hold for histories with such crashes too;
   this one names it. *)
Theorem C01_chain_valid_under_rollback_faults : forall P gfh pre post,
  wf_params P -> no_collision P (pre ++ post) -> wf_hist_f P (pre ++ post) ->
  let s := run P (init_state P gfh) pre in
  trap s = false /\
  (exists times, length times = length (chain s) /\
    Forall (fun t => t ∈ hist_nows pre) (tail times) /\
    valid_chain P (zip (chain s) times) = true) /\
  WM (hl s) (chain s) /\ nextCp s = find_next_cp P (tip_height s) /\
  0 < zlen (fchain s) <= zlen (chain s) /\ ftipVar s = zlen (fchain s) - 1.
Proof. exact chain_valid_rollback_faults. Qed.
Print Assumptions C01_chain_valid_under_rollback_faults.

Example C01_rollback_faults_nonvacuous :
  let P := ex_P [] in
  wf_params P /\ no_collision P exr_ops /\ wf_hist_f P exr_ops /\
  map (fun k => let s := run P (init_state P 7) (take k exr_ops) in
                (map hid (chain s), map nheight (hl s), syncPeer s, length (peers s), events s))
      [2; 3; 5]%nat =
    [ ([100; 101; 102], [0; 1; 2], Some 1, 1%nat, []);
      ([100; 101], [1], None, 0%nat, []);                      (* crashed: 102 gone, not announced, no peers *)
      ([100; 101; 202; 203], [1; 2; 3], Some 1, 1%nat, []) ].  (* nothing left to roll back: no fault strikes *)
Proof.
  split; [|split; [|split]].
  - split; cbn; lia.
  - apply no_collision_b_sound. vm_compute. reflexivity.
  - split; [repeat constructor; vm_compute; reflexivity|vm_compute; discriminate].
  - vm_compute. reflexivity.
Qed.

(* every fault-free history is such a history, and a fault that does not
   strike (k = 0) is no fault *)
Theorem C01_write_faults_conservative : forall P ops now p hs s,
  (wf_hist P ops -> wf_hist_f P ops) /\
  step P s (OHeadersF p now hs 0) = step P s (OHeaders p now hs).
Proof. exact write_faults_conservative. Qed.
Print Assumptions C01_write_faults_conservative.

Example C01_write_faults_nonvacuous :
  let P := ex_P [(4, 204)] in
  wf_params P /\ no_collision P exf_ops /\ wf_hist_f P exf_ops /\
  map (fun k => let s := run P (init_state P 7) (take k exf_ops) in
                (map hid (chain s), map nheight (hl s), nextCp s, events s))
      [2; 3; 4; 5; 6; 7; 8]%nat =
    [ ([100], [0], Some (4, 204), []);                                  (* batch write failed: nothing stored *)
      ([100; 101; 102], [0; 1; 2], Some (4, 204), []);
      ([100; 101], [1], Some (4, 204), [EDisc 102 2 101]);             (* rolled back, branch header not written *)
      ([100; 101; 202; 203], [1; 2; 3], Some (4, 204), [EDisc 102 2 101]);
      ([100; 101; 202; 203], [3], Some (4, 204), [EDisc 102 2 101]);   (* checkpoint batch lost: nextCp stays *)
      ([100], [0], Some (4, 204),                                       (* another header at height 4: refused *)
       [EDisc 102 2 101; EDisc 203 3 202; EDisc 202 2 101; EDisc 101 1 100]);
      ([100; 101; 202; 203; 204], [0; 1; 2; 3; 4], None,
       [EDisc 102 2 101; EDisc 203 3 202; EDisc 202 2 101; EDisc 101 1 100]) ].
Proof.
  split; [|split; [|split]].
  - split; cbn; lia.
  - apply no_collision_b_sound. vm_compute. reflexivity.
  - split; [repeat constructor; vm_compute; reflexivity|vm_compute; discriminate].
  - vm_compute. reflexivity.
Qed.

(* the hypotheses are satisfiable by a history with a valid batch, a batch
   valid only up to some index, a duplicate, a restart, a heavier fork and a
   checkpoint *)
Example C01_nonvacuous :
  let P := ex_P [(4, 204)] in
  wf_params P /\ no_collision P ex_ops /\ wf_hist P ex_ops /\
  map (fun k => map hid (chain (run P (init_state P 7) (take k ex_ops)))) [2; 3; 4; 5; 7; 9]%nat =
    [[100; 101; 102]; [100; 101; 102]; [100; 101; 102]; [100; 101; 102]; [100; 101; 202; 203];
     [100; 101; 202; 203; 204]] /\
  (let s := run P (init_state P 7) (take 5 ex_ops) in
   (map nheight (hl s), syncPeer s, peers s, nextCp s) = ([2], None, [], Some (4, 204))).
Proof.
  split; [|split; [|split]].
  - split; cbn; lia.
  - apply no_collision_b_sound. vm_compute. reflexivity.
  - split; [repeat constructor; vm_compute; reflexivity|vm_compute; discriminate].
  - split; vm_compute; reflexivity.
Qed.

(* The required difficulty at a retarget (btcd calcNextRequiredDifficulty as
   transliterated in S2.Model.next_required) clamps the measured timespan of
   the period to [minTs, maxTs] = [timespan/4, timespan*4] on BOTH sides:
   with a target timespan of 40 s, bounds 10 s and 160 s and the old target
   0x2007ffff, every period of at most 10 s gives old/4 = 0x2001ffff, every
   period of at least 160 s gives old*4 = 0x201ffffc (below the limit
   0x207fffff, so it is the clamp that binds), and periods in between scale
   proportionally (20 s: half, 40 s: unchanged, 100 s: 2.5 times). *)
Definition cl_P : params :=
  {| genesis := ex_mk 100 0 1000; powLimit := compactToBig ex_bits; powLimitBits := ex_bits;
     bpr := 4; minTs := 10; maxTs := 160; targetTs := 40;
     reduceMinDiff := false; minDiffRedTime := 20; noRetarget := false; bip94 := false;
     bip34h := 0; bip65h := 0; bip66h := 0; checkpoints := []; memCap := 10 |}.
Definition cl_hdr (time : Z) : header :=
  {| hid := 1; hprev := 0; hnum := 0; hbits := 0x2007ffff; htime := time; hver := 4 |}.
(* the period's first header (height 4) lies [span] seconds before its last (height 7) *)
Definition cl_required (span : Z) : option Z :=
  next_required cl_P (fun h => if h =? 4 then Some (cl_hdr (10000 - span)) else None) 7 (cl_hdr 10000) 10010.
Example C01_retarget_clamps_both_sides :
  map cl_required [1; 9; 10] = [Some 0x2001ffff; Some 0x2001ffff; Some 0x2001ffff] /\
  map cl_required [160; 161; 400; 100000] = [Some 0x201ffffc; Some 0x201ffffc; Some 0x201ffffc; Some 0x201ffffc] /\
  map cl_required [20; 40; 100] = [Some 0x2003ffff; Some 0x2007ffff; Some 0x2013fffd] /\
  compactToBig 0x201ffffc < powLimit cl_P.
Proof. vm_compute. repeat split; reflexivity. Qed.
