(* C01 — proofs: the stored chain of every reachable state of the block-manager
   model is a valid chain; lookups agree; no ill-formed store operation. *)
From stdpp Require Import list.
From Coq Require Import ZArith Lia ZifyBool.
From Verif Require Import S2.Model C01.Spec S2.Basics S2.Invariant S2.Faults.
Open Scope Z_scope.

(* ---------- hypotheses on a history ---------- *)
Definition msg_headers (o : op) : list header := match o with OHeaders _ _ hs | OHeadersF _ _ hs _ | OHeadersR _ _ hs _ => hs | _ => [] end.
Definition hist_headers (ops : list op) : list header := flat_map msg_headers ops.
Definition hist_nows (ops : list op) : list Z :=
  flat_map (fun o => match o with OHeaders _ now _ | OHeadersF _ now _ _ | OHeadersR _ now _ _ => [now] | _ => [] end) ops.

(* the headers the client ever sees: the genesis block and whatever peers send *)
Definition U_of (P : params) (ops : list op) (h : header) : Prop := h = genesis P \/ h ∈ hist_headers ops.
Definition T_of (ops : list op) (t : Z) : Prop := t ∈ hist_nows ops.

(* hash tokens identify headers, and nothing hashes to the previous-block field
   of the genesis block (all zero in reality) *)
Definition no_collision (P : params) (ops : list op) : Prop :=
  (forall a b, U_of P ops a -> U_of P ops b -> hid a = hid b -> a = b) /\
  (forall a, U_of P ops a -> hid a <> hprev (genesis P)).

(* a headers message is shorter than the in-memory window (2000 < 10000 in the
   code); rollBackToHeight is not an operation peers can cause; the model's
   height arithmetic is exact below 1000000 headers; every other operation,
   a restart (ORestart) included, may occur anywhere *)
Definition op_ok (P : params) (o : op) : Prop :=
  match o with
  | OHeaders _ _ hs => zlen hs < memCap P
  | ORollback _ => False
  | OHeadersF _ _ _ _ | OHeadersR _ _ _ _ => False
  | _ => True
  end.
Definition wf_hist (P : params) (ops : list op) : Prop :=
  Forall (op_ok P) ops /\ 1 + ops_size ops <= 1000000.

(* ... and histories in which writes to the block header store may fail
   inside handleHeadersMsg (OHeadersF p now hs k: the k-th WriteHeaders call
   made for the message fails, any k), or the k-th RollbackLastBlock of a
   reorganisation's rollback (OHeadersR p now hs k: the handler panics, the
   process restarts, the stores recover) *)
Definition op_ok_f (P : params) (o : op) : Prop :=
  match o with
  | OHeadersF _ _ hs _ | OHeadersR _ _ hs _ => zlen hs < memCap P
  | _ => op_ok P o
  end.
Definition wf_hist_f (P : params) (ops : list op) : Prop :=
  Forall (op_ok_f P) ops /\ 1 + ops_size ops <= 1000000.
Lemma wf_hist_wf_hist_f P ops : wf_hist P ops -> wf_hist_f P ops.
Proof.
  intros [H1 H2]. split; [|done]. eapply Forall_impl; [exact H1|]. intros o Ho. destruct o; done.
Qed.

Lemma no_collision_universe P ops : no_collision P ops -> universe P (U_of P ops).
Proof. intros [H1 H2]. split; [by left|exact H1|exact H2]. Qed.

Lemma hist_headers_app a b : hist_headers (a ++ b) = hist_headers a ++ hist_headers b.
Proof. unfold hist_headers. by rewrite flat_map_app. Qed.
Lemma hist_nows_app a b : hist_nows (a ++ b) = hist_nows a ++ hist_nows b.
Proof. unfold hist_nows. by rewrite flat_map_app. Qed.

Lemma op_ok_wf P ops o : o ∈ ops -> op_ok P o -> wf_op P (U_of P ops) (T_of ops) o.
Proof.
  intros Hin Hok. apply elem_of_list_split in Hin as (l1 & l2 & ->).
  destruct o as [p now hs| | | | | | | |]; cbn in *; try done.
  split; [|split; [|done]].
  - unfold T_of. rewrite hist_nows_app. apply elem_of_app. right. cbn. left.
  - apply Forall_forall. intros h Hh. right. rewrite hist_headers_app. apply elem_of_app. right.
    cbn. apply elem_of_app. by left.
Qed.

Lemma op_ok_wf_f P ops o : o ∈ ops -> op_ok_f P o -> wf_op_f P (U_of P ops) (T_of ops) o.
Proof.
  intros Hin Hok. destruct o as [| | | | | | |p now hs k|p now hs k]; try (by apply op_ok_wf);
  (apply elem_of_list_split in Hin as (l1 & l2 & ->); cbn in *;
   split; [|split; [|done]];
   [unfold T_of; rewrite hist_nows_app; apply elem_of_app; right; cbn; left
   |apply Forall_forall; intros h Hh; right; rewrite hist_headers_app; apply elem_of_app; right;
    cbn; apply elem_of_app; by left]).
Qed.

Lemma wf_hist_ops P ops : Forall (op_ok P) ops -> Forall (wf_op P (U_of P ops) (T_of ops)) ops.
Proof.
  intros H. apply Forall_forall. intros o Ho. apply op_ok_wf; [done|]. rewrite Forall_forall in H. by apply H.
Qed.

Lemma reach_Inv P gfh ops : wf_params P -> no_collision P ops -> wf_hist P ops ->
  Inv P (U_of P ops) (T_of ops) (run P (init_state P gfh) ops).
Proof.
  intros HP HU [Hok Hsz]. pose proof (no_collision_universe P ops HU) as HUu.
  apply run_Inv; [done|done|by apply init_Inv|by apply wf_hist_ops|].
  change (chain (init_state P gfh)) with [genesis P]. unfold LIMIT. rewrite zlen_cons, zlen_nil. lia.
Qed.

Lemma reach_Inv_f P gfh ops : wf_params P -> no_collision P ops -> wf_hist_f P ops ->
  Inv P (U_of P ops) (T_of ops) (run P (init_state P gfh) ops).
Proof.
  intros HP HU [Hok Hsz]. pose proof (no_collision_universe P ops HU) as HUu.
  apply run_Inv_f; [done|done|by apply init_Inv| |].
  - apply Forall_forall. intros o Ho. apply op_ok_wf_f; [done|]. rewrite Forall_forall in Hok. by apply Hok.
  - change (chain (init_state P gfh)) with [genesis P]. unfold LIMIT. rewrite zlen_cons, zlen_nil. lia.
Qed.

(* ---------- from the invariant to the spec ---------- *)
Lemma Inv_valid_chain P U T s : Inv P U T s ->
  exists times, length times = length (chain s) /\ Forall T (tail times) /\
    valid_chain P (zip (chain s) times) = true.
Proof.
  intros HI. destruct (i_chain _ _ _ _ HI) as [tl Htl].
  exists (0 :: tl.*2). rewrite (co_eq _ _ _ _ _ Htl). cbn [length tail zip zip_with].
  split; [by rewrite !fmap_length|]. split.
  - apply Forall_fmap. apply (co_T _ _ _ _ _ Htl).
  - fold (zip tl.*1 tl.*2). rewrite zip_fst_snd. unfold valid_chain.
    rewrite (co_valid _ _ _ _ _ Htl). cbn [fmap list_fmap fst].
    rewrite <- (co_eq _ _ _ _ _ Htl).
    replace (checkpoints_ok P (chain s)) with true by (symmetry; apply checkpoints_ok_iff, (co_cps _ _ _ _ _ Htl)).
    lia.
Qed.

Lemma Inv_lookups P U T s x h i : Inv P U T s ->
  fetch_header (chain s) x = Some (h, i) <-> at_h (chain s) i = Some h /\ hid h = x.
Proof.
  intros HI. destruct (i_chain _ _ _ _ HI) as [tl Htl].
  pose proof (co_lim _ _ _ _ _ Htl) as HL.
  rewrite (fetch_header_iff _ _ _ _ (co_nodup _ _ _ _ _ Htl)). split.
  - intros [(n & -> & Hn) Hx]. split; [|done]. pose proof (lookup_lt_Some _ _ _ Hn).
    rewrite at_h_lookup by (unfold zlen in *; lia). by rewrite Nat2Z.id.
  - intros [Hat Hx]. split; [|done]. pose proof (at_h_Some _ _ _ Hat). rewrite at_h_lookup in Hat by lia.
    exists (Z.to_nat i). split; [lia|done].
Qed.

Lemma Inv_tip P U T s : Inv P U T s ->
  exists t, chain_tip s = Some t /\ at_h (chain s) (tip_height s) = Some t /\
            fetch_header (chain s) (hid t) = Some (t, tip_height s).
Proof.
  intros HI. destruct (i_chain _ _ _ _ HI) as [tl Htl].
  pose proof (ChainOK_ne _ _ _ _ _ Htl) as Hne. pose proof (co_lim _ _ _ _ _ Htl) as HL.
  unfold chain_tip, tip_height. rewrite (last_at_h _ Hne HL).
  destruct (at_h (chain s) (zlen (chain s) - 1)) as [t|] eqn:E.
  - exists t. split; [done|]. split; [done|]. by apply (Inv_lookups P U T s).
  - pose proof (zlen_pos _ Hne). rewrite at_h_lookup in E by lia. apply lookup_ge_None in E. unfold zlen in *. lia.
Qed.

(* ---------- a decidable form of no_collision, for concrete histories ---------- *)
Definition header_eqb (a b : header) : bool :=
  (hid a =? hid b) && (hprev a =? hprev b) && (hnum a =? hnum b) && (hbits a =? hbits b) &&
  (htime a =? htime b) && (hver a =? hver b).
Lemma header_eqb_eq a b : header_eqb a b = true -> a = b.
Proof. destruct a, b. unfold header_eqb. cbn. intros H. f_equal; lia. Qed.

Definition no_collision_b (P : params) (ops : list op) : bool :=
  let hd := genesis P :: hist_headers ops in
  forallb (fun a => negb (hid a =? hprev (genesis P)) &&
                    forallb (fun b => negb (hid a =? hid b) || header_eqb a b) hd) hd.

Lemma no_collision_b_sound P ops : no_collision_b P ops = true -> no_collision P ops.
Proof.
  unfold no_collision_b. intros H. rewrite forallb_forall in H.
  assert (HU : forall a, U_of P ops a -> In a (genesis P :: hist_headers ops)).
  { intros a [->|Ha]; [by left|right; by apply elem_of_list_In]. }
  split.
  - intros a b Ha Hb Heq. specialize (H a (HU a Ha)). apply andb_true_iff in H as [_ H].
    rewrite forallb_forall in H. specialize (H b (HU b Hb)).
    apply orb_true_iff in H as [H|H]; [lia|by apply header_eqb_eq].
  - intros a Ha. specialize (H a (HU a Ha)). apply andb_true_iff in H as [H _]. lia.
Qed.

Lemma no_collision_prefix P pre post : no_collision P (pre ++ post) -> no_collision P pre.
Proof.
  assert (HU : forall a, U_of P pre a -> U_of P (pre ++ post) a).
  { intros a [->|Ha]; [by left|right]. rewrite hist_headers_app. apply elem_of_app. by left. }
  intros [H1 H2]. split; [intros a b Ha Hb; apply H1; by apply HU|intros a Ha; apply H2; by apply HU].
Qed.
Lemma ops_size_nonneg ops : 0 <= ops_size ops.
Proof.
  induction ops as [|o ops IH]; cbn; [lia|]. fold (ops_size ops). destruct o; cbn; try lia;
  pose proof (zlen_nonneg hs); lia.
Qed.
Lemma ops_size_app a b : ops_size (a ++ b) = ops_size a + ops_size b.
Proof. unfold ops_size. induction a as [|o a IH]; cbn [app foldr]; lia. Qed.
Lemma wf_hist_prefix P pre post : wf_hist P (pre ++ post) -> wf_hist P pre.
Proof.
  intros [H1 H2]. apply Forall_app in H1 as [H1 _]. split; [done|].
  rewrite ops_size_app in H2. pose proof (ops_size_nonneg post). lia.
Qed.

(* ---------- the property statements ---------- *)
Lemma chain_always_valid P gfh ops :
  wf_params P -> no_collision P ops -> wf_hist P ops ->
  let s := run P (init_state P gfh) ops in
  trap s = false /\
  exists times, length times = length (chain s) /\
    Forall (fun t => t ∈ hist_nows ops) (tail times) /\
    valid_chain P (zip (chain s) times) = true.
Proof.
  intros HP HU HW s. pose proof (reach_Inv P gfh ops HP HU HW) as HI. fold s in HI.
  split; [apply (i_trap _ _ _ _ HI)|]. by apply (Inv_valid_chain P (U_of P ops) (T_of ops)).
Qed.

(* ... at every instant: after every prefix of the history *)
Lemma chain_valid_every_instant P gfh pre post :
  wf_params P -> no_collision P (pre ++ post) -> wf_hist P (pre ++ post) ->
  let s := run P (init_state P gfh) pre in
  trap s = false /\
  exists times, length times = length (chain s) /\
    Forall (fun t => t ∈ hist_nows pre) (tail times) /\
    valid_chain P (zip (chain s) times) = true.
Proof.
  intros HP HU HW. apply chain_always_valid; [done|by eapply no_collision_prefix|by eapply wf_hist_prefix].
Qed.

Lemma lookups_agree_thm P gfh ops :
  wf_params P -> no_collision P ops -> wf_hist P ops ->
  let s := run P (init_state P gfh) ops in
  (forall x h i, fetch_header (chain s) x = Some (h, i) <-> at_h (chain s) i = Some h /\ hid h = x) /\
  (exists t, chain_tip s = Some t /\ at_h (chain s) (tip_height s) = Some t /\
             fetch_header (chain s) (hid t) = Some (t, tip_height s)) /\
  NoDup (map hid (chain s)).
Proof.
  intros HP HU HW s. pose proof (reach_Inv P gfh ops HP HU HW) as HI. fold s in HI.
  split; [intros x h i; by apply (Inv_lookups P (U_of P ops) (T_of ops))|].
  split; [by apply (Inv_tip P (U_of P ops) (T_of ops))|].
  destruct (i_chain _ _ _ _ HI) as [tl Htl]. apply (co_nodup _ _ _ _ _ Htl).
Qed.

Lemma never_traps P gfh pre post :
  wf_params P -> no_collision P (pre ++ post) -> wf_hist P (pre ++ post) ->
  trap (run P (init_state P gfh) pre) = false.
Proof. intros HP HU HW. by apply (chain_valid_every_instant P gfh pre post). Qed.

(* ---------- the same for histories with store write faults ---------- *)
Lemma wf_hist_f_prefix P pre post : wf_hist_f P (pre ++ post) -> wf_hist_f P pre.
Proof.
  intros [H1 H2]. apply Forall_app in H1 as [H1 _]. split; [done|].
  rewrite ops_size_app in H2. pose proof (ops_size_nonneg post). lia.
Qed.

Lemma chain_valid_every_instant_f P gfh pre post :
  wf_params P -> no_collision P (pre ++ post) -> wf_hist_f P (pre ++ post) ->
  let s := run P (init_state P gfh) pre in
  trap s = false /\
  exists times, length times = length (chain s) /\
    Forall (fun t => t ∈ hist_nows pre) (tail times) /\
    valid_chain P (zip (chain s) times) = true.
Proof.
  intros HP HU HW s.
  pose proof (reach_Inv_f P gfh pre HP (no_collision_prefix _ _ _ HU) (wf_hist_f_prefix _ _ _ HW)) as HI. fold s in HI.
  split; [apply (i_trap _ _ _ _ HI)|]. by apply (Inv_valid_chain P (U_of P pre) (T_of pre)).
Qed.

Lemma lookups_agree_f P gfh ops :
  wf_params P -> no_collision P ops -> wf_hist_f P ops ->
  let s := run P (init_state P gfh) ops in
  (forall x h i, fetch_header (chain s) x = Some (h, i) <-> at_h (chain s) i = Some h /\ hid h = x) /\
  (exists t, chain_tip s = Some t /\ at_h (chain s) (tip_height s) = Some t /\
             fetch_header (chain s) (hid t) = Some (t, tip_height s)) /\
  NoDup (map hid (chain s)).
Proof.
  intros HP HU HW s. pose proof (reach_Inv_f P gfh ops HP HU HW) as HI. fold s in HI.
  split; [intros x h i; by apply (Inv_lookups P (U_of P ops) (T_of ops))|].
  split; [by apply (Inv_tip P (U_of P ops) (T_of ops))|].
  destruct (i_chain _ _ _ _ HI) as [tl Htl]. apply (co_nodup _ _ _ _ _ Htl).
Qed.

(* what else the handler relies on between messages: the in-memory window is
   the tail of the stored chain, the next checkpoint is the first one above
   the stored tip, the in-memory filter tip is the filter store's *)
Lemma mirror_f P gfh ops :
  wf_params P -> no_collision P ops -> wf_hist_f P ops ->
  let s := run P (init_state P gfh) ops in
  WM (hl s) (chain s) /\ nextCp s = find_next_cp P (tip_height s) /\
  0 < zlen (fchain s) <= zlen (chain s) /\ ftipVar s = zlen (fchain s) - 1.
Proof.
  intros HP HU HW s. pose proof (reach_Inv_f P gfh ops HP HU HW) as HI. fold s in HI.
  destruct HI. repeat split; done.
Qed.

Lemma chain_valid_rollback_faults P gfh pre post :
  wf_params P -> no_collision P (pre ++ post) -> wf_hist_f P (pre ++ post) ->
  let s := run P (init_state P gfh) pre in
  trap s = false /\
  (exists times, length times = length (chain s) /\
    Forall (fun t => t ∈ hist_nows pre) (tail times) /\
    valid_chain P (zip (chain s) times) = true) /\
  WM (hl s) (chain s) /\ nextCp s = find_next_cp P (tip_height s) /\
  0 < zlen (fchain s) <= zlen (chain s) /\ ftipVar s = zlen (fchain s) - 1.
Proof.
  intros HP HU HW s. destruct (chain_valid_every_instant_f P gfh pre post HP HU HW) as [H1 H2].
  split; [exact H1|]. split; [exact H2|].
  apply (mirror_f P gfh pre HP (no_collision_prefix _ _ _ HU) (wf_hist_f_prefix _ _ _ HW)).
Qed.

Lemma write_faults_conservative P ops now p hs s :
  (wf_hist P ops -> wf_hist_f P ops) /\
  step P s (OHeadersF p now hs 0) = step P s (OHeaders p now hs).
Proof. split; [apply wf_hist_wf_hist_f|apply handle_headers_f_0]. Qed.

(* ---------- a concrete history ---------- *)
Definition ex_bits : Z := 545259519.    (* 0x207fffff *)
Definition ex_mk (id prev time : Z) : header :=
  {| hid := id; hprev := prev; hnum := 0; hbits := ex_bits; htime := time; hver := 4 |}.
Definition ex_P (cps : list (Z * Z)) : params :=
  {| genesis := ex_mk 100 0 1000; powLimit := compactToBig ex_bits; powLimitBits := ex_bits;
     bpr := 2016; minTs := 302400; maxTs := 4838400; targetTs := 1209600;
     reduceMinDiff := false; minDiffRedTime := 1200; noRetarget := true; bip94 := false;
     bip34h := 0; bip65h := 0; bip66h := 0; checkpoints := cps; memCap := 10 |}.
Definition ex_h1 := ex_mk 101 100 1600.
Definition ex_h2 := ex_mk 102 101 2200.
Definition ex_h3 := ex_mk 103 102 2800.
Definition ex_bad4 := ex_mk 104 103 1000.   (* not later than the median time *)
Definition ex_f2 := ex_mk 202 101 2300.
Definition ex_f3 := ex_mk 203 202 2900.
Definition ex_f4 := ex_mk 204 203 3500.
Definition ex_now : Z := 100000.
(* a valid batch; a batch valid only up to its first header; a duplicate; a
   restart (the peer has to connect again); a heavier fork (reorganisation);
   the checkpointed header *)
Definition ex_ops : list op :=
  [ ONewPeer 1 0 10 true;
    OHeaders 1 ex_now [ex_h1; ex_h2];
    OHeaders 1 ex_now [ex_h3; ex_bad4];
    OHeaders 1 ex_now [ex_h1; ex_h2];
    ORestart;
    ONewPeer 1 0 10 true;
    OHeaders 1 ex_now [ex_f2; ex_f3];
    OInv 1 ex_now (Some 204);
    OHeaders 1 ex_now [ex_f4];
    ODonePeer 1 ].

(* store write faults: the first batch is lost (its write fails), sent again;
   the write of the first header of a heavier branch fails after the rollback;
   the branch is sent again (now an extension); the batch that reaches the
   checkpoint at height 4 is lost; a different valid header at height 4 is
   then still refused (the next checkpoint was not advanced), and the
   checkpointed one accepted *)
Definition ex_g4 := ex_mk 214 203 3500.
Definition exf_ops : list op :=
  [ ONewPeer 1 0 10 true;
    OHeadersF 1 ex_now [ex_h1; ex_h2] 1;
    OHeaders 1 ex_now [ex_h1; ex_h2];
    OHeadersF 1 ex_now [ex_f2; ex_f3] 1;
    OHeadersF 1 ex_now [ex_f2; ex_f3] 2;
    OHeadersF 1 ex_now [ex_f4] 1;
    OHeaders 1 ex_now [ex_g4];
    OHeaders 1 ex_now [ex_h1; ex_f2; ex_f3; ex_f4] ].

(* a failing rollback: the client has 100,101,102; the heavier branch
   202,203 arrives while the header file cannot be truncated: 102 is removed
   from both stores, the handler panics, the process restarts (no peers, the
   window is the stored tip, the removal of 102 was not announced); the peer
   connects again and the branch is adopted as an extension *)
Definition exr_ops : list op :=
  [ ONewPeer 1 0 10 true;
    OHeaders 1 ex_now [ex_h1; ex_h2];
    OHeadersR 1 ex_now [ex_f2; ex_f3] 1;
    ONewPeer 1 0 10 true;
    OHeadersR 1 ex_now [ex_f2; ex_f3] 1 ].
