(* C01 — the stored block-header chain is always fully valid.
   Everything here is defined on plain lists of headers: no store, no window,
   no context objects. *)
From stdpp Require Import list.
From Coq Require Import ZArith Lia.
From Verif Require Import S2.Model.
Open Scope Z_scope.

(* [h] is a valid successor of the chain [prefix] for a client that accepted
   it at clock reading [now]: names its predecessor, carries exactly the
   required difficulty, is later than the median time of the last 11, is not
   more than two hours ahead, has an allowed version, and meets its own
   target, which does not exceed the proof-of-work limit. *)
Definition valid_next (P : params) (prefix : list header) (now : Z) (h : header) : bool :=
  match last prefix with
  | None => false
  | Some p =>
    (hprev h =? hid p) &&
    is_ok (check_sanity P (at_h prefix) now h (zlen prefix - 1) p)
  end.

(* the chain with the clock reading at which each header was accepted *)
Fixpoint valid_from (P : params) (prefix : list header) (rest : list (header * Z)) : bool :=
  match rest with
  | [] => true
  | (h, now) :: r => valid_next P prefix now h && valid_from P (prefix ++ [h]) r
  end.

Definition checkpoints_ok (P : params) (c : list header) : bool :=
  forallb (fun cp => match at_h c cp.1 with Some h => hid h =? cp.2 | None => true end) (checkpoints P).

Definition valid_chain (P : params) (c : list (header * Z)) : bool :=
  match c with
  | (g, _) :: rest => (hid g =? hid (genesis P)) && valid_from P [g] rest && checkpoints_ok P c.*1
  | [] => false
  end.

(* lookups agree: what is reported as tip, by height and by hash is one chain *)
Fixpoint index_of (x : Z) (l : list Z) (i : Z) : Z :=
  match l with
  | [] => -1
  | y :: r => if y =? x then i else index_of x r (i + 1)
  end.

Fixpoint nodupb (l : list Z) : bool :=
  match l with [] => true | x :: r => negb (existsb (Z.eqb x) r) && nodupb r end.

Definition lookups_agree (chain_by_height : list Z) (tip : option (Z * Z))
           (hashes : list Z) (heights : list Z) : bool :=
  nodupb chain_by_height &&
  match tip, last chain_by_height with
  | Some (x, h), Some y => (x =? y) && (h =? zlen chain_by_height - 1)
  | _, _ => false
  end &&
  forallb (fun p => index_of p.1 chain_by_height 0 =? p.2) (zip hashes heights).
