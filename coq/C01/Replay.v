(* C01 — replay: model vs implementation (kind 1), and the C01 monitor on the
   implementation's own observations (kind 2). *)
From stdpp Require Import list.
From Coq Require Import ZArith.
From Verif Require Import S2.Model S2.Replay C01.Spec.
Open Scope Z_scope.

(* header table: every header that appears in an operation of the trace *)
Definition op_headers (o : op) : list header :=
  match o with OHeaders _ _ hs | OHeadersF _ _ hs _ | OHeadersR _ _ hs _ => hs | _ => [] end.
Definition op_now (o : op) : Z :=
  match o with OHeaders _ now _ | OInv _ now _ | OHeadersF _ now _ _ | OHeadersR _ now _ _ => now | _ => 0 end.

Definition find_hdr (tbl : list header) (x : Z) : option header :=
  match list_find (fun h => hid h = x) tbl with Some (_, h) => Some h | None => None end.

(* acceptance times: hash -> clock reading of the operation after which it
   (re)appeared in the reported chain *)
Definition update_times (prev_chain cur_chain : list Z) (now : Z) (times : list (Z * Z)) : list (Z * Z) :=
  fold_left (fun acc x =>
     if existsb (Z.eqb x) prev_chain then acc
     else (x, now) :: filter (fun p => p.1 <> x) acc) cur_chain times.

Definition time_of (times : list (Z * Z)) (x : Z) : Z :=
  match list_find (fun p => p.1 = x) times with Some (_, p) => p.2 | None => 0 end.

(* the monitor: after every operation, what the implementation reports is a
   fully valid chain and its lookups agree *)
Fixpoint first_bad (P : params) (hashes : list Z) (tbl : list header) (prev : list Z)
         (times : list (Z * Z)) (i : Z) (tr : list (op * obs)) : option Z :=
  match tr with
  | [] => None
  | (o, ob) :: rest =>
    let tbl := op_headers o ++ tbl in
    let times := update_times prev (o_chain ob) (op_now o) times in
    let hdrs := map (fun x => match find_hdr tbl x with Some h => Some (h, time_of times x) | None => None end) (o_chain ob) in
    let ok :=
      forallb (fun o => match o with Some _ => true | None => false end) hdrs &&
      valid_chain P (omap id hdrs) &&
      lookups_agree (o_chain ob) (o_tip ob) hashes (o_lookup ob) in
    if ok then first_bad P hashes tbl (o_chain ob) times (i + 1) rest else Some i
  end.

Definition monitor_row (c : bcase) : list (Z * Z * Z * Z) :=
  let P := bparams c in
  match first_bad P (bhashes c) [genesis P] [hid (genesis P)] [] 0 (btrace c) with
  | Some i => [(bid c, 2, i, 0)]
  | None => []
  end.

Definition verdict (c : bcase) : list (Z * Z * Z * Z) :=
  mismatch_row c ++ trap_row c ++ monitor_row c.

Definition run_cases (cs : list bcase) : list (Z * Z * Z * Z) := flat_map verdict cs.
