(* S1/Index2 — the hash→height index as it is laid out in bbolt
   (headerfs/index.go): new entries live in hash-prefix sub-buckets, entries
   written by old versions live directly in the root bucket ("legacy").

     getHeaderEntry        sub-bucket first, then getHeaderEntryFallback (root)
     putHeaderEntryInBucket always into the sub-bucket
     deleteHeaderEntries   classifies every hash up front: present in the root
                           bucket -> deleted there (only), else deleted from
                           its sub-bucket

   S1.Model keeps ONE map.  This file proves that the two-level layout refines
   that one map for every sequence of index transactions, as long as no stored
   hash is added a second time (the well-formedness condition of C07; the
   block manager skips known headers), from ANY split of the entries between
   the two levels — and shows what goes wrong without that condition.

   The 65536 sub-buckets partition the key space by a function of the key, so
   they are modelled as one map [sub]; all of them are created when the index
   is opened (ensureIndexSubBuckets), the "missing sub-bucket" error paths are
   dead and not modelled. *)
From stdpp Require Import gmap list.
From Coq Require Import ZArith.
From Verif Require Import S1.Model.
Open Scope Z_scope.

Record idx2 := { root : gmap Z Z; sub : gmap Z Z }.

Definition get2 (i : idx2) (k : Z) : option Z :=
  match sub i !! k with Some v => Some v | None => root i !! k end.

Definition put2 (i : idx2) (e : Z * Z) : idx2 :=
  {| root := root i; sub := <[ e.1 := e.2 ]> (sub i) |}.

Definition add2 (i : idx2) (es : list (Z * Z)) : idx2 := fold_left put2 es i.

Definition in_root (i : idx2) (k : Z) : bool :=
  match root i !! k with Some _ => true | None => false end.

Definition dels2 (i : idx2) (ks : list Z) : idx2 :=
  {| root := fold_left (fun m x => delete x m) (filter (fun k => in_root i k = true) ks) (root i);
     sub := fold_left (fun m x => delete x m) (filter (fun k => in_root i k <> true) ks) (sub i) |}.

(* the test hook headerfs.VerifLegacyize: move entries to the root bucket *)
Definition legacy1 (i : idx2) (k : Z) : idx2 :=
  match sub i !! k with
  | Some v => {| root := <[ k := v ]> (root i); sub := delete k (sub i) |}
  | None => i
  end.
Definition legacyize (i : idx2) (ks : list Z) : idx2 := fold_left legacy1 ks i.

Inductive iop :=
| IAdd (es : list (Z * Z))     (* addHeaders, entries already sorted *)
| IDel (ks : list Z)           (* truncateIndices / deleteHeaderEntries *)
| ILegacy (ks : list Z).       (* old database: these entries are in the root bucket *)

Definition step2 (i : idx2) (o : iop) : idx2 :=
  match o with IAdd es => add2 i es | IDel ks => dels2 i ks | ILegacy ks => legacyize i ks end.

(* the same transactions on the single map of S1.Model *)
Definition step1 (m : gmap Z Z) (o : iop) : gmap Z Z :=
  match o with
  | IAdd es => add_entries m es
  | IDel ks => fold_left (fun m x => delete x m) ks m
  | ILegacy _ => m
  end.

(* no stored hash is added again *)
Definition wf_iop (m : gmap Z Z) (o : iop) : Prop :=
  match o with IAdd es => Forall (fun e : Z * Z => m !! e.1 = None) es | _ => True end.

Fixpoint wf_iops (m : gmap Z Z) (ops : list iop) : Prop :=
  match ops with
  | [] => True
  | o :: r => wf_iop m o /\ wf_iops (step1 m o) r
  end.

Definition abs (i : idx2) : gmap Z Z := sub i ∪ root i.
Definition Inv2 (i : idx2) : Prop := sub i ##ₘ root i.

(* ------------------------------------------------------------------ *)

Lemma get2_abs i k : get2 i k = abs i !! k.
Proof.
  unfold get2, abs. rewrite lookup_union.
  destruct (sub i !! k), (root i !! k); reflexivity.
Qed.

Lemma lookup_fold_delete (ks : list Z) (m : gmap Z Z) k :
  fold_left (fun m x => delete x m) ks m !! k = if decide (k ∈ ks) then None else m !! k.
Proof.
  revert m. induction ks as [|a ks IH]; intros m; cbn [fold_left].
  - destruct (decide (k ∈ [])) as [H|_]; [inversion H|reflexivity].
  - rewrite IH. destruct (decide (k ∈ ks)) as [H|H].
    + rewrite decide_True by (right; exact H). reflexivity.
    + destruct (decide (k = a)) as [->|Hne].
      * rewrite decide_True by left. apply lookup_delete.
      * rewrite decide_False by (intros Hin; apply elem_of_cons in Hin as [?|?]; tauto).
        apply lookup_delete_ne. congruence.
Qed.

Lemma put2_spec i e :
  Inv2 i -> root i !! e.1 = None ->
  Inv2 (put2 i e) /\ abs (put2 i e) = <[ e.1 := e.2 ]> (abs i) /\ root (put2 i e) = root i.
Proof.
  intros HI Hr. unfold Inv2, abs, put2; cbn [root sub]. split; [|split; [|reflexivity]].
  - apply map_disjoint_insert_l_2; assumption.
  - symmetry. apply insert_union_l.
Qed.

Lemma add2_spec es : forall i,
  Inv2 i -> Forall (fun e : Z * Z => abs i !! e.1 = None) es ->
  Inv2 (add2 i es) /\ abs (add2 i es) = add_entries (abs i) es.
Proof.
  induction es as [|e es IH]; intros i HI Hf; cbn [add2 add_entries fold_left].
  - split; [exact HI|reflexivity].
  - pose proof (Forall_inv Hf) as He. pose proof (Forall_inv_tail Hf) as Ht.
    assert (Hr : root i !! e.1 = None).
    { unfold abs in He. apply lookup_union_None in He. tauto. }
    destruct (put2_spec i e HI Hr) as (HI' & Ha & Hroot).
    (* later entries of the batch may repeat e's key: they only need the root
       bucket not to hold it *)
    assert (Hgen : forall es i, Inv2 i ->
              Forall (fun e : Z * Z => root i !! e.1 = None) es ->
              Inv2 (fold_left put2 es i) /\
              abs (fold_left put2 es i) = fold_left (fun m e => <[ e.1 := e.2 ]> m) es (abs i)).
    { clear. induction es as [|e es IH]; intros i HI Hf; cbn [fold_left].
      - split; [exact HI|reflexivity].
      - destruct (put2_spec i e HI (Forall_inv Hf)) as (HI' & Ha & Hroot).
        destruct (IH (put2 i e) HI') as (H1 & H2).
        { rewrite Hroot. exact (Forall_inv_tail Hf). }
        split; [exact H1|]. rewrite H2, Ha. reflexivity. }
    apply (Hgen (e :: es) i HI).
    eapply Forall_impl; [exact Hf|]. intros x Hx. cbn beta in Hx.
    unfold abs in Hx. apply lookup_union_None in Hx. tauto.
Qed.

Lemma dels2_spec i ks :
  Inv2 i ->
  Inv2 (dels2 i ks) /\ abs (dels2 i ks) = fold_left (fun m x => delete x m) ks (abs i).
Proof.
  intros HI. split.
  - unfold Inv2, dels2; cbn [root sub]. apply map_disjoint_spec.
    intros k x y Hx Hy.
    rewrite lookup_fold_delete in Hx. rewrite lookup_fold_delete in Hy.
    destruct (decide (k ∈ _)) in Hx; [discriminate|].
    destruct (decide (k ∈ _)) in Hy; [discriminate|].
    eapply map_disjoint_spec; [exact HI|exact Hx|exact Hy].
  - apply map_eq. intros k. rewrite lookup_fold_delete.
    unfold abs, dels2; cbn [root sub]. rewrite !lookup_union, !lookup_fold_delete.
    destruct (decide (k ∈ ks)) as [Hin|Hnin].
    + unfold in_root.
      destruct (root i !! k) as [v|] eqn:Hr.
      * (* classified as a root entry: the sub-bucket cannot hold it *)
        assert (Hs : sub i !! k = None).
        { destruct (sub i !! k) eqn:Hs; [|reflexivity].
          exfalso. eapply map_disjoint_spec; [exact HI|exact Hs|exact Hr]. }
        rewrite (decide_True (P := k ∈ filter (fun k0 => in_root i k0 = true) ks)).
        2:{ apply elem_of_list_filter. split; [unfold in_root; rewrite Hr; reflexivity|exact Hin]. }
        destruct (decide (k ∈ _)); [reflexivity|]. rewrite Hs. reflexivity.
      * rewrite (decide_True (P := k ∈ filter (fun k0 => in_root i k0 <> true) ks)).
        2:{ apply elem_of_list_filter. split; [unfold in_root; rewrite Hr; discriminate|exact Hin]. }
        destruct (decide (k ∈ _)); reflexivity.
    + rewrite !decide_False; [reflexivity| |].
      * intros H. apply elem_of_list_filter in H. tauto.
      * intros H. apply elem_of_list_filter in H. tauto.
Qed.

Lemma legacy1_spec i k : Inv2 i -> Inv2 (legacy1 i k) /\ abs (legacy1 i k) = abs i.
Proof.
  intros HI. unfold legacy1. destruct (sub i !! k) as [v|] eqn:Hs; [|split; [exact HI|reflexivity]].
  split.
  - unfold Inv2; cbn [root sub]. apply map_disjoint_spec. intros j x y Hx Hy.
    destruct (decide (j = k)) as [->|Hne].
    + rewrite lookup_delete in Hx. discriminate.
    + rewrite lookup_delete_ne in Hx by congruence. rewrite lookup_insert_ne in Hy by congruence.
      eapply map_disjoint_spec; [exact HI|exact Hx|exact Hy].
  - apply map_eq. intros j. unfold abs; cbn [root sub]. rewrite !lookup_union.
    destruct (decide (j = k)) as [->|Hne].
    + rewrite lookup_delete, lookup_insert, Hs.
      destruct (root i !! k); reflexivity.
    + rewrite lookup_delete_ne by congruence. rewrite lookup_insert_ne by congruence. reflexivity.
Qed.

Lemma legacyize_spec ks : forall i, Inv2 i -> Inv2 (legacyize i ks) /\ abs (legacyize i ks) = abs i.
Proof.
  induction ks as [|k ks IH]; intros i HI; cbn [legacyize fold_left].
  - split; [exact HI|reflexivity].
  - destruct (legacy1_spec i k HI) as (H1 & H2).
    destruct (IH (legacy1 i k) H1) as (H3 & H4). split; [exact H3|].
    unfold legacyize in H4. rewrite H4. exact H2.
Qed.

Lemma step2_spec i o : Inv2 i -> wf_iop (abs i) o -> Inv2 (step2 i o) /\ abs (step2 i o) = step1 (abs i) o.
Proof.
  intros HI Hwf. destruct o as [es|ks|ks]; cbn [step2 step1].
  - apply add2_spec; assumption.
  - apply dels2_spec; assumption.
  - apply legacyize_spec; assumption.
Qed.

(* Every sequence of index transactions over the two-level layout — starting
   from any split of the entries between root bucket and sub-buckets, with
   entries moved to the legacy layout at any point — answers every lookup as
   the single map of S1.Model does. *)
Lemma index2_refines_lemma ops : forall i,
  Inv2 i -> wf_iops (abs i) ops ->
  Inv2 (fold_left step2 ops i) /\
  abs (fold_left step2 ops i) = fold_left step1 ops (abs i) /\
  forall k, get2 (fold_left step2 ops i) k = fold_left step1 ops (abs i) !! k.
Proof.
  induction ops as [|o ops IH]; intros i HI Hwf; cbn [fold_left].
  - split; [exact HI|]. split; [reflexivity|]. intros k. apply get2_abs.
  - destruct Hwf as (Hw & Hr).
    destruct (step2_spec i o HI Hw) as (H1 & H2).
    rewrite <- H2 in Hr. destruct (IH (step2 i o) H1 Hr) as (H3 & H4 & H5).
    rewrite <- H2. auto.
Qed.

(* Without the condition: a legacy entry that is added again lives at both
   levels; its deletion removes the root copy only and the lookup still
   answers. *)
Definition dup_witness : idx2 :=
  fold_left step2 [IAdd [(5, 1)]; IDel [5]] {| root := {[ 5 := 1 ]}; sub := ∅ |}.
Lemma index2_duplicate_add_survives_delete : get2 dup_witness 5 = Some 1.
Proof. vm_compute. reflexivity. Qed.
