(* S1 — executable model of headerfs (file.go, index.go, store.go): the block
   header store and the regular filter header store sharing one hash→height
   index.  No proofs here.

   Headers are tokens (Z): a block header is identified with its hash token
   (tokens are assigned by the harness in the byte order of the real hashes,
   so [Z] order = index sort order); a filter header is its 32-byte value's
   token.  Token 0 is "bytes that are not a known entry" (garbage).

   A flat file is the maximal aligned prefix of whole entries plus the number
   of bytes behind it that are not aligned whole entries (torn tails, whole
   entries appended behind a torn tail).  Heights are uint32 in the code: the
   wrap-around is written out ([u32]).

   The model is of the tree WITH the fixes for F03 (appendRaw takes the
   pre-write size with Seek(0, io.SeekEnd)), F04 (rollbacks commit the index
   before truncating the file), F05 (opening a store trims a partially
   written header), F41 (a store whose index never recorded a tip is started
   over: resetIfNoTip) and F42 (the filter header state reset moves the index
   tip to the genesis block BEFORE removing the file), see KNOWN_FINDINGS. *)
From stdpp Require Import gmap list.
From Coq Require Import ZArith Lia.
Open Scope Z_scope.

Definition U32 : Z := 4294967296.
Definition u32 (z : Z) : Z := z mod U32.

(* ---------------- flat file ---------------- *)
Record ffile := { ents : list Z; junk : Z }.

Definition BSZ : Z := 80.
Definition FSZ : Z := 32.

Definition flen (f : ffile) : Z := Z.of_nat (length (ents f)).
Definition fsize (esz : Z) (f : ffile) : Z := flen f * esz + junk f.

(* guarded conversion: never build a huge unary nat *)
Definition zn (z : Z) : nat := if (0 <=? z) && (z <? 1000000) then Z.to_nat z else 0%nat.

(* O_APPEND write of whole entries at EOF *)
Definition fappend (esz : Z) (f : ffile) (es : list Z) : ffile :=
  if junk f =? 0 then {| ents := ents f ++ es; junk := 0 |}
  else {| ents := ents f; junk := junk f + Z.of_nat (length es) * esz |}.

(* only the first k bytes of the entries reach the file *)
Definition fappend_partial (esz : Z) (f : ffile) (es : list Z) (k : Z) : ffile :=
  if junk f =? 0 then {| ents := ents f ++ take (zn (k / esz)) es; junk := k mod esz |}
  else {| ents := ents f; junk := junk f + k |}.

(* ftruncate(n); n < 0 is EINVAL; n never exceeds the size in this code *)
Definition ftruncate (esz : Z) (f : ffile) (n : Z) : option ffile :=
  if n <? 0 then None else
  let al := flen f * esz in
  if n >=? al then Some {| ents := ents f; junk := n - al |}
  else Some {| ents := take (zn (n / esz)) (ents f); junk := n mod esz |}.

Inductive rd := RdOk (a : Z) | RdGarbage | RdEOF.

(* readRaw at height h: 80/32 bytes at h*esz *)
Definition fread (esz : Z) (f : ffile) (h : Z) : rd :=
  if h <? 0 then RdEOF else
  if h <? flen f then
    match ents f !! zn h with Some a => RdOk a | None => RdEOF end
  else if (h + 1) * esz <=? fsize esz f then RdGarbage else RdEOF.

(* hash token of what was read; garbage hashes to the unknown token 0 *)
Definition rd_tok (r : rd) : Z := match r with RdOk a => a | _ => 0 end.
Definition rd_ok (r : rd) : bool := match r with RdEOF => false | _ => true end.

(* ---------------- store ---------------- *)
Record store := {
  bf : ffile;                (* block_headers.bin: hash tokens by position *)
  ff : ffile;                (* reg_filter_headers.bin: filter header tokens *)
  idx : gmap Z Z;            (* hash -> height (shared index) *)
  btip : option Z;           (* "bitcoin" tip key *)
  ftip : option Z            (* "regular" tip key *)
}.

Definition set_bf (s : store) f := {| bf := f; ff := ff s; idx := idx s; btip := btip s; ftip := ftip s |}.
Definition set_ff (s : store) f := {| bf := bf s; ff := f; idx := idx s; btip := btip s; ftip := ftip s |}.

Inductive fault :=
| NoFault
| WriteFail (k : Z)      (* Write puts k bytes (0 <= k < total) into the file, then fails *)
| WriteTruncFail (k : Z) (* ... and the compensating Truncate fails too (double fault) *)
| DbFail                 (* the index transaction fails *)
| DbSyncFail             (* ... and the following Sync fails too (double fault) *)
| TruncFail.             (* Truncate fails (rollbacks; compensation after DbFail) *)

Inductive res := ROk | RErr.

(* file.go appendRaw (with the F03 fix: restore to the pre-write size) *)
Definition append_raw (esz : Z) (f : ffile) (es : list Z) (flt : fault) : ffile * res :=
  match flt with
  | WriteFail k =>
    if k >? 0 then
      match ftruncate esz (fappend_partial esz f es k) (fsize esz f) with
      | Some f2 => (f2, RErr)
      | None => (fappend_partial esz f es k, RErr)
      end
    else (f, RErr)
  | WriteTruncFail k => (fappend_partial esz f es k, RErr)
  | _ => (fappend esz f es, ROk)
  end.

(* headerFile.truncateHeaders n *)
Definition truncate_headers (esz : Z) (f : ffile) (n : Z) (flt : fault) : option ffile :=
  if n =? 0 then Some f else
  match flt with
  | TruncFail => None
  | _ => ftruncate esz f (fsize esz f - n * esz)
  end.

(* index.go addHeaders: sort by hash, put each, tip = last entry in that
   order whose height >= running maximum (starting from 0) *)
Fixpoint insert_sorted (e : Z * Z) (l : list (Z * Z)) : list (Z * Z) :=
  match l with
  | [] => [e]
  | x :: r => if e.1 <=? x.1 then e :: l else x :: insert_sorted e r
  end.
Definition sort_batch (es : list (Z * Z)) : list (Z * Z) := foldr insert_sorted [] es.

Definition add_entries (m : gmap Z Z) (es : list (Z * Z)) : gmap Z Z :=
  fold_left (fun m e => <[ e.1 := e.2 ]> m) es m.

Definition batch_tip (es : list (Z * Z)) : Z * Z :=
  fold_left (fun (acc : Z * Z) e => if e.2 >=? acc.2 then e else acc) es (0, 0).

(* blockHeaderStore.WriteHeaders; es = (hash, height) *)
Definition bwrite (s : store) (es : list (Z * Z)) (flt : fault) : store * res :=
  let '(f1, r) := append_raw BSZ (bf s) (es.*1) flt in
  match r with
  | RErr => (set_bf s f1, RErr)
  | ROk =>
    match es with
    | [] => (set_bf s f1, ROk)
    | _ =>
      match flt with
      | DbFail | TruncFail =>
        (* the transaction fails: Sync, then truncateHeaders(len) *)
        match truncate_headers BSZ f1 (Z.of_nat (length es)) flt with
        | Some f2 => (set_bf s f2, RErr)
        | None => (set_bf s f1, RErr)
        end
      | DbSyncFail => (set_bf s f1, RErr)
      | _ =>
        let sorted := sort_batch es in
        ({| bf := f1; ff := ff s; idx := add_entries (idx s) sorted;
            btip := Some (batch_tip sorted).1; ftip := ftip s |}, ROk)
      end
    end
  end.

(* filterHeaderStore.WriteHeaders; es = (filter header, block hash) *)
Definition fwrite (s : store) (es : list (Z * Z)) (flt : fault) : store * res :=
  match es with
  | [] => (s, ROk)
  | _ =>
    let '(f1, r) := append_raw FSZ (ff s) (es.*1) flt in
    match r with
    | RErr => (set_ff s f1, RErr)
    | ROk =>
      match flt with
      | DbFail | TruncFail =>
        match truncate_headers FSZ f1 (Z.of_nat (length es)) flt with
        | Some f2 => (set_ff s f2, RErr)
        | None => (set_ff s f1, RErr)
        end
      | DbSyncFail => (set_ff s f1, RErr)
      | _ =>
        ({| bf := bf s; ff := f1; idx := idx s; btip := btip s;
            ftip := match last es with Some e => Some e.2 | None => ftip s end |}, ROk)
      end
    end
  end.

(* headerIndex.chainTip: tip key -> height through the shared index *)
Definition tip_height (s : store) (t : option Z) : option (Z * Z) :=
  match t with
  | Some x => match idx s !! x with Some h => Some (x, h) | None => None end
  | None => None
  end.

(* readHeaderRange(start, end) inclusive: one ReadAt; fails unless all bytes exist *)
Definition read_range (esz : Z) (f : ffile) (start stop : Z) : option (list rd) :=
  let n := u32 (stop - start + 1) in
  if (start + n) * esz <=? fsize esz f then
    Some (map (fun i => fread esz f (start + Z.of_nat i)) (seq 0 (zn n)))
  else None.

(* ---------------- durable steps (crash granularity) ---------------- *)
Inductive dstep :=
| DAppendB (es : list Z)            (* file write to the block file *)
| DAppendF (es : list Z)
| DTruncB (n : Z)                   (* remove n entries' worth of bytes *)
| DTruncF (n : Z)
| DIdxAdd (sorted : list (Z * Z))   (* one committed index transaction *)
| DIdxDel (gone : list Z) (newtip : Z)
| DFTip (newtip : Z)
| DRemoveF.                         (* os.Remove of the filter file: it is created empty again *)

Definition fempty : ffile := {| ents := []; junk := 0 |}.

Definition apply_step (s : store) (d : dstep) : option store :=
  match d with
  | DAppendB es => Some (set_bf s (fappend BSZ (bf s) es))
  | DAppendF es => Some (set_ff s (fappend FSZ (ff s) es))
  | DTruncB n => set_bf s <$> ftruncate BSZ (bf s) (fsize BSZ (bf s) - n * BSZ)
  | DTruncF n => set_ff s <$> ftruncate FSZ (ff s) (fsize FSZ (ff s) - n * FSZ)
  | DIdxAdd sorted =>
      Some {| bf := bf s; ff := ff s; idx := add_entries (idx s) sorted;
              btip := Some (batch_tip sorted).1; ftip := ftip s |}
  | DIdxDel gone nt =>
      Some {| bf := bf s; ff := ff s; idx := fold_left (fun m x => delete x m) gone (idx s);
              btip := Some nt; ftip := ftip s |}
  | DFTip nt => Some {| bf := bf s; ff := ff s; idx := idx s; btip := btip s; ftip := Some nt |}
  | DRemoveF => Some (set_ff s fempty)
  end.

Fixpoint apply_steps (s : store) (ds : list dstep) : option store :=
  match ds with
  | [] => Some s
  | d :: t => match apply_step s d with Some s' => apply_steps s' t | None => None end
  end.

(* blockHeaderStore.RollbackBlockHeaders n: outcome + durable steps; None = error *)
Definition brollback_plan (s : store) (n : Z) : option (list dstep * Z * Z) :=
  match tip_height s (btip s) with
  | None => None
  | Some (_, th) =>
    if n >? th then None else
    match read_range BSZ (bf s) (th - n) th with
    | Some (prev :: rest) =>
      Some ([DIdxDel (map rd_tok rest) (rd_tok prev); DTruncB n], th - n, rd_tok prev)
    | _ => None
    end
  end.

(* run the durable steps of a rollback in order; an index step fails under
   DbFail/DbSyncFail, a truncate step under TruncFail; a failure returns the
   error with the steps done so far left in place *)
Definition step_fails (d : dstep) (flt : fault) : bool :=
  match d, flt with
  | (DIdxAdd _ | DIdxDel _ _ | DFTip _), (DbFail | DbSyncFail) => true
  | (DTruncB _ | DTruncF _), TruncFail => true
  | _, _ => false
  end.
Fixpoint run_steps (s : store) (ds : list dstep) (flt : fault) : store * bool :=
  match ds with
  | [] => (s, true)
  | d :: t =>
    if step_fails d flt then (s, false) else
    match apply_step s d with
    | Some s' => run_steps s' t flt
    | None => (s, false)
    end
  end.

(* result: Some (height, hash) of the new tip stamp; None = error.
   n = 0 returns an empty stamp (height 0, zero hash -> token 0). *)
Definition brollback (s : store) (n : Z) (flt : fault) : store * option (Z * Z) :=
  if n =? 0 then (s, Some (0, 0)) else
  match brollback_plan s n with
  | None => (s, None)
  | Some (steps, h, x) =>
    let '(s', ok) := run_steps s steps flt in
    (s', if ok then Some (h, x) else None)
  end.

(* filterHeaderStore.RollbackLastBlock newTip *)
Definition frollback_plan (s : store) (newtip : Z) : option (list dstep * Z * Z) :=
  match tip_height s (ftip s) with
  | None => None
  | Some (_, th) =>
    let nh := u32 (th - 1) in
    match fread FSZ (ff s) nh with
    | RdEOF => None
    | r => Some ([DFTip newtip; DTruncF 1], nh, rd_tok r)
    end
  end.

Definition frollback (s : store) (newtip : Z) (flt : fault) : store * option (Z * Z) :=
  match frollback_plan s newtip with
  | None => (s, None)
  | Some (steps, h, x) =>
    let '(s', ok) := run_steps s steps flt in
    (s', if ok then Some (h, x) else None)
  end.

(* ---------------- open / recovery ---------------- *)
(* trimPartialHeader: drop a partially written entry at the end of the file *)
Definition trim (esz : Z) (f : ffile) : ffile :=
  let partial := fsize esz f mod esz in
  if partial =? 0 then f else
  match ftruncate esz f (fsize esz f - partial) with Some f' => f' | None => f end.

(* resetIfNoTip: the (trimmed) file is not empty but the index has never
   recorded a tip for this store (tip KEY absent; a tip key whose hash is not
   in the index is a different error and is not repaired): Truncate(0) *)
Definition reset_if_no_tip (esz : Z) (tip : option Z) (f : ffile) : ffile :=
  match tip with
  | Some _ => f
  | None => if fsize esz f =? 0 then f else fempty
  end.

(* NewBlockHeaderStore on existing state; genesis = hash token of the genesis header *)
Definition recover_block (genesis : Z) (s0 : store) : option store :=
  let s := set_bf s0 (reset_if_no_tip BSZ (btip s0) (trim BSZ (bf s0))) in
  if fsize BSZ (bf s) =? 0 then
    match bwrite s [(genesis, 0)] NoFault with (s', ROk) => Some s' | _ => None end
  else
    match tip_height s (btip s) with
    | Some (t, th) =>
      let fh := u32 (fsize BSZ (bf s) / BSZ - 1) in
      match fread BSZ (bf s) fh with
      | RdEOF => None
      | r =>
        if rd_tok r =? t then Some s else
          set_bf s <$> truncate_headers BSZ (bf s) (u32 (fh - th)) NoFault
      end
    | None => None
    end.

(* the file/index reconciliation at the end of NewFilterHeaderStore *)
Definition reconcile_filter (s : store) : option store :=
  match tip_height s (ftip s) with
  | Some (t, th) =>
    let fh := u32 (fsize FSZ (ff s) / FSZ - 1) in
    match fread FSZ (ff s) fh with
    | RdEOF => None
    | r =>
      (* the code compares the tip key (a BLOCK hash) with the filter header read *)
      if rd_tok r =? t then Some s else
        set_ff s <$> truncate_headers FSZ (ff s) (u32 (fh - th)) NoFault
    end
  | None => None
  end.

(* NewFilterHeaderStore (no state assertion); gfh = genesis filter header token *)
Definition recover_filter (gfh genesis : Z) (s0 : store) : option store :=
  let s := set_ff s0 (reset_if_no_tip FSZ (ftip s0) (trim FSZ (ff s0))) in
  if fsize FSZ (ff s) =? 0 then
    match fwrite s [(gfh, genesis)] NoFault with (s', ROk) => Some s' | _ => None end
  else reconcile_filter s.

(* maybeResetHeaderState's test: FetchHeaderByHeight reads the file BY POSITION
   only (no index involved); not found => no reset; bytes that are not a
   known entry are "different" *)
Definition assertion_resets (f : ffile) (a : option (Z * Z)) : bool :=
  match a with
  | None => false
  | Some (h, v) =>
    match fread FSZ f h with
    | RdEOF => false
    | RdOk x => negb (x =? v)
    | RdGarbage => true
    end
  end.

(* durable steps of the reset, in the code's order (F42 fix): index tip to
   the genesis block; file removed; then NewFilterHeaderStore(..., nil) on the
   empty file = the genesis write (file append, index tip) *)
Definition reset_steps (gfh genesis : Z) : list dstep :=
  [DFTip genesis; DRemoveF; DAppendF [gfh]; DFTip genesis].

(* NewFilterHeaderStore with a header state assertion a = (height, filter
   header).  An empty file gets the genesis entry and the constructor returns
   WITHOUT looking at the assertion.  After a reset the constructor calls
   itself with a nil assertion (so: no loop, also when height 0 is asserted). *)
Definition recover_filter_assert (gfh genesis : Z) (a : option (Z * Z)) (s0 : store) : option store :=
  let s := set_ff s0 (reset_if_no_tip FSZ (ftip s0) (trim FSZ (ff s0))) in
  if fsize FSZ (ff s) =? 0 then
    match fwrite s [(gfh, genesis)] NoFault with (s', ROk) => Some s' | _ => None end
  else if assertion_resets (ff s) a then
    match apply_steps s [DFTip genesis; DRemoveF] with
    | Some s' => recover_filter gfh genesis s'
    | None => None
    end
  else reconcile_filter s.

Definition recover (genesis gfh : Z) (s : store) : option store :=
  match recover_block genesis s with
  | Some s1 => recover_filter gfh genesis s1
  | None => None
  end.

(* both constructors, the filter store's with a state assertion *)
Definition recover_assert (genesis gfh : Z) (a : option (Z * Z)) (s : store) : option store :=
  match recover_block genesis s with
  | Some s1 => recover_filter_assert gfh genesis a s1
  | None => None
  end.

Definition empty_store : store :=
  {| bf := {| ents := []; junk := 0 |}; ff := {| ents := []; junk := 0 |};
     idx := ∅; btip := None; ftip := None |}.

(* ---------------- reads ---------------- *)
Definition b_chain_tip (s : store) : option (Z * Z) :=      (* (hash token, height) *)
  match tip_height s (btip s) with
  | Some (_, h) => match fread BSZ (bf s) h with RdEOF => None | r => Some (rd_tok r, h) end
  | None => None
  end.
Definition b_by_height (s : store) (h : Z) : option Z :=
  match fread BSZ (bf s) h with RdEOF => None | r => Some (rd_tok r) end.
Definition height_from_hash (s : store) (x : Z) : option Z := idx s !! x.
Definition b_by_hash (s : store) (x : Z) : option (Z * Z) :=
  match idx s !! x with
  | Some h => match fread BSZ (bf s) h with RdEOF => None | r => Some (rd_tok r, h) end
  | None => None
  end.
(* FetchHeaderAncestors n stop: (tokens, start height) *)
Definition ancestors (esz : Z) (f : ffile) (s : store) (n : Z) (x : Z) : option (list Z * Z) :=
  match idx s !! x with
  | Some e =>
    let start := u32 (e - n) in
    match read_range esz f start e with
    | Some l => Some (map rd_tok l, start)
    | None => None
    end
  | None => None
  end.
Definition b_ancestors (s : store) := ancestors BSZ (bf s) s.
Definition f_ancestors (s : store) := ancestors FSZ (ff s) s.

Definition f_chain_tip (s : store) : option (Z * Z) :=
  match tip_height s (ftip s) with
  | Some (_, h) => match fread FSZ (ff s) h with RdEOF => None | r => Some (rd_tok r, h) end
  | None => None
  end.
Definition f_by_height (s : store) (h : Z) : option Z :=
  match fread FSZ (ff s) h with RdEOF => None | r => Some (rd_tok r) end.
Definition f_by_hash (s : store) (x : Z) : option Z :=
  match idx s !! x with
  | Some h => f_by_height s h
  | None => None
  end.

(* blockLocatorFromHash: the hash, then steps back by 1 (x10) then doubling,
   at most MaxBlockLocatorsPerMsg = 500 hashes.  Fuel = 500.
   A failing by-height read ends the locator (the code returns the partial
   locator together with the error; the model returns (locator, ok?)). *)
Fixpoint locator_loop (fuel : nat) (s : store) (height dec : Z) (acc : list Z) : list Z * bool :=
  match fuel with
  | O => (acc, true)
  | S fuel' =>
    if (height >? 0) && (Z.of_nat (length acc) <? 500) then
      let dec := if Z.of_nat (length acc) >? 10 then dec * 2 else dec in
      let height := if dec >? height then 0 else height - dec in
      match b_by_height s height with
      | Some x => locator_loop fuel' s height dec (acc ++ [x])
      | None => (acc, false)
      end
    else (acc, true)
  end.
Definition locator_from_hash (s : store) (x : Z) : list Z * bool :=
  match idx s !! x with
  | Some h => if h =? 0 then ([x], true) else locator_loop 500 s h 1 [x]
  | None => ([x], true)
  end.
Definition latest_locator (s : store) : option (list Z * bool) :=
  match tip_height s (btip s) with
  | Some (t, _) => Some (locator_from_hash s t)
  | None => None
  end.

(* ---------------- operations and observations ---------------- *)
Inductive op :=
| BWrite (es : list (Z * Z)) (flt : fault)
| FWrite (es : list (Z * Z)) (flt : fault)
| BRollback (n : Z) (flt : fault)
| FRollback (newtip : Z) (flt : fault)
| Reopen
| QBTip | QBHeight (h : Z) | QBHash (x : Z) | QHeightOf (x : Z)
| QBAnc (n x : Z) | QLocator (x : Z) | QLatestLocator
| QFTip | QFHeight (h : Z) | QFHash (x : Z) | QFAnc (n x : Z).

Inductive obs :=
| ORes (ok : bool)
| OStamp (r : option (Z * Z))
| OReopen (ok : bool)
| OPair (r : option (Z * Z))
| OTok (r : option Z)
| OList (r : option (list Z * Z))
| OLoc (r : option (list Z * bool)).

Definition res_ok (r : res) : bool := match r with ROk => true | RErr => false end.

(* a store that failed to reopen stays closed: the harness stops the history there *)
Definition step (g gfh : Z) (s : store) (o : op) : store * obs :=
  match o with
  | BWrite es flt => let '(s', r) := bwrite s es flt in (s', ORes (res_ok r))
  | FWrite es flt => let '(s', r) := fwrite s es flt in (s', ORes (res_ok r))
  | BRollback n flt => let '(s', r) := brollback s n flt in (s', OStamp r)
  | FRollback nt flt => let '(s', r) := frollback s nt flt in (s', OStamp r)
  | Reopen => match recover g gfh s with Some s' => (s', OReopen true) | None => (s, OReopen false) end
  | QBTip => (s, OPair (b_chain_tip s))
  | QBHeight h => (s, OTok (b_by_height s h))
  | QBHash x => (s, OPair (b_by_hash s x))
  | QHeightOf x => (s, OTok (height_from_hash s x))
  | QBAnc n x => (s, OList (b_ancestors s n x))
  | QLocator x => (s, OLoc (Some (locator_from_hash s x)))
  | QLatestLocator => (s, OLoc (latest_locator s))
  | QFTip => (s, OPair (f_chain_tip s))
  | QFHeight h => (s, OTok (f_by_height s h))
  | QFHash x => (s, OTok (f_by_hash s x))
  | QFAnc n x => (s, OList (f_ancestors s n x))
  end.

Definition init (g gfh : Z) : option store := recover g gfh empty_store.

Fixpoint run (g gfh : Z) (s : store) (ops : list op) : store * list obs :=
  match ops with
  | [] => (s, [])
  | o :: rest =>
    let '(s1, ob) := step g gfh s o in
    let '(s2, obs) := run g gfh s1 rest in (s2, ob :: obs)
  end.
