(* C14 — the property in its own vocabulary (plain lists of headers by
   height), the store invariant, and the boolean monitor evaluated on
   implementation traces. *)
From Coq Require Import ZArith List Bool Lia.
From Verif Require Import C14.Model.
Import ListNotations.
Open Scope Z_scope.

(* ------------------------------------------------------------------ *)
(* Expected contents *)

(* [old] extended by the part of a file (first element at height [start])
   that lies above it *)
Definition extend {A} (old : list A) (start : Z) (file : list A) : list A :=
  let k := Z.of_nat (length old) - start in
  if (k <? 0) || (k >? Z.of_nat (length file)) then old else old ++ skipn (Z.to_nat k) file.

(* A list of block headers (position = height) is a valid connected chain:
   every header but the first links to its predecessor by hash, carries the
   difficulty required by the headers below it, a timestamp above their
   median time, and sufficient proof of work. *)
Definition valid_chainb (P : params) (l : list hdr) : bool :=
  match with_heights l 0 with
  | [] => true
  | g :: r => pairs_ok (pair_ok P (nthZ l)) g r
  end.
Definition valid_chain (P : params) (l : list hdr) : Prop := valid_chainb P l = true.

(* ------------------------------------------------------------------ *)
(* Store invariant: what headerfs maintains for a pair of stores over one
   database (cf. C07), at the level the importer sees it. *)
Record stores_wf (s : stores) : Prop := {
  wf_nonempty : bfile s <> [];
  wf_f_nonempty : ffile s <> [];
  wf_f_le_b : (length (ffile s) <= length (bfile s))%nat;
  wf_nodup : NoDup (map hid (bfile s));
  (* every stored block header is found under its hash, at its height *)
  wf_idx : forall h x, nthZ (bfile s) h = Some x -> idx_get (sidx s) (hid x) = Some h;
  wf_btip : nthZ (bfile s) (Z.of_nat (length (bfile s)) - 1) = Some (lastd (bfile s) (H 0 0 0 0 0)) /\
            btip s = hid (lastd (bfile s) (H 0 0 0 0 0));
  wf_ftip : exists x, nthZ (bfile s) (Z.of_nat (length (ffile s)) - 1) = Some x /\ ftip s = hid x
}.

(* both tips readable and at the end of the files *)
Definition tips_at_end (s : stores) : Prop :=
  (exists x, b_chaintip s = Some (x, Ht (Z.of_nat (length (bfile s)) - 1))) /\
  (exists y, f_chaintip s = Some (y, Ht (Z.of_nat (length (ffile s)) - 1))).

(* [l] = [old] followed by a prefix of the part of the file above [old] *)
Definition partial_ext {A} (old : list A) (start : Z) (file l : list A) : Prop :=
  exists k, l = old ++ firstn k (skipn (Z.to_nat (Z.of_nat (length old) - start)) file).

(* ------------------------------------------------------------------ *)
(* Observations and the monitor *)

Record obs := mkO {
  o_ok : bool;
  o_b : list Z;         (* block hashes by height *)
  o_f : list Z;         (* filter headers by height *)
  o_bt : Z * Z;         (* block ChainTip: (hash, height), height -1 = error *)
  o_ft : Z * Z;         (* filter ChainTip: (filter header, height) *)
  o_idx : list Z        (* HeightFromHash of every header of the case's pool, -1 = not found *)
}.

Definition snapshot (pool : list hdr) (s : stores) (ok : bool) : obs :=
  mkO ok (map hid (bfile s)) (ffile s)
      (match b_chaintip s with Some (x, Ht h) => (hid x, h) | None => (0, -1) end)
      (match f_chaintip s with Some (x, Ht h) => (x, h) | None => (0, -1) end)
      (map (fun x => match idx_get (sidx s) (hid x) with Some h => h | None => -1 end) pool).

Fixpoint list_eqb (a b : list Z) : bool :=
  match a, b with
  | [], [] => true
  | x :: a', y :: b' => (x =? y) && list_eqb a' b'
  | _, _ => false
  end.

Fixpoint pos_of (t : Z) (l : list Z) (i : Z) : Z :=
  match l with [] => -1 | x :: r => if x =? t then i else pos_of t r (i + 1) end.

Definition lenZ {A} (l : list A) : Z := Z.of_nat (length l).

(* usable and mutually consistent *)
Definition consistent (pool : list hdr) (o : obs) : bool :=
  (0 <? lenZ (o_b o)) && (0 <? lenZ (o_f o)) &&
  (snd (o_bt o) =? lenZ (o_b o) - 1) && (fst (o_bt o) =? lastd (o_b o) 0) &&
  (snd (o_ft o) =? lenZ (o_f o) - 1) && (fst (o_ft o) =? lastd (o_f o) 0) &&
  (lenZ (o_f o) <=? lenZ (o_b o)) &&
  list_eqb (o_idx o) (map (fun x => pos_of (hid x) (o_b o) 0) pool).

Definition tok_hdr (pool : list hdr) (t : Z) : hdr :=
  match find (fun x => hid x =? t) pool with Some x => x | None => H t (-1) 0 0 (-1) end.

Fixpoint is_prefix (p l : list Z) : bool :=
  match p, l with
  | [], _ => true
  | x :: p', y :: l' => (x =? y) && is_prefix p' l'
  | _, _ => false
  end.

(* l = old ++ (a prefix of the file's part above old) *)
Definition partial_extb (old : list Z) (start : Z) (file l : list Z) : bool :=
  is_prefix old l &&
  let k := lenZ old - start in
  let rest := skipn (length old) l in
  match rest with
  | [] => true
  | _ => if (k <? 0) || (k >? lenZ file) then false else is_prefix rest (skipn (Z.to_nat k) file)
  end.

(* one import: [a] observed before, [o] after *)
Definition import_step_ok (P : params) (pool : list hdr) (a o : obs)
           (start : Z) (fileb filef : list Z) (rbfail : bool) : bool :=
  let en := start + lenZ fileb - 1 in
  let valid_kept := implb (valid_chainb P (map (tok_hdr pool) (o_b a)))
                          (valid_chainb P (map (tok_hdr pool) (o_b o))) in
  (* nothing unvalidated: the filter headers added respect the checkpoints *)
  validate_filters_from P (skipn (length (o_f a)) (o_f o)) (lenZ (o_f a)) &&
  if o_ok o then
    list_eqb (o_b o) (extend (o_b a) start fileb) &&
    list_eqb (o_f o) (extend (o_f a) start filef) &&
    (en <? lenZ (o_b o)) && (en <? lenZ (o_f o)) &&
    consistent pool o && valid_kept
  else
    partial_extb (o_b a) start fileb (o_b o) &&
    partial_extb (o_f a) start filef (o_f o) &&
    implb (consistent pool a) (consistent pool o) &&
    (* all or nothing per batch: unless the compensating rollback itself was
       made to fail, the filter store never overtakes the block store, the gap
       between them does not widen, and the block store only grows once the
       gap is closed (so stores at equal heights stay at equal heights) *)
    (rbfail ||
     let gap_o := lenZ (o_b o) - lenZ (o_f o) in
     let gap_a := lenZ (o_b a) - lenZ (o_f a) in
     (gap_o <=? gap_a) && ((0 <=? gap_o) || (gap_o =? gap_a)) &&
     ((lenZ (o_b o) =? lenZ (o_b a)) || (gap_o =? 0))) &&
    (if consistent pool a then true
     else list_eqb (o_b o) (o_b a) && list_eqb (o_f o) (o_f a)) &&
    valid_kept.

(* trace element: Some (start, block hashes of the file, filter headers of
   the file, rollback failure injected) for an import, None for a set-up
   operation *)
Definition tstep := (option (Z * list Z * list Z * bool) * obs)%type.

Fixpoint holds_from (P : params) (pool : list hdr) (a : obs) (tr : list tstep) : bool :=
  match tr with
  | [] => true
  | (None, o) :: r => holds_from P pool o r
  | (Some (st, fb, ff, rb), o) :: r => import_step_ok P pool a o st fb ff rb && holds_from P pool o r
  end.

Definition holds (P : params) (pool : list hdr) (init : obs) (tr : list tstep) : bool :=
  holds_from P pool init tr.
