(* C14 — executable model of chainimport.headersImport.Import
   (headers_import.go, iter.go, file_source.go, block_headers_validator.go,
   filter_headers_validator.go) over the two target header stores seen
   through the interface the importer uses (ChainTip, FetchHeaderByHeight,
   WriteHeaders, RollbackBlockHeaders; the hash->height bucket is shared by
   both stores, as in headerfs).

   The model is that of the REPAIRED code: processBatch hands source INDICES
   to ReadBatch (finding F08 fixed), the first header of the file is validated
   against its parent in the target store (finding F09 fixed), and with the
   block store ahead of the filter store the file is linked to the block
   header at the EFFECTIVE tip and every filter-only batch carries the hash
   of the block header at its last height (finding F-C14-3 fixed).

   Positions in the import file ([index]) and block heights ([height]) are
   distinct wrapper types; every conversion is explicit ([ix_of_height],
   [height_of_ix]), so that a mix-up is a type error here while it is not in
   the Go code.

   The context handed to Import is an input: [fl_cancel] says at which poll
   of the context (calls of ctxCancelled, counted in program order over the
   whole import) it starts to report cancellation.  The code polls in three
   places: blockHeadersImportSourceValidator.Validate once per batch (and
   returns nil, validating nothing more, when cancelled),
   filterHeadersImportSourceValidator.Validate once per batch (same), and
   appendNewHeaders at the top of every iteration of its batch loop, for the
   divergence region and for the new-headers region (returns ctx.Err()).
   No proofs in this file. *)
From Coq Require Import ZArith List Bool Lia.
Import ListNotations.
Open Scope Z_scope.

(* ------------------------------------------------------------------ *)
(* Basic vocabulary *)

Inductive height := Ht (z : Z).
Inductive index := Ix (z : Z).
Definition hz (h : height) : Z := let 'Ht z := h in z.
Definition iz (i : index) : Z := let 'Ix z := i in z.

(* targetHeightToImportSourceIndex / the inverse used by GetHeader *)
Definition ix_of_height (h start : height) : index := Ix (hz h - hz start).
Definition height_of_ix (i : index) (start : height) : height := Ht (iz i + hz start).

(* A block header: hashes are tokens; [hnum] is the 256-bit value of the
   header's own hash (for the proof-of-work comparison). *)
Record hdr := H { hid : Z; hprev : Z; hbits : Z; htime : Z; hnum : Z }.

Record params := mkP {
  p_net : Z;              (* network magic of the target chain *)
  p_noretarget : bool;    (* PoWNoRetargeting *)
  p_bpr : Z;              (* blocks per retarget *)
  p_min_ts : Z; p_max_ts : Z; p_target_ts : Z;
  p_powlimit : Z; p_powbits : Z;
  p_fcps : list (Z * Z);  (* filter header checkpoints: height -> filter hash *)
  p_now : Z               (* adjusted time used by CheckBlockHeaderSanity *)
}.

(* guarded positional access: never calls Z.to_nat on an out-of-range value *)
Definition nthZ {A} (l : list A) (i : Z) : option A :=
  if (i <? 0) || (i >=? Z.of_nat (length l)) then None else nth_error l (Z.to_nat i).

Fixpoint lastd {A} (l : list A) (d : A) : A :=
  match l with [] => d | [x] => x | _ :: r => lastd r d end.

(* ------------------------------------------------------------------ *)
(* Consensus rules used by ValidatePair / ValidateSingle
   (btcd blockchain.CheckBlockHeaderSanity / CheckBlockHeaderContext with
   flags = BFNone, ReduceMinDifficulty = false, EnforceBIP94 = false,
   block versions above the BIP34/65/66 thresholds). *)

(* blockchain.CompactToBig *)
Definition compact_to_big (c : Z) : Z :=
  let mant := Z.land c 8388607 in
  let neg := negb (Z.land c 8388608 =? 0) in
  let e := Z.shiftr c 24 in
  let bn := if e <=? 3 then Z.shiftr mant (8 * (3 - e)) else Z.shiftl mant (8 * (e - 3)) in
  if neg then - bn else bn.

(* number of bytes of a non-negative number *)
Definition nbytes (n : Z) : Z := if n <=? 0 then 0 else (Z.log2 n) / 8 + 1.

(* blockchain.BigToCompact *)
Definition big_to_compact (n : Z) : Z :=
  if n =? 0 then 0 else
  let a := Z.abs n in
  let e := nbytes a in
  let mant0 :=
    if e <=? 3 then Z.shiftl (Z.land a 4294967295) (8 * (3 - e))
    else Z.land (Z.abs (Z.shiftr n (8 * (e - 3)))) 4294967295 in
  let '(mant, e) := if negb (Z.land mant0 8388608 =? 0) then (Z.shiftr mant0 8, e + 1) else (mant0, e) in
  let c := Z.lor (Z.shiftl e 24) mant in
  (if n <? 0 then Z.lor c 8388608 else c) mod 4294967296.

(* checkProofOfWork *)
Definition pow_ok (P : params) (h : hdr) : bool :=
  let t := compact_to_big (hbits h) in
  (0 <? t) && (t <=? p_powlimit P) && (hnum h <=? t).

(* CheckBlockHeaderSanity: proof of work, timestamp not more than two hours
   ahead (second precision is automatic for deserialised headers) *)
Definition sane (P : params) (h : hdr) : bool :=
  pow_ok P h && (htime h <=? p_now P + 7200).

Fixpoint insert_sorted (x : Z) (l : list Z) : list Z :=
  match l with [] => [x] | y :: r => if x <=? y then x :: l else y :: insert_sorted x r end.
Definition sortZ (l : list Z) : list Z := fold_right insert_sorted [] l.

(* timestamps of the header at height [h] (time [t]) and up to n-1 ancestors,
   walking Parent() = RelativeAncestorCtx(1) through [look] *)
Fixpoint collect_times (n : nat) (look : Z -> option hdr) (h t : Z) : list Z :=
  match n with
  | O => []
  | S n' => t :: (if h <=? 0 then [] else
                  match look (h - 1) with
                  | Some a => collect_times n' look (h - 1) (htime a)
                  | None => []
                  end)
  end.

(* CalcPastMedianTime *)
Definition mtp (look : Z -> option hdr) (ph : Z) (p : hdr) : Z :=
  let ts := sortZ (collect_times 11 look ph (htime p)) in
  nth (Nat.div (length ts) 2) ts 0.

(* calcNextRequiredDifficulty; None = "unable to obtain previous retarget block" *)
Definition expected_bits (P : params) (look : Z -> option hdr) (ph : Z) (p : hdr) : option Z :=
  if p_noretarget P then Some (p_powbits P) else
  if negb ((ph + 1) mod (p_bpr P) =? 0) then Some (hbits p) else
  match look (Z.max 0 (ph - (p_bpr P - 1))) with
  | None => None
  | Some first =>
    let actual := htime p - htime first in
    let adj := if actual <? p_min_ts P then p_min_ts P
               else if actual >? p_max_ts P then p_max_ts P else actual in
    let nt := (compact_to_big (hbits p) * adj) / p_target_ts P in
    let nt := if nt >? p_powlimit P then p_powlimit P else nt in
    Some (big_to_compact nt)
  end.

(* CheckBlockHeaderContext (difficulty, median time past) *)
Definition ctx_ok (P : params) (look : Z -> option hdr) (ph : Z) (p cur : hdr) : bool :=
  match expected_bits P look ph p with
  | None => false
  | Some e => (hbits cur =? e) && (mtp look ph p <? htime cur)
  end.

(* ValidatePair on (header, height) entries *)
Definition pair_ok (P : params) (look : Z -> option hdr) (pe ce : hdr * Z) : bool :=
  let '(p, ph) := pe in let '(c, ch) := ce in
  (ch =? ph + 1) && (hprev c =? hid p) && ctx_ok P look ph p c && sane P c.

(* ------------------------------------------------------------------ *)
(* Target stores.  One record for both: the hash->height bucket is shared. *)

Record stores := mkS {
  bfile : list hdr;        (* block_headers.bin, position = height *)
  ffile : list Z;          (* reg_filter_headers.bin *)
  sidx : list (Z * Z);     (* hash -> height (assoc list, first binding wins) *)
  btip : Z;                (* block tip key: a block hash *)
  ftip : Z                 (* filter tip key: a block hash *)
}.

Fixpoint idx_get (m : list (Z * Z)) (k : Z) : option Z :=
  match m with [] => None | (k', v) :: r => if k' =? k then Some v else idx_get r k end.
Definition idx_del (m : list (Z * Z)) (k : Z) : list (Z * Z) :=
  filter (fun p => negb (fst p =? k)) m.

Definition b_fetch (s : stores) (h : height) : option hdr := nthZ (bfile s) (hz h).
Definition f_fetch (s : stores) (h : height) : option Z := nthZ (ffile s) (hz h).

(* blockHeaderStore.ChainTip / filterHeaderStore.ChainTip *)
Definition b_chaintip (s : stores) : option (hdr * height) :=
  match idx_get (sidx s) (btip s) with
  | None => None
  | Some h => match nthZ (bfile s) h with Some x => Some (x, Ht h) | None => None end
  end.
Definition f_chaintip (s : stores) : option (Z * height) :=
  match idx_get (sidx s) (ftip s) with
  | None => None
  | Some h => match nthZ (ffile s) h with Some x => Some (x, Ht h) | None => None end
  end.

(* entries handed to WriteHeaders *)
Definition bent := (hdr * Z)%type.                 (* header, Height field *)
Record fent := FE { fe_hash : Z; fe_height : Z; fe_blk : Z (* HeaderHash *) }.

(* tip chosen by headerIndex.addHeaders: an entry of maximal height *)
Fixpoint tip_of (es : list bent) (bh bk : Z) : Z :=
  match es with
  | [] => bk
  | (x, h) :: r => if h >=? bh then tip_of r h (hid x) else tip_of r bh bk
  end.

(* blockHeaderStore.WriteHeaders (success path; an empty batch changes nothing) *)
Definition b_write (s : stores) (es : list bent) : stores :=
  match es with
  | [] => s
  | _ => mkS (bfile s ++ map fst es) (ffile s)
             (fold_left (fun m e => (hid (fst e), snd e) :: m) es (sidx s))
             (tip_of es 0 0) (ftip s)
  end.

(* filterHeaderStore.WriteHeaders *)
Definition f_write (s : stores) (es : list fent) : stores :=
  match es with
  | [] => s
  | _ => mkS (bfile s) (ffile s ++ map fe_hash es) (sidx s) (btip s)
             (fe_blk (lastd es (FE 0 0 0)))
  end.

(* blockHeaderStore.RollbackBlockHeaders; None = error (store unchanged) *)
Definition b_rollback (s : stores) (n : Z) : option stores :=
  if n <=? 0 then Some s else
  match idx_get (sidx s) (btip s) with
  | None => None
  | Some t =>
    if n >? t then None else
    if t >=? Z.of_nat (length (bfile s)) then None else
    match nthZ (bfile s) (t - n) with
    | None => None
    | Some prev =>
      let keep := Z.of_nat (length (bfile s)) - n in
      let removed := firstn (Z.to_nat n) (skipn (Z.to_nat (t - n + 1)) (bfile s)) in
      Some (mkS (firstn (Z.to_nat keep) (bfile s)) (ffile s)
                (fold_left (fun m x => idx_del m (hid x)) removed (sidx s))
                (hid prev) (ftip s))
    end
  end.

(* ------------------------------------------------------------------ *)
(* Import sources (files) *)

Record meta := mkM { m_net : Z; m_ver : Z; m_type : Z; m_start : height; m_slack : Z }.
Record bsource := mkBS { bs_meta : meta; bs_hdrs : list hdr }.
Record fsource := mkFS { fs_meta : meta; fs_hdrs : list Z }.

Definition type_block : Z := 0.
Definition type_filter : Z := 1.

(* Open + GetHeaderMetadata: version 0, at least one header, whole headers *)
Definition open_ok (m : meta) (count : nat) : bool :=
  (m_ver m =? 0) && negb (Nat.eqb count 0) && (m_slack m =? 0).

Definition b_count (src : bsource) : Z := Z.of_nat (length (bs_hdrs src)).
Definition b_start (src : bsource) : height := m_start (bs_meta src).
Definition b_end (src : bsource) : height := Ht (hz (b_start src) + b_count src - 1).

(* GetHeader(index): the header and the height Deserialize stamps on it *)
Definition bs_get (src : bsource) (i : index) : option bent :=
  match nthZ (bs_hdrs src) (iz i) with
  | Some x => Some (x, hz (height_of_ix i (b_start src)))
  | None => None
  end.
Definition fs_get (src : fsource) (i : index) : option fent :=
  match nthZ (fs_hdrs src) (iz i) with
  | Some x => Some (FE x (hz (height_of_ix i (m_start (fs_meta src)))) 0)
  | None => None
  end.

(* validateSourcesCompatibility *)
Definition compat (P : params) (b : bsource) (f : fsource) : bool :=
  (m_type (bs_meta b) =? type_block) && (m_type (fs_meta f) =? type_filter) &&
  (m_net (bs_meta b) =? m_net (fs_meta f)) && (m_net (bs_meta b) =? p_net P) &&
  (hz (m_start (bs_meta b)) =? hz (m_start (fs_meta f))) &&
  (Nat.eqb (length (fs_hdrs f)) (length (bs_hdrs b))).

(* importSourceHeaderIterator.ReadBatch(startIdx, endIdx, batchSize) *)
Inductive rb {A} := RB_eof | RB_err | RB_ok (l : list A).
Arguments rb : clear implicits.

Fixpoint read_range {A} (get : index -> option A) (n : nat) (i : Z) : option (list A) :=
  match n with
  | O => Some []
  | S n' => match get (Ix i) with
            | None => None
            | Some a => match read_range get n' (i + 1) with
                        | Some r => Some (a :: r) | None => None end
            end
  end.

Definition read_batch {A} (get : index -> option A) (avail : Z) (startI endI : index) (bs : Z) : rb A :=
  let actual_end := Z.min (iz endI) (iz startI + bs - 1) in
  if iz startI >? actual_end then RB_eof else
  (* [avail] only bounds the unary counter; reads past the file fail in [get] *)
  let n := Z.min (actual_end - iz startI + 1) (avail + 1) in
  match read_range get (Z.to_nat n) (iz startI) with
  | None => RB_err
  | Some [] => RB_eof
  | Some l => RB_ok l
  end.

(* ------------------------------------------------------------------ *)
(* Injected faults and the context *)

(* the k-th non-empty WriteHeaders call of the block (filter) store fails,
   0 = never; rollback failure.  A failing call leaves its store unchanged
   (the contract of headerfs, property C07). *)
(* [fl_cancel]: the context reports cancellation from its [fl_cancel]-th poll
   on (1 = already cancelled when Import is entered), 0 = never.  [c_poll]
   counts the polls made so far. *)
Record faults := mkF { fl_bw : Z; fl_fw : Z; fl_rb : bool; fl_cancel : Z }.
Record ctr := mkC { c_bw : Z; c_fw : Z; c_poll : Z }.

(* does the n-th poll (n >= 1) of the context report cancellation?  Once
   cancelled, a context stays cancelled. *)
Definition is_canc (fl : faults) (n : Z) : bool := (0 <? fl_cancel fl) && (fl_cancel fl <=? n).
(* ctxCancelled(ctx): one more poll; its answer is [is_canc fl (c_poll (tick c))] *)
Definition tick (c : ctr) : ctr := mkC (c_bw c) (c_fw c) (c_poll c + 1).

(* ------------------------------------------------------------------ *)
(* Validators *)

(* lightHeaderCtx.RelativeAncestorCtx lookup: target store first, then the
   import source (absolute height converted to a source index) *)
Definition lk (s : stores) (src : bsource) (h : Z) : option hdr :=
  match b_fetch s (Ht h) with
  | Some x => Some x
  | None =>
    if h <? hz (b_start src) then None else
    option_map fst (bs_get src (ix_of_height (Ht h) (b_start src)))
  end.

Fixpoint pairs_ok (ok : bent -> bent -> bool) (prev : bent) (l : list bent) : bool :=
  match l with [] => true | x :: r => ok prev x && pairs_ok ok x r end.

(* blockHeadersImportSourceValidator.ValidateBatch *)
Definition validate_batch (P : params) (look : Z -> option hdr) (b : list bent) : bool :=
  match b with
  | [] => true
  | [x] => sane P (fst x)
  | x :: r => pairs_ok (pair_ok P look) x r
  end.

(* blockHeadersImportSourceValidator.Validate over the consecutive batches of
   the whole file; [last] is lastHeader *)
Fixpoint validate_chunks (fuel : nat) (P : params) (look : Z -> option hdr) (n : nat)
         (last : option bent) (l : list bent) : bool :=
  match fuel with
  | O => true
  | S k =>
    match l with
    | [] => true
    | x :: _ =>
      let c := firstn n l in
      validate_batch P look c &&
      (match last with Some p => pair_ok P look p x | None => true end) &&
      validate_chunks k P look n (Some (lastd c x)) (skipn n l)
    end
  end.

Fixpoint with_heights (l : list hdr) (h : Z) : list bent :=
  match l with [] => [] | x :: r => (x, h) :: with_heights r (h + 1) end.

Definition chunk_size (bs : Z) (len : nat) : nat :=
  if bs <=? 0 then len else Z.to_nat (Z.min bs (Z.of_nat len)).

(* REPAIR of F09: lastHeader starts as the target store's header just below
   the file's first header (when there is one), so the first header of the
   file is validated like every other one. *)
Definition validate_blocks (P : params) (s : stores) (src : bsource) (bs : Z) : bool :=
  let st := hz (b_start src) in
  let seed := if st >? 0 then
                match b_fetch s (Ht (st - 1)) with Some p => Some (p, st - 1) | None => None end
              else None in
  let es := with_heights (bs_hdrs src) st in
  validate_chunks (S (length es)) P (lk s src) (Nat.max 1 (chunk_size bs (length es))) seed es.

(* The validator as it runs under a context that may be cancelled: before
   each batch it polls the context and, when cancelled, returns nil WITHOUT
   validating that batch or any later one (block_headers_validator.go:
   "if err := ctxCancelled(ctx); err != nil { return nil }").  Result: (no
   error reported, counters).  [validate_chunks] above is what it computes
   when no poll reports cancellation. *)
Fixpoint validate_chunks_c (fuel : nat) (P : params) (look : Z -> option hdr) (n : nat)
         (last : option bent) (l : list bent) (fl : faults) (c : ctr) : bool * ctr :=
  match fuel with
  | O => (true, c)
  | S k =>
    match l with
    | [] => (true, c)
    | x :: _ =>
      let c1 := tick c in
      if is_canc fl (c_poll c1) then (true, c1) else
      let ch := firstn n l in
      if validate_batch P look ch &&
         (match last with Some p => pair_ok P look p x | None => true end)
      then validate_chunks_c k P look n (Some (lastd ch x)) (skipn n l) fl c1
      else (false, c1)
    end
  end.

Definition validate_blocks_c (P : params) (s : stores) (src : bsource) (bs : Z) (fl : faults) (c : ctr)
  : bool * ctr :=
  let st := hz (b_start src) in
  let seed := if st >? 0 then
                match b_fetch s (Ht (st - 1)) with Some p => Some (p, st - 1) | None => None end
              else None in
  let es := with_heights (bs_hdrs src) st in
  validate_chunks_c (S (length es)) P (lk s src) (Nat.max 1 (chunk_size bs (length es))) seed es fl c.

(* filterHeadersImportSourceValidator: every header against the checkpoints *)
Definition fcp_ok (P : params) (h fh : Z) : bool :=
  match idx_get (p_fcps P) h with Some c => fh =? c | None => true end.
Fixpoint validate_filters_from (P : params) (l : list Z) (h : Z) : bool :=
  match l with [] => true | x :: r => fcp_ok P h x && validate_filters_from P r (h + 1) end.
Definition validate_filters (P : params) (src : fsource) : bool :=
  validate_filters_from P (fs_hdrs src) (hz (m_start (fs_meta src))).

(* filterHeadersImportSourceValidator.Validate under a context: batches of the
   iterator's batch size, one poll before each batch, nil without validating
   the rest when cancelled. *)
Fixpoint validate_filters_c (fuel : nat) (P : params) (n : nat) (l : list Z) (h : Z)
         (fl : faults) (c : ctr) : bool * ctr :=
  match fuel with
  | O => (true, c)
  | S k =>
    match l with
    | [] => (true, c)
    | _ :: _ =>
      let c1 := tick c in
      if is_canc fl (c_poll c1) then (true, c1) else
      let ch := firstn n l in
      if validate_filters_from P ch h
      then validate_filters_c k P n (skipn n l) (h + Z.of_nat (length ch)) fl c1
      else (false, c1)
    end
  end.

Definition validate_filters_cc (P : params) (src : fsource) (bs : Z) (fl : faults) (c : ctr) : bool * ctr :=
  let l := fs_hdrs src in
  validate_filters_c (S (length l)) P (Nat.max 1 (chunk_size bs (length l))) l
                     (hz (m_start (fs_meta src))) fl c.

(* ------------------------------------------------------------------ *)
(* Continuity, overlap verification, regions *)

Inductive vmode := VBoth | VBlock | VFilter.
Inductive amode := ABoth | ABlock | AFilter.

Definition verify_block_at (s : stores) (b : bsource) (h : height) : bool :=
  match bs_get b (ix_of_height h (b_start b)), b_fetch s h with
  | Some (x, _), Some y => hid x =? hid y
  | _, _ => false
  end.
Definition verify_filter_at (s : stores) (b : bsource) (f : fsource) (h : height) : bool :=
  match fs_get f (ix_of_height h (b_start b)), f_fetch s h with
  | Some x, Some y => fe_hash x =? y
  | _, _ => false
  end.
(* verifyHeadersAtTargetHeight *)
Definition verify_at (s : stores) (b : bsource) (f : fsource) (h : height) (m : vmode) : bool :=
  match m with
  | VBoth => verify_block_at s b h && verify_filter_at s b f h
  | VBlock => verify_block_at s b h
  | VFilter => verify_filter_at s b f h
  end.

(* validateHeaderConnection(targetStartHeight, prevTargetBlockHeight) *)
Definition connection (s : stores) (b : bsource) (th prevh : height) : bool :=
  match b_fetch s prevh, bs_get b (ix_of_height th (b_start b)) with
  | Some p, Some (c, _) => hprev c =? hid p
  | _, _ => false
  end.

(* validateChainContinuity.  REPAIR of F-C14-3: the header above the effective
   tip is linked to the block header AT the effective tip (the unrepaired code
   handed the block tip height to validateHeaderConnection, which rejected
   every file reaching above the filter tip when the block store is ahead). *)
Definition continuity (s : stores) (b : bsource) (f : fsource) : bool :=
  match b_chaintip s, f_chaintip s with
  | Some (_, Ht bt), Some (_, Ht ft) =>
    let eff := Z.min bt ft in
    let st := hz (b_start b) in let en := hz (b_end b) in
    if st >? eff + 1 then false
    else if st >? eff then connection s b (Ht st) (Ht eff)
    else
      let oe := Z.min eff en in
      verify_at s b f (Ht st) VBoth &&
      (if oe >? st then verify_at s b f (Ht oe) VBoth else true) &&
      (if oe <? en then connection s b (Ht (oe + 1)) (Ht eff) else true)
  | _, _ => false
  end.

Record region := mkR { r_start : height; r_end : height; r_exists : bool; r_v : vmode; r_a : amode }.

(* determineProcessingRegions: (divergence, new headers) *)
Definition regions (s : stores) (b : bsource) : option (region * region) :=
  match b_chaintip s, f_chaintip s with
  | Some (_, Ht bt), Some (_, Ht ft) =>
    let eff := Z.min bt ft in
    let en := hz (b_end b) in
    let ds := eff + 1 in
    let de := Z.min (Z.max bt ft) en in
    let '(v, a) := if bt >? ft then (VBlock, AFilter)
                   else if bt <? ft then (VFilter, ABlock) else (VBoth, ABoth) in
    let ns := Z.max bt ft + 1 in
    Some (mkR (Ht ds) (Ht de) (negb (bt =? ft) && (ds <=? de)) v a,
          mkR (Ht ns) (Ht en) (ns <=? en) VBoth ABoth)
  | _, _ => None
  end.

(* ------------------------------------------------------------------ *)
(* Batched append with injected write faults *)

Inductive result := Success | Failure.

Fixpoint set_last_blk (l : list fent) (k : Z) : list fent :=
  match l with
  | [] => []
  | [x] => [FE (fe_hash x) (fe_height x) k]
  | x :: r => x :: set_last_blk r k
  end.

(* writeHeadersToTargetStores *)
Definition write_both (fl : faults) (c : ctr) (s : stores) (bb : list bent) (fb : list fent)
  : result * stores * ctr :=
  let cb := if Nat.eqb (length bb) 0 then c_bw c else c_bw c + 1 in
  if negb (Nat.eqb (length bb) 0) && (cb =? fl_bw fl) then (Failure, s, mkC cb (c_fw c) (c_poll c)) else
  let s1 := b_write s bb in
  let cf := if Nat.eqb (length fb) 0 then c_fw c else c_fw c + 1 in
  if negb (Nat.eqb (length fb) 0) && (cf =? fl_fw fl) then
    (* compensating rollback of the block headers just written *)
    if Nat.eqb (length bb) 0 then (Failure, s1, mkC cb cf (c_poll c)) else
    if fl_rb fl then (Failure, s1, mkC cb cf (c_poll c)) else
    match b_rollback s1 (Z.of_nat (length bb)) with
    | Some s2 => (Failure, s2, mkC cb cf (c_poll c))
    | None => (Failure, s1, mkC cb cf (c_poll c))
    end
  else (Success, f_write s1 fb, mkC cb cf (c_poll c)).

Inductive batch_res := B_eof | B_fail | B_done (batch_end : height).

(* processBatch(blockIter, filterIter, batchStart, batchStartIdx, appendMode):
   [batch_start] is a target height (book-keeping, returned batch end),
   [batch_start_ix] the source index handed to ReadBatch (REPAIR of F08: the
   unrepaired code handed [batch_start] itself to ReadBatch); [endI] is the
   iterators' configured end index. *)
Definition process_batch (fl : faults) (c : ctr) (s : stores) (b : bsource) (f : fsource)
           (batch_start : height) (batch_start_ix endI : index) (bs : Z) (m : amode)
  : batch_res * stores * ctr :=
  let avail := b_count b in
  let rbb := match m with
             | AFilter => RB_ok []
             | _ => read_batch (bs_get b) avail batch_start_ix endI bs end in
  match rbb with
  | RB_eof => (B_eof, s, c)
  | RB_err => (B_fail, s, c)
  | RB_ok bb =>
    let rbf := match m with
               | ABlock => RB_ok []
               | _ => read_batch (fs_get f) avail batch_start_ix endI bs end in
    match rbf with
    | RB_eof => (B_eof, s, c)
    | RB_err => (B_fail, s, c)
    | RB_ok fb =>
      let bend := match m with
                  | ABlock => hz batch_start + Z.of_nat (length bb) - 1
                  | _ => hz batch_start + Z.of_nat (length fb) - 1 end in
      (* filter-only mode: tie the filter tip to the block header at the
         batch's last height (REPAIR of F-C14-3: the unrepaired code did this only
         for the batch it took for the last one, comparing a HEIGHT with an
         INDEX, and demanded that the block tip be at that height) *)
      let fb1 :=
        match m with
        | AFilter =>
          match b_fetch s (Ht bend) with
          | Some lastH => Some (set_last_blk fb (hid lastH))
          | None => None
          end
        | ABoth =>
          if Nat.eqb (length bb) (length fb)
          then Some (set_last_blk fb (hid (fst (lastd bb (H 0 0 0 0 0, 0)))))
          else None
        | ABlock => Some fb
        end in
      match fb1 with
      | None => (B_fail, s, c)
      | Some fb2 =>
        match write_both fl c s bb fb2 with
        | (Success, s', c') => (B_done (Ht bend), s', c')
        | (Failure, s', c') => (B_fail, s', c')
        end
      end
    end
  end.

(* appendNewHeaders(ctx, startHeight, endHeight, mode): the batch loop *)
Fixpoint append_loop (fuel : nat) (fl : faults) (c : ctr) (s : stores) (b : bsource) (f : fsource)
         (batch_start : height) (endI : index) (bs : Z) (m : amode) : result * stores * ctr :=
  match fuel with
  | O => (Success, s, c)
  | S k =>
    (* "if err := ctxCancelled(ctx); err != nil { return err }" at the top of
       every iteration, the one that finds the region exhausted included *)
    let c1 := tick c in
    if is_canc fl (c_poll c1) then (Failure, s, c1) else
    match process_batch fl c1 s b f batch_start (ix_of_height batch_start (b_start b)) endI bs m with
    | (B_eof, s', c') => (Success, s', c')
    | (B_fail, s', c') => (Failure, s', c')
    | (B_done (Ht e), s', c') => append_loop k fl c' s' b f (Ht (e + 1)) endI bs m
    end
  end.

Definition eff_batch (bs : Z) : Z := if bs <=? 0 then 65536 else bs.

Definition append_region (fl : faults) (c : ctr) (s : stores) (b : bsource) (f : fsource)
           (sh eh : height) (bs : Z) (m : amode) : result * stores * ctr :=
  let ei := ix_of_height eh (b_start b) in
  append_loop (S (length (bs_hdrs b))) fl c s b f sh ei (eff_batch bs) m.

(* ------------------------------------------------------------------ *)
(* Import *)

(* the two validators, block headers first: (no error reported, counters
   afterwards) *)
Definition validation (P : params) (s : stores) (b : bsource) (f : fsource) (bs : Z) (fl : faults)
  : bool * ctr :=
  let '(vb, c1) := validate_blocks_c P s b (eff_batch bs) fl (mkC 0 0 0) in
  if vb then validate_filters_cc P f (eff_batch bs) fl c1 else (false, c1).

(* some poll made by the validators reported cancellation: validation was cut
   short (ghost observation for the statements; polls are monotone, so this
   is the answer of the last poll the validators made) *)
Definition cancelled_in_validation (P : params) (s : stores) (b : bsource) (f : fsource) (bs : Z)
           (fl : faults) : bool :=
  is_canc fl (c_poll (snd (validation P s b f bs fl))).

(* determineProcessingRegions, processDivergenceHeadersRegion,
   processNewHeadersRegion; [c0]: counters after validation *)
Definition process_regions (s : stores) (b : bsource) (f : fsource) (bs : Z) (fl : faults) (c0 : ctr)
  : result * stores :=
  match regions s b with
  | None => (Failure, s)
  | Some (dv, nw) =>
    let '(r1, s1, c1) :=
      if r_exists dv then
        if verify_at s b f (r_end dv) (r_v dv)
        then append_region fl c0 s b f (r_start dv) (r_end dv) bs (r_a dv)
        else (Failure, s, c0)
      else (Success, s, c0) in
    match r1 with
    | Failure => (Failure, s1)
    | Success =>
      if r_exists nw then
        let '(r2, s2, _) := append_region fl c1 s1 b f (r_start nw) (r_end nw) bs (r_a nw) in
        (r2, s2)
      else (Success, s1)
    end
  end.

Definition import (P : params) (s : stores) (b : bsource) (f : fsource) (bs : Z) (fl : faults)
  : result * stores :=
  if negb (open_ok (bs_meta b) (length (bs_hdrs b)) && open_ok (fs_meta f) (length (fs_hdrs f)))
  then (Failure, s) else
  if negb (compat P b f) then (Failure, s) else
  if negb (continuity s b f) then (Failure, s) else
  match validation P s b f bs fl with
  | (false, _) => (Failure, s)
  | (true, c0) => process_regions s b f bs fl c0
  end.

(* ------------------------------------------------------------------ *)
(* Histories: imports and (harness set-up) block-store rollbacks *)

Inductive op :=
| OImport (b : bsource) (f : fsource) (bs : Z) (fl : faults)
| ORollback (n : Z).

Definition step (P : params) (s : stores) (o : op) : stores * bool :=
  match o with
  | OImport b f bs fl =>
    match import P s b f bs fl with
    | (Success, s') => (s', true)
    | (Failure, s') => (s', false)
    end
  | ORollback n =>
    match b_rollback s n with Some s' => (s', true) | None => (s, false) end
  end.

(* a store pair as the harness builds it: blocks and filters written through
   WriteHeaders in height order *)
Definition init_stores (bl : list hdr) (fl : list Z) : stores :=
  mkS bl fl (rev (map (fun e => (hid (fst e), snd e)) (with_heights bl 0)))
      (hid (lastd bl (H 0 0 0 0 0)))
      (match nthZ bl (Z.of_nat (length fl) - 1) with Some x => hid x | None => 0 end).
