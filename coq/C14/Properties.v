(* C14 — the property theorems, and nothing else. *)
From Coq Require Import ZArith List Bool Lia.
From Verif Require Import C14.Model C14.Spec C14.Proofs.
Import ListNotations.
Open Scope Z_scope.

(* PARTIAL (see below what is missing).  For target stores that satisfy the
   headerfs invariant and stand at the same height, for every chain
   parameter set, file start height, file length, write batch size, overlap,
   corruption of the file and injected write/rollback failure:

   - whatever Import returns, the stores again satisfy the invariant (both
     ChainTips readable at the end of their files, every stored block header
     indexed at its height: C14_stores_usable), the filter store is not
     ahead of the block store, each store consists of its earlier contents
     followed by a (possibly empty) initial part of the file's headers above
     them — so nothing but correctly positioned file headers is ever written,
     and only after the whole file passed validation — and, unless the
     compensating rollback itself was made to fail, both stores are again at
     equal heights;
   - if Import reports success, both stores hold exactly their earlier
     contents extended by the file's headers up to the file's last height.

   Hypotheses: the store invariant, equal heights, the token form of hash
   collision freedom (distinct headers of old contents + file part above
   them have distinct hashes).

   Missing from the proved statement (covered only by the differential
   replay of real-store traces against this model and by the monitor):
   target stores at different heights (block store ahead), validity of the
   resulting block header chain, idempotence of a repeated import. *)
Theorem C14_import_equal_heights_partial : forall P s b f bs fl r s',
  stores_wf s -> length (bfile s) = length (ffile s) -> 0 <= hz (b_start b) ->
  NoDup (map hid (extend (bfile s) (hz (b_start b)) (bs_hdrs b))) ->
  import P s b f bs fl = (r, s') ->
  stores_wf s' /\ (length (ffile s') <= length (bfile s'))%nat /\
  contents_post fl s s' (hz (b_start b)) (bs_hdrs b) (fs_hdrs f) /\
  (r = Success ->
     bfile s' = extend (bfile s) (hz (b_start b)) (bs_hdrs b) /\
     ffile s' = extend (ffile s) (hz (b_start b)) (fs_hdrs f) /\
     hz (b_end b) < Z.of_nat (length (bfile s')) /\ length (bfile s') = length (ffile s')).
Proof. exact import_equal_heights. Qed.
Print Assumptions C14_import_equal_heights_partial.

(* The invariant means "usable": both ChainTip calls succeed and report the
   last header of their file. *)
Theorem C14_stores_usable : forall s, stores_wf s ->
  b_chaintip s = Some (lastd (bfile s) d0, Ht (Z.of_nat (length (bfile s)) - 1)) /\
  exists y, f_chaintip s = Some (y, Ht (Z.of_nat (length (ffile s)) - 1)).
Proof. exact wf_tips. Qed.
Print Assumptions C14_stores_usable.

(* One failed batch is compensated exactly: after WriteHeaders of a batch on
   the block store, RollbackBlockHeaders(len batch) restores the contents and
   the invariant. *)
Theorem C14_compensation_exact : forall s chunk,
  stores_wf s -> chunk <> [] -> NoDup (map hid (bfile s ++ chunk)) ->
  exists s2, b_rollback (b_write s (with_heights chunk (Z.of_nat (length (bfile s)))))
                        (Z.of_nat (length chunk)) = Some s2 /\
             bfile s2 = bfile s /\ ffile s2 = ffile s /\ stores_wf s2.
Proof. exact rollback_bwrite. Qed.
Print Assumptions C14_compensation_exact.

(* Non-vacuity: stores 0..2, a file starting at height 1 (not 0) with five
   headers, batch size 2 (does not divide the three new heights): the
   hypotheses hold, the import succeeds with the expected contents; with the
   second filter write failing it reports failure and leaves both stores at
   height 4 (first batch kept, second batch compensated). *)
Definition ex_P : params := mkP 7 true 2016 1 1 1 (2 ^ 255 - 1) 545259519 [] 2000000000.
Definition ex_h (i : Z) : hdr := H i (i - 1) 545259519 (1000 + 600 * i) 5.
Definition ex_s : stores := init_stores [ex_h 1; ex_h 2; ex_h 3] [10; 11; 12].
Definition ex_b : bsource := mkBS (mkM 7 0 0 (Ht 1) 0) [ex_h 2; ex_h 3; ex_h 4; ex_h 5; ex_h 6].
Definition ex_f : fsource := mkFS (mkM 7 0 1 (Ht 1) 0) [11; 12; 13; 14; 15].

Example C14_nonvacuous :
  stores_wf ex_s /\ length (bfile ex_s) = length (ffile ex_s) /\
  NoDup (map hid (extend (bfile ex_s) (hz (b_start ex_b)) (bs_hdrs ex_b))) /\
  (let '(r, s') := import ex_P ex_s ex_b ex_f 2 (mkF 0 0 false) in
   (r, map hid (bfile s'), ffile s')) = (Success, [1; 2; 3; 4; 5; 6], [10; 11; 12; 13; 14; 15]) /\
  (let '(r, s') := import ex_P ex_s ex_b ex_f 2 (mkF 0 2 false) in
   (r, map hid (bfile s'), ffile s')) = (Failure, [1; 2; 3; 4; 5], [10; 11; 12; 13; 14]).
Proof.
  split.
  { constructor.
    - discriminate.
    - discriminate.
    - cbn. lia.
    - cbn. repeat constructor; cbn; intuition lia.
    - intros h x Hn. pose proof (nthZ_lt _ _ _ Hn) as Hb. cbn in Hb.
      assert (Hh : h = 0 \/ h = 1 \/ h = 2) by lia.
      destruct Hh as [Hh|[Hh|Hh]]; subst h; vm_compute in Hn; inversion Hn; reflexivity.
    - split; reflexivity.
    - eexists. split; reflexivity. }
  split; [reflexivity|].
  split; [vm_compute; repeat constructor; cbn; intuition lia|].
  split; vm_compute; reflexivity.
Qed.
