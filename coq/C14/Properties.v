(* C14 — the property theorems, and nothing else. *)
From Coq Require Import ZArith List Bool Lia.
From Verif Require Import C14.Model C14.Spec C14.Proofs.
Import ListNotations.
Open Scope Z_scope.

(* The full statement.  For target stores that satisfy the headerfs
   invariant [stores_wf] — which admits every height difference headerfs
   itself admits: filter store level with or below the block store — for
   every chain parameter set, file start height, file length, write batch
   size, overlap, corruption of the file, injected write/rollback failure and
   EVERY point at which the context handed to Import is cancelled ([fl_cancel]:
   the poll of the context, counted over the validators' per-batch polls and
   the per-batch polls of the append loops, from which it reports
   cancellation; 0 = never):

   whatever Import returns,
   - the stores again satisfy the invariant: both ChainTips readable at the
     end of their files, every stored block header indexed at its height
     (C14_stores_usable), filter store not ahead of the block store;
   - each store consists of its earlier contents followed by a (possibly
     empty) initial part of the file's headers above them, so only correctly
     positioned file headers are ever written; unless the compensating
     rollback itself was made to fail, the gap between the two stores does
     not widen and the block store grows only once the gap is closed (all or
     nothing per batch: stores at equal heights stay at equal heights);
   - nothing unvalidated was written: if the earlier block headers formed a
     valid connected chain (every header links to its predecessor by hash,
     carries the required difficulty, a timestamp above the median time past
     and sufficient proof of work), so do the block headers afterwards, and
     every filter header added agrees with the filter header checkpoints;
   - if the cancelled context cut the validation short (the validators return
     nil without validating once they see the cancellation), the stores are
     exactly as before;
   if Import reports success,
   - both stores hold exactly their earlier contents extended by the file's
     headers up to the file's last height (block store ahead: the filter
     store catches up from the file, then both are extended),
   - repeating the import, under any injected faults and any cancellation,
     changes nothing, and
   - unless the validation was cut short (success is then reported only when
     nothing was left to write, see C14_success_is_live), and the earlier
     block headers forming a valid chain: repeating the import succeeds.

   Hypotheses: the store invariant; start height >= 0; the token form of hash
   collision freedom (distinct positions of old contents + file part above
   them carry distinct hashes [NoDup]; equal hashes mean equal headers among
   store and file [hash_inj]); blocks-per-retarget >= 1 unless the chain does
   not retarget. *)
Theorem C14_import : forall P s b f bs fl r s',
  stores_wf s -> 0 <= hz (b_start b) ->
  NoDup (map hid (extend (bfile s) (hz (b_start b)) (bs_hdrs b))) ->
  hash_inj (bfile s ++ bs_hdrs b) -> retarget_ok P ->
  import P s b f bs fl = (r, s') ->
  stores_wf s' /\
  (exists rest, bfile s' ++ rest = extend (bfile s) (hz (b_start b)) (bs_hdrs b)) /\
  (exists rest, ffile s' ++ rest = extend (ffile s) (hz (b_start b)) (fs_hdrs f)) /\
  (length (bfile s) <= length (bfile s'))%nat /\ (length (ffile s) <= length (ffile s'))%nat /\
  (fl_rb fl = false ->
     Z.of_nat (length (bfile s')) - Z.of_nat (length (ffile s')) <=
     Z.of_nat (length (bfile s)) - Z.of_nat (length (ffile s)) /\
     (length (bfile s') = length (bfile s) \/ length (bfile s') = length (ffile s'))) /\
  (valid_chain P (bfile s) -> valid_chain P (bfile s')) /\
  validate_filters_from P (skipn (length (ffile s)) (ffile s')) (Z.of_nat (length (ffile s))) = true /\
  (cancelled_in_validation P s b f bs fl = true -> s' = s) /\
  (r = Success ->
     bfile s' = extend (bfile s) (hz (b_start b)) (bs_hdrs b) /\
     ffile s' = extend (ffile s) (hz (b_start b)) (fs_hdrs f) /\
     hz (b_end b) < Z.of_nat (length (ffile s')) /\
     (forall fl', snd (import P s' b f bs fl') = s') /\
     (cancelled_in_validation P s b f bs fl = false -> valid_chain P (bfile s) ->
        forall fl', import P s' b f bs fl' = (Success, s'))).
Proof. exact import_full. Qed.
Print Assumptions C14_import.

(* A context that is never cancelled never cuts the validation short: for
   [fl_cancel fl = 0] C14_import is the statement about the import under a
   live context, with unconditional idempotence. *)
Theorem C14_never_cancelled : forall P s b f bs fl,
  fl_cancel fl = 0 -> cancelled_in_validation P s b f bs fl = false.
Proof. exact never_cancelled. Qed.
Print Assumptions C14_never_cancelled.

(* The validators swallow a cancellation (return nil without validating);
   what keeps unvalidated headers out of the stores is that every later poll
   of the context, in particular the one before each batch is written, sees
   the cancellation too.  No hypotheses: whatever the stores and the file,
   a validation cut short is never followed by a write. *)
Theorem C14_validation_cut_short_writes_nothing : forall P s b f bs fl,
  cancelled_in_validation P s b f bs fl = true -> snd (import P s b f bs fl) = s.
Proof. exact cut_short_writes_nothing. Qed.
Print Assumptions C14_validation_cut_short_writes_nothing.

(* Success is reported only if no poll of the append loops saw a
   cancellation; a success whose validation was not cut short is exactly the
   outcome of the same import under a context that is never cancelled. *)
Theorem C14_success_is_live : forall P s b f bs fl s',
  import P s b f bs fl = (Success, s') -> cancelled_in_validation P s b f bs fl = false ->
  import P s b f bs (mkF (fl_bw fl) (fl_fw fl) (fl_rb fl) 0) = (Success, s').
Proof. exact import_success_live. Qed.
Print Assumptions C14_success_is_live.

(* What the block header validator establishes: every two adjacent headers of
   the file pass the pair validation (at whatever batch boundaries), and so
   does the file's first header against the target store's header below it. *)
Theorem C14_validated_file_is_chain : forall P s b B,
  validate_blocks P s b B = true ->
  chain_from P (lk s b) (bs_hdrs b) (hz (b_start b)) /\
  (forall q x, hz (b_start b) > 0 -> b_fetch s (Ht (hz (b_start b) - 1)) = Some q ->
     nth_error (bs_hdrs b) 0 = Some x ->
     pair_ok P (lk s b) (q, hz (b_start b) - 1) (x, hz (b_start b)) = true).
Proof. exact validate_blocks_chain. Qed.
Print Assumptions C14_validated_file_is_chain.

(* The invariant means "usable": both ChainTip calls succeed and report the
   last header of their file. *)
Theorem C14_stores_usable : forall s, stores_wf s ->
  b_chaintip s = Some (lastd (bfile s) d0, Ht (Z.of_nat (length (bfile s)) - 1)) /\
  exists y, f_chaintip s = Some (y, Ht (Z.of_nat (length (ffile s)) - 1)).
Proof. exact wf_tips. Qed.
Print Assumptions C14_stores_usable.

(* One failed batch is compensated exactly: after WriteHeaders of a batch on
   the block store, RollbackBlockHeaders(len batch) restores the contents and
   the invariant. *)
Theorem C14_compensation_exact : forall s chunk,
  stores_wf s -> chunk <> [] -> NoDup (map hid (bfile s ++ chunk)) ->
  exists s2, b_rollback (b_write s (with_heights chunk (Z.of_nat (length (bfile s)))))
                        (Z.of_nat (length chunk)) = Some s2 /\
             bfile s2 = bfile s /\ ffile s2 = ffile s /\ stores_wf s2.
Proof. exact rollback_bwrite. Qed.
Print Assumptions C14_compensation_exact.

(* Non-vacuity: stores 0..2, a file starting at height 1 (not 0) with five
   headers, batch size 2 (does not divide the three new heights): all
   hypotheses of C14_import hold, the old chain is valid, the import succeeds
   with the expected contents; with the second filter write failing it
   reports failure and leaves both stores at height 4 (first batch kept,
   second batch compensated). *)
Definition ex_P : params := mkP 7 true 2016 1 1 1 (2 ^ 255 - 1) 545259519 [] 2000000000.
Definition ex_h (i : Z) : hdr := H i (i - 1) 545259519 (1000 + 600 * i) 5.
Definition ex_s : stores := init_stores [ex_h 1; ex_h 2; ex_h 3] [10; 11; 12].
Definition ex_b : bsource := mkBS (mkM 7 0 0 (Ht 1) 0) [ex_h 2; ex_h 3; ex_h 4; ex_h 5; ex_h 6].
Definition ex_f : fsource := mkFS (mkM 7 0 1 (Ht 1) 0) [11; 12; 13; 14; 15].

Example C14_nonvacuous :
  stores_wf ex_s /\ 0 <= hz (b_start ex_b) /\
  NoDup (map hid (extend (bfile ex_s) (hz (b_start ex_b)) (bs_hdrs ex_b))) /\
  hash_inj (bfile ex_s ++ bs_hdrs ex_b) /\ retarget_ok ex_P /\ valid_chain ex_P (bfile ex_s) /\
  (let '(r, s') := import ex_P ex_s ex_b ex_f 2 (mkF 0 0 false 0) in
   (r, map hid (bfile s'), ffile s')) = (Success, [1; 2; 3; 4; 5; 6], [10; 11; 12; 13; 14; 15]) /\
  (let '(r, s') := import ex_P ex_s ex_b ex_f 2 (mkF 0 2 false 0) in
   (r, map hid (bfile s'), ffile s')) = (Failure, [1; 2; 3; 4; 5], [10; 11; 12; 13; 14]).
Proof.
  split.
  { constructor.
    - discriminate.
    - discriminate.
    - cbn. lia.
    - cbn. repeat constructor; cbn; intuition lia.
    - intros h x Hn. pose proof (nthZ_lt _ _ _ Hn) as Hb. cbn in Hb.
      assert (Hh : h = 0 \/ h = 1 \/ h = 2) by lia.
      destruct Hh as [Hh|[Hh|Hh]]; subst h; vm_compute in Hn; inversion Hn; reflexivity.
    - split; reflexivity.
    - eexists. split; reflexivity. }
  split; [cbn; lia|].
  split; [vm_compute; repeat constructor; cbn; intuition lia|].
  split.
  { intros x y Hx Hy He. cbn in Hx, Hy.
    repeat match goal with
           | Hd : _ \/ _ |- _ => destruct Hd
           | Hf : False |- _ => destruct Hf
           end; subst; try reflexivity; cbn in He; discriminate. }
  split; [now left|].
  split; [vm_compute; reflexivity|].
  split; vm_compute; reflexivity.
Qed.

(* Cancellation: the same import (3 + 3 validator polls with batch size 2,
   then polls 7, 8 before the two batches and 9 before the loop finds the
   region exhausted).  Cancelled on entry or anywhere in validation: failure,
   stores untouched, validation cut short; at poll 8: failure after the first
   batch; at poll 9: failure with everything written; at poll 10 (never
   reached): success.  With a file whose header at height 4 does not link
   (hprev 77), cancelled on entry: the validators skip it, the append loop
   stops before writing; under a live context it is rejected.  A file lying
   within the stores that agrees with them at its first and last height only,
   cancelled on entry: success without validation, nothing
   written. *)
Definition ex_run (b : bsource) (f : fsource) (n : Z) :=
  let '(r, s') := import ex_P ex_s b f 2 (mkF 0 0 false n) in
  (r, map hid (bfile s'), ffile s', cancelled_in_validation ex_P ex_s b f 2 (mkF 0 0 false n)).
Definition ex_bad : bsource :=
  mkBS (mkM 7 0 0 (Ht 1) 0) [ex_h 2; ex_h 3; H 4 77 545259519 3400 5; ex_h 5; ex_h 6].
Definition ex_in : bsource := mkBS (mkM 7 0 0 (Ht 0) 0) [ex_h 1; H 9 9 0 0 9; ex_h 3].
Definition ex_fin : fsource := mkFS (mkM 7 0 1 (Ht 0) 0) [10; 99; 12].

Example C14_nonvacuous_cancel :
  map (ex_run ex_b ex_f) [1; 4; 6; 7; 8; 9; 10] =
    [(Failure, [1; 2; 3], [10; 11; 12], true);
     (Failure, [1; 2; 3], [10; 11; 12], true);
     (Failure, [1; 2; 3], [10; 11; 12], true);
     (Failure, [1; 2; 3], [10; 11; 12], false);
     (Failure, [1; 2; 3; 4; 5], [10; 11; 12; 13; 14], false);
     (Failure, [1; 2; 3; 4; 5; 6], [10; 11; 12; 13; 14; 15], false);
     (Success, [1; 2; 3; 4; 5; 6], [10; 11; 12; 13; 14; 15], false)] /\
  map (ex_run ex_bad ex_f) [1; 2; 0] =
    [(Failure, [1; 2; 3], [10; 11; 12], true);
     (Failure, [1; 2; 3], [10; 11; 12], true);
     (Failure, [1; 2; 3], [10; 11; 12], false)] /\
  map (ex_run ex_in ex_fin) [1; 0] =
    [(Success, [1; 2; 3], [10; 11; 12], true);
     (Failure, [1; 2; 3], [10; 11; 12], false)].
Proof. vm_compute. repeat split. Qed.

(* Block store ahead of the filter store (blocks 0..2, filters 0..1; the
   usual state of a node whose filter header sync lags): the same file first
   lets the filter store catch up at height 2 (filter-only batch carrying
   block header 3's hash), then extends both; a file ending at the block tip
   only completes the filter store; with the filter write of the first
   common batch failing, the import reports failure and leaves both stores
   usable at height 2 (gap closed, batch compensated). *)
Definition ex_s_ahead : stores := init_stores [ex_h 1; ex_h 2; ex_h 3] [10; 11].
Definition ex_b2 : bsource := mkBS (mkM 7 0 0 (Ht 1) 0) [ex_h 2; ex_h 3].
Definition ex_f2 : fsource := mkFS (mkM 7 0 1 (Ht 1) 0) [11; 12].

Example C14_nonvacuous_block_ahead :
  stores_wf ex_s_ahead /\ (length (ffile ex_s_ahead) < length (bfile ex_s_ahead))%nat /\
  (let '(r, s') := import ex_P ex_s_ahead ex_b ex_f 2 (mkF 0 0 false 0) in
   (r, map hid (bfile s'), ffile s', f_chaintip s')) =
     (Success, [1; 2; 3; 4; 5; 6], [10; 11; 12; 13; 14; 15], Some (15, Ht 5)) /\
  (let '(r, s') := import ex_P ex_s_ahead ex_b2 ex_f2 2 (mkF 0 0 false 0) in
   (r, map hid (bfile s'), ffile s', f_chaintip s')) = (Success, [1; 2; 3], [10; 11; 12], Some (12, Ht 2)) /\
  (let '(r, s') := import ex_P ex_s_ahead ex_b ex_f 2 (mkF 0 2 false 0) in
   (r, map hid (bfile s'), ffile s', f_chaintip s')) = (Failure, [1; 2; 3], [10; 11; 12], Some (12, Ht 2)).
Proof.
  split.
  { constructor.
    - discriminate.
    - discriminate.
    - cbn. lia.
    - cbn. repeat constructor; cbn; intuition lia.
    - intros h x Hn. pose proof (nthZ_lt _ _ _ Hn) as Hb. cbn in Hb.
      assert (Hh : h = 0 \/ h = 1 \/ h = 2) by lia.
      destruct Hh as [Hh|[Hh|Hh]]; subst h; vm_compute in Hn; inversion Hn; reflexivity.
    - split; reflexivity.
    - eexists. split; reflexivity. }
  split; [cbn; lia|].
  split; [vm_compute; reflexivity|].
  split; vm_compute; reflexivity.
Qed.
