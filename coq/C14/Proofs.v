(* C14 — lemmas. *)
From Coq Require Import ZArith List Bool Lia Arith ZifyBool.
From Verif Require Import C14.Model C14.Spec.
Import ListNotations.
Open Scope Z_scope.

(* ------------------------------------------------------------------ *)
(* Lists, guarded access *)

Lemma nth_error_Some_lt {A} (l : list A) n x : nth_error l n = Some x -> (n < length l)%nat.
Proof. intros Hn. apply nth_error_Some. congruence. Qed.

Lemma nth_error_skipn' {A} (l : list A) n i : nth_error (skipn n l) i = nth_error l (n + i).
Proof.
  revert l. induction n as [|n IH]; intros l; [reflexivity|].
  destruct l; [destruct i; reflexivity | apply IH].
Qed.

Lemma nthZ_some {A} (l : list A) i x :
  nthZ l i = Some x <-> 0 <= i /\ nth_error l (Z.to_nat i) = Some x.
Proof.
  unfold nthZ. destruct (i <? 0) eqn:E1; cbn [orb].
  - split; [discriminate | lia].
  - destruct (i >=? Z.of_nat (length l)) eqn:E2.
    + split; [discriminate|]. intros [_ Hn].
      apply nth_error_Some_lt in Hn. lia.
    + split; [intro; split; [lia | assumption] | tauto].
Qed.

Lemma nthZ_lt {A} (l : list A) i x : nthZ l i = Some x -> 0 <= i < Z.of_nat (length l).
Proof.
  intros Hn. apply nthZ_some in Hn. destruct Hn as [H0 Hn].
  apply nth_error_Some_lt in Hn. lia.
Qed.

Lemma nthZ_none {A} (l : list A) i : i < 0 \/ Z.of_nat (length l) <= i -> nthZ l i = None.
Proof.
  intros Hi. destruct (nthZ l i) eqn:E; [|reflexivity].
  apply nthZ_lt in E. lia.
Qed.

Lemma nthZ_is_some {A} (l : list A) i : 0 <= i < Z.of_nat (length l) -> exists x, nthZ l i = Some x.
Proof.
  intros Hi. destruct (nth_error l (Z.to_nat i)) eqn:E.
  - exists a. apply nthZ_some. split; [lia | assumption].
  - apply nth_error_None in E. lia.
Qed.

Lemma nthZ_app_l {A} (l r : list A) i : i < Z.of_nat (length l) -> nthZ (l ++ r) i = nthZ l i.
Proof.
  intros Hi. destruct (Z_lt_dec i 0) as [Hn|Hn].
  - rewrite !nthZ_none by lia. reflexivity.
  - destruct (nthZ_is_some l i) as [x Hx]; [lia|]. rewrite Hx.
    apply nthZ_some. apply nthZ_some in Hx. destruct Hx as [H0 Hx]. split; [lia|].
    rewrite nth_error_app1; [assumption | lia].
Qed.

Lemma nthZ_app_r {A} (l r : list A) i :
  Z.of_nat (length l) <= i -> nthZ (l ++ r) i = nthZ r (i - Z.of_nat (length l)).
Proof.
  intros Hi. destruct (Z_lt_dec i (Z.of_nat (length (l ++ r)))) as [Hlt|Hge].
  - rewrite app_length in Hlt.
    destruct (nthZ_is_some r (i - Z.of_nat (length l))) as [x Hx]; [lia|]. rewrite Hx.
    apply nthZ_some. apply nthZ_some in Hx. destruct Hx as [H0 Hx]. split; [lia|].
    rewrite nth_error_app2 by lia.
    replace (Z.to_nat i - length l)%nat with (Z.to_nat (i - Z.of_nat (length l))) by lia. assumption.
  - rewrite app_length in Hge. rewrite !nthZ_none by (try rewrite app_length; lia). reflexivity.
Qed.

Lemma nthZ_skipn {A} (l : list A) k i :
  0 <= k -> 0 <= i -> nthZ (skipn (Z.to_nat k) l) i = nthZ l (k + i).
Proof.
  intros Hk Hi.
  destruct (Z_lt_dec (k + i) (Z.of_nat (length l))) as [Hlt|Hge].
  - destruct (nthZ_is_some l (k + i)) as [x Hx]; [lia|]. rewrite Hx.
    apply nthZ_some. apply nthZ_some in Hx. destruct Hx as [_ Hx]. split; [lia|].
    rewrite nth_error_skipn'. replace (Z.to_nat k + Z.to_nat i)%nat with (Z.to_nat (k + i)) by lia. assumption.
  - rewrite (nthZ_none l) by lia. apply nthZ_none. rewrite skipn_length. lia.
Qed.

Lemma nthZ_last {A} (l : list A) d : l <> [] -> nthZ l (Z.of_nat (length l) - 1) = Some (lastd l d).
Proof.
  induction l as [|x r IH]; [congruence|]. intros _.
  destruct r as [|y r'].
  - reflexivity.
  - change (lastd (x :: y :: r') d) with (lastd (y :: r') d).
    rewrite <- IH by congruence.
    change (x :: y :: r') with ([x] ++ (y :: r')).
    rewrite nthZ_app_r by (cbn [length app]; lia). f_equal. cbn [length app]. lia.
Qed.

Lemma lastd_cons {A} (x : A) l d : l <> [] -> lastd (x :: l) d = lastd l d.
Proof. destruct l; [congruence | reflexivity]. Qed.

Lemma lastd_app {A} (l r : list A) d : r <> [] -> lastd (l ++ r) d = lastd r d.
Proof.
  intros Hr. induction l as [|x l IH]; [reflexivity|].
  cbn [app]. rewrite lastd_cons; [exact IH|].
  destruct l; cbn [app]; [assumption | discriminate].
Qed.

Lemma lastd_map {A B} (g : A -> B) (l : list A) d : lastd (map g l) (g d) = g (lastd l d).
Proof.
  induction l as [|x r IH]; [reflexivity|]. destruct r; [reflexivity|].
  change (lastd (map g (x :: a :: r)) (g d)) with (lastd (map g (a :: r)) (g d)). exact IH.
Qed.

Lemma idx_get_del m k k' : idx_get (idx_del m k') k = if k' =? k then None else idx_get m k.
Proof.
  induction m as [|[a v] m IH]; cbn [idx_del filter idx_get fst].
  - destruct (k' =? k); reflexivity.
  - destruct (a =? k') eqn:E1; cbn [negb].
    + fold (idx_del m k'). rewrite IH. apply Z.eqb_eq in E1. subst a.
      destruct (k' =? k); reflexivity.
    + cbn [idx_get]. fold (idx_del m k'). rewrite IH.
      destruct (a =? k) eqn:E2; [|reflexivity].
      apply Z.eqb_eq in E2. subst a. rewrite Z.eqb_sym in E1. rewrite E1. reflexivity.
Qed.

(* ------------------------------------------------------------------ *)
(* Entries, reading batches *)

Fixpoint fents (l : list Z) (h : Z) : list fent :=
  match l with [] => [] | x :: r => FE x h 0 :: fents r (h + 1) end.

Lemma with_heights_fst l h : map fst (with_heights l h) = l.
Proof. revert h. induction l as [|x r IH]; intros h; cbn; [reflexivity | now rewrite IH]. Qed.
Lemma with_heights_length l h : length (with_heights l h) = length l.
Proof. rewrite <- (with_heights_fst l h) at 2. now rewrite map_length. Qed.
Lemma fents_hash l h : map fe_hash (fents l h) = l.
Proof. revert h. induction l as [|x r IH]; intros h; cbn; [reflexivity | now rewrite IH]. Qed.
Lemma fents_length l h : length (fents l h) = length l.
Proof. rewrite <- (fents_hash l h) at 2. now rewrite map_length. Qed.

Lemma with_heights_nth l : forall h i x, nth_error l i = Some x ->
  nth_error (with_heights l h) i = Some (x, h + Z.of_nat i).
Proof.
  induction l as [|y r IH]; intros h i x Hn; [destruct i; discriminate|].
  destruct i as [|i]; cbn in *.
  - inversion Hn. f_equal. f_equal. lia.
  - rewrite (IH (h + 1) i x Hn). f_equal. f_equal. lia.
Qed.

Lemma with_heights_in l h x k : In (x, k) (with_heights l h) -> In x l.
Proof. intros Hi. rewrite <- (with_heights_fst l h). now apply (in_map fst) in Hi. Qed.

Lemma skipn_nth {A} (l : list A) : forall k x, nth_error l k = Some x -> skipn k l = x :: skipn (S k) l.
Proof.
  induction l as [|y r IH]; intros k x Hn; [destruct k; discriminate|].
  destruct k as [|k]; cbn in *; [now inversion Hn | now apply IH].
Qed.

Lemma read_range_b (b : bsource) : forall n i, 0 <= i -> i + Z.of_nat n <= Z.of_nat (length (bs_hdrs b)) ->
  read_range (bs_get b) n i =
  Some (with_heights (firstn n (skipn (Z.to_nat i) (bs_hdrs b))) (i + hz (b_start b))).
Proof.
  induction n as [|n IH]; intros i Hi Hle; [reflexivity|].
  cbn [read_range]. unfold bs_get at 1. cbn [iz].
  destruct (nthZ_is_some (bs_hdrs b) i) as [x Hx]; [lia|]. rewrite Hx.
  rewrite IH by lia. apply nthZ_some in Hx. destruct Hx as [_ Hx].
  rewrite (skipn_nth _ _ _ Hx). cbn [firstn with_heights height_of_ix hz iz].
  replace (Z.to_nat (i + 1)) with (S (Z.to_nat i)) by lia.
  replace (i + 1 + hz (b_start b)) with (i + hz (b_start b) + 1) by lia. reflexivity.
Qed.

Lemma read_range_f (f : fsource) : forall n i, 0 <= i -> i + Z.of_nat n <= Z.of_nat (length (fs_hdrs f)) ->
  read_range (fs_get f) n i =
  Some (fents (firstn n (skipn (Z.to_nat i) (fs_hdrs f))) (i + hz (m_start (fs_meta f)))).
Proof.
  induction n as [|n IH]; intros i Hi Hle; [reflexivity|].
  cbn [read_range]. unfold fs_get at 1. cbn [iz].
  destruct (nthZ_is_some (fs_hdrs f) i) as [x Hx]; [lia|]. rewrite Hx.
  rewrite IH by lia. apply nthZ_some in Hx. destruct Hx as [_ Hx].
  rewrite (skipn_nth _ _ _ Hx). cbn [firstn fents height_of_ix hz iz].
  replace (Z.to_nat (i + 1)) with (S (Z.to_nat i)) by lia.
  replace (i + 1 + hz (m_start (fs_meta f))) with (i + hz (m_start (fs_meta f)) + 1) by lia. reflexivity.
Qed.

(* number of headers in the batch starting at source index i *)
Definition cnt (len i B : Z) : Z := Z.min (len - 1) (i + B - 1) - i + 1.

Lemma read_batch_eof {A} (get : index -> option A) avail i e B :
  1 <= B -> i > e -> read_batch get avail (Ix i) (Ix e) B = RB_eof.
Proof.
  intros HB Hi. unfold read_batch. cbn [iz].
  destruct (i >? Z.min e (i + B - 1)) eqn:E; [reflexivity | lia].
Qed.

Lemma read_batch_ok {A} (get : index -> option A) len i B (l : list A) :
  1 <= B -> 0 <= i <= len - 1 ->
  read_range get (Z.to_nat (cnt len i B)) i = Some l -> length l = Z.to_nat (cnt len i B) ->
  read_batch get len (Ix i) (Ix (len - 1)) B = RB_ok l.
Proof.
  intros HB Hi Hr Hl. unfold read_batch. cbn [iz].
  destruct (i >? Z.min (len - 1) (i + B - 1)) eqn:E; [lia|].
  replace (Z.min (Z.min (len - 1) (i + B - 1) - i + 1) (len + 1)) with (cnt len i B) by (unfold cnt; lia).
  rewrite Hr. destruct l; [|reflexivity]. unfold cnt in Hl. cbn in Hl. lia.
Qed.

(* ------------------------------------------------------------------ *)
(* Index updates *)

Definition put_all (m : list (Z * Z)) (es : list bent) : list (Z * Z) :=
  fold_left (fun m e => (hid (fst e), snd e) :: m) es m.

Lemma put_all_other es : forall m k, (forall e, In e es -> hid (fst e) <> k) ->
  idx_get (put_all m es) k = idx_get m k.
Proof.
  induction es as [|e r IH]; intros m k Hk; [reflexivity|].
  cbn [put_all fold_left]. fold (put_all ((hid (fst e), snd e) :: m) r).
  rewrite IH by (intros e' He'; apply Hk; now right).
  cbn [idx_get]. destruct (hid (fst e) =? k) eqn:E; [|reflexivity].
  apply Z.eqb_eq in E. exfalso. apply (Hk e); [now left | assumption].
Qed.

Lemma put_all_in es : forall m x h, NoDup (map (fun e => hid (fst e)) es) -> In (x, h) es ->
  idx_get (put_all m es) (hid x) = Some h.
Proof.
  induction es as [|e r IH]; intros m x h Hnd Hin; [contradiction|].
  cbn [put_all fold_left]. fold (put_all ((hid (fst e), snd e) :: m) r).
  inversion Hnd as [|? ? Hni Hnd']; subst.
  destruct Hin as [He|Hin].
  - subst e. cbn [fst snd] in *. rewrite put_all_other.
    + cbn [idx_get]. now rewrite Z.eqb_refl.
    + intros e' He' Heq. apply Hni. rewrite <- Heq. now apply (in_map (fun e => hid (fst e))) in He'.
  - now apply IH.
Qed.

Definition del_all (m : list (Z * Z)) (l : list hdr) : list (Z * Z) :=
  fold_left (fun m x => idx_del m (hid x)) l m.

Lemma del_all_other l : forall m k, (forall y, In y l -> hid y <> k) ->
  idx_get (del_all m l) k = idx_get m k.
Proof.
  induction l as [|y r IH]; intros m k Hk; [reflexivity|].
  cbn [del_all fold_left]. fold (del_all (idx_del m (hid y)) r).
  rewrite IH by (intros y' Hy'; apply Hk; now right).
  rewrite idx_get_del. destruct (hid y =? k) eqn:E; [|reflexivity].
  apply Z.eqb_eq in E. exfalso. apply (Hk y); [now left | assumption].
Qed.

Lemma tip_of_last l : forall h bh bk d, l <> [] -> bh <= h ->
  tip_of (with_heights l h) bh bk = hid (lastd l d).
Proof.
  induction l as [|x r IH]; intros h bh bk d Hne Hle; [congruence|].
  cbn [with_heights tip_of]. destruct (h >=? bh) eqn:E; [|lia].
  destruct r as [|y r'].
  - reflexivity.
  - rewrite (IH (h + 1) h (hid x) d); [|congruence|lia]. reflexivity.
Qed.

(* ------------------------------------------------------------------ *)
(* The store invariant under WriteHeaders / RollbackBlockHeaders *)

Definition d0 : hdr := H 0 0 0 0 0.

Lemma b_write_ne s es : es <> [] ->
  b_write s es = mkS (bfile s ++ map fst es) (ffile s) (put_all (sidx s) es) (tip_of es 0 0) (ftip s).
Proof. destruct es; [congruence | reflexivity]. Qed.

Lemma f_write_ne s es : es <> [] ->
  f_write s es = mkS (bfile s) (ffile s ++ map fe_hash es) (sidx s) (btip s) (fe_blk (lastd es (FE 0 0 0))).
Proof. destruct es; [congruence | reflexivity]. Qed.

Lemma with_heights_ne l h : l <> [] -> with_heights l h <> [].
Proof. destruct l; [congruence | discriminate]. Qed.

Lemma nodup_app_notin (a c : list hdr) x y :
  NoDup (map hid (a ++ c)) -> In x a -> In y c -> hid y <> hid x.
Proof.
  rewrite map_app. revert x. induction a as [|z a IH]; intros x Hnd Hx Hy; [contradiction|].
  cbn [map app] in Hnd. inversion Hnd as [|? ? Hni Hnd']; subst.
  destruct Hx as [Hx|Hx].
  - subst z. intro Heq. apply Hni. rewrite <- Heq. apply in_or_app. right. now apply in_map.
  - now apply IH.
Qed.

Lemma NoDup_app_l {A} (a c : list A) : NoDup (a ++ c) -> NoDup a.
Proof.
  induction a as [|x a IH]; intros Hn; [constructor|].
  cbn [app] in Hn. inversion Hn as [|? ? Hni Hnd]; subst. constructor.
  - intro Hx. apply Hni. apply in_or_app. now left.
  - now apply IH.
Qed.
Lemma NoDup_app_r {A} (a c : list A) : NoDup (a ++ c) -> NoDup c.
Proof.
  induction a as [|x a IH]; intros Hn; [assumption|].
  cbn [app] in Hn. inversion Hn; subst. now apply IH.
Qed.

Lemma wf_bwrite s chunk :
  stores_wf s -> chunk <> [] -> NoDup (map hid (bfile s ++ chunk)) ->
  stores_wf (b_write s (with_heights chunk (Z.of_nat (length (bfile s))))).
Proof.
  intros Hwf Hne Hnd. destruct Hwf as [W1 W2 W3 W4 W5 [W6a W6b] [xf [W7a W7b]]].
  rewrite b_write_ne by now apply with_heights_ne. rewrite with_heights_fst.
  constructor; cbn [bfile ffile sidx btip ftip].
  - destruct (bfile s); [congruence | discriminate].
  - assumption.
  - rewrite app_length. lia.
  - assumption.
  - intros h x Hn.
    destruct (Z_lt_dec h (Z.of_nat (length (bfile s)))) as [Hlt|Hge].
    + rewrite nthZ_app_l in Hn by assumption.
      rewrite put_all_other; [now apply W5|].
      intros e He. destruct e as [y k]. cbn [fst].
      apply with_heights_in in He.
      apply (nodup_app_notin (bfile s) chunk x y Hnd); [|assumption].
      apply nthZ_some in Hn. destruct Hn as [_ Hn]. now apply nth_error_In in Hn.
    + rewrite nthZ_app_r in Hn by lia.
      apply nthZ_some in Hn. destruct Hn as [H0 Hn].
      apply put_all_in.
      * rewrite <- (map_map fst hid). rewrite with_heights_fst.
        rewrite map_app in Hnd. now apply NoDup_app_r in Hnd.
      * apply (with_heights_nth _ (Z.of_nat (length (bfile s)))) in Hn.
        apply nth_error_In in Hn.
        replace (Z.of_nat (length (bfile s)) + Z.of_nat (Z.to_nat (h - Z.of_nat (length (bfile s))))) with h in Hn by lia.
        assumption.
  - split.
    + rewrite (nthZ_last _ d0); [reflexivity|]. destruct (bfile s); [congruence | discriminate].
    + rewrite (lastd_app _ _ d0) by assumption.
      apply tip_of_last; [assumption | lia].
  - exists xf. split; [|assumption].
    rewrite nthZ_app_l; [assumption|]. lia.
Qed.

Lemma wf_fwrite s fes :
  stores_wf s -> fes <> [] ->
  (length (ffile s) + length fes = length (bfile s))%nat ->
  fe_blk (lastd fes (FE 0 0 0)) = hid (lastd (bfile s) d0) ->
  stores_wf (f_write s fes).
Proof.
  intros Hwf Hne Hlen Hblk. destruct Hwf as [W1 W2 W3 W4 W5 [W6a W6b] [xf [W7a W7b]]].
  rewrite f_write_ne by assumption.
  constructor; cbn [bfile ffile sidx btip ftip]; try assumption.
  - destruct (ffile s); [congruence | discriminate].
  - rewrite app_length, map_length. lia.
  - now split.
  - exists (lastd (bfile s) d0). split; [|assumption].
    rewrite app_length, map_length.
    replace (Z.of_nat (length (ffile s) + length fes)) with (Z.of_nat (length (bfile s))) by lia.
    now apply nthZ_last.
Qed.

Lemma firstn_app_exact {A} (a c : list A) : firstn (length a) (a ++ c) = a.
Proof. rewrite firstn_app, Nat.sub_diag, firstn_all. cbn. now rewrite app_nil_r. Qed.
Lemma skipn_app_exact {A} (a c : list A) : skipn (length a) (a ++ c) = c.
Proof. rewrite skipn_app, Nat.sub_diag, skipn_all. reflexivity. Qed.

Lemma rollback_bwrite s chunk :
  stores_wf s -> chunk <> [] -> NoDup (map hid (bfile s ++ chunk)) ->
  exists s2, b_rollback (b_write s (with_heights chunk (Z.of_nat (length (bfile s)))))
                        (Z.of_nat (length chunk)) = Some s2 /\
             bfile s2 = bfile s /\ ffile s2 = ffile s /\ stores_wf s2.
Proof.
  intros Hwf Hne Hnd.
  pose proof (wf_bwrite s chunk Hwf Hne Hnd) as Hwf1.
  destruct Hwf as [W1 W2 W3 W4 W5 [W6a W6b] [xf [W7a W7b]]].
  destruct Hwf1 as [V1 V2 V3 V4 V5 [V6a V6b] V7].
  set (s1 := b_write s (with_heights chunk (Z.of_nat (length (bfile s))))) in *.
  assert (Hb1 : bfile s1 = bfile s ++ chunk).
  { unfold s1. rewrite b_write_ne by now apply with_heights_ne. cbn [bfile]. now rewrite with_heights_fst. }
  assert (Hf1 : ffile s1 = ffile s).
  { unfold s1. rewrite b_write_ne by now apply with_heights_ne. reflexivity. }
  assert (Hi1 : sidx s1 = put_all (sidx s) (with_heights chunk (Z.of_nat (length (bfile s))))).
  { unfold s1. rewrite b_write_ne by now apply with_heights_ne. reflexivity. }
  assert (Ht1 : ftip s1 = ftip s).
  { unfold s1. rewrite b_write_ne by now apply with_heights_ne. reflexivity. }
  assert (Hlc : (0 < length chunk)%nat) by (destruct chunk; [congruence | cbn; lia]).
  assert (Hlb : (0 < length (bfile s))%nat) by (destruct (bfile s); [congruence | cbn; lia]).
  clearbody s1. unfold b_rollback.
  destruct (Z.of_nat (length chunk) <=? 0) eqn:E0; [lia|].
  rewrite V6b. rewrite (V5 _ _ V6a).
  rewrite Hb1, app_length.
  destruct (Z.of_nat (length chunk) >? Z.of_nat (length (bfile s) + length chunk) - 1) eqn:E1; [lia|].
  destruct (Z.of_nat (length (bfile s) + length chunk) - 1 >=? Z.of_nat (length (bfile s) + length chunk)) eqn:E2; [lia|].
  replace (Z.of_nat (length (bfile s) + length chunk) - 1 - Z.of_nat (length chunk))
    with (Z.of_nat (length (bfile s)) - 1) by lia.
  rewrite nthZ_app_l by lia. rewrite W6a.
  eexists. split; [reflexivity|].
  replace (Z.to_nat (Z.of_nat (length (bfile s) + length chunk) - Z.of_nat (length chunk)))
    with (length (bfile s)) by lia.
  replace (Z.to_nat (Z.of_nat (length (bfile s)) - 1 + 1)) with (length (bfile s)) by lia.
  rewrite Nat2Z.id.
  rewrite firstn_app_exact, skipn_app_exact, firstn_all.
  cbn [bfile ffile]. split; [reflexivity|]. split; [assumption|].
  constructor; cbn [bfile ffile sidx btip ftip]; try assumption.
  all: try (rewrite ?Hf1; assumption).
  - intros h x Hn. fold (del_all (sidx s1) chunk).
    assert (Hx : In x (bfile s)).
    { apply nthZ_some in Hn. destruct Hn as [_ Hn]. now apply nth_error_In in Hn. }
    rewrite del_all_other.
    + rewrite Hi1. rewrite put_all_other; [now apply W5|].
      intros [y k] He. cbn [fst]. apply with_heights_in in He.
      now apply (nodup_app_notin (bfile s) chunk x y Hnd).
    + intros y Hy. now apply (nodup_app_notin (bfile s) chunk x y Hnd).
  - split; [assumption | reflexivity].
  - exists xf. rewrite Hf1, Ht1. now split.
Qed.

(* ------------------------------------------------------------------ *)
(* set_last_blk *)

Lemma set_last_blk_length l k : length (set_last_blk l k) = length l.
Proof. induction l as [|x r IH]; [reflexivity|]. destruct r; [reflexivity|]. cbn [set_last_blk length] in *. now rewrite IH. Qed.
Lemma set_last_blk_hash l k : map fe_hash (set_last_blk l k) = map fe_hash l.
Proof. induction l as [|x r IH]; [reflexivity|]. destruct r; [reflexivity|]. cbn [set_last_blk map] in *. now rewrite IH. Qed.
Lemma set_last_blk_last l k d : l <> [] -> fe_blk (lastd (set_last_blk l k) d) = k.
Proof.
  induction l as [|x r IH]; [congruence|]. intros _. destruct r as [|y r']; [reflexivity|].
  change (set_last_blk (x :: y :: r') k) with (x :: set_last_blk (y :: r') k).
  rewrite lastd_cons; [apply IH; congruence|].
  destruct r'; discriminate.
Qed.

Lemma skipn_skipn' {A} (l : list A) : forall a c, skipn a (skipn c l) = skipn (c + a) l.
Proof.
  intros a c. revert l. induction c as [|c IH]; intros l; [reflexivity|].
  destruct l; [now rewrite !skipn_nil | apply IH].
Qed.

Lemma skipn_split {A} (l : list A) i c : skipn i l = firstn c (skipn i l) ++ skipn (i + c) l.
Proof. rewrite <- (firstn_skipn c (skipn i l)) at 1. f_equal. apply skipn_skipn'. Qed.

(* writeHeadersToTargetStores: the possible outcomes *)
Lemma write_both_cases fl c s bb fb r s' c' :
  bb <> [] -> fb <> [] -> write_both fl c s bb fb = (r, s', c') ->
  (r = Failure /\ s' = s) \/
  (r = Failure /\ s' = b_write s bb /\ fl_rb fl = true) \/
  (r = Failure /\ b_rollback (b_write s bb) (Z.of_nat (length bb)) = Some s') \/
  (r = Failure /\ b_rollback (b_write s bb) (Z.of_nat (length bb)) = None) \/
  (r = Success /\ s' = f_write (b_write s bb) fb).
Proof.
  intros Hb Hf. unfold write_both.
  assert (Eb : Nat.eqb (length bb) 0 = false) by (destruct bb; [congruence | reflexivity]).
  assert (Ef : Nat.eqb (length fb) 0 = false) by (destruct fb; [congruence | reflexivity]).
  rewrite Eb, Ef. cbn [negb andb].
  destruct (c_bw c + 1 =? fl_bw fl); [intros Hw; inversion Hw; now left|].
  destruct (c_fw c + 1 =? fl_fw fl).
  - destruct (fl_rb fl) eqn:Erb; [intros Hw; inversion Hw; right; left; auto|].
    destruct (b_rollback (b_write s bb) (Z.of_nat (length bb))) eqn:Er; intros Hw; inversion Hw; subst.
    + right; right; left; auto.
    + right; right; right; left; auto.
  - intros Hw; inversion Hw. right; right; right; right; auto.
Qed.

(* ------------------------------------------------------------------ *)
(* The batch loop in block-and-filter mode *)

Section Loop.
  Variables (b : bsource) (f : fsource) (fl : faults) (B : Z).
  Variables (ob : list hdr) (ofl : list Z).
  Variables (st len en n0 : Z).
  Hypothesis Est : st = hz (b_start b).
  Hypothesis Elen : len = Z.of_nat (length (bs_hdrs b)).
  Hypothesis Een : en = st + len - 1.
  Hypothesis En0 : n0 = Z.of_nat (length ob).
  Hypothesis HB : 1 <= B.
  Hypothesis Hst : 0 <= st.
  Hypothesis Hlen : length (fs_hdrs f) = length (bs_hdrs b).
  Hypothesis Hfst : hz (m_start (fs_meta f)) = st.
  Hypothesis Hn0 : st <= n0.
  Hypothesis Hof : length ofl = length ob.
  Hypothesis Hnd : NoDup (map hid (ob ++ skipn (Z.to_nat (n0 - st)) (bs_hdrs b))).

  Definition Inv (s : stores) (h : Z) : Prop :=
    stores_wf s /\ Z.of_nat (length (bfile s)) = h /\ Z.of_nat (length (ffile s)) = h /\
    n0 <= h <= en + 1 /\
    bfile s ++ skipn (Z.to_nat (h - st)) (bs_hdrs b) = ob ++ skipn (Z.to_nat (n0 - st)) (bs_hdrs b) /\
    ffile s ++ skipn (Z.to_nat (h - st)) (fs_hdrs f) = ofl ++ skipn (Z.to_nat (n0 - st)) (fs_hdrs f).

  Definition Post (s : stores) : Prop :=
    stores_wf s /\
    (exists r, bfile s ++ r = ob ++ skipn (Z.to_nat (n0 - st)) (bs_hdrs b)) /\
    (exists r, ffile s ++ r = ofl ++ skipn (Z.to_nat (n0 - st)) (fs_hdrs f)) /\
    (length ob <= length (bfile s))%nat /\ (length ofl <= length (ffile s))%nat /\
    (length (ffile s) <= length (bfile s))%nat /\
    (fl_rb fl = false -> length (bfile s) = length (ffile s)).

  Lemma Inv_Post s h : Inv s h -> Post s.
  Proof.
    intros (Hwf & Hb & Hf & Hh & Eb & Ef). unfold Post.
    split; [assumption|]. split; [eexists; exact Eb|]. split; [eexists; exact Ef|].
    repeat split; lia.
  Qed.

  Lemma step_ok fl' c s h res s' c' :
    fl' = fl -> Inv s h ->
    process_batch fl' c s b f (Ht h) (ix_of_height (Ht h) (b_start b)) (Ix (len - 1)) B ABoth = (res, s', c') ->
    (h > en /\ res = B_eof /\ s' = s) \/
    (h <= en /\ res = B_fail /\ Post s') \/
    (h <= en /\ exists h', res = B_done (Ht (h' - 1)) /\ h < h' /\ Inv s' h').
  Proof.
    intros -> HI Hp. destruct HI as (Hwf & Hb & Hf & Hh & Eb & Ef).
    unfold process_batch, ix_of_height in Hp. cbn [hz] in Hp. rewrite <- Est in Hp.
    unfold b_count in Hp. rewrite <- Elen in Hp.
    destruct (Z_gt_dec h en) as [Hgt|Hle].
    { rewrite read_batch_eof in Hp by lia. inversion Hp. left. auto. }
    right.
    set (k := Z.to_nat (cnt len (h - st) B)) in *.
    assert (Hk : (1 <= k)%nat /\ h - st + Z.of_nat k <= len) by (unfold k, cnt; lia).
    set (cb := firstn k (skipn (Z.to_nat (h - st)) (bs_hdrs b))) in *.
    set (cf := firstn k (skipn (Z.to_nat (h - st)) (fs_hdrs f))) in *.
    assert (Lcb : length cb = k) by (unfold cb; rewrite firstn_length, skipn_length; lia).
    assert (Lcf : length cf = k) by (unfold cf; rewrite firstn_length, skipn_length; lia).
    assert (Ncb : cb <> []) by (destruct cb; [cbn in Lcb; lia | discriminate]).
    assert (Ncf : cf <> []) by (destruct cf; [cbn in Lcf; lia | discriminate]).
    rewrite (read_batch_ok (bs_get b) len (h - st) B (with_heights cb h)) in Hp;
      [| lia | lia | | now rewrite with_heights_length].
    2:{ fold k. rewrite read_range_b by lia. fold cb. rewrite <- Est. f_equal. f_equal. lia. }
    rewrite (read_batch_ok (fs_get f) len (h - st) B (fents cf h)) in Hp;
      [| lia | lia | | now rewrite fents_length].
    2:{ fold k. rewrite read_range_f by lia. fold cf. rewrite Hfst. f_equal. f_equal. lia. }
    rewrite with_heights_length, fents_length, Lcb, Lcf, Nat.eqb_refl in Hp.
    set (bb := with_heights cb h) in *.
    set (fb := set_last_blk (fents cf h) (hid (fst (lastd bb (H 0 0 0 0 0, 0))))) in *.
    assert (Nbb : bb <> []) by (now apply with_heights_ne).
    assert (Nfb : fb <> []).
    { intro E. apply (f_equal (@length _)) in E. unfold fb in E.
      rewrite set_last_blk_length, fents_length in E. cbn in E. lia. }
    assert (Hsplit_b : skipn (Z.to_nat (h - st)) (bs_hdrs b) = cb ++ skipn (Z.to_nat (h + Z.of_nat k - st)) (bs_hdrs b)).
    { rewrite (skipn_split _ _ k). fold cb. f_equal. f_equal. lia. }
    assert (Hsplit_f : skipn (Z.to_nat (h - st)) (fs_hdrs f) = cf ++ skipn (Z.to_nat (h + Z.of_nat k - st)) (fs_hdrs f)).
    { rewrite (skipn_split _ _ k). fold cf. f_equal. f_equal. lia. }
    assert (Hnd' : NoDup (map hid (bfile s ++ cb))).
    { rewrite <- Eb, Hsplit_b, app_assoc, map_app in Hnd. now apply NoDup_app_l in Hnd. }
    pose proof (wf_bwrite s cb Hwf Ncb Hnd') as Hwf1. rewrite Hb in Hwf1. fold bb in Hwf1.
    assert (Hb1 : bfile (b_write s bb) = bfile s ++ cb).
    { rewrite b_write_ne by assumption. cbn [bfile]. unfold bb. now rewrite with_heights_fst. }
    assert (Hf1 : ffile (b_write s bb) = ffile s).
    { rewrite b_write_ne by assumption. reflexivity. }
    assert (HP1 : Post (b_write s bb) \/ True) by now right.
    destruct (write_both fl c s bb fb) as [[r s1] c1] eqn:Ew.
    apply write_both_cases in Ew; [|assumption|assumption].
    assert (HPs : Post s) by (apply (Inv_Post s h); split; [assumption|]; repeat split; assumption || lia).
    destruct Ew as [[-> ->]|[(-> & -> & Erb)|[[-> Er]|[[-> Er]|[-> ->]]]]].
    - inversion Hp; subst res s' c'. left. auto.
    - inversion Hp; subst res s' c'. left. split; [lia|]. split; [reflexivity|]. unfold Post.
      split; [exact Hwf1|].
      split. { rewrite Hb1. exists (skipn (Z.to_nat (h + Z.of_nat k - st)) (bs_hdrs b)).
               rewrite <- app_assoc, <- Hsplit_b. exact Eb. }
      split. { rewrite Hf1. eexists. exact Ef. }
      rewrite Hb1, Hf1, app_length. repeat split; try lia; congruence.
    - inversion Hp; subst res s' c'. left. split; [lia|]. split; [reflexivity|].
      destruct (rollback_bwrite s cb Hwf Ncb Hnd') as (s2 & Hr2 & Hb2 & Hf2 & Hwf2).
      rewrite Hb in Hr2. fold bb in Hr2. unfold bb in Er. rewrite with_heights_length in Er. fold bb in Er.
      rewrite Er in Hr2. inversion Hr2; subst s2.
      unfold Post. split; [exact Hwf2|]. rewrite Hb2, Hf2. destruct HPs as [_ HPs]. exact HPs.
    - exfalso.
      destruct (rollback_bwrite s cb Hwf Ncb Hnd') as (s2 & Hr2 & _).
      rewrite Hb in Hr2. fold bb in Hr2. unfold bb in Er. rewrite with_heights_length in Er. fold bb in Er.
      congruence.
    - inversion Hp; subst res s' c'. right. split; [lia|].
      exists (h + Z.of_nat k). split; [f_equal; f_equal; lia|]. split; [lia|].
      assert (Hb2 : bfile (f_write (b_write s bb) fb) = bfile s ++ cb).
      { rewrite f_write_ne by assumption. cbn [bfile]. exact Hb1. }
      assert (Hf2 : ffile (f_write (b_write s bb) fb) = ffile s ++ cf).
      { rewrite f_write_ne by assumption. cbn [ffile]. rewrite Hf1. unfold fb.
        now rewrite set_last_blk_hash, fents_hash. }
      unfold Inv. split.
      { apply wf_fwrite; [assumption | assumption | |].
        * rewrite Hf1, Hb1, app_length. unfold fb. rewrite set_last_blk_length, fents_length. lia.
        * unfold fb. rewrite set_last_blk_last by (intro E; apply (f_equal (@length _)) in E; rewrite fents_length in E; cbn in E; lia).
          rewrite Hb1, (lastd_app _ _ d0) by assumption.
          change (H 0 0 0 0 0, 0) with (d0, 0). change d0 with (fst (d0, 0)) at 2.
          rewrite <- lastd_map. unfold bb. now rewrite with_heights_fst. }
      split. { rewrite Hb2, app_length. lia. }
      split. { rewrite Hf2, app_length. lia. }
      split. { lia. }
      split. { rewrite Hb2, <- app_assoc, <- Hsplit_b. exact Eb. }
      rewrite Hf2, <- app_assoc, <- Hsplit_f. exact Ef.
  Qed.

  Lemma loop_ok : forall fuel c s h r s' c',
    Inv s h -> Z.of_nat fuel > en + 1 - h ->
    append_loop fuel fl c s b f (Ht h) (Ix (len - 1)) B ABoth = (r, s', c') ->
    Post s' /\ (r = Success -> Inv s' (en + 1)).
  Proof.
    induction fuel as [|k IH]; intros c s h r s' c' HI Hfuel Hl.
    { destruct HI as (_ & _ & _ & Hh & _). lia. }
    cbn [append_loop] in Hl.
    destruct (process_batch fl c s b f (Ht h) (ix_of_height (Ht h) (b_start b)) (Ix (len - 1)) B ABoth)
      as [[res s1] c1] eqn:Ep.
    apply (step_ok fl c s h res s1 c1 eq_refl HI) in Ep.
    destruct Ep as [(Hgt & -> & ->)|[(Hle & -> & HP)|(Hle & h' & -> & Hlt & HI')]].
    - inversion Hl; subst r s' c'. split; [now apply (Inv_Post s h)|]. intros _.
      assert (h = en + 1) by (destruct HI as (_ & _ & _ & Hh & _); lia). now subst h.
    - inversion Hl; subst r s' c'. split; [assumption | discriminate].
    - replace (h' - 1 + 1) with h' in Hl by lia.
      apply (IH c1 s1 h' r s' c' HI'); [lia | assumption].
  Qed.
End Loop.

(* ------------------------------------------------------------------ *)
(* Import over stores at equal heights *)

Lemma wf_tips s : stores_wf s ->
  b_chaintip s = Some (lastd (bfile s) d0, Ht (Z.of_nat (length (bfile s)) - 1)) /\
  exists y, f_chaintip s = Some (y, Ht (Z.of_nat (length (ffile s)) - 1)).
Proof.
  intros [W1 W2 W3 W4 W5 [W6a W6b] [xf [W7a W7b]]]. split.
  - unfold b_chaintip. rewrite W6b, (W5 _ _ W6a), W6a. reflexivity.
  - unfold f_chaintip. rewrite W7b, (W5 _ _ W7a).
    destruct (nthZ_is_some (ffile s) (Z.of_nat (length (ffile s)) - 1)) as [y Hy].
    { destruct (ffile s); [congruence | cbn [length]; lia]. }
    rewrite Hy. now exists y.
Qed.

Lemma extend_prefix {A} (old : list A) st file : exists rest, old ++ rest = extend old st file.
Proof.
  unfold extend.
  destruct ((Z.of_nat (length old) - st <? 0) || (Z.of_nat (length old) - st >? Z.of_nat (length file))).
  - exists []. now rewrite app_nil_r.
  - eexists. reflexivity.
Qed.

Lemma extend_full {A} (old : list A) st file :
  st <= Z.of_nat (length old) -> st + Z.of_nat (length file) - 1 < Z.of_nat (length old) ->
  extend old st file = old.
Proof.
  intros H1 H2. unfold extend.
  destruct ((Z.of_nat (length old) - st <? 0) || (Z.of_nat (length old) - st >? Z.of_nat (length file))) eqn:E;
    [reflexivity|].
  rewrite skipn_all2 by lia. now rewrite app_nil_r.
Qed.

Lemma extend_app {A} (old : list A) st file :
  st <= Z.of_nat (length old) <= st + Z.of_nat (length file) ->
  extend old st file = old ++ skipn (Z.to_nat (Z.of_nat (length old) - st)) file.
Proof.
  intros H1. unfold extend.
  destruct ((Z.of_nat (length old) - st <? 0) || (Z.of_nat (length old) - st >? Z.of_nat (length file))) eqn:E;
    [lia | reflexivity].
Qed.

Definition contents_post (fl : faults) (s s' : stores) (st : Z) (hdrs : list hdr) (fh : list Z) : Prop :=
  (exists rest, bfile s' ++ rest = extend (bfile s) st hdrs) /\
  (exists rest, ffile s' ++ rest = extend (ffile s) st fh) /\
  (length (bfile s) <= length (bfile s'))%nat /\ (length (ffile s) <= length (ffile s'))%nat /\
  (fl_rb fl = false -> length (bfile s') = length (ffile s')).

Lemma import_equal_heights P s b f bs fl r s' :
  stores_wf s -> length (bfile s) = length (ffile s) -> 0 <= hz (b_start b) ->
  NoDup (map hid (extend (bfile s) (hz (b_start b)) (bs_hdrs b))) ->
  import P s b f bs fl = (r, s') ->
  stores_wf s' /\ (length (ffile s') <= length (bfile s'))%nat /\
  contents_post fl s s' (hz (b_start b)) (bs_hdrs b) (fs_hdrs f) /\
  (r = Success ->
     bfile s' = extend (bfile s) (hz (b_start b)) (bs_hdrs b) /\
     ffile s' = extend (ffile s) (hz (b_start b)) (fs_hdrs f) /\
     hz (b_end b) < Z.of_nat (length (bfile s')) /\ length (bfile s') = length (ffile s')).
Proof.
  intros Hwf Heq Hst Hnd Him.
  pose proof (wf_tips s Hwf) as [Hbt [y Hft]].
  assert (Hsame : stores_wf s /\ (length (ffile s) <= length (bfile s))%nat /\
                  contents_post fl s s (hz (b_start b)) (bs_hdrs b) (fs_hdrs f)).
  { split; [assumption|]. split; [lia|]. unfold contents_post.
    split; [apply extend_prefix|]. split; [apply extend_prefix|]. repeat split; auto. }
  assert (Hfail : stores_wf s /\ (length (ffile s) <= length (bfile s))%nat /\
                  contents_post fl s s (hz (b_start b)) (bs_hdrs b) (fs_hdrs f) /\
                  (Failure = Success ->
                   bfile s = extend (bfile s) (hz (b_start b)) (bs_hdrs b) /\
                   ffile s = extend (ffile s) (hz (b_start b)) (fs_hdrs f) /\
                   hz (b_end b) < Z.of_nat (length (bfile s)) /\ length (bfile s) = length (ffile s))).
  { destruct Hsame as (A & B0 & C). split; [assumption|]. split; [assumption|]. split; [assumption|]. discriminate. }
  unfold import in Him.
  destruct (open_ok (bs_meta b) (length (bs_hdrs b)) && open_ok (fs_meta f) (length (fs_hdrs f))) eqn:Eo;
    cbn [negb] in Him; [|inversion Him; subst r s'; exact Hfail].
  destruct (compat P b f) eqn:Ec;
    cbn [negb] in Him; [|inversion Him; subst r s'; exact Hfail].
  destruct (continuity s b f) eqn:Ek;
    cbn [negb] in Him; [|inversion Him; subst r s'; exact Hfail].
  destruct (validate_blocks P s b (eff_batch bs));
    cbn [negb] in Him; [|inversion Him; subst r s'; exact Hfail].
  destruct (validate_filters P f);
    cbn [negb] in Him; [|inversion Him; subst r s'; exact Hfail].
  (* facts from the checks *)
  unfold open_ok in Eo. unfold compat in Ec.
  assert (Hne : (0 < length (bs_hdrs b))%nat) by (destruct (length (bs_hdrs b)); cbn in Eo; lia).
  assert (Hlen : length (fs_hdrs f) = length (bs_hdrs b)).
  { apply Nat.eqb_eq. lia. }
  assert (Hfst : hz (m_start (fs_meta f)) = hz (b_start b)) by (unfold b_start; lia).
  set (n := Z.of_nat (length (bfile s))) in *.
  assert (Hnf : Z.of_nat (length (ffile s)) = n) by (unfold n; lia).
  assert (Hn1 : 1 <= n) by (destruct Hwf as [W1 _ _ _ _ _ _]; unfold n; destruct (bfile s); [congruence | cbn [length]; lia]).
  assert (Hstn : hz (b_start b) <= n).
  { unfold continuity in Ek. rewrite Hbt, Hft, Hnf in Ek.
    destruct (hz (b_start b) >? Z.min (n - 1) (n - 1) + 1) eqn:E; [discriminate | lia]. }
  unfold regions in Him. rewrite Hbt, Hft, Hnf in Him.
  replace (negb (n - 1 =? n - 1)) with false in Him by (rewrite Z.eqb_refl; reflexivity).
  replace (n - 1 >? n - 1) with false in Him by lia.
  replace (n - 1 <? n - 1) with false in Him by lia.
  cbn [andb r_exists r_start r_end r_a r_v] in Him.
  replace (Z.max (n - 1) (n - 1) + 1) with n in Him by lia.
  unfold b_end, b_count in *. cbn [hz] in *.
  set (st := hz (b_start b)) in *. set (len := Z.of_nat (length (bs_hdrs b))) in *.
  destruct (n <=? st + len - 1) eqn:Ereg.
  - (* new headers region exists *)
    unfold append_region in Him. unfold ix_of_height in Him. cbn [hz] in Him. fold st in Him.
    replace (st + len - 1 - st) with (len - 1) in Him by lia.
    destruct (append_loop (S (length (bs_hdrs b))) fl (mkC 0 0) s b f (Ht n) (Ix (len - 1)) (eff_batch bs) ABoth)
      as [[r2 s2] c2] eqn:El.
    inversion Him; subst r2 s2.
    assert (HB : 1 <= eff_batch bs) by (unfold eff_batch; destruct (bs <=? 0) eqn:E; lia).
    assert (Hext_b : extend (bfile s) st (bs_hdrs b) = bfile s ++ skipn (Z.to_nat (n - st)) (bs_hdrs b)).
    { apply extend_app. fold n. fold len. lia. }
    assert (Hext_f : extend (ffile s) st (fs_hdrs f) = ffile s ++ skipn (Z.to_nat (n - st)) (fs_hdrs f)).
    { rewrite extend_app; [rewrite Hnf; reflexivity|]. rewrite Hnf, Hlen. fold len. lia. }
    rewrite Hext_b in Hnd.
    assert (HI0 : Inv b f (bfile s) (ffile s) st (st + len - 1) n s n).
    { unfold Inv. split; [assumption|]. repeat split; try reflexivity; try assumption; lia. }
    assert (Hfuel : Z.of_nat (S (length (bs_hdrs b))) > st + len - 1 + 1 - n) by (unfold len; lia).
    destruct (loop_ok b f fl (eff_batch bs) (bfile s) (ffile s) st len (st + len - 1) n
                eq_refl eq_refl eq_refl eq_refl HB Hlen Hfst Hstn (eq_sym Heq) Hnd
                (S (length (bs_hdrs b))) (mkC 0 0) s n r s' c2 HI0 Hfuel El) as [HP HS].
    destruct HP as (Q1 & Q2 & Q3 & Q4 & Q5 & Q6 & Q7).
    split; [assumption|]. split; [assumption|]. split.
    { unfold contents_post. rewrite Hext_b, Hext_f. repeat split; assumption. }
    intros ->. destruct (HS eq_refl) as (_ & I2 & I3 & _ & I5 & I6).
    rewrite Hext_b, Hext_f.
    replace (Z.to_nat (st + len - 1 + 1 - st)) with (length (bs_hdrs b)) in I5 by lia.
    replace (Z.to_nat (st + len - 1 + 1 - st)) with (length (fs_hdrs f)) in I6 by lia.
    rewrite skipn_all, app_nil_r in I5, I6.
    repeat split; try assumption; lia.
  - (* nothing above the stores' tips *)
    inversion Him; subst r s'. destruct Hsame as (A & B0 & C).
    split; [assumption|]. split; [assumption|]. split; [assumption|]. intros _.
    rewrite !extend_full by (try rewrite Hnf; try rewrite Hlen; fold n; fold len; lia).
    repeat split; try assumption; lia.
Qed.
