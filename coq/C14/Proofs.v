(* C14 — lemmas. *)
From Coq Require Import ZArith List Bool Lia Arith ZifyBool.
From Verif Require Import C14.Model C14.Spec.
Import ListNotations.
Open Scope Z_scope.

(* ------------------------------------------------------------------ *)
(* Lists, guarded access *)

Lemma nth_error_Some_lt {A} (l : list A) n x : nth_error l n = Some x -> (n < length l)%nat.
Proof. intros Hn. apply nth_error_Some. congruence. Qed.

Lemma nth_error_skipn' {A} (l : list A) n i : nth_error (skipn n l) i = nth_error l (n + i).
Proof.
  revert l. induction n as [|n IH]; intros l; [reflexivity|].
  destruct l; [destruct i; reflexivity | apply IH].
Qed.

Lemma nthZ_some {A} (l : list A) i x :
  nthZ l i = Some x <-> 0 <= i /\ nth_error l (Z.to_nat i) = Some x.
Proof.
  unfold nthZ. destruct (i <? 0) eqn:E1; cbn [orb].
  - split; [discriminate | lia].
  - destruct (i >=? Z.of_nat (length l)) eqn:E2.
    + split; [discriminate|]. intros [_ Hn].
      apply nth_error_Some_lt in Hn. lia.
    + split; [intro; split; [lia | assumption] | tauto].
Qed.

Lemma nthZ_lt {A} (l : list A) i x : nthZ l i = Some x -> 0 <= i < Z.of_nat (length l).
Proof.
  intros Hn. apply nthZ_some in Hn. destruct Hn as [H0 Hn].
  apply nth_error_Some_lt in Hn. lia.
Qed.

Lemma nthZ_none {A} (l : list A) i : i < 0 \/ Z.of_nat (length l) <= i -> nthZ l i = None.
Proof.
  intros Hi. destruct (nthZ l i) eqn:E; [|reflexivity].
  apply nthZ_lt in E. lia.
Qed.

Lemma nthZ_is_some {A} (l : list A) i : 0 <= i < Z.of_nat (length l) -> exists x, nthZ l i = Some x.
Proof.
  intros Hi. destruct (nth_error l (Z.to_nat i)) eqn:E.
  - exists a. apply nthZ_some. split; [lia | assumption].
  - apply nth_error_None in E. lia.
Qed.

Lemma nthZ_app_l {A} (l r : list A) i : i < Z.of_nat (length l) -> nthZ (l ++ r) i = nthZ l i.
Proof.
  intros Hi. destruct (Z_lt_dec i 0) as [Hn|Hn].
  - rewrite !nthZ_none by lia. reflexivity.
  - destruct (nthZ_is_some l i) as [x Hx]; [lia|]. rewrite Hx.
    apply nthZ_some. apply nthZ_some in Hx. destruct Hx as [H0 Hx]. split; [lia|].
    rewrite nth_error_app1; [assumption | lia].
Qed.

Lemma nthZ_app_r {A} (l r : list A) i :
  Z.of_nat (length l) <= i -> nthZ (l ++ r) i = nthZ r (i - Z.of_nat (length l)).
Proof.
  intros Hi. destruct (Z_lt_dec i (Z.of_nat (length (l ++ r)))) as [Hlt|Hge].
  - rewrite app_length in Hlt.
    destruct (nthZ_is_some r (i - Z.of_nat (length l))) as [x Hx]; [lia|]. rewrite Hx.
    apply nthZ_some. apply nthZ_some in Hx. destruct Hx as [H0 Hx]. split; [lia|].
    rewrite nth_error_app2 by lia.
    replace (Z.to_nat i - length l)%nat with (Z.to_nat (i - Z.of_nat (length l))) by lia. assumption.
  - rewrite app_length in Hge. rewrite !nthZ_none by (try rewrite app_length; lia). reflexivity.
Qed.

Lemma nthZ_skipn {A} (l : list A) k i :
  0 <= k -> 0 <= i -> nthZ (skipn (Z.to_nat k) l) i = nthZ l (k + i).
Proof.
  intros Hk Hi.
  destruct (Z_lt_dec (k + i) (Z.of_nat (length l))) as [Hlt|Hge].
  - destruct (nthZ_is_some l (k + i)) as [x Hx]; [lia|]. rewrite Hx.
    apply nthZ_some. apply nthZ_some in Hx. destruct Hx as [_ Hx]. split; [lia|].
    rewrite nth_error_skipn'. replace (Z.to_nat k + Z.to_nat i)%nat with (Z.to_nat (k + i)) by lia. assumption.
  - rewrite (nthZ_none l) by lia. apply nthZ_none. rewrite skipn_length. lia.
Qed.

Lemma nthZ_last {A} (l : list A) d : l <> [] -> nthZ l (Z.of_nat (length l) - 1) = Some (lastd l d).
Proof.
  induction l as [|x r IH]; [congruence|]. intros _.
  destruct r as [|y r'].
  - reflexivity.
  - change (lastd (x :: y :: r') d) with (lastd (y :: r') d).
    rewrite <- IH by congruence.
    change (x :: y :: r') with ([x] ++ (y :: r')).
    rewrite nthZ_app_r by (cbn [length app]; lia). f_equal. cbn [length app]. lia.
Qed.

Lemma lastd_cons {A} (x : A) l d : l <> [] -> lastd (x :: l) d = lastd l d.
Proof. destruct l; [congruence | reflexivity]. Qed.

Lemma lastd_app {A} (l r : list A) d : r <> [] -> lastd (l ++ r) d = lastd r d.
Proof.
  intros Hr. induction l as [|x l IH]; [reflexivity|].
  cbn [app]. rewrite lastd_cons; [exact IH|].
  destruct l; cbn [app]; [assumption | discriminate].
Qed.

Lemma lastd_map {A B} (g : A -> B) (l : list A) d : lastd (map g l) (g d) = g (lastd l d).
Proof.
  induction l as [|x r IH]; [reflexivity|]. destruct r; [reflexivity|].
  change (lastd (map g (x :: a :: r)) (g d)) with (lastd (map g (a :: r)) (g d)). exact IH.
Qed.

Lemma idx_get_del m k k' : idx_get (idx_del m k') k = if k' =? k then None else idx_get m k.
Proof.
  induction m as [|[a v] m IH]; cbn [idx_del filter idx_get fst].
  - destruct (k' =? k); reflexivity.
  - destruct (a =? k') eqn:E1; cbn [negb].
    + fold (idx_del m k'). rewrite IH. apply Z.eqb_eq in E1. subst a.
      destruct (k' =? k); reflexivity.
    + cbn [idx_get]. fold (idx_del m k'). rewrite IH.
      destruct (a =? k) eqn:E2; [|reflexivity].
      apply Z.eqb_eq in E2. subst a. rewrite Z.eqb_sym in E1. rewrite E1. reflexivity.
Qed.

(* ------------------------------------------------------------------ *)
(* Entries, reading batches *)

Fixpoint fents (l : list Z) (h : Z) : list fent :=
  match l with [] => [] | x :: r => FE x h 0 :: fents r (h + 1) end.

Lemma with_heights_fst l h : map fst (with_heights l h) = l.
Proof. revert h. induction l as [|x r IH]; intros h; cbn; [reflexivity | now rewrite IH]. Qed.
Lemma with_heights_length l h : length (with_heights l h) = length l.
Proof. rewrite <- (with_heights_fst l h) at 2. now rewrite map_length. Qed.
Lemma fents_hash l h : map fe_hash (fents l h) = l.
Proof. revert h. induction l as [|x r IH]; intros h; cbn; [reflexivity | now rewrite IH]. Qed.
Lemma fents_length l h : length (fents l h) = length l.
Proof. rewrite <- (fents_hash l h) at 2. now rewrite map_length. Qed.

Lemma with_heights_nth l : forall h i x, nth_error l i = Some x ->
  nth_error (with_heights l h) i = Some (x, h + Z.of_nat i).
Proof.
  induction l as [|y r IH]; intros h i x Hn; [destruct i; discriminate|].
  destruct i as [|i]; cbn in *.
  - inversion Hn. f_equal. f_equal. lia.
  - rewrite (IH (h + 1) i x Hn). f_equal. f_equal. lia.
Qed.

Lemma with_heights_in l h x k : In (x, k) (with_heights l h) -> In x l.
Proof. intros Hi. rewrite <- (with_heights_fst l h). now apply (in_map fst) in Hi. Qed.

Lemma skipn_nth {A} (l : list A) : forall k x, nth_error l k = Some x -> skipn k l = x :: skipn (S k) l.
Proof.
  induction l as [|y r IH]; intros k x Hn; [destruct k; discriminate|].
  destruct k as [|k]; cbn in *; [now inversion Hn | now apply IH].
Qed.

Lemma read_range_b (b : bsource) : forall n i, 0 <= i -> i + Z.of_nat n <= Z.of_nat (length (bs_hdrs b)) ->
  read_range (bs_get b) n i =
  Some (with_heights (firstn n (skipn (Z.to_nat i) (bs_hdrs b))) (i + hz (b_start b))).
Proof.
  induction n as [|n IH]; intros i Hi Hle; [reflexivity|].
  cbn [read_range]. unfold bs_get at 1. cbn [iz].
  destruct (nthZ_is_some (bs_hdrs b) i) as [x Hx]; [lia|]. rewrite Hx.
  rewrite IH by lia. apply nthZ_some in Hx. destruct Hx as [_ Hx].
  rewrite (skipn_nth _ _ _ Hx). cbn [firstn with_heights height_of_ix hz iz].
  replace (Z.to_nat (i + 1)) with (S (Z.to_nat i)) by lia.
  replace (i + 1 + hz (b_start b)) with (i + hz (b_start b) + 1) by lia. reflexivity.
Qed.

Lemma read_range_f (f : fsource) : forall n i, 0 <= i -> i + Z.of_nat n <= Z.of_nat (length (fs_hdrs f)) ->
  read_range (fs_get f) n i =
  Some (fents (firstn n (skipn (Z.to_nat i) (fs_hdrs f))) (i + hz (m_start (fs_meta f)))).
Proof.
  induction n as [|n IH]; intros i Hi Hle; [reflexivity|].
  cbn [read_range]. unfold fs_get at 1. cbn [iz].
  destruct (nthZ_is_some (fs_hdrs f) i) as [x Hx]; [lia|]. rewrite Hx.
  rewrite IH by lia. apply nthZ_some in Hx. destruct Hx as [_ Hx].
  rewrite (skipn_nth _ _ _ Hx). cbn [firstn fents height_of_ix hz iz].
  replace (Z.to_nat (i + 1)) with (S (Z.to_nat i)) by lia.
  replace (i + 1 + hz (m_start (fs_meta f))) with (i + hz (m_start (fs_meta f)) + 1) by lia. reflexivity.
Qed.

(* number of headers in the batch starting at source index i *)
Definition cnt (len i B : Z) : Z := Z.min (len - 1) (i + B - 1) - i + 1.

Lemma read_batch_eof {A} (get : index -> option A) avail i e B :
  1 <= B -> i > e -> read_batch get avail (Ix i) (Ix e) B = RB_eof.
Proof.
  intros HB Hi. unfold read_batch. cbn [iz].
  destruct (i >? Z.min e (i + B - 1)) eqn:E; [reflexivity | lia].
Qed.

Lemma read_batch_ok {A} (get : index -> option A) len i B (l : list A) :
  1 <= B -> 0 <= i <= len - 1 ->
  read_range get (Z.to_nat (cnt len i B)) i = Some l -> length l = Z.to_nat (cnt len i B) ->
  read_batch get len (Ix i) (Ix (len - 1)) B = RB_ok l.
Proof.
  intros HB Hi Hr Hl. unfold read_batch. cbn [iz].
  destruct (i >? Z.min (len - 1) (i + B - 1)) eqn:E; [lia|].
  replace (Z.min (Z.min (len - 1) (i + B - 1) - i + 1) (len + 1)) with (cnt len i B) by (unfold cnt; lia).
  rewrite Hr. destruct l; [|reflexivity]. unfold cnt in Hl. cbn in Hl. lia.
Qed.

(* ------------------------------------------------------------------ *)
(* Index updates *)

Definition put_all (m : list (Z * Z)) (es : list bent) : list (Z * Z) :=
  fold_left (fun m e => (hid (fst e), snd e) :: m) es m.

Lemma put_all_other es : forall m k, (forall e, In e es -> hid (fst e) <> k) ->
  idx_get (put_all m es) k = idx_get m k.
Proof.
  induction es as [|e r IH]; intros m k Hk; [reflexivity|].
  cbn [put_all fold_left]. fold (put_all ((hid (fst e), snd e) :: m) r).
  rewrite IH by (intros e' He'; apply Hk; now right).
  cbn [idx_get]. destruct (hid (fst e) =? k) eqn:E; [|reflexivity].
  apply Z.eqb_eq in E. exfalso. apply (Hk e); [now left | assumption].
Qed.

Lemma put_all_in es : forall m x h, NoDup (map (fun e => hid (fst e)) es) -> In (x, h) es ->
  idx_get (put_all m es) (hid x) = Some h.
Proof.
  induction es as [|e r IH]; intros m x h Hnd Hin; [contradiction|].
  cbn [put_all fold_left]. fold (put_all ((hid (fst e), snd e) :: m) r).
  inversion Hnd as [|? ? Hni Hnd']; subst.
  destruct Hin as [He|Hin].
  - subst e. cbn [fst snd] in *. rewrite put_all_other.
    + cbn [idx_get]. now rewrite Z.eqb_refl.
    + intros e' He' Heq. apply Hni. rewrite <- Heq. now apply (in_map (fun e => hid (fst e))) in He'.
  - now apply IH.
Qed.

Definition del_all (m : list (Z * Z)) (l : list hdr) : list (Z * Z) :=
  fold_left (fun m x => idx_del m (hid x)) l m.

Lemma del_all_other l : forall m k, (forall y, In y l -> hid y <> k) ->
  idx_get (del_all m l) k = idx_get m k.
Proof.
  induction l as [|y r IH]; intros m k Hk; [reflexivity|].
  cbn [del_all fold_left]. fold (del_all (idx_del m (hid y)) r).
  rewrite IH by (intros y' Hy'; apply Hk; now right).
  rewrite idx_get_del. destruct (hid y =? k) eqn:E; [|reflexivity].
  apply Z.eqb_eq in E. exfalso. apply (Hk y); [now left | assumption].
Qed.

Lemma tip_of_last l : forall h bh bk d, l <> [] -> bh <= h ->
  tip_of (with_heights l h) bh bk = hid (lastd l d).
Proof.
  induction l as [|x r IH]; intros h bh bk d Hne Hle; [congruence|].
  cbn [with_heights tip_of]. destruct (h >=? bh) eqn:E; [|lia].
  destruct r as [|y r'].
  - reflexivity.
  - rewrite (IH (h + 1) h (hid x) d); [|congruence|lia]. reflexivity.
Qed.

(* ------------------------------------------------------------------ *)
(* The store invariant under WriteHeaders / RollbackBlockHeaders *)

Definition d0 : hdr := H 0 0 0 0 0.

Lemma b_write_ne s es : es <> [] ->
  b_write s es = mkS (bfile s ++ map fst es) (ffile s) (put_all (sidx s) es) (tip_of es 0 0) (ftip s).
Proof. destruct es; [congruence | reflexivity]. Qed.

Lemma f_write_ne s es : es <> [] ->
  f_write s es = mkS (bfile s) (ffile s ++ map fe_hash es) (sidx s) (btip s) (fe_blk (lastd es (FE 0 0 0))).
Proof. destruct es; [congruence | reflexivity]. Qed.

Lemma with_heights_ne l h : l <> [] -> with_heights l h <> [].
Proof. destruct l; [congruence | discriminate]. Qed.

Lemma nodup_app_notin (a c : list hdr) x y :
  NoDup (map hid (a ++ c)) -> In x a -> In y c -> hid y <> hid x.
Proof.
  rewrite map_app. revert x. induction a as [|z a IH]; intros x Hnd Hx Hy; [contradiction|].
  cbn [map app] in Hnd. inversion Hnd as [|? ? Hni Hnd']; subst.
  destruct Hx as [Hx|Hx].
  - subst z. intro Heq. apply Hni. rewrite <- Heq. apply in_or_app. right. now apply in_map.
  - now apply IH.
Qed.

Lemma NoDup_app_l {A} (a c : list A) : NoDup (a ++ c) -> NoDup a.
Proof.
  induction a as [|x a IH]; intros Hn; [constructor|].
  cbn [app] in Hn. inversion Hn as [|? ? Hni Hnd]; subst. constructor.
  - intro Hx. apply Hni. apply in_or_app. now left.
  - now apply IH.
Qed.
Lemma NoDup_app_r {A} (a c : list A) : NoDup (a ++ c) -> NoDup c.
Proof.
  induction a as [|x a IH]; intros Hn; [assumption|].
  cbn [app] in Hn. inversion Hn; subst. now apply IH.
Qed.

Lemma wf_bwrite s chunk :
  stores_wf s -> chunk <> [] -> NoDup (map hid (bfile s ++ chunk)) ->
  stores_wf (b_write s (with_heights chunk (Z.of_nat (length (bfile s))))).
Proof.
  intros Hwf Hne Hnd. destruct Hwf as [W1 W2 W3 W4 W5 [W6a W6b] [xf [W7a W7b]]].
  rewrite b_write_ne by now apply with_heights_ne. rewrite with_heights_fst.
  constructor; cbn [bfile ffile sidx btip ftip].
  - destruct (bfile s); [congruence | discriminate].
  - assumption.
  - rewrite app_length. lia.
  - assumption.
  - intros h x Hn.
    destruct (Z_lt_dec h (Z.of_nat (length (bfile s)))) as [Hlt|Hge].
    + rewrite nthZ_app_l in Hn by assumption.
      rewrite put_all_other; [now apply W5|].
      intros e He. destruct e as [y k]. cbn [fst].
      apply with_heights_in in He.
      apply (nodup_app_notin (bfile s) chunk x y Hnd); [|assumption].
      apply nthZ_some in Hn. destruct Hn as [_ Hn]. now apply nth_error_In in Hn.
    + rewrite nthZ_app_r in Hn by lia.
      apply nthZ_some in Hn. destruct Hn as [H0 Hn].
      apply put_all_in.
      * rewrite <- (map_map fst hid). rewrite with_heights_fst.
        rewrite map_app in Hnd. now apply NoDup_app_r in Hnd.
      * apply (with_heights_nth _ (Z.of_nat (length (bfile s)))) in Hn.
        apply nth_error_In in Hn.
        replace (Z.of_nat (length (bfile s)) + Z.of_nat (Z.to_nat (h - Z.of_nat (length (bfile s))))) with h in Hn by lia.
        assumption.
  - split.
    + rewrite (nthZ_last _ d0); [reflexivity|]. destruct (bfile s); [congruence | discriminate].
    + rewrite (lastd_app _ _ d0) by assumption.
      apply tip_of_last; [assumption | lia].
  - exists xf. split; [|assumption].
    rewrite nthZ_app_l; [assumption|]. lia.
Qed.

Lemma wf_fwrite s fes :
  stores_wf s -> fes <> [] ->
  (length (ffile s) + length fes = length (bfile s))%nat ->
  fe_blk (lastd fes (FE 0 0 0)) = hid (lastd (bfile s) d0) ->
  stores_wf (f_write s fes).
Proof.
  intros Hwf Hne Hlen Hblk. destruct Hwf as [W1 W2 W3 W4 W5 [W6a W6b] [xf [W7a W7b]]].
  rewrite f_write_ne by assumption.
  constructor; cbn [bfile ffile sidx btip ftip]; try assumption.
  - destruct (ffile s); [congruence | discriminate].
  - rewrite app_length, map_length. lia.
  - now split.
  - exists (lastd (bfile s) d0). split; [|assumption].
    rewrite app_length, map_length.
    replace (Z.of_nat (length (ffile s) + length fes)) with (Z.of_nat (length (bfile s))) by lia.
    now apply nthZ_last.
Qed.

Lemma firstn_app_exact {A} (a c : list A) : firstn (length a) (a ++ c) = a.
Proof. rewrite firstn_app, Nat.sub_diag, firstn_all. cbn. now rewrite app_nil_r. Qed.
Lemma skipn_app_exact {A} (a c : list A) : skipn (length a) (a ++ c) = c.
Proof. rewrite skipn_app, Nat.sub_diag, skipn_all. reflexivity. Qed.

Lemma rollback_bwrite s chunk :
  stores_wf s -> chunk <> [] -> NoDup (map hid (bfile s ++ chunk)) ->
  exists s2, b_rollback (b_write s (with_heights chunk (Z.of_nat (length (bfile s)))))
                        (Z.of_nat (length chunk)) = Some s2 /\
             bfile s2 = bfile s /\ ffile s2 = ffile s /\ stores_wf s2.
Proof.
  intros Hwf Hne Hnd.
  pose proof (wf_bwrite s chunk Hwf Hne Hnd) as Hwf1.
  destruct Hwf as [W1 W2 W3 W4 W5 [W6a W6b] [xf [W7a W7b]]].
  destruct Hwf1 as [V1 V2 V3 V4 V5 [V6a V6b] V7].
  set (s1 := b_write s (with_heights chunk (Z.of_nat (length (bfile s))))) in *.
  assert (Hb1 : bfile s1 = bfile s ++ chunk).
  { unfold s1. rewrite b_write_ne by now apply with_heights_ne. cbn [bfile]. now rewrite with_heights_fst. }
  assert (Hf1 : ffile s1 = ffile s).
  { unfold s1. rewrite b_write_ne by now apply with_heights_ne. reflexivity. }
  assert (Hi1 : sidx s1 = put_all (sidx s) (with_heights chunk (Z.of_nat (length (bfile s))))).
  { unfold s1. rewrite b_write_ne by now apply with_heights_ne. reflexivity. }
  assert (Ht1 : ftip s1 = ftip s).
  { unfold s1. rewrite b_write_ne by now apply with_heights_ne. reflexivity. }
  assert (Hlc : (0 < length chunk)%nat) by (destruct chunk; [congruence | cbn; lia]).
  assert (Hlb : (0 < length (bfile s))%nat) by (destruct (bfile s); [congruence | cbn; lia]).
  clearbody s1. unfold b_rollback.
  destruct (Z.of_nat (length chunk) <=? 0) eqn:E0; [lia|].
  rewrite V6b. rewrite (V5 _ _ V6a).
  rewrite Hb1, app_length.
  destruct (Z.of_nat (length chunk) >? Z.of_nat (length (bfile s) + length chunk) - 1) eqn:E1; [lia|].
  destruct (Z.of_nat (length (bfile s) + length chunk) - 1 >=? Z.of_nat (length (bfile s) + length chunk)) eqn:E2; [lia|].
  replace (Z.of_nat (length (bfile s) + length chunk) - 1 - Z.of_nat (length chunk))
    with (Z.of_nat (length (bfile s)) - 1) by lia.
  rewrite nthZ_app_l by lia. rewrite W6a.
  eexists. split; [reflexivity|].
  replace (Z.to_nat (Z.of_nat (length (bfile s) + length chunk) - Z.of_nat (length chunk)))
    with (length (bfile s)) by lia.
  replace (Z.to_nat (Z.of_nat (length (bfile s)) - 1 + 1)) with (length (bfile s)) by lia.
  rewrite Nat2Z.id.
  rewrite firstn_app_exact, skipn_app_exact, firstn_all.
  cbn [bfile ffile]. split; [reflexivity|]. split; [assumption|].
  constructor; cbn [bfile ffile sidx btip ftip]; try assumption.
  all: try (rewrite ?Hf1; assumption).
  - intros h x Hn. fold (del_all (sidx s1) chunk).
    assert (Hx : In x (bfile s)).
    { apply nthZ_some in Hn. destruct Hn as [_ Hn]. now apply nth_error_In in Hn. }
    rewrite del_all_other.
    + rewrite Hi1. rewrite put_all_other; [now apply W5|].
      intros [y k] He. cbn [fst]. apply with_heights_in in He.
      now apply (nodup_app_notin (bfile s) chunk x y Hnd).
    + intros y Hy. now apply (nodup_app_notin (bfile s) chunk x y Hnd).
  - split; [assumption | reflexivity].
  - exists xf. rewrite Hf1, Ht1. now split.
Qed.

(* ------------------------------------------------------------------ *)
(* set_last_blk *)

Lemma set_last_blk_length l k : length (set_last_blk l k) = length l.
Proof. induction l as [|x r IH]; [reflexivity|]. destruct r; [reflexivity|]. cbn [set_last_blk length] in *. now rewrite IH. Qed.
Lemma set_last_blk_hash l k : map fe_hash (set_last_blk l k) = map fe_hash l.
Proof. induction l as [|x r IH]; [reflexivity|]. destruct r; [reflexivity|]. cbn [set_last_blk map] in *. now rewrite IH. Qed.
Lemma set_last_blk_last l k d : l <> [] -> fe_blk (lastd (set_last_blk l k) d) = k.
Proof.
  induction l as [|x r IH]; [congruence|]. intros _. destruct r as [|y r']; [reflexivity|].
  change (set_last_blk (x :: y :: r') k) with (x :: set_last_blk (y :: r') k).
  rewrite lastd_cons; [apply IH; congruence|].
  destruct r'; discriminate.
Qed.

Lemma skipn_skipn' {A} (l : list A) : forall a c, skipn a (skipn c l) = skipn (c + a) l.
Proof.
  intros a c. revert l. induction c as [|c IH]; intros l; [reflexivity|].
  destruct l; [now rewrite !skipn_nil | apply IH].
Qed.

Lemma skipn_split {A} (l : list A) i c : skipn i l = firstn c (skipn i l) ++ skipn (i + c) l.
Proof. rewrite <- (firstn_skipn c (skipn i l)) at 1. f_equal. apply skipn_skipn'. Qed.

(* writeHeadersToTargetStores: the possible outcomes *)
Lemma write_both_cases fl c s bb fb r s' c' :
  bb <> [] -> fb <> [] -> write_both fl c s bb fb = (r, s', c') ->
  (r = Failure /\ s' = s) \/
  (r = Failure /\ s' = b_write s bb /\ fl_rb fl = true) \/
  (r = Failure /\ b_rollback (b_write s bb) (Z.of_nat (length bb)) = Some s') \/
  (r = Failure /\ b_rollback (b_write s bb) (Z.of_nat (length bb)) = None) \/
  (r = Success /\ s' = f_write (b_write s bb) fb).
Proof.
  intros Hb Hf. unfold write_both.
  assert (Eb : Nat.eqb (length bb) 0 = false) by (destruct bb; [congruence | reflexivity]).
  assert (Ef : Nat.eqb (length fb) 0 = false) by (destruct fb; [congruence | reflexivity]).
  rewrite Eb, Ef. cbn [negb andb].
  destruct (c_bw c + 1 =? fl_bw fl); [intros Hw; inversion Hw; now left|].
  destruct (c_fw c + 1 =? fl_fw fl).
  - destruct (fl_rb fl) eqn:Erb; [intros Hw; inversion Hw; right; left; auto|].
    destruct (b_rollback (b_write s bb) (Z.of_nat (length bb))) eqn:Er; intros Hw; inversion Hw; subst.
    + right; right; left; auto.
    + right; right; right; left; auto.
  - intros Hw; inversion Hw. right; right; right; right; auto.
Qed.

(* ------------------------------------------------------------------ *)
(* The batch loop in block-and-filter mode *)

Section Loop.
  Variables (b : bsource) (f : fsource) (fl : faults) (B : Z).
  Variables (ob : list hdr) (ofl : list Z).
  Variables (st len en n0 : Z).
  Hypothesis Est : st = hz (b_start b).
  Hypothesis Elen : len = Z.of_nat (length (bs_hdrs b)).
  Hypothesis Een : en = st + len - 1.
  Hypothesis En0 : n0 = Z.of_nat (length ob).
  Hypothesis HB : 1 <= B.
  Hypothesis Hst : 0 <= st.
  Hypothesis Hlen : length (fs_hdrs f) = length (bs_hdrs b).
  Hypothesis Hfst : hz (m_start (fs_meta f)) = st.
  Hypothesis Hn0 : st <= n0.
  Hypothesis Hof : length ofl = length ob.
  Hypothesis Hnd : NoDup (map hid (ob ++ skipn (Z.to_nat (n0 - st)) (bs_hdrs b))).

  Definition Inv (s : stores) (h : Z) : Prop :=
    stores_wf s /\ Z.of_nat (length (bfile s)) = h /\ Z.of_nat (length (ffile s)) = h /\
    n0 <= h <= en + 1 /\
    bfile s ++ skipn (Z.to_nat (h - st)) (bs_hdrs b) = ob ++ skipn (Z.to_nat (n0 - st)) (bs_hdrs b) /\
    ffile s ++ skipn (Z.to_nat (h - st)) (fs_hdrs f) = ofl ++ skipn (Z.to_nat (n0 - st)) (fs_hdrs f).

  Definition Post (s : stores) : Prop :=
    stores_wf s /\
    (exists r, bfile s ++ r = ob ++ skipn (Z.to_nat (n0 - st)) (bs_hdrs b)) /\
    (exists r, ffile s ++ r = ofl ++ skipn (Z.to_nat (n0 - st)) (fs_hdrs f)) /\
    (length ob <= length (bfile s))%nat /\ (length ofl <= length (ffile s))%nat /\
    (length (ffile s) <= length (bfile s))%nat /\
    (fl_rb fl = false -> length (bfile s) = length (ffile s)).

  Lemma Inv_Post s h : Inv s h -> Post s.
  Proof.
    intros (Hwf & Hb & Hf & Hh & Eb & Ef). unfold Post.
    split; [assumption|]. split; [eexists; exact Eb|]. split; [eexists; exact Ef|].
    repeat split; lia.
  Qed.

  Lemma step_ok fl' c s h res s' c' :
    fl' = fl -> Inv s h ->
    process_batch fl' c s b f (Ht h) (ix_of_height (Ht h) (b_start b)) (Ix (len - 1)) B ABoth = (res, s', c') ->
    (h > en /\ res = B_eof /\ s' = s) \/
    (h <= en /\ res = B_fail /\ Post s') \/
    (h <= en /\ exists h', res = B_done (Ht (h' - 1)) /\ h < h' /\ Inv s' h').
  Proof.
    intros -> HI Hp. destruct HI as (Hwf & Hb & Hf & Hh & Eb & Ef).
    unfold process_batch, ix_of_height in Hp. cbn [hz] in Hp. rewrite <- Est in Hp.
    unfold b_count in Hp. rewrite <- Elen in Hp.
    destruct (Z_gt_dec h en) as [Hgt|Hle].
    { rewrite read_batch_eof in Hp by lia. inversion Hp. left. auto. }
    right.
    set (k := Z.to_nat (cnt len (h - st) B)) in *.
    assert (Hk : (1 <= k)%nat /\ h - st + Z.of_nat k <= len) by (unfold k, cnt; lia).
    set (cb := firstn k (skipn (Z.to_nat (h - st)) (bs_hdrs b))) in *.
    set (cf := firstn k (skipn (Z.to_nat (h - st)) (fs_hdrs f))) in *.
    assert (Lcb : length cb = k) by (unfold cb; rewrite firstn_length, skipn_length; lia).
    assert (Lcf : length cf = k) by (unfold cf; rewrite firstn_length, skipn_length; lia).
    assert (Ncb : cb <> []) by (destruct cb; [cbn in Lcb; lia | discriminate]).
    assert (Ncf : cf <> []) by (destruct cf; [cbn in Lcf; lia | discriminate]).
    rewrite (read_batch_ok (bs_get b) len (h - st) B (with_heights cb h)) in Hp;
      [| lia | lia | | now rewrite with_heights_length].
    2:{ fold k. rewrite read_range_b by lia. fold cb. rewrite <- Est. f_equal. f_equal. lia. }
    rewrite (read_batch_ok (fs_get f) len (h - st) B (fents cf h)) in Hp;
      [| lia | lia | | now rewrite fents_length].
    2:{ fold k. rewrite read_range_f by lia. fold cf. rewrite Hfst. f_equal. f_equal. lia. }
    rewrite with_heights_length, fents_length, Lcb, Lcf, Nat.eqb_refl in Hp.
    set (bb := with_heights cb h) in *.
    set (fb := set_last_blk (fents cf h) (hid (fst (lastd bb (H 0 0 0 0 0, 0))))) in *.
    assert (Nbb : bb <> []) by (now apply with_heights_ne).
    assert (Nfb : fb <> []).
    { intro E. apply (f_equal (@length _)) in E. unfold fb in E.
      rewrite set_last_blk_length, fents_length in E. cbn in E. lia. }
    assert (Hsplit_b : skipn (Z.to_nat (h - st)) (bs_hdrs b) = cb ++ skipn (Z.to_nat (h + Z.of_nat k - st)) (bs_hdrs b)).
    { rewrite (skipn_split _ _ k). fold cb. f_equal. f_equal. lia. }
    assert (Hsplit_f : skipn (Z.to_nat (h - st)) (fs_hdrs f) = cf ++ skipn (Z.to_nat (h + Z.of_nat k - st)) (fs_hdrs f)).
    { rewrite (skipn_split _ _ k). fold cf. f_equal. f_equal. lia. }
    assert (Hnd' : NoDup (map hid (bfile s ++ cb))).
    { rewrite <- Eb, Hsplit_b, app_assoc, map_app in Hnd. now apply NoDup_app_l in Hnd. }
    pose proof (wf_bwrite s cb Hwf Ncb Hnd') as Hwf1. rewrite Hb in Hwf1. fold bb in Hwf1.
    assert (Hb1 : bfile (b_write s bb) = bfile s ++ cb).
    { rewrite b_write_ne by assumption. cbn [bfile]. unfold bb. now rewrite with_heights_fst. }
    assert (Hf1 : ffile (b_write s bb) = ffile s).
    { rewrite b_write_ne by assumption. reflexivity. }
    assert (HP1 : Post (b_write s bb) \/ True) by now right.
    destruct (write_both fl c s bb fb) as [[r s1] c1] eqn:Ew.
    apply write_both_cases in Ew; [|assumption|assumption].
    assert (HPs : Post s) by (apply (Inv_Post s h); split; [assumption|]; repeat split; assumption || lia).
    destruct Ew as [[-> ->]|[(-> & -> & Erb)|[[-> Er]|[[-> Er]|[-> ->]]]]].
    - inversion Hp; subst res s' c'. left. auto.
    - inversion Hp; subst res s' c'. left. split; [lia|]. split; [reflexivity|]. unfold Post.
      split; [exact Hwf1|].
      split. { rewrite Hb1. exists (skipn (Z.to_nat (h + Z.of_nat k - st)) (bs_hdrs b)).
               rewrite <- app_assoc, <- Hsplit_b. exact Eb. }
      split. { rewrite Hf1. eexists. exact Ef. }
      rewrite Hb1, Hf1, app_length. repeat split; try lia; congruence.
    - inversion Hp; subst res s' c'. left. split; [lia|]. split; [reflexivity|].
      destruct (rollback_bwrite s cb Hwf Ncb Hnd') as (s2 & Hr2 & Hb2 & Hf2 & Hwf2).
      rewrite Hb in Hr2. fold bb in Hr2. unfold bb in Er. rewrite with_heights_length in Er. fold bb in Er.
      rewrite Er in Hr2. inversion Hr2; subst s2.
      unfold Post. split; [exact Hwf2|]. rewrite Hb2, Hf2. destruct HPs as [_ HPs]. exact HPs.
    - exfalso.
      destruct (rollback_bwrite s cb Hwf Ncb Hnd') as (s2 & Hr2 & _).
      rewrite Hb in Hr2. fold bb in Hr2. unfold bb in Er. rewrite with_heights_length in Er. fold bb in Er.
      congruence.
    - inversion Hp; subst res s' c'. right. split; [lia|].
      exists (h + Z.of_nat k). split; [f_equal; f_equal; lia|]. split; [lia|].
      assert (Hb2 : bfile (f_write (b_write s bb) fb) = bfile s ++ cb).
      { rewrite f_write_ne by assumption. cbn [bfile]. exact Hb1. }
      assert (Hf2 : ffile (f_write (b_write s bb) fb) = ffile s ++ cf).
      { rewrite f_write_ne by assumption. cbn [ffile]. rewrite Hf1. unfold fb.
        now rewrite set_last_blk_hash, fents_hash. }
      unfold Inv. split.
      { apply wf_fwrite; [assumption | assumption | |].
        * rewrite Hf1, Hb1, app_length. unfold fb. rewrite set_last_blk_length, fents_length. lia.
        * unfold fb. rewrite set_last_blk_last by (intro E; apply (f_equal (@length _)) in E; rewrite fents_length in E; cbn in E; lia).
          rewrite Hb1, (lastd_app _ _ d0) by assumption.
          change (H 0 0 0 0 0, 0) with (d0, 0). change d0 with (fst (d0, 0)) at 2.
          rewrite <- lastd_map. unfold bb. now rewrite with_heights_fst. }
      split. { rewrite Hb2, app_length. lia. }
      split. { rewrite Hf2, app_length. lia. }
      split. { lia. }
      split. { rewrite Hb2, <- app_assoc, <- Hsplit_b. exact Eb. }
      rewrite Hf2, <- app_assoc, <- Hsplit_f. exact Ef.
  Qed.

  Lemma loop_ok : forall fuel c s h r s' c',
    Inv s h -> Z.of_nat fuel > en + 1 - h ->
    append_loop fuel fl c s b f (Ht h) (Ix (len - 1)) B ABoth = (r, s', c') ->
    Post s' /\ (r = Success -> Inv s' (en + 1)).
  Proof.
    induction fuel as [|k IH]; intros c s h r s' c' HI Hfuel Hl.
    { destruct HI as (_ & _ & _ & Hh & _). lia. }
    cbn [append_loop] in Hl.
    destruct (is_canc fl (c_poll (tick c))).
    { (* the context is cancelled: nothing is written in this iteration *)
      inversion Hl; subst r s' c'. split; [now apply (Inv_Post s h) | discriminate]. }
    destruct (process_batch fl (tick c) s b f (Ht h) (ix_of_height (Ht h) (b_start b)) (Ix (len - 1)) B ABoth)
      as [[res s1] c1] eqn:Ep.
    apply (step_ok fl (tick c) s h res s1 c1 eq_refl HI) in Ep.
    destruct Ep as [(Hgt & -> & ->)|[(Hle & -> & HP)|(Hle & h' & -> & Hlt & HI')]].
    - inversion Hl; subst r s' c'. split; [now apply (Inv_Post s h)|]. intros _.
      assert (h = en + 1) by (destruct HI as (_ & _ & _ & Hh & _); lia). now subst h.
    - inversion Hl; subst r s' c'. split; [assumption | discriminate].
    - replace (h' - 1 + 1) with h' in Hl by lia.
      apply (IH c1 s1 h' r s' c' HI'); [lia | assumption].
  Qed.
End Loop.

(* ------------------------------------------------------------------ *)
(* Import over stores at equal heights *)

Lemma wf_tips s : stores_wf s ->
  b_chaintip s = Some (lastd (bfile s) d0, Ht (Z.of_nat (length (bfile s)) - 1)) /\
  exists y, f_chaintip s = Some (y, Ht (Z.of_nat (length (ffile s)) - 1)).
Proof.
  intros [W1 W2 W3 W4 W5 [W6a W6b] [xf [W7a W7b]]]. split.
  - unfold b_chaintip. rewrite W6b, (W5 _ _ W6a), W6a. reflexivity.
  - unfold f_chaintip. rewrite W7b, (W5 _ _ W7a).
    destruct (nthZ_is_some (ffile s) (Z.of_nat (length (ffile s)) - 1)) as [y Hy].
    { destruct (ffile s); [congruence | cbn [length]; lia]. }
    rewrite Hy. now exists y.
Qed.

Lemma extend_prefix {A} (old : list A) st file : exists rest, old ++ rest = extend old st file.
Proof.
  unfold extend.
  destruct ((Z.of_nat (length old) - st <? 0) || (Z.of_nat (length old) - st >? Z.of_nat (length file))).
  - exists []. now rewrite app_nil_r.
  - eexists. reflexivity.
Qed.

Lemma extend_full {A} (old : list A) st file :
  st <= Z.of_nat (length old) -> st + Z.of_nat (length file) - 1 < Z.of_nat (length old) ->
  extend old st file = old.
Proof.
  intros H1 H2. unfold extend.
  destruct ((Z.of_nat (length old) - st <? 0) || (Z.of_nat (length old) - st >? Z.of_nat (length file))) eqn:E;
    [reflexivity|].
  rewrite skipn_all2 by lia. now rewrite app_nil_r.
Qed.

Lemma extend_app {A} (old : list A) st file :
  st <= Z.of_nat (length old) <= st + Z.of_nat (length file) ->
  extend old st file = old ++ skipn (Z.to_nat (Z.of_nat (length old) - st)) file.
Proof.
  intros H1. unfold extend.
  destruct ((Z.of_nat (length old) - st <? 0) || (Z.of_nat (length old) - st >? Z.of_nat (length file))) eqn:E;
    [lia | reflexivity].
Qed.

Definition contents_post (fl : faults) (s s' : stores) (st : Z) (hdrs : list hdr) (fh : list Z) : Prop :=
  (exists rest, bfile s' ++ rest = extend (bfile s) st hdrs) /\
  (exists rest, ffile s' ++ rest = extend (ffile s) st fh) /\
  (length (bfile s) <= length (bfile s'))%nat /\ (length (ffile s) <= length (ffile s'))%nat /\
  (fl_rb fl = false -> length (bfile s') = length (ffile s')).

Lemma import_equal_heights s b f bs fl c0 r s' :
  stores_wf s -> length (bfile s) = length (ffile s) -> 0 <= hz (b_start b) ->
  NoDup (map hid (extend (bfile s) (hz (b_start b)) (bs_hdrs b))) ->
  (0 < length (bs_hdrs b))%nat -> length (fs_hdrs f) = length (bs_hdrs b) ->
  hz (m_start (fs_meta f)) = hz (b_start b) -> continuity s b f = true ->
  process_regions s b f bs fl c0 = (r, s') ->
  stores_wf s' /\ (length (ffile s') <= length (bfile s'))%nat /\
  contents_post fl s s' (hz (b_start b)) (bs_hdrs b) (fs_hdrs f) /\
  (r = Success ->
     bfile s' = extend (bfile s) (hz (b_start b)) (bs_hdrs b) /\
     ffile s' = extend (ffile s) (hz (b_start b)) (fs_hdrs f) /\
     hz (b_end b) < Z.of_nat (length (bfile s')) /\ length (bfile s') = length (ffile s')).
Proof.
  intros Hwf Heq Hst Hnd Hne Hlen Hfst Ek Him.
  pose proof (wf_tips s Hwf) as [Hbt [y Hft]].
  assert (Hsame : stores_wf s /\ (length (ffile s) <= length (bfile s))%nat /\
                  contents_post fl s s (hz (b_start b)) (bs_hdrs b) (fs_hdrs f)).
  { split; [assumption|]. split; [lia|]. unfold contents_post.
    split; [apply extend_prefix|]. split; [apply extend_prefix|]. repeat split; auto. }
  unfold process_regions in Him.
  set (n := Z.of_nat (length (bfile s))) in *.
  assert (Hnf : Z.of_nat (length (ffile s)) = n) by (unfold n; lia).
  assert (Hn1 : 1 <= n) by (destruct Hwf as [W1 _ _ _ _ _ _]; unfold n; destruct (bfile s); [congruence | cbn [length]; lia]).
  assert (Hstn : hz (b_start b) <= n).
  { unfold continuity in Ek. rewrite Hbt, Hft, Hnf in Ek.
    destruct (hz (b_start b) >? Z.min (n - 1) (n - 1) + 1) eqn:E; [discriminate | lia]. }
  unfold regions in Him. rewrite Hbt, Hft, Hnf in Him.
  replace (negb (n - 1 =? n - 1)) with false in Him by (rewrite Z.eqb_refl; reflexivity).
  replace (n - 1 >? n - 1) with false in Him by lia.
  replace (n - 1 <? n - 1) with false in Him by lia.
  cbn [andb r_exists r_start r_end r_a r_v] in Him.
  replace (Z.max (n - 1) (n - 1) + 1) with n in Him by lia.
  unfold b_end, b_count in *. cbn [hz] in *.
  set (st := hz (b_start b)) in *. set (len := Z.of_nat (length (bs_hdrs b))) in *.
  destruct (n <=? st + len - 1) eqn:Ereg.
  - (* new headers region exists *)
    unfold append_region in Him. unfold ix_of_height in Him. cbn [hz] in Him. fold st in Him.
    replace (st + len - 1 - st) with (len - 1) in Him by lia.
    destruct (append_loop (S (length (bs_hdrs b))) fl c0 s b f (Ht n) (Ix (len - 1)) (eff_batch bs) ABoth)
      as [[r2 s2] c2] eqn:El.
    inversion Him; subst r2 s2.
    assert (HB : 1 <= eff_batch bs) by (unfold eff_batch; destruct (bs <=? 0) eqn:E; lia).
    assert (Hext_b : extend (bfile s) st (bs_hdrs b) = bfile s ++ skipn (Z.to_nat (n - st)) (bs_hdrs b)).
    { apply extend_app. fold n. fold len. lia. }
    assert (Hext_f : extend (ffile s) st (fs_hdrs f) = ffile s ++ skipn (Z.to_nat (n - st)) (fs_hdrs f)).
    { rewrite extend_app; [rewrite Hnf; reflexivity|]. rewrite Hnf, Hlen. fold len. lia. }
    rewrite Hext_b in Hnd.
    assert (HI0 : Inv b f (bfile s) (ffile s) st (st + len - 1) n s n).
    { unfold Inv. split; [assumption|]. repeat split; try reflexivity; try assumption; lia. }
    assert (Hfuel : Z.of_nat (S (length (bs_hdrs b))) > st + len - 1 + 1 - n) by (unfold len; lia).
    destruct (loop_ok b f fl (eff_batch bs) (bfile s) (ffile s) st len (st + len - 1) n
                eq_refl eq_refl eq_refl eq_refl HB Hlen Hfst Hstn (eq_sym Heq) Hnd
                (S (length (bs_hdrs b))) c0 s n r s' c2 HI0 Hfuel El) as [HP HS].
    destruct HP as (Q1 & Q2 & Q3 & Q4 & Q5 & Q6 & Q7).
    split; [assumption|]. split; [assumption|]. split.
    { unfold contents_post. rewrite Hext_b, Hext_f. repeat split; assumption. }
    intros ->. destruct (HS eq_refl) as (_ & I2 & I3 & _ & I5 & I6).
    rewrite Hext_b, Hext_f.
    replace (Z.to_nat (st + len - 1 + 1 - st)) with (length (bs_hdrs b)) in I5 by lia.
    replace (Z.to_nat (st + len - 1 + 1 - st)) with (length (fs_hdrs f)) in I6 by lia.
    rewrite skipn_all, app_nil_r in I5, I6.
    repeat split; try assumption; lia.
  - (* nothing above the stores' tips *)
    inversion Him; subst r s'. destruct Hsame as (A & B0 & C).
    split; [assumption|]. split; [assumption|]. split; [assumption|]. intros _.
    rewrite !extend_full by (try rewrite Hnf; try rewrite Hlen; fold n; fold len; lia).
    repeat split; try assumption; lia.
Qed.

(* ------------------------------------------------------------------ *)
(* Validation: lookups, locality, all adjacent pairs *)

Definition hash_inj (l : list hdr) : Prop :=
  forall x y, In x l -> In y l -> hid x = hid y -> x = y.
Definition retarget_ok (P : params) : Prop := p_noretarget P = true \/ 1 <= p_bpr P.

Lemma collect_times_local n look1 look2 : forall h t,
  (forall k, k < h -> look1 k = look2 k) ->
  collect_times n look1 h t = collect_times n look2 h t.
Proof.
  induction n as [|n IH]; intros h t Hk; [reflexivity|].
  cbn [collect_times]. f_equal. destruct (h <=? 0); [reflexivity|].
  rewrite (Hk (h - 1)) by lia. destruct (look2 (h - 1)); [|reflexivity].
  apply IH. intros k Hlt. apply Hk. lia.
Qed.

Lemma pair_ok_local P look1 look2 p ph ce :
  retarget_ok P -> 0 <= ph -> (forall k, k <= ph -> look1 k = look2 k) ->
  pair_ok P look1 (p, ph) ce = pair_ok P look2 (p, ph) ce.
Proof.
  intros HR Hph Hk. destruct ce as [c ch]. unfold pair_ok, ctx_ok.
  assert (He : expected_bits P look1 ph p = expected_bits P look2 ph p).
  { unfold expected_bits. destruct (p_noretarget P) eqn:En; [reflexivity|].
    destruct HR as [HR|HR]; [congruence|].
    destruct (negb ((ph + 1) mod p_bpr P =? 0)); [reflexivity|].
    rewrite (Hk (Z.max 0 (ph - (p_bpr P - 1)))) by lia. reflexivity. }
  assert (Hm : mtp look1 ph p = mtp look2 ph p).
  { unfold mtp. rewrite (collect_times_local 11 look1 look2 ph (htime p)); [reflexivity|].
    intros k Hlt. apply Hk. lia. }
  rewrite He, Hm. reflexivity.
Qed.

Lemma pair_ok_link P look pe ce : pair_ok P look pe ce = true -> hprev (fst ce) = hid (fst pe).
Proof. destruct pe as [p ph], ce as [c ch]. unfold pair_ok. cbn [fst]. lia. Qed.

Lemma pairs_ok_ext ok1 ok2 : (forall a c, ok1 a c = ok2 a c) ->
  forall l x, pairs_ok ok1 x l = pairs_ok ok2 x l.
Proof. intros He. induction l as [|y r IH]; intros x; cbn [pairs_ok]; [reflexivity|]. now rewrite He, IH. Qed.

Lemma validate_chunks_ext P look1 look2 n :
  (forall pe ce, pair_ok P look1 pe ce = pair_ok P look2 pe ce) ->
  forall fuel last l, validate_chunks fuel P look1 n last l = validate_chunks fuel P look2 n last l.
Proof.
  intros He. induction fuel as [|k IH]; intros last l; [reflexivity|].
  cbn [validate_chunks]. destruct l as [|x r]; [reflexivity|].
  rewrite IH. f_equal. f_equal.
  - unfold validate_batch. destruct (firstn n (x :: r)) as [|y [|z t]]; try reflexivity.
    now apply pairs_ok_ext.
  - destruct last; [apply He | reflexivity].
Qed.

Lemma lastd_indep {A} (l : list A) d d' : l <> [] -> lastd l d = lastd l d'.
Proof.
  induction l as [|x r IH]; [congruence|]. intros _. destruct r as [|y r']; [reflexivity|].
  change (lastd (y :: r') d = lastd (y :: r') d'). apply IH. discriminate.
Qed.

Lemma pairs_ok_app ok : forall r1 x r2,
  pairs_ok ok x (r1 ++ r2) = pairs_ok ok x r1 && pairs_ok ok (lastd (x :: r1) x) r2.
Proof.
  induction r1 as [|y r1 IH]; intros x r2; [reflexivity|].
  cbn [app pairs_ok]. rewrite IH, andb_assoc.
  rewrite (lastd_cons x (y :: r1) x) by discriminate.
  rewrite (lastd_indep (y :: r1) y x) by discriminate. reflexivity.
Qed.

Definition all_pairs (ok : bent -> bent -> bool) (last : option bent) (l : list bent) : bool :=
  match last with
  | Some p => pairs_ok ok p l
  | None => match l with [] => true | x :: r => pairs_ok ok x r end
  end.

Lemma validate_chunks_pairs P look n : (1 <= n)%nat ->
  forall fuel last l, (length l < fuel)%nat ->
  validate_chunks fuel P look n last l = true -> all_pairs (pair_ok P look) last l = true.
Proof.
  intros Hn. induction fuel as [|k IH]; intros last l Hlen Hv; [lia|].
  destruct l as [|x l']; [destruct last; reflexivity|].
  cbn [validate_chunks] in Hv.
  destruct n as [|m]; [lia|]. cbn [firstn skipn] in Hv.
  apply andb_true_iff in Hv. destruct Hv as [Hv Hrec].
  apply andb_true_iff in Hv. destruct Hv as [Hb Hl].
  apply IH in Hrec; [|cbn [length] in Hlen; rewrite skipn_length; lia].
  cbn [all_pairs] in Hrec.
  assert (Hc : pairs_ok (pair_ok P look) x (firstn m l') = true).
  { unfold validate_batch in Hb. destruct (firstn m l'); [reflexivity | exact Hb]. }
  assert (Hall : pairs_ok (pair_ok P look) x l' = true).
  { rewrite <- (firstn_skipn m l'). rewrite pairs_ok_app, Hc, Hrec. reflexivity. }
  unfold all_pairs. destruct last; cbn [pairs_ok]; [now rewrite Hl, Hall | exact Hall].
Qed.

(* every two adjacent headers of [L] (first element at height [h0]) pass the
   pair validation *)
Definition chain_from (P : params) (look : Z -> option hdr) (L : list hdr) (h0 : Z) : Prop :=
  forall i x y, nth_error L i = Some x -> nth_error L (S i) = Some y ->
  pair_ok P look (x, h0 + Z.of_nat i) (y, h0 + Z.of_nat i + 1) = true.

Lemma pairs_ok_chain P look : forall L x h,
  pairs_ok (pair_ok P look) (x, h) (with_heights L (h + 1)) = true <-> chain_from P look (x :: L) h.
Proof.
  induction L as [|y r IH]; intros x h.
  - split; [|reflexivity]. intros _ i a c Ha Hc. destruct i; cbn in Hc; [discriminate | destruct i; discriminate].
  - cbn [with_heights pairs_ok]. rewrite andb_true_iff, IH. split.
    + intros [H1 H2] i a c Ha Hc. destruct i as [|i].
      * cbn in Ha, Hc. inversion Ha; inversion Hc; subst. replace (h + Z.of_nat 0) with h by lia. exact H1.
      * cbn [nth_error] in Ha, Hc. specialize (H2 i a c Ha Hc).
        replace (h + Z.of_nat (S i)) with (h + 1 + Z.of_nat i) by lia. exact H2.
    + intros Hc. split.
      * specialize (Hc 0%nat x y eq_refl eq_refl). replace (h + Z.of_nat 0) with h in Hc by lia. exact Hc.
      * intros i a c Ha Hcc. specialize (Hc (S i) a c Ha Hcc).
        replace (h + Z.of_nat (S i)) with (h + 1 + Z.of_nat i) in Hc by lia. exact Hc.
Qed.

Lemma chain_from_nil P look h : chain_from P look [] h.
Proof. intros i x y Hx. destruct i; discriminate. Qed.

Lemma valid_chain_iff P L : valid_chain P L <-> chain_from P (nthZ L) L 0.
Proof.
  unfold valid_chain, valid_chainb. destruct L as [|x r].
  - split; [intros _; apply chain_from_nil | reflexivity].
  - cbn [with_heights]. apply pairs_ok_chain.
Qed.

Lemma all_pairs_chain P look hdrs st p :
  all_pairs (pair_ok P look) p (with_heights hdrs st) = true ->
  chain_from P look hdrs st /\
  (forall q x, p = Some (q, st - 1) -> nth_error hdrs 0 = Some x ->
     pair_ok P look (q, st - 1) (x, st) = true).
Proof.
  intros Ha. destruct hdrs as [|x r].
  - split; [apply chain_from_nil|]. intros q y _ Hy. discriminate.
  - cbn [with_heights] in Ha. destruct p as [[q qh]|]; cbn [all_pairs pairs_ok] in Ha.
    + apply andb_true_iff in Ha. destruct Ha as [H1 H2]. split; [now apply pairs_ok_chain|].
      intros q' y Hq Hy. inversion Hq; inversion Hy; subst. exact H1.
    + split; [now apply pairs_ok_chain|]. intros; discriminate.
Qed.

(* validate_blocks: all adjacent pairs of the file, and the first header
   against the target store's header just below it *)
Lemma validate_blocks_chain P s b B :
  validate_blocks P s b B = true ->
  chain_from P (lk s b) (bs_hdrs b) (hz (b_start b)) /\
  (forall q x, hz (b_start b) > 0 -> b_fetch s (Ht (hz (b_start b) - 1)) = Some q ->
     nth_error (bs_hdrs b) 0 = Some x ->
     pair_ok P (lk s b) (q, hz (b_start b) - 1) (x, hz (b_start b)) = true).
Proof.
  unfold validate_blocks. intros Hv.
  apply validate_chunks_pairs in Hv; [|lia|lia].
  apply all_pairs_chain in Hv. destruct Hv as [H1 H2]. split; [exact H1|].
  intros q x Hst Hq Hx. apply H2; [|exact Hx].
  destruct (hz (b_start b) >? 0) eqn:E; [|lia]. now rewrite Hq.
Qed.

Lemma chain_from_look P look1 look2 L h0 :
  retarget_ok P -> 0 <= h0 ->
  (forall k, k < h0 + Z.of_nat (length L) - 1 -> look1 k = look2 k) ->
  chain_from P look1 L h0 -> chain_from P look2 L h0.
Proof.
  intros HR H0 Hk Hc i x y Hx Hy. rewrite <- (Hc i x y Hx Hy). symmetry.
  apply pair_ok_local; [assumption | lia |].
  intros k Hle. apply Hk. apply nth_error_Some_lt in Hy. lia.
Qed.

(* a prefix of a valid chain is a valid chain *)
Lemma valid_chain_prefix P A R : retarget_ok P -> valid_chain P (A ++ R) -> valid_chain P A.
Proof.
  rewrite !valid_chain_iff. intros HR Hc.
  apply (chain_from_look P (nthZ (A ++ R)) (nthZ A) A 0 HR); [lia | |].
  - intros k Hk. apply nthZ_app_l. lia.
  - intros i x y Hx Hy. apply Hc; rewrite nth_error_app1; try assumption.
    + apply nth_error_Some_lt in Hx. exact Hx.
    + apply nth_error_Some_lt in Hy. exact Hy.
Qed.

Lemma nth_error_app_skip {A} (old hdrs : list A) kN i :
  (length old <= i)%nat ->
  nth_error (old ++ skipn kN hdrs) i = nth_error hdrs (kN + (i - length old)).
Proof. intros Hi. rewrite nth_error_app2 by lia. apply nth_error_skipn'. Qed.

Lemma nthZ_nth_error {A} (l : list A) i : nthZ l (Z.of_nat i) = nth_error l i.
Proof.
  destruct (nth_error l i) eqn:E.
  - apply nthZ_some. split; [lia|]. now rewrite Nat2Z.id.
  - apply nthZ_none. apply nth_error_None in E. lia.
Qed.

(* old valid chain + validated file = valid extended chain *)
Lemma stitch P look (old hdrs : list hdr) (kN : nat) (st : Z) :
  retarget_ok P ->
  st = Z.of_nat (length old) - Z.of_nat kN -> 0 <= st -> (kN <= length hdrs)%nat ->
  valid_chain P old ->
  chain_from P look hdrs st ->
  (kN = 0%nat -> forall q x, nth_error old (length old - 1) = Some q -> nth_error hdrs 0 = Some x ->
     pair_ok P look (q, st - 1) (x, st) = true) ->
  ((0 < kN)%nat -> forall q x, nth_error old (length old - 1) = Some q -> nth_error hdrs (kN - 1) = Some x -> x = q) ->
  (forall h, h < Z.of_nat (length (old ++ skipn kN hdrs)) -> look h = nthZ (old ++ skipn kN hdrs) h) ->
  valid_chain P (old ++ skipn kN hdrs).
Proof.
  intros HR Est Hst Hk Hold Hfile Hseed Hov Hlook.
  set (L := old ++ skipn kN hdrs) in *.
  apply valid_chain_iff. apply valid_chain_iff in Hold.
  intros i x y Hx Hy. replace (0 + Z.of_nat i) with (Z.of_nat i) by lia.
  pose proof (nth_error_Some_lt _ _ _ Hy) as HyL.
  destruct (lt_dec (S i) (length old)) as [Hin|Hout].
  - (* both in the old part *)
    unfold L in Hx, Hy. rewrite nth_error_app1 in Hx, Hy by lia.
    specialize (Hold i x y Hx Hy). replace (0 + Z.of_nat i) with (Z.of_nat i) in Hold by lia.
    rewrite <- Hold. apply pair_ok_local; [assumption | lia |].
    intros k Hle. unfold L. apply nthZ_app_l. lia.
  - assert (Hy' : nth_error hdrs (kN + (S i - length old)) = Some y).
    { unfold L in Hy. rewrite nth_error_app_skip in Hy by lia. exact Hy. }
    assert (Htr : forall a c, pair_ok P look a c = true ->
              snd a = Z.of_nat i -> pair_ok P (nthZ L) (fst a, Z.of_nat i) c = true).
    { intros [a ah] c Hp Ha. cbn [fst snd] in *. subst ah. rewrite <- Hp. symmetry.
      apply pair_ok_local; [assumption | lia |]. intros k Hle. apply Hlook. lia. }
    destruct (le_dec (length old) i) as [Hge|Hlt].
    + (* both in the new part *)
      assert (Hx' : nth_error hdrs (kN + (i - length old)) = Some x).
      { unfold L in Hx. rewrite nth_error_app_skip in Hx by lia. exact Hx. }
      replace (kN + (S i - length old))%nat with (S (kN + (i - length old))) in Hy' by lia.
      specialize (Hfile _ x y Hx' Hy').
      replace (st + Z.of_nat (kN + (i - length old))) with (Z.of_nat i) in Hfile by lia.
      apply (Htr (x, Z.of_nat i) _ Hfile eq_refl).
    + (* the junction *)
      assert (Hi : i = (length old - 1)%nat) by lia.
      assert (Hx' : nth_error old (length old - 1) = Some x).
      { unfold L in Hx. rewrite nth_error_app1 in Hx by lia. now rewrite <- Hi. }
      replace (kN + (S i - length old))%nat with kN in Hy' by lia.
      destruct kN as [|k'].
      * specialize (Hseed eq_refl x y Hx' Hy').
        replace (Z.of_nat i + 1) with st by lia.
        apply (Htr (x, st - 1) _ Hseed). cbn [snd]. lia.
      * destruct (nth_error hdrs k') as [x0|] eqn:Ex0.
        2:{ apply nth_error_None in Ex0. apply nth_error_Some_lt in Hy'. lia. }
        assert (x0 = x).
        { apply (Hov ltac:(lia) x x0 Hx'). replace (S k' - 1)%nat with k' by lia. exact Ex0. }
        subst x0. specialize (Hfile k' x y Ex0 Hy').
        replace (st + Z.of_nat k') with (Z.of_nat i) in Hfile by lia.
        apply (Htr (x, Z.of_nat i) _ Hfile eq_refl).
Qed.

Definition checks (P : params) (s : stores) (b : bsource) (f : fsource) (bs : Z) : bool :=
  open_ok (bs_meta b) (length (bs_hdrs b)) && open_ok (fs_meta f) (length (fs_hdrs f)) &&
  compat P b f && continuity s b f && validate_blocks P s b (eff_batch bs) && validate_filters P f.

(* ------------------------------------------------------------------ *)
(* The context: polls, and the validators under cancellation *)

Lemma is_canc_mono fl n m : is_canc fl n = true -> n <= m -> is_canc fl m = true.
Proof. unfold is_canc. intros Hc Hle. apply andb_true_iff in Hc. apply andb_true_iff. lia. Qed.

Lemma is_canc_mono_false fl n m : is_canc fl m = false -> n <= m -> is_canc fl n = false.
Proof.
  intros Hc Hle. destruct (is_canc fl n) eqn:E; [|reflexivity].
  rewrite (is_canc_mono fl n m E Hle) in Hc. discriminate.
Qed.

Lemma is_canc_never fl n : fl_cancel fl = 0 -> is_canc fl n = false.
Proof. unfold is_canc. intros ->. reflexivity. Qed.

(* The block validator under a context: the counters only advance; if no poll
   it made reported cancellation it computed [validate_chunks]; a cancellation
   can only turn a rejection into "nil" (validation cut short), never the
   other way round. *)
Lemma validate_chunks_c_spec P look n fl : forall fuel last l c v c',
  validate_chunks_c fuel P look n last l fl c = (v, c') ->
  c_bw c' = c_bw c /\ c_fw c' = c_fw c /\ c_poll c <= c_poll c' /\
  (is_canc fl (c_poll c') = false -> v = validate_chunks fuel P look n last l) /\
  (validate_chunks fuel P look n last l = true -> v = true).
Proof.
  induction fuel as [|k IH]; intros last l c v c' Hv.
  { cbn in Hv. inversion Hv; subst. cbn [validate_chunks].
    split; [reflexivity|]. split; [reflexivity|]. split; [lia|]. split; reflexivity. }
  cbn [validate_chunks_c validate_chunks] in *.
  destruct l as [|x r].
  { inversion Hv; subst.
    split; [reflexivity|]. split; [reflexivity|]. split; [lia|]. split; reflexivity. }
  destruct (is_canc fl (c_poll (tick c))) eqn:Ec.
  { inversion Hv; subst v c'. cbn [tick c_bw c_fw c_poll] in *.
    split; [reflexivity|]. split; [reflexivity|]. split; [lia|].
    split; [intros Hn; congruence | reflexivity]. }
  destruct (validate_batch P look (firstn n (x :: r)) &&
            match last with Some p => pair_ok P look p x | None => true end) eqn:Eb.
  - apply IH in Hv. cbn [tick c_bw c_fw c_poll] in Hv.
    destruct Hv as (H1 & H2 & H3 & H4 & H5).
    split; [exact H1|]. split; [exact H2|]. split; [lia|].
    split; [intros Hn; rewrite (H4 Hn); reflexivity | exact H5].
  - inversion Hv; subst v c'. cbn [tick c_bw c_fw c_poll].
    split; [reflexivity|]. split; [reflexivity|]. split; [lia|].
    split; [reflexivity | intros Hp; discriminate].
Qed.

Lemma vff_app P : forall a r h,
  validate_filters_from P (a ++ r) h =
  validate_filters_from P a h && validate_filters_from P r (h + Z.of_nat (length a)).
Proof.
  induction a as [|x a IH]; intros r h.
  - cbn [app validate_filters_from length andb]. f_equal. lia.
  - cbn [app validate_filters_from length]. rewrite IH, andb_assoc. do 2 f_equal. lia.
Qed.

Lemma validate_filters_c_spec P n fl : forall fuel l h c v c',
  (length l < fuel)%nat -> (1 <= n)%nat ->
  validate_filters_c fuel P n l h fl c = (v, c') ->
  c_bw c' = c_bw c /\ c_fw c' = c_fw c /\ c_poll c <= c_poll c' /\
  (is_canc fl (c_poll c') = false -> v = validate_filters_from P l h) /\
  (validate_filters_from P l h = true -> v = true).
Proof.
  induction fuel as [|k IH]; intros l h c v c' Hfuel Hn Hv; [lia|].
  cbn [validate_filters_c] in Hv.
  destruct l as [|x r].
  { inversion Hv; subst. cbn [validate_filters_from].
    split; [reflexivity|]. split; [reflexivity|]. split; [lia|]. split; reflexivity. }
  destruct (is_canc fl (c_poll (tick c))) eqn:Ec.
  { inversion Hv; subst v c'. cbn [tick c_bw c_fw c_poll] in *.
    split; [reflexivity|]. split; [reflexivity|]. split; [lia|].
    split; [intros Hc; congruence | reflexivity]. }
  assert (Hsplit : validate_filters_from P (x :: r) h =
                   validate_filters_from P (firstn n (x :: r)) h &&
                   validate_filters_from P (skipn n (x :: r)) (h + Z.of_nat (length (firstn n (x :: r))))).
  { rewrite <- vff_app, firstn_skipn. reflexivity. }
  destruct (validate_filters_from P (firstn n (x :: r)) h) eqn:Eb.
  - apply IH in Hv; [| rewrite skipn_length; cbn [length] in *; lia | assumption].
    cbn [tick c_bw c_fw c_poll] in Hv. destruct Hv as (H1 & H2 & H3 & H4 & H5).
    rewrite Hsplit. cbn [andb].
    split; [exact H1|]. split; [exact H2|]. split; [lia|]. split; assumption.
  - inversion Hv; subst v c'. cbn [tick c_bw c_fw c_poll]. rewrite Hsplit. cbn [andb].
    split; [reflexivity|]. split; [reflexivity|]. split; [lia|].
    split; [reflexivity | intros Hp; discriminate].
Qed.

(* both validators *)
Lemma validation_spec P s b f bs fl v c :
  validation P s b f bs fl = (v, c) ->
  c_bw c = 0 /\ c_fw c = 0 /\ 0 <= c_poll c /\
  (is_canc fl (c_poll c) = false ->
     v = validate_blocks P s b (eff_batch bs) && validate_filters P f) /\
  (validate_blocks P s b (eff_batch bs) && validate_filters P f = true -> v = true).
Proof.
  unfold validation.
  destruct (validate_blocks_c P s b (eff_batch bs) fl (mkC 0 0 0)) as [vb c1] eqn:Eb.
  unfold validate_blocks_c in Eb. apply validate_chunks_c_spec in Eb.
  cbn [c_bw c_fw c_poll] in Eb. destruct Eb as (B1 & B2 & B3 & B4 & B5).
  fold (validate_blocks P s b (eff_batch bs)) in B4, B5.
  destruct vb.
  - intros Hf. unfold validate_filters_cc in Hf.
    apply validate_filters_c_spec in Hf; [| lia | lia].
    destruct Hf as (F1 & F2 & F3 & F4 & F5). fold (validate_filters P f) in F4, F5.
    split; [lia|]. split; [lia|]. split; [lia|]. split.
    + intros Hn. rewrite (F4 Hn), <- (B4 (is_canc_mono_false _ _ _ Hn F3)). reflexivity.
    + intros Hp. apply andb_true_iff in Hp. now apply F5.
  - intros Hf. inversion Hf; subst v c.
    split; [lia|]. split; [lia|]. split; [lia|]. split.
    + intros Hn. now rewrite <- (B4 Hn).
    + intros Hp. apply andb_true_iff in Hp. destruct Hp as [Hp _]. now apply B5.
Qed.

(* a context that is never cancelled never cuts the validation short *)
Lemma never_cancelled P s b f bs fl : fl_cancel fl = 0 -> cancelled_in_validation P s b f bs fl = false.
Proof. intros Hn. unfold cancelled_in_validation. now apply is_canc_never. Qed.

Definition prechecks (P : params) (s : stores) (b : bsource) (f : fsource) : bool :=
  open_ok (bs_meta b) (length (bs_hdrs b)) && open_ok (fs_meta f) (length (fs_hdrs f)) &&
  compat P b f && continuity s b f.

Lemma checks_prechecks P s b f bs :
  checks P s b f bs = prechecks P s b f && (validate_blocks P s b (eff_batch bs) && validate_filters P f).
Proof. unfold checks, prechecks. now rewrite !andb_assoc. Qed.

(* Import writes only through [process_regions], entered either after every
   check has passed (validation run to its end), or after a validation that a
   cancelled context cut short -- and then the context is still cancelled. *)
Lemma import_cases P s b f bs fl r s' :
  import P s b f bs fl = (r, s') ->
  (r = Failure /\ s' = s) \/
  exists c0, process_regions s b f bs fl c0 = (r, s') /\
    ((checks P s b f bs = true /\ cancelled_in_validation P s b f bs fl = false) \/
     (prechecks P s b f = true /\ is_canc fl (c_poll c0) = true /\
      cancelled_in_validation P s b f bs fl = true)).
Proof.
  unfold import. rewrite checks_prechecks. unfold prechecks, cancelled_in_validation.
  destruct (open_ok (bs_meta b) (length (bs_hdrs b)) && open_ok (fs_meta f) (length (fs_hdrs f)));
    cbn [negb andb]; [|intros Hi; inversion Hi; now left].
  destruct (compat P b f); cbn [negb andb]; [|intros Hi; inversion Hi; now left].
  destruct (continuity s b f); cbn [negb andb]; [|intros Hi; inversion Hi; now left].
  destruct (validation P s b f bs fl) as [v c0] eqn:Ev. cbn [snd].
  destruct (validation_spec _ _ _ _ _ _ _ _ Ev) as (_ & _ & _ & V4 & _).
  destruct v; [|intros Hi; inversion Hi; now left].
  intros Hi. right. exists c0. split; [exact Hi|].
  destruct (is_canc fl (c_poll c0)) eqn:Ec.
  - right. auto.
  - left. split; [symmetry; now apply V4 | reflexivity].
Qed.

Lemma checks_facts P s b f bs : checks P s b f bs = true ->
  (0 < length (bs_hdrs b))%nat /\ length (fs_hdrs f) = length (bs_hdrs b) /\
  hz (m_start (fs_meta f)) = hz (b_start b) /\
  continuity s b f = true /\ validate_blocks P s b (eff_batch bs) = true /\ validate_filters P f = true.
Proof.
  unfold checks, open_ok, compat, b_start. intros Hc.
  repeat (apply andb_true_iff in Hc; destruct Hc as [Hc ?]).
  repeat split; try assumption.
  - destruct (length (bs_hdrs b)); cbn in *; lia.
  - apply Nat.eqb_eq. lia.
  - lia.
Qed.

Lemma prechecks_facts P s b f : prechecks P s b f = true ->
  (0 < length (bs_hdrs b))%nat /\ length (fs_hdrs f) = length (bs_hdrs b) /\
  hz (m_start (fs_meta f)) = hz (b_start b) /\ continuity s b f = true.
Proof.
  unfold prechecks, open_ok, compat, b_start. intros Hc.
  repeat (apply andb_true_iff in Hc; destruct Hc as [Hc ?]).
  repeat split; try assumption.
  - destruct (length (bs_hdrs b)); cbn in *; lia.
  - apply Nat.eqb_eq. lia.
  - lia.
Qed.

(* once every check passed, the outcome is decided by the regions alone,
   whatever the context does during validation *)
Lemma import_after_checks P s b f bs fl :
  checks P s b f bs = true ->
  import P s b f bs fl = process_regions s b f bs fl (snd (validation P s b f bs fl)).
Proof.
  rewrite checks_prechecks. unfold prechecks, import. intros Hc.
  apply andb_true_iff in Hc; destruct Hc as [Hc Hv].
  apply andb_true_iff in Hc; destruct Hc as [Hc H3].
  apply andb_true_iff in Hc; destruct Hc as [Hc H2].
  rewrite Hc, H2, H3. cbn [negb].
  destruct (validation P s b f bs fl) as [v c0] eqn:Ev. cbn [snd].
  destruct (validation_spec _ _ _ _ _ _ _ _ Ev) as (_ & _ & _ & _ & V5).
  now rewrite (V5 Hv).
Qed.

(* a cancelled context stays cancelled: nothing is written *)
Lemma append_region_cancelled fl c s b f sh eh bs m :
  is_canc fl (c_poll c) = true ->
  append_region fl c s b f sh eh bs m = (Failure, s, tick c).
Proof.
  intros Hc. unfold append_region. cbn [append_loop].
  rewrite (is_canc_mono fl (c_poll c) (c_poll (tick c)) Hc) by (cbn [tick c_poll]; lia).
  reflexivity.
Qed.

Lemma process_regions_cancelled s b f bs fl c0 r s' :
  is_canc fl (c_poll c0) = true -> process_regions s b f bs fl c0 = (r, s') ->
  s' = s /\
  (r = Success -> exists dv nw, regions s b = Some (dv, nw) /\ r_exists dv = false /\ r_exists nw = false).
Proof.
  intros Hc. unfold process_regions.
  destruct (regions s b) as [[dv nw]|]; [|intros Hp; inversion Hp; split; [reflexivity | discriminate]].
  destruct (r_exists dv) eqn:Ed.
  - destruct (verify_at s b f (r_end dv) (r_v dv)).
    + rewrite append_region_cancelled by assumption.
      intros Hp; inversion Hp; split; [reflexivity | discriminate].
    + intros Hp; inversion Hp; split; [reflexivity | discriminate].
  - destruct (r_exists nw) eqn:En.
    + rewrite append_region_cancelled by assumption.
      intros Hp; inversion Hp; split; [reflexivity | discriminate].
    + intros Hp; inversion Hp; split; [reflexivity|]. intros _. exists dv, nw. auto.
Qed.

(* ------------------------------------------------------------------ *)
(* The validators' lookup *)

Lemma bs_get_fst b j : option_map fst (bs_get b (Ix j)) = nthZ (bs_hdrs b) j.
Proof. unfold bs_get. cbn [iz]. destruct (nthZ (bs_hdrs b) j); reflexivity. Qed.

Lemma lk_unfold s b h :
  lk s b h = match nthZ (bfile s) h with
             | Some x => Some x
             | None => if h <? hz (b_start b) then None else nthZ (bs_hdrs b) (h - hz (b_start b))
             end.
Proof. unfold lk, b_fetch, ix_of_height. cbn [hz]. now rewrite bs_get_fst. Qed.

Lemma lk_self s b h : 0 <= hz (b_start b) -> h < Z.of_nat (length (bfile s)) -> lk s b h = nthZ (bfile s) h.
Proof.
  intros Hst Hh. rewrite lk_unfold. destruct (nthZ (bfile s) h) eqn:E; [reflexivity|].
  destruct (Z_lt_dec h 0) as [Hn|Hn].
  - destruct (h <? hz (b_start b)) eqn:E2; [reflexivity | lia].
  - destruct (nthZ_is_some (bfile s) h) as [x Hx]; [lia | congruence].
Qed.

Lemma lk_extend s sL b kN :
  bfile sL = bfile s ++ skipn kN (bs_hdrs b) ->
  hz (b_start b) = Z.of_nat (length (bfile s)) - Z.of_nat kN -> 0 <= hz (b_start b) ->
  forall h, lk sL b h = lk s b h.
Proof.
  intros HL Est Hst h. rewrite !lk_unfold, HL.
  destruct (nthZ (bfile s) h) as [x|] eqn:E1.
  - rewrite nthZ_app_l by (apply nthZ_lt in E1; lia). now rewrite E1.
  - destruct (nthZ (bfile s ++ skipn kN (bs_hdrs b)) h) as [x|] eqn:E2; [|reflexivity].
    destruct (Z_lt_dec h (Z.of_nat (length (bfile s)))) as [Hlt|Hge].
    + rewrite nthZ_app_l in E2 by lia. congruence.
    + rewrite nthZ_app_r in E2 by lia.
      replace kN with (Z.to_nat (Z.of_nat kN)) in E2 by lia.
      rewrite nthZ_skipn in E2 by lia.
      destruct (h <? hz (b_start b)) eqn:E3; [lia|].
      rewrite <- E2. f_equal. lia.
Qed.

(* ------------------------------------------------------------------ *)
(* Continuity check, spelled out for readable tips *)

Definition cont_expr (s : stores) (b : bsource) (f : fsource) (bt ft : Z) : bool :=
  let eff := Z.min bt ft in
  let st := hz (b_start b) in let en := hz (b_end b) in
  if st >? eff + 1 then false
  else if st >? eff then connection s b (Ht st) (Ht eff)
  else
    let oe := Z.min eff en in
    verify_at s b f (Ht st) VBoth &&
    (if oe >? st then verify_at s b f (Ht oe) VBoth else true) &&
    (if oe <? en then connection s b (Ht (oe + 1)) (Ht eff) else true).

Lemma continuity_tips s b f x bt y ft :
  b_chaintip s = Some (x, Ht bt) -> f_chaintip s = Some (y, Ht ft) ->
  continuity s b f = cont_expr s b f bt ft.
Proof. intros Hb Hf. unfold continuity. now rewrite Hb, Hf. Qed.

Lemma verify_block_at_iff s b h :
  verify_block_at s b (Ht h) = true <->
  exists x y, nthZ (bs_hdrs b) (h - hz (b_start b)) = Some x /\ nthZ (bfile s) h = Some y /\ hid x = hid y.
Proof.
  unfold verify_block_at, bs_get, b_fetch, ix_of_height. cbn [hz iz].
  destruct (nthZ (bs_hdrs b) (h - hz (b_start b))) as [x|]; [|split; [discriminate | intros (x & y & Hx & _); discriminate]].
  destruct (nthZ (bfile s) h) as [y|]; [|split; [discriminate | intros (x' & y & _ & Hy & _); discriminate]].
  split.
  - intros He. exists x, y. repeat split. lia.
  - intros (x' & y' & Hx & Hy & He). inversion Hx; inversion Hy; subst. lia.
Qed.

Lemma verify_filter_at_iff s b f h :
  verify_filter_at s b f (Ht h) = true <->
  exists x, nthZ (fs_hdrs f) (h - hz (b_start b)) = Some x /\ nthZ (ffile s) h = Some x.
Proof.
  unfold verify_filter_at, fs_get, f_fetch, ix_of_height. cbn [hz iz].
  destruct (nthZ (fs_hdrs f) (h - hz (b_start b))) as [x|]; [|split; [discriminate | intros (x & Hx & _); discriminate]].
  destruct (nthZ (ffile s) h) as [y|]; [|split; [discriminate | intros (x' & _ & Hy); discriminate]].
  cbn [fe_hash]. split.
  - intros He. exists x. split; [reflexivity|]. f_equal. lia.
  - intros (x' & Hx & Hy). inversion Hx; inversion Hy; subst. lia.
Qed.

Lemma connection_iff s b th ph :
  connection s b (Ht th) (Ht ph) = true <->
  exists p c, nthZ (bfile s) ph = Some p /\ nthZ (bs_hdrs b) (th - hz (b_start b)) = Some c /\ hprev c = hid p.
Proof.
  unfold connection, bs_get, b_fetch, ix_of_height. cbn [hz iz].
  destruct (nthZ (bfile s) ph) as [p|]; [|split; [discriminate | intros (p & c & Hp & _); discriminate]].
  destruct (nthZ (bs_hdrs b) (th - hz (b_start b))) as [c|]; [|split; [discriminate | intros (p' & c & _ & Hc & _); discriminate]].
  split.
  - intros He. exists p, c. repeat split. lia.
  - intros (p' & c' & Hp & Hc & He). inversion Hp; inversion Hc; subst. lia.
Qed.

(* stores at equal heights n: what a passed continuity check says *)
Lemma continuity_equal_facts s b f :
  stores_wf s -> length (bfile s) = length (ffile s) -> continuity s b f = true ->
  let n := Z.of_nat (length (bfile s)) in
  let st := hz (b_start b) in let en := hz (b_end b) in
  st <= n /\
  (st < n -> verify_at s b f (Ht st) VBoth = true) /\
  (st < n -> st < Z.min (n - 1) en -> verify_at s b f (Ht (Z.min (n - 1) en)) VBoth = true).
Proof.
  intros Hwf Heq Hc. pose proof (wf_tips s Hwf) as [Hbt [y Hft]].
  rewrite (continuity_tips _ _ _ _ _ _ _ Hbt Hft) in Hc. unfold cont_expr in Hc.
  rewrite <- Heq in Hc. cbn zeta.
  set (n := Z.of_nat (length (bfile s))) in *.
  replace (Z.min (n - 1) (n - 1)) with (n - 1) in Hc by lia.
  destruct (hz (b_start b) >? n - 1 + 1) eqn:E1; [discriminate|].
  split; [lia|].
  destruct (hz (b_start b) >? n - 1) eqn:E2.
  { split; intros; lia. }
  apply andb_true_iff in Hc. destruct Hc as [Hc _].
  apply andb_true_iff in Hc. destruct Hc as [H1 H2].
  split; [intros _; exact H1|].
  intros _ Hlt. destruct (Z.min (n - 1) (hz (b_end b)) >? hz (b_start b)) eqn:E3; [exact H2 | lia].
Qed.

(* the validated file on top of a valid stored chain: valid, provided the
   file's header at the store's tip height is the store's tip (checked by the
   overlap / divergence verification) *)
Lemma extend_valid_gen P s b B :
  stores_wf s -> 0 <= hz (b_start b) ->
  hash_inj (bfile s ++ bs_hdrs b) -> retarget_ok P ->
  validate_blocks P s b B = true ->
  (hz (b_start b) < Z.of_nat (length (bfile s)) -> Z.of_nat (length (bfile s)) <= hz (b_end b) ->
     verify_block_at s b (Ht (Z.of_nat (length (bfile s)) - 1)) = true) ->
  valid_chain P (bfile s) ->
  valid_chain P (extend (bfile s) (hz (b_start b)) (bs_hdrs b)).
Proof.
  intros Hwf Hst Hinj HR Hvb Hvat Hold.
  unfold extend.
  destruct ((Z.of_nat (length (bfile s)) - hz (b_start b) <? 0) ||
            (Z.of_nat (length (bfile s)) - hz (b_start b) >? Z.of_nat (length (bs_hdrs b)))) eqn:Erange;
    [exact Hold|].
  set (n := Z.of_nat (length (bfile s))) in *. set (st := hz (b_start b)) in *.
  set (kN := Z.to_nat (n - st)).
  destruct (Z.eq_dec (n - st) (Z.of_nat (length (bs_hdrs b)))) as [Hall|Hnall].
  { rewrite skipn_all2 by lia. now rewrite app_nil_r. }
  assert (Hend : hz (b_end b) = st + Z.of_nat (length (bs_hdrs b)) - 1) by reflexivity.
  assert (Hn1 : 1 <= n).
  { destruct Hwf as [W1 _ _ _ _ _ _]. unfold n. destruct (bfile s); [congruence | cbn [length]; lia]. }
  destruct (validate_blocks_chain _ _ _ _ Hvb) as [Hchain Hseed]. fold st in Hchain, Hseed.
  pose (sL := mkS (bfile s ++ skipn kN (bs_hdrs b)) (ffile s) (sidx s) (btip s) (ftip s)).
  apply (stitch P (lk s b) (bfile s) (bs_hdrs b) kN st); try assumption.
  - unfold kN. fold n. lia.
  - unfold kN. lia.
  - (* file starts right above the store: the seed pair *)
    intros Hk0 q x Hq Hx. apply Hseed; [unfold kN in Hk0; lia | | exact Hx].
    unfold b_fetch. cbn [hz].
    replace (st - 1) with (Z.of_nat (length (bfile s) - 1)) by (unfold kN in Hk0; lia).
    now rewrite nthZ_nth_error.
  - (* overlap: the file's header at the store's tip height is the store's tip *)
    intros Hk q x Hq Hx.
    specialize (Hvat ltac:(unfold kN in Hk; lia) ltac:(lia)).
    apply verify_block_at_iff in Hvat. destruct Hvat as (x' & y' & Hx' & Hy' & He). fold st in Hx'.
    replace (n - 1 - st) with (Z.of_nat (kN - 1)) in Hx' by (unfold kN in *; lia).
    replace (n - 1) with (Z.of_nat (length (bfile s) - 1)) in Hy' by (unfold n; lia).
    rewrite nthZ_nth_error in Hx', Hy'.
    assert (x' = x) by congruence. assert (y' = q) by congruence. subst x' y'.
    apply Hinj; [| | exact He].
    + apply in_or_app. right. now apply nth_error_In in Hx.
    + apply in_or_app. left. now apply nth_error_In in Hq.
  - (* the validators' lookup reads the extended chain *)
    intros h Hh. rewrite <- (lk_extend s sL b kN); [| reflexivity | fold st n; unfold kN; lia | assumption].
    change (bfile s ++ skipn kN (bs_hdrs b)) with (bfile sL). apply lk_self; assumption.
Qed.

Lemma extend_valid P s b f bs :
  stores_wf s -> length (bfile s) = length (ffile s) -> 0 <= hz (b_start b) ->
  hash_inj (bfile s ++ bs_hdrs b) -> retarget_ok P ->
  checks P s b f bs = true -> valid_chain P (bfile s) ->
  valid_chain P (extend (bfile s) (hz (b_start b)) (bs_hdrs b)).
Proof.
  intros Hwf Heq Hst Hinj HR Hck Hold.
  destruct (checks_facts _ _ _ _ _ Hck) as (Hne & Hlen & Hfst & Hcont & Hvb & _).
  apply (extend_valid_gen P s b (eff_batch bs)); try assumption.
  intros Hlt Hen.
  destruct (continuity_equal_facts s b f Hwf Heq Hcont) as (_ & Hv0 & Hov). cbn zeta in Hv0, Hov.
  set (n := Z.of_nat (length (bfile s))) in *. set (st := hz (b_start b)) in *.
  destruct (Z_lt_dec st (n - 1)) as [Hlt1|Hnlt].
  - specialize (Hov Hlt ltac:(lia)). replace (Z.min (n - 1) (hz (b_end b))) with (n - 1) in Hov by lia.
    cbn [verify_at] in Hov. apply andb_true_iff in Hov. tauto.
  - specialize (Hv0 Hlt). replace (n - 1) with st by lia.
    cbn [verify_at] in Hv0. apply andb_true_iff in Hv0. tauto.
Qed.

(* ------------------------------------------------------------------ *)
(* Equal heights: the resulting block chain is valid, nothing unvalidated *)

Lemma import_chain_valid_equal P s b f bs fl c0 r s' :
  stores_wf s -> length (bfile s) = length (ffile s) -> 0 <= hz (b_start b) ->
  NoDup (map hid (extend (bfile s) (hz (b_start b)) (bs_hdrs b))) ->
  hash_inj (bfile s ++ bs_hdrs b) -> retarget_ok P ->
  checks P s b f bs = true -> process_regions s b f bs fl c0 = (r, s') ->
  valid_chain P (bfile s) -> valid_chain P (bfile s').
Proof.
  intros Hwf Heq Hst Hnd Hinj HR Hck Him Hold.
  pose proof (extend_valid P s b f bs Hwf Heq Hst Hinj HR Hck Hold) as HL.
  destruct (checks_facts _ _ _ _ _ Hck) as (Hne & Hlen & Hfst & Hcont & _).
  destruct (import_equal_heights _ _ _ _ _ _ _ _ Hwf Heq Hst Hnd Hne Hlen Hfst Hcont Him) as (_ & _ & Hcp & _).
  destruct Hcp as ([rest Hrest] & _). rewrite <- Hrest in HL.
  now apply valid_chain_prefix in HL.
Qed.

Lemma vff_skipn P : forall l j h, validate_filters_from P l h = true ->
  validate_filters_from P (skipn j l) (h + Z.of_nat j) = true.
Proof.
  induction l as [|x r IH]; intros j h Hv.
  - now rewrite skipn_nil.
  - destruct j as [|j]; [cbn [skipn]; now replace (h + Z.of_nat 0) with h by lia|].
    cbn [skipn]. cbn [validate_filters_from] in Hv. apply andb_true_iff in Hv. destruct Hv as [_ Hv].
    replace (h + Z.of_nat (S j)) with (h + 1 + Z.of_nat j) by lia. now apply IH.
Qed.

Lemma vff_firstn P : forall l j h, validate_filters_from P l h = true ->
  validate_filters_from P (firstn j l) h = true.
Proof.
  induction l as [|x r IH]; intros j h Hv.
  - now rewrite firstn_nil.
  - destruct j as [|j]; [reflexivity|].
    cbn [firstn validate_filters_from] in *. apply andb_true_iff in Hv. destruct Hv as [H1 H2].
    now rewrite H1, IH.
Qed.

Lemma extend_alt {A} (old : list A) st file : st <= Z.of_nat (length old) ->
  extend old st file = old ++ skipn (Z.to_nat (Z.of_nat (length old) - st)) file.
Proof.
  intros Hst. unfold extend.
  destruct ((Z.of_nat (length old) - st <? 0) || (Z.of_nat (length old) - st >? Z.of_nat (length file))) eqn:E;
    [|reflexivity].
  rewrite skipn_all2 by lia. now rewrite app_nil_r.
Qed.

(* every filter header the import added respects the checkpoints *)
Lemma filters_validated P (oldF newF fh : list Z) st rest :
  validate_filters_from P fh st = true -> 0 <= st ->
  newF ++ rest = extend oldF st fh -> (length oldF <= length newF)%nat ->
  validate_filters_from P (skipn (length oldF) newF) (Z.of_nat (length oldF)) = true.
Proof.
  intros Hv Hst Hrest Hlen.
  destruct (Z_le_dec st (Z.of_nat (length oldF))) as [Hle|Hgt].
  - rewrite extend_alt in Hrest by assumption.
    set (kF := Z.to_nat (Z.of_nat (length oldF) - st)) in *.
    assert (Hn : newF = oldF ++ firstn (length newF - length oldF) (skipn kF fh)).
    { pose proof (firstn_app_exact newF rest) as Hfx. rewrite Hrest, firstn_app in Hfx.
      rewrite (firstn_all2 oldF) in Hfx by lia. now symmetry. }
    rewrite Hn at 1. rewrite skipn_app_exact.
    apply vff_firstn. replace (Z.of_nat (length oldF)) with (st + Z.of_nat kF) by (unfold kF; lia).
    now apply vff_skipn.
  - unfold extend in Hrest.
    destruct ((Z.of_nat (length oldF) - st <? 0) || (Z.of_nat (length oldF) - st >? Z.of_nat (length fh))) eqn:E; [|lia].
    apply (f_equal (@length _)) in Hrest. rewrite app_length in Hrest.
    rewrite skipn_all2 by lia. reflexivity.
Qed.

Lemma pair_ok_ext P look1 look2 pe ce :
  (forall k, look1 k = look2 k) -> pair_ok P look1 pe ce = pair_ok P look2 pe ce.
Proof.
  intros Hk. destruct pe as [p ph], ce as [c ch]. unfold pair_ok, ctx_ok.
  assert (He : expected_bits P look1 ph p = expected_bits P look2 ph p).
  { unfold expected_bits. now rewrite Hk. }
  assert (Hm : mtp look1 ph p = mtp look2 ph p).
  { unfold mtp. rewrite (collect_times_local 11 look1 look2 ph (htime p)); [reflexivity|].
    intros k _. apply Hk. }
  rewrite He, Hm. reflexivity.
Qed.

(* ------------------------------------------------------------------ *)
(* Block store ahead of the filter store: the filter-only batch loop *)

Lemma wf_hid_height s i j x y : stores_wf s ->
  nthZ (bfile s) i = Some x -> nthZ (bfile s) j = Some y -> hid x = hid y -> i = j.
Proof.
  intros Hwf Hx Hy He. destruct Hwf as [_ _ _ _ W5 _ _].
  apply W5 in Hx. apply W5 in Hy. rewrite He in Hx. congruence.
Qed.

Definition cntE (e i B : Z) : Z := Z.min e (i + B - 1) - i + 1.

Lemma read_batch_ok_gen {A} (get : index -> option A) avail i e B (l : list A) :
  1 <= B -> 0 <= i <= e -> e <= avail - 1 ->
  read_range get (Z.to_nat (cntE e i B)) i = Some l -> length l = Z.to_nat (cntE e i B) ->
  read_batch get avail (Ix i) (Ix e) B = RB_ok l.
Proof.
  intros HB Hi He Hr Hl. unfold read_batch. cbn [iz].
  destruct (i >? Z.min e (i + B - 1)) eqn:E; [lia|].
  replace (Z.min (Z.min e (i + B - 1) - i + 1) (avail + 1)) with (cntE e i B) by (unfold cntE; lia).
  rewrite Hr. destruct l; [|reflexivity]. unfold cntE in Hl. cbn in Hl. lia.
Qed.

(* filterHeaderStore.WriteHeaders below the block tip *)
Lemma wf_fwrite_lag s fes x :
  stores_wf s -> fes <> [] ->
  nthZ (bfile s) (Z.of_nat (length (ffile s) + length fes) - 1) = Some x ->
  fe_blk (lastd fes (FE 0 0 0)) = hid x ->
  stores_wf (f_write s fes).
Proof.
  intros Hwf Hne Hx Hblk. pose proof (nthZ_lt _ _ _ Hx) as Hlt.
  destruct Hwf as [W1 W2 W3 W4 W5 [W6a W6b] [xf [W7a W7b]]].
  rewrite f_write_ne by assumption.
  constructor; cbn [bfile ffile sidx btip ftip]; try assumption.
  - destruct (ffile s); [congruence | discriminate].
  - rewrite app_length, map_length. lia.
  - now split.
  - exists x. split; [|assumption]. now rewrite app_length, map_length.
Qed.

Lemma write_both_nil fl c s fb r s' c' :
  write_both fl c s [] fb = (r, s', c') ->
  (r = Failure /\ s' = s) \/ (r = Success /\ s' = f_write s fb).
Proof.
  unfold write_both. cbn [length Nat.eqb negb andb b_write].
  destruct (negb (Nat.eqb (length fb) 0) && ((if Nat.eqb (length fb) 0 then c_fw c else c_fw c + 1) =? fl_fw fl));
    intros Hw; inversion Hw; auto.
Qed.

Section LoopF.
  Variables (b : bsource) (f : fsource) (fl : faults) (B : Z).
  Variables (ob : list hdr) (ofl : list Z).
  Variables (st len m0 de : Z).
  Hypothesis Est : st = hz (b_start b).
  Hypothesis Elen : len = Z.of_nat (length (bs_hdrs b)).
  Hypothesis Em0 : m0 = Z.of_nat (length ofl).
  Hypothesis HB : 1 <= B.
  Hypothesis Hst : 0 <= st.
  Hypothesis Hlen : length (fs_hdrs f) = length (bs_hdrs b).
  Hypothesis Hfst : hz (m_start (fs_meta f)) = st.
  Hypothesis Hm0 : st <= m0.
  Hypothesis Hde1 : de <= st + len - 1.
  Hypothesis Hde2 : de < Z.of_nat (length ob).

  Definition InvF (s : stores) (h : Z) : Prop :=
    stores_wf s /\ bfile s = ob /\ Z.of_nat (length (ffile s)) = h /\ m0 <= h <= de + 1 /\
    ffile s ++ skipn (Z.to_nat (h - st)) (fs_hdrs f) = ofl ++ skipn (Z.to_nat (m0 - st)) (fs_hdrs f).

  Definition PostF (s : stores) : Prop :=
    stores_wf s /\ bfile s = ob /\
    (exists r, ffile s ++ r = ofl ++ skipn (Z.to_nat (m0 - st)) (fs_hdrs f)) /\
    (length ofl <= length (ffile s))%nat /\ Z.of_nat (length (ffile s)) <= de + 1.

  Lemma InvF_PostF s h : InvF s h -> PostF s.
  Proof.
    intros (Hwf & Hb & Hf & Hh & Ef). unfold PostF.
    split; [assumption|]. split; [assumption|]. split; [eexists; exact Ef|]. split; lia.
  Qed.

  Lemma stepF_ok c s h res s' c' :
    InvF s h ->
    process_batch fl c s b f (Ht h) (ix_of_height (Ht h) (b_start b)) (Ix (de - st)) B AFilter = (res, s', c') ->
    (h > de /\ res = B_eof /\ s' = s) \/
    (h <= de /\ res = B_fail /\ s' = s) \/
    (h <= de /\ exists h', res = B_done (Ht (h' - 1)) /\ h < h' /\ InvF s' h').
  Proof.
    intros HI Hp. destruct HI as (Hwf & Hb & Hf & Hh & Ef).
    unfold process_batch, ix_of_height in Hp. cbn [hz] in Hp. rewrite <- Est in Hp.
    unfold b_count in Hp. rewrite <- Elen in Hp.
    destruct (Z_gt_dec h de) as [Hgt|Hle].
    { rewrite read_batch_eof in Hp by lia. inversion Hp. left. auto. }
    right.
    set (k := Z.to_nat (cntE (de - st) (h - st) B)) in *.
    assert (Hk : (1 <= k)%nat /\ h + Z.of_nat k - 1 <= de) by (unfold k, cntE; lia).
    set (cf := firstn k (skipn (Z.to_nat (h - st)) (fs_hdrs f))) in *.
    assert (Lcf : length cf = k) by (unfold cf; rewrite firstn_length, skipn_length; lia).
    assert (Ncf : cf <> []) by (destruct cf; [cbn in Lcf; lia | discriminate]).
    rewrite (read_batch_ok_gen (fs_get f) len (h - st) (de - st) B (fents cf h)) in Hp;
      [| lia | lia | lia | | now rewrite fents_length].
    2:{ fold k. rewrite read_range_f by lia. fold cf. rewrite Hfst. f_equal. f_equal. lia. }
    rewrite fents_length, Lcf in Hp.
    unfold b_fetch in Hp. cbn [hz] in Hp. rewrite Hb in Hp.
    destruct (nthZ_is_some ob (h + Z.of_nat k - 1)) as [x Hx]; [lia|]. rewrite Hx in Hp.
    set (fb := set_last_blk (fents cf h) (hid x)) in *.
    assert (Nfb : fb <> []).
    { intro E. apply (f_equal (@length _)) in E. unfold fb in E.
      rewrite set_last_blk_length, fents_length in E. cbn in E. lia. }
    assert (Hsplit_f : skipn (Z.to_nat (h - st)) (fs_hdrs f) = cf ++ skipn (Z.to_nat (h + Z.of_nat k - st)) (fs_hdrs f)).
    { rewrite (skipn_split _ _ k). fold cf. f_equal. f_equal. lia. }
    destruct (write_both fl c s [] fb) as [[r s1] c1] eqn:Ew.
    apply write_both_nil in Ew. destruct Ew as [[-> ->]|[-> ->]].
    - inversion Hp; subst res s' c'. left. auto.
    - inversion Hp; subst res s' c'. right. split; [lia|].
      exists (h + Z.of_nat k). split; [reflexivity|]. split; [lia|].
      assert (Hf2 : ffile (f_write s fb) = ffile s ++ cf).
      { rewrite f_write_ne by assumption. cbn [ffile]. unfold fb.
        now rewrite set_last_blk_hash, fents_hash. }
      assert (Hb2 : bfile (f_write s fb) = ob).
      { rewrite f_write_ne by assumption. exact Hb. }
      unfold InvF. split.
      { apply (wf_fwrite_lag s fb x); [assumption | assumption | |].
        * rewrite Hb. unfold fb. rewrite set_last_blk_length, fents_length, Lcf.
          rewrite <- Hx. f_equal. lia.
        * unfold fb. apply set_last_blk_last.
          intro E. apply (f_equal (@length _)) in E. rewrite fents_length in E. cbn in E. lia. }
      split; [assumption|].
      split. { rewrite Hf2, app_length. lia. }
      split. { lia. }
      rewrite Hf2, <- app_assoc, <- Hsplit_f. exact Ef.
  Qed.

  Lemma loopF_ok : forall fuel c s h r s' c',
    InvF s h -> Z.of_nat fuel > de + 1 - h ->
    append_loop fuel fl c s b f (Ht h) (Ix (de - st)) B AFilter = (r, s', c') ->
    PostF s' /\ (r = Success -> InvF s' (de + 1)).
  Proof.
    induction fuel as [|k IH]; intros c s h r s' c' HI Hfuel Hl.
    { destruct HI as (_ & _ & _ & Hh & _). lia. }
    cbn [append_loop] in Hl.
    destruct (is_canc fl (c_poll (tick c))).
    { inversion Hl; subst r s' c'. split; [now apply (InvF_PostF s h) | discriminate]. }
    destruct (process_batch fl (tick c) s b f (Ht h) (ix_of_height (Ht h) (b_start b)) (Ix (de - st)) B AFilter)
      as [[res s1] c1] eqn:Ep.
    apply (stepF_ok (tick c) s h res s1 c1 HI) in Ep.
    destruct Ep as [(Hgt & -> & ->)|[(Hle & -> & ->)|(Hle & h' & -> & Hlt & HI')]].
    - inversion Hl; subst r s' c'. split; [now apply (InvF_PostF s h)|]. intros _.
      assert (h = de + 1) by (destruct HI as (_ & _ & _ & Hh & _); lia). now subst h.
    - inversion Hl; subst r s' c'. split; [now apply (InvF_PostF s h) | discriminate].
    - replace (h' - 1 + 1) with h' in Hl by lia.
      apply (IH c1 s1 h' r s' c' HI'); [lia | assumption].
  Qed.
End LoopF.

(* ------------------------------------------------------------------ *)
(* Idempotence *)

Lemma nthZ_app_skip {A} (old l : list A) kN h :
  Z.of_nat (length old) <= h ->
  nthZ (old ++ skipn kN l) h = nthZ l (Z.of_nat kN + (h - Z.of_nat (length old))).
Proof.
  intros Hh. rewrite nthZ_app_r by lia.
  replace kN with (Z.to_nat (Z.of_nat kN)) at 1 by lia. apply nthZ_skipn; lia.
Qed.

(* a file lying entirely within both stores and agreeing with them at its
   first and last height: Import succeeds and writes nothing *)
Lemma import_within P s s' b f bs fl' :
  stores_wf s' -> checks P s b f bs = true ->
  validate_blocks P s' b (eff_batch bs) = validate_blocks P s b (eff_batch bs) ->
  hz (b_end b) < Z.of_nat (length (ffile s')) ->
  verify_at s' b f (Ht (hz (b_start b))) VBoth = true ->
  (hz (b_end b) > hz (b_start b) -> verify_at s' b f (Ht (hz (b_end b))) VBoth = true) ->
  import P s' b f bs fl' = (Success, s').
Proof.
  intros Hwf' Hck Hvb' Hen Hv0 Hv1.
  destruct (checks_facts _ _ _ _ _ Hck) as (Hne & Hlen & Hfst & Hcont & Hvb & Hvf).
  pose proof (wf_tips s' Hwf') as [Hbt' [y' Hft']].
  pose proof (wf_f_le_b s' Hwf') as Hle'.
  set (n' := Z.of_nat (length (bfile s'))) in *. set (m' := Z.of_nat (length (ffile s'))) in *.
  set (st := hz (b_start b)) in *.
  assert (Hend : hz (b_end b) = st + Z.of_nat (length (bs_hdrs b)) - 1) by reflexivity.
  assert (Hcont' : continuity s' b f = true).
  { rewrite (continuity_tips _ _ _ _ _ _ _ Hbt' Hft'). unfold cont_expr. fold st.
    replace (Z.min (n' - 1) (m' - 1)) with (m' - 1) by lia.
    replace (st >? m' - 1 + 1) with false by lia.
    replace (st >? m' - 1) with false by lia.
    replace (Z.min (m' - 1) (hz (b_end b))) with (hz (b_end b)) by lia.
    replace (hz (b_end b) <? hz (b_end b)) with false by lia.
    rewrite andb_true_r, Hv0. cbn [andb].
    destruct (hz (b_end b) >? st) eqn:E; [apply Hv1; lia | reflexivity]. }
  assert (Hck' : checks P s' b f bs = true).
  { unfold checks in *.
    apply andb_true_iff in Hck; destruct Hck as [Hck H5].
    apply andb_true_iff in Hck; destruct Hck as [Hck H4].
    apply andb_true_iff in Hck; destruct Hck as [Hck H3].
    apply andb_true_iff in Hck; destruct Hck as [Hck H2].
    rewrite Hck, H2, Hcont', H5, Hvb', H4. reflexivity. }
  rewrite (import_after_checks _ _ _ _ _ _ Hck').
  unfold process_regions, regions. rewrite Hbt', Hft'.
  clear Hv0 Hv1 Hcont' Hck' Hck Hcont Hvb Hvb' Hvf Hbt' Hft'.
  destruct (n' - 1 >? m' - 1); [|destruct (n' - 1 <? m' - 1)];
    cbn [r_exists r_start r_end r_v r_a];
    replace (Z.min (n' - 1) (m' - 1) + 1 <=? Z.min (Z.max (n' - 1) (m' - 1)) (hz (b_end b))) with false by lia;
    rewrite andb_false_r;
    replace (Z.max (n' - 1) (m' - 1) + 1 <=? hz (b_end b)) with false by lia;
    reflexivity.
Qed.

Lemma validate_blocks_after P s s' b kN B :
  bfile s' = bfile s ++ skipn kN (bs_hdrs b) ->
  hz (b_start b) = Z.of_nat (length (bfile s)) - Z.of_nat kN -> 0 <= hz (b_start b) ->
  validate_blocks P s' b B = validate_blocks P s b B.
Proof.
  intros Hb Est Hst. unfold validate_blocks.
  assert (Hseed : b_fetch s' (Ht (hz (b_start b) - 1)) = b_fetch s (Ht (hz (b_start b) - 1))).
  { unfold b_fetch. cbn [hz]. rewrite Hb. apply nthZ_app_l. lia. }
  rewrite Hseed. apply validate_chunks_ext.
  intros pe ce. apply pair_ok_ext. intros k. now apply (lk_extend s s' b kN).
Qed.

(* the stores after the import agree with the file at height h *)
Lemma verify_at_after s s' b f kN kF h :
  bfile s' = bfile s ++ skipn kN (bs_hdrs b) -> ffile s' = ffile s ++ skipn kF (fs_hdrs f) ->
  hz (b_start b) = Z.of_nat (length (bfile s)) - Z.of_nat kN ->
  hz (b_start b) = Z.of_nat (length (ffile s)) - Z.of_nat kF ->
  length (fs_hdrs f) = length (bs_hdrs b) ->
  hz (b_start b) <= h <= hz (b_end b) ->
  (h < Z.of_nat (length (bfile s)) -> verify_block_at s b (Ht h) = true) ->
  (h < Z.of_nat (length (ffile s)) -> verify_filter_at s b f (Ht h) = true) ->
  verify_at s' b f (Ht h) VBoth = true.
Proof.
  intros Hb Hf Est EstF Hlen Hh HoldB HoldF.
  unfold b_end, b_count in Hh. cbn [hz] in Hh.
  cbn [verify_at]. apply andb_true_iff. split.
  - destruct (Z_lt_dec h (Z.of_nat (length (bfile s)))) as [Hlt|Hge].
    + specialize (HoldB Hlt). apply verify_block_at_iff in HoldB. destruct HoldB as (x & y & Hx & Hy & He).
      apply verify_block_at_iff. exists x, y. split; [exact Hx|]. split; [|exact He].
      rewrite Hb, nthZ_app_l by lia. exact Hy.
    + destruct (nthZ_is_some (bs_hdrs b) (h - hz (b_start b))) as [x Hx]; [lia|].
      apply verify_block_at_iff. exists x, x. split; [exact Hx|]. split; [|reflexivity].
      rewrite Hb, nthZ_app_skip by lia. rewrite <- Hx. f_equal. lia.
  - destruct (Z_lt_dec h (Z.of_nat (length (ffile s)))) as [Hlt|Hge].
    + specialize (HoldF Hlt). apply verify_filter_at_iff in HoldF. destruct HoldF as (x & Hx & Hy).
      apply verify_filter_at_iff. exists x. split; [exact Hx|].
      rewrite Hf, nthZ_app_l by lia. exact Hy.
    + destruct (nthZ_is_some (fs_hdrs f) (h - hz (b_start b))) as [x Hx]; [lia|].
      apply verify_filter_at_iff. exists x. split; [exact Hx|].
      rewrite Hf, nthZ_app_skip by lia. rewrite <- Hx. f_equal. lia.
Qed.

Lemma import_idem_equal P s b f bs fl c0 s' :
  stores_wf s -> length (bfile s) = length (ffile s) -> 0 <= hz (b_start b) ->
  NoDup (map hid (extend (bfile s) (hz (b_start b)) (bs_hdrs b))) ->
  checks P s b f bs = true -> process_regions s b f bs fl c0 = (Success, s') ->
  forall fl', import P s' b f bs fl' = (Success, s').
Proof.
  intros Hwf Heq Hst Hnd Hck Him fl'.
  destruct (checks_facts _ _ _ _ _ Hck) as (Hne & Hlen & Hfst & Hcont & Hvb & Hvf).
  destruct (import_equal_heights _ _ _ _ _ _ _ _ Hwf Heq Hst Hnd Hne Hlen Hfst Hcont Him) as (Hwf' & _ & _ & HS).
  destruct (HS eq_refl) as (HbL & HfL & Hen & Heq'). clear HS.
  destruct (continuity_equal_facts s b f Hwf Heq Hcont) as (Hstn & Hv0 & Hv1). cbn zeta in Hstn, Hv0, Hv1.
  set (n := Z.of_nat (length (bfile s))) in *. set (st := hz (b_start b)) in *.
  set (kN := Z.to_nat (n - st)).
  rewrite extend_alt in HbL by assumption. fold n kN in HbL.
  rewrite extend_alt in HfL by (rewrite <- Heq; assumption). rewrite <- Heq in HfL. fold n kN in HfL.
  assert (Est : st = n - Z.of_nat kN) by (unfold kN; lia).
  assert (Hend : hz (b_end b) = st + Z.of_nat (length (bs_hdrs b)) - 1) by reflexivity.
  apply (import_within P s s' b f bs fl' Hwf' Hck).
  - apply (validate_blocks_after P s s' b kN _ HbL Est Hst).
  - lia.
  - apply (verify_at_after s s' b f kN kN st HbL HfL Est); [rewrite <- Heq; exact Est | exact Hlen | fold st; lia | |].
    + intros Hlt. specialize (Hv0 Hlt). cbn [verify_at] in Hv0. apply andb_true_iff in Hv0. tauto.
    + intros Hlt. rewrite <- Heq in Hlt. specialize (Hv0 Hlt). cbn [verify_at] in Hv0. apply andb_true_iff in Hv0. tauto.
  - intros Hgt.
    assert (Hv : hz (b_end b) < n -> verify_at s b f (Ht (hz (b_end b))) VBoth = true).
    { intros Hlt. replace (hz (b_end b)) with (Z.min (n - 1) (hz (b_end b))) by lia. apply Hv1; lia. }
    apply (verify_at_after s s' b f kN kN (hz (b_end b)) HbL HfL Est); [rewrite <- Heq; exact Est | exact Hlen | fold st; lia | |].
    + intros Hlt. specialize (Hv Hlt). cbn [verify_at] in Hv. apply andb_true_iff in Hv. tauto.
    + intros Hlt. rewrite <- Heq in Hlt. specialize (Hv Hlt). cbn [verify_at] in Hv. apply andb_true_iff in Hv. tauto.
Qed.

(* ------------------------------------------------------------------ *)
(* What Import guarantees, for any outcome *)

Definition regions_post (P : params) (b : bsource) (f : fsource) (bs : Z) (fl : faults)
           (s : stores) (r : result) (s' : stores) : Prop :=
  stores_wf s' /\
  (exists rest, bfile s' ++ rest = extend (bfile s) (hz (b_start b)) (bs_hdrs b)) /\
  (exists rest, ffile s' ++ rest = extend (ffile s) (hz (b_start b)) (fs_hdrs f)) /\
  (length (bfile s) <= length (bfile s'))%nat /\ (length (ffile s) <= length (ffile s'))%nat /\
  (fl_rb fl = false ->
     Z.of_nat (length (bfile s')) - Z.of_nat (length (ffile s')) <=
     Z.of_nat (length (bfile s)) - Z.of_nat (length (ffile s)) /\
     (length (bfile s') = length (bfile s) \/ length (bfile s') = length (ffile s'))) /\
  (valid_chain P (bfile s) -> valid_chain P (bfile s')) /\
  validate_filters_from P (skipn (length (ffile s)) (ffile s')) (Z.of_nat (length (ffile s))) = true /\
  (r = Success ->
     bfile s' = extend (bfile s) (hz (b_start b)) (bs_hdrs b) /\
     ffile s' = extend (ffile s) (hz (b_start b)) (fs_hdrs f) /\
     hz (b_end b) < Z.of_nat (length (ffile s')) /\
     (valid_chain P (bfile s) -> forall fl', import P s' b f bs fl' = (Success, s'))).

Lemma extend_below {A} (old : list A) st file :
  st + Z.of_nat (length file) - 1 < Z.of_nat (length old) -> extend old st file = old.
Proof.
  intros Hb. unfold extend.
  destruct ((Z.of_nat (length old) - st <? 0) || (Z.of_nat (length old) - st >? Z.of_nat (length file))) eqn:E;
    [reflexivity|].
  rewrite skipn_all2 by lia. now rewrite app_nil_r.
Qed.

Lemma post_unchanged P b f bs fl s r :
  stores_wf s ->
  (r = Success -> hz (b_end b) < Z.of_nat (length (ffile s)) /\ length (fs_hdrs f) = length (bs_hdrs b) /\
                  forall fl', import P s b f bs fl' = (Success, s)) ->
  regions_post P b f bs fl s r s.
Proof.
  intros Hwf HS. unfold regions_post.
  split; [assumption|]. split; [apply extend_prefix|]. split; [apply extend_prefix|].
  split; [lia|]. split; [lia|]. split; [intros _; split; [lia | now left]|]. split; [tauto|].
  split; [now rewrite skipn_all|].
  intros Hr. destruct (HS Hr) as (Hen & Hlen & Hid).
  pose proof (wf_f_le_b s Hwf) as Hle. unfold b_end, b_count in Hen. cbn [hz] in Hen.
  split; [symmetry; apply extend_below; lia|].
  split; [symmetry; apply extend_below; lia|].
  split; [exact Hen | intros _; exact Hid].
Qed.

(* ------------------------------------------------------------------ *)
(* Block store ahead of the filter store *)

(* any wf pair of stores: what a passed continuity check says (m = filter
   store length = effective tip + 1) *)
Lemma continuity_facts s b f :
  stores_wf s -> continuity s b f = true ->
  let m := Z.of_nat (length (ffile s)) in
  let st := hz (b_start b) in let en := hz (b_end b) in
  st <= m /\
  (st < m -> verify_at s b f (Ht st) VBoth = true) /\
  (st < m -> st < Z.min (m - 1) en -> verify_at s b f (Ht (Z.min (m - 1) en)) VBoth = true).
Proof.
  intros Hwf Hc. pose proof (wf_tips s Hwf) as [Hbt [y Hft]]. pose proof (wf_f_le_b s Hwf) as Hle.
  rewrite (continuity_tips _ _ _ _ _ _ _ Hbt Hft) in Hc. unfold cont_expr in Hc. cbn zeta.
  set (n := Z.of_nat (length (bfile s))) in *. set (m := Z.of_nat (length (ffile s))) in *.
  replace (Z.min (n - 1) (m - 1)) with (m - 1) in Hc by lia.
  destruct (hz (b_start b) >? m - 1 + 1) eqn:E1; [discriminate|].
  split; [lia|].
  destruct (hz (b_start b) >? m - 1) eqn:E2.
  { split; intros; lia. }
  apply andb_true_iff in Hc. destruct Hc as [Hc _].
  apply andb_true_iff in Hc. destruct Hc as [H1 H2].
  split; [intros _; exact H1|].
  intros _ Hlt. destruct (Z.min (m - 1) (hz (b_end b)) >? hz (b_start b)) eqn:E3; [exact H2 | lia].
Qed.

(* the stored chain and the validated file agree at a height: they agree at
   every height of the file below it (both are hash-linked) *)
Lemma block_overlap_equal P s b B de :
  valid_chain P (bfile s) -> validate_blocks P s b B = true ->
  hash_inj (bfile s ++ bs_hdrs b) -> 0 <= hz (b_start b) ->
  verify_block_at s b (Ht de) = true ->
  forall h, hz (b_start b) <= h <= de -> verify_block_at s b (Ht h) = true.
Proof.
  intros Hold Hvb Hinj Hst Hv.
  destruct (validate_blocks_chain _ _ _ _ Hvb) as [Hchain _].
  apply valid_chain_iff in Hold.
  set (st := hz (b_start b)) in *.
  assert (Hd : forall d : nat, st <= de - Z.of_nat d ->
            exists z, nthZ (bs_hdrs b) (de - Z.of_nat d - st) = Some z /\ nthZ (bfile s) (de - Z.of_nat d) = Some z).
  { induction d as [|d IH]; intros Hge.
    - apply verify_block_at_iff in Hv. destruct Hv as (x & y & Hx & Hy & He). fold st in Hx.
      assert (x = y).
      { apply Hinj; [| | exact He].
        - apply in_or_app. right. apply nthZ_some in Hx. destruct Hx as [_ Hx]. now apply nth_error_In in Hx.
        - apply in_or_app. left. apply nthZ_some in Hy. destruct Hy as [_ Hy]. now apply nth_error_In in Hy. }
      subst y. exists x. replace (de - Z.of_nat 0) with de by lia. now split.
    - destruct (IH ltac:(lia)) as (z & Hz1 & Hz2).
      pose proof (nthZ_lt _ _ _ Hz1) as L1. pose proof (nthZ_lt _ _ _ Hz2) as L2.
      set (i := de - Z.of_nat (S d)) in *.
      replace (de - Z.of_nat d) with (i + 1) in * by (unfold i; lia).
      destruct (nthZ_is_some (bs_hdrs b) (i - st)) as [x Hx]; [lia|].
      destruct (nthZ_is_some (bfile s) i) as [y Hy]; [lia|].
      exists x. split; [exact Hx|]. rewrite Hy. f_equal. symmetry.
      assert (Hx' := Hx). assert (Hy' := Hy). assert (Hz1' := Hz1). assert (Hz2' := Hz2).
      replace (i - st) with (Z.of_nat (Z.to_nat (i - st))) in Hx' by lia.
      replace (i + 1 - st) with (Z.of_nat (S (Z.to_nat (i - st)))) in Hz1' by lia.
      replace i with (Z.of_nat (Z.to_nat i)) in Hy' by lia.
      replace (i + 1) with (Z.of_nat (S (Z.to_nat i))) in Hz2' by lia.
      rewrite nthZ_nth_error in Hx', Hz1', Hy', Hz2'.
      pose proof (Hchain _ x z Hx' Hz1') as L3. apply pair_ok_link in L3. cbn [fst] in L3.
      pose proof (Hold _ y z Hy' Hz2') as L4. apply pair_ok_link in L4. cbn [fst] in L4.
      apply Hinj; [| | congruence].
      + apply in_or_app. right. now apply nth_error_In in Hx'.
      + apply in_or_app. left. now apply nth_error_In in Hy'. }
  intros h Hh. destruct (Hd (Z.to_nat (de - h)) ltac:(lia)) as (z & Hz1 & Hz2).
  replace (de - Z.of_nat (Z.to_nat (de - h))) with h in * by lia.
  apply verify_block_at_iff. exists z, z. fold st. auto.
Qed.

(* a successful import's result, imported again *)
Lemma import_repeat P s s2 b f bs :
  stores_wf s2 -> checks P s b f bs = true -> 0 <= hz (b_start b) ->
  hz (b_start b) <= Z.of_nat (length (ffile s)) <= Z.of_nat (length (bfile s)) ->
  Z.of_nat (length (ffile s)) <= hz (b_end b) ->
  (forall h, hz (b_start b) <= h <= hz (b_end b) -> h < Z.of_nat (length (bfile s)) ->
     verify_block_at s b (Ht h) = true) ->
  (hz (b_start b) < Z.of_nat (length (ffile s)) -> verify_filter_at s b f (Ht (hz (b_start b))) = true) ->
  bfile s2 = extend (bfile s) (hz (b_start b)) (bs_hdrs b) ->
  ffile s2 = extend (ffile s) (hz (b_start b)) (fs_hdrs f) ->
  hz (b_end b) < Z.of_nat (length (ffile s2)) ->
  forall fl', import P s2 b f bs fl' = (Success, s2).
Proof.
  intros Hwf2 Hck Hst Hstm Hmen Hblk Hflt Hb2 Hf2 Hen2 fl'.
  destruct (checks_facts _ _ _ _ _ Hck) as (Hne & Hlen & _).
  set (n := Z.of_nat (length (bfile s))) in *. set (m := Z.of_nat (length (ffile s))) in *.
  set (st := hz (b_start b)) in *.
  assert (Hend : hz (b_end b) = st + Z.of_nat (length (bs_hdrs b)) - 1) by reflexivity.
  rewrite extend_alt in Hb2 by (fold n; lia). fold n in Hb2.
  rewrite extend_alt in Hf2 by (fold m; lia). fold m in Hf2.
  set (kN := Z.to_nat (n - st)) in *. set (kF := Z.to_nat (m - st)) in *.
  assert (EstN : st = n - Z.of_nat kN) by (unfold kN; lia).
  assert (EstF : st = m - Z.of_nat kF) by (unfold kF; lia).
  apply (import_within P s s2 b f bs fl' Hwf2 Hck).
  - apply (validate_blocks_after P s s2 b kN _ Hb2 EstN Hst).
  - exact Hen2.
  - apply (verify_at_after s s2 b f kN kF st Hb2 Hf2 EstN EstF Hlen); [fold st; lia | |].
    + intros Hl. apply Hblk; [lia | exact Hl].
    + intros Hl. apply Hflt. exact Hl.
  - intros Hgt.
    apply (verify_at_after s s2 b f kN kF (hz (b_end b)) Hb2 Hf2 EstN EstF Hlen); [fold st; lia | |].
    + intros Hl. apply Hblk; [lia | exact Hl].
    + intros Hl. fold m in Hl. lia.
Qed.

Lemma import_block_ahead P s b f bs fl c0 r s' :
  stores_wf s -> (length (ffile s) < length (bfile s))%nat -> 0 <= hz (b_start b) ->
  NoDup (map hid (extend (bfile s) (hz (b_start b)) (bs_hdrs b))) ->
  hash_inj (bfile s ++ bs_hdrs b) -> retarget_ok P ->
  checks P s b f bs = true -> process_regions s b f bs fl c0 = (r, s') ->
  regions_post P b f bs fl s r s'.
Proof.
  intros Hwf Hlt Hst Hnd Hinj HR Hck Him.
  destruct (checks_facts _ _ _ _ _ Hck) as (Hne & Hlen & Hfst & Hcont & Hvb & Hvf).
  destruct (continuity_facts s b f Hwf Hcont) as (Hstm & Hv0 & Hv1). cbn zeta in Hstm, Hv0, Hv1.
  pose proof (wf_tips s Hwf) as [Hbt [y Hft]].
  unfold process_regions, regions in Him. rewrite Hbt, Hft in Him.
  set (n := Z.of_nat (length (bfile s))) in *. set (m := Z.of_nat (length (ffile s))) in *.
  set (st := hz (b_start b)) in *. set (len := Z.of_nat (length (bs_hdrs b))) in *.
  assert (Hend : hz (b_end b) = st + len - 1) by reflexivity.
  assert (Hmn : m < n) by (unfold m, n; lia).
  assert (Hm1 : 1 <= m).
  { destruct Hwf as [_ W2 _ _ _ _ _]. unfold m. destruct (ffile s); [congruence | cbn [length]; lia]. }
  assert (HB : 1 <= eff_batch bs) by (unfold eff_batch; destruct (bs <=? 0) eqn:E; lia).
  replace (n - 1 >? m - 1) with true in Him by lia.
  cbn [r_exists r_start r_end r_v r_a] in Him.
  replace (negb (n - 1 =? m - 1)) with true in Him by lia. cbn [andb] in Him.
  replace (Z.min (n - 1) (m - 1) + 1) with m in Him by lia.
  replace (Z.max (n - 1) (m - 1)) with (n - 1) in Him by lia.
  replace (n - 1 + 1) with n in Him by lia.
  set (de := Z.min (n - 1) (hz (b_end b))) in *.
  assert (Hdec : (n <= hz (b_end b) -> de = n - 1) /\ (hz (b_end b) < n -> de = hz (b_end b)) /\
                 de <= hz (b_end b) /\ de < n) by (unfold de; lia).
  clearbody de.
  (* the verification facts every later import needs *)
  assert (Hsame : forall fl', hz (b_end b) < m -> import P s b f bs fl' = (Success, s)).
  { intros fl' Hen. apply (import_within P s s b f bs fl' Hwf Hck eq_refl Hen).
    - apply Hv0. fold st. lia.
    - intros Hgt. replace (hz (b_end b)) with (Z.min (m - 1) (hz (b_end b))) by lia.
      apply Hv1; fold st; lia. }
  destruct (m <=? de) eqn:Edv.
  2:{ (* the file lies within both stores: nothing to do *)
      replace (n <=? hz (b_end b)) with false in Him by lia.
      inversion Him; subst r s'. apply post_unchanged; [assumption|].
      intros _. split; [fold m; lia|]. split; [exact Hlen|].
      intros fl'. apply Hsame. lia. }
  assert (Hde : m <= de /\ de <= st + len - 1 /\ de < n) by lia.
  destruct (verify_at s b f (Ht de) VBlock) eqn:Ev.
  2:{ inversion Him; subst r s'. apply post_unchanged; [assumption | discriminate]. }
  cbn [verify_at] in Ev.
  (* phase 1: the filter store catches up *)
  unfold append_region at 1 in Him. unfold ix_of_height in Him. cbn [hz] in Him. fold st in Him.
  destruct (append_loop (S (length (bs_hdrs b))) fl c0 s b f (Ht m) (Ix (de - st)) (eff_batch bs) AFilter)
    as [[r1 s1] c1] eqn:E1.
  assert (HI0 : InvF f (bfile s) (ffile s) st m de s m).
  { unfold InvF. split; [assumption|]. repeat split; try reflexivity; lia. }
  destruct (loopF_ok b f fl (eff_batch bs) (bfile s) (ffile s) st len m de
              eq_refl eq_refl eq_refl HB Hlen Hfst Hstm ltac:(lia) ltac:(fold n; lia)
              (S (length (bs_hdrs b))) c0 s m r1 s1 c1 HI0 ltac:(fold len; lia) E1) as [HP1 HS1].
  destruct HP1 as (Q1 & Q2 & [rf Q3] & Q4 & Q5).
  assert (Hext_f : extend (ffile s) st (fs_hdrs f) = ffile s ++ skipn (Z.to_nat (m - st)) (fs_hdrs f)).
  { apply extend_app. fold m. rewrite Hlen. fold len. lia. }
  assert (Hvf' : validate_filters_from P (fs_hdrs f) st = true).
  { unfold validate_filters in Hvf. now rewrite Hfst in Hvf. }
  (* facts for a repeated import *)
  assert (Hblk : valid_chain P (bfile s) -> forall h, st <= h <= de -> verify_block_at s b (Ht h) = true).
  { intros Hold. now apply (block_overlap_equal P s b (eff_batch bs) de). }
  assert (Hflt : st < m -> verify_filter_at s b f (Ht st) = true).
  { intros Hl. specialize (Hv0 Hl). cbn [verify_at] in Hv0. apply andb_true_iff in Hv0. tauto. }
  assert (Hrepeat : valid_chain P (bfile s) -> forall s2, stores_wf s2 ->
            bfile s2 = extend (bfile s) st (bs_hdrs b) -> ffile s2 = extend (ffile s) st (fs_hdrs f) ->
            hz (b_end b) < Z.of_nat (length (ffile s2)) ->
            forall fl', import P s2 b f bs fl' = (Success, s2)).
  { intros Hold s2 Hwf2 Hb2 Hf2 Hen2. clear Hv0 Hv1 Hsame Hcont HI0 E1 Him.
    apply (import_repeat P s s2 b f bs Hwf2 Hck Hst); try assumption.
    - fold st m n. lia.
    - fold m. lia.
    - fold st n. intros h Hh Hl. apply Hblk; [assumption | lia].  }
  assert (HvalidL : verify_block_at s b (Ht (n - 1)) = true -> valid_chain P (bfile s) ->
                    valid_chain P (extend (bfile s) st (bs_hdrs b))).
  { intros Hvat Hold. apply (extend_valid_gen P s b (eff_batch bs)); try assumption. intros _ _. exact Hvat. }
  clear Hv0 Hv1 Hblk Hflt Hsame Hcont Hvb Hck Hvf HI0 Hbt Hft E1.
  destruct r1.
  2:{ (* phase 1 failed: block store untouched, filter store a prefix *)
      inversion Him; subst r s'. unfold regions_post. fold st.
      split; [assumption|]. split; [rewrite Q2; apply extend_prefix|].
      split; [exists rf; now rewrite Hext_f|].
      split; [rewrite Q2; lia|]. split; [assumption|].
      split; [intros _; rewrite Q2; split; [lia | now left]|].
      split; [now rewrite Q2|].
      split; [apply (filters_validated P (ffile s) (ffile s1) (fs_hdrs f) st rf); try assumption; now rewrite Hext_f|].
      discriminate. }
  destruct (HS1 eq_refl) as (I1 & I2 & I3 & I4 & I5). clear HS1.
  destruct (n <=? hz (b_end b)) eqn:Enw.
  - (* phase 2: both stores are extended above the block tip *)
    assert (Hden : de = n - 1) by lia.
    unfold append_region in Him. unfold ix_of_height in Him. cbn [hz] in Him. fold st in Him.
    rewrite Hend in Him. replace (st + len - 1 - st) with (len - 1) in Him by lia.
    destruct (append_loop (S (length (bs_hdrs b))) fl c1 s1 b f (Ht n) (Ix (len - 1)) (eff_batch bs) ABoth)
      as [[r2 s2] c2] eqn:E2.
    inversion Him; subst r2 s2.
    assert (Hext_b : extend (bfile s) st (bs_hdrs b) = bfile s ++ skipn (Z.to_nat (n - st)) (bs_hdrs b)).
    { apply extend_app. fold n len. lia. }
    rewrite Hext_b in Hnd.
    assert (Hl1 : Z.of_nat (length (ffile s1)) = n) by lia.
    assert (HI2 : Inv b f (bfile s) (ffile s1) st (st + len - 1) n s1 n).
    { unfold Inv. split; [assumption|]. rewrite Q2. fold n. repeat split; try reflexivity; try assumption; lia. }
    destruct (loop_ok b f fl (eff_batch bs) (bfile s) (ffile s1) st len (st + len - 1) n
                eq_refl eq_refl eq_refl eq_refl HB Hlen Hfst ltac:(lia) ltac:(lia) Hnd
                (S (length (bs_hdrs b))) c1 s1 n r s' c2 HI2 ltac:(fold len; lia) E2) as [HP2 HS2].
    destruct HP2 as (R1 & [rb R2] & [rf2 R3] & R4 & R5 & R6 & R7).
    replace (de + 1) with n in I5 by lia.
    assert (Hvat : verify_block_at s b (Ht (n - 1)) = true) by (rewrite <- Hden; exact Ev).
    unfold regions_post. fold st.
    split; [assumption|]. split; [exists rb; now rewrite Hext_b|].
    split; [exists rf2; rewrite Hext_f, R3; exact I5|].
    split; [assumption|]. split; [lia|].
    split; [intros Hrb; specialize (R7 Hrb); split; [lia | now right]|].
    split; [intros Hold; specialize (HvalidL Hvat Hold); rewrite Hext_b, <- R2 in HvalidL;
            now apply valid_chain_prefix in HvalidL|].
    split; [apply (filters_validated P (ffile s) (ffile s') (fs_hdrs f) st rf2); try assumption; [|lia];
            rewrite Hext_f, R3; exact I5|].
    intros Hr. destruct (HS2 Hr) as (_ & J2 & J3 & _ & J5 & J6).
    replace (Z.to_nat (st + len - 1 + 1 - st)) with (length (bs_hdrs b)) in J5 by lia.
    replace (Z.to_nat (st + len - 1 + 1 - st)) with (length (fs_hdrs f)) in J6 by lia.
    rewrite skipn_all, app_nil_r in J5, J6.
    assert (Hb' : bfile s' = extend (bfile s) st (bs_hdrs b)) by (rewrite Hext_b; exact J5).
    assert (Hf' : ffile s' = extend (ffile s) st (fs_hdrs f)) by (rewrite Hext_f, J6; exact I5).
    split; [exact Hb'|]. split; [exact Hf'|]. split; [lia|].
    intros Hold. apply (Hrepeat Hold); try assumption. lia.
  - (* the file ends at or below the block tip: only the filter store grew *)
    inversion Him; subst r s'.
    assert (Hden : de = hz (b_end b)) by lia.
    replace (Z.to_nat (de + 1 - st)) with (length (fs_hdrs f)) in I5 by lia.
    rewrite skipn_all, app_nil_r in I5.
    assert (Hb' : bfile s1 = extend (bfile s) st (bs_hdrs b)).
    { rewrite Q2. symmetry. apply extend_below. fold n len. lia. }
    assert (Hf' : ffile s1 = extend (ffile s) st (fs_hdrs f)) by (rewrite Hext_f; exact I5).
    unfold regions_post. fold st.
    split; [assumption|]. split; [exists []; now rewrite app_nil_r|].
    split; [exists []; now rewrite app_nil_r|].
    split; [rewrite Q2; lia|]. split; [assumption|].
    split; [intros _; rewrite Q2; split; [lia | now left]|].
    split; [now rewrite Q2|].
    split; [apply (filters_validated P (ffile s) (ffile s1) (fs_hdrs f) st []); try assumption; now rewrite app_nil_r|].
    intros _. split; [exact Hb'|]. split; [exact Hf'|]. split; [lia|].
    intros Hold. apply (Hrepeat Hold); try assumption. lia.
Qed.

(* ------------------------------------------------------------------ *)
(* Nothing left to write: the file ends at or below the filter tip *)

Lemma regions_none_left s b :
  stores_wf s -> hz (b_end b) < Z.of_nat (length (ffile s)) ->
  exists dv nw, regions s b = Some (dv, nw) /\ r_exists dv = false /\ r_exists nw = false.
Proof.
  intros Hwf Hen. pose proof (wf_tips s Hwf) as [Hbt [y Hft]]. pose proof (wf_f_le_b s Hwf) as Hle.
  unfold regions. rewrite Hbt, Hft.
  assert (Hmn : Z.of_nat (length (ffile s)) <= Z.of_nat (length (bfile s))) by lia.
  unfold b_end, b_count in *. cbn [hz] in *.
  set (n := Z.of_nat (length (bfile s))) in *. set (m := Z.of_nat (length (ffile s))) in *.
  destruct (n - 1 >? m - 1); [|destruct (n - 1 <? m - 1)]; eexists; eexists;
    (split; [reflexivity|]); cbn [r_exists]; split; lia.
Qed.

Lemma regions_none_end s b dv nw :
  stores_wf s -> regions s b = Some (dv, nw) -> r_exists dv = false -> r_exists nw = false ->
  hz (b_end b) < Z.of_nat (length (ffile s)).
Proof.
  intros Hwf Hr Hd Hn. pose proof (wf_tips s Hwf) as [Hbt [y Hft]]. pose proof (wf_f_le_b s Hwf) as Hle.
  unfold regions in Hr. rewrite Hbt, Hft in Hr.
  assert (Hmn : Z.of_nat (length (ffile s)) <= Z.of_nat (length (bfile s))) by lia.
  unfold b_end, b_count in *. cbn [hz] in *.
  set (n := Z.of_nat (length (bfile s))) in *. set (m := Z.of_nat (length (ffile s))) in *.
  destruct (n - 1 >? m - 1) eqn:E1; [|destruct (n - 1 <? m - 1) eqn:E2];
    inversion Hr; subst dv nw; cbn [r_exists] in Hd, Hn; lia.
Qed.

Lemma process_regions_none s b f bs fl c0 dv nw :
  regions s b = Some (dv, nw) -> r_exists dv = false -> r_exists nw = false ->
  process_regions s b f bs fl c0 = (Success, s).
Proof. intros Hr Hd Hn. unfold process_regions. now rewrite Hr, Hd, Hn. Qed.

(* an import of a file that ends at or below the filter tip writes nothing,
   whatever its outcome, faults and context *)
Lemma import_nothing_left P s b f bs fl :
  stores_wf s -> hz (b_end b) < Z.of_nat (length (ffile s)) ->
  snd (import P s b f bs fl) = s.
Proof.
  intros Hwf Hen. destruct (import P s b f bs fl) as [r s'] eqn:Him. cbn [snd].
  destruct (import_cases _ _ _ _ _ _ _ _ Him) as [[_ ->]|(c0 & Hpr & _)]; [reflexivity|].
  destruct (regions_none_left s b Hwf Hen) as (dv & nw & Hr & Hd & Hn).
  rewrite (process_regions_none s b f bs fl c0 dv nw Hr Hd Hn) in Hpr. now inversion Hpr.
Qed.

(* ------------------------------------------------------------------ *)
(* The full statement: every height difference the store invariant allows,
   every cancellation point *)

Definition import_post (P : params) (b : bsource) (f : fsource) (bs : Z) (fl : faults)
           (s : stores) (r : result) (s' : stores) : Prop :=
  stores_wf s' /\
  (exists rest, bfile s' ++ rest = extend (bfile s) (hz (b_start b)) (bs_hdrs b)) /\
  (exists rest, ffile s' ++ rest = extend (ffile s) (hz (b_start b)) (fs_hdrs f)) /\
  (length (bfile s) <= length (bfile s'))%nat /\ (length (ffile s) <= length (ffile s'))%nat /\
  (fl_rb fl = false ->
     Z.of_nat (length (bfile s')) - Z.of_nat (length (ffile s')) <=
     Z.of_nat (length (bfile s)) - Z.of_nat (length (ffile s)) /\
     (length (bfile s') = length (bfile s) \/ length (bfile s') = length (ffile s'))) /\
  (valid_chain P (bfile s) -> valid_chain P (bfile s')) /\
  validate_filters_from P (skipn (length (ffile s)) (ffile s')) (Z.of_nat (length (ffile s))) = true /\
  (cancelled_in_validation P s b f bs fl = true -> s' = s) /\
  (r = Success ->
     bfile s' = extend (bfile s) (hz (b_start b)) (bs_hdrs b) /\
     ffile s' = extend (ffile s) (hz (b_start b)) (fs_hdrs f) /\
     hz (b_end b) < Z.of_nat (length (ffile s')) /\
     (forall fl', snd (import P s' b f bs fl') = s') /\
     (cancelled_in_validation P s b f bs fl = false -> valid_chain P (bfile s) ->
        forall fl', import P s' b f bs fl' = (Success, s'))).

Lemma regions_post_import_post P b f bs fl s r s' :
  cancelled_in_validation P s b f bs fl = false ->
  regions_post P b f bs fl s r s' -> import_post P b f bs fl s r s'.
Proof.
  intros Hcv (R1 & R2 & R3 & R4 & R5 & R6 & R7 & R8 & R9). unfold import_post.
  split; [assumption|]. split; [assumption|]. split; [assumption|]. split; [assumption|].
  split; [assumption|]. split; [assumption|]. split; [assumption|]. split; [assumption|].
  split; [intros Hc; congruence|].
  intros Hr. destruct (R9 Hr) as (S1 & S2 & S3 & S4).
  split; [assumption|]. split; [assumption|]. split; [assumption|].
  split; [intros fl'; now apply import_nothing_left | intros _; exact S4].
Qed.

Lemma import_full P s b f bs fl r s' :
  stores_wf s -> 0 <= hz (b_start b) ->
  NoDup (map hid (extend (bfile s) (hz (b_start b)) (bs_hdrs b))) ->
  hash_inj (bfile s ++ bs_hdrs b) -> retarget_ok P ->
  import P s b f bs fl = (r, s') ->
  import_post P b f bs fl s r s'.
Proof.
  intros Hwf Hst Hnd Hinj HR Him.
  (* the stores are left as they were *)
  assert (Hunch : forall r0, (r0 = Success -> hz (b_end b) < Z.of_nat (length (ffile s)) /\
                                              length (fs_hdrs f) = length (bs_hdrs b) /\
                                              cancelled_in_validation P s b f bs fl = true) ->
                  import_post P b f bs fl s r0 s).
  { intros r0 HS. unfold import_post.
    split; [assumption|]. split; [apply extend_prefix|]. split; [apply extend_prefix|].
    split; [lia|]. split; [lia|]. split; [intros _; split; [lia | now left]|]. split; [tauto|].
    split; [now rewrite skipn_all|]. split; [reflexivity|].
    intros Hr. destruct (HS Hr) as (Hen & Hlen & Hcv).
    pose proof (wf_f_le_b s Hwf) as Hle. assert (Hen' := Hen). unfold b_end, b_count in Hen'. cbn [hz] in Hen'.
    split; [symmetry; apply extend_below; lia|].
    split; [symmetry; apply extend_below; lia|].
    split; [exact Hen|].
    split; [intros fl'; now apply import_nothing_left | intros Hc; congruence]. }
  destruct (import_cases _ _ _ _ _ _ _ _ Him) as [[-> ->]|(c0 & Hpr & [[Hck Hcv]|(Hpre & Hcan & Hcv)])].
  - apply Hunch. discriminate.
  - (* validation ran to its end and accepted the file *)
    apply regions_post_import_post; [exact Hcv|].
    destruct (le_lt_eq_dec _ _ (wf_f_le_b s Hwf)) as [Hlt|Heq].
    + now apply (import_block_ahead P s b f bs fl c0 r s').
    + symmetry in Heq.
      destruct (checks_facts _ _ _ _ _ Hck) as (Hne & Hlen & Hfst & Hcont & _ & Hvf).
      destruct (import_equal_heights _ _ _ _ _ _ _ _ Hwf Heq Hst Hnd Hne Hlen Hfst Hcont Hpr) as (Hwf' & Hle & Hcp & HS).
      destruct Hcp as (Hb & Hf & Hlb & Hlf & Hrb).
      unfold regions_post.
      split; [assumption|]. split; [assumption|]. split; [assumption|]. split; [assumption|]. split; [assumption|].
      split; [intros Hrbf; specialize (Hrb Hrbf); split; [lia | now right]|].
      split; [now apply (import_chain_valid_equal P s b f bs fl c0 r s')|].
      split.
      { unfold validate_filters in Hvf. rewrite Hfst in Hvf. destruct Hf as [rest Hrest].
        now apply (filters_validated P (ffile s) (ffile s') (fs_hdrs f) (hz (b_start b)) rest). }
      intros Hr. destruct (HS Hr) as (H1 & H2 & H3 & H4).
      split; [assumption|]. split; [assumption|]. split; [lia|].
      intros _. subst r. now apply (import_idem_equal P s b f bs fl c0 s').
  - (* validation cut short by the cancelled context: every later poll sees
       the cancellation, nothing is written *)
    destruct (process_regions_cancelled _ _ _ _ _ _ _ _ Hcan Hpr) as [-> HS].
    apply Hunch. intros Hr. destruct (HS Hr) as (dv & nw & Hreg & Hd & Hn).
    destruct (prechecks_facts _ _ _ _ Hpre) as (_ & Hlen & _).
    split; [now apply (regions_none_end s b dv nw)|]. split; assumption.
Qed.

(* ------------------------------------------------------------------ *)
(* A successful import whose validation was not cut short is the import under
   a context that is never cancelled *)

Definition live (fl : faults) : faults := mkF (fl_bw fl) (fl_fw fl) (fl_rb fl) 0.
Definition ceq (c c' : ctr) : Prop := c_bw c = c_bw c' /\ c_fw c = c_fw c'.

Lemma write_both_live fl c c' s bb fb :
  ceq c c' ->
  fst (fst (write_both fl c s bb fb)) = fst (fst (write_both (live fl) c' s bb fb)) /\
  snd (fst (write_both fl c s bb fb)) = snd (fst (write_both (live fl) c' s bb fb)) /\
  ceq (snd (write_both fl c s bb fb)) (snd (write_both (live fl) c' s bb fb)).
Proof.
  intros [Hb Hf]. unfold write_both, live, ceq. cbn [fl_bw fl_fw fl_rb]. rewrite Hb, Hf.
  repeat match goal with
         | |- context [if ?x then _ else _] => destruct x
         | |- context [match b_rollback ?a ?n with _ => _ end] => destruct (b_rollback a n)
         end; cbn [fst snd c_bw c_fw]; auto.
Qed.

Lemma process_batch_live fl c c' s b f h i e B m :
  ceq c c' ->
  fst (fst (process_batch fl c s b f h i e B m)) = fst (fst (process_batch (live fl) c' s b f h i e B m)) /\
  snd (fst (process_batch fl c s b f h i e B m)) = snd (fst (process_batch (live fl) c' s b f h i e B m)) /\
  ceq (snd (process_batch fl c s b f h i e B m)) (snd (process_batch (live fl) c' s b f h i e B m)).
Proof.
  intros Hc. unfold process_batch.
  destruct (match m with AFilter => RB_ok [] | _ => read_batch (bs_get b) (b_count b) i e B end);
    [cbn [fst snd]; auto | cbn [fst snd]; auto |].
  destruct (match m with ABlock => RB_ok [] | _ => read_batch (fs_get f) (b_count b) i e B end);
    [cbn [fst snd]; auto | cbn [fst snd]; auto |].
  match goal with |- context [match ?x with Some _ => _ | None => _ end] => destruct x as [fb2|] end;
    [|cbn [fst snd]; auto].
  destruct (write_both_live fl c c' s l fb2 Hc) as (W1 & W2 & W3).
  destruct (write_both fl c s l fb2) as [[r1 s1] c1].
  destruct (write_both (live fl) c' s l fb2) as [[r2 s2] c2].
  cbn [fst snd] in W1, W2, W3. subst r2 s2.
  destruct r1; cbn [fst snd]; auto.
Qed.

Lemma append_loop_live fl b f e B m : forall fuel c c' s h s1 c1,
  ceq c c' ->
  append_loop fuel fl c s b f h e B m = (Success, s1, c1) ->
  exists c1', append_loop fuel (live fl) c' s b f h e B m = (Success, s1, c1') /\ ceq c1 c1'.
Proof.
  induction fuel as [|k IH]; intros c c' s h s1 c1 Hc Hl.
  { cbn [append_loop] in *. inversion Hl; subst. exists c'. auto. }
  cbn [append_loop] in *.
  rewrite (is_canc_never (live fl)) by reflexivity.
  destruct (is_canc fl (c_poll (tick c))); [discriminate|].
  assert (Ht : ceq (tick c) (tick c')) by (unfold ceq, tick in *; cbn [c_bw c_fw]; exact Hc).
  destruct (process_batch_live fl (tick c) (tick c') s b f h (ix_of_height h (b_start b)) e B m Ht)
    as (P1 & P2 & P3).
  destruct (process_batch fl (tick c) s b f h (ix_of_height h (b_start b)) e B m) as [[res sa] ca].
  destruct (process_batch (live fl) (tick c') s b f h (ix_of_height h (b_start b)) e B m) as [[res' sb] cb].
  cbn [fst snd] in P1, P2, P3. subst res' sb.
  destruct res as [| |[e1]].
  - inversion Hl; subst. exists cb. auto.
  - discriminate.
  - now apply (IH ca cb).
Qed.

Lemma process_regions_live s b f bs fl c0 c0' s' :
  ceq c0 c0' -> process_regions s b f bs fl c0 = (Success, s') ->
  process_regions s b f bs (live fl) c0' = (Success, s').
Proof.
  intros Hc. unfold process_regions.
  destruct (regions s b) as [[dv nw]|]; [|intros Hp; exact Hp].
  assert (H1 : forall r1 s1 c1,
            (if r_exists dv then
               if verify_at s b f (r_end dv) (r_v dv)
               then append_region fl c0 s b f (r_start dv) (r_end dv) bs (r_a dv)
               else (Failure, s, c0)
             else (Success, s, c0)) = (r1, s1, c1) -> r1 = Success ->
            exists c1',
              (if r_exists dv then
                 if verify_at s b f (r_end dv) (r_v dv)
                 then append_region (live fl) c0' s b f (r_start dv) (r_end dv) bs (r_a dv)
                 else (Failure, s, c0')
               else (Success, s, c0')) = (Success, s1, c1') /\ ceq c1 c1').
  { intros r1 s1 c1 He ->. destruct (r_exists dv).
    - destruct (verify_at s b f (r_end dv) (r_v dv)); [|discriminate].
      unfold append_region in *. now apply (append_loop_live fl b f _ _ _ _ c0 c0').
    - inversion He; subst. exists c0'. auto. }
  destruct (if r_exists dv then
              if verify_at s b f (r_end dv) (r_v dv)
              then append_region fl c0 s b f (r_start dv) (r_end dv) bs (r_a dv)
              else (Failure, s, c0)
            else (Success, s, c0)) as [[r1 s1] c1] eqn:E1.
  destruct r1; [|discriminate].
  destruct (H1 Success s1 c1 eq_refl eq_refl) as (c1' & E1' & Hc1). rewrite E1'.
  destruct (r_exists nw); [|intros Hp; exact Hp].
  destruct (append_region fl c1 s1 b f (r_start nw) (r_end nw) bs (r_a nw)) as [[r2 s2] c2] eqn:E2.
  intros Hp. inversion Hp; subst r2 s2.
  unfold append_region in *.
  destruct (append_loop_live fl b f _ _ _ _ c1 c1' s1 _ s' c2 Hc1 E2) as (c2' & E2' & _).
  now rewrite E2'.
Qed.

Lemma import_success_live P s b f bs fl s' :
  import P s b f bs fl = (Success, s') -> cancelled_in_validation P s b f bs fl = false ->
  import P s b f bs (live fl) = (Success, s').
Proof.
  unfold import, cancelled_in_validation.
  destruct (negb (open_ok (bs_meta b) (length (bs_hdrs b)) && open_ok (fs_meta f) (length (fs_hdrs f))));
    [discriminate|].
  destruct (negb (compat P b f)); [discriminate|].
  destruct (negb (continuity s b f)); [discriminate|].
  destruct (validation P s b f bs fl) as [v c0] eqn:Ev.
  destruct (validation P s b f bs (live fl)) as [v' c0'] eqn:Ev'. cbn [snd].
  destruct (validation_spec _ _ _ _ _ _ _ _ Ev) as (A1 & A2 & _ & A4 & _).
  destruct (validation_spec _ _ _ _ _ _ _ _ Ev') as (B1 & B2 & _ & B4 & _).
  intros Hi Hn. destruct v; [|discriminate].
  assert (Hv' : v' = true) by (rewrite (B4 (is_canc_never (live fl) _ eq_refl)), <- (A4 Hn); reflexivity).
  subst v'.
  apply (process_regions_live s b f bs fl c0 c0' s'); [|exact Hi].
  unfold ceq. lia.
Qed.

(* a validation cut short by the cancelled context is never followed by a
   write: no hypotheses on the stores or the file *)
Lemma cut_short_writes_nothing P s b f bs fl :
  cancelled_in_validation P s b f bs fl = true -> snd (import P s b f bs fl) = s.
Proof.
  intros Hcv. destruct (import P s b f bs fl) as [r s'] eqn:Him. cbn [snd].
  destruct (import_cases _ _ _ _ _ _ _ _ Him) as [[_ ->]|(c0 & Hpr & [[_ Hn]|(_ & Hcan & _)])];
    [reflexivity | congruence |].
  now destruct (process_regions_cancelled _ _ _ _ _ _ _ _ Hcan Hpr) as [-> _].
Qed.
