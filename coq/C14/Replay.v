(* C14 — replay of implementation traces against the model and the monitor. *)
From Coq Require Import ZArith List Bool.
From Verif Require Import C14.Model C14.Spec.
Import ListNotations.
Open Scope Z_scope.

(* operations as the harness prints them: headers by pool index *)
Inductive rop :=
| RI (mb : meta) (bl : list Z) (mf : meta) (fl : list Z) (bs : Z) (fa : faults)
| RR (n : Z).

Record tcase := mkCase {
  c_P : params;
  c_pool : list hdr;
  c_initb : list Z;      (* pool indices of the prefilled block headers *)
  c_initf : list Z;      (* prefilled filter headers *)
  c_ops : list (rop * obs)
}.

Definition pool_get (pool : list hdr) (i : Z) : hdr :=
  match nthZ pool i with Some x => x | None => H (-1) (-1) 0 0 (-1) end.

Definition to_op (pool : list hdr) (r : rop) : op :=
  match r with
  | RI mb bl mf fl bs fa => OImport (mkBS mb (map (pool_get pool) bl)) (mkFS mf fl) bs fa
  | RR n => ORollback n
  end.

Definition pair_eqb (a b : Z * Z) : bool := (fst a =? fst b) && (snd a =? snd b).

Definition obs_eqb (a b : obs) : bool :=
  Bool.eqb (o_ok a) (o_ok b) && list_eqb (o_b a) (o_b b) && list_eqb (o_f a) (o_f b) &&
  pair_eqb (o_bt a) (o_bt b) && pair_eqb (o_ft a) (o_ft b) && list_eqb (o_idx a) (o_idx b).

(* first step at which the model's observation differs from the implementation's *)
Fixpoint first_mismatch (P : params) (pool : list hdr) (s : stores) (i : Z)
         (tr : list (rop * obs)) : option Z :=
  match tr with
  | [] => None
  | (r, ob) :: rest =>
    let '(s', ok) := step P s (to_op pool r) in
    if obs_eqb (snapshot pool s' ok) ob then first_mismatch P pool s' (i + 1) rest else Some i
  end.

Definition to_tstep (pool : list hdr) (x : rop * obs) : tstep :=
  match fst x with
  | RI mb bl mf fl _ fa => (Some (hz (m_start mb), map (fun i => hid (pool_get pool i)) bl, fl, fl_rb fa), snd x)
  | RR _ => (None, snd x)
  end.

(* first step at which the monitor rejects the implementation trace *)
Fixpoint first_bad (P : params) (pool : list hdr) (a : obs) (i : Z) (tr : list tstep) : option Z :=
  match tr with
  | [] => None
  | (None, o) :: r => first_bad P pool o (i + 1) r
  | (Some (st, fb, ff, rb), o) :: r =>
    if import_step_ok P pool a o st fb ff rb then first_bad P pool o (i + 1) r else Some i
  end.

(* rows (case id, kind, step, tag): kind 1 = model/implementation mismatch,
   kind 2 = the monitor rejects the implementation trace; tag = root-cause
   code (no ghost root causes remain in the C14 model: always 0) *)
Definition verdict (c : Z * tcase) : list (Z * Z * Z * Z) :=
  let '(id, t) := c in
  let P := c_P t in let pool := c_pool t in
  let s0 := init_stores (map (pool_get pool) (c_initb t)) (c_initf t) in
  let init := snapshot pool s0 true in
  let tr := map (to_tstep pool) (c_ops t) in
  (match first_mismatch P pool s0 0 (c_ops t) with Some i => [(id, 1, i, 0)] | None => [] end) ++
  (if holds P pool init tr then [] else
     match first_bad P pool init 0 tr with Some i => [(id, 2, i, 0)] | None => [(id, 2, 0, 0)] end).

Definition run_cases (cs : list (Z * tcase)) : list (Z * Z * Z * Z) := flat_map verdict cs.

(* auxiliary tables: blockchain.CompactToBig / BigToCompact *)
Fixpoint index_false (i : Z) (l : list bool) : list Z :=
  match l with
  | [] => []
  | b :: r => (if b then [] else [i]) ++ index_false (i + 1) r
  end.
Definition c2b_mismatches (cs : list (Z * Z)) : list Z :=
  index_false 0 (map (fun c => compact_to_big (fst c) =? snd c) cs).
Definition b2c_mismatches (cs : list (Z * Z)) : list Z :=
  index_false 0 (map (fun c => big_to_compact (fst c) =? snd c) cs).
