(* C12 — replay of implementation traces against the model and the monitors.
   A case is the list of (event, observation made on the real dispatcher).
   The worker the real dispatcher picked for each hand-out resolves the
   model's choice among equally ranked free workers ([picks]); the model
   rejects a pick that is not a best-ranked free worker by choosing another
   one, which shows up as a mismatch, and the ranking monitor rejects it on
   the implementation trace independently. *)
From Coq Require Import ZArith List Bool.
From Verif Require Import C12.Model C12.Spec.
Import ListNotations.
Open Scope Z_scope.

Fixpoint ins_pair {V} (x : Z * V) (l : list (Z * V)) : list (Z * V) :=
  match l with
  | [] => [x]
  | y :: t => if fst x <=? fst y then x :: y :: t else y :: ins_pair x t
  end.
Definition sort_pairs {V} (l : list (Z * V)) : list (Z * V) := fold_right ins_pair [] l.

Fixpoint list_eqb {A} (eq : A -> A -> bool) (a b : list A) : bool :=
  match a, b with
  | [], [] => true
  | x :: a', y :: b' => eq x y && list_eqb eq a' b'
  | _, _ => false
  end.

Definition disp_eqb (a b : Z * Z * Z) : bool :=
  let '(j1, p1, t1) := a in let '(j2, p2, t2) := b in (j1 =? j2) && (p1 =? p2) && (t1 =? t2).
Definition verd_eqb (a b : Z * verdict) : bool := (fst a =? fst b) && verdict_eqb (snd a) (snd b).
Definition zz_eqb (a b : Z * Z) : bool := (fst a =? fst b) && (snd a =? snd b).

Definition obs_eqb (m i : obs) : bool :=
  list_eqb disp_eqb (odisp m) (odisp i)
  && list_eqb verd_eqb (sort_pairs (overd m)) (sort_pairs (overd i))
  && list_eqb Z.eqb (omax m) (omax i)
  && list_eqb zz_eqb (sort_pairs (oscores m)) (sort_pairs (oscores i)).

Definition picks_of (o : obs) : list Z := map (fun d => snd (fst d)) (odisp o).

(* first step at which the model's observation differs from the implementation's *)
Fixpoint first_mismatch (s : st) (i : Z) (tr : list (ev * obs)) : option Z :=
  match tr with
  | [] => None
  | (e, o) :: rest =>
    let '(s', mo) := step s (e, picks_of o) in
    if obs_eqb mo o then first_mismatch s' (i + 1) rest else Some i
  end.

(* first step at which a monitor rejects the implementation trace *)
Fixpoint mon_first {S} (stp : S -> ev * obs -> option S) (s : S) (i : Z) (tr : list (ev * obs)) : option Z :=
  match tr with
  | [] => None
  | eo :: rest =>
    match stp s eo with
    | Some s' => mon_first stp s' (i + 1) rest
    | None => Some i
    end
  end.

Definition opt_min (a b : option Z) : option Z :=
  match a, b with
  | Some x, Some y => Some (Z.min x y)
  | Some x, None => Some x
  | None, y => y
  end.

Definition first_bad (tr : list (ev * obs)) : option Z :=
  opt_min (mon_first vstep vinit 0 tr) (opt_min (mon_first rstep [] 0 tr) (mon_first jstep jinit 0 tr)).

(* result per failing case: (case id, kind, step, tag); kind 1 = model and
   implementation differ, kind 2 = a monitor rejects the implementation
   trace; no root-cause flags exist for C12: tag 0 *)
Definition verdict_rows (c : Z * list (ev * obs)) : list (Z * Z * Z * Z) :=
  let '(id, tr) := c in
  (match first_mismatch init 0 tr with Some i => [(id, 1, i, 0)] | None => [] end) ++
  (match first_bad tr with Some i => [(id, 2, i, 0)] | None => [] end).

Definition run_cases (cs : list (Z * list (ev * obs))) : list (Z * Z * Z * Z) :=
  flat_map verdict_rows cs.

(* the compiled constants of package query against the model's *)
Definition consts_rows (l : list Z) : list (Z * Z * Z * Z) :=
  if list_eqb Z.eqb l [bestScore; defaultScore; worstScore; minQueryTimeout; maxQueryTimeout]
  then [] else [(0, 3, 0, 0)].

(* ---------------------------------------------------------------- worker *)
Definition ores_eqb (a b : option (Z * jerr)) : bool :=
  match a, b with
  | Some (j1, e1), Some (j2, e2) => (j1 =? j2) && jerr_eqb e1 e2
  | None, None => true
  | _, _ => false
  end.
Definition wobs_eqb (a b : wobs) : bool :=
  Bool.eqb (wacc a) (wacc b) && Bool.eqb (wsent a) (wsent b) && ores_eqb (wres a) (wres b).

Fixpoint wfirst_mismatch (s : wstate) (i : Z) (tr : list (wev * wobs)) : option Z :=
  match tr with
  | [] => None
  | (e, o) :: rest =>
    let '(s', mo) := wstep s e in
    if wobs_eqb mo o then wfirst_mismatch s' (i + 1) rest else Some i
  end.

Fixpoint wmon_first (m : wmon) (i : Z) (tr : list (wev * wobs)) : option Z :=
  match tr with
  | [] => None
  | eo :: rest =>
    match wmstep m eo with
    | Some m' => wmon_first m' (i + 1) rest
    | None => Some i
    end
  end.

Definition wverdict_rows (c : Z * list (wev * wobs)) : list (Z * Z * Z * Z) :=
  let '(id, tr) := c in
  (match wfirst_mismatch WIdle 0 tr with Some i => [(id, 1, i, 0)] | None => [] end) ++
  (match wmon_first wminit 0 tr with Some i => [(id, 2, i, 0)] | None => [] end).

Definition run_wcases (cs : list (Z * list (wev * wobs))) : list (Z * Z * Z * Z) :=
  flat_map wverdict_rows cs.
