(* C12 — idle-timer wakes are never lost; quit reaches every worker. *)
From Coq Require Import ZArith List Bool Lia ZifyBool Permutation.
From Verif Require Import C12.Model C12.Spec C12.Proofs C12.ProofsJ C12.LoopModel C12.LoopProofs C12.WakeModel.
Import ListNotations.
Open Scope Z_scope.

(* -------------------------------------------------- quit and the workers *)
Lemma wquit_gone : forall s, exists l, fst (wstep s WQuit) = WGone l.
Proof. intros [|j|j e|l]; eexists; reflexivity. Qed.

Lemma wsend_quit : forall j e, fst (wstep (WSend j e) WQuit) = WGone (Some j).
Proof. reflexivity. Qed.

(* every state in which the worker offers a result (also the one reached by
   picking up an already cancelled job) is a WSend state *)
Lemma wres_only_from_send : forall s e j err,
  wres (snd (wstep s e)) = Some (j, err) -> s = WSend j err /\ e = WTake.
Proof.
  intros s e j err H. destruct s as [|j0|j0 e0|l]; destruct e as [? pc|fin ?| | | | | |];
    try destruct pc; try destruct fin; cbn in H; try discriminate.
  inversion H; subst. split; reflexivity.
Qed.

Lemma precancel_send : forall j, fst (wstep WIdle (WJob j true)) = WSend j JCanceled.
Proof. reflexivity. Qed.

Lemma loop_quit_all_gone : forall ls l p x,
  lev l = CQuit -> z_get (wst (cstep (crun ls) l)) p = Some x -> exists lo, x = WGone lo.
Proof.
  intros ls l p x Hl Hx. assert (HI := CI_run_from ls cinit CI_init). fold (crun ls) in HI.
  unfold cstep in Hx. rewrite (ci_crash _ HI), Hl in Hx.
  destruct (stopped (disp (crun ls))) eqn:Hs.
  - (* already stopped: the view says so *)
    assert (Hv := ci_view _ HI p). rewrite Hs, Hx in Hv.
    destruct (wlook (workers (disp (crun ls))) p) as [w|]; [|destruct Hv].
    unfold agree1 in Hv. destruct (wactive w); eexists; exact Hv.
  - cbn [wst] in Hx.
    assert (Eq : z_get (map (fun y : Z * wstate => (fst y, fst (wstep (snd y) WQuit))) (wst (crun ls))) p =
                 option_map (fun y => fst (wstep y WQuit)) (z_get (wst (crun ls)) p))
      by (apply (z_get_map_val (fun y => fst (wstep y WQuit)))).
    rewrite Eq in Hx. destruct (z_get (wst (crun ls)) p) as [y|]; [|discriminate].
    cbn [option_map] in Hx. inversion Hx. apply wquit_gone.
Qed.

(* ------------------------------------------------------------ the wakes *)
Lemma remove_nth_perm : forall {A} i (l : list A) x,
  nth_error l i = Some x -> Permutation l (x :: remove_nth i l).
Proof.
  induction i as [|i IH]; intros [|y t] x H; cbn in H; try discriminate.
  - inversion H; subst. cbn. apply Permutation_refl.
  - cbn [remove_nth]. apply IH in H. eapply perm_trans; [apply perm_skip; exact H | apply perm_swap].
Qed.

Definition TI (t : tst) : Prop :=
  running t = true -> Permutation (fired t) (taken t ++ pend t).

Lemma running_cstep_false : forall c l, stopped (disp c) = true \/ crashed (disp c) = true ->
  stopped (disp (cstep c l)) = true \/ crashed (disp (cstep c l)) = true.
Proof.
  intros c l H. unfold cstep. destruct (crashed (disp c)) eqn:Hc; [right; exact Hc|].
  destruct H as [H|H]; [|congruence]. rewrite H. destruct (lev l); left; exact H.
Qed.

Lemma tstep_TI : forall t l,
  TI t /\ (running t = false -> pend t = pend t) -> TI (tstep t l).
Proof.
  intros t l [HI _]. unfold TI in *. destruct l as [b g|i picks pcs|l0]; cbn [tstep].
  - destruct (running t) eqn:R; [|intros H; congruence].
    intros _. cbn [fired taken pend]. specialize (HI eq_refl).
    rewrite app_assoc. apply Permutation_app_tail. exact HI.
  - destruct (nth_error (pend t) i) as [[b g]|] eqn:En; [|exact HI].
    destruct (running t) eqn:R; [|intros H; congruence].
    intros _. cbn [fired taken pend]. specialize (HI eq_refl).
    eapply perm_trans; [exact HI|]. rewrite <- app_assoc. apply Permutation_app_head.
    cbn [app]. apply remove_nth_perm. exact En.
  - destruct (lev l0) eqn:El; try exact HI;
      try (cbn [fired taken pend base]; intros R; apply HI;
           unfold running in *; cbn [base] in R;
           destruct (stopped (disp (base t))) eqn:S1; destruct (crashed (disp (base t))) eqn:C1; try reflexivity;
           exfalso;
           (destruct (running_cstep_false (base t) l0) as [Hx|Hx];
            [first [left; exact S1 | right; exact C1] | rewrite Hx in R; cbn in R; try discriminate; rewrite andb_false_r in R; discriminate | rewrite Hx in R; rewrite andb_false_r in R; discriminate])).
    destruct (running t) eqn:R; [|intros H; rewrite R in H; discriminate].
    intros R'. exfalso. unfold running in R'. cbn [base] in R'.
    unfold cstep in R'. unfold running in R. apply andb_true_iff in R. destruct R as [R1 R2].
    apply negb_true_iff in R1, R2. rewrite R1, R2, El in R'. cbn in R'. discriminate.
Qed.

Lemma TI_run : forall ls t, TI t -> TI (fold_left tstep ls t).
Proof.
  induction ls as [|l r IH]; intros t H; [exact H|]. cbn [fold_left]. apply IH. apply tstep_TI. split; [exact H | reflexivity].
Qed.

Lemma wakes_conserved : forall ls,
  running (trun ls) = true -> Permutation (fired (trun ls)) (taken (trun ls) ++ pend (trun ls)).
Proof.
  intros ls. apply (TI_run ls tinit). intros _. apply Permutation_refl.
Qed.

(* delivering the wake of the current idle timer of a live batch gives that
   batch its timeout verdict *)
Lemma deliver_current_wake : forall t i b g bt picks pcs,
  running t = true -> nth_error (pend t) i = Some (b, g) ->
  z_get (batches (disp (base t))) b = Some bt -> progGen bt = g ->
  let t' := tstep t (TDeliver i picks pcs) in
  vlog (base t') = vlog (base t) ++ [(b, VTimeout)] /\
  z_get (batches (disp (base t'))) b = None /\
  pend t' = remove_nth i (pend t).
Proof.
  intros t i b g bt picks pcs R En Hb Hg. cbn [tstep]. rewrite En, R. cbn [base pend].
  unfold running in R. apply andb_true_iff in R. destruct R as [R1 R2]. apply negb_true_iff in R1, R2.
  unfold cstep. rewrite R1, R2. cbn [lev lpicks lpcs]. unfold ddo. cbn [dseq]. rewrite R2.
  cbn [handle]. rewrite Hb, Hg, Z.eqb_refl.
  cbn [dseq finish crashed set_batches]. rewrite R2.
  destruct (dispatch_phase _ _ picks []) as [s2 ds] eqn:Hd.
  destruct (dispatch_phase_frame _ _ _ _ _ _ Hd) as (Fb & _).
  cbn [vlog disp]. split; [reflexivity|]. split; [|reflexivity].
  rewrite Fb. cbn [batches set_batches]. apply z_get_del_same.
Qed.

(* a pending wake stays pending through every step that is not a delivery,
   as long as the dispatcher runs *)
Lemma pending_stays : forall t l x,
  In x (pend t) -> (forall i picks pcs, l <> TDeliver i picks pcs) ->
  running (tstep t l) = true -> In x (pend (tstep t l)).
Proof.
  intros t l x Hin Hnd R. destruct l as [b g|i picks pcs|l0]; cbn [tstep] in *.
  - destruct (running t); [cbn [pend]; apply in_or_app; left; exact Hin | exact Hin].
  - exfalso. eapply Hnd. reflexivity.
  - destruct (lev l0) eqn:El; try exact Hin.
    destruct (running t) eqn:Rt; [|exact Hin].
    exfalso. unfold running in R, Rt. cbn [base] in R.
    apply andb_true_iff in Rt. destruct Rt as [R1 R2]. apply negb_true_iff in R1, R2.
    unfold cstep in R. rewrite R1, R2, El in R. cbn in R. discriminate.
Qed.
