(* C12 — closed loop: invariants.  In every reachable state of the
   composition the dispatcher's view of every worker agrees with that
   worker's own state (so the worker contract, a hypothesis of the open
   dispatcher theorems, holds by construction of worker.Run), and the
   verdict log obeys the exactly-one discipline. *)
From Coq Require Import ZArith List Bool Lia ZifyBool.
From Verif Require Import C12.Model C12.Spec C12.Proofs C12.ProofsJ C12.LoopModel.
Import ListNotations.
Open Scope Z_scope.

Definition agree_all (stop : bool) (wsD : list worker) (wsM : list (Z * wstate)) : Prop :=
  forall p,
    match wlook wsD p, z_get wsM p with
    | None, None => True
    | Some w, Some x => agree1 stop w x
    | _, _ => False
    end.

(* the view part, while the dispatcher runs *)
Record DV (s : st) (wsM : list (Z * wstate)) : Prop := {
  dv_env : envbad s = false;
  dv_crash : crashed s = false;
  dv_stop : stopped s = false;
  dv_names : NoDup (map wname (workers s));
  dv_agree : agree_all false (workers s) wsM
}.

Lemma agree_lookup : forall wsD wsM p w,
  agree_all false wsD wsM -> wlook wsD p = Some w ->
  exists x, z_get wsM p = Some x /\ agree1 false w x.
Proof.
  intros wsD wsM p w H Hw. specialize (H p). rewrite Hw in H.
  destruct (z_get wsM p) as [x|]; [exists x; split; [reflexivity | exact H] | destruct H].
Qed.

Lemma agree_machine : forall wsD wsM p x,
  agree_all false wsD wsM -> z_get wsM p = Some x ->
  exists w, wlook wsD p = Some w /\ agree1 false w x.
Proof.
  intros wsD wsM p x H Hx. specialize (H p). rewrite Hx in H.
  destruct (wlook wsD p) as [w|]; [exists w; split; [reflexivity | exact H] | destruct H].
Qed.

(* changing one worker on both sides *)
Lemma agree_update : forall wsD wsD' wsM p w' x',
  agree_all false wsD wsM ->
  wlook wsD' p = Some w' -> agree1 false w' x' ->
  (forall p', p' <> p -> wlook wsD' p' = wlook wsD p') ->
  agree_all false wsD' (z_put wsM p x').
Proof.
  intros wsD wsD' wsM p w' x' H Hw Ha Ho p'. destruct (Z.eq_dec p' p) as [->|Hne].
  - rewrite Hw, z_get_put_same. exact Ha.
  - rewrite (Ho p' Hne), z_get_put_other by exact Hne. exact (H p').
Qed.

(* ------------------------------------------- the dispatcher's select arms *)
Lemma handle_result_frame : forall s j p e w s1 vs mx,
  wlook (workers s) p = Some w -> wactive w = Some j ->
  handle s (Result j p e) = (s1, vs, mx) ->
  workers s1 = upd_worker (workers s) p None /\ envbad s1 = envbad s /\ crashed s1 = crashed s.
Proof.
  intros s j p e w s1 vs mx Hw Hwa H. cbn [handle] in H. unfold find_worker in H.
  change (find (fun w => wname w =? p) (workers s)) with (wlook (workers s) p) in H. rewrite Hw in H.
  unfold is_free in H. cbn [wactive] in H. rewrite Hwa in H. cbv zeta in H.
  rewrite Z.eqb_refl in H. cbn [negb] in H. rewrite orb_false_r in H.
  repeat break_match H; inversion H; subst s1; repeat split; reflexivity.
Qed.

Lemma wmap_look_same : forall f p ws w,
  (forall x, wname (f x) = p) -> wlook ws p = Some w -> wlook (wmap f p ws) p = Some (f w).
Proof.
  intros f p ws w Hf. unfold wlook, wmap. induction ws as [|x t IH]; cbn [map find]; [discriminate|].
  destruct (wname x =? p) eqn:E.
  - rewrite Hf, Z.eqb_refl. intros H. inversion H; subst. reflexivity.
  - rewrite E. exact IH.
Qed.

Lemma wlook_app_none : forall ws x p, wlook ws p = None -> wname x = p -> wlook (ws ++ [x]) p = Some x.
Proof.
  intros ws x p. unfold wlook. induction ws as [|a t IH]; cbn [app find]; intros H Hn.
  - rewrite Hn, Z.eqb_refl. reflexivity.
  - destruct (wname a =? p); [discriminate | apply IH; assumption].
Qed.

Lemma wlook_app_other : forall ws x p', wname x <> p' -> wlook (ws ++ [x]) p' = wlook ws p'.
Proof.
  intros ws x p' Hn. unfold wlook. induction ws as [|a t IH]; cbn [app find].
  - replace (wname x =? p') with false by lia. reflexivity.
  - destruct (wname a =? p'); [reflexivity | exact IH].
Qed.

Lemma V_quiet : forall s wsM e s1 vs mx,
  DV s wsM -> handle s e = (s1, vs, mx) ->
  match e with NewBatch _ _ _ _ | HardTimer _ | ProgressWake _ _ | Cancel _ => True | _ => False end ->
  DV s1 wsM.
Proof.
  intros s wsM e s1 vs mx [A B C D E] H He.
  assert (F : workers s1 = workers s /\ envbad s1 = envbad s /\ crashed s1 = crashed s /\ stopped s1 = stopped s).
  { destruct e; try contradiction; cbn [handle] in H.
    - inversion H; subst. repeat split; reflexivity.
    - destruct (z_get (batches s) b); inversion H; subst; repeat split; reflexivity.
    - destruct (z_get (batches s) b) as [bt|]; [destruct (gen =? progGen bt)|]; inversion H; subst; repeat split; reflexivity.
    - inversion H; subst. repeat split; reflexivity. }
  destruct F as (F1 & F2 & F3 & F4). constructor; rewrite ?F1, ?F2, ?F3, ?F4; assumption.
Qed.

Lemma V_result : forall s wsM j p e s1 vs mx,
  DV s wsM -> z_get wsM p = Some (WSend j e) ->
  handle s (Result j p e) = (s1, vs, mx) ->
  DV s1 (z_put wsM p WIdle) /\ stopped s1 = false /\
  exists w, wlook (workers s1) p = Some w /\ wactive w = None /\ wexited w = false.
Proof.
  intros s wsM j p e s1 vs mx [A B C D E] Hx H.
  destruct (agree_machine _ _ _ _ E Hx) as [w [Hw Ha]].
  assert (Hwa : wactive w = Some j /\ wexited w = false).
  { unfold agree1 in Ha. destruct (wactive w) as [j'|], (wexited w); try contradiction; try discriminate.
    destruct Ha as [Ha | [e' Ha]]; inversion Ha; subst; split; reflexivity. }
  destruct Hwa as [Hwa Hwe].
  destruct (handle_result_frame _ _ _ _ _ _ _ _ Hw Hwa H) as (F1 & F2 & F3).
  assert (F4 := handle_stopped _ _ _ _ _ H).
  assert (Hw1 : wlook (workers s1) p = Some {| wname := p; wactive := None; wexited := wexited w |}).
  { rewrite F1. apply wlook_upd_same. exact Hw. }
  split; [|split; [congruence|]].
  - constructor; try congruence.
    + rewrite F1, names_upd_worker. exact D.
    + eapply agree_update; [exact E | exact Hw1 | |].
      * unfold agree1. cbn [wactive wexited]. rewrite Hwe. reflexivity.
      * intros p' Hne. rewrite F1. apply wlook_upd_other. exact Hne.
  - eexists. split; [exact Hw1|]. split; [reflexivity | exact Hwe].
Qed.

Lemma V_exit : forall s wsM wsM0 p s1 vs mx w,
  envbad s = false -> crashed s = false -> stopped s = false -> NoDup (map wname (workers s)) ->
  wlook (workers s) p = Some w -> wactive w = None -> wexited w = false ->
  (* the other workers agree with wsM0, p's machine is being replaced *)
  (forall p', p' <> p -> match wlook (workers s) p', z_get wsM0 p' with
                         | None, None => True | Some w', Some x => agree1 false w' x | _, _ => False end) ->
  wsM = z_put wsM0 p (WGone None) ->
  handle s (WorkerExit p) = (s1, vs, mx) ->
  DV s1 wsM /\ vs = [].
Proof.
  intros s wsM wsM0 p s1 vs mx w A B C D Hw Hwa Hwe Ho -> H.
  cbn [handle] in H. unfold find_worker in H.
  change (find (fun w => wname w =? p) (workers s)) with (wlook (workers s) p) in H. rewrite Hw in H.
  rewrite Hwa, Hwe in H. cbn [orb] in H. rewrite orb_false_r in H. inversion H; subst s1 vs mx; clear H.
  split; [|reflexivity].
  set (f := fun w : worker => {| wname := p; wactive := wactive w; wexited := true |}).
  assert (Hf : forall x, wname (f x) = p) by reflexivity.
  change (map (fun w0 : worker => if wname w0 =? p then {| wname := p; wactive := wactive w0; wexited := true |} else w0) (workers s))
    with (wmap f p (workers s)).
  constructor; cbn [envbad crashed stopped workers set_envbad set_workers]; try assumption.
  - rewrite wmap_names; assumption.
  - intros p'. destruct (Z.eq_dec p' p) as [->|Hne].
    + rewrite (wmap_look_same f p _ w Hf Hw), z_get_put_same. unfold agree1, f. cbn [wactive wexited].
      rewrite Hwa. reflexivity.
    + rewrite (wmap_look_other f p _ p' Hf Hne), z_get_put_other by exact Hne. exact (Ho p' Hne).
Qed.

Lemma V_peer : forall s wsM p s1 vs mx,
  DV s wsM ->
  (z_get wsM p = None \/ exists l, z_get wsM p = Some (WGone l)) ->
  handle s (PeerConnected p) = (s1, vs, mx) ->
  DV s1 (z_put wsM p WIdle) /\ vs = [].
Proof.
  intros s wsM p s1 vs mx [A B C D E] Hx H. cbn [handle] in H. unfold find_worker in H.
  change (find (fun w => wname w =? p) (workers s)) with (wlook (workers s) p) in H.
  inversion H; subst s1 vs mx; clear H. split; [|reflexivity].
  destruct (wlook (workers s) p) as [w|] eqn:Hw.
  - (* reconnect under the name of a worker that has exited while idle *)
    destruct (agree_lookup _ _ _ _ E Hw) as [x [Hx1 Ha]].
    assert (Hwx : wactive w = None /\ wexited w = true).
    { destruct Hx as [Hx|[l Hx]]; [congruence|]. rewrite Hx in Hx1. inversion Hx1; subst x.
      unfold agree1 in Ha. destruct (wactive w), (wexited w); try contradiction; try discriminate.
      - destruct Ha as [Ha|[e Ha]]; discriminate.
      - split; reflexivity. }
    destruct Hwx as [Hwa Hwe].
    set (f := fun _ : worker => {| wname := p; wactive := None; wexited := false |}).
    assert (Hf : forall x, wname (f x) = p) by reflexivity.
    change (map (fun w0 : worker => if wname w0 =? p then {| wname := p; wactive := None; wexited := false |} else w0) (workers s))
      with (wmap f p (workers s)).
    constructor; cbn [envbad crashed stopped workers set_envbad set_workers set_rank]; try assumption.
    + rewrite A, Hwa, Hwe. reflexivity.
    + rewrite wmap_names; assumption.
    + eapply agree_update; [exact E | apply (wmap_look_same f p _ w Hf Hw) | reflexivity |].
      intros p' Hne. apply wmap_look_other; assumption.
  - constructor; cbn [envbad crashed stopped workers set_envbad set_workers set_rank]; try assumption.
    + rewrite A. reflexivity.
    + rewrite map_app. cbn [map wname]. apply NoDup_snoc; [exact D | apply wlook_none; exact Hw].
    + eapply agree_update; [exact E | apply wlook_app_none; [exact Hw | reflexivity] | reflexivity |].
      intros p' Hne. apply wlook_app_other. cbn [wname]. lia.
Qed.

(* the distribution phase hands every job to an idle worker machine *)
Lemma deliver_all_cons : forall ws d rest pcs,
  deliver_all ws (d :: rest) pcs = deliver_all (deliver ws d (hd false pcs)) rest (tl pcs).
Proof. intros ws d rest [|pc pcs']; reflexivity. Qed.

Lemma V_dispatch : forall fuel s picks acc s' ds wsM pcs,
  dispatch_phase fuel s picks acc = (s', ds) -> DV s wsM ->
  exists new, ds = acc ++ new /\ DV s' (deliver_all wsM new pcs).
Proof.
  induction fuel as [|f IH]; intros s picks acc s' ds wsM pcs H HV; cbn [dispatch_phase] in H.
  - inversion H; subst. exists []. rewrite app_nil_r. split; [reflexivity | exact HV].
  - destruct (work s) as [|j rest] eqn:Ew.
    + inversion H; subst. exists []. rewrite app_nil_r. split; [reflexivity | exact HV].
    + destruct (choose s picks) as [[p picks']|] eqn:Ech.
      * destruct (choose_spec _ _ _ _ Ech) as [Hin _].
        destruct HV as [A B C D E].
        unfold free_workers in Hin. apply free_In in Hin. destruct Hin as [w0 [Hin0 [Hn0 Hf0]]].
        assert (Hw0 : wlook (workers s) p = Some w0) by (rewrite <- Hn0; apply wlook_In_nodup; assumption).
        assert (Hfree : wactive w0 = None /\ wexited w0 = false).
        { unfold is_free in Hf0. destruct (wactive w0); [discriminate|]. destruct (wexited w0); [discriminate|].
          split; reflexivity. }
        destruct Hfree as [Ha0 He0].
        destruct (agree_lookup _ _ _ _ E Hw0) as [x [Hx Hag]].
        unfold agree1 in Hag. rewrite Ha0, He0 in Hag. subst x.
        set (s1 := set_workers (set_work s rest) (upd_worker (workers s) p (Some j))) in *.
        assert (HV1 : DV s1 (deliver wsM (j, p, job_timeout s j) (hd false pcs))).
        { constructor; try assumption.
          - cbn [workers s1 set_workers]. rewrite names_upd_worker. exact D.
          - unfold deliver. rewrite Hx. cbn [workers s1 set_workers].
            eapply agree_update; [exact E | apply wlook_upd_same; exact Hw0 | |].
            + unfold agree1. cbn [wactive wexited]. rewrite He0.
              destruct (hd false pcs); cbn [wstep fst]; [right; eexists; reflexivity | left; reflexivity].
            + intros p' Hne. apply wlook_upd_other. exact Hne. }
        destruct (IH _ _ _ _ _ _ (tl pcs) H HV1) as [new [Hds HV']].
        exists ((j, p, job_timeout s j) :: new). split; [rewrite Hds, <- app_assoc; reflexivity|].
        rewrite deliver_all_cons. exact HV'.
      * inversion H; subst. exists []. rewrite app_nil_r. split; [reflexivity | exact HV].
Qed.

(* ---------------------------------------------------- worker-local steps *)
Lemma V_local : forall s wsM p x e,
  DV s wsM -> z_get wsM p = Some x ->
  match e with
  | WMsg _ _ | WTimer | WCancel => True
  | WDisconnect => x <> WIdle
  | _ => False
  end ->
  DV s (z_put wsM p (fst (wstep x e))).
Proof.
  intros s wsM p x e [A B C D E] Hx He. constructor; try assumption.
  destruct (agree_machine _ _ _ _ E Hx) as [w [Hw Ha]].
  eapply agree_update; [exact E | exact Hw | | intros; reflexivity].
  unfold agree1 in *. destruct (wactive w) as [j|], (wexited w); try contradiction.
  - destruct Ha as [->|[e0 ->]]; destruct e as [? ?|fin ?| | | | | |]; try contradiction; try destruct fin;
      cbn [wstep fst]; first [left; reflexivity | right; eexists; reflexivity].
  - subst x. destruct e as [? ?|fin ?| | | | | |]; try contradiction; try reflexivity; try congruence.
  - subst x. destruct e; try contradiction; reflexivity.
Qed.

(* ------------------------------------------------------------ verdict log *)
Record CL (s : st) (log : list (Z * verdict)) : Prop := {
  cl_nodup : NoDup (bkeys s);
  cl_bound : forall b, In b (bkeys s) -> 0 <= b < batchIndex s;
  cl_nonneg : 0 <= batchIndex s;
  cl_live : forall b, In b (bkeys s) -> cnt b log = 0%nat;
  cl_done : forall b, 0 <= b < batchIndex s -> ~ In b (bkeys s) -> cnt b log = 1%nat;
  cl_none : forall b, ~ (0 <= b < batchIndex s) -> cnt b log = 0%nat
}.

Lemma CL_same : forall s s1 log,
  CL s log -> bkeys s1 = bkeys s -> batchIndex s1 = batchIndex s -> CL s1 (log ++ []).
Proof.
  intros s s1 log [A B C D E F] Hk Hb. rewrite app_nil_r. constructor; rewrite ?Hk, ?Hb; assumption.
Qed.

Lemma CL_remove : forall s s1 log b vd,
  CL s log -> In b (bkeys s) -> bkeys s1 = remove_z b (bkeys s) -> batchIndex s1 = batchIndex s ->
  CL s1 (log ++ [(b, vd)]).
Proof.
  intros s s1 log b vd [A B C D E F] Hin Hk Hb. constructor; rewrite ?Hk, ?Hb.
  - apply NoDup_remove_z. exact A.
  - intros x Hx. apply In_remove_z in Hx. apply B. tauto.
  - exact C.
  - intros x Hx. apply In_remove_z in Hx. destruct Hx as [Hx Hne].
    rewrite cnt_app, cnt_one. replace (b =? x) with false by lia. rewrite Nat.add_0_r. auto.
  - intros x H1 H2. rewrite cnt_app, cnt_one. destruct (b =? x) eqn:Eq.
    + apply Z.eqb_eq in Eq. subst x. rewrite (D b Hin). reflexivity.
    + rewrite Nat.add_0_r. apply E; [exact H1|]. intros Hx. apply H2. apply In_remove_z. split; [exact Hx | lia].
  - intros x H. rewrite cnt_app, cnt_one. destruct (b =? x) eqn:Eq.
    + apply Z.eqb_eq in Eq. subst x. apply B in Hin. contradiction.
    + rewrite Nat.add_0_r. auto.
Qed.

Lemma CL_new : forall s s1 log,
  CL s log -> bkeys s1 = batchIndex s :: bkeys s -> batchIndex s1 = batchIndex s + 1 -> CL s1 (log ++ []).
Proof.
  intros s s1 log [A B C D E F] Hk Hb. rewrite app_nil_r. constructor; rewrite ?Hk, ?Hb.
  - constructor; [|exact A]. intros H. apply B in H. lia.
  - intros b [H|H]; [subst; lia | apply B in H; lia].
  - lia.
  - intros b [H|H]; [subst b; apply F; lia | auto].
  - intros b H1 H2. apply E; [|intros H; apply H2; right; exact H].
    assert (b <> batchIndex s) by (intros Eq; apply H2; left; symmetry; exact Eq). lia.
  - intros b H. apply F. lia.
Qed.

Lemma L_handle : forall s log e s1 vs mx,
  CL s log -> handle s e = (s1, vs, mx) -> crashed s1 = false -> CL s1 (log ++ vs).
Proof.
  intros s log e s1 vs mx HL H Hc. destruct e.
  - destruct (handle_newbatch _ _ _ _ _ _ _ _ H) as (-> & _ & Hk & Hb & _). eapply CL_new; eassumption.
  - destruct (handle_quiet _ _ _ _ _ H I) as (-> & _ & Hk & [Hb _] & _). eapply CL_same; eassumption.
  - destruct (handle_quiet _ _ _ _ _ H I) as (-> & _ & Hk & [Hb _] & _). eapply CL_same; eassumption.
  - destruct (handle_result _ _ _ _ _ _ _ H) as ([Hb _] & Hone). specialize (Hone Hc).
    destruct Hone as [[-> Hk] | (b & vd & -> & Hin & _ & Hk)].
    + eapply CL_same; eassumption.
    + eapply CL_remove; eassumption.
  - destruct (handle_quiet _ _ _ _ _ H I) as (-> & _ & Hk & [Hb _] & _). eapply CL_same; eassumption.
  - destruct (handle_wake _ _ _ _ _ _ H) as ([Hb _] & _ & [[-> Hk] | (-> & Hin & Hk)]).
    + eapply CL_same; eassumption.
    + eapply CL_remove; eassumption.
  - destruct (handle_quiet _ _ _ _ _ H I) as (-> & _ & Hk & [Hb _] & _). eapply CL_same; eassumption.
  - destruct (handle_quiet _ _ _ _ _ H I) as (-> & _ & Hk & [Hb _] & _). eapply CL_same; eassumption.
Qed.

Lemma dseq_crashed : forall es s, crashed s = true -> dseq s es = (s, []).
Proof. intros [|e r] s H; cbn [dseq]; [reflexivity | rewrite H; reflexivity]. Qed.

Lemma L_dseq : forall es s log s1 vs,
  CL s log -> dseq s es = (s1, vs) -> crashed s1 = false -> CL s1 (log ++ vs).
Proof.
  induction es as [|e r IH]; intros s log s1 vs HL H Hc; cbn [dseq] in H.
  - inversion H; subst. rewrite app_nil_r. exact HL.
  - destruct (crashed s) eqn:Hcs; [inversion H; subst; congruence|].
    destruct (handle s e) as [[s' vs'] mx] eqn:Hh.
    destruct (dseq s' r) as [s2 vs2] eqn:Hd. inversion H; subst s2 vs; clear H.
    assert (Hc' : crashed s' = false).
    { destruct (crashed s') eqn:E; [|reflexivity]. rewrite (dseq_crashed r s' E) in Hd. inversion Hd; subst. congruence. }
    rewrite app_assoc. eapply IH; [|exact Hd | exact Hc]. eapply L_handle; eassumption.
Qed.

(* --------------------------------------------------- the closed-loop invariant *)
Record CI (c : cst) : Prop := {
  ci_env : envbad (disp c) = false;
  ci_crash : crashed (disp c) = false;
  ci_names : NoDup (map wname (workers (disp c)));
  ci_view : agree_all (stopped (disp c)) (workers (disp c)) (wst c);
  ci_log : CL (disp c) (vlog c);
  ci_stop : stopped (disp c) = true -> bkeys (disp c) = []
}.

Lemma CI_DV : forall c, CI c -> stopped (disp c) = false -> DV (disp c) (wst c).
Proof.
  intros c [A B C D E F] Hs. constructor; try assumption. rewrite Hs in D. exact D.
Qed.

Lemma ddo_CI : forall c ws' es picks pcs s1 vs,
  CL (disp c) (vlog c) -> dseq (disp c) es = (s1, vs) -> DV s1 ws' ->
  CI (ddo c ws' es picks pcs).
Proof.
  intros c ws' es picks pcs s1 vs HL Hd HV. unfold ddo. rewrite Hd.
  assert (Hc1 := dv_crash _ _ HV). rewrite Hc1.
  destruct (dispatch_phase (length (work s1)) s1 picks []) as [s2 ds] eqn:Hp.
  destruct (V_dispatch _ _ _ _ _ _ _ pcs Hp HV) as [new [Hds HV2]]. cbn [app] in Hds. subst new.
  destruct (dispatch_phase_frame _ _ _ _ _ _ Hp) as (Fb & Fbi & _).
  destruct HV2 as [A B C D E].
  constructor; cbn [disp wst vlog]; try assumption.
  - rewrite C. exact E.
  - assert (HL1 := L_dseq _ _ _ _ _ HL Hd Hc1).
    assert (Hk : bkeys s2 = bkeys s1) by (unfold bkeys; rewrite Fb; reflexivity).
    assert (HL2 := CL_same _ _ _ HL1 Hk Fbi). rewrite app_nil_r in HL2. exact HL2.
  - intros Hs. congruence.
Qed.

Lemma dseq_one : forall s e s1 vs mx,
  crashed s = false -> handle s e = (s1, vs, mx) -> dseq s [e] = (s1, vs ++ []).
Proof. intros s e s1 vs mx Hc H. cbn [dseq]. rewrite Hc, H. reflexivity. Qed.

Lemma z_get_map_val : forall {V W} (f : V -> W) (l : list (Z * V)) k,
  z_get (map (fun x => (fst x, f (snd x))) l) k = option_map f (z_get l k).
Proof.
  intros V W f l k. rewrite z_get_map_key by reflexivity. unfold z_get.
  destruct (find (fun p => fst p =? k) l); reflexivity.
Qed.

Lemma cstep_CI : forall c l, CI c -> CI (cstep c l).
Proof.
  intros c l HI. unfold cstep. rewrite (ci_crash _ HI).
  destruct (stopped (disp c)) eqn:Hs.
  { (* after Quit *)
    destruct (lev l); try exact HI.
    destruct HI as [A B C D E F]. specialize (F Hs).
    constructor; cbn [disp wst vlog set_batchIndex envbad crashed workers stopped]; try assumption.
    - destruct E as [L1 L2 L3 L4 L5 L6]. unfold bkeys in *.
      constructor; unfold bkeys; cbn [batches batchIndex set_batchIndex]; rewrite ?F in *.
      + constructor.
      + intros b [].
      + lia.
      + intros b [].
      + intros b H1 _. rewrite cnt_app, cnt_one. destruct (batchIndex (disp c) =? b) eqn:Eq.
        * apply Z.eqb_eq in Eq. subst b. rewrite L6; [reflexivity | lia].
        * rewrite Nat.add_0_r. apply L5; [lia | intros []].
      + intros b H. rewrite cnt_app, cnt_one. replace (batchIndex (disp c) =? b) with false by lia.
        rewrite Nat.add_0_r. apply L6. lia.
    - intros _. exact F. }
  assert (HV := CI_DV _ HI Hs). assert (HL := ci_log _ HI). assert (Hc := ci_crash _ HI).
  destruct (lev l) as [n nr rt pt|p|p fin prog|p|p|p|p|b|b|b gen|].
  - (* new batch *)
    destruct (handle (disp c) (NewBatch n nr rt pt)) as [[s1 vs] mx] eqn:Hh.
    eapply ddo_CI; [exact HL | eapply dseq_one; eassumption | eapply V_quiet; [exact HV | exact Hh | exact I]].
  - (* a peer connects *)
    destruct (handle (disp c) (PeerConnected p)) as [[s1 vs] mx] eqn:Hh.
    destruct (z_get (wst c) p) as [x|] eqn:Hx.
    + destruct x; try exact HI.
      eapply ddo_CI; [exact HL | eapply dseq_one; eassumption |].
      eapply V_peer; [exact HV | right; eexists; exact Hx | exact Hh].
    + eapply ddo_CI; [exact HL | eapply dseq_one; eassumption |].
      eapply V_peer; [exact HV | left; exact Hx | exact Hh].
  - (* a message from the peer *)
    unfold wlocal. destruct (z_get (wst c) p) as [x|] eqn:Hx; [|exact HI].
    assert (HV' := V_local _ _ p x (WMsg fin prog) HV Hx I).
    destruct HI as [A B C D E F]. destruct HV' as [A' B' C' D' E'].
    constructor; cbn [disp wst vlog]; try assumption. rewrite Hs. exact E'.
  - (* the job timer *)
    unfold wlocal. destruct (z_get (wst c) p) as [x|] eqn:Hx; [|exact HI].
    assert (HV' := V_local _ _ p x WTimer HV Hx I).
    destruct HI as [A B C D E F]. destruct HV' as [A' B' C' D' E'].
    constructor; cbn [disp wst vlog]; try assumption. rewrite Hs. exact E'.
  - (* the peer disconnects *)
    destruct (z_get (wst c) p) as [x|] eqn:Hx.
    2:{ unfold wlocal. rewrite Hx. exact HI. }
    assert (Hloc : x <> WIdle -> CI (wlocal c p WDisconnect)).
    { intros Hne. unfold wlocal. rewrite Hx.
      assert (HV' := V_local _ _ p x WDisconnect HV Hx Hne).
      destruct HI as [A B C D E F]. destruct HV' as [A' B' C' D' E'].
      constructor; cbn [disp wst vlog]; try assumption. rewrite Hs. exact E'. }
    destruct x; try (apply Hloc; discriminate).
    (* idle: Run returns *)
    destruct (handle (disp c) (WorkerExit p)) as [[s1 vs] mx] eqn:Hh.
    destruct (agree_machine _ _ _ _ (dv_agree _ _ HV) Hx) as [w [Hw Ha]].
    assert (Hfree : wactive w = None /\ wexited w = false).
    { unfold agree1 in Ha. destruct (wactive w), (wexited w); try contradiction; try discriminate.
      - destruct Ha as [Ha|[e Ha]]; discriminate.
      - split; reflexivity. }
    destruct Hfree as [Hwa Hwe].
    destruct (V_exit (disp c) _ (wst c) p s1 vs mx w (dv_env _ _ HV) Hc Hs (dv_names _ _ HV) Hw Hwa Hwe
                     (fun p' _ => dv_agree _ _ HV p') eq_refl Hh) as [HV1 _].
    eapply ddo_CI; [exact HL | eapply dseq_one; eassumption | exact HV1].
  - (* a cancel channel is seen closed *)
    destruct (z_get (wst c) p) as [x|] eqn:Hx; [|exact HI].
    destruct x; try exact HI. destruct (cancel_possible c j); [|exact HI].
    unfold wlocal. rewrite Hx.
    assert (HV' := V_local _ _ p (WBusy j) WCancel HV Hx I).
    destruct HI as [A B C D E F]. destruct HV' as [A' B' C' D' E'].
    constructor; cbn [disp wst vlog]; try assumption. rewrite Hs. exact E'.
  - (* the dispatcher receives a result *)
    destruct (z_get (wst c) p) as [x|] eqn:Hx; [|exact HI].
    destruct x as [|j|j e|lost]; try exact HI.
    destruct (handle (disp c) (Result j p e)) as [[s1 vs] mx] eqn:Hh.
    destruct (V_result _ _ _ _ _ _ _ _ HV Hx Hh) as (HV1 & Hs1 & w1 & Hw1 & Hwa1 & Hwe1).
    assert (Hplain : CI (ddo c (z_put (wst c) p WIdle) [Result j p e] (lpicks l) (lpcs l))).
    { eapply ddo_CI; [exact HL | eapply dseq_one; eassumption | exact HV1]. }
    destruct e; try exact Hplain.
    (* ErrPeerDisconnected: Run returns right after the send *)
    destruct (handle s1 (WorkerExit p)) as [[s2 vs2] mx2] eqn:Hh2.
    assert (Hothers : forall p', p' <> p ->
              match wlook (workers s1) p', z_get (wst c) p' with
              | None, None => True | Some w', Some x => agree1 false w' x | _, _ => False end).
    { intros p' Hne. assert (H := dv_agree _ _ HV1 p'). rewrite z_get_put_other in H by exact Hne. exact H. }
    destruct (V_exit s1 _ (wst c) p s2 vs2 mx2 w1 (dv_env _ _ HV1) (dv_crash _ _ HV1) Hs1 (dv_names _ _ HV1)
                     Hw1 Hwa1 Hwe1 Hothers eq_refl Hh2) as [HV2 _].
    eapply ddo_CI; [exact HL | | exact HV2].
    cbn [dseq]. rewrite Hc, Hh, (dv_crash _ _ HV1), Hh2. reflexivity.
  - (* the caller cancels a batch *)
    destruct (handle (disp c) (Cancel b)) as [[s1 vs] mx] eqn:Hh.
    eapply ddo_CI; cbn [disp vlog]; [exact HL | eapply dseq_one; eassumption | eapply V_quiet; [exact HV | exact Hh | exact I]].
  - destruct (handle (disp c) (HardTimer b)) as [[s1 vs] mx] eqn:Hh.
    eapply ddo_CI; [exact HL | eapply dseq_one; eassumption | eapply V_quiet; [exact HV | exact Hh | exact I]].
  - destruct (handle (disp c) (ProgressWake b gen)) as [[s1 vs] mx] eqn:Hh.
    eapply ddo_CI; [exact HL | eapply dseq_one; eassumption | eapply V_quiet; [exact HV | exact Hh | exact I]].
  - (* Quit *)
    destruct HI as [A B C D E F]. destruct E as [L1 L2 L3 L4 L5 L6].
    constructor; cbn [disp wst vlog envbad crashed workers stopped set_stopped set_batches]; try assumption.
    + intros p.
      assert (Eq : z_get (map (fun x : Z * wstate => (fst x, fst (wstep (snd x) WQuit))) (wst c)) p =
                   option_map (fun y => fst (wstep y WQuit)) (z_get (wst c) p))
        by (apply (z_get_map_val (fun y => fst (wstep y WQuit)))).
      rewrite Eq. rewrite Hs in D. specialize (D p).
      destruct (wlook (workers (disp c)) p) as [w|], (z_get (wst c) p) as [x|]; cbn [option_map]; try exact D.
      unfold agree1 in *. destruct (wactive w) as [j|], (wexited w); try contradiction.
      * destruct D as [->|[e ->]]; reflexivity.
      * subst x. reflexivity.
      * subst x. reflexivity.
    + assert (Hcq : forall b, cnt b (map (fun kb : Z * batch => (fst kb, VShutdown)) (batches (disp c))) =
                if mem b (bkeys (disp c)) then 1%nat else 0%nat).
      { intros b. rewrite cnt_nodup_keys.
        - rewrite map_map. reflexivity.
        - rewrite map_map. exact L1. }
      unfold bkeys. constructor; cbn [batches batchIndex set_stopped set_batches map].
      * constructor.
      * intros b [].
      * exact L3.
      * intros b [].
      * intros b H1 _. rewrite cnt_app, Hcq. destruct (mem b (bkeys (disp c))) eqn:M.
        -- apply mem_true_iff in M. rewrite (L4 b M). reflexivity.
        -- apply mem_false_iff in M. rewrite (L5 b H1 M). reflexivity.
      * intros b H. rewrite cnt_app, Hcq. destruct (mem b (bkeys (disp c))) eqn:M.
        -- apply mem_true_iff in M. apply L2 in M. contradiction.
        -- rewrite Nat.add_0_r. auto.
    + intros _. reflexivity.
Qed.

Lemma CI_init : CI cinit.
Proof.
  constructor; cbn; try reflexivity.
  - constructor.
  - intros p. exact I.
  - constructor; cbn.
    + constructor.
    + intros b [].
    + lia.
    + intros b [].
    + intros b H. lia.
    + reflexivity.
Qed.

Lemma CI_run_from : forall ls c, CI c -> CI (crun_from c ls).
Proof.
  induction ls as [|l t IH]; intros c H; [exact H|]. unfold crun_from. cbn [fold_left].
  apply IH. apply cstep_CI. exact H.
Qed.

(* In every reachable state of the closed loop: the dispatcher has seen no
   breach of the worker contract, has not crashed, and its view of every
   worker agrees with that worker's state. *)
Lemma loop_view : forall ls,
  envbad (disp (crun ls)) = false /\ crashed (disp (crun ls)) = false /\ view_agrees (crun ls).
Proof.
  intros ls. assert (H := CI_run_from ls cinit CI_init). fold (crun ls) in H.
  split; [exact (ci_env _ H)|]. split; [exact (ci_crash _ H) | exact (ci_view _ H)].
Qed.

Lemma loop_exactly_one : forall ls b,
  let c := crun ls in
  (In b (bkeys (disp c)) -> vcount b c = 0%nat) /\
  (0 <= b < batchIndex (disp c) -> ~ In b (bkeys (disp c)) -> vcount b c = 1%nat) /\
  (~ (0 <= b < batchIndex (disp c)) -> vcount b c = 0%nat) /\
  (stopped (disp c) = true -> 0 <= b < batchIndex (disp c) -> vcount b c = 1%nat).
Proof.
  intros ls b c. assert (H := CI_run_from ls cinit CI_init). fold (crun ls) in H. fold c in H.
  destruct (ci_log _ H) as [L1 L2 L3 L4 L5 L6]. change (vcount b c) with (cnt b (vlog c)).
  split; [apply L4|]. split; [apply L5|]. split; [apply L6|].
  intros Hs Hb. apply L5; [exact Hb|]. rewrite (ci_stop _ H Hs). intros [].
Qed.
