(* C12 — query work dispatcher: executable model of
   query.peerWorkManager.workDispatcher (workmanager.go), the work heap
   (workqueue.go) and the peer ranking (peer_rank.go).  No proofs here.

   One [step] = one iteration of the dispatcher's outer select (one event
   received) followed by the job-distribution phase at the top of the loop,
   until the dispatcher is back in the outer select.

   Abstractions (stated, not hidden):
   * the binary heap is a list of job indices sorted ascending (Peek/Pop give
     the minimum, Push inserts) — the observable behaviour of container/heap
     with Less = index order;
   * a queryJob is a pointer in Go, mutated in place (tries, timeout); here
     it is a row of the table [jobs] keyed by its index, the heap and the
     workers hold indices;
   * Go maps are association lists; the only iteration whose order matters is
     the free-worker list + unstable sort.Slice in the distribution phase: the
     choice among best-scored free workers is resolved by an explicit list of
     [picks] (an invalid or missing pick falls back to the first candidate),
     and theorems hold for every list of picks;
   * exited workers (onExit closed) are kept in the table with [wexited] set
     instead of being deleted lazily; they are never offered a job, which is
     all the lazy deletion can be observed by, except that a result reported
     under the name of a worker that is unknown or exited-and-free is treated
     as the nil-pointer crash the Go code would (resp. could) run into;
   * timers: a hard deadline is the flag [hardFired] set by the event
     [HardTimer] (the time.After channel has become ready); the idle timer is
     the event [ProgressWake batch gen] (callback posted its wake).  Wall
     clock time is not modelled beyond fired / not fired;
   * batchIndex/queryIndex are unbounded (uint64 in Go, no wrap in practice),
     job.tries is uint8 and wraps explicitly. *)
From Coq Require Import ZArith List Bool.
Import ListNotations.
Open Scope Z_scope.

(* peer_rank.go / workmanager.go constants (seconds for the timeouts);
   compared with the compiled constants on every run (Replay.consts_ok). *)
Definition bestScore : Z := 0.
Definition defaultScore : Z := 4.
Definition worstScore : Z := 8.
Definition minQueryTimeout : Z := 2.
Definition maxQueryTimeout : Z := 32.

Inductive jerr := JOk | JTimeout | JDisconnected | JCanceled | JOther.
Inductive verdict := VSuccess | VTimeout | VDisconnected | VCanceled | VOther | VShutdown.

Definition verdict_of_jerr (e : jerr) : verdict :=
  match e with
  | JOk => VSuccess | JTimeout => VTimeout | JDisconnected => VDisconnected
  | JCanceled => VCanceled | JOther => VOther
  end.

Record job := { jtries : Z; jtimeout : Z }.

Record batch := {
  noRetryMax : bool;
  maxRetries : Z;
  rem : Z;
  hardFired : bool;      (* <-batch.timeout is ready *)
  progT : Z;             (* progressTimeout; only zero / non-zero matters *)
  progGen : Z
}.

Record worker := { wname : Z; wactive : option Z; wexited : bool }.

Record st := {
  work : list Z;                 (* heap of job indices, ascending *)
  jobs : list (Z * job);         (* the queryJob objects by index *)
  batches : list (Z * batch);    (* currentBatches *)
  queries : list (Z * Z);        (* currentQueries: job index -> batch number *)
  workers : list worker;
  rank : list (Z * Z);           (* peerRanking.rank *)
  batchIndex : Z;
  queryIndex : Z;
  stopped : bool;                (* dispatcher returned (quit) *)
  crashed : bool;                (* nil-pointer dereference on workers[addr] *)
  envbad : bool                  (* GHOST: the environment broke the worker contract *)
}.

Definition init : st :=
  {| work := []; jobs := []; batches := []; queries := []; workers := []; rank := [];
     batchIndex := 0; queryIndex := 0; stopped := false; crashed := false; envbad := false |}.

(* association lists *)
Definition z_get {V} (m : list (Z * V)) (k : Z) : option V :=
  option_map snd (find (fun p => fst p =? k) m).
Definition z_del {V} (m : list (Z * V)) (k : Z) : list (Z * V) :=
  filter (fun p => negb (fst p =? k)) m.
Definition z_upd {V} (m : list (Z * V)) (k : Z) (v : V) : list (Z * V) :=
  map (fun p => if fst p =? k then (k, v) else p) m.
Definition z_put {V} (m : list (Z * V)) (k : Z) (v : V) : list (Z * V) :=
  match z_get m k with Some _ => z_upd m k v | None => m ++ [(k, v)] end.

Fixpoint insert_job (j : Z) (l : list Z) : list Z :=
  match l with
  | [] => [j]
  | x :: t => if j <=? x then j :: x :: t else x :: insert_job j t
  end.

(* record updates *)
Definition set_work (s : st) w := {| work := w; jobs := jobs s; batches := batches s; queries := queries s; workers := workers s; rank := rank s; batchIndex := batchIndex s; queryIndex := queryIndex s; stopped := stopped s; crashed := crashed s; envbad := envbad s |}.
Definition set_jobs (s : st) x := {| work := work s; jobs := x; batches := batches s; queries := queries s; workers := workers s; rank := rank s; batchIndex := batchIndex s; queryIndex := queryIndex s; stopped := stopped s; crashed := crashed s; envbad := envbad s |}.
Definition set_batches (s : st) x := {| work := work s; jobs := jobs s; batches := x; queries := queries s; workers := workers s; rank := rank s; batchIndex := batchIndex s; queryIndex := queryIndex s; stopped := stopped s; crashed := crashed s; envbad := envbad s |}.
Definition set_queries (s : st) x := {| work := work s; jobs := jobs s; batches := batches s; queries := x; workers := workers s; rank := rank s; batchIndex := batchIndex s; queryIndex := queryIndex s; stopped := stopped s; crashed := crashed s; envbad := envbad s |}.
Definition set_workers (s : st) x := {| work := work s; jobs := jobs s; batches := batches s; queries := queries s; workers := x; rank := rank s; batchIndex := batchIndex s; queryIndex := queryIndex s; stopped := stopped s; crashed := crashed s; envbad := envbad s |}.
Definition set_rank (s : st) x := {| work := work s; jobs := jobs s; batches := batches s; queries := queries s; workers := workers s; rank := x; batchIndex := batchIndex s; queryIndex := queryIndex s; stopped := stopped s; crashed := crashed s; envbad := envbad s |}.
Definition set_batchIndex (s : st) x := {| work := work s; jobs := jobs s; batches := batches s; queries := queries s; workers := workers s; rank := rank s; batchIndex := x; queryIndex := queryIndex s; stopped := stopped s; crashed := crashed s; envbad := envbad s |}.
Definition set_queryIndex (s : st) x := {| work := work s; jobs := jobs s; batches := batches s; queries := queries s; workers := workers s; rank := rank s; batchIndex := batchIndex s; queryIndex := x; stopped := stopped s; crashed := crashed s; envbad := envbad s |}.
Definition set_stopped (s : st) x := {| work := work s; jobs := jobs s; batches := batches s; queries := queries s; workers := workers s; rank := rank s; batchIndex := batchIndex s; queryIndex := queryIndex s; stopped := x; crashed := crashed s; envbad := envbad s |}.
Definition set_crashed (s : st) x := {| work := work s; jobs := jobs s; batches := batches s; queries := queries s; workers := workers s; rank := rank s; batchIndex := batchIndex s; queryIndex := queryIndex s; stopped := stopped s; crashed := x; envbad := envbad s |}.
Definition set_envbad (s : st) x := {| work := work s; jobs := jobs s; batches := batches s; queries := queries s; workers := workers s; rank := rank s; batchIndex := batchIndex s; queryIndex := queryIndex s; stopped := stopped s; crashed := crashed s; envbad := x |}.

(* ---------------------------------------------------------------- ranking *)
Definition score_in (r : list (Z * Z)) (p : Z) : Z :=
  match z_get r p with Some x => x | None => defaultScore end.
Definition score (s : st) (p : Z) : Z := score_in (rank s) p.

Definition add_peer (r : list (Z * Z)) p :=
  match z_get r p with Some _ => r | None => r ++ [(p, defaultScore)] end.
Definition punish (r : list (Z * Z)) p :=
  match z_get r p with
  | Some x => if x =? worstScore then r else z_upd r p (x + 1)
  | None => r
  end.
Definition reward (r : list (Z * Z)) p :=
  match z_get r p with
  | Some x => if x =? bestScore then r else z_upd r p (x - 1)
  | None => r
  end.
Definition reset_rank (r : list (Z * Z)) p :=
  match z_get r p with Some _ => z_upd r p defaultScore | None => r end.

(* ---------------------------------------------------------------- workers *)
Definition find_worker (s : st) (p : Z) : option worker :=
  find (fun w => wname w =? p) (workers s).
Definition upd_worker (ws : list worker) (p : Z) (a : option Z) : list worker :=
  map (fun w => if wname w =? p then {| wname := p; wactive := a; wexited := wexited w |} else w) ws.
Definition is_free (w : worker) : bool :=
  match wactive w with None => negb (wexited w) | Some _ => false end.
Definition free_workers (s : st) : list Z := map wname (filter is_free (workers s)).

(* candidates: free workers of minimal score (what may come first after
   Ranking.Order, whatever the map order and the unstable sort do) *)
Definition is_min (s : st) (free : list Z) (p : Z) : bool :=
  forallb (fun q => score s p <=? score s q) free.
Definition candidates (s : st) : list Z :=
  let free := free_workers s in filter (is_min s free) free.
Definition mem (x : Z) (l : list Z) : bool := existsb (Z.eqb x) l.

Definition choose (s : st) (picks : list Z) : option (Z * list Z) :=
  match candidates s with
  | [] => None
  | c :: _ =>
    match picks with
    | p :: rest => if mem p (candidates s) then Some (p, rest) else Some (c, rest)
    | [] => Some (c, [])
    end
  end.

Definition job_timeout (s : st) (j : Z) : Z :=
  match z_get (jobs s) j with Some x => jtimeout x | None => 0 end.

(* the distribution phase at the top of Loop: while the heap is non-empty and
   a free worker exists, hand heap-top to the best free worker *)
Fixpoint dispatch_phase (fuel : nat) (s : st) (picks : list Z) (acc : list (Z * Z * Z))
  : st * list (Z * Z * Z) :=
  match fuel with
  | O => (s, acc)
  | S f =>
    match work s with
    | [] => (s, acc)
    | j :: rest =>
      match choose s picks with
      | None => (s, acc)
      | Some (p, picks') =>
        let s' := set_workers (set_work s rest) (upd_worker (workers s) p (Some j)) in
        dispatch_phase f s' picks' (acc ++ [(j, p, job_timeout s j)])
      end
    end
  end.

(* ----------------------------------------------------------------- events *)
Inductive ev :=
  | NewBatch (n : nat) (noRetry : bool) (retries : Z) (progTimeout : Z)
  | PeerConnected (p : Z)
  | WorkerExit (p : Z)          (* worker.Run returned: onExit closed *)
  | Result (j p : Z) (e : jerr) (* jobResult{job j, peer p, err e} received *)
  | HardTimer (b : Z)           (* batch b's time.After channel became ready *)
  | ProgressWake (b gen : Z)    (* idle-timer callback posted its wake *)
  | Cancel (b : Z)              (* caller closed the batch's cancel channel: only
                                   workers look at it; no-op for the dispatcher *)
  | Quit.

Record obs := {
  odisp : list (Z * Z * Z);     (* (job, worker, job timeout) handed out, in order *)
  overd : list (Z * verdict);   (* sends on batch error channels *)
  omax : list Z;                (* OnMaxTries(peer) calls *)
  oscores : list (Z * Z)        (* ranking after the step *)
}.

Definition finish (s : st) (bn : Z) : st := set_batches s (z_del (batches s) bn).

Definition new_jobs (s : st) (n : nat) : list Z := map (fun i => queryIndex s + Z.of_nat i) (seq 0 n).

(* the body of one select arm; returns the state, the verdicts sent and the
   OnMaxTries calls *)
Definition handle (s : st) (e : ev) : st * list (Z * verdict) * list Z :=
  match e with
  | NewBatch n noRetry retries pt =>
    let js := new_jobs s n in
    let s1 := set_work s (fold_left (fun w j => insert_job j w) js (work s)) in
    let s2 := set_jobs s1 (jobs s ++ map (fun j => (j, {| jtries := 0; jtimeout := minQueryTimeout |})) js) in
    let s3 := set_queries s2 (fold_left (fun q j => z_put q j (batchIndex s)) js (queries s)) in
    let b := {| noRetryMax := noRetry; maxRetries := retries; rem := Z.of_nat n; hardFired := false;
                progT := pt; progGen := if pt =? 0 then 0 else 1 |} in
    let s4 := set_batches s3 ((batchIndex s, b) :: batches s) in
    (set_queryIndex (set_batchIndex s4 (batchIndex s + 1)) (queryIndex s + Z.of_nat n), [], [])
  | PeerConnected p =>
    let bad := match find_worker s p with
               | Some w => negb (wexited w) || match wactive w with Some _ => true | None => false end
               | None => false end in
    let ws := match find_worker s p with
              | Some _ => map (fun w => if wname w =? p then {| wname := p; wactive := None; wexited := false |} else w) (workers s)
              | None => workers s ++ [{| wname := p; wactive := None; wexited := false |}]
              end in
    let s1 := set_rank (set_workers s ws) (add_peer (rank s) p) in
    (set_envbad s1 (envbad s || bad), [], [])
  | WorkerExit p =>
    let bad := match find_worker s p with
               | Some w => wexited w || match wactive w with Some _ => true | None => false end
               | None => true end in
    let ws := map (fun w => if wname w =? p then {| wname := p; wactive := wactive w; wexited := true |} else w) (workers s) in
    (set_envbad (set_workers s ws) (envbad s || bad), [], [])
  | Result j p err =>
    match find_worker s p with
    | None => (set_envbad (set_crashed s true) true, [], [])
    | Some w =>
      if is_free {| wname := p; wactive := wactive w; wexited := negb (wexited w) |} then
        (* exited and free: the entry may already have been deleted *)
        (set_envbad (set_crashed s true) true, [], [])
      else
      let bad := match wactive w with Some a => negb (a =? j) | None => true end in
      let s0 := set_envbad s (envbad s || bad) in
      let s1 := set_workers s0 (upd_worker (workers s0) p None) in
      let bn := match z_get (queries s1) j with Some b => b | None => 0 end in
      let s2 := set_queries s1 (z_del (queries s1) j) in
      match z_get (batches s2) bn with
      | None => (s2, [], [])                         (* batch already finished: discarded *)
      | Some b =>
        match err with
        | JCanceled => (finish s2 bn, [(bn, VCanceled)], [])
        | JOk =>
          let s3 := set_rank s2 (reward (rank s2) p) in
          let b1 := {| noRetryMax := noRetryMax b; maxRetries := maxRetries b; rem := rem b - 1;
                       hardFired := hardFired b; progT := progT b; progGen := progGen b |} in
          if rem b1 =? 0 then (finish s3 bn, [(bn, VSuccess)], [])
          else if hardFired b then (finish s3 bn, [(bn, VTimeout)], [])
          else
            let b2 := {| noRetryMax := noRetryMax b1; maxRetries := maxRetries b1; rem := rem b1;
                         hardFired := hardFired b1; progT := progT b1;
                         progGen := if progT b1 =? 0 then progGen b1 else progGen b1 + 1 |} in
            (set_batches s3 (z_upd (batches s3) bn b2), [], [])
        | _ =>
          let s3 := set_rank s2 (match err with
                                 | JDisconnected => reset_rank (rank s2) p
                                 | _ => punish (rank s2) p end) in
          let jb := match z_get (jobs s3) j with Some x => x | None => {| jtries := 0; jtimeout := minQueryTimeout |} end in
          let tries := if noRetryMax b then jtries jb else (jtries jb + 1) mod 256 in
          let s4 := set_jobs s3 (z_upd (jobs s3) j {| jtries := tries; jtimeout := jtimeout jb |}) in
          if negb (noRetryMax b) && (maxRetries b <=? tries) then
            (finish s4 bn, [(bn, verdict_of_jerr err)], [p])
          else
            let tmo := match err with
                       | JTimeout => Z.min (jtimeout jb * 2) maxQueryTimeout
                       | _ => jtimeout jb end in
            let s5 := set_jobs s4 (z_upd (jobs s4) j {| jtries := tries; jtimeout := tmo |}) in
            let s6 := set_queries (set_work s5 (insert_job j (work s5))) (z_put (queries s5) j bn) in
            if hardFired b then (finish s6 bn, [(bn, VTimeout)], []) else (s6, [], [])
        end
      end
    end
  | HardTimer bn =>
    match z_get (batches s) bn with
    | Some b => (set_batches s (z_upd (batches s) bn
                   {| noRetryMax := noRetryMax b; maxRetries := maxRetries b; rem := rem b;
                      hardFired := true; progT := progT b; progGen := progGen b |}), [], [])
    | None => (s, [], [])
    end
  | ProgressWake bn gen =>
    match z_get (batches s) bn with
    | Some b => if gen =? progGen b then (finish s bn, [(bn, VTimeout)], []) else (s, [], [])
    | None => (s, [], [])
    end
  | Cancel _ => (s, [], [])
  | Quit => (s, [], [])   (* handled in [step] *)
  end.

Definition mk_obs (s : st) d v m := {| odisp := d; overd := v; omax := m; oscores := rank s |}.

Definition step (s : st) (ep : ev * list Z) : st * obs :=
  let '(e, picks) := ep in
  if crashed s then (s, mk_obs s [] [] [])
  else if stopped s then
    match e with
    | NewBatch _ _ _ _ =>
      (* Query after Stop: the caller gets the shutdown error at once; the
         batch number is only the harness's running count *)
      (set_batchIndex s (batchIndex s + 1), mk_obs s [] [(batchIndex s, VShutdown)] [])
    | _ => (s, mk_obs s [] [] [])
    end
  else
    match e with
    | Quit =>
      (set_stopped (set_batches s []) true,
       mk_obs s [] (map (fun p => (fst p, VShutdown)) (batches s)) [])
    | _ =>
      let '(s1, vs, mx) := handle s e in
      if crashed s1 then (s1, mk_obs s1 [] vs mx)
      else
        let '(s2, ds) := dispatch_phase (length (work s1)) s1 picks [] in
        (s2, mk_obs s2 ds vs mx)
    end.

Fixpoint run_from (s : st) (inp : list (ev * list Z)) : st * list (ev * obs) :=
  match inp with
  | [] => (s, [])
  | ep :: rest =>
    let '(s1, o) := step s ep in
    let '(s2, tr) := run_from s1 rest in
    (s2, (fst ep, o) :: tr)
  end.
Definition run (inp : list (ev * list Z)) : st * list (ev * obs) := run_from init inp.
Definition final (inp : list (ev * list Z)) : st := fst (run inp).
Definition trace (inp : list (ev * list Z)) : list (ev * obs) := snd (run inp).

(* ======================================================================
   Second machine: worker.Run (query/worker.go), one worker and its peer.
   One [wstep] = one select of the worker's loops becoming ready.
   * WJob j pc: a job is offered on nextJob; pc = one of the job's cancel
     channels (caller's or batch-internal) is already closed at pick-up.
     Only an idle worker reads nextJob.  A pre-cancelled job is not queued to
     the peer and goes straight to the ErrJobCanceled result.
   * WMsg fin prog: a message from the peer; while idle it is ignored, while
     busy HandleResp returns Progress{fin, prog} (prog only re-arms the job
     timer, which is not modelled beyond fired / not fired).
   * WTimer / WDisconnect / WCancel / WIntCancel: the job timer fires, the
     peer disconnects, the caller's cancel channel / the batch-internal
     cancel channel (hard or idle timeout of the batch) is closed.
   * WTake: the dispatcher receives the pending jobResult.
   * WQuit: the quit channel is closed.
   [WGone lost]: Run has returned; lost = the job it held when told to quit. *)
Inductive wstate := WIdle | WBusy (j : Z) | WSend (j : Z) (e : jerr) | WGone (lost : option Z).

Inductive wev :=
  | WJob (j : Z) (precancel : bool)
  | WMsg (finished progressed : bool)
  | WTimer | WDisconnect | WCancel | WIntCancel
  | WTake
  | WQuit.

Record wobs := {
  wacc : bool;                  (* the offered job was read from nextJob *)
  wsent : bool;                 (* its request was queued to the peer *)
  wres : option (Z * jerr)      (* jobResult delivered *)
}.
Definition wnone : wobs := {| wacc := false; wsent := false; wres := None |}.

Definition wstep (s : wstate) (e : wev) : wstate * wobs :=
  match s with
  | WIdle =>
    match e with
    | WJob j pc =>
      if pc then (WSend j JCanceled, {| wacc := true; wsent := false; wres := None |})
      else (WBusy j, {| wacc := true; wsent := true; wres := None |})
    | WDisconnect => (WGone None, wnone)
    | WQuit => (WGone None, wnone)
    | _ => (WIdle, wnone)
    end
  | WBusy j =>
    match e with
    | WMsg fin _ => if fin then (WSend j JOk, wnone) else (WBusy j, wnone)
    | WTimer => (WSend j JTimeout, wnone)
    | WDisconnect => (WSend j JDisconnected, wnone)
    | WCancel => (WSend j JCanceled, wnone)
    | WIntCancel => (WSend j JCanceled, wnone)
    | WQuit => (WGone (Some j), wnone)
    | _ => (WBusy j, wnone)
    end
  | WSend j err =>
    match e with
    | WTake =>
      ((match err with JDisconnected => WGone None | _ => WIdle end),
       {| wacc := false; wsent := false; wres := Some (j, err) |})
    | WQuit => (WGone (Some j), wnone)
    | _ => (WSend j err, wnone)
    end
  | WGone l => (WGone l, wnone)
  end.

Fixpoint wrun_from (s : wstate) (es : list wev) : wstate * list (wev * wobs) :=
  match es with
  | [] => (s, [])
  | e :: rest =>
    let '(s1, o) := wstep s e in
    let '(s2, tr) := wrun_from s1 rest in
    (s2, (e, o) :: tr)
  end.
Definition wfinal (es : list wev) : wstate := fst (wrun_from WIdle es).
Definition wtrace (es : list wev) : list (wev * wobs) := snd (wrun_from WIdle es).
