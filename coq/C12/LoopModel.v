(* C12 — closed loop: the dispatcher model, one worker.Run machine per peer,
   and an environment that only chooses new batches, peer connects, peer
   replies, job timers, disconnects, cancels, batch timers and Quit, as ONE
   transition system.  No proofs here.

   State: the dispatcher state [disp] (Model.st), the worker machines [wst]
   (peer -> Model.wstate), the batches whose caller has closed the cancel
   channel [ccancel], and the log of everything sent on error channels
   [vlog] (ghost).

   How the parts meet (query/workmanager.go, query/worker.go):
   * hand-out: the dispatcher's send on NewJob() and the idle worker's
     receive are one rendezvous: every hand-out of the distribution phase is
     delivered to that worker's machine as [WJob j pc] in the same step
     ([pc]: one of the job's cancel channels is already closed at pick-up —
     chosen by the environment);
   * result: the worker's send on the results channel and the dispatcher's
     receive are one rendezvous, the label [CTake p]: enabled when p's
     machine holds a result (WSend j e); the dispatcher handles
     Result j p e.  A worker whose result is ErrPeerDisconnected returns
     right after the send, so the dispatcher's next NewJob() send to it can
     never succeed and its onExit case deletes it: the exit is applied before
     the distribution phase of the same step;
   * an idle worker that sees the disconnect returns: [CDisc p] on an idle
     machine marks it exited for the dispatcher (lazy deletion, as in Model);
   * Quit stops the dispatcher and every worker (quit channel);
   * the peer source announces an address only if no worker for it is still
     running ([CPeer p] is enabled when p has no machine or its Run has
     returned) — an assumption on the environment, as in Model;
   * cancels: the caller may close a batch's cancel channel at any time
     ([CCallerCancel b]); a busy worker may then see it, and it may see the
     batch-internal cancel once the batch is no longer live ([CCancelSeen p],
     guarded by [cancel_possible]: a superset of the real enabling
     condition, the internal channel being closed only on timeout verdicts).
   Labels that are not enabled are no-ops, so every label sequence is a run. *)
From Coq Require Import ZArith List Bool.
From Verif Require Import C12.Model.
Import ListNotations.
Open Scope Z_scope.

Record cst := {
  disp : st;
  wst : list (Z * wstate);
  ccancel : list Z;
  vlog : list (Z * verdict)
}.
Definition cinit : cst := {| disp := init; wst := []; ccancel := []; vlog := [] |}.

Inductive cev :=
  | CNewBatch (n : nat) (noRetry : bool) (retries : Z) (progTimeout : Z)
  | CPeer (p : Z)
  | CMsg (p : Z) (finished progressed : bool)
  | CTimer (p : Z)
  | CDisc (p : Z)
  | CCancelSeen (p : Z)
  | CTake (p : Z)
  | CCallerCancel (b : Z)
  | CHard (b : Z)
  | CWake (b gen : Z)
  | CQuit.

(* a label with the environment's tie-breaks: which of the equally ranked
   free workers gets each job, and whether the job is already cancelled at
   pick-up *)
Record clabel := { lev : cev; lpicks : list Z; lpcs : list bool }.

(* the dispatcher handles a list of events back to back *)
Fixpoint dseq (s : st) (es : list ev) : st * list (Z * verdict) :=
  match es with
  | [] => (s, [])
  | e :: rest =>
    if crashed s then (s, []) else
    let '(s1, vs, _) := handle s e in
    let '(s2, vs2) := dseq s1 rest in (s2, vs ++ vs2)
  end.

Definition deliver (ws : list (Z * wstate)) (d : Z * Z * Z) (pc : bool) : list (Z * wstate) :=
  let '(j, p, _) := d in
  match z_get ws p with
  | Some x => z_put ws p (fst (wstep x (WJob j pc)))
  | None => ws
  end.

Fixpoint deliver_all (ws : list (Z * wstate)) (ds : list (Z * Z * Z)) (pcs : list bool) : list (Z * wstate) :=
  match ds with
  | [] => ws
  | d :: rest =>
    match pcs with
    | pc :: pcs' => deliver_all (deliver ws d pc) rest pcs'
    | [] => deliver_all (deliver ws d false) rest []
    end
  end.

(* dispatcher events [es], then the distribution phase, then the hand-outs
   reach the workers *)
Definition ddo (c : cst) (ws' : list (Z * wstate)) (es : list ev) (picks : list Z) (pcs : list bool) : cst :=
  let '(s1, vs) := dseq (disp c) es in
  let '(s2, ds) := if crashed s1 then (s1, []) else dispatch_phase (length (work s1)) s1 picks [] in
  {| disp := s2; wst := deliver_all ws' ds pcs; ccancel := ccancel c; vlog := vlog c ++ vs |}.

Definition wlocal (c : cst) (p : Z) (e : wev) : cst :=
  match z_get (wst c) p with
  | Some x => {| disp := disp c; wst := z_put (wst c) p (fst (wstep x e)); ccancel := ccancel c; vlog := vlog c |}
  | None => c
  end.

Definition job_batch (s : st) (j : Z) : Z :=
  match z_get (queries s) j with Some b => b | None => 0 end.
Definition cancel_possible (c : cst) (j : Z) : bool :=
  mem (job_batch (disp c) j) (ccancel c) ||
  match z_get (batches (disp c)) (job_batch (disp c) j) with Some _ => false | None => true end.

Definition cstep (c : cst) (l : clabel) : cst :=
  let s := disp c in
  let picks := lpicks l in let pcs := lpcs l in
  if crashed s then c else
  if stopped s then
    match lev l with
    | CNewBatch _ _ _ _ =>
      (* Query after Stop: the caller gets the shutdown error at once *)
      {| disp := set_batchIndex s (batchIndex s + 1); wst := wst c; ccancel := ccancel c;
         vlog := vlog c ++ [(batchIndex s, VShutdown)] |}
    | _ => c
    end
  else
  match lev l with
  | CNewBatch n nr rt pt => ddo c (wst c) [NewBatch n nr rt pt] picks pcs
  | CPeer p =>
    match z_get (wst c) p with
    | None | Some (WGone _) => ddo c (z_put (wst c) p WIdle) [PeerConnected p] picks pcs
    | _ => c
    end
  | CMsg p fin prog => wlocal c p (WMsg fin prog)
  | CTimer p => wlocal c p WTimer
  | CDisc p =>
    match z_get (wst c) p with
    | Some WIdle => ddo c (z_put (wst c) p (WGone None)) [WorkerExit p] picks pcs
    | _ => wlocal c p WDisconnect
    end
  | CCancelSeen p =>
    match z_get (wst c) p with
    | Some (WBusy j) => if cancel_possible c j then wlocal c p WCancel else c
    | _ => c
    end
  | CTake p =>
    match z_get (wst c) p with
    | Some (WSend j e) =>
      match e with
      | JDisconnected => ddo c (z_put (wst c) p (WGone None)) [Result j p e; WorkerExit p] picks pcs
      | _ => ddo c (z_put (wst c) p WIdle) [Result j p e] picks pcs
      end
    | _ => c
    end
  | CCallerCancel b =>
    ddo {| disp := s; wst := wst c; ccancel := b :: ccancel c; vlog := vlog c |} (wst c) [Cancel b] picks pcs
  | CHard b => ddo c (wst c) [HardTimer b] picks pcs
  | CWake b gen => ddo c (wst c) [ProgressWake b gen] picks pcs
  | CQuit =>
    {| disp := set_stopped (set_batches s []) true;
       wst := map (fun x => (fst x, fst (wstep (snd x) WQuit))) (wst c);
       ccancel := ccancel c;
       vlog := vlog c ++ map (fun kb => (fst kb, VShutdown)) (batches s) |}
  end.

Definition crun_from (c : cst) (ls : list clabel) : cst := fold_left cstep ls c.
Definition crun (ls : list clabel) : cst := crun_from cinit ls.

(* ---------------------------------------------------------- what is claimed *)
(* the dispatcher's view of one worker against that worker's own state *)
Definition agree1 (stop : bool) (w : worker) (x : wstate) : Prop :=
  if stop then
    match wactive w with
    | Some j => x = WGone (Some j)      (* told to quit while holding j *)
    | None => x = WGone None
    end
  else
    match wactive w, wexited w with
    | Some j, false => x = WBusy j \/ exists e, x = WSend j e   (* busy with j *)
    | None, false => x = WIdle                                    (* free *)
    | None, true => x = WGone None                                (* exited while idle *)
    | Some _, true => False
    end.

Definition view_agrees (c : cst) : Prop :=
  forall p,
    match find (fun w => wname w =? p) (workers (disp c)), z_get (wst c) p with
    | None, None => True
    | Some w, Some x => agree1 (stopped (disp c)) w x
    | _, _ => False
    end.

Definition vcount (b : Z) (c : cst) : nat := length (filter (fun p => fst p =? b) (vlog c)).
