(* C12 — the property theorems, and nothing else.
   [inp] is ANY list of (event, picks): events are new batches with any option
   set, peer connects / worker exits, job results of any class from any
   worker for any job, hard deadlines passing, idle-timer wakes with any
   generation, cancels and Quit, in any order; [picks] resolves the choice
   among equally ranked free workers in any way.  [final inp] is the
   dispatcher state after the run, [trace inp] what was observable. *)
From Coq Require Import ZArith List Bool Lia.
From Verif Require Import C12.Model C12.Spec C12.Proofs C12.ProofsJ C12.ProofsM C12.LoopModel C12.LoopProofs C12.TimerModel C12.TimerProofs C12.WakeModel C12.WakeProofs.
Import ListNotations.
Open Scope Z_scope.

(* Exactly one verdict.  After any run (in which the dispatcher did not hit
   the nil-worker panic, see C12_no_crash_if_contract_kept): a batch that is
   still live has received nothing on its error channel, a batch that is no
   longer live has received exactly one value, and after Quit every batch
   ever submitted has received exactly one. *)
Theorem C12_exactly_one_verdict : forall inp b,
  crashed (final inp) = false ->
  (In b (bkeys (final inp)) -> count_verdicts b (trace inp) = 0%nat) /\
  (0 <= b < batchIndex (final inp) -> ~ In b (bkeys (final inp)) -> count_verdicts b (trace inp) = 1%nat) /\
  (~ (0 <= b < batchIndex (final inp)) -> count_verdicts b (trace inp) = 0%nat) /\
  (stopped (final inp) = true -> 0 <= b < batchIndex (final inp) -> count_verdicts b (trace inp) = 1%nat).
Proof. exact exactly_one_model. Qed.
Print Assumptions C12_exactly_one_verdict.

(* Verdict discipline (the monitor evaluated on implementation traces): every
   send on an error channel goes to a batch that is live at that moment and
   retires it — so the 1-slot channel is never written twice and the
   dispatcher cannot block on it —, its class fits the event that caused it,
   and nothing is sent after Quit except the immediate shutdown error of a
   late Query. *)
Theorem C12_verdict_discipline : forall inp,
  crashed (final inp) = false -> vholds (trace inp) = true.
Proof. exact vholds_model. Qed.
Print Assumptions C12_verdict_discipline.

(* What acceptance by that monitor means, for ANY trace (also the
   implementation's): no verdict while live, exactly one afterwards. *)
Theorem C12_monitor_means_exactly_one : forall tr v,
  mon_run vstep vinit tr = Some v ->
  forall b,
    (In b (vlive v) -> count_verdicts b tr = 0%nat) /\
    (0 <= b < vnext v -> ~ In b (vlive v) -> count_verdicts b tr = 1%nat) /\
    (~ (0 <= b < vnext v) -> count_verdicts b tr = 0%nat) /\
    (vstop v = true -> 0 <= b < vnext v -> count_verdicts b tr = 1%nat).
Proof. exact vholds_exactly_one. Qed.
Print Assumptions C12_monitor_means_exactly_one.

(* Quit: every live batch gets the shutdown error, once (live batch numbers
   are pairwise distinct), nothing is handed out, no batch stays live. *)
Theorem C12_quit_one_shutdown_error_each : forall inp picks,
  crashed (final inp) = false -> stopped (final inp) = false ->
  let r := step (final inp) (Quit, picks) in
  overd (snd r) = map (fun kb => (fst kb, VShutdown)) (batches (final inp)) /\
  NoDup (bkeys (final inp)) /\
  odisp (snd r) = [] /\ stopped (fst r) = true /\ batches (fst r) = [].
Proof.
  intros inp picks Hc Hs. destruct (quit_step (final inp) picks Hc Hs) as (A & B & C & D).
  repeat split; try assumption. apply live_keys_nodup. exact Hc.
Qed.
Print Assumptions C12_quit_one_shutdown_error_each.

(* Ranking: whenever a job is handed out it goes to a free worker whose score
   is minimal among the free workers (ties are free). *)
Theorem C12_handout_to_best_ranked_free_worker : forall inp,
  crashed (final inp) = false -> rholds (trace inp) = true.
Proof. exact rholds_model. Qed.
Print Assumptions C12_handout_to_best_ranked_free_worker.

(* A result for a job whose batch is finished (answered, failed, timed out,
   cancelled) only frees the worker's slot: no verdict, no callback, and the
   queue, the live batches, the ranking and the jobs are untouched — a
   finished batch cannot hold up later batches. *)
Theorem C12_result_of_finished_batch_discarded : forall s j p e s1 vs mx,
  handle s (Result j p e) = (s1, vs, mx) -> crashed s1 = false ->
  z_get (batches s) (batch_of_job s j) = None ->
  vs = [] /\ mx = [] /\ work s1 = work s /\ batches s1 = batches s /\ rank s1 = rank s /\
  jobs s1 = jobs s /\ workers s1 = upd_worker (workers s) p None /\
  batchIndex s1 = batchIndex s /\ queryIndex s1 = queryIndex s.
Proof. exact result_discarded. Qed.
Print Assumptions C12_result_of_finished_batch_discarded.

(* Re-queueing: a failed (timeout / disconnect / other) job of a live batch
   goes back into the queue under its batch, unless the retry cap is reached
   — then the batch gets that job's error and OnMaxTries is called, never
   with NoRetryMax — or the hard deadline has passed — then the batch gets
   the timeout error. *)
Theorem C12_failed_job_requeued_unless_verdict : forall s j p e s1 vs mx b,
  handle s (Result j p e) = (s1, vs, mx) -> crashed s1 = false ->
  is_failure e = true ->
  z_get (batches s) (batch_of_job s j) = Some b ->
  let capped := negb (noRetryMax b) && (maxRetries b <=? tries_after s b j) in
  (capped = true -> vs = [(batch_of_job s j, verdict_of_jerr e)] /\ mx = [p] /\ ~ In (batch_of_job s j) (bkeys s1)) /\
  (capped = false -> In j (work s1) /\ z_get (queries s1) j = Some (batch_of_job s j) /\
     (hardFired b = true -> vs = [(batch_of_job s j, VTimeout)] /\ mx = []) /\
     (hardFired b = false -> vs = [] /\ mx = [] /\ z_get (batches s1) (batch_of_job s j) = Some b)).
Proof. exact failure_requeued. Qed.
Print Assumptions C12_failed_job_requeued_unless_verdict.

(* ... and a queued job is handed out as soon as a worker is free: when the
   dispatcher is back in its select, every job that was queued is still
   queued or has been handed out, and either the queue is empty or no worker
   is free. *)
Theorem C12_queued_job_kept_or_handed_out : forall fuel s picks acc s' ds x,
  dispatch_phase fuel s picks acc = (s', ds) -> In x (work s) ->
  In x (work s') \/ exists new, ds = acc ++ new /\ In x (map (fun d => fst (fst d)) new).
Proof. exact dispatch_phase_keeps. Qed.
Print Assumptions C12_queued_job_kept_or_handed_out.

Theorem C12_no_job_waits_for_a_free_worker : forall s picks s' ds,
  dispatch_phase (length (work s)) s picks [] = (s', ds) ->
  work s' = [] \/ free_workers s' = [].
Proof. intros s picks s' ds H. eapply dispatch_phase_complete; [exact H | lia]. Qed.
Print Assumptions C12_no_job_waits_for_a_free_worker.

(* The nil-worker panic needs a breach of the worker contract (a result
   reported under the name of a worker that is unknown, or that has exited
   while idle). *)
Theorem C12_no_crash_if_contract_kept : forall inp,
  envbad (final inp) = false -> crashed (final inp) = false.
Proof. exact no_crash_if_env_ok. Qed.
Print Assumptions C12_no_crash_if_contract_kept.

(* Success means all answered.  [before_quit (trace inp)] is what the
   dispatcher saw (up to the first Quit; afterwards only shutdown errors are
   sent, see C12_only_shutdown_errors_after_quit).  Batches are numbered in
   submission order, batch b owns the consecutive job indices
   [requests_of tr b]; [ok_count j tr] counts the successful results
   (Result j _ JOk) of request j.  For every history in which the environment
   keeps the worker contract (a result is reported by the worker that holds
   the job — C12_loop_worker_view_agrees proves this of worker.Run), for every
   step and every verdict (b, vd) sent in it:

     vd is success  <->  batch b has requests and, counting the event of this
                         very step, every one of them has exactly one
                         successful result.

   Together with C12_exactly_one_verdict: the one verdict of a batch is
   success iff all of its requests had been answered successfully when the
   verdict was given — late results, results of other batches, results
   arriving after another batch's cancel or timeout, retries after failures
   and worker departures notwithstanding; a result is never attributed to
   another batch, and no request is ever answered successfully twice (so the
   successful results counted for a batch belong to pairwise distinct
   requests of that batch).  An empty batch never succeeds (its counter never
   reaches zero by a decrement): it is answered by the idle timer or at
   shutdown. *)
Theorem C12_success_iff_all_answered : forall inp,
  envbad (final inp) = false ->
  forall pre e o post b vd,
    before_quit (trace inp) = pre ++ (e, o) :: post -> In (b, vd) (overd o) ->
    (vd = VSuccess <-> all_answered (before_quit (trace inp)) b (pre ++ [(e, o)])).
Proof. intros inp H. exact (proj1 (success_iff_model inp H)). Qed.
Print Assumptions C12_success_iff_all_answered.

Theorem C12_no_request_answered_twice : forall inp,
  envbad (final inp) = false ->
  forall j, (ok_count j (before_quit (trace inp)) <= 1)%nat.
Proof. intros inp H. exact (proj2 (success_iff_model inp H)). Qed.
Print Assumptions C12_no_request_answered_twice.

Theorem C12_only_shutdown_errors_after_quit : forall inp pre o post,
  trace inp = pre ++ (Quit, o) :: post ->
  forall b vd, In (b, vd) (flat_map (fun eo => overd (snd eo)) ((Quit, o) :: post)) -> vd = VShutdown.
Proof. exact quit_then_only_shutdown. Qed.
Print Assumptions C12_only_shutdown_errors_after_quit.

(* The job monitor evaluated on implementation traces accepts every model
   trace (hand-out order, no re-issue of an answered or dropped job, success
   announced exactly when the last request of a live batch is answered,
   unanswered jobs of live batches queued again, no queued job of a live
   batch waiting while a worker is free); once the environment breaks the
   worker contract the monitor stops judging. *)
Theorem C12_job_monitor_accepts_model : forall inp,
  crashed (final inp) = false -> jholds (trace inp) = true.
Proof. exact jholds_model. Qed.
Print Assumptions C12_job_monitor_accepts_model.

(* ... and what acceptance by the monitors means, for ANY trace (also the
   implementation's) without Quit in which the contract was kept: the same
   statement as C12_success_iff_all_answered — the monitors are sound for the
   theorem's notion of "all answered". *)
Theorem C12_monitors_mean_success_iff_all_answered : forall tr v m,
  noquit tr -> mon_run vstep vinit tr = Some v -> mon_run jstep jinit tr = Some m -> jenv m = true ->
  (forall pre e o post b vd, tr = pre ++ (e, o) :: post -> In (b, vd) (overd o) ->
     (vd = VSuccess <-> all_answered tr b (pre ++ [(e, o)]))) /\
  (forall j, (ok_count j tr <= 1)%nat).
Proof. exact monitors_mean_success_iff. Qed.
Print Assumptions C12_monitors_mean_success_iff_all_answered.

(* The counter mechanism behind it (one-step facts, for every state): a
   success verdict is only sent on a successful result of a job of that batch
   when exactly one of its requests was unanswered; a successful result is
   never re-queued and lowers the unanswered count of its (live) batch by
   exactly one, touching no other batch; failed and cancelled results never
   change the count of a batch that stays live. *)
Theorem C12_success_only_when_counter_reaches_zero : forall s j p e s1 bn mx,
  handle s (Result j p e) = (s1, [(bn, VSuccess)], mx) ->
  e = JOk /\ bn = batch_of_job s j /\ exists b, z_get (batches s) bn = Some b /\ rem b = 1.
Proof. exact success_only_when_last. Qed.
Print Assumptions C12_success_only_when_counter_reaches_zero.

Theorem C12_ok_result_counts_once : forall s j p s1 vs mx b,
  handle s (Result j p JOk) = (s1, vs, mx) -> crashed s1 = false ->
  z_get (batches s) (batch_of_job s j) = Some b ->
  work s1 = work s /\ mx = [] /\
  (rem b = 1 -> vs = [(batch_of_job s j, VSuccess)]) /\
  (rem b <> 1 -> hardFired b = true -> vs = [(batch_of_job s j, VTimeout)]) /\
  (rem b <> 1 -> hardFired b = false ->
     vs = [] /\ exists b', z_get (batches s1) (batch_of_job s j) = Some b' /\ rem b' = rem b - 1) /\
  (forall bn', bn' <> batch_of_job s j -> z_get (batches s1) bn' = z_get (batches s) bn').
Proof. exact ok_result_counts_once. Qed.
Print Assumptions C12_ok_result_counts_once.

Theorem C12_failed_result_keeps_counts : forall s j p e s1 vs mx bn' b',
  handle s (Result j p e) = (s1, vs, mx) -> crashed s1 = false -> e <> JOk ->
  z_get (batches s1) bn' = Some b' -> z_get (batches s) bn' = Some b'.
Proof. exact failed_result_keeps_counts. Qed.
Print Assumptions C12_failed_result_keeps_counts.

(* ---- worker.Run (second machine) and its composition with the dispatcher.

   Worker contract: for every sequence of worker events (jobs offered, peer
   messages finishing / progressing / unrelated, job timer, peer disconnect,
   caller cancel, batch-internal cancel, the dispatcher taking results, quit)
   the jobs the worker read from nextJob are exactly the jobs it reported a
   result for, in order, plus the one it still owes (working on it, result
   ready, or held when it was told to quit). *)
Theorem C12_worker_one_result_per_accepted_job : forall es,
  waccepted (wtrace es) = map fst (wresults (wtrace es)) ++ wowed (wfinal es).
Proof. exact worker_exactly_one. Qed.
Print Assumptions C12_worker_one_result_per_accepted_job.

(* Every way a job can end — finished response, job timer, disconnect, caller
   cancel and the batch-internal cancel of a timed-out batch — makes the
   worker hold a result of that class, which the dispatcher receives; unless
   the peer disconnected the worker is then idle again. *)
Theorem C12_worker_every_cause_reported : forall j e c,
  cause_of e = Some c ->
  fst (wstep (WBusy j) e) = WSend j c /\
  wres (snd (wstep (WSend j c) WTake)) = Some (j, c) /\
  (c <> JDisconnected -> fst (wstep (WSend j c) WTake) = WIdle).
Proof. exact worker_cause_reported. Qed.
Print Assumptions C12_worker_every_cause_reported.

(* The worker model satisfies the contract monitor evaluated on traces of the
   real worker.Run. *)
Theorem C12_worker_contract_monitor : forall es, wholds (wtrace es) = true.
Proof. exact wholds_model. Qed.
Print Assumptions C12_worker_contract_monitor.

(* ---- The job timer (TimerModel.v: the worker machine with a clock; the
   timer is armed with the job's timeout when the job is read and re-armed
   ONLY by a response whose handler reports progress without finishing).

   A chatty peer cannot keep a job: from any state in which the worker works
   on job j, after ANY sequence of clock ticks and responses that make no
   progress (Progress{}: for GetBlock every message that is not the requested
   block) containing at least the remaining number of ticks, the worker still
   works on j, the timer event is enabled — it stays enabled however many
   further such responses arrive: take es longer — and taking it reports
   ErrQueryTimeout for j to the dispatcher, which re-queues the job. *)
Theorem C12_worker_timeout_not_postponed_by_noise : forall s j es T,
  tw s = WBusy j -> forallb is_noise es = true -> (tleft s <= ticks es)%nat ->
  tw (twrun s es) = WBusy j /\ tleft (twrun s es) = 0%nat /\
  tw (fst (twstep (twrun s es) (TE WTimer T))) = WSend j JTimeout /\
  wres (snd (twstep (fst (twstep (twrun s es) (TE WTimer T))) (TE WTake T))) = Some (j, JTimeout).
Proof. exact timeout_not_postponed. Qed.
Print Assumptions C12_worker_timeout_not_postponed_by_noise.

(* Exactly: noise never changes the time left beyond the ticks that pass. *)
Theorem C12_worker_noise_only_lets_time_pass : forall es s j,
  tw s = WBusy j -> forallb is_noise es = true ->
  tw (twrun s es) = WBusy j /\ tfull (twrun s es) = tfull s /\
  tleft (twrun s es) = (tleft s - ticks es)%nat.
Proof. exact noise_run. Qed.
Print Assumptions C12_worker_noise_only_lets_time_pass.

(* The other side of the distinction: the timer is armed with the job's
   timeout when the job is read, a response that makes progress re-arms it
   with the full timeout, and the timer event is not enabled while ticks are
   left. *)
Theorem C12_worker_timer_armed_and_rearmed_by_progress_only : forall s j T,
  (tw s = WIdle ->
     tw (fst (twstep s (TE (WJob j false) T))) = WBusy j /\
     tleft (fst (twstep s (TE (WJob j false) T))) = T /\ tfull (fst (twstep s (TE (WJob j false) T))) = T) /\
  (tw s = WBusy j ->
     tw (fst (twstep s (TE (WMsg false true) T))) = WBusy j /\
     tleft (fst (twstep s (TE (WMsg false true) T))) = tfull s /\
     tfull (fst (twstep s (TE (WMsg false true) T))) = tfull s) /\
  (tw s = WBusy j -> tleft s <> 0%nat -> twstep s (TE WTimer T) = (s, wnone)).
Proof.
  intros s j T. split; [apply job_arms|]. split; [apply progress_rearms | apply timer_not_early].
Qed.
Print Assumptions C12_worker_timer_armed_and_rearmed_by_progress_only.

(* Forgetting the clock, the timed worker is the worker machine above: every
   step is a step of [wstep] with the same observation, or (a tick, a timer
   event that is not enabled) nothing — so the worker-contract theorems hold
   for it as well. *)
Theorem C12_worker_timed_refines_untimed : forall s e,
  (tw (fst (twstep s e)) = tw s /\ snd (twstep s e) = wnone) \/
  (exists e0 T, e = TE e0 T /\ tw (fst (twstep s e)) = fst (wstep (tw s) e0) /\
                snd (twstep s e) = snd (wstep (tw s) e0)).
Proof. exact timed_refines. Qed.
Print Assumptions C12_worker_timed_refines_untimed.

(* Non-vacuity: timeout 3 ticks.  A peer that sends noise between the ticks
   loses the job at the third tick; one whose second response makes progress
   has the timer re-armed (the timer event is a no-op then). *)
Example C12_worker_timer_nonvacuous :
  let N := TE (WMsg false false) 0%nat in let P := TE (WMsg false true) 0%nat in
  let job := TE (WJob 5 false) 3%nat in
  tw (twrun twinit [job; N; TTick; N; TTick; N; N; TTick; N; TE WTimer 0%nat]) = WSend 5 JTimeout /\
  tw (twrun twinit [job; N; TTick; N; TTick; N; N; TE WTimer 0%nat]) = WBusy 5 /\
  twrun twinit [job; N; TTick; P; TTick; N; N; TTick; N; TE WTimer 0%nat] =
    {| tw := WBusy 5; tleft := 1; tfull := 3 |}.
Proof. vm_compute. repeat split; reflexivity. Qed.

(* Composition: a finished / timed-out / cancelled batch frees its workers
   and does not block later batches.  (1) whatever result a worker reports —
   also the ErrJobCanceled for a job of a batch that has already got its
   verdict, which is discarded — clears that worker's slot in the dispatcher;
   by the worker contract above that result does arrive.  (2) a batch
   submitted while some worker is free is handed out to a free worker in the
   same dispatcher step (and by C12_no_job_waits_for_a_free_worker no queued
   job, stale or not, waits while a worker is free). *)
Theorem C12_reported_result_frees_worker : forall s j p e s1 vs mx w,
  handle s (Result j p e) = (s1, vs, mx) -> crashed s1 = false ->
  find (fun w => wname w =? p) (workers s1) = Some w -> wactive w = None.
Proof. exact result_frees_worker. Qed.
Print Assumptions C12_reported_result_frees_worker.

Theorem C12_later_batch_handed_to_free_worker : forall s n nr rt pt picks,
  crashed s = false -> stopped s = false -> free_workers s <> [] ->
  exists j p t rest, odisp (snd (step s (NewBatch (S n) nr rt pt, picks))) = (j, p, t) :: rest /\
                     In p (free_workers s).
Proof. exact newbatch_handed_out. Qed.
Print Assumptions C12_later_batch_handed_to_free_worker.

(* ---- Closed loop (LoopModel.v): the dispatcher, one worker.Run machine per
   peer and an environment that only chooses new batches, peer connects,
   peer replies, job timers, disconnects, cancels, batch timers and Quit, as
   ONE transition system; [crun ls] is the state after ANY sequence of labels
   (labels that are not enabled are no-ops).

   In every reachable state: the dispatcher has seen no breach of the worker
   contract ([envbad], the hypothesis of the theorems above, is now proved
   false), has not hit the nil-worker panic, and its view of every worker
   agrees with that worker's own state — "busy with job j" exactly when the
   machine works on j or holds j's result, "free" exactly when it is idle,
   "exited" exactly when Run has returned; after Quit every worker is gone,
   holding the job the dispatcher thought it had. *)
Theorem C12_loop_worker_view_agrees : forall ls,
  envbad (disp (crun ls)) = false /\ crashed (disp (crun ls)) = false /\ view_agrees (crun ls).
Proof. exact loop_view. Qed.
Print Assumptions C12_loop_worker_view_agrees.

(* ... and every batch still gets exactly one verdict: none while live, one
   once finished, one for every batch ever submitted after Quit. *)
Theorem C12_loop_exactly_one_verdict : forall ls b,
  let c := crun ls in
  (In b (bkeys (disp c)) -> vcount b c = 0%nat) /\
  (0 <= b < batchIndex (disp c) -> ~ In b (bkeys (disp c)) -> vcount b c = 1%nat) /\
  (~ (0 <= b < batchIndex (disp c)) -> vcount b c = 0%nat) /\
  (stopped (disp c) = true -> 0 <= b < batchIndex (disp c) -> vcount b c = 1%nat).
Proof. exact loop_exactly_one. Qed.
Print Assumptions C12_loop_exactly_one_verdict.

(* Every send of the worker machine has quit as an alternative: a result is
   only ever offered from a WSend state — also the ErrJobCanceled of a job
   that was already cancelled when it was picked up, which goes through the
   same final send — and from every state, WSend included, quit makes Run
   return without the dispatcher taking anything. *)
Theorem C12_worker_every_send_has_quit_alternative : forall j,
  (forall s e err, wres (snd (wstep s e)) = Some (j, err) -> s = WSend j err /\ e = WTake) /\
  fst (wstep WIdle (WJob j true)) = WSend j JCanceled /\
  (forall e, fst (wstep (WSend j e) WQuit) = WGone (Some j)) /\
  (forall s, exists l, fst (wstep s WQuit) = WGone l).
Proof.
  intros j. split; [intros s e err; apply wres_only_from_send|].
  split; [reflexivity|]. split; [intros e; reflexivity | apply wquit_gone].
Qed.
Print Assumptions C12_worker_every_send_has_quit_alternative.

(* In the closed loop: after Quit, in whatever state it arrives (workers
   holding results nobody has taken, cancelled jobs draining), every worker's
   Run has returned — without the dispatcher taking any further result — so
   Stop's wait on the workers ends. *)
Theorem C12_loop_quit_stops_every_worker : forall ls l p x,
  lev l = CQuit -> z_get (wst (cstep (crun ls) l)) p = Some x -> exists lo, x = WGone lo.
Proof. exact loop_quit_all_gone. Qed.
Print Assumptions C12_loop_quit_stops_every_worker.

(* The wake of an expired idle timer is never lost (WakeModel.v: the closed
   loop with the wakes on their way from the timer callbacks to the
   dispatcher).  While the dispatcher runs, every wake ever fired has been
   received by the dispatcher or is still pending, whatever the dispatcher
   did in between and however many were fired; a pending wake stays pending
   through every step that is not a delivery; and delivering the wake of the
   current idle timer of a live batch gives that batch its timeout verdict. *)
Theorem C12_idle_timer_wakes_never_lost : forall ls,
  running (trun ls) = true -> Permutation.Permutation (fired (trun ls)) (taken (trun ls) ++ pend (trun ls)).
Proof. exact wakes_conserved. Qed.
Print Assumptions C12_idle_timer_wakes_never_lost.

Theorem C12_pending_wake_stays_until_delivered : forall t l x,
  In x (pend t) -> (forall i picks pcs, l <> TDeliver i picks pcs) ->
  running (tstep t l) = true -> In x (pend (tstep t l)).
Proof. exact pending_stays. Qed.
Print Assumptions C12_pending_wake_stays_until_delivered.

Theorem C12_delivered_current_wake_times_batch_out : forall t i b g bt picks pcs,
  running t = true -> nth_error (pend t) i = Some (b, g) ->
  z_get (batches (disp (base t))) b = Some bt -> progGen bt = g ->
  let t' := tstep t (TDeliver i picks pcs) in
  vlog (base t') = vlog (base t) ++ [(b, VTimeout)] /\
  z_get (batches (disp (base t'))) b = None /\
  pend t' = remove_nth i (pend t).
Proof. exact deliver_current_wake. Qed.
Print Assumptions C12_delivered_current_wake_times_batch_out.

(* Non-vacuity: 20 batches with idle timers, all timers fire before the
   dispatcher takes any wake; all 20 are pending, and delivering them one by
   one times every batch out. *)
Example C12_wakes_nonvacuous :
  let mk := fun e => TOther {| lev := e; lpicks := []; lpcs := [] |} in
  let t1 := trun (map (fun _ => mk (CNewBatch 1 false 2 1)) (seq 0 20) ++
                  map (fun i => TFire (Z.of_nat i) 1) (seq 0 20)) in
  length (pend t1) = 20%nat /\
  let t2 := fold_left tstep (map (fun _ => TDeliver 0 [] []) (seq 0 20)) t1 in
  pend t2 = [] /\ map snd (vlog (base t2)) = map (fun _ => VTimeout) (seq 0 20) /\
  batches (disp (base t2)) = [].
Proof. vm_compute. repeat split; reflexivity. Qed.

(* Non-vacuity of the closed loop: two peers; batch 0 (two requests, one
   retried after a job timeout and once more after its peer disconnected,
   whose worker exits) succeeds; batch 1 times out on its idle timer, its
   worker sees the internal cancel and the late result is discarded; peer 2
   reconnects; batch 2 is answered at Quit, its worker told to quit while
   holding the job. *)
Definition lab (e : cev) : clabel := {| lev := e; lpicks := []; lpcs := [] |}.
Definition ex_loop : list clabel :=
  map lab
  [ CPeer 1; CPeer 2;
    CNewBatch 2 false 3 0;          (* batch 0: jobs 0, 1 -> workers 1, 2 *)
    CNewBatch 1 true 0 1;           (* batch 1: job 2, idle timer *)
    CMsg 1 true false; CTake 1;     (* job 0 answered; job 2 -> worker 1 *)
    CTimer 2; CTake 2;              (* job 1 times out, queued again -> worker 2 *)
    CWake 1 1;                      (* batch 1: idle timeout *)
    CCancelSeen 1; CTake 1;         (* worker 1 sees the internal cancel; result discarded *)
    CDisc 2; CTake 2;               (* job 1: peer gone, queued again -> worker 1; worker 2 exits *)
    CMsg 1 true false; CTake 1;     (* batch 0 succeeds *)
    CPeer 2;
    CNewBatch 1 false 1 0;          (* batch 2: job 3 *)
    CQuit ].
Example C12_loop_nonvacuous :
  vlog (crun ex_loop) = [(1, VTimeout); (0, VSuccess); (2, VShutdown)] /\
  wst (crun ex_loop) = [(1, WGone (Some 3)); (2, WGone None)] /\
  map wactive (workers (disp (crun ex_loop))) = [Some 3; None].
Proof. vm_compute. repeat split; reflexivity. Qed.

(* Non-vacuity: two workers, three batches in flight (retry after a timeout
   then success; retry cap reached, later results discarded; idle-timer
   timeout), an empty batch answered only at Quit — the hypotheses hold
   (no crash, contract kept), all three monitors accept, and the verdicts are
   the expected ones. *)
Definition ex_inp : list (ev * list Z) :=
  [ (PeerConnected 1, []); (PeerConnected 2, []);
    (NewBatch 2 false 2 0, [1; 2]);          (* batch 0: jobs 0,1 *)
    (NewBatch 2 false 1 0, []);              (* batch 1: jobs 2,3, one try only *)
    (NewBatch 1 true 0 1, []);               (* batch 2: job 4, unlimited retries, idle timer *)
    (NewBatch 0 false 2 0, []);              (* batch 3: empty *)
    (Result 0 1 JOk, [1]);                   (* job 2 -> worker 1 *)
    (Result 1 2 JTimeout, [2]);              (* job 1 re-queued, handed to worker 2 again *)
    (Result 2 1 JOther, [1]);                (* cap: batch 1 fails; job 3 -> worker 1 *)
    (Result 1 2 JOk, [2]);                   (* batch 0 succeeds; job 4 -> worker 2 *)
    (Result 3 1 JOk, []);                    (* result of the failed batch 1: discarded *)
    (Result 4 2 JDisconnected, [1]);         (* unlimited retries: re-queued, -> worker 1 *)
    (WorkerExit 2, []);
    (ProgressWake 2 7, []);                  (* stale wake: ignored *)
    (ProgressWake 2 1, []);                  (* current wake: batch 2 times out *)
    (Result 4 1 JCanceled, []);              (* discarded *)
    (Quit, []) ].
Example C12_nonvacuous :
  crashed (final ex_inp) = false /\ envbad (final ex_inp) = false /\
  holds (trace ex_inp) = true /\
  flat_map (fun eo => overd (snd eo)) (trace ex_inp) =
    [(1, VOther); (0, VSuccess); (2, VTimeout); (3, VShutdown)].
Proof. vm_compute. repeat split; reflexivity. Qed.

(* ... and in that history batch 0 (jobs 0 and 1) gets its success verdict at
   step 9, exactly when, job 1 having been retried after a timeout, both of
   its requests have one successful result; batch 1 (jobs 2 and 3) has failed
   although job 3 is answered later: that result is not counted for it. *)
Example C12_success_nonvacuous :
  requests_of (before_quit (trace ex_inp)) 0 = [0; 1] /\
  all_answered (before_quit (trace ex_inp)) 0 (firstn 10 (before_quit (trace ex_inp))) /\
  ~ all_answered (before_quit (trace ex_inp)) 0 (firstn 9 (before_quit (trace ex_inp))) /\
  ok_count 3 (before_quit (trace ex_inp)) = 1%nat /\
  ~ all_answered (before_quit (trace ex_inp)) 1 (before_quit (trace ex_inp)).
Proof.
  assert (E0 : requests_of (before_quit (trace ex_inp)) 0 = [0; 1]) by (vm_compute; reflexivity).
  assert (E1 : requests_of (before_quit (trace ex_inp)) 1 = [2; 3]) by (vm_compute; reflexivity).
  assert (C0 : ok_count 0 (firstn 10 (before_quit (trace ex_inp))) = 1%nat) by (vm_compute; reflexivity).
  assert (C1 : ok_count 1 (firstn 10 (before_quit (trace ex_inp))) = 1%nat) by (vm_compute; reflexivity).
  assert (C1' : ok_count 1 (firstn 9 (before_quit (trace ex_inp))) = 0%nat) by (vm_compute; reflexivity).
  assert (C2 : ok_count 2 (before_quit (trace ex_inp)) = 0%nat) by (vm_compute; reflexivity).
  assert (C3 : ok_count 3 (before_quit (trace ex_inp)) = 1%nat) by (vm_compute; reflexivity).
  unfold all_answered. rewrite E0, E1.
  split; [reflexivity|]. split.
  { split; [discriminate|]. intros j [<-|[<-|[]]]; assumption. }
  split.
  { intros [_ H]. specialize (H 1 (or_intror (or_introl eq_refl))). congruence. }
  split; [exact C3|].
  intros [_ H]. specialize (H 2 (or_introl eq_refl)). congruence.
Qed.
