(* C12 — the job timer of worker.Run: lemmas. *)
From Coq Require Import ZArith List Bool Lia.
From Verif Require Import C12.Model C12.TimerModel.
Import ListNotations.

Lemma twrun_cons : forall s e es, twrun s (e :: es) = twrun (fst (twstep s e)) es.
Proof. reflexivity. Qed.

(* noise leaves the job where it is and never postpones the timer *)
Lemma noise_step : forall s j e,
  tw s = WBusy j -> is_noise e = true ->
  tw (fst (twstep s e)) = WBusy j /\ tfull (fst (twstep s e)) = tfull s /\
  tleft (fst (twstep s e)) = (tleft s - ticks [e])%nat.
Proof.
  intros s j e Hb Hn. destruct e as [e0 T|].
  - destruct e0 as [? ?|fin prog| | | | | |]; try discriminate.
    destruct fin, prog; try discriminate.
    unfold twstep. rewrite Hb. cbn. repeat split; lia.
  - unfold twstep. rewrite Hb. cbn. repeat split; lia.
Qed.

Lemma ticks_cons : forall e es, ticks (e :: es) = (ticks [e] + ticks es)%nat.
Proof. intros e es. unfold ticks. cbn [filter]. destruct e; cbn [length]; lia. Qed.

Lemma noise_run : forall es s j,
  tw s = WBusy j -> forallb is_noise es = true ->
  tw (twrun s es) = WBusy j /\ tfull (twrun s es) = tfull s /\
  tleft (twrun s es) = (tleft s - ticks es)%nat.
Proof.
  induction es as [|e rest IH]; intros s j Hb Hn.
  - cbn. repeat split; [exact Hb | lia].
  - cbn [forallb] in Hn. apply andb_true_iff in Hn. destruct Hn as [He Hr].
    destruct (noise_step s j e Hb He) as (A & B & C).
    rewrite twrun_cons. destruct (IH _ j A Hr) as (A' & B' & C').
    split; [exact A'|]. split; [congruence|]. rewrite C', C, (ticks_cons e rest). lia.
Qed.

Lemma timer_fires : forall s j T,
  tw s = WBusy j -> tleft s = 0%nat ->
  tw (fst (twstep s (TE WTimer T))) = WSend j JTimeout /\
  wres (snd (twstep (fst (twstep s (TE WTimer T))) (TE WTake T))) = Some (j, JTimeout).
Proof.
  intros s j T Hb Hl.
  assert (E : twstep s (TE WTimer T) =
              ({| tw := WSend j JTimeout; tleft := tleft s; tfull := tfull s |}, wnone)).
  { unfold twstep. rewrite Hb, Hl. reflexivity. }
  rewrite E. cbn. split; reflexivity.
Qed.

Lemma timeout_not_postponed : forall s j es T,
  tw s = WBusy j -> forallb is_noise es = true -> (tleft s <= ticks es)%nat ->
  tw (twrun s es) = WBusy j /\ tleft (twrun s es) = 0%nat /\
  tw (fst (twstep (twrun s es) (TE WTimer T))) = WSend j JTimeout /\
  wres (snd (twstep (fst (twstep (twrun s es) (TE WTimer T))) (TE WTake T))) = Some (j, JTimeout).
Proof.
  intros s j es T Hb Hn Hle. destruct (noise_run es s j Hb Hn) as (A & _ & C).
  assert (Hz : tleft (twrun s es) = 0%nat) by lia.
  split; [exact A|]. split; [exact Hz|]. apply timer_fires; assumption.
Qed.

Lemma timer_not_early : forall s j T,
  tw s = WBusy j -> tleft s <> 0%nat -> twstep s (TE WTimer T) = (s, wnone).
Proof.
  intros s j T Hb Hl. unfold twstep. rewrite Hb. cbn [is_busy andb].
  destruct (tleft s) as [|n]; [congruence | reflexivity].
Qed.

Lemma progress_rearms : forall s j T,
  tw s = WBusy j ->
  tw (fst (twstep s (TE (WMsg false true) T))) = WBusy j /\
  tleft (fst (twstep s (TE (WMsg false true) T))) = tfull s /\
  tfull (fst (twstep s (TE (WMsg false true) T))) = tfull s.
Proof. intros s j T Hb. unfold twstep. rewrite Hb. cbn. repeat split; reflexivity. Qed.

Lemma job_arms : forall s j T,
  tw s = WIdle ->
  tw (fst (twstep s (TE (WJob j false) T))) = WBusy j /\
  tleft (fst (twstep s (TE (WJob j false) T))) = T /\ tfull (fst (twstep s (TE (WJob j false) T))) = T.
Proof. intros s j T Hi. unfold twstep. rewrite Hi. cbn. repeat split; reflexivity. Qed.

(* forgetting the clock, the timed worker is the worker machine of Model.v *)
Lemma timed_refines : forall s e,
  (tw (fst (twstep s e)) = tw s /\ snd (twstep s e) = wnone) \/
  (exists e0 T, e = TE e0 T /\ tw (fst (twstep s e)) = fst (wstep (tw s) e0) /\
                snd (twstep s e) = snd (wstep (tw s) e0)).
Proof.
  intros s e. destruct e as [e0 T|]; [|left; split; reflexivity].
  destruct e0 as [j pc|fin prog| | | | | |].
  - right. exists (WJob j pc), T. split; [reflexivity|]. unfold twstep.
    destruct (wstep (tw s) (WJob j pc)) as [s' o]. destruct (wacc o); split; reflexivity.
  - right. exists (WMsg fin prog), T. split; [reflexivity|]. unfold twstep.
    destruct (wstep (tw s) (WMsg fin prog)) as [s' o]. split; reflexivity.
  - unfold twstep. destruct (is_busy (tw s) && Nat.eqb (tleft s) 0).
    + right. exists WTimer, T. split; [reflexivity|]. destruct (wstep (tw s) WTimer) as [s' o]. split; reflexivity.
    + left. split; reflexivity.
  - right. exists WDisconnect, T. split; [reflexivity|]. unfold twstep.
    destruct (wstep (tw s) WDisconnect) as [s' o]. split; reflexivity.
  - right. exists WCancel, T. split; [reflexivity|]. unfold twstep.
    destruct (wstep (tw s) WCancel) as [s' o]. split; reflexivity.
  - right. exists WIntCancel, T. split; [reflexivity|]. unfold twstep.
    destruct (wstep (tw s) WIntCancel) as [s' o]. split; reflexivity.
  - right. exists WTake, T. split; [reflexivity|]. unfold twstep.
    destruct (wstep (tw s) WTake) as [s' o]. split; reflexivity.
  - right. exists WQuit, T. split; [reflexivity|]. unfold twstep.
    destruct (wstep (tw s) WQuit) as [s' o]. split; reflexivity.
Qed.
