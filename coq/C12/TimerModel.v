(* C12 — worker.Run with its job timer (query/worker.go, the response loop).
   A layer over the worker machine of Model.v; no proofs here.

   Time is counted in ticks.  [tleft] = ticks until the channel of the
   current job timer becomes ready, [tfull] = the job's timeout:
   * the timer is armed with the job's timeout when the job is read
     (time.NewTimer(job.timeout));
   * it is re-armed ONLY by a response whose handler reports progress without
     finishing (Progress{Finished: false, Progressed: true}: timeout.Stop();
     timeout = time.NewTimer(job.timeout)); every other message — a response
     that makes no progress, an unrelated message — leaves it alone;
   * the event WTimer (case <-timeout.C) is enabled exactly when the worker
     works on a job and no tick is left; when a message and the timer are
     ready at once Go picks either, so the timer event simply stays enabled
     across messages that do not re-arm it;
   * ticks only matter while a job is being worked on. *)
From Coq Require Import ZArith List Bool.
From Verif Require Import C12.Model.
Import ListNotations.
Open Scope Z_scope.

Record twstate := { tw : wstate; tleft : nat; tfull : nat }.
Definition twinit : twstate := {| tw := WIdle; tleft := 0; tfull := 0 |}.

(* a worker event (with the timeout of the offered job, used by WJob only), or
   one tick of the clock *)
Inductive twev := TE (e : wev) (T : nat) | TTick.

Definition is_busy (s : wstate) : bool := match s with WBusy _ => true | _ => false end.

Definition twstep (s : twstate) (e : twev) : twstate * wobs :=
  match e with
  | TTick =>
    ({| tw := tw s; tleft := if is_busy (tw s) then Nat.pred (tleft s) else tleft s; tfull := tfull s |}, wnone)
  | TE WTimer _ =>
    if is_busy (tw s) && Nat.eqb (tleft s) 0 then
      let '(s', o) := wstep (tw s) WTimer in ({| tw := s'; tleft := tleft s; tfull := tfull s |}, o)
    else (s, wnone)                       (* the timer channel is not ready *)
  | TE (WJob j pc) T =>
    let '(s', o) := wstep (tw s) (WJob j pc) in
    if wacc o then ({| tw := s'; tleft := T; tfull := T |}, o)
    else ({| tw := s'; tleft := tleft s; tfull := tfull s |}, o)
  | TE (WMsg fin prog) _ =>
    let '(s', o) := wstep (tw s) (WMsg fin prog) in
    ({| tw := s';
        tleft := if is_busy (tw s) && negb fin && prog then tfull s else tleft s;
        tfull := tfull s |}, o)
  | TE e0 _ =>
    let '(s', o) := wstep (tw s) e0 in ({| tw := s'; tleft := tleft s; tfull := tfull s |}, o)
  end.

Definition twrun (s : twstate) (es : list twev) : twstate := fold_left (fun s e => fst (twstep s e)) es s.

(* what a chatty peer can do without answering and without making progress:
   let time pass and send responses whose handler reports nothing *)
Definition is_noise (e : twev) : bool :=
  match e with
  | TTick => true
  | TE (WMsg false false) _ => true
  | _ => false
  end.
Definition ticks (es : list twev) : nat :=
  length (filter (fun e => match e with TTick => true | _ => false end) es).
