(* C12 — what acceptance by the verdict and job monitors means, for ANY trace
   (also the implementation's): a batch's verdict is success iff every one of
   its requests has been answered successfully, each exactly once. *)
From Coq Require Import ZArith List Bool Lia ZifyBool Sorted.
From Verif Require Import C12.Model C12.Spec C12.Proofs C12.ProofsJ.
Import ListNotations.
Open Scope Z_scope.

(* ------------------------------------------------- trace vocabulary *)
Lemma sizes_app : forall a b, sizes (a ++ b) = sizes a ++ sizes b.
Proof. intros. unfold sizes. apply flat_map_app. Qed.

Lemma ok_count_app : forall j a b, ok_count j (a ++ b) = (ok_count j a + ok_count j b)%nat.
Proof. intros. unfold ok_count. rewrite filter_app, app_length. reflexivity. Qed.

Lemma ok_count_one : forall j eo, ok_count j [eo] = if is_ok_result j eo then 1%nat else 0%nat.
Proof. intros. unfold ok_count. cbn [filter]. destruct (is_ok_result j eo); reflexivity. Qed.

Lemma sum_nat_app : forall a b, sum_nat (a ++ b) = (sum_nat a + sum_nat b)%nat.
Proof.
  unfold sum_nat. induction a as [|x t IH]; intros b; cbn [app fold_right]; [reflexivity|]. rewrite IH. lia.
Qed.

Lemma requests_of_eq : forall tr b,
  requests_of tr b =
  if (0 <=? b) && (b <? Z.of_nat (length (sizes tr)))
  then jrange (Z.of_nat (sum_nat (firstn (Z.to_nat b) (sizes tr)))) (nth (Z.to_nat b) (sizes tr) 0%nat)
  else [].
Proof. reflexivity. Qed.

(* the requests of a batch do not depend on what happens after its submission *)
Lemma requests_stable : forall pre post b,
  0 <= b < Z.of_nat (length (sizes pre)) -> requests_of (pre ++ post) b = requests_of pre b.
Proof.
  intros pre post b Hb. rewrite !requests_of_eq, sizes_app, app_length.
  replace ((0 <=? b) && (b <? Z.of_nat (length (sizes pre) + length (sizes post)))) with true by lia.
  replace ((0 <=? b) && (b <? Z.of_nat (length (sizes pre)))) with true by lia.
  assert (Hk : (Z.to_nat b < length (sizes pre))%nat) by lia.
  rewrite firstn_app. replace (Z.to_nat b - length (sizes pre))%nat with 0%nat by lia.
  cbn [firstn]. rewrite app_nil_r. rewrite app_nth1 by exact Hk. reflexivity.
Qed.

Lemma requests_out : forall tr b, ~ (0 <= b < Z.of_nat (length (sizes tr))) -> requests_of tr b = [].
Proof.
  intros tr b H. rewrite requests_of_eq.
  replace ((0 <=? b) && (b <? Z.of_nat (length (sizes tr)))) with false by lia. reflexivity.
Qed.

Lemma requests_new : forall pre n b,
  requests_of pre b = [] ->
  b = Z.of_nat (length (sizes pre)) ->
  forall post, sizes post = [n] ->
  requests_of (pre ++ post) b = jrange (Z.of_nat (sum_nat (sizes pre))) n.
Proof.
  intros pre n b _ Hb post Hp. rewrite requests_of_eq, sizes_app, Hp, app_length. cbn [length].
  replace ((0 <=? b) && (b <? Z.of_nat (length (sizes pre) + 1))) with true by lia.
  replace (Z.to_nat b) with (length (sizes pre)) by lia.
  rewrite firstn_app, Nat.sub_diag, firstn_all. cbn [firstn]. rewrite app_nil_r.
  rewrite app_nth2 by lia. rewrite Nat.sub_diag. reflexivity.
Qed.

(* --------------------------------------- classes of job states that stay *)
Definition drp (m : jst) (j : Z) : bool :=
  match status_of (jstat m) j with Some Dropped => true | _ => false end.
Definition def (m : jst) (j : Z) : bool :=
  match status_of (jstat m) j with Some _ => true | None => false end.
Definition ans (m : jst) (j : Z) : bool := is_answered (jstat m) j.

Lemma retire_cls : forall m j,
  ans (retire m) j = ans m j /\ drp (retire m) j = drp m j /\ def (retire m) j = def m j.
Proof.
  intros m j. unfold ans, drp, def, is_answered. rewrite stat_retire.
  destruct (status_of (jstat m) j) as [[]|]; try (repeat split; reflexivity).
  destruct (live_job m j); repeat split; reflexivity.
Qed.

Lemma jdisp_cls : forall ds m m',
  jdisp m ds = Some m' ->
  (forall j, ans m' j = ans m j /\ drp m' j = drp m j /\ def m' j = def m j) /\
  jbatches m' = jbatches m /\ jlive m' = jlive m /\ jnextb m' = jnextb m /\ jnextq m' = jnextq m /\
  jenv m' = jenv m /\ jstopped m' = jstopped m.
Proof.
  induction ds as [|[[j p] t] rest IH]; intros m m' H; cbn [jdisp] in H.
  - inversion H; subst. repeat split; reflexivity.
  - destruct (status_of (jstat m) j) as [sj|] eqn:Es; [|discriminate].
    match type of H with (if ?c then _ else _) = _ => destruct c eqn:Ec end; [|discriminate].
    apply IH in H. destruct H as (Hc & E1 & E2 & E3 & E4 & E5 & E6).
    split; [|repeat split; assumption].
    intros j'. destruct (Hc j') as (A & B & C). rewrite A, B, C.
    unfold ans, drp, def, is_answered, status_of. cbn [jstat set_jwt set_jstat]. rewrite z_get_upd.
    destruct (j' =? j) eqn:E; [|repeat split; reflexivity].
    apply Z.eqb_eq in E. subst j'. unfold status_of in Es. rewrite Es.
    destruct sj; try discriminate; repeat split; reflexivity.
Qed.

(* ----------------------------------------------- one accepted monitor step *)
Lemma jstep_inv : forall m e o m',
  jstep m (e, o) = Some m' -> jstopped m = false -> e <> Quit -> jenv m' = true ->
  jenv m = true /\ env_event_ok m e = true /\
  j_succ_ok (j_event m e o) e o = true /\
  jdisp (j_retire (j_event m e o) o) (odisp o) = Some m'.
Proof.
  intros m e o m' H Hs He Hv.
  destruct (jenv m && env_event_ok m e) eqn:E.
  - apply andb_true_iff in E. destruct E as [E1 E2].
    rewrite (jstep_eq _ _ _ Hs He E1 E2) in H.
    destruct (j_succ_ok (j_event m e o) e o); [|discriminate]. cbn [negb] in H.
    destruct (jdisp (j_retire (j_event m e o) o) (odisp o)) as [s4|]; [|discriminate].
    destruct (j_waiting s4 && negb (is_nil (wt_free (jwt s4)))); [discriminate|].
    inversion H; subst. repeat split; assumption.
  - rewrite (jstep_envbad _ _ _ Hs He E) in H. inversion H; subst. discriminate.
Qed.

Definition not_newbatch (e : ev) : Prop := match e with NewBatch _ _ _ _ => False | _ => True end.

Lemma vstep_inv : forall v e o v',
  vstep v (e, o) = Some v' -> vstop v = false -> e <> Quit ->
  vstop v' = false /\
  ((overd o = [] /\
    ((exists n a b c, e = NewBatch n a b c /\ vlive v' = vnext v :: vlive v /\ vnext v' = vnext v + 1) \/
     (not_newbatch e /\ v' = v))) \/
   (exists b vd, overd o = [(b, vd)] /\ In b (vlive v) /\ vlive v' = remove_z b (vlive v) /\
      vnext v' = vnext v /\ not_newbatch e /\
      (vd = VSuccess -> exists j p, e = Result j p JOk))).
Proof.
  intros v e o v' H Hs He. unfold vstep in H. rewrite Hs in H.
  destruct e; try congruence.
  - destruct (overd o) eqn:Ho; cbn [is_nil] in H; [|discriminate]. inversion H; subst v'; clear H.
    split; [reflexivity|]. left. split; [reflexivity|]. left. exists n, noRetry, retries, progTimeout.
    repeat split; reflexivity.
  - destruct (overd o) eqn:Ho; cbn [is_nil] in H; [|discriminate]. inversion H; subst v'.
    split; [exact Hs|]. left. split; [reflexivity|]. right. split; [exact I | reflexivity].
  - destruct (overd o) eqn:Ho; cbn [is_nil] in H; [|discriminate]. inversion H; subst v'.
    split; [exact Hs|]. left. split; [reflexivity|]. right. split; [exact I | reflexivity].
  - destruct (overd o) as [|[b vd] [|? ?]] eqn:Ho; try discriminate.
    + inversion H; subst v'. split; [exact Hs|]. left. split; [reflexivity|]. right. split; [exact I | reflexivity].
    + destruct (mem b (vlive v)) eqn:Hm; cbn [andb] in H; [|discriminate].
      destruct (verdict_allowed e vd) eqn:Ha; [|discriminate]. inversion H; subst v'; clear H.
      split; [reflexivity|]. right. exists b, vd. split; [reflexivity|].
      split; [apply mem_true_iff; exact Hm|]. split; [reflexivity|]. split; [reflexivity|]. split; [exact I|].
      intros ->. exists j, p. destruct e; cbn in Ha; try discriminate. reflexivity.
  - destruct (overd o) eqn:Ho; cbn [is_nil] in H; [|discriminate]. inversion H; subst v'.
    split; [exact Hs|]. left. split; [reflexivity|]. right. split; [exact I | reflexivity].
  - destruct (overd o) as [|[b' vd] [|? ?]] eqn:Ho; try discriminate.
    + inversion H; subst v'. split; [exact Hs|]. left. split; [reflexivity|]. right. split; [exact I | reflexivity].
    + destruct vd; try discriminate.
      destruct (b' =? b) eqn:Eb; cbn [andb] in H; [|discriminate].
      destruct (mem b (vlive v)) eqn:Hm; [|discriminate]. inversion H; subst v'; clear H.
      apply Z.eqb_eq in Eb. subst b'.
      split; [reflexivity|]. right. exists b, VTimeout. split; [reflexivity|].
      split; [apply mem_true_iff; exact Hm|]. split; [reflexivity|]. split; [reflexivity|]. split; [exact I|].
      discriminate.
    + destruct vd; discriminate.
  - destruct (overd o) eqn:Ho; cbn [is_nil] in H; [|discriminate]. inversion H; subst v'.
    split; [exact Hs|]. left. split; [reflexivity|]. right. split; [exact I | reflexivity].
Qed.

(* ------------------------------------------------------------ invariant *)
Record MJ0 (pre : list (ev * obs)) (vl : list Z) (vn : Z) (m : jst) : Prop := {
  m_js : jstopped m = false;
  m_env : jenv m = true;
  m_nb : jnextb m = Z.of_nat (length (sizes pre));
  m_vn : vn = jnextb m;
  m_nq : jnextq m = Z.of_nat (sum_nat (sizes pre));
  m_live : forall b, In b (jlive m) <-> In b vl;
  m_livelt : forall b, In b (jlive m) -> 0 <= b < jnextb m;
  m_req : forall b, jobs_of (jbatches m) b = requests_of pre b;
  m_bof : forall j b, batch_of (jbatches m) j = Some b <-> In j (jobs_of (jbatches m) b);
  m_bkey : forall b x, z_get (jbatches m) b = Some x -> 0 <= b < jnextb m;
  m_jr : forall b j, In j (jobs_of (jbatches m) b) -> 0 <= j < jnextq m;
  m_sdef : forall j, def m j = true -> 0 <= j < jnextq m;
  (* every job has at most one successful result; an answered job has one;
     a job with one is answered or (its batch was finished) dropped *)
  m_le1 : forall j, (ok_count j pre <= 1)%nat;
  m_ans : forall j, ans m j = true -> ok_count j pre = 1%nat;
  m_fin : forall j, ok_count j pre = 1%nat -> ans m j = true \/ drp m j = true;
  m_liveans : forall j b, batch_of (jbatches m) j = Some b -> In b (jlive m) ->
              ok_count j pre = 1%nat -> ans m j = true
}.

(* a live batch still has an unanswered request (or none at all) *)
Definition MJopen (m : jst) : Prop :=
  forall b, In b (jlive m) ->
    jobs_of (jbatches m) b = [] \/ exists j, In j (jobs_of (jbatches m) b) /\ ans m j = false.

Lemma requests_sizes : forall a b x, sizes a = sizes b -> requests_of a x = requests_of b x.
Proof. intros a b x H. rewrite !requests_of_eq, H. reflexivity. Qed.

Lemma cls_upd : forall m j p X s0 j',
  status_of (jstat m) j = Some s0 ->
  ans (mres m j p X) j' = (if j' =? j then match X with Answered => true | _ => false end else ans m j') /\
  drp (mres m j p X) j' = (if j' =? j then match X with Dropped => true | _ => false end else drp m j') /\
  def (mres m j p X) j' = def m j'.
Proof.
  intros m j p X s0 j' Hs. unfold ans, drp, def, is_answered, mres, status_of. cbn [jstat set_jstat set_jwt].
  rewrite z_get_upd. unfold status_of in Hs. destruct (j' =? j) eqn:E; [|repeat split; reflexivity].
  apply Z.eqb_eq in E. subst j'. rewrite Hs. destruct X; repeat split; reflexivity.
Qed.

Lemma ev_result : forall pre vl vn m j p err o,
  MJ0 pre vl vn m -> status_of (jstat m) j = Some (Running p) ->
  MJ0 (pre ++ [(Result j p err, o)]) vl vn (j_event m (Result j p err) o).
Proof.
  intros pre vl vn m j p err o H Hr. rewrite j_event_result.
  set (X := if live_job m j then if is_ok err then Answered
            else if is_canceled err || negb (is_nil (omax o)) then Dropped else Queued else Dropped).
  assert (Hsz : sizes (pre ++ [(Result j p err, o)]) = sizes pre).
  { rewrite sizes_app. cbn. apply app_nil_r. }
  assert (Hcls := fun j' => cls_upd m j p X _ j' Hr).
  assert (Hcnt : forall j', ok_count j' (pre ++ [(Result j p err, o)]) =
            (ok_count j' pre + (if is_ok err && Z.eqb j j' then 1 else 0))%nat).
  { intros j'. rewrite ok_count_app, ok_count_one. unfold is_ok_result. cbn [fst].
    destruct err; cbn [is_ok andb]; try reflexivity. }
  assert (Ha0 : ans m j = false) by (unfold ans, is_answered; rewrite Hr; reflexivity).
  assert (Hd0 : drp m j = false) by (unfold drp; rewrite Hr; reflexivity).
  assert (Hc0 : ok_count j pre = 0%nat).
  { assert (L := m_le1 _ _ _ _ H j). destruct (ok_count j pre) as [|[|k]] eqn:E; [reflexivity | | lia].
    destruct (m_fin _ _ _ _ H j E); congruence. }
  constructor.
  - exact (m_js _ _ _ _ H).
  - exact (m_env _ _ _ _ H).
  - rewrite Hsz. exact (m_nb _ _ _ _ H).
  - exact (m_vn _ _ _ _ H).
  - rewrite Hsz. exact (m_nq _ _ _ _ H).
  - exact (m_live _ _ _ _ H).
  - exact (m_livelt _ _ _ _ H).
  - intros b. rewrite (requests_sizes _ _ b Hsz). exact (m_req _ _ _ _ H b).
  - exact (m_bof _ _ _ _ H).
  - exact (m_bkey _ _ _ _ H).
  - exact (m_jr _ _ _ _ H).
  - intros j' Hj'. destruct (Hcls j') as (_ & _ & C). rewrite C in Hj'. exact (m_sdef _ _ _ _ H j' Hj').
  - intros j'. rewrite Hcnt. assert (L := m_le1 _ _ _ _ H j').
    destruct (is_ok err && (j =? j')) eqn:E; [|lia].
    apply andb_true_iff in E. destruct E as [_ E]. apply Z.eqb_eq in E. subst j'. lia.
  - intros j' Hj'. destruct (Hcls j') as (A & _ & _). rewrite A in Hj'. rewrite Hcnt.
    destruct (j' =? j) eqn:E.
    + apply Z.eqb_eq in E. subst j'. rewrite Hc0, Z.eqb_refl.
      unfold X in Hj'. destruct (live_job m j); [|discriminate].
      destruct (is_ok err); [reflexivity|]. destruct (is_canceled err || negb (is_nil (omax o))); discriminate.
    + rewrite (m_ans _ _ _ _ H j' Hj'). replace (j =? j') with false by lia. rewrite andb_false_r. reflexivity.
  - intros j' Hj'. destruct (Hcls j') as (A & B & _). rewrite A, B. rewrite Hcnt in Hj'.
    destruct (j' =? j) eqn:E.
    + apply Z.eqb_eq in E. subst j'. rewrite Hc0, Z.eqb_refl in Hj'.
      destruct (is_ok err) eqn:Eo; [|cbn in Hj'; discriminate].
      unfold X. try rewrite Eo. destruct (live_job m j); [left | right]; reflexivity.
    + replace (j =? j') with false in Hj' by lia. rewrite andb_false_r, Nat.add_0_r in Hj'.
      exact (m_fin _ _ _ _ H j' Hj').
  - intros j' b Hbo Hl Hj'. destruct (Hcls j') as (A & _ & _). rewrite A. rewrite Hcnt in Hj'.
    destruct (j' =? j) eqn:E.
    + apply Z.eqb_eq in E. subst j'. rewrite Hc0, Z.eqb_refl in Hj'.
      destruct (is_ok err) eqn:Eo; [|cbn in Hj'; discriminate].
      unfold X. try rewrite Eo.
      assert (Hlv : live_job m j = true).
      { unfold live_job. change (jbatches (mres m j p X)) with (jbatches m) in Hbo. rewrite Hbo.
        apply mem_true_iff. exact Hl. }
      rewrite Hlv. reflexivity.
    + replace (j =? j') with false in Hj' by lia. rewrite andb_false_r, Nat.add_0_r in Hj'.
      exact (m_liveans _ _ _ _ H j' b Hbo Hl Hj').
Qed.

Lemma ev_other : forall pre vl vn m e o,
  MJ0 pre vl vn m -> not_newbatch e -> (forall j p err, e <> Result j p err) ->
  MJ0 (pre ++ [(e, o)]) vl vn (j_event m e o).
Proof.
  intros pre vl vn m e o H Hn Hr.
  assert (Hev : j_event m e o = set_jwt m (wt_event (jwt m) e)).
  { destruct e; try reflexivity; [contradiction | exfalso; eapply Hr; reflexivity]. }
  assert (Hsz : sizes (pre ++ [(e, o)]) = sizes pre).
  { rewrite sizes_app. destruct e; try contradiction; cbn; apply app_nil_r. }
  assert (Hcnt : forall j', ok_count j' (pre ++ [(e, o)]) = ok_count j' pre).
  { intros j'. rewrite ok_count_app, ok_count_one. unfold is_ok_result. cbn [fst].
    destruct e; try lia. exfalso. eapply Hr. reflexivity. }
  rewrite Hev. constructor; try (destruct H; assumption).
  - rewrite Hsz. exact (m_nb _ _ _ _ H).
  - rewrite Hsz. exact (m_nq _ _ _ _ H).
  - intros b. rewrite (requests_sizes _ _ b Hsz). exact (m_req _ _ _ _ H b).
  - intros j'. rewrite Hcnt. exact (m_le1 _ _ _ _ H j').
  - intros j'. rewrite Hcnt. exact (m_ans _ _ _ _ H j').
  - intros j'. rewrite Hcnt. exact (m_fin _ _ _ _ H j').
  - intros j' b. rewrite Hcnt. exact (m_liveans _ _ _ _ H j' b).
Qed.

Lemma ev_new : forall pre vl vn m n a b c o,
  MJ0 pre vl vn m ->
  MJ0 (pre ++ [(NewBatch n a b c, o)]) (vn :: vl) (vn + 1) (j_event m (NewBatch n a b c) o).
Proof.
  intros pre vl vn m n a b c o H.
  set (m2 := j_event m (NewBatch n a b c) o).
  set (nb := jnextb m). set (nq := jnextq m).
  assert (Ejb : jbatches m2 = (nb, (nq, n)) :: jbatches m) by reflexivity.
  assert (Ejl : jlive m2 = nb :: jlive m) by reflexivity.
  assert (Ejs : jstat m2 = jstat m ++ map (fun i => (nq + Z.of_nat i, Queued)) (seq 0 n)) by reflexivity.
  assert (Enb2 : jnextb m2 = nb + 1) by reflexivity.
  assert (Enq2 : jnextq m2 = nq + Z.of_nat n) by reflexivity.
  assert (Enb := m_nb _ _ _ _ H). assert (Enq := m_nq _ _ _ _ H). assert (Evn := m_vn _ _ _ _ H).
  fold nb in Enb, Evn. fold nq in Enq.
  set (inr := fun j => (nq <=? j) && (j <? nq + Z.of_nat n)).
  assert (Hst : forall j, status_of (jstat m2) j =
            match status_of (jstat m) j with Some v => Some v | None => if inr j then Some Queued else None end).
  { intros j. unfold status_of. rewrite Ejs, z_get_app, z_get_newstat. reflexivity. }
  assert (Hans : forall j, ans m2 j = ans m j).
  { intros j. unfold ans, is_answered. rewrite Hst. destruct (status_of (jstat m) j); [reflexivity|].
    destruct (inr j); reflexivity. }
  assert (Hdrp : forall j, drp m2 j = drp m j).
  { intros j. unfold drp. rewrite Hst. destruct (status_of (jstat m) j); [reflexivity|].
    destruct (inr j); reflexivity. }
  assert (Hdef : forall j, def m2 j = def m j || inr j).
  { intros j. unfold def. rewrite Hst. destruct (status_of (jstat m) j); [reflexivity|].
    destruct (inr j); reflexivity. }
  assert (Hold : forall j, def m j = true -> inr j = false).
  { intros j Hj. apply (m_sdef _ _ _ _ H) in Hj. fold nq in Hj. unfold inr. lia. }
  assert (Hsz : sizes (pre ++ [(NewBatch n a b c, o)]) = sizes pre ++ [n]).
  { rewrite sizes_app. reflexivity. }
  assert (Hcnt : forall j', ok_count j' (pre ++ [(NewBatch n a b c, o)]) = ok_count j' pre).
  { intros j'. rewrite ok_count_app, ok_count_one. cbn. lia. }
  assert (Hbof : forall j, batch_of (jbatches m2) j = if inr j then Some nb else batch_of (jbatches m) j).
  { intros j. rewrite Ejb, batch_of_cons. reflexivity. }
  assert (Hjof : forall x, jobs_of (jbatches m2) x = if nb =? x then jrange nq n else jobs_of (jbatches m) x).
  { intros x. rewrite Ejb, jobs_of_cons. reflexivity. }
  assert (Holdjobs : forall x j, In j (jobs_of (jbatches m) x) -> inr j = false /\ x <> nb).
  { intros x j Hj. split.
    - apply (m_jr _ _ _ _ H) in Hj. fold nq in Hj. unfold inr. lia.
    - apply jobs_of_key in Hj. destruct Hj as [y Hy]. apply (m_bkey _ _ _ _ H) in Hy. fold nb in Hy. lia. }
  assert (Hfin : forall j, ok_count j pre = 1%nat -> inr j = false).
  { intros j Hj. apply Hold. destruct (m_fin _ _ _ _ H j Hj) as [A|A].
    - unfold ans, is_answered in A. unfold def. destruct (status_of (jstat m) j); [reflexivity | discriminate].
    - unfold drp in A. unfold def. destruct (status_of (jstat m) j); [reflexivity | discriminate]. }
  constructor.
  - reflexivity.
  - exact (m_env _ _ _ _ H).
  - rewrite Hsz, app_length, Enb2, Enb. cbn [length]. lia.
  - rewrite Enb2. lia.
  - rewrite Hsz, sum_nat_app, Enq2, Enq. cbn. lia.
  - intros x. rewrite Ejl. cbn [In]. rewrite (m_live _ _ _ _ H x), Evn. tauto.
  - intros x. rewrite Ejl, Enb2. intros [<-|Hx]; [lia|]. apply (m_livelt _ _ _ _ H) in Hx. fold nb in Hx. lia.
  - intros x. rewrite Hjof. destruct (nb =? x) eqn:E.
    + apply Z.eqb_eq in E. subst x. symmetry. rewrite (requests_new pre n nb); try reflexivity.
      * rewrite <- Enq. reflexivity.
      * apply requests_out. lia.
      * exact Enb.
    + rewrite (m_req _ _ _ _ H x).
      destruct (Z_lt_dec x nb) as [Hlt|Hge]; [destruct (Z_le_dec 0 x) as [Hle|Hneg]|].
      * symmetry. apply requests_stable. lia.
      * rewrite !requests_out; [reflexivity | rewrite Hsz, app_length; lia | lia].
      * rewrite !requests_out; [reflexivity | rewrite Hsz, app_length; cbn [length]; lia | lia].
  - intros j x. rewrite Hbof, Hjof. destruct (inr j) eqn:Ej.
    + split.
      * intros Hx. inversion Hx; subst x. rewrite Z.eqb_refl. apply In_jrange. unfold inr in Ej. lia.
      * intros Hx. destruct (nb =? x) eqn:E; [f_equal; lia|].
        apply Holdjobs in Hx. destruct Hx. congruence.
    + destruct (nb =? x) eqn:E.
      * split.
        -- intros Hx. apply (m_bof _ _ _ _ H) in Hx. apply Holdjobs in Hx. lia.
        -- intros Hx. apply In_jrange in Hx. unfold inr in Ej. lia.
      * exact (m_bof _ _ _ _ H j x).
  - intros x y Hx. rewrite Ejb, z_get_cons in Hx. rewrite Enb2. destruct (nb =? x) eqn:E; [lia|].
    apply (m_bkey _ _ _ _ H) in Hx. fold nb in Hx. lia.
  - intros x j. rewrite Hjof, Enq2. destruct (nb =? x).
    + intros Hx. apply In_jrange in Hx. lia.
    + intros Hx. apply (m_jr _ _ _ _ H) in Hx. fold nq in Hx. lia.
  - intros j Hj. rewrite Hdef in Hj. rewrite Enq2. apply orb_true_iff in Hj. destruct Hj as [Hj|Hj].
    + apply (m_sdef _ _ _ _ H) in Hj. fold nq in Hj. lia.
    + unfold inr in Hj. lia.
  - intros j. rewrite Hcnt. exact (m_le1 _ _ _ _ H j).
  - intros j. rewrite Hcnt, Hans. exact (m_ans _ _ _ _ H j).
  - intros j. rewrite Hcnt, Hans, Hdrp. exact (m_fin _ _ _ _ H j).
  - intros j x Hbo Hl Hj. rewrite Hcnt in Hj. rewrite Hans.
    rewrite Hbof, (Hfin j Hj) in Hbo.
    assert (x <> nb).
    { apply (m_bof _ _ _ _ H) in Hbo. apply Holdjobs in Hbo. tauto. }
    rewrite Ejl in Hl. destruct Hl as [Hl|Hl]; [congruence|].
    exact (m_liveans _ _ _ _ H j x Hbo Hl Hj).
Qed.

(* the verdicts of the step retire their batches; hand-outs change nothing
   that matters here *)
Lemma shrink : forall pre vl vl' vn m2 m' dead,
  MJ0 pre vl vn m2 ->
  (forall j, ans m' j = ans m2 j /\ drp m' j = drp m2 j /\ def m' j = def m2 j) ->
  jbatches m' = jbatches m2 -> jnextb m' = jnextb m2 -> jnextq m' = jnextq m2 ->
  jenv m' = jenv m2 -> jstopped m' = jstopped m2 ->
  jlive m' = filter (fun b => negb (mem b dead)) (jlive m2) ->
  (forall b, In b vl' <-> In b vl /\ ~ In b dead) ->
  MJ0 pre vl' vn m'.
Proof.
  intros pre vl vl' vn m2 m' dead H Hcls Ejb Enb Enq Eenv Estop Elive Hvl.
  assert (Hsub : forall b, In b (jlive m') <-> In b (jlive m2) /\ ~ In b dead).
  { intros b. rewrite Elive, filter_In, negb_true_iff, mem_false_iff. tauto. }
  constructor; rewrite ?Ejb, ?Enb, ?Enq; try (destruct H; assumption).
  - rewrite Estop. exact (m_js _ _ _ _ H).
  - rewrite Eenv. exact (m_env _ _ _ _ H).
  - intros b. rewrite Hsub, Hvl, (m_live _ _ _ _ H b). tauto.
  - intros b Hb. apply Hsub in Hb. apply (m_livelt _ _ _ _ H). tauto.
  - intros j Hj. destruct (Hcls j) as (_ & _ & C). rewrite C in Hj. exact (m_sdef _ _ _ _ H j Hj).
  - intros j Hj. destruct (Hcls j) as (A & _ & _). rewrite A in Hj. exact (m_ans _ _ _ _ H j Hj).
  - intros j Hj. destruct (Hcls j) as (A & B & _). rewrite A, B. exact (m_fin _ _ _ _ H j Hj).
  - intros j b Hbo Hl Hj. destruct (Hcls j) as (A & _ & _). rewrite A. apply Hsub in Hl.
    apply (m_liveans _ _ _ _ H j b Hbo); tauto.
Qed.

(* ------------------------------------------------------------ one step *)
Definition MJ (pre : list (ev * obs)) (v : vst) (m : jst) : Prop :=
  vstop v = false /\ MJ0 pre (vlive v) (vnext v) m /\ MJopen m.

(* what a verdict of one step says about the requests of its batch *)
Definition StepClaim (pre : list (ev * obs)) (e : ev) (o : obs) : Prop :=
  forall b vd, In (b, vd) (overd o) ->
    0 <= b < Z.of_nat (length (sizes pre)) /\
    (vd = VSuccess <->
     (requests_of pre b <> [] /\
      forall j, In j (requests_of pre b) -> ok_count j (pre ++ [(e, o)]) = 1%nat)).

Lemma said_sub : forall o b, In b (j_said o) -> In b (map fst (overd o)).
Proof.
  intros o b H. unfold j_said in H. apply in_map_iff in H. destruct H as [x [Hx Hin]].
  apply filter_In in Hin. apply in_map_iff. exists x. tauto.
Qed.

Lemma forallb_false_ex : forall {A} (f : A -> bool) l, forallb f l = false -> exists x, In x l /\ f x = false.
Proof.
  intros A f l. induction l as [|a t IH]; cbn [forallb]; [discriminate|].
  destruct (f a) eqn:E; cbn [andb].
  - intros H. destruct (IH H) as [x [Hx Hf]]. exists x. split; [right; exact Hx | exact Hf].
  - intros _. exists a. split; [left; reflexivity | exact E].
Qed.

Lemma is_ok_result_inv : forall j0 e o, is_ok_result j0 (e, o) = true -> exists p, e = Result j0 p JOk.
Proof.
  intros j0 e o H. unfold is_ok_result in H. cbn [fst] in H.
  destruct e; try discriminate. destruct e; try discriminate.
  apply Z.eqb_eq in H. subst. exists p. reflexivity.
Qed.

Lemma mj_finish : forall pre' vl2 vn2 m2 o m' v',
  MJ0 pre' vl2 vn2 m2 ->
  jdisp (j_retire m2 o) (odisp o) = Some m' ->
  (forall b, In b (vlive v') <-> In b vl2 /\ ~ In b (map fst (overd o))) ->
  vnext v' = vn2 ->
  MJ0 pre' (vlive v') (vnext v') m' /\
  (forall j, ans m' j = ans m2 j) /\ jbatches m' = jbatches m2 /\
  (forall b, In b (jlive m') <-> In b (jlive m2) /\ ~ In b (map fst (overd o))).
Proof.
  intros pre' vl2 vn2 m2 o m' v' H Hjd Hvl Hvn.
  destruct (jdisp_cls _ _ _ Hjd) as (Hc & E1 & E2 & E3 & E4 & E5 & E6).
  set (L := filter (fun b => negb (mem b (map fst (overd o)))) (jlive m2)) in *.
  assert (Hcls : forall j, ans m' j = ans m2 j /\ drp m' j = drp m2 j /\ def m' j = def m2 j).
  { intros j. destruct (Hc j) as (A & B & C). rewrite A, B, C. unfold j_retire.
    destruct (retire_cls (set_jlive m2 L) j) as (A' & B' & C'). fold L. rewrite A', B', C'.
    repeat split; reflexivity. }
  assert (Elive : jlive m' = L) by (rewrite E2; reflexivity).
  split; [|split; [intros j; apply Hcls | split]].
  - rewrite Hvn. eapply (shrink pre' vl2 (vlive v') vn2 m2 m' (map fst (overd o)) H Hcls); try assumption.
  - rewrite E1. reflexivity.
  - intros b. rewrite Elive. unfold L. rewrite filter_In, negb_true_iff, mem_false_iff. tauto.
Qed.

Lemma due_of_result : forall m2 j p,
  j_due m2 (Result j p JOk) =
  match batch_of (jbatches m2) j with
  | Some b1 => if mem b1 (jlive m2) && forallb (ans m2) (jobs_of (jbatches m2) b1) then [b1] else []
  | None => []
  end.
Proof. reflexivity. Qed.

Lemma mj_step_nn : forall pre v m e o v' m',
  vstop v = false -> MJ0 pre (vlive v) (vnext v) m -> MJopen m -> not_newbatch e ->
  MJ0 (pre ++ [(e, o)]) (vlive v) (vnext v) (j_event m e o) ->
  jbatches (j_event m e o) = jbatches m -> jlive (j_event m e o) = jlive m ->
  (forall j', ans m j' = false -> ans (j_event m e o) j' = false \/ exists p, e = Result j' p JOk) ->
  j_succ_ok (j_event m e o) e o = true ->
  jdisp (j_retire (j_event m e o) o) (odisp o) = Some m' ->
  vstop v' = false ->
  ((overd o = [] /\ v' = v) \/
   (exists b vd, overd o = [(b, vd)] /\ In b (vlive v) /\ vlive v' = remove_z b (vlive v) /\
      vnext v' = vnext v /\ (vd = VSuccess -> exists j p, e = Result j p JOk))) ->
  MJ (pre ++ [(e, o)]) v' m' /\ StepClaim pre e o.
Proof.
  intros pre v m e o v' m' Hvs H0 Hopen Hnn H2 Hjb2 Hjl2 HR1 Hsucc Hjd Hvs' Hcases.
  set (m2 := j_event m e o) in *. set (pre' := pre ++ [(e, o)]) in *.
  assert (Hcnt : forall j', ok_count j' pre' = (ok_count j' pre + (if is_ok_result j' (e, o) then 1 else 0))%nat).
  { intros j'. unfold pre'. rewrite ok_count_app, ok_count_one. reflexivity. }
  (* when all requests of a live batch are answered after this step, success is said *)
  assert (Hall : forall b, In b (jlive m) -> jobs_of (jbatches m) b <> [] ->
            (forall j', In j' (jobs_of (jbatches m) b) -> ans m2 j' = true) ->
            In b (j_said o)).
  { intros b Hb Hne Hall.
    destruct (Hopen b Hb) as [Hn0 | [j0 [Hj0 Ha0]]]; [contradiction|].
    destruct (HR1 j0 Ha0) as [Hc | [p ->]]; [rewrite (Hall j0 Hj0) in Hc; discriminate|].
    unfold j_succ_ok in Hsucc. apply andb_true_iff in Hsucc. destruct Hsucc as [Hs1 _].
    fold m2 in Hs1. rewrite due_of_result, Hjb2, Hjl2 in Hs1.
    assert (Hbo : batch_of (jbatches m) j0 = Some b) by (apply (m_bof _ _ _ _ H0); exact Hj0).
    rewrite Hbo in Hs1. apply mem_true_iff in Hb. rewrite Hb in Hs1. cbn [andb] in Hs1.
    assert (Hf : forallb (ans m2) (jobs_of (jbatches m) b) = true) by (apply forallb_forall; exact Hall).
    rewrite Hf in Hs1. cbn [forallb] in Hs1. apply andb_true_iff in Hs1. destruct Hs1 as [Hs1 _].
    apply mem_true_iff. exact Hs1. }
  assert (Hfin : MJ0 pre' (vlive v') (vnext v') m' /\ (forall j, ans m' j = ans m2 j) /\
            jbatches m' = jbatches m2 /\
            (forall b, In b (jlive m') <-> In b (jlive m2) /\ ~ In b (map fst (overd o)))).
  { apply (mj_finish pre' (vlive v) (vnext v) m2 o m' v' H2 Hjd).
    - intros b. destruct Hcases as [[Ho ->] | (b1 & vd & Ho & _ & Hl & _)]; rewrite Ho.
      + cbn. tauto.
      + rewrite Hl, In_remove_z. cbn. split; [intros [A B]; split; [exact A | intros [C|[]]; congruence]
                                              | intros [A B]; split; [exact A | intros C; apply B; left; congruence]].
    - destruct Hcases as [[_ ->] | (b1 & vd & _ & _ & _ & Hn & _)]; [reflexivity | exact Hn]. }
  destruct Hfin as (H' & Hans & Hjb & Hlive').
  split.
  - split; [exact Hvs'|]. split; [exact H'|].
    intros b Hb. apply Hlive' in Hb. destruct Hb as [Hb Hnd]. rewrite Hjl2 in Hb. rewrite Hjb, Hjb2.
    destruct (jobs_of (jbatches m) b) as [|x t] eqn:Ejobs; [left; reflexivity|]. right.
    destruct (forallb (ans m2) (x :: t)) eqn:Hf.
    + exfalso. apply Hnd. apply said_sub. apply (Hall b Hb).
      * rewrite Ejobs. discriminate.
      * rewrite Ejobs. apply forallb_forall. exact Hf.
    + apply forallb_false_ex in Hf. destruct Hf as [j1 [Hj1 Hf]]. exists j1. split; [exact Hj1|].
      rewrite Hans. exact Hf.
  - intros b vd Hin.
    destruct Hcases as [[Ho _] | (b1 & vd1 & Ho & Hbl & _ & _ & Hvd)]; rewrite Ho in Hin; [destruct Hin|].
    destruct Hin as [Hin|[]]. inversion Hin; subst b1 vd1; clear Hin.
    assert (Hb : In b (jlive m)) by (apply (m_live _ _ _ _ H0); exact Hbl).
    split.
    { apply (m_livelt _ _ _ _ H0) in Hb. rewrite (m_nb _ _ _ _ H0) in Hb. exact Hb. }
    rewrite <- (m_req _ _ _ _ H0 b). split.
    + (* success: every request has its one successful result *)
      intros ->. destruct (Hvd eq_refl) as (j & p & ->).
      unfold j_succ_ok in Hsucc. apply andb_true_iff in Hsucc. destruct Hsucc as [_ Hs2].
      unfold j_said in Hs2. rewrite Ho in Hs2. cbn [filter snd verdict_eqb map fst forallb] in Hs2.
      rewrite andb_true_r in Hs2. fold m2 in Hs2. rewrite due_of_result, Hjb2, Hjl2 in Hs2.
      destruct (batch_of (jbatches m) j) as [b1|] eqn:Hbo; [|discriminate].
      destruct (mem b1 (jlive m) && forallb (ans m2) (jobs_of (jbatches m) b1)) eqn:Hc; [|discriminate].
      unfold mem in Hs2. cbn [existsb] in Hs2. rewrite orb_false_r in Hs2. apply Z.eqb_eq in Hs2. subst b1.
      apply andb_true_iff in Hc. destruct Hc as [_ Hf]. rewrite forallb_forall in Hf.
      split.
      * apply (m_bof _ _ _ _ H0) in Hbo. intros E. rewrite E in Hbo. destruct Hbo.
      * intros j' Hj'. apply (m_ans _ _ _ _ H2). apply Hf. exact Hj'.
    + (* all answered: the verdict is success *)
      intros [Hne Hall1].
      assert (Hin : In b (j_said o)).
      { apply (Hall b Hb Hne). intros j' Hj'.
        apply (m_liveans _ _ _ _ H2 j' b).
        - rewrite Hjb2. apply (m_bof _ _ _ _ H0). exact Hj'.
        - rewrite Hjl2. exact Hb.
        - apply Hall1. exact Hj'. }
      unfold j_said in Hin. rewrite Ho in Hin. cbn [filter snd] in Hin.
      destruct (verdict_eqb vd VSuccess) eqn:Ev; [|destruct Hin].
      destruct vd; try discriminate. reflexivity.
Qed.

Lemma mj_step : forall pre v m e o v' m',
  MJ pre v m -> e <> Quit ->
  vstep v (e, o) = Some v' -> jstep m (e, o) = Some m' -> jenv m' = true ->
  MJ (pre ++ [(e, o)]) v' m' /\ StepClaim pre e o.
Proof.
  intros pre v m e o v' m' (Hvs & H0 & Hopen) He Hv Hj Henv'.
  destruct (jstep_inv _ _ _ _ Hj (m_js _ _ _ _ H0) He Henv') as (Henv & Hok & Hsucc & Hjd).
  destruct (vstep_inv _ _ _ _ Hv Hvs He) as [Hvs' Hcases].
  set (m2 := j_event m e o) in *.
  set (pre' := pre ++ [(e, o)]).
  (* --- a new batch *)
  destruct e as [n a b0 c| | | | | | |].
  { assert (H2 : MJ0 pre' (vnext v :: vlive v) (vnext v + 1) m2) by (apply ev_new; exact H0).
    destruct Hcases as [[Ho [(n' & a' & b' & c' & _ & Hl & Hn) | [[] _]]] | (b & vd & _ & _ & _ & _ & [] & _)].
    destruct (mj_finish pre' _ _ m2 o m' v' H2 Hjd) as (H' & Hans & Hjb & Hlive').
    { intros b. rewrite Hl, Ho. cbn. tauto. }
    { exact Hn. }
    split.
    - split; [exact Hvs'|]. split; [exact H'|].
      intros b Hb. apply Hlive' in Hb. destruct Hb as [Hb _]. rewrite Hjb.
      change (jlive m2) with (jnextb m :: jlive m) in Hb.
      change (jbatches m2) with ((jnextb m, (jnextq m, n)) :: jbatches m).
      rewrite jobs_of_cons. destruct (jnextb m =? b) eqn:E.
      + destruct n as [|n]; [left; reflexivity|]. right. exists (jnextq m). split.
        * apply In_jrange. lia.
        * rewrite Hans. destruct (ans m2 (jnextq m)) eqn:A; [|reflexivity].
          apply (m_ans _ _ _ _ H2) in A. unfold pre' in A. rewrite ok_count_app, ok_count_one in A.
          cbn in A. rewrite Nat.add_0_r in A.
          destruct (m_fin _ _ _ _ H0 _ A) as [F|F];
            [unfold ans, is_answered in F | unfold drp in F];
            destruct (status_of (jstat m) (jnextq m)) eqn:Es; try discriminate;
            assert (D : def m (jnextq m) = true) by (unfold def; rewrite Es; reflexivity);
            apply (m_sdef _ _ _ _ H0) in D; lia.
      + destruct Hb as [Hb|Hb]; [lia|]. destruct (Hopen b Hb) as [Hn0 | [j [Hj1 Hj2]]]; [left; exact Hn0|].
        right. exists j. split; [exact Hj1|]. rewrite Hans.
        assert (Hsame : ans m2 j = ans m j).
        { unfold ans, is_answered, status_of. change (jstat m2) with
            (jstat m ++ map (fun i => (jnextq m + Z.of_nat i, Queued)) (seq 0 n)).
          rewrite z_get_app. destruct (z_get (jstat m) j); [reflexivity|]. rewrite z_get_newstat.
          destruct ((jnextq m <=? j) && (j <? jnextq m + Z.of_nat n)); reflexivity. }
        rewrite Hsame. exact Hj2.
    - intros b vd Hin. rewrite Ho in Hin. destruct Hin. }
  all: try congruence.
  all: match goal with |- _ /\ StepClaim _ ?ev _ =>
    assert (Hc2 : (overd o = [] /\ v' = v) \/
         (exists b vd, overd o = [(b, vd)] /\ In b (vlive v) /\ vlive v' = remove_z b (vlive v) /\
            vnext v' = vnext v /\ (vd = VSuccess -> exists j p, ev = Result j p JOk)))
    by (destruct Hcases as [[Ho [(x1 & x2 & x3 & x4 & Hx & _) | [_ Hveq]]] | (x5 & x6 & Ho & Hin & Hl & Hn & _ & Hvd)];
        [discriminate | left; split; assumption | right; exists x5, x6; repeat split; assumption]) end.
  (* a result *)
  3:{ assert (Hr : status_of (jstat m) j = Some (Running p)).
      { cbn [env_event_ok] in Hok. destruct (status_of (jstat m) j) as [[]|]; try discriminate.
        apply Z.eqb_eq in Hok. subst. reflexivity. }
      assert (H2 : MJ0 pre' (vlive v) (vnext v) m2) by (apply ev_result; assumption).
      apply (mj_step_nn pre v m (Result j p e) o v' m' Hvs H0 Hopen I H2); try assumption.
      - unfold m2. rewrite j_event_result. reflexivity.
      - unfold m2. rewrite j_event_result. reflexivity.
      - intros j' Ha. unfold m2. rewrite j_event_result.
        match goal with |- ans (mres m j p ?X) j' = false \/ _ =>
          destruct (cls_upd m j p X _ j' Hr) as (A & _ & _); rewrite A end.
        destruct (j' =? j) eqn:E; [|left; exact Ha].
        apply Z.eqb_eq in E. subst j'. destruct (live_job m j); [|left; reflexivity].
        destruct e; cbn [is_ok is_canceled orb]; try (left; reflexivity);
          try (destruct (negb (is_nil (omax o))); left; reflexivity).
        right. exists p. reflexivity. }
  all: match goal with |- _ /\ StepClaim _ ?ev _ =>
         assert (H2 : MJ0 pre' (vlive v) (vnext v) m2) by (apply ev_other; [exact H0 | exact I | intros; discriminate]);
         apply (mj_step_nn pre v m ev o v' m' Hvs H0 Hopen I H2); try assumption; try reflexivity;
         intros j' Ha; left; exact Ha
       end.
Qed.

(* ------------------------------------------------------------- whole runs *)
Definition noquit (tr : list (ev * obs)) : Prop := forall eo, In eo tr -> fst eo <> Quit.

Lemma jstep_env_false : forall m eo m', jstep m eo = Some m' -> jenv m = false -> jenv m' = false.
Proof.
  intros m [e o] m' H Hf. unfold jstep in H. destruct (jstopped m); [inversion H; subst; exact Hf|].
  destruct e; rewrite ?Hf in H; cbn [andb negb] in H; inversion H; subst; try reflexivity; try exact Hf.
Qed.

Lemma jrun_env_false : forall tr m m', mon_run jstep m tr = Some m' -> jenv m = false -> jenv m' = false.
Proof.
  induction tr as [|eo rest IH]; intros m m' H Hf; cbn [mon_run] in H.
  - inversion H; subst. exact Hf.
  - destruct (jstep m eo) as [m1|] eqn:E; [|discriminate]. apply (IH m1 m' H). eapply jstep_env_false; eassumption.
Qed.

Lemma mj_run : forall post pre v m v' m',
  MJ pre v m -> noquit post ->
  mon_run vstep v post = Some v' -> mon_run jstep m post = Some m' -> jenv m' = true ->
  MJ (pre ++ post) v' m' /\
  forall p1 e o p2, post = p1 ++ (e, o) :: p2 -> StepClaim (pre ++ p1) e o.
Proof.
  induction post as [|[e o] rest IH]; intros pre v m v' m' HM Hnq Hv Hj Henv.
  - cbn [mon_run] in Hv, Hj. inversion Hv; inversion Hj; subst. rewrite app_nil_r.
    split; [exact HM|]. intros [|? ?] e o p2 H; discriminate.
  - cbn [mon_run] in Hv, Hj.
    destruct (vstep v (e, o)) as [v1|] eqn:Ev; [|discriminate].
    destruct (jstep m (e, o)) as [m1|] eqn:Ej; [|discriminate].
    assert (He : e <> Quit) by (apply (Hnq (e, o)); left; reflexivity).
    assert (Henv1 : jenv m1 = true).
    { destruct (jenv m1) eqn:E1; [reflexivity|]. rewrite (jrun_env_false _ _ _ Hj E1) in Henv. discriminate. }
    destruct (mj_step _ _ _ _ _ _ _ HM He Ev Ej Henv1) as [HM1 Hclaim].
    assert (Hnq' : noquit rest) by (intros eo Hin; apply Hnq; right; exact Hin).
    destruct (IH _ _ _ _ _ HM1 Hnq' Hv Hj Henv) as [HM' Hclaims].
    split.
    + replace (pre ++ (e, o) :: rest) with ((pre ++ [(e, o)]) ++ rest) by (rewrite <- app_assoc; reflexivity).
      exact HM'.
    + intros p1 e0 o0 p2 Hsplit. destruct p1 as [|x p1'].
      * cbn [app] in Hsplit. inversion Hsplit; subst. rewrite app_nil_r. exact Hclaim.
      * cbn [app] in Hsplit. inversion Hsplit; subst.
        replace (pre ++ (e, o) :: p1') with ((pre ++ [(e, o)]) ++ p1') by (rewrite <- app_assoc; reflexivity).
        eapply Hclaims. reflexivity.
Qed.

Lemma MJ_init : MJ [] vinit jinit.
Proof.
  split; [reflexivity|]. split.
  - constructor; cbn; try reflexivity; try (intros; discriminate); try (intros; contradiction); try tauto.
    + intros b. rewrite requests_out; [reflexivity | cbn; lia].
    + intros j b. split; [discriminate | intros []].
    + intros j. lia.
  - intros b [].
Qed.

(* What acceptance by the verdict monitor and the job monitor means, for ANY
   trace without Quit in which the worker contract was kept ([jenv]): a
   verdict is success iff, with the event that caused it, every request of
   that batch has exactly one successful result; and no request is ever
   answered successfully twice. *)
Lemma monitors_mean_success_iff : forall tr v m,
  noquit tr -> mon_run vstep vinit tr = Some v -> mon_run jstep jinit tr = Some m -> jenv m = true ->
  (forall pre e o post b vd, tr = pre ++ (e, o) :: post -> In (b, vd) (overd o) ->
     (vd = VSuccess <-> all_answered tr b (pre ++ [(e, o)]))) /\
  (forall j, (ok_count j tr <= 1)%nat).
Proof.
  intros tr v m Hnq Hv Hj Henv.
  destruct (mj_run tr [] vinit jinit v m MJ_init Hnq Hv Hj Henv) as [(_ & H0 & _) Hclaims].
  cbn [app] in *. split.
  - intros pre e o post b vd Hsplit Hin.
    destruct (Hclaims pre e o post Hsplit b vd Hin) as [Hb Hiff].
    unfold all_answered. rewrite Hsplit, (requests_stable pre ((e, o) :: post) b Hb). exact Hiff.
  - exact (m_le1 _ _ _ _ H0).
Qed.

(* ------------------------------------------------- the model satisfies it *)
(* the inputs the dispatcher handles: up to the first Quit *)
Fixpoint bq (inp : list (ev * list Z)) : list (ev * list Z) :=
  match inp with
  | [] => []
  | (Quit, _) :: _ => []
  | x :: rest => x :: bq rest
  end.

Lemma trace_bq : forall inp s, before_quit (snd (run_from s inp)) = snd (run_from s (bq inp)).
Proof.
  induction inp as [|[e picks] rest IH]; intros s; [reflexivity|].
  rewrite run_from_cons. cbn [snd fst before_quit bq].
  destruct e; try reflexivity; rewrite run_from_cons; cbn [snd fst]; rewrite IH; reflexivity.
Qed.

Lemma bq_split : forall inp, exists rest, inp = bq inp ++ rest.
Proof.
  induction inp as [|[e picks] t [r IH]]; [exists []; reflexivity|].
  destruct e; cbn [bq]; try (exists r; cbn [app]; rewrite <- IH; reflexivity).
  exists ((Quit, picks) :: t). reflexivity.
Qed.

Lemma bq_noquit : forall inp ep, In ep (bq inp) -> fst ep <> Quit.
Proof.
  induction inp as [|[e picks] t IH]; intros ep H; [destruct H|].
  destruct e; cbn [bq] in H; try destruct H as [<-|H]; try (cbn; discriminate); try (apply IH; exact H).
  destruct H.
Qed.

Lemma run_from_app : forall a b s, fst (run_from s (a ++ b)) = fst (run_from (fst (run_from s a)) b).
Proof.
  induction a as [|ep t IH]; intros b s; [reflexivity|].
  cbn [app]. rewrite !run_from_cons. cbn [fst]. apply IH.
Qed.

Lemma trace_noquit : forall inp s, (forall ep, In ep inp -> fst ep <> Quit) -> noquit (snd (run_from s inp)).
Proof.
  induction inp as [|ep t IH]; intros s H eo Hin; [destruct Hin|].
  rewrite run_from_cons in Hin. cbn [snd] in Hin. destruct Hin as [<-|Hin].
  - cbn [fst]. apply H. left. reflexivity.
  - eapply IH; [|exact Hin]. intros x Hx. apply H. right. exact Hx.
Qed.

Lemma step_envbad_mono : forall s ep, envbad s = true -> envbad (fst (step s ep)) = true.
Proof.
  intros s [e picks] Hb. unfold step. destruct (crashed s); [exact Hb|].
  destruct (stopped s); [destruct e; exact Hb|].
  destruct e; try exact Hb;
  match goal with |- context [handle s ?ev] =>
    destruct (handle s ev) as [[s1 vs] mx] eqn:Hh;
    assert (Hb1 := handle_envbad_mono _ _ _ _ _ Hh Hb);
    destruct (crashed s1); [exact Hb1|];
    destruct (dispatch_phase (length (work s1)) s1 picks []) as [s2 ds] eqn:Hd;
    destruct (dispatch_phase_frame _ _ _ _ _ _ Hd) as (_ & _ & _ & _ & _ & _ & _ & Fenv & _);
    cbn [fst]; congruence
  end.
Qed.

Lemma run_envbad_mono : forall inp s, envbad s = true -> envbad (fst (run_from s inp)) = true.
Proof.
  induction inp as [|ep t IH]; intros s H; [exact H|].
  rewrite run_from_cons. cbn [fst]. apply IH. apply step_envbad_mono. exact H.
Qed.

Lemma step_stopped_nonquit : forall s e picks, e <> Quit -> stopped s = false ->
  stopped (fst (step s (e, picks))) = false.
Proof.
  intros s e picks He Hs. unfold step. destruct (crashed s); [exact Hs|]. rewrite Hs.
  destruct e; try congruence;
  match goal with |- context [handle s ?ev] =>
    destruct (handle s ev) as [[s1 vs] mx] eqn:Hh;
    assert (Hs1 := handle_stopped _ _ _ _ _ Hh);
    destruct (crashed s1); [cbn [fst]; congruence|];
    destruct (dispatch_phase (length (work s1)) s1 picks []) as [s2 ds] eqn:Hd;
    destruct (dispatch_phase_frame _ _ _ _ _ _ Hd) as (_ & _ & Fst & _);
    cbn [fst]; congruence
  end.
Qed.

Lemma run_stopped_noquit : forall inp s, (forall ep, In ep inp -> fst ep <> Quit) -> stopped s = false ->
  stopped (fst (run_from s inp)) = false.
Proof.
  induction inp as [|[e picks] t IH]; intros s H Hs; [exact Hs|].
  rewrite run_from_cons. cbn [fst]. apply IH.
  - intros x Hx. apply H. right. exact Hx.
  - apply step_stopped_nonquit; [|exact Hs]. apply (H (e, picks)). left. reflexivity.
Qed.

(* Success means all answered — on the model, for every history in which the
   environment keeps the worker contract. *)
Lemma success_iff_model : forall inp, envbad (final inp) = false ->
  (forall pre e o post b vd,
     before_quit (trace inp) = pre ++ (e, o) :: post -> In (b, vd) (overd o) ->
     (vd = VSuccess <-> all_answered (before_quit (trace inp)) b (pre ++ [(e, o)]))) /\
  (forall j, (ok_count j (before_quit (trace inp)) <= 1)%nat).
Proof.
  intros inp Henv. unfold trace, final, run in *. rewrite trace_bq.
  destruct (bq_split inp) as [rest Hsplit].
  assert (Henv' : envbad (fst (run_from init (bq inp))) = false).
  { destruct (envbad (fst (run_from init (bq inp)))) eqn:E; [|reflexivity].
    rewrite Hsplit, run_from_app, (run_envbad_mono rest _ E) in Henv. discriminate. }
  assert (Hnc : crashed (fst (run_from init (bq inp))) = false) by (apply (no_crash_if_env_ok (bq inp)); exact Henv').
  destruct (sim_run vstep VI vstep_sim (bq inp) init vinit VI_init Hnc) as [v [Hv _]].
  destruct (jrun_model (bq inp) Hnc) as [m [Hj HJI]]. unfold trace, final, run in Hj, HJI.
  assert (Hst : stopped (fst (run_from init (bq inp))) = false).
  { apply run_stopped_noquit; [apply bq_noquit | reflexivity]. }
  assert (Hjenv : jenv m = true).
  { destruct HJI as [[_ A] | [(_ & _ & _ & A) | (_ & _ & A & _)]]; [congruence | congruence | exact A]. }
  apply (monitors_mean_success_iff _ v m); try assumption.
  apply trace_noquit. apply bq_noquit.
Qed.

(* after Quit nothing but shutdown errors is sent *)
Lemma after_quit_only_shutdown : forall inp s,
  stopped s = true \/ crashed s = true ->
  forall b vd, In (b, vd) (flat_map (fun eo => overd (snd eo)) (snd (run_from s inp))) -> vd = VShutdown.
Proof.
  induction inp as [|[e picks] t IH]; intros s Hs b vd Hin; [destruct Hin|].
  rewrite run_from_cons in Hin. cbn [snd flat_map fst] in Hin. apply in_app_iff in Hin.
  assert (Hstep : (stopped (fst (step s (e, picks))) = true \/ crashed (fst (step s (e, picks))) = true) /\
            forall b vd, In (b, vd) (overd (snd (step s (e, picks)))) -> vd = VShutdown).
  { unfold step. destruct (crashed s) eqn:Hc.
    - split; [right; exact Hc | intros ? ? []].
    - destruct Hs as [Hs|Hs]; [|congruence]. rewrite Hs.
      destruct e; cbn [fst snd mk_obs overd]; (split; [left; exact Hs|]);
        intros xb xv Hxx; cbn [In] in Hxx; try contradiction.
      destruct Hxx as [Hxx|[]]. inversion Hxx. reflexivity. }
  destruct Hstep as [Hs' Hv]. destruct Hin as [Hin|Hin]; [eapply Hv; exact Hin | eapply IH; eassumption].
Qed.

Lemma quit_then_only_shutdown : forall inp pre o post,
  trace inp = pre ++ (Quit, o) :: post ->
  forall b vd, In (b, vd) (flat_map (fun eo => overd (snd eo)) ((Quit, o) :: post)) -> vd = VShutdown.
Proof.
  intros inp. unfold trace, run. generalize init. induction inp as [|[e picks] t IH]; intros s pre o post H b vd Hin.
  - destruct pre; discriminate.
  - rewrite run_from_cons in H. cbn [snd fst] in H. destruct pre as [|x pre'].
    + cbn [app] in H. injection H as He Ho Hp. subst e.
      cbn [flat_map snd] in Hin. apply in_app_iff in Hin.
      assert (Hq : (stopped (fst (step s (Quit, picks))) = true \/ crashed (fst (step s (Quit, picks))) = true) /\
                forall b vd, In (b, vd) (overd (snd (step s (Quit, picks)))) -> vd = VShutdown).
      { unfold step. destruct (crashed s) eqn:Hc; [split; [right; exact Hc | intros ? ? []]|].
        destruct (stopped s) eqn:Hs; [split; [left; exact Hs | intros ? ? []]|].
        cbn [fst snd mk_obs overd]. split; [left; reflexivity|].
        intros xb xv Hx. apply in_map_iff in Hx. destruct Hx as [y [Hy _]]. inversion Hy. reflexivity. }
      destruct Hq as [Hs' Hv]. destruct Hin as [Hin|Hin].
      * rewrite <- Ho in Hin. eapply Hv. exact Hin.
      * rewrite <- Hp in Hin. eapply after_quit_only_shutdown; eassumption.
    + cbn [app] in H. inversion H. eapply IH; eassumption.
Qed.
