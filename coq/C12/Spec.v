(* C12 — the property, in the vocabulary of what a caller / an observer of the
   dispatcher can see: a trace is the list of (event, observation) pairs.
   Three independent monitors, each a small reference machine over the trace:

   * [vholds]  verdict discipline: a batch gets no verdict while live and
     exactly one when it finishes; a verdict is only ever sent to a live batch
     (so the 1-slot error channel is written at most once and the dispatcher
     never blocks on it); the class of the verdict fits the event that caused
     it; Quit gives every live batch exactly one shutdown error, and nothing
     is sent afterwards except the immediate shutdown error of a late Query.
   * [rholds]  ranking: a job is only handed to a free worker whose score (as
     observed in the ranking) is minimal among the free workers.
   * [jholds]  jobs (for traces in which the environment keeps the worker
     contract — a result is reported by the worker that holds the job):
     jobs are handed out in index order; a job is handed out only if it was
     never handed out or its last result was a failure that neither reached
     the retry cap nor arrived after its batch had finished; a success verdict
     means every job of the batch has exactly one successful result and is
     sent exactly when the last one arrives; an unanswered job of a live
     batch is queued again and no such job waits while a worker is free.

   The monitors know nothing about the heap, currentQueries, retry counters or
   rank arithmetic of the implementation. *)
From Coq Require Import ZArith List Bool.
From Verif Require Import C12.Model.
Import ListNotations.
Open Scope Z_scope.

Definition verdict_eqb (a b : verdict) : bool :=
  match a, b with
  | VSuccess, VSuccess | VTimeout, VTimeout | VDisconnected, VDisconnected
  | VCanceled, VCanceled | VOther, VOther | VShutdown, VShutdown => true
  | _, _ => false
  end.
Definition is_canceled (e : jerr) : bool := match e with JCanceled => true | _ => false end.
Definition is_ok (e : jerr) : bool := match e with JOk => true | _ => false end.
Definition is_nil {A} (l : list A) : bool := match l with [] => true | _ => false end.

Fixpoint nodupb (l : list Z) : bool :=
  match l with [] => true | x :: t => negb (mem x t) && nodupb t end.
Definition remove_z (x : Z) (l : list Z) : list Z := filter (fun y => negb (y =? x)) l.

(* a monitor is a partial step function; a trace is accepted if it never
   gets stuck *)
Fixpoint mon_run {S} (stp : S -> ev * obs -> option S) (s : S) (tr : list (ev * obs)) : option S :=
  match tr with
  | [] => Some s
  | eo :: rest => match stp s eo with Some s' => mon_run stp s' rest | None => None end
  end.

(* ------------------------------------------------------------ verdicts *)
Record vst := { vlive : list Z; vnext : Z; vstop : bool }.
Definition vinit : vst := {| vlive := []; vnext := 0; vstop := false |}.

(* which verdict an event with result class [e] may cause *)
Definition verdict_allowed (e : jerr) (v : verdict) : bool :=
  verdict_eqb v (verdict_of_jerr e) || (verdict_eqb v VTimeout && negb (is_canceled e)).

Definition vstep (v : vst) (eo : ev * obs) : option vst :=
  let '(e, o) := eo in
  let vs := overd o in
  if vstop v then
    match e, vs with
    | NewBatch _ _ _ _, [(b, VShutdown)] =>
      if b =? vnext v then Some {| vlive := vlive v; vnext := vnext v + 1; vstop := true |} else None
    | NewBatch _ _ _ _, _ => None
    | _, [] => Some v
    | _, _ => None
    end
  else
    match e with
    | NewBatch _ _ _ _ =>
      if is_nil vs then Some {| vlive := vnext v :: vlive v; vnext := vnext v + 1; vstop := false |} else None
    | Quit =>
      if forallb (fun p => verdict_eqb (snd p) VShutdown) vs
         && nodupb (map fst vs)
         && forallb (fun b => mem b (vlive v)) (map fst vs)
         && forallb (fun b => mem b (map fst vs)) (vlive v)
      then Some {| vlive := []; vnext := vnext v; vstop := true |} else None
    | Result _ _ err =>
      match vs with
      | [] => Some v
      | [(b, vd)] =>
        if mem b (vlive v) && verdict_allowed err vd
        then Some {| vlive := remove_z b (vlive v); vnext := vnext v; vstop := false |} else None
      | _ => None
      end
    | ProgressWake b _ =>
      match vs with
      | [] => Some v
      | [(b', VTimeout)] =>
        if (b' =? b) && mem b (vlive v)
        then Some {| vlive := remove_z b (vlive v); vnext := vnext v; vstop := false |} else None
      | _ => None
      end
    | _ => if is_nil vs then Some v else None
    end.

Definition vholds (tr : list (ev * obs)) : bool :=
  match mon_run vstep vinit tr with Some _ => true | None => false end.

(* number of verdicts batch [b] received along a trace *)
Definition count_verdicts (b : Z) (tr : list (ev * obs)) : nat :=
  length (filter (fun p => fst p =? b) (flat_map (fun eo => overd (snd eo)) tr)).

(* ------------------------------------------------------------- ranking *)
(* worker table: name -> (busy, exited) *)
Definition wtab := list (Z * (bool * bool)).

Definition wt_connect (t : wtab) (p : Z) : wtab :=
  match z_get t p with
  | Some _ => map (fun x => if fst x =? p then (p, (false, false)) else x) t
  | None => t ++ [(p, (false, false))]
  end.
Definition wt_exit (t : wtab) (p : Z) : wtab :=
  map (fun x => if fst x =? p then (p, (fst (snd x), true)) else x) t.
Definition wt_busy (t : wtab) (p : Z) (b : bool) : wtab :=
  map (fun x => if fst x =? p then (p, (b, snd (snd x))) else x) t.
Definition wt_free (t : wtab) : list Z :=
  map fst (filter (fun x => negb (fst (snd x)) && negb (snd (snd x))) t).

Definition wt_event (t : wtab) (e : ev) : wtab :=
  match e with
  | PeerConnected p => wt_connect t p
  | WorkerExit p => wt_exit t p
  | Result _ p _ => wt_busy t p false
  | _ => t
  end.

(* [sc] = the observed ranking; a peer without an entry has the default score *)
Fixpoint rdisp (sc : list (Z * Z)) (t : wtab) (ds : list (Z * Z * Z)) : option wtab :=
  match ds with
  | [] => Some t
  | (_, p, _) :: rest =>
    let free := wt_free t in
    if mem p free && forallb (fun q => score_in sc p <=? score_in sc q) free
    then rdisp sc (wt_busy t p true) rest else None
  end.

Definition rstep (t : wtab) (eo : ev * obs) : option wtab :=
  let '(e, o) := eo in rdisp (oscores o) (wt_event t e) (odisp o).

Definition rholds (tr : list (ev * obs)) : bool :=
  match mon_run rstep [] tr with Some _ => true | None => false end.

(* ---------------------------------------------------------------- jobs *)
Inductive jstatus := Queued | Running (p : Z) | Answered | Stale | Dropped.

Record jst := {
  jbatches : list (Z * (Z * nat)); (* batch -> (first job, number of jobs) *)
  jlive : list Z;                  (* batches without a verdict *)
  jstat : list (Z * jstatus);      (* job -> status *)
  jwt : wtab;
  jnextb : Z; jnextq : Z;
  jenv : bool;                     (* the environment kept the worker contract so far *)
  jstopped : bool
}.
Definition jinit : jst :=
  {| jbatches := []; jlive := []; jstat := []; jwt := []; jnextb := 0; jnextq := 0; jenv := true; jstopped := false |}.

Definition batch_of (bs : list (Z * (Z * nat))) (j : Z) : option Z :=
  option_map fst (find (fun x => (fst (snd x) <=? j) && (j <? fst (snd x) + Z.of_nat (snd (snd x)))) bs).
Definition jobs_of (bs : list (Z * (Z * nat))) (b : Z) : list Z :=
  match z_get bs b with
  | Some (q0, n) => map (fun i => q0 + Z.of_nat i) (seq 0 n)
  | None => []
  end.
Definition status_of (m : list (Z * jstatus)) (j : Z) : option jstatus := z_get m j.
Definition is_answered (m : list (Z * jstatus)) (j : Z) : bool :=
  match status_of m j with Some Answered => true | _ => false end.
Definition is_queued (m : list (Z * jstatus)) (j : Z) : bool :=
  match status_of m j with Some Queued => true | _ => false end.
Definition live_job (s : jst) (j : Z) : bool :=
  match batch_of (jbatches s) j with Some b => mem b (jlive s) | None => false end.

Definition set_jstat (s : jst) m := {| jbatches := jbatches s; jlive := jlive s; jstat := m; jwt := jwt s; jnextb := jnextb s; jnextq := jnextq s; jenv := jenv s; jstopped := jstopped s |}.
Definition set_jwt (s : jst) t := {| jbatches := jbatches s; jlive := jlive s; jstat := jstat s; jwt := t; jnextb := jnextb s; jnextq := jnextq s; jenv := jenv s; jstopped := jstopped s |}.
Definition set_jlive (s : jst) l := {| jbatches := jbatches s; jlive := l; jstat := jstat s; jwt := jwt s; jnextb := jnextb s; jnextq := jnextq s; jenv := jenv s; jstopped := jstopped s |}.
Definition set_jenv (s : jst) b := {| jbatches := jbatches s; jlive := jlive s; jstat := jstat s; jwt := jwt s; jnextb := jnextb s; jnextq := jnextq s; jenv := b; jstopped := jstopped s |}.

(* the environment's side of the contract at one event *)
Definition env_event_ok (s : jst) (e : ev) : bool :=
  match e with
  | Result j p _ => match status_of (jstat s) j with Some (Running q) => q =? p | _ => false end
  | WorkerExit p => mem p (wt_free (jwt s))
  | PeerConnected p =>
    match z_get (jwt s) p with Some (busy, exited) => exited && negb busy | None => true end
  | _ => true
  end.

(* hand-outs, in order: the job must be waiting, no waiting job of a live
   batch with a smaller index may be overtaken *)
Fixpoint jdisp (s : jst) (ds : list (Z * Z * Z)) : option jst :=
  match ds with
  | [] => Some s
  | (j, p, _) :: rest =>
    let waiting := match status_of (jstat s) j with Some Queued | Some Stale => true | _ => false end in
    let overtakes := existsb (fun x => (fst x <? j) && is_queued (jstat s) (fst x) && live_job s (fst x)) (jstat s) in
    if waiting && negb overtakes
    then jdisp (set_jwt (set_jstat s (z_upd (jstat s) j (Running p))) (wt_busy (jwt s) p true)) rest
    else None
  end.

(* jobs of finished batches that were waiting become stale: they may or may
   not still be handed out, and their results do not matter *)
Definition retire (s : jst) : jst :=
  set_jstat s (map (fun x => match snd x with
                             | Queued => if live_job s (fst x) then x else (fst x, Stale)
                             | _ => x end) (jstat s)).

Definition jstep (s : jst) (eo : ev * obs) : option jst :=
  let '(e, o) := eo in
  if jstopped s then Some s else
  match e with
  | Quit => Some {| jbatches := jbatches s; jlive := []; jstat := jstat s; jwt := jwt s; jnextb := jnextb s;
                    jnextq := jnextq s; jenv := jenv s; jstopped := true |}
  | _ =>
  let envok := jenv s && env_event_ok s e in
  if negb envok then Some (set_jenv s false) else
  (* 1. the event itself *)
  let s1 := set_jwt s (wt_event (jwt s) e) in
  let s2 :=
    match e with
    | NewBatch n _ _ _ =>
      {| jbatches := (jnextb s1, (jnextq s1, n)) :: jbatches s1;
         jlive := jnextb s1 :: jlive s1;
         jstat := jstat s1 ++ map (fun i => (jnextq s1 + Z.of_nat i, Queued)) (seq 0 n);
         jwt := jwt s1; jnextb := jnextb s1 + 1; jnextq := jnextq s1 + Z.of_nat n;
         jenv := jenv s1; jstopped := false |}
    | Result j _ err =>
      if live_job s1 j then
        set_jstat s1 (z_upd (jstat s1) j
          (if is_ok err then Answered
           else if is_canceled err || negb (is_nil (omax o)) then Dropped  (* cancelled / retry cap reached *)
           else Queued))
      else set_jstat s1 (z_upd (jstat s1) j Dropped)   (* result of a finished batch: discarded *)
    | _ => s1
    end in
  (* 2. success is announced exactly when the last job of a live batch is answered *)
  let success_due :=
    match e with
    | Result j _ JOk =>
      match batch_of (jbatches s2) j with
      | Some b => if mem b (jlive s2) && forallb (is_answered (jstat s2)) (jobs_of (jbatches s2) b) then [b] else []
      | None => []
      end
    | _ => []
    end in
  let success_said := map fst (filter (fun p => verdict_eqb (snd p) VSuccess) (overd o)) in
  if negb (forallb (fun b => mem b success_said) success_due && forallb (fun b => mem b success_due) success_said)
  then None else
  (* 3. verdicts retire their batches; waiting jobs of those become stale *)
  let s3 := retire (set_jlive s2 (filter (fun b => negb (mem b (map fst (overd o)))) (jlive s2))) in
  (* 4. hand-outs *)
  match jdisp s3 (odisp o) with
  | None => None
  | Some s4 =>
    (* 5. nothing of a live batch waits while a worker is free *)
    let waiting_live := existsb (fun x => is_queued (jstat s4) (fst x) && live_job s4 (fst x)) (jstat s4) in
    if waiting_live && negb (is_nil (wt_free (jwt s4))) then None else Some s4
  end
  end.

Definition jholds (tr : list (ev * obs)) : bool :=
  match mon_run jstep jinit tr with Some _ => true | None => false end.

(* ---------------------------------------------------------- the monitor *)
Definition holds (tr : list (ev * obs)) : bool := vholds tr && rholds tr && jholds tr.

(* ================================================================ worker
   The Worker contract (interface Worker.NewJob): every job a worker reads
   produces exactly one result, and the worker does not read another job
   before that.  Monitor over a worker trace:
   * a job is only accepted when none is outstanding; an already cancelled
     job is not queued to the peer, any other is;
   * a result is only delivered for the outstanding job, and its class is the
     first cause that ended the job (finished response, timer, disconnect,
     caller cancel, batch-internal cancel);
   * when the dispatcher is ready to take a result (WTake) and a cause has
     occurred, the result is there — in particular a job whose batch timed
     out (WIntCancel) is reported, so the dispatcher can free the worker;
   * nothing is required after WQuit. *)
Record wmon := { wpend : option Z; wcause : option jerr; wquit : bool }.
Definition wminit : wmon := {| wpend := None; wcause := None; wquit := false |}.

Definition cause_of (e : wev) : option jerr :=
  match e with
  | WMsg true _ => Some JOk
  | WTimer => Some JTimeout
  | WDisconnect => Some JDisconnected
  | WCancel | WIntCancel => Some JCanceled
  | _ => None
  end.
Definition jerr_eqb (a b : jerr) : bool :=
  match a, b with
  | JOk, JOk | JTimeout, JTimeout | JDisconnected, JDisconnected | JCanceled, JCanceled | JOther, JOther => true
  | _, _ => false
  end.

Definition wmstep (m : wmon) (eo : wev * wobs) : option wmon :=
  let '(e, o) := eo in
  if wquit m then Some m else
  match e with
  | WQuit => Some {| wpend := wpend m; wcause := wcause m; wquit := true |}
  | WJob j pc =>
    match wres o with Some _ => None | None =>
    if wacc o then
      match wpend m with
      | Some _ => None                       (* took a job while one is outstanding *)
      | None =>
        if Bool.eqb (wsent o) (negb pc)
        then Some {| wpend := Some j; wcause := if pc then Some JCanceled else None; wquit := false |}
        else None
      end
    else Some m
    end
  | WTake =>
    match wres o, wpend m, wcause m with
    | Some (j, err), Some j', Some c =>
      if (j =? j') && jerr_eqb err c then Some {| wpend := None; wcause := None; wquit := false |} else None
    | Some _, _, _ => None                   (* result without an outstanding, ended job *)
    | None, Some _, Some _ => None           (* the job has ended but is not reported *)
    | None, _, _ => Some m
    end
  | _ =>
    match wres o with Some _ => None | None =>
    if wacc o then None else
    match wpend m, wcause m with
    | Some _, None => Some {| wpend := wpend m; wcause := cause_of e; wquit := false |}
    | _, _ => Some m
    end
    end
  end.

Fixpoint wmon_run (m : wmon) (tr : list (wev * wobs)) : option wmon :=
  match tr with
  | [] => Some m
  | eo :: rest => match wmstep m eo with Some m' => wmon_run m' rest | None => None end
  end.
Definition wholds (tr : list (wev * wobs)) : bool :=
  match wmon_run wminit tr with Some _ => true | None => false end.

Definition waccepted (tr : list (wev * wobs)) : list Z :=
  flat_map (fun eo => match fst eo with WJob j _ => if wacc (snd eo) then [j] else [] | _ => [] end) tr.
Definition wresults (tr : list (wev * wobs)) : list (Z * jerr) :=
  flat_map (fun eo => match wres (snd eo) with Some r => [r] | None => [] end) tr.

(* ============================================ success means all answered
   The full statement, in trace vocabulary only.  The dispatcher sees the
   part of a trace up to the first Quit.  Batches are numbered in submission
   order and their requests (jobs) consecutively: batch b owns the jobs
   [first_job b, first_job b + size b).  [ok_count j tr] = how many successful
   results (event Result j _ JOk) job j has in tr.
   [all_answered tr b upto]: batch b of trace tr has requests, and every one
   of them has exactly one successful result within the part [upto]. *)
Fixpoint before_quit (tr : list (ev * obs)) : list (ev * obs) :=
  match tr with
  | [] => []
  | (Quit, _) :: _ => []
  | eo :: rest => eo :: before_quit rest
  end.

Definition sizes (tr : list (ev * obs)) : list nat :=
  flat_map (fun eo => match fst eo with NewBatch n _ _ _ => [n] | _ => [] end) tr.
Definition sum_nat (l : list nat) : nat := fold_right Nat.add 0%nat l.

Definition requests_of (tr : list (ev * obs)) (b : Z) : list Z :=
  if (0 <=? b) && (b <? Z.of_nat (length (sizes tr))) then
    map (fun i => Z.of_nat (sum_nat (firstn (Z.to_nat b) (sizes tr))) + Z.of_nat i)
        (seq 0 (nth (Z.to_nat b) (sizes tr) 0%nat))
  else [].

Definition is_ok_result (j : Z) (eo : ev * obs) : bool :=
  match fst eo with Result j' _ JOk => j' =? j | _ => false end.
Definition ok_count (j : Z) (tr : list (ev * obs)) : nat := length (filter (is_ok_result j) tr).

Definition all_answered (tr : list (ev * obs)) (b : Z) (upto : list (ev * obs)) : Prop :=
  requests_of tr b <> [] /\ forall j, In j (requests_of tr b) -> ok_count j upto = 1%nat.
