(* C12 — the path of an idle-timer wake (query/workmanager.go,
   armProgressTimer): a layer over the closed loop of LoopModel.v; no proofs.

   When a batch's idle timer expires, the time.AfterFunc callback posts
   progressWake{batch, gen} with
       select { case progressWakes <- wake: ; case <-quit: }
   so the wake is either in the (16-slot) channel buffer or its callback is
   parked in that select: in both cases it is PENDING until the dispatcher
   receives it in its outer select, however long the dispatcher stays outside
   that select (handing out jobs, Ranking.Order, OnMaxTries), or until quit.
   [pend] = the pending wakes; the buffer bound plays no role because a
   callback that finds the buffer full waits.  The dispatcher receives the
   pending wakes in any order ([TDeliver i]); the label CWake of the closed
   loop is only reachable through this path.  Ghost logs: [fired], [taken]. *)
From Coq Require Import ZArith List Bool.
From Verif Require Import C12.Model C12.LoopModel.
Import ListNotations.
Open Scope Z_scope.

Record tst := { base : cst; pend : list (Z * Z); fired : list (Z * Z); taken : list (Z * Z) }.
Definition tinit : tst := {| base := cinit; pend := []; fired := []; taken := [] |}.

Inductive tlabel :=
  | TFire (b gen : Z)                                 (* an idle timer armed with [gen] expires *)
  | TDeliver (i : nat) (picks : list Z) (pcs : list bool)  (* the dispatcher receives the i-th pending wake *)
  | TOther (l : clabel).                              (* any other step of the closed loop *)

Fixpoint remove_nth {A} (i : nat) (l : list A) : list A :=
  match l, i with
  | [], _ => []
  | _ :: t, O => t
  | x :: t, S k => x :: remove_nth k t
  end.

Definition running (t : tst) : bool :=
  negb (stopped (disp (base t))) && negb (crashed (disp (base t))).

Definition tstep (t : tst) (l : tlabel) : tst :=
  match l with
  | TFire b g =>
    if running t
    then {| base := base t; pend := pend t ++ [(b, g)]; fired := fired t ++ [(b, g)]; taken := taken t |}
    else t                                            (* the callback leaves through <-quit *)
  | TDeliver i picks pcs =>
    match nth_error (pend t) i with
    | Some (b, g) =>
      if running t
      then {| base := cstep (base t) {| lev := CWake b g; lpicks := picks; lpcs := pcs |};
              pend := remove_nth i (pend t); fired := fired t; taken := taken t ++ [(b, g)] |}
      else t
    | None => t
    end
  | TOther l =>
    match lev l with
    | CWake _ _ => t
    | CQuit =>
      if running t
      then {| base := cstep (base t) l; pend := []; fired := fired t; taken := taken t |}
      else t
    | _ => {| base := cstep (base t) l; pend := pend t; fired := fired t; taken := taken t |}
    end
  end.

Definition trun (ls : list tlabel) : tst := fold_left tstep ls tinit.
