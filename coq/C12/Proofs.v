(* C12 — lemmas. *)
From Coq Require Import ZArith List Bool Lia ZifyBool.
From Verif Require Import C12.Model C12.Spec.
Import ListNotations.
Open Scope Z_scope.

(* ------------------------------------------------------------ generic *)
Lemma run_from_cons : forall s ep rest,
  run_from s (ep :: rest) =
  (fst (run_from (fst (step s ep)) rest),
   (fst ep, snd (step s ep)) :: snd (run_from (fst (step s ep)) rest)).
Proof.
  intros s ep rest. cbn [run_from]. destruct (step s ep) as [s1 o]. cbn [fst snd].
  destruct (run_from s1 rest) as [s2 tr]. reflexivity.
Qed.

Lemma mem_true_iff : forall x l, mem x l = true <-> In x l.
Proof.
  intros x l. unfold mem. rewrite existsb_exists. split.
  - intros [y [Hin Heq]]. apply Z.eqb_eq in Heq. subst. exact Hin.
  - intros Hin. exists x. split; [exact Hin | apply Z.eqb_refl].
Qed.

Lemma mem_false_iff : forall x l, mem x l = false <-> ~ In x l.
Proof.
  intros x l. rewrite <- mem_true_iff. destruct (mem x l); split; intro H.
  - discriminate.
  - exfalso. apply H. reflexivity.
  - intro H'. discriminate.
  - reflexivity.
Qed.

Lemma In_remove_z : forall x y l, In x (remove_z y l) <-> In x l /\ x <> y.
Proof.
  intros x y l. unfold remove_z. rewrite filter_In. split.
  - intros [Hin Hne]. split; [exact Hin | lia].
  - intros [Hin Hne]. split; [exact Hin | lia].
Qed.

Lemma nodupb_NoDup : forall l, nodupb l = true <-> NoDup l.
Proof.
  induction l as [|x t IH]; cbn [nodupb].
  - split; [constructor | reflexivity].
  - rewrite andb_true_iff, negb_true_iff, mem_false_iff, IH. split.
    + intros [Hn Hd]. constructor; assumption.
    + intros Hd. inversion Hd; subst. split; assumption.
Qed.

Lemma NoDup_remove_z : forall y l, NoDup l -> NoDup (remove_z y l).
Proof. intros y l H. unfold remove_z. apply NoDup_filter. exact H. Qed.

(* association lists *)
Lemma z_get_In : forall {V} (m : list (Z * V)) k v, z_get m k = Some v -> In k (map fst m).
Proof.
  intros V m k v H. unfold z_get in H.
  destruct (find (fun p => fst p =? k) m) as [p|] eqn:Hf; [|discriminate].
  apply find_some in Hf. destruct Hf as [Hin Heq]. apply Z.eqb_eq in Heq. subst k.
  apply in_map. exact Hin.
Qed.

Lemma z_get_None : forall {V} (m : list (Z * V)) k, z_get m k = None -> ~ In k (map fst m).
Proof.
  intros V m k H Hin. unfold z_get in H.
  destruct (find (fun p => fst p =? k) m) as [p|] eqn:Hf; [discriminate|].
  apply in_map_iff in Hin. destruct Hin as [x [Hx Hin]].
  apply (find_none _ _ Hf) in Hin. lia.
Qed.

Lemma keys_z_del : forall {V} (m : list (Z * V)) k, map fst (z_del m k) = remove_z k (map fst m).
Proof.
  intros V m k. unfold z_del, remove_z. induction m as [|x t IH]; cbn [filter map]; [reflexivity|].
  destruct (negb (fst x =? k)); cbn [map]; rewrite IH; reflexivity.
Qed.

Lemma keys_z_upd : forall {V} (m : list (Z * V)) k v, map fst (z_upd m k v) = map fst m.
Proof.
  intros V m k v. unfold z_upd. rewrite map_map. apply map_ext_in.
  intros a _. destruct (fst a =? k) eqn:E; cbn [fst]; lia.
Qed.

(* ------------------------------------- what one select arm does to batches *)
Definition bkeys (s : st) : list Z := map fst (batches s).

(* the state components the verdict monitor mirrors *)
Definition vsame (s s1 : st) : Prop :=
  batchIndex s1 = batchIndex s /\ stopped s1 = stopped s.

Lemma handle_newbatch : forall s n nr rt pt s1 vs mx,
  handle s (NewBatch n nr rt pt) = (s1, vs, mx) ->
  vs = [] /\ mx = [] /\ bkeys s1 = batchIndex s :: bkeys s /\
  batchIndex s1 = batchIndex s + 1 /\ stopped s1 = stopped s /\ crashed s1 = crashed s.
Proof.
  intros s n nr rt pt s1 vs mx H. cbn [handle] in H. inversion H; subst; clear H.
  repeat split; reflexivity.
Qed.

Definition one_verdict (s s1 : st) (vs : list (Z * verdict)) (ok : Z -> verdict -> Prop) : Prop :=
  (vs = [] /\ bkeys s1 = bkeys s) \/
  (exists b vd, vs = [(b, vd)] /\ In b (bkeys s) /\ ok b vd /\ bkeys s1 = remove_z b (bkeys s)).

Lemma finish_keys : forall s bn, bkeys (finish s bn) = remove_z bn (bkeys s).
Proof. intros. unfold bkeys, finish. cbn [batches set_batches]. apply keys_z_del. Qed.

Lemma bkeys_set_rank : forall s x, bkeys (set_rank s x) = bkeys s. Proof. reflexivity. Qed.
Lemma bkeys_set_jobs : forall s x, bkeys (set_jobs s x) = bkeys s. Proof. reflexivity. Qed.
Lemma bkeys_set_work : forall s x, bkeys (set_work s x) = bkeys s. Proof. reflexivity. Qed.
Lemma bkeys_set_queries : forall s x, bkeys (set_queries s x) = bkeys s. Proof. reflexivity. Qed.
Lemma bkeys_set_workers : forall s x, bkeys (set_workers s x) = bkeys s. Proof. reflexivity. Qed.
Lemma bkeys_set_envbad : forall s x, bkeys (set_envbad s x) = bkeys s. Proof. reflexivity. Qed.
Lemma bkeys_set_batches_upd : forall s k v, bkeys (set_batches s (z_upd (batches s) k v)) = bkeys s.
Proof. intros. unfold bkeys. cbn [set_batches batches]. apply keys_z_upd. Qed.
Ltac bk := repeat (rewrite ?finish_keys, ?bkeys_set_rank, ?bkeys_set_jobs, ?bkeys_set_work,
                   ?bkeys_set_queries, ?bkeys_set_workers, ?bkeys_set_envbad).

Ltac break_match H :=
  match type of H with
  | context [match ?x with _ => _ end] => destruct x eqn:?
  end.

Lemma handle_result : forall s j p e s1 vs mx,
  handle s (Result j p e) = (s1, vs, mx) ->
  vsame s s1 /\
  (crashed s1 = false ->
   one_verdict s s1 vs (fun _ vd => verdict_allowed e vd = true)).
Proof.
  intros s j p e s1 vs mx H. cbn [handle] in H.
  destruct (find_worker s p) as [w|] eqn:Hw.
  2:{ inversion H; subst. split; [split; reflexivity|]. cbn. discriminate. }
  match type of H with (if ?c then _ else _) = _ => destruct c eqn:Hc end.
  { inversion H; subst. split; [split; reflexivity|]. cbn. discriminate. }
  cbv zeta in H.
  match type of H with
  | context [z_get (batches ?s2) ?bn] =>
    remember s2 as s2' eqn:Hs2; remember bn as bn' eqn:Hbn
  end.
  assert (Hk2 : bkeys s2' = bkeys s) by (subst s2'; reflexivity).
  assert (Hv2 : vsame s s2') by (subst s2'; split; reflexivity).
  destruct (z_get (batches s2') bn') as [b|] eqn:Hb.
  2:{ inversion H; subst s1 vs mx. split; [exact Hv2|]. intros _. left. split; [reflexivity | exact Hk2]. }
  assert (Hin : In bn' (bkeys s)).
  { rewrite <- Hk2. unfold bkeys. eapply z_get_In. exact Hb. }
  destruct e;
    repeat break_match H; inversion H; subst s1 vs mx;
    (split; [destruct Hv2; split; assumption|]); intros _;
    first
      [ left; split; [reflexivity|];
        first [ rewrite <- Hk2; bk; reflexivity
              | rewrite <- Hk2; cbn [set_rank]; unfold bkeys; cbn [set_batches batches]; rewrite keys_z_upd; reflexivity ]
      | right; eexists bn', _; split; [reflexivity|]; split; [exact Hin|]; split; [reflexivity|];
        bk; rewrite Hk2; reflexivity ].
Qed.

Lemma handle_wake : forall s b g s1 vs mx,
  handle s (ProgressWake b g) = (s1, vs, mx) ->
  vsame s s1 /\ crashed s1 = crashed s /\
  ((vs = [] /\ bkeys s1 = bkeys s) \/
   (vs = [(b, VTimeout)] /\ In b (bkeys s) /\ bkeys s1 = remove_z b (bkeys s))).
Proof.
  intros s b g s1 vs mx H. cbn [handle] in H.
  destruct (z_get (batches s) b) as [bt|] eqn:Hb.
  - assert (Hin : In b (bkeys s)) by (eapply z_get_In; exact Hb).
    destruct (g =? progGen bt); inversion H; subst s1 vs mx.
    + split; [split; reflexivity|]. split; [reflexivity|]. right.
      split; [reflexivity|]. split; [exact Hin|]. apply finish_keys.
    + split; [split; reflexivity|]. split; [reflexivity|]. left. split; reflexivity.
  - inversion H; subst. split; [split; reflexivity|]. split; [reflexivity|]. left. split; reflexivity.
Qed.

Lemma handle_quiet : forall s e s1 vs mx,
  handle s e = (s1, vs, mx) ->
  match e with
  | PeerConnected _ | WorkerExit _ | HardTimer _ | Cancel _ | Quit => True
  | _ => False
  end ->
  vs = [] /\ mx = [] /\ bkeys s1 = bkeys s /\ vsame s s1 /\ crashed s1 = crashed s.
Proof.
  intros s e s1 vs mx H He. destruct e; try contradiction; cbn [handle] in H.
  - inversion H; subst. repeat split; reflexivity.
  - inversion H; subst. repeat split; reflexivity.
  - destruct (z_get (batches s) b) as [bt|]; inversion H; subst.
    + repeat split; try reflexivity. apply bkeys_set_batches_upd.
    + repeat split; reflexivity.
  - inversion H; subst. repeat split; reflexivity.
  - inversion H; subst. repeat split; reflexivity.
Qed.

(* the distribution phase touches the heap and the workers only *)
Lemma dispatch_phase_frame : forall fuel s picks acc s' ds,
  dispatch_phase fuel s picks acc = (s', ds) ->
  batches s' = batches s /\ batchIndex s' = batchIndex s /\ stopped s' = stopped s /\
  crashed s' = crashed s /\ rank s' = rank s /\ jobs s' = jobs s /\ queries s' = queries s /\
  envbad s' = envbad s /\ queryIndex s' = queryIndex s.
Proof.
  induction fuel as [|f IH]; intros s picks acc s' ds H; cbn [dispatch_phase] in H.
  - inversion H; subst. repeat split; reflexivity.
  - destruct (work s) as [|j rest].
    + inversion H; subst. repeat split; reflexivity.
    + destruct (choose s picks) as [[p picks']|].
      * apply IH in H. cbn in H. exact H.
      * inversion H; subst. repeat split; reflexivity.
Qed.

(* ------------------------------------------------ the verdict monitor *)
Record VI (s : st) (v : vst) : Prop := {
  vi_live : vlive v = bkeys s;
  vi_next : vnext v = batchIndex s;
  vi_stop : vstop v = stopped s;
  vi_nodup : NoDup (vlive v);
  vi_bound : forall b, In b (vlive v) -> 0 <= b < vnext v;
  vi_nonneg : 0 <= vnext v
}.

Lemma VI_init : VI init vinit.
Proof.
  constructor; cbn.
  - reflexivity.
  - reflexivity.
  - reflexivity.
  - constructor.
  - intros b [].
  - lia.
Qed.

Lemma VI_remove : forall s v s1 b,
  VI s v -> vsame s s1 -> bkeys s1 = remove_z b (bkeys s) ->
  VI s1 {| vlive := remove_z b (vlive v); vnext := vnext v; vstop := stopped s |}.
Proof.
  intros s v s1 b [Hl Hn Hs Hd Hb Hnn] [Hbi Hst] Hk. constructor; cbn [vlive vnext vstop].
  - rewrite Hk, Hl. reflexivity.
  - congruence.
  - congruence.
  - apply NoDup_remove_z. exact Hd.
  - intros x Hx. apply In_remove_z in Hx. apply Hb. tauto.
  - exact Hnn.
Qed.

Lemma VI_same : forall s v s1,
  VI s v -> vsame s s1 -> bkeys s1 = bkeys s -> VI s1 v.
Proof.
  intros s v s1 [Hl Hn Hs Hd Hb Hnn] [Hbi Hst] Hk. constructor; try assumption; congruence.
Qed.

Lemma forallb_mem_self : forall l, forallb (fun b => mem b l) l = true.
Proof. intros l. apply forallb_forall. intros x Hx. apply mem_true_iff. exact Hx. Qed.

Lemma vstep_sim : forall s v ep,
  crashed (fst (step s ep)) = false -> VI s v ->
  exists v', vstep v (fst ep, snd (step s ep)) = Some v' /\ VI (fst (step s ep)) v'.
Proof.
  intros s v [e picks] Hnc HI. cbn [fst].
  assert (Hl := vi_live _ _ HI). assert (Hn := vi_next _ _ HI). assert (Hs := vi_stop _ _ HI).
  unfold step in *.
  destruct (crashed s) eqn:Hc. { cbn [fst] in Hnc. congruence. }
  destruct (stopped s) eqn:Hst.
  { (* after Quit *)
    unfold vstep. rewrite Hs.
    destruct e; cbn [fst snd mk_obs overd];
      try (eexists; split; [reflexivity | exact HI]).
    rewrite Hn, Z.eqb_refl. eexists. split; [reflexivity|].
    destruct HI as [Hl' Hn' Hs' Hd Hb Hnn]. constructor; cbn [vlive vnext vstop set_batchIndex batchIndex stopped bkeys batches];
      try assumption; try lia; try congruence.
    intros b Hb'. apply Hb in Hb'. lia. }
  destruct e.
  - (* NewBatch *)
    destruct (handle s (NewBatch n noRetry retries progTimeout)) as [[s1 vs] mx] eqn:Hh.
    destruct (handle_newbatch _ _ _ _ _ _ _ _ Hh) as (Hvs & Hmx & Hk & Hbi & Hsp & Hcr). subst vs mx.
    assert (Hc1 : crashed s1 = false) by congruence. rewrite Hc1 in *.
    destruct (dispatch_phase (length (work s1)) s1 picks []) as [s2 ds] eqn:Hd.
    destruct (dispatch_phase_frame _ _ _ _ _ _ Hd) as (Fb & Fbi & Fst & Fcr & _).
    cbn [fst snd]. unfold vstep. rewrite Hs. cbn [mk_obs overd is_nil].
    eexists. split; [reflexivity|].
    destruct HI as [Hl' Hn' Hs' Hdup Hb Hnn]. constructor; cbn [vlive vnext vstop].
    + unfold bkeys. rewrite Fb. fold (bkeys s1). rewrite Hk, Hn', Hl'. reflexivity.
    + rewrite Fbi, Hbi, Hn'. reflexivity.
    + congruence.
    + constructor; [|exact Hdup]. intros Hin. apply Hb in Hin. lia.
    + intros b [Hb'|Hb']; [subst; lia | apply Hb in Hb'; lia].
    + lia.
  - (* PeerConnected *)
    destruct (handle s (PeerConnected p)) as [[s1 vs] mx] eqn:Hh.
    destruct (handle_quiet _ _ _ _ _ Hh I) as (Hvs & Hmx & Hk & Hv & Hcr). subst vs mx.
    assert (Hc1 : crashed s1 = false) by congruence. rewrite Hc1 in *.
    destruct (dispatch_phase (length (work s1)) s1 picks []) as [s2 ds] eqn:Hd.
    destruct (dispatch_phase_frame _ _ _ _ _ _ Hd) as (Fb & Fbi & Fst & Fcr & _).
    cbn [fst snd]. unfold vstep. rewrite Hs. cbn [mk_obs overd is_nil].
    eexists. split; [reflexivity|].
    apply (VI_same s v s2 HI); [destruct Hv; split; congruence | unfold bkeys in *; congruence].
  - (* WorkerExit *)
    destruct (handle s (WorkerExit p)) as [[s1 vs] mx] eqn:Hh.
    destruct (handle_quiet _ _ _ _ _ Hh I) as (Hvs & Hmx & Hk & Hv & Hcr). subst vs mx.
    assert (Hc1 : crashed s1 = false) by congruence. rewrite Hc1 in *.
    destruct (dispatch_phase (length (work s1)) s1 picks []) as [s2 ds] eqn:Hd.
    destruct (dispatch_phase_frame _ _ _ _ _ _ Hd) as (Fb & Fbi & Fst & Fcr & _).
    cbn [fst snd]. unfold vstep. rewrite Hs. cbn [mk_obs overd is_nil].
    eexists. split; [reflexivity|].
    apply (VI_same s v s2 HI); [destruct Hv; split; congruence | unfold bkeys in *; congruence].
  - (* Result *)
    destruct (handle s (Result j p e)) as [[s1 vs] mx] eqn:Hh.
    destruct (handle_result _ _ _ _ _ _ _ Hh) as (Hv & Hone).
    destruct (crashed s1) eqn:Hc1. { cbn [fst] in Hnc. congruence. }
    specialize (Hone eq_refl).
    destruct (dispatch_phase (length (work s1)) s1 picks []) as [s2 ds] eqn:Hd.
    destruct (dispatch_phase_frame _ _ _ _ _ _ Hd) as (Fb & Fbi & Fst & Fcr & _).
    cbn [fst snd]. unfold vstep. rewrite Hs. cbn [mk_obs overd].
    assert (Hv2 : vsame s s2) by (destruct Hv; split; congruence).
    assert (Hk2 : bkeys s2 = bkeys s1) by (unfold bkeys; congruence).
    destruct Hone as [[Hvs Hk] | (b & vd & Hvs & Hin & Hok & Hk)]; subst vs.
    + eexists. split; [reflexivity|]. apply (VI_same s v s2 HI Hv2). congruence.
    + assert (Hin' : mem b (vlive v) = true) by (rewrite Hl; apply mem_true_iff; exact Hin).
      rewrite Hin', Hok. cbn [andb].
      eexists. split; [reflexivity|]. rewrite <- Hst.
      apply (VI_remove s v s2 b HI Hv2). congruence.
  - (* HardTimer *)
    destruct (handle s (HardTimer b)) as [[s1 vs] mx] eqn:Hh.
    destruct (handle_quiet _ _ _ _ _ Hh I) as (Hvs & Hmx & Hk & Hv & Hcr). subst vs mx.
    assert (Hc1 : crashed s1 = false) by congruence. rewrite Hc1 in *.
    destruct (dispatch_phase (length (work s1)) s1 picks []) as [s2 ds] eqn:Hd.
    destruct (dispatch_phase_frame _ _ _ _ _ _ Hd) as (Fb & Fbi & Fst & Fcr & _).
    cbn [fst snd]. unfold vstep. rewrite Hs. cbn [mk_obs overd is_nil].
    eexists. split; [reflexivity|].
    apply (VI_same s v s2 HI); [destruct Hv; split; congruence | unfold bkeys in *; congruence].
  - (* ProgressWake *)
    destruct (handle s (ProgressWake b gen)) as [[s1 vs] mx] eqn:Hh.
    destruct (handle_wake _ _ _ _ _ _ Hh) as (Hv & Hcr & Hone).
    assert (Hc1 : crashed s1 = false) by congruence. rewrite Hc1 in *.
    destruct (dispatch_phase (length (work s1)) s1 picks []) as [s2 ds] eqn:Hd.
    destruct (dispatch_phase_frame _ _ _ _ _ _ Hd) as (Fb & Fbi & Fst & Fcr & _).
    cbn [fst snd]. unfold vstep. rewrite Hs. cbn [mk_obs overd].
    assert (Hv2 : vsame s s2) by (destruct Hv; split; congruence).
    assert (Hk2 : bkeys s2 = bkeys s1) by (unfold bkeys; congruence).
    destruct Hone as [[Hvs Hk] | (Hvs & Hin & Hk)]; subst vs.
    + eexists. split; [reflexivity|]. apply (VI_same s v s2 HI Hv2). congruence.
    + assert (Hin' : mem b (vlive v) = true) by (rewrite Hl; apply mem_true_iff; exact Hin).
      rewrite Z.eqb_refl, Hin'. cbn [andb].
      eexists. split; [reflexivity|]. rewrite <- Hst.
      apply (VI_remove s v s2 b HI Hv2). congruence.
  - (* Cancel *)
    destruct (handle s (Cancel b)) as [[s1 vs] mx] eqn:Hh.
    destruct (handle_quiet _ _ _ _ _ Hh I) as (Hvs & Hmx & Hk & Hv & Hcr). subst vs mx.
    assert (Hc1 : crashed s1 = false) by congruence. rewrite Hc1 in *.
    destruct (dispatch_phase (length (work s1)) s1 picks []) as [s2 ds] eqn:Hd.
    destruct (dispatch_phase_frame _ _ _ _ _ _ Hd) as (Fb & Fbi & Fst & Fcr & _).
    cbn [fst snd]. unfold vstep. rewrite Hs. cbn [mk_obs overd is_nil].
    eexists. split; [reflexivity|].
    apply (VI_same s v s2 HI); [destruct Hv; split; congruence | unfold bkeys in *; congruence].
  - (* Quit *)
    cbn [fst snd]. unfold vstep. rewrite Hs. cbn [mk_obs overd].
    assert (Em : map fst (map (fun p : Z * batch => (fst p, VShutdown)) (batches s)) = vlive v).
    { rewrite map_map, Hl. unfold bkeys. apply map_ext. reflexivity. }
    rewrite Em.
    assert (E1 : forallb (fun p : Z * verdict => verdict_eqb (snd p) VShutdown)
                   (map (fun p : Z * batch => (fst p, VShutdown)) (batches s)) = true).
    { apply forallb_forall. intros x Hx. apply in_map_iff in Hx. destruct Hx as [y [Hy _]]. subst x. reflexivity. }
    rewrite E1.
    assert (E2 : nodupb (vlive v) = true) by (apply nodupb_NoDup; exact (vi_nodup _ _ HI)).
    rewrite E2, forallb_mem_self. cbn [andb].
    eexists. split; [reflexivity|].
    destruct HI as [Hl' Hn' Hs' Hdup Hb Hnn]. constructor; cbn [vlive vnext vstop]; try reflexivity; try assumption.
    + constructor.
    + intros b [].
Qed.

(* ------------------------------------------------ runs and simulations *)
Lemma crashed_sticky_step : forall s ep, crashed s = true -> crashed (fst (step s ep)) = true.
Proof. intros s [e picks] H. unfold step. rewrite H. exact H. Qed.

Lemma crashed_sticky_run : forall inp s, crashed s = true -> crashed (fst (run_from s inp)) = true.
Proof.
  induction inp as [|ep rest IH]; intros s H; [exact H|].
  rewrite run_from_cons. cbn [fst]. apply IH. apply crashed_sticky_step. exact H.
Qed.

Lemma not_crashed_head : forall s ep rest,
  crashed (fst (run_from s (ep :: rest))) = false -> crashed (fst (step s ep)) = false.
Proof.
  intros s ep rest H. rewrite run_from_cons in H. cbn [fst] in H.
  destruct (crashed (fst (step s ep))) eqn:E; [|reflexivity].
  rewrite (crashed_sticky_run rest _ E) in H. discriminate.
Qed.

Lemma sim_run : forall {M} (mstep : M -> ev * obs -> option M) (Inv : st -> M -> Prop),
  (forall s m ep, crashed (fst (step s ep)) = false -> Inv s m ->
     exists m', mstep m (fst ep, snd (step s ep)) = Some m' /\ Inv (fst (step s ep)) m') ->
  forall inp s m, Inv s m -> crashed (fst (run_from s inp)) = false ->
  exists m', mon_run mstep m (snd (run_from s inp)) = Some m' /\ Inv (fst (run_from s inp)) m'.
Proof.
  intros M mstep Inv Hstep. induction inp as [|ep rest IH]; intros s m HI Hnc.
  - exists m. split; [reflexivity | exact HI].
  - assert (Hh := not_crashed_head _ _ _ Hnc).
    destruct (Hstep s m ep Hh HI) as [m1 [Hm1 HI1]].
    rewrite run_from_cons in *. cbn [fst snd] in *. cbn [mon_run]. rewrite Hm1.
    apply IH; assumption.
Qed.

Lemma vholds_model : forall inp, crashed (final inp) = false -> vholds (trace inp) = true.
Proof.
  intros inp H. unfold vholds, trace, final, run in *.
  destruct (sim_run vstep VI vstep_sim inp init vinit VI_init H) as [v' [Hr _]].
  rewrite Hr. reflexivity.
Qed.

(* ------------------------- what acceptance by the verdict monitor means *)
Definition verdicts_of (tr : list (ev * obs)) : list (Z * verdict) := flat_map (fun eo => overd (snd eo)) tr.
Definition cnt (b : Z) (vs : list (Z * verdict)) : nat := length (filter (fun p => fst p =? b) vs).

Lemma count_verdicts_cnt : forall b tr, count_verdicts b tr = cnt b (verdicts_of tr).
Proof. reflexivity. Qed.

Lemma cnt_app : forall b x y, cnt b (x ++ y) = (cnt b x + cnt b y)%nat.
Proof. intros. unfold cnt. rewrite filter_app, app_length. reflexivity. Qed.

Lemma verdicts_of_app : forall x y, verdicts_of (x ++ y) = verdicts_of x ++ verdicts_of y.
Proof. intros. unfold verdicts_of. apply flat_map_app. Qed.

(* every batch number below [vnext] is either live with no verdict so far,
   or finished with exactly one; numbers not yet given out have none *)
Record VJ (v : vst) (c : Z -> nat) : Prop := {
  vj_nodup : NoDup (vlive v);
  vj_bound : forall b, In b (vlive v) -> 0 <= b < vnext v;
  vj_nonneg : 0 <= vnext v;
  vj_live : forall b, In b (vlive v) -> c b = 0%nat;
  vj_done : forall b, 0 <= b < vnext v -> ~ In b (vlive v) -> c b = 1%nat;
  vj_none : forall b, ~ (0 <= b < vnext v) -> c b = 0%nat;
  vj_stop : vstop v = true -> vlive v = []
}.

Lemma cnt_nil : forall b, cnt b [] = 0%nat. Proof. reflexivity. Qed.
Lemma cnt_one : forall b b' vd, cnt b [(b', vd)] = if b' =? b then 1%nat else 0%nat.
Proof. intros. unfold cnt. cbn [filter fst]. destruct (b' =? b); reflexivity. Qed.

Lemma cnt_nodup_keys : forall b vs,
  NoDup (map fst vs) -> cnt b vs = if mem b (map fst vs) then 1%nat else 0%nat.
Proof.
  induction vs as [|x t IH]; intros Hd; [reflexivity|].
  cbn [map] in Hd. inversion Hd as [|? ? Hn Hd']; subst.
  unfold cnt in *. cbn [filter map].
  change (mem b (fst x :: map fst t)) with ((b =? fst x) || mem b (map fst t)).
  destruct (fst x =? b) eqn:E.
  - cbn [length]. rewrite (IH Hd'). apply Z.eqb_eq in E. subst b.
    rewrite Z.eqb_refl. cbn [orb].
    apply mem_false_iff in Hn. rewrite Hn. reflexivity.
  - rewrite (IH Hd'). replace (b =? fst x) with false by lia. reflexivity.
Qed.

Lemma vstep_VJ : forall v eo v' c,
  vstep v eo = Some v' -> VJ v c -> VJ v' (fun b => (c b + cnt b (overd (snd eo)))%nat).
Proof.
  intros v [e o] v' c Hs [Hd Hb Hnn Hl Hdn Hno Hsp]. cbn [snd]. unfold vstep in Hs.
  destruct (vstop v) eqn:Hst.
  - (* stopped *)
    specialize (Hsp eq_refl).
    assert (Hquiet : overd o = [] -> v' = v -> VJ v' (fun b => (c b + cnt b (overd o))%nat)).
    { intros E1 E2. subst v'. rewrite E1. constructor; try assumption.
      - intros b H. rewrite cnt_nil, Nat.add_0_r. auto.
      - intros b H1 H2. rewrite cnt_nil, Nat.add_0_r. auto.
      - intros b H. rewrite cnt_nil, Nat.add_0_r. auto.
      - intros _. exact Hsp. }
    destruct e; destruct (overd o) as [|[b0 vd0] [|? ?]] eqn:Ho; simpl in Hs; try discriminate;
      try (inversion Hs; subst v'; apply Hquiet; reflexivity);
      try (destruct vd0; discriminate).
    destruct vd0; try discriminate. destruct (b0 =? vnext v) eqn:Eb; [|discriminate].
    apply Z.eqb_eq in Eb. subst b0. inversion Hs; subst v'; clear Hs.
    constructor; cbn [vlive vnext vstop].
    + exact Hd.
    + intros b H. apply Hb in H. lia.
    + lia.
    + intros b H. rewrite Hsp in H. destruct H.
    + intros b H1 H2. rewrite cnt_one. destruct (vnext v =? b) eqn:E.
      * apply Z.eqb_eq in E. subst b. rewrite Hno; [reflexivity | lia].
      * rewrite Nat.add_0_r. apply Hdn; [lia | exact H2].
    + intros b H. rewrite cnt_one. replace (vnext v =? b) with false by lia.
      rewrite Nat.add_0_r. apply Hno. lia.
    + intros _. exact Hsp.
  - (* running *)
    assert (Hquiet : overd o = [] -> v' = v -> VJ v' (fun b => (c b + cnt b (overd o))%nat)).
    { intros E1 E2. subst v'. rewrite E1. constructor; try assumption.
      - intros b H. rewrite cnt_nil, Nat.add_0_r. auto.
      - intros b H1 H2. rewrite cnt_nil, Nat.add_0_r. auto.
      - intros b H. rewrite cnt_nil, Nat.add_0_r. auto.
      - intros E. congruence. }
    assert (Hrem : forall b vd, overd o = [(b, vd)] -> In b (vlive v) ->
              v' = {| vlive := remove_z b (vlive v); vnext := vnext v; vstop := false |} ->
              VJ v' (fun b' => (c b' + cnt b' (overd o))%nat)).
    { intros b vd E1 Hin E2. subst v'. rewrite E1. constructor; cbn [vlive vnext vstop].
      - apply NoDup_remove_z. exact Hd.
      - intros x Hx. apply In_remove_z in Hx. apply Hb. tauto.
      - exact Hnn.
      - intros x Hx. apply In_remove_z in Hx. destruct Hx as [Hx Hne].
        rewrite cnt_one. replace (b =? x) with false by lia. rewrite Nat.add_0_r. auto.
      - intros x H1 H2. rewrite cnt_one. destruct (b =? x) eqn:E.
        + apply Z.eqb_eq in E. subst x. rewrite (Hl b Hin). reflexivity.
        + rewrite Nat.add_0_r. apply Hdn; [exact H1|]. intros Hx. apply H2. apply In_remove_z. split; [exact Hx | lia].
      - intros x H. rewrite cnt_one. destruct (b =? x) eqn:E.
        + apply Z.eqb_eq in E. subst x. apply Hb in Hin. contradiction.
        + rewrite Nat.add_0_r. auto.
      - discriminate. }
    destruct e.
    + (* NewBatch *)
      destruct (overd o) eqn:Ho; cbn [is_nil] in Hs; [|discriminate].
      inversion Hs; subst v'; clear Hs. constructor; cbn [vlive vnext vstop].
      * constructor; [|exact Hd]. intros H. apply Hb in H. lia.
      * intros b [H|H]; [subst; lia | apply Hb in H; lia].
      * lia.
      * intros b [H|H]; rewrite cnt_nil, Nat.add_0_r; [subst b; apply Hno; lia | auto].
      * intros b H1 H2. rewrite cnt_nil, Nat.add_0_r. apply Hdn; [|intros H; apply H2; right; exact H].
        assert (b <> vnext v) by (intros E; apply H2; left; symmetry; exact E). lia.
      * intros b H. rewrite cnt_nil, Nat.add_0_r. apply Hno. lia.
      * discriminate.
    + destruct (overd o) eqn:Ho; cbn [is_nil] in Hs; [|discriminate]. inversion Hs. apply Hquiet; [reflexivity | congruence].
    + destruct (overd o) eqn:Ho; cbn [is_nil] in Hs; [|discriminate]. inversion Hs. apply Hquiet; [reflexivity | congruence].
    + (* Result *)
      destruct (overd o) as [|[b vd] [|? ?]] eqn:Ho; try discriminate.
      * inversion Hs. apply Hquiet; [reflexivity | congruence].
      * destruct (mem b (vlive v)) eqn:Hm; cbn [andb] in Hs; [|discriminate].
        destruct (verdict_allowed e vd); [|discriminate]. inversion Hs; subst v'.
        eapply Hrem; [reflexivity | apply mem_true_iff; exact Hm | reflexivity].
    + destruct (overd o) eqn:Ho; cbn [is_nil] in Hs; [|discriminate]. inversion Hs. apply Hquiet; [reflexivity | congruence].
    + (* ProgressWake *)
      destruct (overd o) as [|[b' vd] [|? ?]] eqn:Ho; try discriminate.
      * inversion Hs. apply Hquiet; [reflexivity | congruence].
      * destruct vd; try discriminate.
        destruct (b' =? b) eqn:Eb; cbn [andb] in Hs; [|discriminate].
        apply Z.eqb_eq in Eb. subst b'.
        destruct (mem b (vlive v)) eqn:Hm; [|discriminate]. inversion Hs; subst v'.
        eapply Hrem; [reflexivity | apply mem_true_iff; exact Hm | reflexivity].
      * destruct vd; discriminate.
    + destruct (overd o) eqn:Ho; cbn [is_nil] in Hs; [|discriminate]. inversion Hs. apply Hquiet; [reflexivity | congruence].
    + (* Quit *)
      destruct (forallb (fun p => verdict_eqb (snd p) VShutdown) (overd o)) eqn:E1; cbn [andb] in Hs; [|discriminate].
      destruct (nodupb (map fst (overd o))) eqn:E2; cbn [andb] in Hs; [|discriminate].
      destruct (forallb (fun b => mem b (vlive v)) (map fst (overd o))) eqn:E3; cbn [andb] in Hs; [|discriminate].
      destruct (forallb (fun b => mem b (map fst (overd o))) (vlive v)) eqn:E4; [|discriminate].
      inversion Hs; subst v'; clear Hs.
      apply nodupb_NoDup in E2. rewrite forallb_forall in E3, E4.
      assert (Hc : forall b, cnt b (overd o) = if mem b (vlive v) then 1%nat else 0%nat).
      { intros b. rewrite (cnt_nodup_keys b _ E2).
        destruct (mem b (map fst (overd o))) eqn:M1; destruct (mem b (vlive v)) eqn:M2; try reflexivity.
        - apply mem_true_iff in M1. apply E3 in M1. congruence.
        - apply mem_true_iff in M2. apply E4 in M2. congruence. }
      constructor; cbn [vlive vnext vstop].
      * constructor.
      * intros b [].
      * exact Hnn.
      * intros b [].
      * intros b H1 _. rewrite Hc. destruct (mem b (vlive v)) eqn:M.
        -- apply mem_true_iff in M. rewrite (Hl b M). reflexivity.
        -- apply mem_false_iff in M. rewrite (Hdn b H1 M). reflexivity.
      * intros b H. rewrite Hc. destruct (mem b (vlive v)) eqn:M.
        -- apply mem_true_iff in M. apply Hb in M. contradiction.
        -- rewrite Nat.add_0_r. auto.
      * reflexivity.
Qed.

Lemma vrun_VJ : forall tr v v' pre,
  mon_run vstep v tr = Some v' -> VJ v (fun b => cnt b (verdicts_of pre)) ->
  VJ v' (fun b => cnt b (verdicts_of (pre ++ tr))).
Proof.
  induction tr as [|eo rest IH]; intros v v' pre Hr HJ.
  - inversion Hr; subst. rewrite app_nil_r. exact HJ.
  - cbn [mon_run] in Hr. destruct (vstep v eo) as [v1|] eqn:Hs; [|discriminate].
    replace (pre ++ eo :: rest) with ((pre ++ [eo]) ++ rest) by (rewrite <- app_assoc; reflexivity).
    apply (IH v1 v' (pre ++ [eo]) Hr).
    assert (HJ1 := vstep_VJ _ _ _ _ Hs HJ).
    destruct HJ1 as [A1 A2 A3 A4 A5 A6 A7].
    assert (E : forall b, cnt b (verdicts_of (pre ++ [eo])) = (cnt b (verdicts_of pre) + cnt b (overd (snd eo)))%nat).
    { intros b. rewrite verdicts_of_app, cnt_app. f_equal. unfold verdicts_of. cbn [flat_map]. rewrite app_nil_r. reflexivity. }
    constructor; try assumption; intros; rewrite E; auto.
Qed.

Lemma VJ_init : VJ vinit (fun b => cnt b (verdicts_of [])).
Proof.
  constructor; cbn.
  - constructor.
  - intros b [].
  - lia.
  - intros b [].
  - intros b H. lia.
  - reflexivity.
  - reflexivity.
Qed.

(* The verdict monitor accepts a trace only if every batch has no verdict
   while live and exactly one once finished. *)
Lemma vholds_exactly_one : forall tr v,
  mon_run vstep vinit tr = Some v ->
  forall b,
    (In b (vlive v) -> count_verdicts b tr = 0%nat) /\
    (0 <= b < vnext v -> ~ In b (vlive v) -> count_verdicts b tr = 1%nat) /\
    (~ (0 <= b < vnext v) -> count_verdicts b tr = 0%nat) /\
    (vstop v = true -> 0 <= b < vnext v -> count_verdicts b tr = 1%nat).
Proof.
  intros tr v Hr b. assert (HJ := vrun_VJ tr vinit v [] Hr VJ_init). cbn [app] in HJ.
  destruct HJ as [A1 A2 A3 A4 A5 A6 A7]. rewrite count_verdicts_cnt.
  repeat split; auto.
  intros Hst Hb. apply A5; [exact Hb|]. rewrite (A7 Hst). intros [].
Qed.

(* ------------------------------------------------ the ranking monitor *)
Definition isSome {A} (o : option A) : bool := match o with Some _ => true | None => false end.
Definition wproj (w : worker) : Z * (bool * bool) := (wname w, (isSome (wactive w), wexited w)).
Definition proj (ws : list worker) : wtab := map wproj ws.

Lemma proj_find_none : forall ws p,
  find (fun w => wname w =? p) ws = None <-> z_get (proj ws) p = None.
Proof.
  intros ws p. unfold z_get, proj. induction ws as [|w t IH]; cbn [find map]; [tauto|].
  cbn [wproj fst]. destruct (wname w =? p); [split; discriminate | exact IH].
Qed.

Lemma proj_free : forall ws, wt_free (proj ws) = map wname (filter is_free ws).
Proof.
  induction ws as [|[n a e] t IH]; [reflexivity|].
  unfold wt_free, proj in *. destruct a, e; simpl; rewrite IH; reflexivity.
Qed.

Lemma proj_busy : forall ws p a,
  proj (upd_worker ws p a) = wt_busy (proj ws) p (isSome a).
Proof.
  intros ws p a. unfold proj, upd_worker, wt_busy. rewrite !map_map. apply map_ext.
  intros w. unfold wproj at 2. cbn [fst snd]. destruct (wname w =? p); reflexivity.
Qed.

Lemma handle_workers : forall s e s1 vs mx,
  handle s e = (s1, vs, mx) -> crashed s = false -> crashed s1 = false ->
  proj (workers s1) = wt_event (proj (workers s)) e /\ rank s1 = rank s1.
Proof.
  intros s e s1 vs mx H Hc Hc1. split; [|reflexivity].
  destruct e; cbn [handle wt_event] in *.
  - inversion H; subst. reflexivity.
  - (* PeerConnected *)
    inversion H; subst; clear H. cbn [workers set_envbad set_rank set_workers].
    unfold wt_connect, find_worker.
    destruct (find (fun w => wname w =? p) (workers s)) eqn:Hf.
    + destruct (z_get (proj (workers s)) p) eqn:Hz.
      * unfold proj. rewrite !map_map. apply map_ext. intros w0.
        unfold wproj at 2. cbn [fst]. destruct (wname w0 =? p); reflexivity.
      * apply proj_find_none in Hz. congruence.
    + assert (Hz : z_get (proj (workers s)) p = None) by (apply proj_find_none; exact Hf).
      rewrite Hz. unfold proj. rewrite map_app. reflexivity.
  - (* WorkerExit *)
    inversion H; subst; clear H. cbn [workers set_envbad set_workers].
    unfold proj, wt_exit. rewrite !map_map. apply map_ext. intros w.
    unfold wproj at 2. cbn [fst snd]. destruct (wname w =? p); reflexivity.
  - (* Result *)
    destruct (find_worker s p) as [w|] eqn:Hw.
    2:{ inversion H; subst. cbn in Hc1. discriminate. }
    match type of H with (if ?c then _ else _) = _ => destruct c eqn:Hcc end.
    { inversion H; subst. cbn in Hc1. discriminate. }
    cbv zeta in H.
    assert (Hgoal : forall s', workers s' = upd_worker (workers s) p None ->
              proj (workers s') = wt_busy (proj (workers s)) p false).
    { intros s' E. rewrite E. apply proj_busy. }
    repeat break_match H; inversion H; subst s1; apply Hgoal; reflexivity.
  - destruct (z_get (batches s) b); inversion H; subst; reflexivity.
  - destruct (z_get (batches s) b) as [bt|]; [destruct (gen =? progGen bt)|]; inversion H; subst; reflexivity.
  - inversion H; subst. reflexivity.
  - inversion H; subst. reflexivity.
Qed.

Lemma choose_spec : forall s picks p picks',
  choose s picks = Some (p, picks') ->
  In p (free_workers s) /\ is_min s (free_workers s) p = true.
Proof.
  intros s picks p picks' H. unfold choose in H.
  assert (Hc : forall q, In q (candidates s) -> In q (free_workers s) /\ is_min s (free_workers s) q = true).
  { intros q Hq. unfold candidates in Hq. apply filter_In in Hq. exact Hq. }
  destruct (candidates s) as [|c cs] eqn:Ec; [discriminate|].
  destruct picks as [|x rest].
  - inversion H; subst. apply Hc. left. reflexivity.
  - destruct (mem x (c :: cs)) eqn:Hm; inversion H; subst.
    + apply Hc. apply mem_true_iff. exact Hm.
    + apply Hc. left. reflexivity.
Qed.

Lemma dispatch_phase_rdisp : forall fuel s picks acc s' ds,
  dispatch_phase fuel s picks acc = (s', ds) ->
  exists new, ds = acc ++ new /\
    rdisp (rank s) (proj (workers s)) new = Some (proj (workers s')).
Proof.
  induction fuel as [|f IH]; intros s picks acc s' ds H; cbn [dispatch_phase] in H.
  - inversion H; subst. exists []. rewrite app_nil_r. split; reflexivity.
  - destruct (work s) as [|j rest] eqn:Ew.
    + inversion H; subst. exists []. rewrite app_nil_r. split; reflexivity.
    + destruct (choose s picks) as [[p picks']|] eqn:Ech.
      * apply IH in H. destruct H as [new [Hds Hr]].
        exists ((j, p, job_timeout s j) :: new). split.
        { rewrite Hds, <- app_assoc. reflexivity. }
        cbn [rdisp]. destruct (choose_spec _ _ _ _ Ech) as [Hin Hmin].
        rewrite proj_free. fold (free_workers s).
        apply mem_true_iff in Hin. rewrite Hin. unfold is_min, score in Hmin. rewrite Hmin. cbn [andb].
        cbn [workers set_workers set_work rank] in Hr. rewrite proj_busy in Hr. exact Hr.
      * inversion H; subst. exists []. rewrite app_nil_r. split; reflexivity.
Qed.

Definition RI (s : st) (t : wtab) : Prop := stopped s = true \/ t = proj (workers s).

Lemma rdisp_nil : forall sc t, rdisp sc t [] = Some t. Proof. reflexivity. Qed.

Lemma stopped_sticky_step : forall s ep, stopped s = true -> stopped (fst (step s ep)) = true /\ odisp (snd (step s ep)) = [].
Proof.
  intros s [e picks] H. unfold step. destruct (crashed s); [split; [exact H | reflexivity]|].
  rewrite H. destruct e; split; try exact H; reflexivity.
Qed.

Lemma rstep_sim : forall s t ep,
  crashed (fst (step s ep)) = false -> RI s t ->
  exists t', rstep t (fst ep, snd (step s ep)) = Some t' /\ RI (fst (step s ep)) t'.
Proof.
  intros s t ep Hnc [Hst | Ht].
  - destruct (stopped_sticky_step s ep Hst) as [H1 H2].
    unfold rstep. destruct ep as [e picks]. cbn [fst]. rewrite H2. cbn [rdisp].
    eexists. split; [reflexivity|]. left. exact H1.
  - destruct ep as [e picks]. cbn [fst]. unfold step in *.
    destruct (crashed s) eqn:Hc. { cbn [fst] in Hnc. congruence. }
    destruct (stopped s) eqn:Hst.
    { destruct e; cbn [fst snd]; unfold rstep; cbn [mk_obs odisp rdisp]; eexists; (split; [reflexivity|]); left;
        cbn [stopped set_batchIndex]; exact Hst. }
    destruct e;
    try (match goal with |- context [handle s ?ev] =>
      destruct (handle s ev) as [[s1 vs] mx] eqn:Hh;
      destruct (crashed s1) eqn:Hc1; [cbn [fst] in Hnc; congruence|];
      destruct (handle_workers _ _ _ _ _ Hh Hc Hc1) as [Hw _];
      destruct (dispatch_phase (length (work s1)) s1 picks []) as [s2 ds] eqn:Hd;
      destruct (dispatch_phase_rdisp _ _ _ _ _ _ Hd) as [new [Hds Hr]];
      destruct (dispatch_phase_frame _ _ _ _ _ _ Hd) as (_ & _ & _ & _ & Frk & _);
      cbn [fst snd]; unfold rstep; cbn [mk_obs odisp oscores];
      cbn [app] in Hds; subst ds; rewrite Frk, Ht, <- Hw, Hr;
      eexists; split; [reflexivity | right; reflexivity]
    end).
    (* Quit *)
    cbn [fst snd]. unfold rstep. cbn [mk_obs odisp rdisp]. eexists. split; [reflexivity|]. left. reflexivity.
Qed.

Lemma rholds_model : forall inp, crashed (final inp) = false -> rholds (trace inp) = true.
Proof.
  intros inp H. unfold rholds, trace, final, run in *.
  assert (RI0 : RI init []) by (right; reflexivity).
  destruct (sim_run rstep RI rstep_sim inp init [] RI0 H) as [t' [Hr _]].
  rewrite Hr. reflexivity.
Qed.

(* --------------------------- results of finished batches are discarded *)
Definition batch_of_job (s : st) (j : Z) : Z :=
  match z_get (queries s) j with Some b => b | None => 0 end.

Lemma result_discarded : forall s j p e s1 vs mx,
  handle s (Result j p e) = (s1, vs, mx) -> crashed s1 = false ->
  z_get (batches s) (batch_of_job s j) = None ->
  vs = [] /\ mx = [] /\ work s1 = work s /\ batches s1 = batches s /\ rank s1 = rank s /\
  jobs s1 = jobs s /\ workers s1 = upd_worker (workers s) p None /\
  batchIndex s1 = batchIndex s /\ queryIndex s1 = queryIndex s.
Proof.
  intros s j p e s1 vs mx H Hc Hb. cbn [handle] in H.
  destruct (find_worker s p) as [w|] eqn:Hw.
  2:{ inversion H; subst. cbn in Hc. discriminate. }
  match type of H with (if ?c then _ else _) = _ => destruct c eqn:Hcc end.
  { inversion H; subst. cbn in Hc. discriminate. }
  cbv zeta in H. cbn [queries set_workers set_envbad batches set_queries workers] in H.
  unfold batch_of_job in Hb. rewrite Hb in H. inversion H; subst. repeat split; reflexivity.
Qed.

(* --------------------------------------- unanswered jobs are re-queued *)
Lemma In_insert_job : forall j l, In j (insert_job j l).
Proof.
  induction l as [|x t IH]; cbn [insert_job]; [left; reflexivity|].
  destruct (j <=? x); [left; reflexivity | right; exact IH].
Qed.

Lemma In_insert_job_other : forall x j l, In x l -> In x (insert_job j l).
Proof.
  induction l as [|y t IH]; intros H; [destruct H|]. cbn [insert_job].
  destruct (j <=? y); [right; exact H|]. destruct H as [H|H]; [left; exact H | right; apply IH; exact H].
Qed.

Lemma z_get_upd_same : forall {V} (m : list (Z * V)) k v x, z_get m k = Some x -> z_get (z_upd m k v) k = Some v.
Proof.
  intros V m k v x. unfold z_get, z_upd. induction m as [|a t IH]; cbn [find map]; [discriminate|].
  destruct (fst a =? k) eqn:E; cbn [fst]; [rewrite Z.eqb_refl; reflexivity|].
  rewrite E. exact IH.
Qed.

Lemma z_get_app_new : forall {V} (m : list (Z * V)) k v, z_get m k = None -> z_get (m ++ [(k, v)]) k = Some v.
Proof.
  intros V m k v. unfold z_get. induction m as [|a t IH]; cbn [find app fst].
  - rewrite Z.eqb_refl. reflexivity.
  - destruct (fst a =? k); [discriminate | exact IH].
Qed.

Lemma z_get_put_same : forall {V} (m : list (Z * V)) k v, z_get (z_put m k v) k = Some v.
Proof.
  intros V m k v. unfold z_put. destruct (z_get m k) eqn:E.
  - eapply z_get_upd_same. exact E.
  - apply z_get_app_new. exact E.
Qed.

Definition is_failure (e : jerr) : bool :=
  match e with JTimeout | JDisconnected | JOther => true | _ => false end.

Definition tries_after (s : st) (b : batch) (j : Z) : Z :=
  let t := match z_get (jobs s) j with Some x => jtries x | None => 0 end in
  if noRetryMax b then t else (t + 1) mod 256.

(* A failed job of a live batch goes back into the queue, mapped to its
   batch, unless the retry cap is reached (-> the batch gets the job's error)
   or the hard deadline has passed (-> the batch gets the timeout error). *)
Lemma failure_requeued : forall s j p e s1 vs mx b,
  handle s (Result j p e) = (s1, vs, mx) -> crashed s1 = false ->
  is_failure e = true ->
  z_get (batches s) (batch_of_job s j) = Some b ->
  let capped := negb (noRetryMax b) && (maxRetries b <=? tries_after s b j) in
  (capped = true -> vs = [(batch_of_job s j, verdict_of_jerr e)] /\ mx = [p] /\ ~ In (batch_of_job s j) (bkeys s1)) /\
  (capped = false -> In j (work s1) /\ z_get (queries s1) j = Some (batch_of_job s j) /\
     (hardFired b = true -> vs = [(batch_of_job s j, VTimeout)] /\ mx = []) /\
     (hardFired b = false -> vs = [] /\ mx = [] /\ z_get (batches s1) (batch_of_job s j) = Some b)).
Proof.
  intros s j p e s1 vs mx b H Hc He Hb. cbn [handle] in H.
  destruct (find_worker s p) as [w|] eqn:Hw.
  2:{ inversion H; subst. cbn in Hc. discriminate. }
  match type of H with (if ?c then _ else _) = _ => destruct c eqn:Hcc end.
  { inversion H; subst. cbn in Hc. discriminate. }
  cbv zeta in H. cbn [queries set_workers set_envbad batches set_queries workers jobs set_rank] in H.
  unfold batch_of_job in *. rewrite Hb in H. unfold tries_after.
  set (bn := match z_get (queries s) j with Some b0 => b0 | None => 0 end) in *.
  set (jb := match z_get (jobs s) j with Some x => x | None => {| jtries := 0; jtimeout := minQueryTimeout |} end) in *.
  assert (Ejt : match z_get (jobs s) j with Some x => jtries x | None => 0 end = jtries jb).
  { unfold jb. destruct (z_get (jobs s) j); reflexivity. }
  rewrite Ejt. cbv zeta.
  destruct e; try discriminate;
    (destruct (negb (noRetryMax b) && (maxRetries b <=? (if noRetryMax b then jtries jb else (jtries jb + 1) mod 256))) eqn:Ecap;
     [ inversion H; subst s1 vs mx; split; [intros _|discriminate];
       split; [reflexivity|]; split; [reflexivity|];
       bk; unfold bkeys; cbn [batches set_batches]; fold (bkeys s);
       intros Hin; apply In_remove_z in Hin; destruct Hin as [_ Hne]; apply Hne; reflexivity
     | split; [discriminate|]; intros _;
       destruct (hardFired b) eqn:Ehf; inversion H; subst s1 vs mx;
       (split; [cbn; apply In_insert_job|]);
       (split; [cbn; apply z_get_put_same|]);
       (split; [intros; try discriminate; split; reflexivity|]);
       intros; try discriminate; repeat split; try reflexivity; cbn; exact Hb ]).
Qed.

(* whatever is in the queue after the select arm is still queued or has been
   handed out when the dispatcher is back in its select *)
Lemma dispatch_phase_keeps : forall fuel s picks acc s' ds x,
  dispatch_phase fuel s picks acc = (s', ds) -> In x (work s) ->
  In x (work s') \/ exists new, ds = acc ++ new /\ In x (map (fun d => fst (fst d)) new).
Proof.
  induction fuel as [|f IH]; intros s picks acc s' ds x H Hin; cbn [dispatch_phase] in H.
  - inversion H; subst. left. exact Hin.
  - destruct (work s) as [|j rest] eqn:Ew; [destruct Hin|].
    destruct (choose s picks) as [[p picks']|] eqn:Ech.
    + destruct Hin as [Hx|Hx].
      * subst x. right.
        destruct (dispatch_phase_rdisp _ _ _ _ _ _ H) as [new [Hds _]].
        exists ((j, p, job_timeout s j) :: new). split; [rewrite Hds, <- app_assoc; reflexivity | left; reflexivity].
      * destruct (IH _ _ _ _ _ x H) as [Hl | [new [Hds Hn]]]; [exact Hx | left; exact Hl |].
        right. exists ((j, p, job_timeout s j) :: new). split; [rewrite Hds, <- app_assoc; reflexivity | right; exact Hn].
    + inversion H; subst. left. rewrite Ew. exact Hin.
Qed.

(* the distribution phase ends only when the queue is empty or no worker is free *)
Lemma dispatch_phase_complete : forall fuel s picks acc s' ds,
  dispatch_phase fuel s picks acc = (s', ds) -> (length (work s) <= fuel)%nat ->
  work s' = [] \/ free_workers s' = [].
Proof.
  induction fuel as [|f IH]; intros s picks acc s' ds H Hlen; cbn [dispatch_phase] in H.
  - inversion H; subst. left. destruct (work s'); [reflexivity | cbn in Hlen; lia].
  - destruct (work s) as [|j rest] eqn:Ew.
    + inversion H; subst. left. exact Ew.
    + destruct (choose s picks) as [[p picks']|] eqn:Ech.
      * apply IH in H; [exact H|]. cbn [work set_workers set_work]. cbn [length] in Hlen. lia.
      * inversion H; subst. right. unfold choose in Ech.
        destruct (candidates s') as [|c cs] eqn:Ec.
        -- (* no candidate: no free worker (a list of scores has a minimum) *)
           destruct (free_workers s') as [|q qs] eqn:Ef; [reflexivity|]. exfalso.
           assert (Hmin : forall l, l <> [] -> exists m, In m l /\ forallb (fun x => score s' m <=? score s' x) l = true).
           { induction l as [|a t IHl]; [congruence|]. intros _. destruct t as [|a' t'].
             - exists a. split; [left; reflexivity|]. cbn. lia.
             - destruct (IHl ltac:(discriminate)) as [m [Hm Hf]].
               destruct (score s' a <=? score s' m) eqn:E.
               + exists a. split; [left; reflexivity|]. apply forallb_forall. rewrite forallb_forall in Hf.
                 intros x [Hx|Hx]; [subst; lia | specialize (Hf x Hx); lia].
               + exists m. split; [right; exact Hm|]. apply forallb_forall. rewrite forallb_forall in Hf.
                 intros x [Hx|Hx]; [subst; lia | exact (Hf x Hx)]. }
           destruct (Hmin (q :: qs) ltac:(discriminate)) as [m [Hm Hf]].
           assert (Hcand : In m (candidates s')).
           { unfold candidates. rewrite Ef. apply filter_In. split; [exact Hm | exact Hf]. }
           rewrite Ec in Hcand. destruct Hcand.
        -- destruct picks as [|x r]; [discriminate|]. destruct (mem x (c :: cs)); discriminate.
Qed.

(* ------------------------------------------- exactly one verdict, model *)
Lemma exactly_one_model : forall inp b,
  crashed (final inp) = false ->
  (In b (bkeys (final inp)) -> count_verdicts b (trace inp) = 0%nat) /\
  (0 <= b < batchIndex (final inp) -> ~ In b (bkeys (final inp)) -> count_verdicts b (trace inp) = 1%nat) /\
  (~ (0 <= b < batchIndex (final inp)) -> count_verdicts b (trace inp) = 0%nat) /\
  (stopped (final inp) = true -> 0 <= b < batchIndex (final inp) -> count_verdicts b (trace inp) = 1%nat).
Proof.
  intros inp b H. unfold trace, final, run in *.
  destruct (sim_run vstep VI vstep_sim inp init vinit VI_init H) as [v' [Hr HI]].
  destruct (vholds_exactly_one _ _ Hr b) as (A & B & C & D).
  rewrite <- (vi_live _ _ HI), <- (vi_next _ _ HI), <- (vi_stop _ _ HI). repeat split; assumption.
Qed.

Lemma live_keys_nodup : forall inp, crashed (final inp) = false -> NoDup (bkeys (final inp)).
Proof.
  intros inp H. unfold final, run in *.
  destruct (sim_run vstep VI vstep_sim inp init vinit VI_init H) as [v' [_ HI]].
  rewrite <- (vi_live _ _ HI). exact (vi_nodup _ _ HI).
Qed.

Lemma quit_step : forall s picks,
  crashed s = false -> stopped s = false ->
  let r := step s (Quit, picks) in
  overd (snd r) = map (fun kb => (fst kb, VShutdown)) (batches s) /\
  odisp (snd r) = [] /\ stopped (fst r) = true /\ batches (fst r) = [].
Proof.
  intros s picks Hc Hs. unfold step. rewrite Hc, Hs. cbn. repeat split; reflexivity.
Qed.

(* ------------------------------------- a crash needs a contract breach *)
Lemma handle_crash_env : forall s e s1 vs mx,
  handle s e = (s1, vs, mx) -> crashed s = false -> crashed s1 = true -> envbad s1 = true.
Proof.
  intros s e s1 vs mx H Hc Hc1. destruct e.
  - apply handle_newbatch in H. destruct H as (_ & _ & _ & _ & _ & E). congruence.
  - apply handle_quiet in H; [|exact I]. destruct H as (_ & _ & _ & _ & E). congruence.
  - apply handle_quiet in H; [|exact I]. destruct H as (_ & _ & _ & _ & E). congruence.
  - cbn [handle] in H.
    destruct (find_worker s p) as [w|] eqn:Hw; [|inversion H; subst; reflexivity].
    match type of H with (if ?c then _ else _) = _ => destruct c eqn:Hcc end; [inversion H; subst; reflexivity|].
    cbv zeta in H. exfalso.
    assert (E : crashed s1 = crashed s).
    { repeat break_match H; inversion H; subst s1; reflexivity. }
    congruence.
  - apply handle_quiet in H; [|exact I]. destruct H as (_ & _ & _ & _ & E). congruence.
  - apply handle_wake in H. destruct H as (_ & E & _). congruence.
  - apply handle_quiet in H; [|exact I]. destruct H as (_ & _ & _ & _ & E). congruence.
  - apply handle_quiet in H; [|exact I]. destruct H as (_ & _ & _ & _ & E). congruence.
Qed.

Lemma crash_env_step : forall s ep,
  (crashed s = true -> envbad s = true) ->
  crashed (fst (step s ep)) = true -> envbad (fst (step s ep)) = true.
Proof.
  intros s [e picks] HI. unfold step.
  destruct (crashed s) eqn:Hc; [intros _; cbn [fst]; auto|].
  destruct (stopped s) eqn:Hs.
  { destruct e; cbn [fst]; intros H; cbn in H; congruence. }
  destruct e;
  try (match goal with |- context [handle s ?ev] =>
    destruct (handle s ev) as [[s1 vs] mx] eqn:Hh;
    destruct (crashed s1) eqn:Hc1;
    [ cbn [fst]; intros _; eapply handle_crash_env; eassumption
    | destruct (dispatch_phase (length (work s1)) s1 picks []) as [s2 ds] eqn:Hd;
      destruct (dispatch_phase_frame _ _ _ _ _ _ Hd) as (_ & _ & _ & Fcr & _);
      cbn [fst]; intros H; congruence ]
  end).
  cbn [fst]. intros H. cbn in H. congruence.
Qed.

Lemma crash_env_run : forall inp s,
  (crashed s = true -> envbad s = true) ->
  crashed (fst (run_from s inp)) = true -> envbad (fst (run_from s inp)) = true.
Proof.
  induction inp as [|ep rest IH]; intros s HI; [exact HI|].
  rewrite run_from_cons. cbn [fst]. apply IH. apply crash_env_step. exact HI.
Qed.

Lemma no_crash_if_env_ok : forall inp, envbad (final inp) = false -> crashed (final inp) = false.
Proof.
  intros inp H. destruct (crashed (final inp)) eqn:E; [|reflexivity].
  unfold final, run in *. rewrite (crash_env_run inp init) in H; [discriminate | cbn; discriminate | exact E].
Qed.

(* --------------------------------------------------- success accounting *)
Lemma z_get_del_other : forall {V} (m : list (Z * V)) k k', k' <> k -> z_get (z_del m k) k' = z_get m k'.
Proof.
  intros V m k k' Hne. unfold z_get, z_del. induction m as [|a t IH]; [reflexivity|].
  cbn [filter find]. destruct (fst a =? k) eqn:E; cbn [negb].
  - replace (fst a =? k') with false by lia. exact IH.
  - cbn [find]. destruct (fst a =? k'); [reflexivity | exact IH].
Qed.

Lemma z_get_upd_other : forall {V} (m : list (Z * V)) k v k', k' <> k -> z_get (z_upd m k v) k' = z_get m k'.
Proof.
  intros V m k v k' Hne. unfold z_get, z_upd. induction m as [|a t IH]; [reflexivity|].
  cbn [map find]. destruct (fst a =? k) eqn:E; cbn [fst].
  - replace (k =? k') with false by lia. replace (fst a =? k') with false by lia. exact IH.
  - destruct (fst a =? k'); [reflexivity | exact IH].
Qed.

(* A success verdict is only ever sent on a successful result of a job of
   that batch, when exactly one request of the batch was still unanswered. *)
Lemma success_only_when_last : forall s j p e s1 bn mx,
  handle s (Result j p e) = (s1, [(bn, VSuccess)], mx) ->
  e = JOk /\ bn = batch_of_job s j /\ exists b, z_get (batches s) bn = Some b /\ rem b = 1.
Proof.
  intros s j p e s1 bn mx H. cbn [handle] in H.
  destruct (find_worker s p) as [w|] eqn:Hw; [|inversion H].
  match type of H with (if ?c then _ else _) = _ => destruct c eqn:Hcc end; [inversion H|].
  cbv zeta in H. cbn [queries set_workers set_envbad batches set_queries workers jobs set_rank] in H.
  fold (batch_of_job s j) in H.
  destruct (z_get (batches s) (batch_of_job s j)) as [b|] eqn:Hb; [|inversion H].
  destruct e.
  - cbn [rem] in H. destruct (rem b - 1 =? 0) eqn:Er.
    + inversion H; subst. split; [reflexivity|]. split; [reflexivity|]. exists b. split; [exact Hb | lia].
    + destruct (hardFired b); inversion H.
  - repeat break_match H; inversion H.
  - repeat break_match H; inversion H.
  - inversion H.
  - repeat break_match H; inversion H.
Qed.

(* A successful result of a job of a live batch is never re-queued; it makes
   the batch succeed if it was the last unanswered request, and otherwise
   (hard deadline not passed) lowers the number of unanswered requests of
   that batch by exactly one and leaves every other batch alone. *)
Lemma ok_result_counts_once : forall s j p s1 vs mx b,
  handle s (Result j p JOk) = (s1, vs, mx) -> crashed s1 = false ->
  z_get (batches s) (batch_of_job s j) = Some b ->
  work s1 = work s /\ mx = [] /\
  (rem b = 1 -> vs = [(batch_of_job s j, VSuccess)]) /\
  (rem b <> 1 -> hardFired b = true -> vs = [(batch_of_job s j, VTimeout)]) /\
  (rem b <> 1 -> hardFired b = false ->
     vs = [] /\ exists b', z_get (batches s1) (batch_of_job s j) = Some b' /\ rem b' = rem b - 1) /\
  (forall bn', bn' <> batch_of_job s j -> z_get (batches s1) bn' = z_get (batches s) bn').
Proof.
  intros s j p s1 vs mx b H Hc Hb. cbn [handle] in H.
  destruct (find_worker s p) as [w|] eqn:Hw.
  2:{ inversion H; subst. cbn in Hc. discriminate. }
  match type of H with (if ?c then _ else _) = _ => destruct c eqn:Hcc end.
  { inversion H; subst. cbn in Hc. discriminate. }
  cbv zeta in H. cbn [queries set_workers set_envbad batches set_queries workers jobs set_rank] in H.
  fold (batch_of_job s j) in H. rewrite Hb in H. cbn [rem] in H.
  destruct (rem b - 1 =? 0) eqn:Er.
  - inversion H; subst s1 vs mx. split; [reflexivity|]. split; [reflexivity|].
    split; [reflexivity|]. split; [lia|]. split; [lia|].
    intros bn' Hne. cbn. apply z_get_del_other. exact Hne.
  - destruct (hardFired b) eqn:Eh; inversion H; subst s1 vs mx; (split; [reflexivity|]); (split; [reflexivity|]);
      (split; [lia|]).
    + split; [reflexivity|]. split; [discriminate|].
      intros bn' Hne. cbn. apply z_get_del_other. exact Hne.
    + split; [discriminate|]. split.
      * intros _ _. split; [reflexivity|]. eexists. split; [cbn; eapply z_get_upd_same; exact Hb | reflexivity].
      * intros bn' Hne. cbn. apply z_get_upd_other. exact Hne.
Qed.

(* A failed or cancelled result never changes the number of unanswered
   requests of any batch that stays live. *)
Lemma failed_result_keeps_counts : forall s j p e s1 vs mx bn' b',
  handle s (Result j p e) = (s1, vs, mx) -> crashed s1 = false -> e <> JOk ->
  z_get (batches s1) bn' = Some b' -> z_get (batches s) bn' = Some b'.
Proof.
  intros s j p e s1 vs mx bn' b' H Hc He Hg. cbn [handle] in H.
  destruct (find_worker s p) as [w|] eqn:Hw.
  2:{ inversion H; subst. cbn in Hc. discriminate. }
  match type of H with (if ?c then _ else _) = _ => destruct c eqn:Hcc end.
  { inversion H; subst. cbn in Hc. discriminate. }
  cbv zeta in H. cbn [queries set_workers set_envbad batches set_queries workers jobs set_rank] in H.
  fold (batch_of_job s j) in H.
  assert (Hdel : forall k, z_get (z_del (batches s) k) bn' = Some b' -> z_get (batches s) bn' = Some b').
  { intros k Hk. destruct (Z.eq_dec bn' k) as [E|E].
    - subst k. exfalso. apply z_get_In in Hk. rewrite keys_z_del in Hk. apply In_remove_z in Hk. lia.
    - rewrite z_get_del_other in Hk; assumption. }
  destruct (z_get (batches s) (batch_of_job s j)) as [b|] eqn:Hb.
  2:{ inversion H; subst s1. exact Hg. }
  destruct e; try congruence;
    repeat break_match H; inversion H; subst s1 vs mx; cbn in Hg; try (apply Hdel in Hg); exact Hg.
Qed.

(* ================================================================ worker *)
Lemma wrun_from_cons : forall s e rest,
  wrun_from s (e :: rest) =
  (fst (wrun_from (fst (wstep s e)) rest),
   (e, snd (wstep s e)) :: snd (wrun_from (fst (wstep s e)) rest)).
Proof.
  intros s e rest. cbn [wrun_from]. destruct (wstep s e) as [s1 o]. cbn [fst snd].
  destruct (wrun_from s1 rest) as [s2 tr]. reflexivity.
Qed.

(* jobs read from nextJob whose result is still owed *)
Definition wowed (s : wstate) : list Z :=
  match s with WBusy j | WSend j _ | WGone (Some j) => [j] | _ => [] end.

Lemma wstep_account : forall s e,
  wowed s ++ waccepted [(e, snd (wstep s e))] =
  map fst (wresults [(e, snd (wstep s e))]) ++ wowed (fst (wstep s e)).
Proof.
  intros s e. unfold waccepted, wresults. cbn [flat_map fst snd]. rewrite !app_nil_r.
  destruct s as [|j|j err|[l|]]; destruct e as [j' pc|fin prog| | | | | |];
    try destruct pc; try destruct fin; try destruct err; reflexivity.
Qed.

Lemma waccepted_cons : forall x tr, waccepted (x :: tr) = waccepted [x] ++ waccepted tr.
Proof. intros. unfold waccepted. cbn [flat_map]. rewrite app_nil_r. reflexivity. Qed.
Lemma wresults_cons : forall x tr, wresults (x :: tr) = wresults [x] ++ wresults tr.
Proof. intros. unfold wresults. cbn [flat_map]. rewrite app_nil_r. reflexivity. Qed.

Lemma wrun_account : forall es s,
  wowed s ++ waccepted (snd (wrun_from s es)) =
  map fst (wresults (snd (wrun_from s es))) ++ wowed (fst (wrun_from s es)).
Proof.
  induction es as [|e rest IH]; intros s.
  - cbn. rewrite app_nil_r. reflexivity.
  - rewrite wrun_from_cons. cbn [fst snd].
    rewrite waccepted_cons, wresults_cons, map_app, app_assoc, wstep_account, <- !app_assoc.
    f_equal. apply IH.
Qed.

(* Every job a worker reads from nextJob produces exactly one result, in
   order, except the one it still works on / has ready, or held when told to
   quit. *)
Lemma worker_exactly_one : forall es,
  waccepted (wtrace es) = map fst (wresults (wtrace es)) ++ wowed (wfinal es).
Proof. intros es. exact (wrun_account es WIdle). Qed.

(* every way a job can end is reported as soon as the dispatcher takes it *)
Lemma worker_cause_reported : forall j e c,
  cause_of e = Some c ->
  fst (wstep (WBusy j) e) = WSend j c /\
  wres (snd (wstep (WSend j c) WTake)) = Some (j, c) /\
  (c <> JDisconnected -> fst (wstep (WSend j c) WTake) = WIdle).
Proof.
  intros j e c H. destruct e as [j' pc|fin prog| | | | | |]; try destruct fin; cbn in H; inversion H; subst;
    (split; [reflexivity|]); (split; [reflexivity|]); intros Hc; try reflexivity; congruence.
Qed.

Definition WR (s : wstate) (m : wmon) : Prop :=
  wquit m = true \/
  (wquit m = false /\
   match s with
   | WIdle => wpend m = None /\ wcause m = None
   | WBusy j => wpend m = Some j /\ wcause m = None
   | WSend j e => wpend m = Some j /\ wcause m = Some e
   | WGone None => wpend m = None /\ wcause m = None
   | WGone (Some _) => False
   end).

Lemma jerr_eqb_refl : forall e, jerr_eqb e e = true.
Proof. destruct e; reflexivity. Qed.

Lemma wstep_sim : forall s m e,
  WR s m -> exists m', wmstep m (e, snd (wstep s e)) = Some m' /\ WR (fst (wstep s e)) m'.
Proof.
  intros s m e [Hq | [Hq H]].
  - unfold wmstep. rewrite Hq. eexists. split; [reflexivity | left; exact Hq].
  - destruct m as [p c q]. cbn [wquit wpend wcause] in *. subst q.
    destruct s as [|j|j err|[l|]]; try contradiction; destruct H as [Hp Hc]; subst p c;
      destruct e as [j' pc|fin prog| | | | | |]; try destruct pc; try destruct fin;
      unfold wmstep; cbn [wstep fst snd wquit wres wacc wsent wpend wcause wnone cause_of Bool.eqb negb];
      rewrite ?Z.eqb_refl, ?jerr_eqb_refl; cbn [andb];
      try (destruct err; cbn [fst snd wres wacc wsent]);
      (eexists; split; [reflexivity|]);
      first [ left; reflexivity | right; split; [reflexivity|]; split; reflexivity ].
Qed.

Lemma wholds_model_from : forall es s m, WR s m ->
  exists m', wmon_run m (snd (wrun_from s es)) = Some m'.
Proof.
  induction es as [|e rest IH]; intros s m H.
  - exists m. reflexivity.
  - rewrite wrun_from_cons. cbn [snd wmon_run].
    destruct (wstep_sim s m e H) as [m1 [Hm1 H1]]. rewrite Hm1. apply IH. exact H1.
Qed.

Lemma wholds_model : forall es, wholds (wtrace es) = true.
Proof.
  intros es. unfold wholds, wtrace.
  assert (H0 : WR WIdle wminit) by (right; split; [reflexivity | split; reflexivity]).
  destruct (wholds_model_from es WIdle wminit H0) as [m' Hm]. rewrite Hm. reflexivity.
Qed.

(* ======================================== composition with the dispatcher *)
(* Whatever result a worker reports — also the ErrJobCanceled of a job whose
   batch has timed out, which the dispatcher discards — frees its slot. *)
Lemma result_frees_worker : forall s j p e s1 vs mx w,
  handle s (Result j p e) = (s1, vs, mx) -> crashed s1 = false ->
  find (fun w => wname w =? p) (workers s1) = Some w -> wactive w = None.
Proof.
  intros s j p e s1 vs mx w H Hc Hf. cbn [handle] in H.
  destruct (find_worker s p) as [w0|] eqn:Hw.
  2:{ inversion H; subst. cbn in Hc. discriminate. }
  match type of H with (if ?c then _ else _) = _ => destruct c eqn:Hcc end.
  { inversion H; subst. cbn in Hc. discriminate. }
  cbv zeta in H.
  assert (Hws : workers s1 = upd_worker (workers s) p None).
  { repeat break_match H; inversion H; subst s1; reflexivity. }
  rewrite Hws in Hf. unfold upd_worker in Hf. clear - Hf.
  induction (workers s) as [|a t IH]; cbn [map find] in Hf; [discriminate|].
  destruct (wname a =? p) eqn:E.
  - cbn [wname] in Hf. rewrite Z.eqb_refl in Hf. inversion Hf; subst. reflexivity.
  - rewrite E in Hf. apply IH. exact Hf.
Qed.

Lemma candidates_nonempty : forall s, free_workers s <> [] -> candidates s <> [].
Proof.
  intros s Hf Hc.
  assert (Hmin : forall l, l <> [] -> exists m, In m l /\ forallb (fun x => score s m <=? score s x) l = true).
  { induction l as [|a t IHl]; [congruence|]. intros _. destruct t as [|a' t'].
    - exists a. split; [left; reflexivity|]. cbn. lia.
    - destruct (IHl ltac:(discriminate)) as [m [Hm Hfa]].
      destruct (score s a <=? score s m) eqn:E.
      + exists a. split; [left; reflexivity|]. apply forallb_forall. rewrite forallb_forall in Hfa.
        intros x [Hx|Hx]; [subst; lia | specialize (Hfa x Hx); lia].
      + exists m. split; [right; exact Hm|]. apply forallb_forall. rewrite forallb_forall in Hfa.
        intros x [Hx|Hx]; [subst; lia | exact (Hfa x Hx)]. }
  destruct (Hmin _ Hf) as [m [Hm Hfa]].
  assert (Hin : In m (candidates s)) by (unfold candidates; apply filter_In; split; [exact Hm | exact Hfa]).
  rewrite Hc in Hin. destruct Hin.
Qed.

(* ... and a free worker is given the head of the queue at once: a batch
   submitted while a worker is free is handed out in the same step. *)
Lemma free_worker_is_used : forall fuel s picks acc s' ds,
  dispatch_phase (S fuel) s picks acc = (s', ds) ->
  work s <> [] -> free_workers s <> [] ->
  exists j p t new, work s = j :: tl (work s) /\ ds = acc ++ (j, p, t) :: new /\ In p (free_workers s).
Proof.
  intros fuel s picks acc s' ds H Hw Hf. cbn [dispatch_phase] in H.
  destruct (work s) as [|j rest] eqn:Ew; [congruence|].
  destruct (choose s picks) as [[p picks']|] eqn:Ech.
  - destruct (dispatch_phase_rdisp _ _ _ _ _ _ H) as [new [Hds _]].
    destruct (choose_spec _ _ _ _ Ech) as [Hin _].
    exists j, p, (job_timeout s j), new. split; [reflexivity|]. split; [rewrite Hds, <- app_assoc; reflexivity | exact Hin].
  - exfalso. unfold choose in Ech. destruct (candidates s) as [|c cs] eqn:Ec.
    + apply (candidates_nonempty s Hf Ec).
    + destruct picks as [|x r]; [discriminate|]. destruct (mem x (c :: cs)); discriminate.
Qed.

Lemma insert_job_nonempty : forall j l, insert_job j l <> [].
Proof. intros j [|x t]; cbn [insert_job]; [discriminate|]. destruct (j <=? x); discriminate. Qed.

Lemma fold_insert_nonempty : forall js w, js <> [] \/ w <> [] ->
  fold_left (fun w j => insert_job j w) js w <> [].
Proof.
  induction js as [|j t IH]; intros w [H|H]; cbn [fold_left]; try congruence.
  - apply IH. right. apply insert_job_nonempty.
  - apply IH. right. apply insert_job_nonempty.
Qed.

Lemma newbatch_handed_out : forall s n nr rt pt picks,
  crashed s = false -> stopped s = false -> free_workers s <> [] ->
  exists j p t rest, odisp (snd (step s (NewBatch (S n) nr rt pt, picks))) = (j, p, t) :: rest /\
                     In p (free_workers s).
Proof.
  intros s n nr rt pt picks Hc Hs Hf. unfold step. rewrite Hc, Hs.
  destruct (handle s (NewBatch (S n) nr rt pt)) as [[s1 vs] mx] eqn:Hh.
  assert (Hc1 : crashed s1 = false).
  { apply handle_newbatch in Hh. destruct Hh as (_ & _ & _ & _ & _ & E). congruence. }
  rewrite Hc1.
  assert (Hw : work s1 <> [] /\ free_workers s1 = free_workers s).
  { cbn [handle] in Hh. inversion Hh; subst s1. cbn [work set_queryIndex set_batchIndex set_batches set_queries set_jobs set_work].
    split.
    - apply fold_insert_nonempty. right. apply insert_job_nonempty.
    - reflexivity. }
  destruct Hw as [Hw Hfw].
  destruct (dispatch_phase (length (work s1)) s1 picks []) as [s2 ds] eqn:Hd.
  destruct (work s1) as [|j0 r0] eqn:Ew; [congruence|]. cbn [length] in Hd.
  destruct (free_worker_is_used _ _ _ _ _ _ Hd) as (j & p & t & new & _ & Hds & Hin).
  - rewrite Ew. discriminate.
  - rewrite Hfw. exact Hf.
  - cbn [snd mk_obs odisp]. exists j, p, t, new. split; [exact Hds | rewrite <- Hfw; exact Hin].
Qed.
