(* C12 — the job monitor [jholds] accepts every model trace in which the
   environment keeps the worker contract: simulation between the dispatcher
   model and the monitor's reference machine. *)
From Coq Require Import ZArith List Bool Lia ZifyBool Sorted FinFun.
From Verif Require Import C12.Model C12.Spec C12.Proofs.
Import ListNotations.
Open Scope Z_scope.

(* ------------------------------------------------------ association lists *)
Lemma z_get_cons : forall {V} (l : list (Z * V)) k v k',
  z_get ((k, v) :: l) k' = if k =? k' then Some v else z_get l k'.
Proof. intros. unfold z_get. cbn [find fst]. destruct (k =? k'); reflexivity. Qed.

Lemma z_get_app : forall {V} (l1 l2 : list (Z * V)) k,
  z_get (l1 ++ l2) k = match z_get l1 k with Some v => Some v | None => z_get l2 k end.
Proof.
  intros V l1 l2 k. unfold z_get. induction l1 as [|a t IH]; cbn [app find]; [reflexivity|].
  destruct (fst a =? k); [reflexivity | exact IH].
Qed.

Lemma z_get_del_same : forall {V} (m : list (Z * V)) k, z_get (z_del m k) k = None.
Proof.
  intros V m k. unfold z_get, z_del. induction m as [|a t IH]; [reflexivity|].
  cbn [filter]. destruct (fst a =? k) eqn:E; cbn [negb]; [exact IH|]. cbn [find]. rewrite E. exact IH.
Qed.

Lemma z_get_upd_none : forall {V} (m : list (Z * V)) k v, z_get m k = None -> z_get (z_upd m k v) k = None.
Proof.
  intros V m k v H. destruct (z_get (z_upd m k v) k) eqn:G; [|reflexivity].
  apply z_get_In in G. rewrite keys_z_upd in G. apply z_get_None in H. contradiction.
Qed.

Lemma z_get_upd : forall {V} (m : list (Z * V)) k v k',
  z_get (z_upd m k v) k' =
  if k' =? k then match z_get m k with Some _ => Some v | None => None end else z_get m k'.
Proof.
  intros V m k v k'. destruct (k' =? k) eqn:E.
  - apply Z.eqb_eq in E. subst k'. destruct (z_get m k) eqn:G.
    + eapply z_get_upd_same. exact G.
    + apply z_get_upd_none. exact G.
  - apply z_get_upd_other. lia.
Qed.

Lemma z_get_put_other : forall {V} (m : list (Z * V)) k v k', k' <> k -> z_get (z_put m k v) k' = z_get m k'.
Proof.
  intros V m k v k' Hne. unfold z_put. destruct (z_get m k).
  - apply z_get_upd_other. exact Hne.
  - rewrite z_get_app. destruct (z_get m k'); [reflexivity|].
    rewrite z_get_cons. replace (k =? k') with false by lia. reflexivity.
Qed.

Lemma z_get_map_key : forall {V W} (f : Z * V -> Z * W) l k,
  (forall x, fst (f x) = fst x) ->
  z_get (map f l) k = option_map (fun x => snd (f x)) (find (fun p => fst p =? k) l).
Proof.
  intros V W f l k Hf. unfold z_get. induction l as [|a t IH]; [reflexivity|].
  cbn [map find]. rewrite Hf. destruct (fst a =? k); [reflexivity | exact IH].
Qed.

Lemma z_get_find_key : forall {V} (l : list (Z * V)) k x,
  find (fun p => fst p =? k) l = Some x -> fst x = k /\ z_get l k = Some (snd x).
Proof.
  intros V l k x H. split.
  - apply find_some in H. lia.
  - unfold z_get. rewrite H. reflexivity.
Qed.

(* -------------------------------------------------------------- the heap *)
Lemma In_insert_iff : forall x j l, In x (insert_job j l) <-> x = j \/ In x l.
Proof.
  intros x j l. induction l as [|y t IH]; cbn [insert_job].
  - cbn. intuition.
  - destruct (j <=? y); cbn [In]; [intuition|]. rewrite IH. intuition.
Qed.

Lemma insert_sorted : forall j l,
  StronglySorted Z.lt l -> ~ In j l -> StronglySorted Z.lt (insert_job j l).
Proof.
  intros j l Hs. induction Hs as [|a t Hs IH Hf]; intros Hn; cbn [insert_job].
  - constructor; constructor.
  - destruct (j <=? a) eqn:E.
    + assert (j < a) by (assert (j <> a) by (intros ->; apply Hn; left; reflexivity); lia).
      constructor; [constructor; assumption|]. constructor; [assumption|].
      rewrite Forall_forall in *. intros x Hx. specialize (Hf x Hx). lia.
    + constructor.
      * apply IH. intros Hin. apply Hn. right. exact Hin.
      * rewrite Forall_forall in *. intros x Hx. apply In_insert_iff in Hx.
        destruct Hx as [->|Hx]; [lia | apply Hf; exact Hx].
Qed.

Lemma sorted_head_lt : forall j rest x, StronglySorted Z.lt (j :: rest) -> In x rest -> j < x.
Proof.
  intros j rest x H Hx. inversion H as [|? ? _ Hf]; subst. rewrite Forall_forall in Hf. apply Hf. exact Hx.
Qed.

Lemma sorted_tail : forall j rest, StronglySorted Z.lt (j :: rest) -> StronglySorted Z.lt rest.
Proof. intros j rest H. inversion H; assumption. Qed.

(* --------------------------------------------------------------- workers *)
Definition wlook (ws : list worker) (p : Z) : option worker := find (fun w => wname w =? p) ws.

Lemma wlook_some : forall ws p w, wlook ws p = Some w -> In w ws /\ wname w = p.
Proof. intros ws p w H. apply find_some in H. destruct H. split; [assumption | lia]. Qed.

Lemma wlook_In_nodup : forall ws w, NoDup (map wname ws) -> In w ws -> wlook ws (wname w) = Some w.
Proof.
  induction ws as [|a t IH]; intros w Hd Hin; [destruct Hin|].
  cbn [map] in Hd. inversion Hd as [|? ? Hn Hd']; subst. unfold wlook. cbn [find].
  destruct Hin as [->|Hin]; [rewrite Z.eqb_refl; reflexivity|].
  destruct (wname a =? wname w) eqn:E.
  - exfalso. apply Hn. apply Z.eqb_eq in E. rewrite E. apply in_map. exact Hin.
  - apply IH; assumption.
Qed.

Lemma names_upd_worker : forall ws p a, map wname (upd_worker ws p a) = map wname ws.
Proof.
  intros ws p a. unfold upd_worker. rewrite map_map. apply map_ext.
  intros w. destruct (wname w =? p) eqn:E; cbn [wname]; lia.
Qed.

Lemma wlook_upd_same : forall ws p a w,
  wlook ws p = Some w ->
  wlook (upd_worker ws p a) p = Some {| wname := p; wactive := a; wexited := wexited w |}.
Proof.
  intros ws p a w. unfold wlook, upd_worker. induction ws as [|x t IH]; cbn [map find]; [discriminate|].
  destruct (wname x =? p) eqn:E.
  - cbn [wname]. rewrite Z.eqb_refl. intros H. inversion H; subst. reflexivity.
  - rewrite E. exact IH.
Qed.

Lemma wlook_upd_other : forall ws p a p', p' <> p -> wlook (upd_worker ws p a) p' = wlook ws p'.
Proof.
  intros ws p a p' Hne. unfold wlook, upd_worker. induction ws as [|x t IH]; cbn [map find]; [reflexivity|].
  destruct (wname x =? p) eqn:E.
  - cbn [wname]. replace (p =? p') with false by lia. replace (wname x =? p') with false by lia. exact IH.
  - destruct (wname x =? p'); [reflexivity | exact IH].
Qed.

Lemma In_upd_worker : forall ws p a w,
  In w (upd_worker ws p a) -> (wname w = p /\ wactive w = a) \/ (In w ws /\ wname w <> p).
Proof.
  intros ws p a w H. unfold upd_worker in H. apply in_map_iff in H. destruct H as [x [Hx Hin]].
  destruct (wname x =? p) eqn:E.
  - left. subst w. split; reflexivity.
  - right. subst w. split; [exact Hin | lia].
Qed.

Lemma proj_get : forall ws p,
  z_get (proj ws) p = option_map (fun w => (isSome (wactive w), wexited w)) (wlook ws p).
Proof.
  intros ws p. unfold z_get, proj, wlook. induction ws as [|a t IH]; [reflexivity|].
  cbn [map find]. cbn [wproj fst]. destruct (wname a =? p); [reflexivity | exact IH].
Qed.

Lemma free_In : forall ws p,
  In p (map wname (filter is_free ws)) <-> exists w, In w ws /\ wname w = p /\ is_free w = true.
Proof.
  intros ws p. rewrite in_map_iff. split.
  - intros [w [Hn Hin]]. apply filter_In in Hin. exists w. tauto.
  - intros [w [Hin [Hn Hf]]]. exists w. split; [exact Hn|]. apply filter_In. tauto.
Qed.

(* ------------------------------------------------- unanswered requests *)
Definition unans (js : list (Z * jstatus)) (l : list Z) : Z :=
  Z.of_nat (length (filter (fun j => negb (is_answered js j)) l)).
Definition unanswered (m : jst) (b : Z) : Z := unans (jstat m) (jobs_of (jbatches m) b).

Lemma unans_ext : forall js js' l,
  (forall j, In j l -> is_answered js' j = is_answered js j) -> unans js' l = unans js l.
Proof.
  intros js js' l H. unfold unans. f_equal. f_equal. apply filter_ext_in.
  intros j Hj. rewrite (H j Hj). reflexivity.
Qed.

Lemma unans_answer : forall js js' l j,
  NoDup l -> In j l -> is_answered js j = false -> is_answered js' j = true ->
  (forall j', In j' l -> j' <> j -> is_answered js' j' = is_answered js j') ->
  unans js' l = unans js l - 1.
Proof.
  intros js js' l j Hd. induction Hd as [|x t Hn Hd IH]; intros Hin Hf Ht Ho; [destruct Hin|].
  unfold unans in *. cbn [filter].
  destruct Hin as [->|Hin].
  - rewrite Hf, Ht. cbn [negb length].
    assert (E : filter (fun j0 => negb (is_answered js' j0)) t = filter (fun j0 => negb (is_answered js j0)) t).
    { apply filter_ext_in. intros y Hy. rewrite Ho; [reflexivity | right; exact Hy |].
      intros ->. contradiction. }
    rewrite E. lia.
  - assert (x <> j) by (intros ->; contradiction).
    rewrite (Ho x (or_introl eq_refl) H).
    assert (IH' := IH Hin Hf Ht (fun j' Hj' => Ho j' (or_intror Hj'))).
    destruct (is_answered js x); cbn [negb length]; lia.
Qed.

Lemma unans_zero : forall js l, unans js l = 0 <-> forallb (is_answered js) l = true.
Proof.
  intros js l. unfold unans. induction l as [|x t IH]; cbn [filter forallb length]; [intuition|].
  destruct (is_answered js x); cbn [negb andb length]; [exact IH|]. split; [lia | discriminate].
Qed.

Lemma unans_all : forall js l, (forall j, In j l -> is_answered js j = false) -> unans js l = Z.of_nat (length l).
Proof.
  intros js l H. unfold unans. f_equal. f_equal. induction l as [|x t IH]; [reflexivity|].
  cbn [filter]. rewrite (H x (or_introl eq_refl)). cbn [negb]. f_equal. apply IH.
  intros j Hj. apply H. right. exact Hj.
Qed.

Lemma unans_nonneg : forall js l, 0 <= unans js l.
Proof. intros. unfold unans. lia. Qed.

Lemma is_answered_upd : forall js j X j',
  is_answered (z_upd js j X) j' =
  if j' =? j then match z_get js j with Some _ => match X with Answered => true | _ => false end | None => false end
  else is_answered js j'.
Proof.
  intros js j X j'. unfold is_answered, status_of. rewrite z_get_upd.
  destruct (j' =? j); [|reflexivity]. destruct (z_get js j); [|reflexivity]. destruct X; reflexivity.
Qed.

(* ---------------------------------------------------- batches and jobs *)
Definition jrange (q0 : Z) (n : nat) : list Z := map (fun i => q0 + Z.of_nat i) (seq 0 n).

Lemma In_jrange : forall q0 n j, In j (jrange q0 n) <-> q0 <= j < q0 + Z.of_nat n.
Proof.
  intros q0 n j. unfold jrange. rewrite in_map_iff. split.
  - intros [i [Hi Hin]]. apply in_seq in Hin. lia.
  - intros H. exists (Z.to_nat (j - q0)). split; [lia|]. apply in_seq. lia.
Qed.

Lemma NoDup_jrange : forall q0 n, NoDup (jrange q0 n).
Proof.
  intros q0 n. unfold jrange. apply FinFun.Injective_map_NoDup; [|apply seq_NoDup].
  intros a b H. lia.
Qed.

Lemma length_jrange : forall q0 n, length (jrange q0 n) = n.
Proof. intros. unfold jrange. rewrite map_length, seq_length. reflexivity. Qed.

Lemma jobs_of_cons : forall jbs nb q0 n b,
  jobs_of ((nb, (q0, n)) :: jbs) b = if nb =? b then jrange q0 n else jobs_of jbs b.
Proof. intros. unfold jobs_of. rewrite z_get_cons. destruct (nb =? b); reflexivity. Qed.

Lemma batch_of_cons : forall jbs nb q0 n j,
  batch_of ((nb, (q0, n)) :: jbs) j =
  if (q0 <=? j) && (j <? q0 + Z.of_nat n) then Some nb else batch_of jbs j.
Proof.
  intros. unfold batch_of. cbn [find fst snd]. destruct ((q0 <=? j) && (j <? q0 + Z.of_nat n)); reflexivity.
Qed.

Lemma NoDup_jobs_of : forall jbs b, NoDup (jobs_of jbs b).
Proof.
  intros jbs b. unfold jobs_of. destruct (z_get jbs b) as [[q0 n]|]; [apply NoDup_jrange | constructor].
Qed.

(* the monitor's retire *)
Lemma stat_retire : forall m j,
  status_of (jstat (retire m)) j =
  match status_of (jstat m) j with
  | Some Queued => Some (if live_job m j then Queued else Stale)
  | o => o
  end.
Proof.
  intros m j. unfold retire, status_of. cbn [jstat set_jstat].
  rewrite z_get_map_key.
  2:{ intros x. destruct (snd x); try reflexivity. destruct (live_job m (fst x)); reflexivity. }
  destruct (find (fun p => fst p =? j) (jstat m)) as [x|] eqn:F.
  - destruct (z_get_find_key _ _ _ F) as [Hk Hg]. rewrite Hg. cbn [option_map]. subst j.
    destruct x as [k v]. cbn [fst snd].
    destruct v; try reflexivity. destruct (live_job m k); reflexivity.
  - unfold z_get. rewrite F. reflexivity.
Qed.

Lemma live_job_retire : forall m j, live_job (retire m) j = live_job m j.
Proof. reflexivity. Qed.

(* ==================================================== the simulation relation
   between the dispatcher's bookkeeping (work heap, currentBatches,
   currentQueries, workers, the two counters) and the monitor's job table. *)
Definition qmapc (qs : list (Z * Z)) (m : jst) (j : Z) : Prop :=
  exists b, batch_of (jbatches m) j = Some b /\ z_get qs j = Some b.

Record FullC (wk : list Z) (bs : list (Z * batch)) (qs : list (Z * Z)) (ws : list worker)
             (bi qi : Z) (m : jst) : Prop := {
  f_wt : jwt m = proj ws;
  f_nb : jnextb m = bi;
  f_nq : jnextq m = qi;
  f_nn : 0 <= bi /\ 0 <= qi;
  f_live : forall b, In b (jlive m) <-> z_get bs b <> None;
  f_bkey : forall b x, z_get (jbatches m) b = Some x -> 0 <= b < bi;
  f_bof : forall j b, batch_of (jbatches m) j = Some b <-> In j (jobs_of (jbatches m) b);
  f_jrange : forall b j, In j (jobs_of (jbatches m) b) -> 0 <= j < qi;
  f_sdef : forall j, status_of (jstat m) j <> None -> 0 <= j < qi;
  (* a waiting job of a live batch: in the heap, mapped to its own batch *)
  f_q : forall j, status_of (jstat m) j = Some Queued ->
        In j wk /\ live_job m j = true /\ qmapc qs m j;
  (* a waiting job of a finished batch: still in the heap, still mapped *)
  f_st : forall j, status_of (jstat m) j = Some Stale -> In j wk /\ qmapc qs m j;
  (* a job in flight: exactly the active job of that worker, still mapped *)
  f_run : forall j p, status_of (jstat m) j = Some (Running p) ->
        (exists w, wlook ws p = Some w /\ wactive w = Some j) /\ qmapc qs m j;
  f_work : forall j, In j wk -> status_of (jstat m) j = Some Queued \/ status_of (jstat m) j = Some Stale;
  f_act : forall w j, In w ws -> wactive w = Some j -> status_of (jstat m) j = Some (Running (wname w));
  f_sorted : StronglySorted Z.lt wk;
  f_names : NoDup (map wname ws);
  (* the remaining counter of a live batch = its requests without a
     successful result *)
  f_rem : forall b bt, z_get bs b = Some bt -> rem bt = unanswered m b
}.

Lemma jobs_of_key : forall jbs b j, In j (jobs_of jbs b) -> exists x, z_get jbs b = Some x.
Proof.
  intros jbs b j H. unfold jobs_of in H. destruct (z_get jbs b) as [x|]; [exists x; reflexivity | destruct H].
Qed.

(* ------------------------------------------ verdicts retire their batches *)
Lemma F_gen : forall wk bs bs' qs ws bi qi m dead,
  FullC wk bs qs ws bi qi m ->
  (forall b, z_get bs' b <> None <-> (z_get bs b <> None /\ mem b dead = false)) ->
  (forall b bt', z_get bs' b = Some bt' -> exists bt, z_get bs b = Some bt /\ rem bt' = rem bt) ->
  FullC wk bs' qs ws bi qi (retire (set_jlive m (filter (fun b => negb (mem b dead)) (jlive m)))).
Proof.
  intros wk bs bs' qs ws bi qi m dead H Hk Hr.
  set (L := filter (fun b => negb (mem b dead)) (jlive m)).
  assert (Hst : forall j, status_of (jstat (retire (set_jlive m L))) j =
            match status_of (jstat m) j with
            | Some Queued => Some (if live_job (set_jlive m L) j then Queued else Stale)
            | o => o end).
  { intros j. rewrite stat_retire. reflexivity. }
  constructor.
  - exact (f_wt _ _ _ _ _ _ _ H).
  - exact (f_nb _ _ _ _ _ _ _ H).
  - exact (f_nq _ _ _ _ _ _ _ H).
  - exact (f_nn _ _ _ _ _ _ _ H).
  - intros b. change (jlive (retire (set_jlive m L))) with L. unfold L. rewrite filter_In, Hk.
    rewrite (f_live _ _ _ _ _ _ _ H b). rewrite negb_true_iff. tauto.
  - exact (f_bkey _ _ _ _ _ _ _ H).
  - exact (f_bof _ _ _ _ _ _ _ H).
  - exact (f_jrange _ _ _ _ _ _ _ H).
  - intros j Hj. rewrite Hst in Hj. apply (f_sdef _ _ _ _ _ _ _ H j).
    destruct (status_of (jstat m) j) as [[]|]; congruence.
  - intros j Hj. rewrite Hst in Hj.
    destruct (status_of (jstat m) j) as [[]|] eqn:E; try discriminate.
    destruct (live_job (set_jlive m L) j) eqn:Lv; [|discriminate].
    destruct (f_q _ _ _ _ _ _ _ H j E) as (A & B & C).
    split; [exact A|]. split; [exact Lv | exact C].
  - intros j Hj. rewrite Hst in Hj.
    destruct (status_of (jstat m) j) as [[]|] eqn:E; try discriminate.
    + destruct (f_q _ _ _ _ _ _ _ H j E) as (A & B & C). split; [exact A | exact C].
    + exact (f_st _ _ _ _ _ _ _ H j E).
  - intros j p Hj. rewrite Hst in Hj.
    destruct (status_of (jstat m) j) as [[]|] eqn:E; try discriminate.
    + destruct (live_job (set_jlive m L) j); discriminate.
    + inversion Hj; subst. exact (f_run _ _ _ _ _ _ _ H j p E).
  - intros j Hj. rewrite Hst.
    destruct (f_work _ _ _ _ _ _ _ H j Hj) as [E|E]; rewrite E.
    + destruct (live_job (set_jlive m L) j); [left | right]; reflexivity.
    + right. reflexivity.
  - intros w j Hw Ha. rewrite Hst. rewrite (f_act _ _ _ _ _ _ _ H w j Hw Ha). reflexivity.
  - exact (f_sorted _ _ _ _ _ _ _ H).
  - exact (f_names _ _ _ _ _ _ _ H).
  - intros b bt' Hb. destruct (Hr b bt' Hb) as [bt [Hb0 Hrem]].
    rewrite Hrem, (f_rem _ _ _ _ _ _ _ H b bt Hb0).
    unfold unanswered. change (jbatches (retire (set_jlive m L))) with (jbatches m).
    symmetry. apply unans_ext. intros j _. unfold is_answered. rewrite Hst.
    destruct (status_of (jstat m) j) as [[]|]; try reflexivity.
    destruct (live_job (set_jlive m L) j); reflexivity.
Qed.

(* --------------------------------------------- a result from the worker
   that holds the job: the job becomes X (answered / dropped / queued again) *)
Lemma R_gen : forall wk wk' bs bs' qs qs' ws bi qi m j p X,
  FullC wk bs qs ws bi qi m ->
  status_of (jstat m) j = Some (Running p) ->
  (X = Answered \/ X = Dropped \/
   (X = Queued /\ live_job m j = true /\ In j wk' /\ z_get qs' j = z_get qs j)) ->
  (forall x, In x wk' -> In x wk \/ (X = Queued /\ x = j)) ->
  (forall x, In x wk -> In x wk') ->
  StronglySorted Z.lt wk' ->
  (forall j', j' <> j -> z_get qs' j' = z_get qs j') ->
  (forall b, z_get bs' b <> None <-> z_get bs b <> None) ->
  (forall b bt', z_get bs' b = Some bt' -> rem bt' = unans (z_upd (jstat m) j X) (jobs_of (jbatches m) b)) ->
  FullC wk' bs' qs' (upd_worker ws p None) bi qi
        (set_jstat (set_jwt m (wt_busy (jwt m) p false)) (z_upd (jstat m) j X)).
Proof.
  intros wk wk' bs bs' qs qs' ws bi qi m j p X H Hr HX Hwk Hwk2 Hso Hqs Hbs Hrem.
  set (m' := set_jstat (set_jwt m (wt_busy (jwt m) p false)) (z_upd (jstat m) j X)).
  assert (Hst : forall j', status_of (jstat m') j' = if j' =? j then Some X else status_of (jstat m) j').
  { intros j'. unfold m', status_of. cbn [jstat set_jstat]. rewrite z_get_upd.
    destruct (j' =? j); [|reflexivity]. unfold status_of in Hr. rewrite Hr. reflexivity. }
  destruct (f_run _ _ _ _ _ _ _ H j p Hr) as [[w [Hw Hwa]] Hqm].
  assert (Hqm' : forall j', j' <> j -> qmapc qs m j' -> qmapc qs' m' j').
  { intros j' Hne [b [B1 B2]]. exists b. split; [exact B1 | rewrite Hqs; assumption]. }
  assert (HnotRun : forall q, X <> Running q) by (intros q; destruct HX as [->|[->|[-> _]]]; discriminate).
  assert (HnotStale : X <> Stale) by (destruct HX as [->|[->|[-> _]]]; discriminate).
  constructor.
  - change (jwt m') with (wt_busy (jwt m) p false). rewrite (f_wt _ _ _ _ _ _ _ H).
    symmetry. apply (proj_busy ws p None).
  - exact (f_nb _ _ _ _ _ _ _ H).
  - exact (f_nq _ _ _ _ _ _ _ H).
  - exact (f_nn _ _ _ _ _ _ _ H).
  - intros b. rewrite Hbs. exact (f_live _ _ _ _ _ _ _ H b).
  - exact (f_bkey _ _ _ _ _ _ _ H).
  - exact (f_bof _ _ _ _ _ _ _ H).
  - exact (f_jrange _ _ _ _ _ _ _ H).
  - intros j' Hj'. rewrite Hst in Hj'. destruct (j' =? j) eqn:E.
    + apply Z.eqb_eq in E. subst j'. apply (f_sdef _ _ _ _ _ _ _ H j). congruence.
    + apply (f_sdef _ _ _ _ _ _ _ H j' Hj').
  - intros j' Hj'. rewrite Hst in Hj'. destruct (j' =? j) eqn:E.
    + apply Z.eqb_eq in E. subst j'. inversion Hj' as [HXq].
      destruct HX as [HX|[HX|(HX & Hl & Hin & Hq)]]; try congruence.
      split; [exact Hin|]. split; [exact Hl|].
      destruct Hqm as [b [B1 B2]]. exists b. split; [exact B1 | congruence].
    + destruct (f_q _ _ _ _ _ _ _ H j' Hj') as (A & B & C).
      split; [apply Hwk2; exact A|]. split; [exact B | apply Hqm'; [lia | exact C]].
  - intros j' Hj'. rewrite Hst in Hj'. destruct (j' =? j) eqn:E.
    + inversion Hj'. congruence.
    + destruct (f_st _ _ _ _ _ _ _ H j' Hj') as (A & C).
      split; [apply Hwk2; exact A | apply Hqm'; [lia | exact C]].
  - intros j' p' Hj'. rewrite Hst in Hj'. destruct (j' =? j) eqn:E.
    + inversion Hj' as [HXr]. exfalso. apply (HnotRun p'). exact HXr.
    + destruct (f_run _ _ _ _ _ _ _ H j' p' Hj') as [[w' [Hw' Hwa']] C].
      split; [|apply Hqm'; [lia | exact C]].
      assert (p' <> p).
      { intros ->. rewrite Hw in Hw'. inversion Hw'; subst w'. rewrite Hwa in Hwa'. inversion Hwa'. lia. }
      exists w'. split; [rewrite wlook_upd_other; assumption | exact Hwa'].
  - intros x Hx. rewrite Hst. destruct (Hwk x Hx) as [Hx0 | [HXq ->]].
    + assert (x <> j).
      { intros ->. destruct (f_work _ _ _ _ _ _ _ H j Hx0) as [E|E]; congruence. }
      replace (x =? j) with false by lia. exact (f_work _ _ _ _ _ _ _ H x Hx0).
    + rewrite Z.eqb_refl. left. congruence.
  - intros w' j' Hin Ha. apply In_upd_worker in Hin. destruct Hin as [[_ Hn] | [Hin Hn]]; [congruence|].
    assert (Hs := f_act _ _ _ _ _ _ _ H w' j' Hin Ha).
    rewrite Hst. destruct (j' =? j) eqn:E; [|exact Hs].
    apply Z.eqb_eq in E. subst j'. rewrite Hr in Hs. inversion Hs. congruence.
  - exact Hso.
  - rewrite names_upd_worker. exact (f_names _ _ _ _ _ _ _ H).
  - intros b bt' Hb. rewrite (Hrem b bt' Hb). reflexivity.
Qed.

(* ------------------------------------------------------------- hand-out *)
Lemma D_step : forall j rest bs qs ws bi qi m p,
  FullC (j :: rest) bs qs ws bi qi m ->
  In p (map wname (filter is_free ws)) ->
  (match status_of (jstat m) j with Some Queued | Some Stale => true | _ => false end = true) /\
  existsb (fun x => (fst x <? j) && is_queued (jstat m) (fst x) && live_job m (fst x)) (jstat m) = false /\
  FullC rest bs qs (upd_worker ws p (Some j)) bi qi
        (set_jwt (set_jstat m (z_upd (jstat m) j (Running p))) (wt_busy (jwt m) p true)).
Proof.
  intros j rest bs qs ws bi qi m p H Hp.
  apply free_In in Hp. destruct Hp as [w0 [Hin0 [Hn0 Hf0]]].
  assert (Hw0 : wlook ws p = Some w0).
  { rewrite <- Hn0. apply wlook_In_nodup; [exact (f_names _ _ _ _ _ _ _ H) | exact Hin0]. }
  assert (Ha0 : wactive w0 = None).
  { unfold is_free in Hf0. destruct (wactive w0); [discriminate | reflexivity]. }
  assert (Hj : status_of (jstat m) j = Some Queued \/ status_of (jstat m) j = Some Stale)
    by (apply (f_work _ _ _ _ _ _ _ H); left; reflexivity).
  assert (Hso := f_sorted _ _ _ _ _ _ _ H).
  assert (Hnr : ~ In j rest) by (intros Hx; apply (sorted_head_lt _ _ _ Hso) in Hx; lia).
  split; [destruct Hj as [E|E]; rewrite E; reflexivity|].
  split.
  { destruct (existsb _ (jstat m)) eqn:Ex; [|reflexivity]. exfalso.
    apply existsb_exists in Ex. destruct Ex as [x [_ Hx]].
    apply andb_true_iff in Hx. destruct Hx as [Hx Hl]. apply andb_true_iff in Hx. destruct Hx as [Hlt Hq].
    unfold is_queued in Hq. destruct (status_of (jstat m) (fst x)) as [[]|] eqn:E; try discriminate.
    destruct (f_q _ _ _ _ _ _ _ H _ E) as (A & _). destruct A as [A|A]; [lia|].
    apply (sorted_head_lt _ _ _ Hso) in A. lia. }
  set (m' := set_jwt (set_jstat m (z_upd (jstat m) j (Running p))) (wt_busy (jwt m) p true)).
  assert (Hst : forall j', status_of (jstat m') j' = if j' =? j then Some (Running p) else status_of (jstat m) j').
  { intros j'. unfold m', status_of. cbn [jstat set_jstat set_jwt]. rewrite z_get_upd.
    destruct (j' =? j); [|reflexivity]. unfold status_of in Hj. destruct Hj as [E|E]; rewrite E; reflexivity. }
  assert (Hqj : qmapc qs m j).
  { destruct Hj as [E|E]; [apply (f_q _ _ _ _ _ _ _ H j E) | apply (f_st _ _ _ _ _ _ _ H j E)]. }
  constructor.
  - change (jwt m') with (wt_busy (jwt m) p true). rewrite (f_wt _ _ _ _ _ _ _ H).
    symmetry. apply (proj_busy ws p (Some j)).
  - exact (f_nb _ _ _ _ _ _ _ H).
  - exact (f_nq _ _ _ _ _ _ _ H).
  - exact (f_nn _ _ _ _ _ _ _ H).
  - exact (f_live _ _ _ _ _ _ _ H).
  - exact (f_bkey _ _ _ _ _ _ _ H).
  - exact (f_bof _ _ _ _ _ _ _ H).
  - exact (f_jrange _ _ _ _ _ _ _ H).
  - intros j' Hj'. rewrite Hst in Hj'. destruct (j' =? j) eqn:E.
    + apply Z.eqb_eq in E. subst j'. apply (f_sdef _ _ _ _ _ _ _ H j). destruct Hj; congruence.
    + apply (f_sdef _ _ _ _ _ _ _ H j' Hj').
  - intros j' Hj'. rewrite Hst in Hj'. destruct (j' =? j) eqn:E; [discriminate|].
    destruct (f_q _ _ _ _ _ _ _ H j' Hj') as (A & B & C).
    split; [destruct A as [A|A]; [lia | exact A]|]. split; [exact B | exact C].
  - intros j' Hj'. rewrite Hst in Hj'. destruct (j' =? j) eqn:E; [discriminate|].
    destruct (f_st _ _ _ _ _ _ _ H j' Hj') as (A & C).
    split; [destruct A as [A|A]; [lia | exact A] | exact C].
  - intros j' p' Hj'. rewrite Hst in Hj'. destruct (j' =? j) eqn:E.
    + apply Z.eqb_eq in E. subst j'. inversion Hj'; subst p'. split; [|exact Hqj].
      eexists. split; [apply wlook_upd_same; exact Hw0 | reflexivity].
    + destruct (f_run _ _ _ _ _ _ _ H j' p' Hj') as [[w' [Hw' Hwa']] C]. split; [|exact C].
      assert (p' <> p) by (intros ->; rewrite Hw0 in Hw'; inversion Hw'; subst w'; congruence).
      exists w'. split; [rewrite wlook_upd_other; assumption | exact Hwa'].
  - intros x Hx. rewrite Hst.
    assert (x <> j) by (intros ->; contradiction).
    replace (x =? j) with false by lia. apply (f_work _ _ _ _ _ _ _ H). right. exact Hx.
  - intros w' j' Hin Ha. apply In_upd_worker in Hin. rewrite Hst. destruct Hin as [[Hn Hact] | [Hin Hn]].
    + rewrite Hact in Ha. inversion Ha; subst j'. rewrite Z.eqb_refl, Hn. reflexivity.
    + assert (Hs := f_act _ _ _ _ _ _ _ H w' j' Hin Ha).
      destruct (j' =? j) eqn:E; [|exact Hs].
      apply Z.eqb_eq in E. subst j'. destruct Hj; congruence.
  - exact (sorted_tail _ _ Hso).
  - rewrite names_upd_worker. exact (f_names _ _ _ _ _ _ _ H).
  - intros b bt Hb. rewrite (f_rem _ _ _ _ _ _ _ H b bt Hb). unfold unanswered.
    change (jbatches m') with (jbatches m). symmetry. apply unans_ext.
    intros j' _. unfold is_answered. rewrite Hst. destruct (j' =? j) eqn:E; [|reflexivity].
    apply Z.eqb_eq in E. subst j'. destruct Hj as [E|E]; rewrite E; reflexivity.
Qed.

(* ------------------------------------------- peers connect, workers exit *)
Lemma W_gen : forall wk bs qs ws ws' bi qi m T,
  FullC wk bs qs ws bi qi m ->
  T = proj ws' ->
  NoDup (map wname ws') ->
  (forall p' w' j, wlook ws p' = Some w' -> wactive w' = Some j ->
     exists w'', wlook ws' p' = Some w'' /\ wactive w'' = Some j) ->
  (forall w' j, In w' ws' -> wactive w' = Some j ->
     exists w0, In w0 ws /\ wname w0 = wname w' /\ wactive w0 = Some j) ->
  FullC wk bs qs ws' bi qi (set_jwt m T).
Proof.
  intros wk bs qs ws ws' bi qi m T H HT Hd H1 H2.
  constructor; try (destruct H; assumption).
  - intros j p Hj. destruct (f_run _ _ _ _ _ _ _ H j p Hj) as [[w [Hw Hwa]] C]. split; [|exact C].
    exact (H1 p w j Hw Hwa).
  - intros w' j Hin Ha. destruct (H2 w' j Hin Ha) as [w0 [Hin0 [Hn0 Ha0]]].
    rewrite <- Hn0. exact (f_act _ _ _ _ _ _ _ H w0 j Hin0 Ha0).
Qed.

(* ------------------------------------------------------------ new batch *)
Lemma fold_insert_In : forall js w x,
  In x (fold_left (fun w j => insert_job j w) js w) <-> In x js \/ In x w.
Proof.
  induction js as [|j t IH]; intros w x; cbn [fold_left].
  - cbn. tauto.
  - rewrite IH, In_insert_iff. cbn [In]. split; intros H; intuition auto.
Qed.

Lemma fold_insert_sorted : forall js w,
  StronglySorted Z.lt w -> NoDup js -> (forall j, In j js -> ~ In j w) ->
  StronglySorted Z.lt (fold_left (fun w j => insert_job j w) js w).
Proof.
  induction js as [|j t IH]; intros w Hs Hd Hn; cbn [fold_left]; [exact Hs|].
  inversion Hd as [|? ? Hnj Hd']; subst. apply IH.
  - apply insert_sorted; [exact Hs | apply Hn; left; reflexivity].
  - exact Hd'.
  - intros x Hx Hin. apply In_insert_iff in Hin. destruct Hin as [->|Hin]; [contradiction|].
    apply (Hn x); [right; exact Hx | exact Hin].
Qed.

Lemma fold_put_get : forall js (q : list (Z * Z)) v k,
  z_get (fold_left (fun q j => z_put q j v) js q) k = if mem k js then Some v else z_get q k.
Proof.
  induction js as [|j t IH]; intros q v k; cbn [fold_left]; [reflexivity|].
  rewrite IH. change (mem k (j :: t)) with ((k =? j) || mem k t).
  destruct (mem k t); [rewrite orb_true_r; reflexivity|]. rewrite orb_false_r.
  destruct (k =? j) eqn:E.
  - apply Z.eqb_eq in E. subst. apply z_get_put_same.
  - apply z_get_put_other. lia.
Qed.

Lemma z_get_newstat : forall q0 n j,
  z_get (map (fun i => (q0 + Z.of_nat i, Queued)) (seq 0 n)) j =
  if (q0 <=? j) && (j <? q0 + Z.of_nat n) then Some Queued else None.
Proof.
  intros q0 n j. induction n as [|n IH].
  - cbn [seq map]. destruct ((q0 <=? j) && (j <? q0 + Z.of_nat 0)) eqn:A; [lia | reflexivity].
  - rewrite seq_S, map_app, z_get_app, IH. cbn [map Nat.add]. rewrite z_get_cons.
    destruct ((q0 <=? j) && (j <? q0 + Z.of_nat n)) eqn:A;
      destruct (q0 + Z.of_nat n =? j) eqn:B;
      destruct ((q0 <=? j) && (j <? q0 + Z.of_nat (S n))) eqn:C; try reflexivity; lia.
Qed.

Lemma mem_jrange : forall q0 n j, mem j (jrange q0 n) = (q0 <=? j) && (j <? q0 + Z.of_nat n).
Proof.
  intros q0 n j. destruct (mem j (jrange q0 n)) eqn:E.
  - apply mem_true_iff in E. apply In_jrange in E. lia.
  - apply mem_false_iff in E. rewrite In_jrange in E. lia.
Qed.

Lemma N_new : forall wk bs qs ws bi qi m m2 n bt,
  FullC wk bs qs ws bi qi m ->
  jbatches m2 = (jnextb m, (jnextq m, n)) :: jbatches m ->
  jlive m2 = jnextb m :: jlive m ->
  jstat m2 = jstat m ++ map (fun i => (jnextq m + Z.of_nat i, Queued)) (seq 0 n) ->
  jwt m2 = jwt m -> jnextb m2 = jnextb m + 1 -> jnextq m2 = jnextq m + Z.of_nat n ->
  rem bt = Z.of_nat n ->
  FullC (fold_left (fun w j => insert_job j w) (jrange qi n) wk) ((bi, bt) :: bs)
        (fold_left (fun q j => z_put q j bi) (jrange qi n) qs) ws (bi + 1) (qi + Z.of_nat n) m2.
Proof.
  intros wk bs qs ws bi qi m m2 n bt H Ejb Ejl Ejs Ejw Enb2 Enq2 Hrem.
  assert (Enb := f_nb _ _ _ _ _ _ _ H). assert (Enq := f_nq _ _ _ _ _ _ _ H).
  destruct (f_nn _ _ _ _ _ _ _ H) as [Hbi Hqi].
  rewrite Enb, Enq in *.
  set (inr := fun j => (qi <=? j) && (j <? qi + Z.of_nat n)).
  assert (Hst : forall j, status_of (jstat m2) j =
            match status_of (jstat m) j with Some v => Some v | None => if inr j then Some Queued else None end).
  { intros j. unfold status_of. rewrite Ejs, z_get_app, z_get_newstat. reflexivity. }
  assert (Hold : forall j, status_of (jstat m) j <> None -> inr j = false).
  { intros j Hj. apply (f_sdef _ _ _ _ _ _ _ H) in Hj. unfold inr. lia. }
  assert (Hbof : forall j, batch_of (jbatches m2) j = if inr j then Some bi else batch_of (jbatches m) j).
  { intros j. rewrite Ejb, batch_of_cons. reflexivity. }
  assert (Hjof : forall b, jobs_of (jbatches m2) b = if bi =? b then jrange qi n else jobs_of (jbatches m) b).
  { intros b. rewrite Ejb, jobs_of_cons. reflexivity. }
  assert (Hqs : forall k, z_get (fold_left (fun q j => z_put q j bi) (jrange qi n) qs) k =
            if inr k then Some bi else z_get qs k).
  { intros k. rewrite fold_put_get, mem_jrange. reflexivity. }
  assert (Holdjobs : forall b j, In j (jobs_of (jbatches m) b) -> inr j = false /\ b <> bi).
  { intros b j Hj. split.
    - apply (f_jrange _ _ _ _ _ _ _ H) in Hj. unfold inr. lia.
    - apply jobs_of_key in Hj. destruct Hj as [x Hx]. apply (f_bkey _ _ _ _ _ _ _ H) in Hx. lia. }
  assert (Hqm : forall j, inr j = false -> qmapc qs m j ->
            qmapc (fold_left (fun q j => z_put q j bi) (jrange qi n) qs) m2 j).
  { intros j Hj [b [B1 B2]]. exists b. rewrite Hbof, Hqs, Hj. split; assumption. }
  assert (Hlv : forall j, inr j = false -> live_job m j = true -> live_job m2 j = true).
  { intros j Hj Hl. unfold live_job in *. rewrite Hbof, Hj.
    destruct (batch_of (jbatches m) j) as [b|]; [|discriminate].
    rewrite Ejl. apply mem_true_iff. right. apply mem_true_iff. exact Hl. }
  assert (Hans : forall j, is_answered (jstat m2) j = is_answered (jstat m) j).
  { intros j. unfold is_answered. rewrite Hst. destruct (status_of (jstat m) j); [reflexivity|].
    destruct (inr j); reflexivity. }
  constructor.
  - rewrite Ejw. exact (f_wt _ _ _ _ _ _ _ H).
  - exact Enb2.
  - exact Enq2.
  - lia.
  - intros b. rewrite Ejl, z_get_cons. cbn [In]. rewrite (f_live _ _ _ _ _ _ _ H b).
    destruct (bi =? b) eqn:E.
    + split; [intros _; discriminate | intros _; left; lia].
    + split; [intros [Hx|Hx]; [lia | exact Hx] | intros Hx; right; exact Hx].
  - intros b x Hx. rewrite Ejb, z_get_cons in Hx. destruct (bi =? b) eqn:E; [lia|].
    apply (f_bkey _ _ _ _ _ _ _ H) in Hx. lia.
  - intros j b. rewrite Hbof, Hjof. destruct (inr j) eqn:Ej.
    + split.
      * intros Hx. inversion Hx; subst b. rewrite Z.eqb_refl. apply In_jrange. unfold inr in Ej. lia.
      * intros Hx. destruct (bi =? b) eqn:E; [f_equal; lia|].
        apply Holdjobs in Hx. destruct Hx. congruence.
    + destruct (bi =? b) eqn:E.
      * split.
        -- intros Hx. apply (f_bof _ _ _ _ _ _ _ H) in Hx. apply Holdjobs in Hx. lia.
        -- intros Hx. apply In_jrange in Hx. unfold inr in Ej. lia.
      * exact (f_bof _ _ _ _ _ _ _ H j b).
  - intros b j. rewrite Hjof. destruct (bi =? b).
    + intros Hx. apply In_jrange in Hx. lia.
    + intros Hx. apply (f_jrange _ _ _ _ _ _ _ H) in Hx. lia.
  - intros j Hj. rewrite Hst in Hj. destruct (status_of (jstat m) j) eqn:E.
    + assert (0 <= j < qi) by (apply (f_sdef _ _ _ _ _ _ _ H); congruence). lia.
    + destruct (inr j) eqn:Ej; [unfold inr in Ej; lia | congruence].
  - intros j Hj. rewrite Hst in Hj. destruct (status_of (jstat m) j) as [v|] eqn:E.
    + inversion Hj; subst v. assert (Ej : inr j = false) by (apply Hold; congruence).
      destruct (f_q _ _ _ _ _ _ _ H j E) as (A & B & C).
      split; [apply fold_insert_In; right; exact A|]. split; [apply Hlv; assumption | apply Hqm; assumption].
    + destruct (inr j) eqn:Ej; [|discriminate].
      split; [apply fold_insert_In; left; apply In_jrange; unfold inr in Ej; lia|]. split.
      * unfold live_job. rewrite Hbof, Ej, Ejl. apply mem_true_iff. left. reflexivity.
      * exists bi. rewrite Hbof, Hqs, Ej. split; reflexivity.
  - intros j Hj. rewrite Hst in Hj. destruct (status_of (jstat m) j) as [v|] eqn:E.
    + inversion Hj; subst v. assert (Ej : inr j = false) by (apply Hold; congruence).
      destruct (f_st _ _ _ _ _ _ _ H j E) as (A & C).
      split; [apply fold_insert_In; right; exact A | apply Hqm; assumption].
    + destruct (inr j); discriminate.
  - intros j p Hj. rewrite Hst in Hj. destruct (status_of (jstat m) j) as [v|] eqn:E.
    + inversion Hj; subst v. assert (Ej : inr j = false) by (apply Hold; congruence).
      destruct (f_run _ _ _ _ _ _ _ H j p E) as (A & C). split; [exact A | apply Hqm; assumption].
    + destruct (inr j); discriminate.
  - intros x Hx. apply fold_insert_In in Hx. rewrite Hst. destruct Hx as [Hx|Hx].
    + apply In_jrange in Hx. destruct (status_of (jstat m) x) eqn:E.
      * assert (0 <= x < qi) by (apply (f_sdef _ _ _ _ _ _ _ H); congruence). lia.
      * replace (inr x) with true by (unfold inr; lia). left. reflexivity.
    + destruct (f_work _ _ _ _ _ _ _ H x Hx) as [E|E]; rewrite E; [left | right]; reflexivity.
  - intros w j Hin Ha. rewrite Hst, (f_act _ _ _ _ _ _ _ H w j Hin Ha). reflexivity.
  - apply fold_insert_sorted; [exact (f_sorted _ _ _ _ _ _ _ H) | apply NoDup_jrange |].
    intros j Hj Hin. apply In_jrange in Hj.
    assert (0 <= j < qi); [|lia]. apply (f_sdef _ _ _ _ _ _ _ H).
    destruct (f_work _ _ _ _ _ _ _ H j Hin) as [E|E]; congruence.
  - exact (f_names _ _ _ _ _ _ _ H).
  - intros b bt' Hb. rewrite z_get_cons in Hb. unfold unanswered. rewrite Hjof.
    destruct (bi =? b) eqn:E.
    + inversion Hb; subst bt'. rewrite Hrem. rewrite unans_all; [rewrite length_jrange; reflexivity|].
      intros j Hj. apply In_jrange in Hj. rewrite Hans. unfold is_answered.
      destruct (status_of (jstat m) j) eqn:Es; [|reflexivity].
      assert (0 <= j < qi) by (apply (f_sdef _ _ _ _ _ _ _ H); congruence). lia.
    + rewrite (f_rem _ _ _ _ _ _ _ H b bt' Hb). unfold unanswered. symmetry. apply unans_ext.
      intros j _. apply Hans.
Qed.

(* ------------------------------------------------ the phases of [jstep] *)
Definition j_event (s : jst) (e : ev) (o : obs) : jst :=
  let s1 := set_jwt s (wt_event (jwt s) e) in
  match e with
  | NewBatch n _ _ _ =>
    {| jbatches := (jnextb s1, (jnextq s1, n)) :: jbatches s1;
       jlive := jnextb s1 :: jlive s1;
       jstat := jstat s1 ++ map (fun i => (jnextq s1 + Z.of_nat i, Queued)) (seq 0 n);
       jwt := jwt s1; jnextb := jnextb s1 + 1; jnextq := jnextq s1 + Z.of_nat n;
       jenv := jenv s1; jstopped := false |}
  | Result j _ err =>
    if live_job s1 j then
      set_jstat s1 (z_upd (jstat s1) j
        (if is_ok err then Answered
         else if is_canceled err || negb (is_nil (omax o)) then Dropped
         else Queued))
    else set_jstat s1 (z_upd (jstat s1) j Dropped)
  | _ => s1
  end.

Definition j_due (s2 : jst) (e : ev) : list Z :=
  match e with
  | Result j _ JOk =>
    match batch_of (jbatches s2) j with
    | Some b => if mem b (jlive s2) && forallb (is_answered (jstat s2)) (jobs_of (jbatches s2) b) then [b] else []
    | None => []
    end
  | _ => []
  end.
Definition j_said (o : obs) : list Z := map fst (filter (fun p => verdict_eqb (snd p) VSuccess) (overd o)).
Definition j_succ_ok (s2 : jst) (e : ev) (o : obs) : bool :=
  forallb (fun b => mem b (j_said o)) (j_due s2 e) && forallb (fun b => mem b (j_due s2 e)) (j_said o).
Definition j_retire (s2 : jst) (o : obs) : jst :=
  retire (set_jlive s2 (filter (fun b => negb (mem b (map fst (overd o)))) (jlive s2))).
Definition j_waiting (s4 : jst) : bool :=
  existsb (fun x => is_queued (jstat s4) (fst x) && live_job s4 (fst x)) (jstat s4).

Lemma jstep_eq : forall m e o,
  jstopped m = false -> e <> Quit -> jenv m = true -> env_event_ok m e = true ->
  jstep m (e, o) =
  if negb (j_succ_ok (j_event m e o) e o) then None else
  match jdisp (j_retire (j_event m e o) o) (odisp o) with
  | None => None
  | Some s4 => if j_waiting s4 && negb (is_nil (wt_free (jwt s4))) then None else Some s4
  end.
Proof.
  intros m e o Hs He Hv Hk. unfold jstep. rewrite Hs.
  destruct e; try congruence; rewrite Hv, Hk; reflexivity.
Qed.

Lemma jstep_envbad : forall m e o,
  jstopped m = false -> e <> Quit -> jenv m && env_event_ok m e = false ->
  jstep m (e, o) = Some (set_jenv m false).
Proof.
  intros m e o Hs He Hv. unfold jstep. rewrite Hs.
  destruct e; try congruence; rewrite Hv; reflexivity.
Qed.

(* the state relation on model states *)
Definition FullS (s : st) (m : jst) : Prop :=
  FullC (work s) (batches s) (queries s) (workers s) (batchIndex s) (queryIndex s) m.

Lemma FullC_jwt_same : forall wk bs qs ws bi qi m,
  FullC wk bs qs ws bi qi m -> FullC wk bs qs ws bi qi (set_jwt m (jwt m)).
Proof. intros wk bs qs ws bi qi m H. constructor; destruct H; assumption. Qed.

Lemma F_none : forall wk bs qs ws bi qi m,
  FullC wk bs qs ws bi qi m ->
  FullC wk bs qs ws bi qi (retire (set_jlive m (filter (fun b => negb (mem b [])) (jlive m)))).
Proof.
  intros wk bs qs ws bi qi m H. apply (F_gen wk bs bs qs ws bi qi m [] H).
  - intros b. cbn. tauto.
  - intros b bt' Hb. exists bt'. split; [exact Hb | reflexivity].
Qed.

Lemma F_one : forall wk bs bs' qs ws bi qi m bn,
  FullC wk bs qs ws bi qi m ->
  (forall b, z_get bs' b = if b =? bn then None else z_get bs b) ->
  FullC wk bs' qs ws bi qi (retire (set_jlive m (filter (fun b => negb (mem b [bn])) (jlive m)))).
Proof.
  intros wk bs bs' qs ws bi qi m bn H Hb. apply (F_gen wk bs bs' qs ws bi qi m [bn] H).
  - intros b. rewrite Hb. unfold mem. cbn [existsb]. rewrite orb_false_r.
    destruct (b =? bn).
    + split; [intros Hx; congruence | intros [_ Hx]; discriminate].
    + split; [intros Hx; split; [exact Hx | reflexivity] | intros [Hx _]; exact Hx].
  - intros b bt' Hx. rewrite Hb in Hx. destruct (b =? bn); [discriminate|].
    exists bt'. split; [exact Hx | reflexivity].
Qed.

Lemma z_get_del : forall {V} (m : list (Z * V)) k k', z_get (z_del m k) k' = if k' =? k then None else z_get m k'.
Proof.
  intros V m k k'. destruct (k' =? k) eqn:E.
  - apply Z.eqb_eq in E. subst. apply z_get_del_same.
  - apply z_get_del_other. lia.
Qed.

(* ------------------------------------------------------------ dispatching *)
Lemma dispatch_sim : forall fuel s picks acc s' ds m,
  dispatch_phase fuel s picks acc = (s', ds) -> FullS s m ->
  exists new m', ds = acc ++ new /\ jdisp m new = Some m' /\ FullS s' m' /\
    jenv m' = jenv m /\ jstopped m' = jstopped m.
Proof.
  induction fuel as [|f IH]; intros s picks acc s' ds m H HF; cbn [dispatch_phase] in H.
  - inversion H; subst. exists [], m. rewrite app_nil_r. split; [reflexivity|]. split; [reflexivity|]. split; [exact HF|]. split; reflexivity.
  - destruct (work s) as [|j rest] eqn:Ew.
    + inversion H; subst. exists [], m. rewrite app_nil_r. split; [reflexivity|]. split; [reflexivity|]. split; [exact HF|]. split; reflexivity.
    + destruct (choose s picks) as [[p picks']|] eqn:Ech.
      * destruct (choose_spec _ _ _ _ Ech) as [Hin _].
        unfold FullS in HF. rewrite Ew in HF.
        destruct (D_step _ _ _ _ _ _ _ _ p HF Hin) as (C1 & C2 & HF1).
        specialize (IH _ _ _ _ _ _ H HF1). destruct IH as (new & m' & Hds & Hjd & HF' & E1 & E2).
        exists ((j, p, job_timeout s j) :: new), m'. split; [rewrite Hds, <- app_assoc; reflexivity|].
        split; [|split; [exact HF' | split; [exact E1 | exact E2]]].
        cbn [jdisp]. rewrite C1, C2. cbn [negb andb]. exact Hjd.
      * inversion H; subst. exists [], m. rewrite app_nil_r. split; [reflexivity|]. split; [reflexivity|]. split; [exact HF|]. split; reflexivity.
Qed.

(* ----------------------------------------- a result, by what becomes of it *)
Lemma unans_upd_same : forall js j p X l,
  status_of js j = Some (Running p) -> X <> Answered -> unans (z_upd js j X) l = unans js l.
Proof.
  intros js j p X l Hr HX. apply unans_ext. intros j' _. rewrite is_answered_upd.
  destruct (j' =? j) eqn:E; [|reflexivity]. apply Z.eqb_eq in E. subst j'.
  unfold is_answered. unfold status_of in Hr. fold (status_of js j). unfold status_of. rewrite Hr.
  destruct X; try reflexivity. congruence.
Qed.

Lemma unans_upd_notin : forall js j X l, ~ In j l -> unans (z_upd js j X) l = unans js l.
Proof.
  intros js j X l Hn. apply unans_ext. intros j' Hj'. rewrite is_answered_upd.
  destruct (j' =? j) eqn:E; [|reflexivity]. apply Z.eqb_eq in E. subst j'. contradiction.
Qed.

Lemma unans_upd_ans : forall js j p l,
  status_of js j = Some (Running p) -> In j l -> NoDup l -> unans (z_upd js j Answered) l = unans js l - 1.
Proof.
  intros js j p l Hr Hin Hd. apply (unans_answer js (z_upd js j Answered) l j Hd Hin).
  - unfold is_answered. rewrite Hr. reflexivity.
  - rewrite is_answered_upd, Z.eqb_refl. unfold status_of in Hr. rewrite Hr. reflexivity.
  - intros j' _ Hne. rewrite is_answered_upd. replace (j' =? j) with false by lia. reflexivity.
Qed.

Definition mres (m : jst) (j p : Z) (X : jstatus) : jst :=
  set_jstat (set_jwt m (wt_busy (jwt m) p false)) (z_upd (jstat m) j X).

Lemma R_drop : forall wk bs qs ws bi qi m j p,
  FullC wk bs qs ws bi qi m -> status_of (jstat m) j = Some (Running p) ->
  FullC wk bs (z_del qs j) (upd_worker ws p None) bi qi (mres m j p Dropped).
Proof.
  intros wk bs qs ws bi qi m j p H Hr. unfold mres.
  apply (R_gen wk wk bs bs qs (z_del qs j) ws bi qi m j p Dropped H Hr).
  - right. left. reflexivity.
  - intros x Hx. left. exact Hx.
  - intros x Hx. exact Hx.
  - exact (f_sorted _ _ _ _ _ _ _ H).
  - intros j' Hne. apply z_get_del_other. exact Hne.
  - intros b. tauto.
  - intros b bt' Hb. rewrite (f_rem _ _ _ _ _ _ _ H b bt' Hb). unfold unanswered.
    symmetry. eapply unans_upd_same; [exact Hr | discriminate].
Qed.

Lemma R_ok : forall wk bs qs ws bi qi m j p bn bt b',
  FullC wk bs qs ws bi qi m -> status_of (jstat m) j = Some (Running p) ->
  batch_of (jbatches m) j = Some bn -> z_get bs bn = Some bt -> rem b' = rem bt - 1 ->
  FullC wk (z_upd bs bn b') (z_del qs j) (upd_worker ws p None) bi qi (mres m j p Answered).
Proof.
  intros wk bs qs ws bi qi m j p bn bt b' H Hr Hbo Hb Hrem. unfold mres.
  apply (R_gen wk wk bs (z_upd bs bn b') qs (z_del qs j) ws bi qi m j p Answered H Hr).
  - left. reflexivity.
  - intros x Hx. left. exact Hx.
  - intros x Hx. exact Hx.
  - exact (f_sorted _ _ _ _ _ _ _ H).
  - intros j' Hne. apply z_get_del_other. exact Hne.
  - intros b. rewrite z_get_upd. destruct (b =? bn) eqn:E; [|tauto].
    apply Z.eqb_eq in E. subst b. rewrite Hb. split; intros _; discriminate.
  - intros b bt' Hx. rewrite z_get_upd in Hx. destruct (b =? bn) eqn:E.
    + apply Z.eqb_eq in E. subst b. rewrite Hb in Hx. inversion Hx; subst bt'.
      rewrite Hrem, (f_rem _ _ _ _ _ _ _ H bn bt Hb). unfold unanswered. symmetry.
      eapply unans_upd_ans; [exact Hr | apply (f_bof _ _ _ _ _ _ _ H); exact Hbo | apply NoDup_jobs_of].
    + rewrite (f_rem _ _ _ _ _ _ _ H b bt' Hx). unfold unanswered. symmetry.
      apply unans_upd_notin. intros Hin. apply (f_bof _ _ _ _ _ _ _ H) in Hin. rewrite Hbo in Hin.
      inversion Hin. lia.
Qed.

Lemma R_requeue : forall wk bs qs ws bi qi m j p bn,
  FullC wk bs qs ws bi qi m -> status_of (jstat m) j = Some (Running p) ->
  batch_of (jbatches m) j = Some bn -> z_get qs j = Some bn -> z_get bs bn <> None ->
  FullC (insert_job j wk) bs (z_put (z_del qs j) j bn) (upd_worker ws p None) bi qi (mres m j p Queued).
Proof.
  intros wk bs qs ws bi qi m j p bn H Hr Hbo Hq Hb. unfold mres.
  assert (Hnw : ~ In j wk).
  { intros Hin. destruct (f_work _ _ _ _ _ _ _ H j Hin) as [E|E]; congruence. }
  apply (R_gen wk (insert_job j wk) bs bs qs (z_put (z_del qs j) j bn) ws bi qi m j p Queued H Hr).
  - right. right. split; [reflexivity|]. split.
    + unfold live_job. rewrite Hbo. apply mem_true_iff. apply (f_live _ _ _ _ _ _ _ H). exact Hb.
    + split; [apply In_insert_iff; left; reflexivity|]. rewrite z_get_put_same. symmetry. exact Hq.
  - intros x Hx. apply In_insert_iff in Hx. destruct Hx as [->|Hx]; [right; split; reflexivity | left; exact Hx].
  - intros x Hx. apply In_insert_iff. right. exact Hx.
  - apply insert_sorted; [exact (f_sorted _ _ _ _ _ _ _ H) | exact Hnw].
  - intros j' Hne. rewrite z_get_put_other; [|exact Hne]. apply z_get_del_other. exact Hne.
  - intros b. tauto.
  - intros b bt' Hx. rewrite (f_rem _ _ _ _ _ _ _ H b bt' Hx). unfold unanswered.
    symmetry. eapply unans_upd_same; [exact Hr | discriminate].
Qed.

Lemma j_event_result : forall m j p err o,
  j_event m (Result j p err) o =
  mres m j p (if live_job m j
              then (if is_ok err then Answered
                    else if is_canceled err || negb (is_nil (omax o)) then Dropped else Queued)
              else Dropped).
Proof.
  intros m j p err o. unfold j_event, mres. cbn [wt_event].
  change (live_job (set_jwt m (wt_busy (jwt m) p false)) j) with (live_job m j).
  destruct (live_job m j); reflexivity.
Qed.

Lemma j_retire_eq : forall m o vs, overd o = vs ->
  j_retire m o = retire (set_jlive m (filter (fun b => negb (mem b (map fst vs))) (jlive m))).
Proof. intros m o vs H. unfold j_retire. rewrite H. reflexivity. Qed.

Lemma j_succ_nodue : forall m e o vs,
  overd o = vs -> j_due m e = [] ->
  forallb (fun p => negb (verdict_eqb (snd p) VSuccess)) vs = true ->
  j_succ_ok m e o = true.
Proof.
  intros m e o vs Ho Hd Hv. unfold j_succ_ok, j_said. rewrite Hd, Ho. cbn [forallb].
  assert (E : filter (fun p : Z * verdict => verdict_eqb (snd p) VSuccess) vs = []).
  { clear Ho. induction vs as [|x t IH]; [reflexivity|]. cbn [forallb] in Hv. apply andb_true_iff in Hv.
    destruct Hv as [Hx Ht]. cbn [filter]. destruct (verdict_eqb (snd x) VSuccess); [discriminate | apply IH; exact Ht]. }
  rewrite E. reflexivity.
Qed.

(* what one event must establish: the monitor's success check passes and the
   relation holds again before the hand-outs *)
Definition EvOK (s1 : st) (m : jst) (e : ev) (vs : list (Z * verdict)) (mx : list Z) : Prop :=
  forall o, overd o = vs -> omax o = mx ->
    j_succ_ok (j_event m e o) e o = true /\ FullS s1 (j_retire (j_event m e o) o).

Lemma j_flags : forall m e o,
  jenv (j_retire (j_event m e o) o) = jenv m /\
  (jstopped m = false -> jstopped (j_retire (j_event m e o) o) = false).
Proof.
  intros m e o. destruct e; cbn; try (split; [reflexivity | intros H; exact H]).
  - split; [reflexivity | intros _; reflexivity].
  - destruct (live_job (set_jwt m (wt_busy (jwt m) p false)) j); cbn; split; try reflexivity; intros H; exact H.
Qed.

Lemma live_job_iff : forall wk bs qs ws bi qi m j bn,
  FullC wk bs qs ws bi qi m -> batch_of (jbatches m) j = Some bn ->
  live_job m j = match z_get bs bn with Some _ => true | None => false end.
Proof.
  intros wk bs qs ws bi qi m j bn H Hbo. unfold live_job. rewrite Hbo.
  destruct (z_get bs bn) eqn:E.
  - apply mem_true_iff. apply (f_live _ _ _ _ _ _ _ H). congruence.
  - apply mem_false_iff. intros Hin. apply (f_live _ _ _ _ _ _ _ H) in Hin. congruence.
Qed.

Lemma due_ok : forall wk bs qs ws bi qi m j p bn b',
  FullC wk bs qs ws bi qi (mres m j p Answered) ->
  batch_of (jbatches m) j = Some bn -> z_get bs bn = Some b' ->
  j_due (mres m j p Answered) (Result j p JOk) = if rem b' =? 0 then [bn] else [].
Proof.
  intros wk bs qs ws bi qi m j p bn b' H Hbo Hb. unfold j_due.
  change (jbatches (mres m j p Answered)) with (jbatches m). rewrite Hbo.
  assert (Hm : mem bn (jlive (mres m j p Answered)) = true).
  { apply mem_true_iff. apply (f_live _ _ _ _ _ _ _ H). congruence. }
  rewrite Hm. cbn [andb].
  assert (Hr := f_rem _ _ _ _ _ _ _ H bn b' Hb). unfold unanswered in Hr.
  change (jbatches (mres m j p Answered)) with (jbatches m) in Hr.
  destruct (forallb (is_answered (jstat (mres m j p Answered))) (jobs_of (jbatches m) bn)) eqn:F.
  - apply unans_zero in F. replace (rem b' =? 0) with true by lia. reflexivity.
  - destruct (rem b' =? 0) eqn:R; [|reflexivity].
    assert (Z : unans (jstat (mres m j p Answered)) (jobs_of (jbatches m) bn) = 0) by lia.
    apply unans_zero in Z. congruence.
Qed.

Lemma succ_one : forall m e o bn,
  overd o = [(bn, VSuccess)] -> j_due m e = [bn] -> j_succ_ok m e o = true.
Proof.
  intros m e o bn Ho Hd. unfold j_succ_ok, j_said. rewrite Hd, Ho. cbn. rewrite Z.eqb_refl. reflexivity.
Qed.

Ltac fulls := unfold FullS;
  cbn [finish work batches queries workers batchIndex queryIndex
       set_batches set_rank set_queries set_workers set_envbad set_jobs set_work].

Ltac fail_br Hh Hlv Hdrop Hfin HF Hr Hbo Hq Hb :=
  match type of Hh with (if ?c then _ else _) = _ => destruct c eqn:Ecap end;
  [ inversion Hh; subst; (split; [reflexivity|]); (split; [reflexivity|]);
    intros o Ho Hm; rewrite j_event_result, Hlv, (j_retire_eq _ _ _ Ho), Hm;
    cbn [map fst is_ok is_canceled orb is_nil negb]; split;
    [ apply (j_succ_nodue _ _ _ _ Ho); reflexivity
    | fulls; eapply F_one; [exact Hdrop | exact Hfin] ]
  | match type of Hh with (if ?c then _ else _) = _ => destruct c eqn:Ehf end;
    inversion Hh; subst; (split; [reflexivity|]); (split; [reflexivity|]);
    intros o Ho Hm; rewrite j_event_result, Hlv, (j_retire_eq _ _ _ Ho), Hm;
    cbn [map fst is_ok is_canceled orb is_nil negb]; (split; [apply (j_succ_nodue _ _ _ _ Ho); reflexivity|]);
    fulls;
    [ eapply F_one; [eapply R_requeue; [exact HF | exact Hr | exact Hbo | exact Hq | congruence] | exact Hfin]
    | apply F_none; eapply R_requeue; [exact HF | exact Hr | exact Hbo | exact Hq | congruence] ] ].

Lemma E_result : forall s m j p err s1 vs mx,
  FullS s m ->
  status_of (jstat m) j = Some (Running p) ->
  handle s (Result j p err) = (s1, vs, mx) ->
  crashed s1 = crashed s /\ stopped s1 = stopped s /\ EvOK s1 m (Result j p err) vs mx.
Proof.
  intros s m j p err s1 vs mx HF Hr Hh.
  destruct (f_run _ _ _ _ _ _ _ HF j p Hr) as [[w [Hw Hwa]] [bn [Hbo Hq]]].
  cbn [handle] in Hh. unfold find_worker in Hh.
  change (find (fun w => wname w =? p) (workers s)) with (wlook (workers s) p) in Hh. rewrite Hw in Hh.
  unfold is_free in Hh. cbn [wactive] in Hh. rewrite Hwa in Hh.
  cbv zeta in Hh. cbn [queries set_workers set_envbad batches set_queries workers jobs set_rank] in Hh.
  rewrite Hq in Hh. rewrite Z.eqb_refl in Hh. cbn [negb] in Hh.
  assert (Hlv := live_job_iff _ _ _ _ _ _ _ _ _ HF Hbo).
  assert (Hdrop := R_drop _ _ _ _ _ _ _ _ _ HF Hr).
  destruct (z_get (batches s) bn) as [bt|] eqn:Hb.
  2:{ (* the batch is finished: the result is discarded *)
    inversion Hh; subst s1 vs mx. split; [reflexivity|]. split; [reflexivity|].
    intros o Ho Hm. rewrite j_event_result, Hlv, (j_retire_eq _ _ _ Ho). cbn [map]. split.
    - apply (j_succ_nodue _ _ _ [] Ho); [|reflexivity].
      destruct err; try reflexivity. unfold j_due.
      change (jbatches (mres m j p Dropped)) with (jbatches m). rewrite Hbo.
      change (jlive (mres m j p Dropped)) with (jlive m).
      unfold live_job in Hlv. rewrite Hbo in Hlv. rewrite Hlv. reflexivity.
    - fulls. apply F_none. exact Hdrop. }
  assert (Hfin : forall b, z_get (z_del (batches s) bn) b = if b =? bn then None else z_get (batches s) b)
    by (intros b; apply z_get_del).
  destruct err.
  - (* JOk *)
    cbn [rem] in Hh.
    assert (Hok : forall b', rem b' = rem bt - 1 ->
              FullC (work s) (z_upd (batches s) bn b') (z_del (queries s) j)
                    (upd_worker (workers s) p None) (batchIndex s) (queryIndex s) (mres m j p Answered)).
    { intros b' Hb'. eapply R_ok; eassumption. }
    assert (Hdue : forall b', rem b' = rem bt - 1 ->
              j_due (mres m j p Answered) (Result j p JOk) = if rem bt - 1 =? 0 then [bn] else []).
    { intros b' Hb'. rewrite <- Hb'. eapply due_ok; [apply (Hok b' Hb') | exact Hbo |].
      rewrite z_get_upd, Z.eqb_refl, Hb. reflexivity. }
    set (b1 := {| noRetryMax := noRetryMax bt; maxRetries := maxRetries bt; rem := rem bt - 1;
                  hardFired := hardFired bt; progT := progT bt; progGen := progGen bt |}) in *.
    assert (Hb1 : rem b1 = rem bt - 1) by reflexivity.
    assert (Hdel : forall b, z_get (z_del (batches s) bn) b =
              if b =? bn then None else z_get (z_upd (batches s) bn b1) b).
    { intros b. rewrite Hfin, z_get_upd. destruct (b =? bn); reflexivity. }
    destruct (rem bt - 1 =? 0) eqn:Er.
    + inversion Hh; subst s1 vs mx. split; [reflexivity|]. split; [reflexivity|].
      intros o Ho Hm. rewrite j_event_result, Hlv, (j_retire_eq _ _ _ Ho). cbn [map fst is_ok]. split.
      * apply (succ_one _ _ _ bn Ho). rewrite (Hdue b1 Hb1). reflexivity.
      * fulls. eapply F_one; [exact (Hok b1 Hb1) | exact Hdel].
    + destruct (hardFired bt) eqn:Eh.
      * inversion Hh; subst s1 vs mx. split; [reflexivity|]. split; [reflexivity|].
        intros o Ho Hm. rewrite j_event_result, Hlv, (j_retire_eq _ _ _ Ho). cbn [map fst is_ok]. split.
        -- apply (j_succ_nodue _ _ _ _ Ho); [|reflexivity]. rewrite (Hdue b1 Hb1). reflexivity.
        -- fulls. eapply F_one; [exact (Hok b1 Hb1) | exact Hdel].
      * inversion Hh; subst s1 vs mx. split; [reflexivity|]. split; [reflexivity|].
        intros o Ho Hm. rewrite j_event_result, Hlv, (j_retire_eq _ _ _ Ho). cbn [map fst is_ok]. split.
        -- apply (j_succ_nodue _ _ _ _ Ho); [|reflexivity]. rewrite (Hdue b1 Hb1). reflexivity.
        -- fulls. apply F_none. apply Hok. reflexivity.
  - fail_br Hh Hlv Hdrop Hfin HF Hr Hbo Hq Hb.
  - fail_br Hh Hlv Hdrop Hfin HF Hr Hbo Hq Hb.
  - (* JCanceled *)
    inversion Hh; subst s1 vs mx. split; [reflexivity|]. split; [reflexivity|].
    intros o Ho Hm. rewrite j_event_result, Hlv, (j_retire_eq _ _ _ Ho). cbn [map fst is_ok is_canceled orb]. split.
    + apply (j_succ_nodue _ _ _ _ Ho); reflexivity.
    + fulls. eapply F_one; [exact Hdrop | exact Hfin].
  - fail_br Hh Hlv Hdrop Hfin HF Hr Hbo Hq Hb.
Qed.

(* --------------------------------------------------- the other events *)
Definition wmap (f : worker -> worker) (p : Z) (ws : list worker) : list worker :=
  map (fun w => if wname w =? p then f w else w) ws.

Lemma wmap_names : forall f p ws, (forall w, wname (f w) = p) -> map wname (wmap f p ws) = map wname ws.
Proof.
  intros f p ws Hf. unfold wmap. rewrite map_map. apply map_ext.
  intros w. destruct (wname w =? p) eqn:E; [rewrite Hf; lia | reflexivity].
Qed.

Lemma wmap_look_other : forall f p ws p',
  (forall w, wname (f w) = p) -> p' <> p -> wlook (wmap f p ws) p' = wlook ws p'.
Proof.
  intros f p ws p' Hf Hne. unfold wlook, wmap. induction ws as [|x t IH]; cbn [map find]; [reflexivity|].
  destruct (wname x =? p) eqn:E.
  - rewrite Hf. replace (p =? p') with false by lia. replace (wname x =? p') with false by lia. exact IH.
  - destruct (wname x =? p'); [reflexivity | exact IH].
Qed.

Lemma wmap_In : forall f p ws w,
  In w (wmap f p ws) ->
  (exists w0, In w0 ws /\ wname w0 = p /\ w = f w0) \/ (In w ws /\ wname w <> p).
Proof.
  intros f p ws w H. unfold wmap in H. apply in_map_iff in H. destruct H as [x [Hx Hin]].
  destruct (wname x =? p) eqn:E.
  - left. exists x. split; [exact Hin|]. split; [lia | symmetry; exact Hx].
  - right. subst w. split; [exact Hin | lia].
Qed.

Lemma NoDup_snoc : forall (l : list Z) a, NoDup l -> ~ In a l -> NoDup (l ++ [a]).
Proof.
  induction l as [|x t IH]; intros a Hd Hn; cbn [app].
  - constructor; [intros [] | constructor].
  - inversion Hd as [|? ? Hx Hd']; subst. constructor.
    + rewrite in_app_iff. cbn [In]. intros [H|[H|[]]]; [contradiction|]. apply Hn. left. symmetry. exact H.
    + apply IH; [exact Hd'|]. intros H. apply Hn. right. exact H.
Qed.

Lemma wlook_app_some : forall ws x p w, wlook ws p = Some w -> wlook (ws ++ [x]) p = Some w.
Proof.
  intros ws x p w. unfold wlook. induction ws as [|a t IH]; cbn [app find]; [discriminate|].
  destruct (wname a =? p); [intros H; exact H | exact IH].
Qed.

Lemma wlook_none : forall ws p, wlook ws p = None -> ~ In p (map wname ws).
Proof.
  intros ws p H Hin. apply in_map_iff in Hin. destruct Hin as [w [Hn Hin]].
  apply (find_none _ _ H) in Hin. lia.
Qed.

Lemma E_newbatch : forall s m n nr rt pt s1 vs mx,
  FullS s m ->
  handle s (NewBatch n nr rt pt) = (s1, vs, mx) ->
  crashed s1 = crashed s /\ stopped s1 = stopped s /\ EvOK s1 m (NewBatch n nr rt pt) vs mx.
Proof.
  intros s m n nr rt pt s1 vs mx HF Hh. cbn [handle] in Hh. inversion Hh; subst s1 vs mx.
  split; [reflexivity|]. split; [reflexivity|]. intros o Ho Hm. split.
  - apply (j_succ_nodue _ _ _ [] Ho); reflexivity.
  - rewrite (j_retire_eq _ _ _ Ho). cbn [map]. apply F_none.
    exact (N_new (work s) (batches s) (queries s) (workers s) (batchIndex s) (queryIndex s) m
                 (j_event m (NewBatch n nr rt pt) o) n
                 {| noRetryMax := nr; maxRetries := rt; rem := Z.of_nat n; hardFired := false; progT := pt;
                    progGen := if pt =? 0 then 0 else 1 |} HF eq_refl eq_refl eq_refl eq_refl eq_refl eq_refl eq_refl).
Qed.

Lemma E_quiet : forall s m e s1 vs mx bs',
  FullS s m ->
  j_event m e (mk_obs s1 [] vs mx) = set_jwt m (jwt m) ->
  (forall o, j_event m e o = j_event m e (mk_obs s1 [] vs mx)) ->
  (forall o, j_due (j_event m e o) e = []) ->
  work s1 = work s -> queries s1 = queries s -> workers s1 = workers s ->
  batchIndex s1 = batchIndex s -> queryIndex s1 = queryIndex s -> batches s1 = bs' ->
  (vs = [] /\ (forall b, z_get bs' b <> None <-> z_get (batches s) b <> None) /\
   (forall b bt', z_get bs' b = Some bt' -> exists bt, z_get (batches s) b = Some bt /\ rem bt' = rem bt)) \/
  (exists bn, vs = [(bn, VTimeout)] /\ forall b, z_get bs' b = if b =? bn then None else z_get (batches s) b) ->
  EvOK s1 m e vs mx.
Proof.
  intros s m e s1 vs mx bs' HF Hev Hevo Hdue E1 E2 E3 E4 E5 E6 Hcase o Ho Hm.
  rewrite (Hevo o), Hev. split.
  - unfold j_succ_ok, j_said. rewrite <- Hev, <- (Hevo o), Hdue, Ho. cbn [forallb].
    destruct Hcase as [[-> _] | [bn [-> _]]]; reflexivity.
  - unfold FullS. rewrite E1, E2, E3, E4, E5, E6. rewrite (j_retire_eq _ _ _ Ho).
    apply FullC_jwt_same in HF.
    destruct Hcase as [(-> & Hk & Hr) | [bn [-> Hk]]]; cbn [map fst].
    + apply (F_gen _ _ bs' _ _ _ _ _ [] HF); [|exact Hr].
      intros b. rewrite Hk. cbn. tauto.
    + eapply F_one; [exact HF | exact Hk].
Qed.

Lemma E_hard : forall s m b s1 vs mx,
  FullS s m -> handle s (HardTimer b) = (s1, vs, mx) ->
  crashed s1 = crashed s /\ stopped s1 = stopped s /\ EvOK s1 m (HardTimer b) vs mx.
Proof.
  intros s m b s1 vs mx HF Hh. cbn [handle] in Hh.
  destruct (z_get (batches s) b) as [bt|] eqn:Hb; inversion Hh; subst s1 vs mx;
    (split; [reflexivity|]); (split; [reflexivity|]).
  - eapply (E_quiet s m); try reflexivity; [exact HF|]. left. split; [reflexivity|].
    cbn [batches set_batches]. split.
    + intros b0. rewrite z_get_upd. destruct (b0 =? b) eqn:E; [|tauto].
      apply Z.eqb_eq in E. subst b0. rewrite Hb. split; intros _; discriminate.
    + intros b0 bt' Hx. rewrite z_get_upd in Hx. destruct (b0 =? b) eqn:E.
      * apply Z.eqb_eq in E. subst b0. rewrite Hb in Hx. inversion Hx; subst bt'.
        exists bt. split; [exact Hb | reflexivity].
      * exists bt'. split; [exact Hx | reflexivity].
  - eapply (E_quiet s m); try reflexivity; [exact HF|]. left. split; [reflexivity|]. split.
    + intros b0. tauto.
    + intros b0 bt' Hx. exists bt'. split; [exact Hx | reflexivity].
Qed.

Lemma E_cancel : forall s m b s1 vs mx,
  FullS s m -> handle s (Cancel b) = (s1, vs, mx) ->
  crashed s1 = crashed s /\ stopped s1 = stopped s /\ EvOK s1 m (Cancel b) vs mx.
Proof.
  intros s m b s1 vs mx HF Hh. cbn [handle] in Hh. inversion Hh; subst s1 vs mx.
  split; [reflexivity|]. split; [reflexivity|].
  eapply (E_quiet s m); try reflexivity; [exact HF|]. left. split; [reflexivity|]. split.
  - intros b0. tauto.
  - intros b0 bt' Hx. exists bt'. split; [exact Hx | reflexivity].
Qed.

Lemma E_wake : forall s m b g s1 vs mx,
  FullS s m -> handle s (ProgressWake b g) = (s1, vs, mx) ->
  crashed s1 = crashed s /\ stopped s1 = stopped s /\ EvOK s1 m (ProgressWake b g) vs mx.
Proof.
  intros s m b g s1 vs mx HF Hh. cbn [handle] in Hh.
  assert (Hsame : EvOK s m (ProgressWake b g) [] []).
  { eapply (E_quiet s m); try reflexivity; [exact HF|]. left. split; [reflexivity|]. split.
    - intros b0. tauto.
    - intros b0 bt' Hx. exists bt'. split; [exact Hx | reflexivity]. }
  destruct (z_get (batches s) b) as [bt|] eqn:Hb.
  - destruct (g =? progGen bt).
    + inversion Hh; subst s1 vs mx. split; [reflexivity|]. split; [reflexivity|].
      eapply (E_quiet s m); try reflexivity; [exact HF|]. right. exists b. split; [reflexivity|].
      intros b0. cbn [finish batches set_batches]. apply z_get_del.
    + inversion Hh; subst s1 vs mx. split; [reflexivity|]. split; [reflexivity|]. exact Hsame.
  - inversion Hh; subst s1 vs mx. split; [reflexivity|]. split; [reflexivity|]. exact Hsame.
Qed.

Lemma E_workers : forall s m e s1 ws',
  FullS s m ->
  (forall o, j_event m e o = set_jwt m (wt_event (jwt m) e)) ->
  (forall o, j_due (j_event m e o) e = []) ->
  wt_event (proj (workers s)) e = proj ws' ->
  work s1 = work s -> queries s1 = queries s -> workers s1 = ws' ->
  batchIndex s1 = batchIndex s -> queryIndex s1 = queryIndex s -> batches s1 = batches s ->
  NoDup (map wname ws') ->
  (forall p' w' j, wlook (workers s) p' = Some w' -> wactive w' = Some j ->
     exists w'', wlook ws' p' = Some w'' /\ wactive w'' = Some j) ->
  (forall w' j, In w' ws' -> wactive w' = Some j ->
     exists w0, In w0 (workers s) /\ wname w0 = wname w' /\ wactive w0 = Some j) ->
  EvOK s1 m e [] [].
Proof.
  intros s m e s1 ws' HF Hev Hdue Hwt E1 E2 E3 E4 E5 E6 Hd H1 H2 o Ho Hm. split.
  - apply (j_succ_nodue _ _ _ [] Ho); [apply Hdue | reflexivity].
  - unfold FullS. rewrite E1, E2, E3, E4, E5, E6, (j_retire_eq _ _ _ Ho), Hev. cbn [map].
    apply F_none. eapply W_gen; [exact HF | | exact Hd | exact H1 | exact H2].
    rewrite (f_wt _ _ _ _ _ _ _ HF). exact Hwt.
Qed.

Lemma E_peer : forall s m p s1 vs mx,
  FullS s m -> env_event_ok m (PeerConnected p) = true ->
  handle s (PeerConnected p) = (s1, vs, mx) ->
  crashed s1 = crashed s /\ stopped s1 = stopped s /\ EvOK s1 m (PeerConnected p) vs mx.
Proof.
  intros s m p s1 vs mx HF Henv Hh. cbn [handle] in Hh. inversion Hh; subst s1 vs mx; clear Hh.
  split; [reflexivity|]. split; [reflexivity|].
  cbn [env_event_ok] in Henv. rewrite (f_wt _ _ _ _ _ _ _ HF), proj_get in Henv.
  assert (Hnd := f_names _ _ _ _ _ _ _ HF).
  unfold find_worker. change (find (fun w => wname w =? p) (workers s)) with (wlook (workers s) p).
  destruct (wlook (workers s) p) as [w|] eqn:Hw.
  - cbn [option_map] in Henv. apply andb_true_iff in Henv. destruct Henv as [_ Hnb].
    assert (Hwa : wactive w = None) by (destruct (wactive w); [discriminate | reflexivity]).
    set (f := fun _ : worker => {| wname := p; wactive := None; wexited := false |}).
    assert (Hf : forall x, wname (f x) = p) by reflexivity.
    apply (E_workers s m (PeerConnected p) _ (wmap f p (workers s)) HF); try reflexivity.
    + cbn [wt_event]. unfold wt_connect. rewrite proj_get, Hw. cbn [option_map].
      unfold proj, wmap. rewrite !map_map. apply map_ext. intros w0.
      unfold wproj at 1. cbn [fst]. destruct (wname w0 =? p); reflexivity.
    + rewrite wmap_names; assumption.
    + intros p' w' j Hw' Ha'. assert (p' <> p).
      { intros ->. rewrite Hw in Hw'. inversion Hw'; subst w'. congruence. }
      exists w'. split; [rewrite wmap_look_other; assumption | exact Ha'].
    + intros w' j Hin Ha'. apply wmap_In in Hin. destruct Hin as [[w0 [_ [_ ->]]] | [Hin _]].
      * discriminate.
      * exists w'. split; [exact Hin|]. split; [reflexivity | exact Ha'].
  - apply (E_workers s m (PeerConnected p) _ (workers s ++ [{| wname := p; wactive := None; wexited := false |}]) HF);
      try reflexivity.
    + cbn [wt_event]. unfold wt_connect. rewrite proj_get, Hw. cbn [option_map].
      unfold proj. rewrite map_app. reflexivity.
    + rewrite map_app. cbn [map wname]. apply NoDup_snoc; [exact Hnd | apply wlook_none; exact Hw].
    + intros p' w' j Hw' Ha'. exists w'. split; [apply wlook_app_some; exact Hw' | exact Ha'].
    + intros w' j Hin Ha'. apply in_app_iff in Hin. destruct Hin as [Hin | [<- | []]]; [|discriminate].
      exists w'. split; [exact Hin|]. split; [reflexivity | exact Ha'].
Qed.

Lemma E_exit : forall s m p s1 vs mx,
  FullS s m -> env_event_ok m (WorkerExit p) = true ->
  handle s (WorkerExit p) = (s1, vs, mx) ->
  crashed s1 = crashed s /\ stopped s1 = stopped s /\ EvOK s1 m (WorkerExit p) vs mx.
Proof.
  intros s m p s1 vs mx HF Henv Hh. cbn [handle] in Hh. inversion Hh; subst s1 vs mx; clear Hh.
  split; [reflexivity|]. split; [reflexivity|].
  cbn [env_event_ok] in Henv. rewrite (f_wt _ _ _ _ _ _ _ HF), proj_free in Henv.
  apply mem_true_iff in Henv. apply free_In in Henv. destruct Henv as [w0 [Hin0 [Hn0 Hf0]]].
  assert (Hnd := f_names _ _ _ _ _ _ _ HF).
  assert (Hw0 : wlook (workers s) p = Some w0) by (rewrite <- Hn0; apply wlook_In_nodup; assumption).
  assert (Ha0 : wactive w0 = None) by (unfold is_free in Hf0; destruct (wactive w0); [discriminate | reflexivity]).
  set (f := fun w : worker => {| wname := p; wactive := wactive w; wexited := true |}).
  assert (Hf : forall x, wname (f x) = p) by reflexivity.
  apply (E_workers s m (WorkerExit p) _ (wmap f p (workers s)) HF); try reflexivity.
  - cbn [wt_event]. unfold wt_exit, proj, wmap. rewrite !map_map. apply map_ext. intros w.
    unfold wproj at 1. cbn [fst snd]. destruct (wname w =? p); reflexivity.
  - rewrite wmap_names; assumption.
  - intros p' w' j Hw' Ha'. assert (p' <> p).
    { intros ->. rewrite Hw0 in Hw'. inversion Hw'; subst w'. congruence. }
    exists w'. split; [rewrite wmap_look_other; assumption | exact Ha'].
  - intros w' j Hin Ha'. apply wmap_In in Hin. destruct Hin as [[w1 [Hin1 [Hn1 ->]]] | [Hin _]].
    + exists w1. split; [exact Hin1|]. split; [exact Hn1 | exact Ha'].
    + exists w'. split; [exact Hin|]. split; [reflexivity | exact Ha'].
Qed.

(* --------------------------------- a breach of the contract sets [envbad] *)
Lemma handle_envbad_mono : forall s e s1 vs mx,
  handle s e = (s1, vs, mx) -> envbad s = true -> envbad s1 = true.
Proof.
  intros s e s1 vs mx H Hb. destruct e; cbn [handle] in H.
  - inversion H; subst. exact Hb.
  - inversion H; subst. cbn. rewrite Hb. reflexivity.
  - inversion H; subst. cbn. rewrite Hb. reflexivity.
  - destruct (find_worker s p) as [w|]; [|inversion H; subst; reflexivity].
    match type of H with (if ?c then _ else _) = _ => destruct c end; [inversion H; subst; reflexivity|].
    cbv zeta in H. rewrite Hb in H. cbn [orb] in H.
    repeat break_match H; inversion H; subst s1; reflexivity.
  - destruct (z_get (batches s) b); inversion H; subst; exact Hb.
  - destruct (z_get (batches s) b) as [bt|]; [destruct (gen =? progGen bt)|]; inversion H; subst; exact Hb.
  - inversion H; subst. exact Hb.
  - inversion H; subst. exact Hb.
Qed.

Lemma handle_stopped : forall s e s1 vs mx, handle s e = (s1, vs, mx) -> stopped s1 = stopped s.
Proof.
  intros s e s1 vs mx H. destruct e.
  - apply handle_newbatch in H. tauto.
  - apply handle_quiet in H; [|exact I]. destruct H as (_ & _ & _ & [_ E] & _). exact E.
  - apply handle_quiet in H; [|exact I]. destruct H as (_ & _ & _ & [_ E] & _). exact E.
  - apply handle_result in H. destruct H as [[_ E] _]. exact E.
  - apply handle_quiet in H; [|exact I]. destruct H as (_ & _ & _ & [_ E] & _). exact E.
  - apply handle_wake in H. destruct H as ([_ E] & _). exact E.
  - apply handle_quiet in H; [|exact I]. destruct H as (_ & _ & _ & [_ E] & _). exact E.
  - apply handle_quiet in H; [|exact I]. destruct H as (_ & _ & _ & [_ E] & _). exact E.
Qed.

Lemma env_breach : forall s m e s1 vs mx,
  FullS s m -> env_event_ok m e = false -> handle s e = (s1, vs, mx) -> envbad s1 = true.
Proof.
  intros s m e s1 vs mx HF Henv H. destruct e; cbn [env_event_ok] in Henv; try discriminate; cbn [handle] in H.
  - (* PeerConnected *)
    inversion H; subst s1 vs mx; clear H. cbn [envbad set_envbad].
    rewrite (f_wt _ _ _ _ _ _ _ HF), proj_get in Henv. unfold find_worker.
    change (find (fun w => wname w =? p) (workers s)) with (wlook (workers s) p).
    destruct (wlook (workers s) p) as [w|]; cbn [option_map] in Henv; [|discriminate].
    apply orb_true_iff. right. destruct (wexited w), (wactive w); cbn in *; congruence.
  - (* WorkerExit *)
    inversion H; subst s1 vs mx; clear H. cbn [envbad set_envbad].
    rewrite (f_wt _ _ _ _ _ _ _ HF), proj_free in Henv. apply mem_false_iff in Henv.
    apply orb_true_iff. right. unfold find_worker.
    change (find (fun w => wname w =? p) (workers s)) with (wlook (workers s) p).
    destruct (wlook (workers s) p) as [w|] eqn:Hw; [|reflexivity].
    destruct (wexited w) eqn:Ex; [reflexivity|]. destruct (wactive w) eqn:Ea; [reflexivity|].
    exfalso. apply Henv. apply free_In. apply wlook_some in Hw. destruct Hw as [Hin Hn].
    exists w. split; [exact Hin|]. split; [exact Hn|]. unfold is_free. rewrite Ea, Ex. reflexivity.
  - (* Result *)
    unfold find_worker in H. change (find (fun w => wname w =? p) (workers s)) with (wlook (workers s) p) in H.
    destruct (wlook (workers s) p) as [w|] eqn:Hw; [|inversion H; subst; reflexivity].
    match type of H with (if ?c then _ else _) = _ => destruct c end; [inversion H; subst; reflexivity|].
    cbv zeta in H.
    assert (Hbad : match wactive w with Some a => negb (a =? j) | None => true end = true).
    { destruct (wactive w) as [a|] eqn:Ea; [|reflexivity]. destruct (a =? j) eqn:E; [|reflexivity].
      exfalso. apply Z.eqb_eq in E. subst a. apply wlook_some in Hw. destruct Hw as [Hin Hn].
      rewrite (f_act _ _ _ _ _ _ _ HF w j Hin Ea), Hn, Z.eqb_refl in Henv. discriminate. }
    rewrite Hbad, orb_true_r in H.
    repeat break_match H; inversion H; subst s1; reflexivity.
Qed.

(* ----------------------------------------------------------- one step *)
Lemma step_nonquit : forall s e picks s1 vs mx s2 ds,
  crashed s = false -> stopped s = false -> e <> Quit ->
  handle s e = (s1, vs, mx) -> crashed s1 = false ->
  dispatch_phase (length (work s1)) s1 picks [] = (s2, ds) ->
  step s (e, picks) = (s2, mk_obs s2 ds vs mx).
Proof.
  intros s e picks s1 vs mx s2 ds Hc Hs He Hh Hc1 Hd. unfold step. rewrite Hc, Hs.
  destruct e; try congruence; rewrite Hh, Hc1, Hd; reflexivity.
Qed.

Lemma step_nonquit_crash : forall s e picks s1 vs mx,
  crashed s = false -> stopped s = false -> e <> Quit ->
  handle s e = (s1, vs, mx) -> crashed s1 = true ->
  step s (e, picks) = (s1, mk_obs s1 [] vs mx).
Proof.
  intros s e picks s1 vs mx Hc Hs He Hh Hc1. unfold step. rewrite Hc, Hs.
  destruct e; try congruence; rewrite Hh, Hc1; reflexivity.
Qed.

Definition JI (s : st) (m : jst) : Prop :=
  (jstopped m = true /\ stopped s = true) \/
  (jstopped m = false /\ stopped s = false /\ jenv m = false /\ envbad s = true) \/
  (jstopped m = false /\ stopped s = false /\ jenv m = true /\ FullS s m).

Lemma FullS_init : FullS init jinit.
Proof.
  constructor; cbn; try reflexivity; try (intros; discriminate); try (intros; contradiction).
  - lia.
  - intros b. split; [intros [] | intros H; congruence].
  - intros j b. split; [discriminate | intros []].
  - constructor.
  - constructor.
Qed.

Lemma JI_init : JI init jinit.
Proof. right. right. split; [reflexivity|]. split; [reflexivity|]. split; [reflexivity | exact FullS_init]. Qed.

Lemma E_all : forall s m e s1 vs mx,
  FullS s m -> e <> Quit -> env_event_ok m e = true ->
  handle s e = (s1, vs, mx) ->
  crashed s1 = crashed s /\ stopped s1 = stopped s /\ EvOK s1 m e vs mx.
Proof.
  intros s m e s1 vs mx HF He Henv Hh. destruct e; try congruence.
  - eapply E_newbatch; eassumption.
  - eapply E_peer; eassumption.
  - eapply E_exit; eassumption.
  - cbn [env_event_ok] in Henv.
    destruct (status_of (jstat m) j) as [[]|] eqn:Es; try discriminate.
    apply Z.eqb_eq in Henv. subst p0. eapply E_result; eassumption.
  - eapply E_hard; eassumption.
  - eapply E_wake; eassumption.
  - eapply E_cancel; eassumption.
Qed.

Lemma jstep_sim : forall s m ep,
  crashed (fst (step s ep)) = false -> JI s m ->
  exists m', jstep m (fst ep, snd (step s ep)) = Some m' /\ JI (fst (step s ep)) m'.
Proof.
  intros s m [e picks] Hnc HI. cbn [fst].
  assert (Hc : crashed s = false).
  { destruct (crashed s) eqn:E; [|reflexivity]. rewrite (crashed_sticky_step s (e, picks) E) in Hnc. discriminate. }
  destruct HI as [[Hjs Hst] | HI].
  { (* after Quit *)
    exists m. split; [unfold jstep; rewrite Hjs; reflexivity|]. left. split; [exact Hjs|].
    apply stopped_sticky_step. exact Hst. }
  assert (Hjs : jstopped m = false) by (destruct HI as [[A _]|[A _]]; exact A).
  assert (Hst : stopped s = false) by (destruct HI as [(_ & A & _)|(_ & A & _)]; exact A).
  destruct (match e with Quit => true | _ => false end) eqn:Eq.
  { destruct e; try discriminate. eexists. split; [unfold jstep; rewrite Hjs; reflexivity|].
    left. split; [reflexivity|]. unfold step. rewrite Hc, Hst. reflexivity. }
  assert (He : e <> Quit) by (intros ->; discriminate).
  destruct (handle s e) as [[s1 vs] mx] eqn:Hh.
  destruct (crashed s1) eqn:Hc1.
  { rewrite (step_nonquit_crash _ _ _ _ _ _ Hc Hst He Hh Hc1) in Hnc. cbn [fst] in Hnc. congruence. }
  destruct (dispatch_phase (length (work s1)) s1 picks []) as [s2 ds] eqn:Hd.
  rewrite (step_nonquit _ _ _ _ _ _ _ _ Hc Hst He Hh Hc1 Hd). cbn [fst snd].
  destruct (dispatch_phase_frame _ _ _ _ _ _ Hd) as (_ & _ & Fst & _ & _ & _ & _ & Fenv & _).
  assert (Hst1 := handle_stopped _ _ _ _ _ Hh).
  destruct HI as [(_ & _ & Hjenv & Hbad) | (_ & _ & Hjenv & HF)].
  { (* the contract is already broken *)
    exists (set_jenv m false). split; [apply jstep_envbad; [exact Hjs | exact He | rewrite Hjenv; reflexivity]|].
    right. left. split; [exact Hjs|]. split; [congruence|]. split; [reflexivity|].
    rewrite Fenv. eapply handle_envbad_mono; eassumption. }
  destruct (env_event_ok m e) eqn:Henv.
  2:{ exists (set_jenv m false). split; [apply jstep_envbad; [exact Hjs | exact He | rewrite Henv; apply andb_false_r]|].
      right. left. split; [exact Hjs|]. split; [congruence|]. split; [reflexivity|].
      rewrite Fenv. eapply env_breach; eassumption. }
  destruct (E_all _ _ _ _ _ _ HF He Henv Hh) as (_ & _ & Hok).
  destruct (Hok (mk_obs s2 ds vs mx) eq_refl eq_refl) as [Hsucc HF1].
  destruct (j_flags m e (mk_obs s2 ds vs mx)) as [Fl1 Fl2]. specialize (Fl2 Hjs).
  destruct (dispatch_sim _ _ _ _ _ _ _ Hd HF1) as (new & m4 & Hds & Hjd & HF4 & Fl3 & Fl4).
  cbn [app] in Hds. subst new.
  rewrite (jstep_eq _ _ _ Hjs He Hjenv Henv). rewrite Hsucc. cbn [negb].
  cbn [odisp mk_obs]. rewrite Hjd.
  assert (Hidle : j_waiting m4 && negb (is_nil (wt_free (jwt m4))) = false).
  { destruct (dispatch_phase_complete _ _ _ _ _ _ Hd (le_n _)) as [Hw | Hf].
    - replace (j_waiting m4) with false; [reflexivity|]. symmetry.
      destruct (j_waiting m4) eqn:Ew; [|reflexivity]. exfalso. unfold j_waiting in Ew.
      apply existsb_exists in Ew. destruct Ew as [x [_ Hx]]. apply andb_true_iff in Hx. destruct Hx as [Hq _].
      unfold is_queued in Hq. destruct (status_of (jstat m4) (fst x)) as [[]|] eqn:E; try discriminate.
      destruct (f_q _ _ _ _ _ _ _ HF4 _ E) as (A & _). rewrite Hw in A. destruct A.
    - rewrite (f_wt _ _ _ _ _ _ _ HF4), proj_free. unfold free_workers in Hf. rewrite Hf.
      cbn [is_nil negb]. apply andb_false_r. }
  rewrite Hidle. exists m4. split; [reflexivity|].
  right. right. split; [congruence|]. split; [congruence|]. split; [congruence | exact HF4].
Qed.

Lemma jrun_model : forall inp, crashed (final inp) = false ->
  exists m, mon_run jstep jinit (trace inp) = Some m /\ JI (final inp) m.
Proof.
  intros inp H. unfold trace, final, run in *.
  exact (sim_run jstep JI jstep_sim inp init jinit JI_init H).
Qed.

(* The job monitor accepts every model trace (whatever the environment does:
   once the worker contract is broken the monitor stops judging). *)
Lemma jholds_model : forall inp, crashed (final inp) = false -> jholds (trace inp) = true.
Proof.
  intros inp H. destruct (jrun_model inp H) as [m [Hr _]]. unfold jholds. rewrite Hr. reflexivity.
Qed.
