(* C09 — replay of implementation traces against the model and the monitor.
   A case = genesis id, genesis time, list of (event, observation made on
   the real rescan goroutine after that event). *)
From Coq Require Import ZArith NArith List Bool.
From Verif Require Import C09.Model C09.Spec.
Import ListNotations.
Open Scope Z_scope.

(* short constructors for the generated files: every literal is a Z *)
Definition zin (i : Z * Z * Z) : outpoint * N :=
  let '(a, b, c) := i in ((Z.to_N a, Z.to_N b), Z.to_N c).
Definition O := Build_obs.
Definition T (id : Z) (ins : list (Z * Z * Z)) (outs : list Z) : tx :=
  {| txid := Z.to_N id; tins := map zin ins; touts := map Z.to_N outs |}.
Definition EE (id time : Z) (txs : list tx) : ev := EvExtend (Z.to_N id) time txs.
Definition ER : ev := EvRollback.
Definition ES (st stT en : Z) (addrs : list Z) (ins : list (Z * Z * Z)) : ev :=
  EvStart {| cstart := st; cstartT := stT; cend := en;
             caddrs := map Z.to_N addrs; cinputs := map zin ins |}.
Definition EU (addrs : list Z) (ins : list (Z * Z * Z)) (rw : Z) : ev :=
  EvUpdate {| uaddrs := map Z.to_N addrs; uinputs := map zin ins; urewind := rw |}.
Definition TOk : ev := TCall ROk.
Definition TFail : ev := TCall RFail.
Definition TNf : ev := TCall RNotFound.
Definition TN : ev := TRecvNtfn.
Definition TR : ev := TRetry.
Definition EC (b : bool) : ev := EvCurrent b.
Definition EQ : ev := EvQuit.
Definition CC (id prev k : Z) (txs : list Z) : cb := CbConn (Z.to_N id) (Z.to_N prev) k (map Z.to_N txs).
Definition CD (id prev k : Z) : cb := CbDisc (Z.to_N id) (Z.to_N prev) k.

Definition cb_eqb (a b : cb) : bool :=
  match a, b with
  | CbConn i p k t, CbConn i' p' k' t' => N.eqb i i' && N.eqb p p' && (k =? k') && listN_eqb t t'
  | CbDisc i p k, CbDisc i' p' k' => N.eqb i i' && N.eqb p p' && (k =? k')
  | _, _ => false
  end.
Fixpoint cbs_eqb (a b : list cb) : bool :=
  match a, b with
  | [], [] => true
  | x :: r, y :: q => cb_eqb x y && cbs_eqb r q
  | _, _ => false
  end.
Definition blocked_eqb (a b : blocked) : bool :=
  match a, b with
  | BIdle, BIdle => true
  | BSelect, BSelect => true
  | BCall k x, BCall k' x' => (k =? k') && (x =? x')
  | BDone, BDone => true
  | BDead, BDead => true
  | BExit, BExit => true
  | _, _ => false
  end.
Definition obs_eqb (a b : obs) : bool :=
  cbs_eqb (ocbs a) (ocbs b) && Bool.eqb (orecv a) (orecv b) && blocked_eqb (oblk a) (oblk b).

Definition noflags : gflags := {| g_nf := false; g_coll := false |}.

(* The ghost flags are made local for tagging: they are cleared before every
   step.  Ghost flags never influence the behaviour. *)
Definition relax (s : state) : state := set_gf noflags s.

(* rows for one case: model/implementation mismatch (kind 1, first only),
   monitor rejections of the IMPLEMENTATION trace (kind 2, every one, with
   the root-cause tag the model attaches to that step: 2 = catch-up told
   "hash not found" by the filter fetch, 0 = none; tag 1 was finding F10,
   repaired).  The model runs with the honest filter [matches]. *)
Fixpoint scan_case (id : Z) (s : state) (m : mon) (agree : bool) (i : Z)
         (tr : list (ev * obs)) : list (Z * Z * Z * Z) :=
  match tr with
  | [] => []
  | (e, ob) :: rest =>
    let '(s', mob) := step matches (relax s) e in
    let ok := obs_eqb mob ob in
    let '(m', a, b) := mon_step m (e, ob) in
    (if agree && negb ok then [(id, 1, i, 0)] else []) ++
    (if agree && g_coll (gf s') then [(id, 1, i, 9)] else []) ++
    (if a then [] else [(id, 2, i, 0)]) ++
    (if b then [] else [(id, 2, i, if agree && ok && g_nf (gf s') then 2 else 0)]) ++
    scan_case id s' m' (agree && ok) (i + 1) rest
  end.

Definition verdict (c : Z * (Z * Z * list (ev * obs))) : list (Z * Z * Z * Z) :=
  let '(id, (gid, gtime, tr)) := c in
  scan_case id (init (Z.to_N gid) gtime) (mon0 (Z.to_N gid) gtime) true 0 tr.

Definition run_cases (cs : list (Z * (Z * Z * list (ev * obs)))) : list (Z * Z * Z * Z) :=
  flat_map verdict cs.
